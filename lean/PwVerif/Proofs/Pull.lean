import PwVerif.Model.Pull
import PwVerif.Proofs.Conn
/-! Helper lemmas for C11 (pull): the upstream closure, the edge-set view of the temporary
rewiring, the linear run along the chain, restoration. -/
namespace PwVerif.Pull
open PwVerif PwVerif.Conn

/-! ## upstream closure -/

/-- `x` is `t` or upstream of `t` through data connections -/
inductive Reach (deps : Nat → List Nat) : Nat → Nat → Prop
  | refl (i : Nat) : Reach deps i i
  | step {i j k : Nat} : j ∈ deps i → Reach deps j k → Reach deps i k

theorem Reach.trans {deps : Nat → List Nat} {a b c : Nat} (h1 : Reach deps a b) (h2 : Reach deps b c) :
    Reach deps a c := by
  induction h1 with
  | refl => exact h2
  | step hj _ ih => exact .step hj (ih h2)

theorem Reach.tail {deps : Nat → List Nat} {a b c : Nat} (h1 : Reach deps a b) (h2 : c ∈ deps b) :
    Reach deps a c := h1.trans (.step h2 (.refl c))

theorem dfsAll_some (rec : Nat → Option (List Nat)) (js : List Nat) (l : List Nat)
    (h : dfsAll rec js = some l) :
    (∀ j ∈ js, ∃ a, rec j = some a ∧ ∀ x ∈ a, x ∈ l) ∧ (∀ x ∈ l, ∃ j ∈ js, ∃ a, rec j = some a ∧ x ∈ a) := by
  induction js generalizing l with
  | nil => simp [dfsAll] at h; subst h; simp
  | cons j js ih =>
    simp only [dfsAll] at h
    split at h
    · cases h
    · rename_i a ha
      cases hr : dfsAll rec js with
      | none => simp [hr] at h
      | some r =>
        simp [hr] at h
        subst h
        obtain ⟨ih1, ih2⟩ := ih r hr
        constructor
        · intro j' hj'
          rcases List.mem_cons.mp hj' with rfl | hj'
          · exact ⟨a, ha, fun x hx => List.mem_append_left _ hx⟩
          · obtain ⟨a', ha', hs⟩ := ih1 j' hj'
            exact ⟨a', ha', fun x hx => List.mem_append_right _ (hs x hx)⟩
        · intro x hx
          rcases List.mem_append.mp hx with hx | hx
          · exact ⟨j, List.mem_cons_self, a, ha, hx⟩
          · obtain ⟨j', hj', a', ha', hx'⟩ := ih2 x hx
            exact ⟨j', List.mem_cons_of_mem _ hj', a', ha', hx'⟩

theorem dfsAll_none (rec : Nat → Option (List Nat)) (js : List Nat)
    (h : dfsAll rec js = none) : ∃ j ∈ js, rec j = none := by
  induction js with
  | nil => simp [dfsAll] at h
  | cons j js ih =>
    simp only [dfsAll] at h
    split at h
    · rename_i hj; exact ⟨j, List.mem_cons_self, hj⟩
    · cases hr : dfsAll rec js with
      | none =>
        obtain ⟨j', hj', h'⟩ := ih hr
        exact ⟨j', List.mem_cons_of_mem _ hj', h'⟩
      | some r => simp [hr] at h

/-- members of the result are reachable -/
theorem dfs_sound (deps : Nat → List Nat) (f i : Nat) (l : List Nat) (h : dfs deps f i = some l) :
    ∀ x ∈ l, Reach deps i x := by
  induction f generalizing i l with
  | zero => simp [dfs] at h
  | succ f ih =>
    simp only [dfs] at h
    cases hr : dfsAll (dfs deps f) (deps i) with
    | none => simp [hr] at h
    | some r =>
      simp [hr] at h; subst h
      intro x hx
      rcases List.mem_cons.mp hx with rfl | hx
      · exact .refl _
      · obtain ⟨j, hj, a, ha, hxa⟩ := (dfsAll_some _ _ _ hr).2 x hx
        exact .step hj (ih j a ha x hxa)

/-- every reachable node is a member of the result -/
theorem dfs_complete (deps : Nat → List Nat) (i x : Nat) (hr : Reach deps i x) :
    ∀ f l, dfs deps f i = some l → x ∈ l := by
  induction hr with
  | refl i =>
    intro f l h
    cases f with
    | zero => simp [dfs] at h
    | succ f =>
      simp only [dfs] at h
      cases hr : dfsAll (dfs deps f) (deps i) with
      | none => simp [hr] at h
      | some r => simp [hr] at h; subst h; exact List.mem_cons_self
  | @step i j k hj _ ih =>
    intro f l h
    cases f with
    | zero => simp [dfs] at h
    | succ f =>
      simp only [dfs] at h
      cases hr : dfsAll (dfs deps f) (deps i) with
      | none => simp [hr] at h
      | some r =>
        simp [hr] at h; subst h
        obtain ⟨a, ha, hs⟩ := (dfsAll_some _ _ _ hr).1 j hj
        exact List.mem_cons_of_mem _ (hs k (ih f a ha))

/-- a node from which a cycle can be reached is refused with every amount of fuel -/
theorem dfs_cycle_none (deps : Nat → List Nat) (c : Nat) (hc : ∃ j ∈ deps c, Reach deps j c) :
    ∀ f i, Reach deps i c → dfs deps f i = none := by
  intro f
  induction f with
  | zero => intro i _; simp [dfs]
  | succ f ih =>
    intro i hi
    cases h : dfs deps (f + 1) i with
    | none => rfl
    | some l =>
      exfalso
      simp only [dfs] at h
      cases hr : dfsAll (dfs deps f) (deps i) with
      | none => simp [hr] at h
      | some r =>
        have hall := (dfsAll_some _ _ _ hr).1
        cases hi with
        | refl =>
          obtain ⟨j, hj, hjc⟩ := hc
          obtain ⟨a, ha, _⟩ := hall j hj
          rw [ih j hjc] at ha; cases ha
        | step hj hjc =>
          rename_i j
          obtain ⟨a, ha, _⟩ := hall j hj
          rw [ih j hjc] at ha; cases ha

/-- with a rank that decreases along data connections the recursion ends within `rank + 1` calls -/
theorem dfs_rank_some (deps : Nat → List Nat) (rank : Nat → Nat)
    (hrank : ∀ i j, j ∈ deps i → rank j < rank i) :
    ∀ f i, rank i < f → ∃ l, dfs deps f i = some l := by
  intro f
  induction f with
  | zero => intro i h; omega
  | succ f ih =>
    intro i hi
    simp only [dfs]
    cases hr : dfsAll (dfs deps f) (deps i) with
    | some r => exact ⟨_, rfl⟩
    | none =>
      exfalso
      obtain ⟨j, hj, hn⟩ := dfsAll_none _ _ hr
      obtain ⟨l, hl⟩ := ih j (by have := hrank i j hj; omega)
      rw [hn] at hl; cases hl


/-! ## the chain: a topological enumeration of the closure ends in the target -/

def Closed (deps : Nat → List Nat) (S : List Nat) : Prop := ∀ z ∈ S, ∀ d ∈ deps z, d ∈ S

theorem Closed.reach {deps : Nat → List Nat} {S : List Nat} (hS : Closed deps S) {a b : Nat}
    (h : Reach deps a b) (ha : a ∈ S) : b ∈ S := by
  induction h with
  | refl => exact ha
  | step hj _ ih => exact ih (hS _ ha _ hj)

theorem topoOk_split (deps : Nat → List Nat) (l1 l2 seen : List Nat)
    (h : topoOk deps seen (l1 ++ l2) = true) (hc : Closed deps seen) :
    Closed deps (l1.reverse ++ seen) ∧ topoOk deps (l1.reverse ++ seen) l2 = true := by
  induction l1 generalizing seen with
  | nil => simpa using ⟨hc, h⟩
  | cons x xs ih =>
    simp only [List.cons_append, topoOk, Bool.and_eq_true, List.all_eq_true, decide_eq_true_eq] at h
    have hc' : Closed deps (x :: seen) := by
      intro z hz d hd
      rcases List.mem_cons.mp hz with rfl | hz
      · exact List.mem_cons_of_mem _ (h.1 d hd)
      · exact List.mem_cons_of_mem _ (hc z hz d hd)
    have := ih (x :: seen) h.2 hc'
    simpa [List.reverse_cons, List.append_assoc] using this

/-- the data sources of every member of the chain come earlier in the chain -/
theorem topoOk_before (deps : Nat → List Nat) (l1 l2 : List Nat) (x : Nat)
    (h : topoOk deps [] (l1 ++ x :: l2) = true) : ∀ d ∈ deps x, d ∈ l1 := by
  have h2 := (topoOk_split deps l1 (x :: l2) [] h (by intro z hz; cases hz)).2
  simp only [topoOk, Bool.and_eq_true, List.all_eq_true, decide_eq_true_eq, List.append_nil] at h2
  intro d hd
  simpa using h2.1 d hd

theorem sameMembers_iff (a b : List Nat) : sameMembers a b = true ↔ ∀ x, x ∈ a ↔ x ∈ b := by
  simp only [sameMembers, Bool.and_eq_true, List.all_eq_true, decide_eq_true_eq]
  constructor
  · intro h x; exact ⟨h.1 x, h.2 x⟩
  · intro h; exact ⟨fun x hx => (h x).mp hx, fun x hx => (h x).mpr hx⟩

/-- the target closes every topological enumeration of its own closure -/
theorem chain_ends_in_target (deps : Nat → List Nat) (t : Nat) (chain : List Nat)
    (hnd : chain.Nodup) (hmem : ∀ x, x ∈ chain ↔ Reach deps t x) (htopo : topoOk deps [] chain = true) :
    ∃ pre, chain = pre ++ [t] := by
  have ht : t ∈ chain := (hmem t).mpr (.refl t)
  obtain ⟨l1, l2, rfl⟩ := List.append_of_mem ht
  cases l2 with
  | nil => exact ⟨l1, rfl⟩
  | cons y ys =>
    exfalso
    have hcl := (topoOk_split deps (l1 ++ [t]) (y :: ys) [] (by simpa using htopo)
      (by intro z hz; cases hz)).1
    have hy : Reach deps t y := (hmem y).mp (by simp)
    have : y ∈ (l1 ++ [t]).reverse ++ [] := hcl.reach hy (by simp)
    have hy' : y ∈ l1 ∨ y = t := by simpa [or_comm] using this
    have hnd' := hnd
    rw [List.nodup_append] at hnd'
    rcases hy' with hy' | hy'
    · exact hnd'.2.2 y hy' y (by simp) rfl
    · subst hy'
      have := hnd'.2.1
      simp at this


/-! ## edge-set view of the connection primitives (on a well-formed graph) -/

theorem mem_connect1 (g : G) (a b : Nat) (h : Inv g) (hk : (g.kind a).conj (g.kind b) = true)
    (hv : g.valid a b = true) (x y : Nat) :
    y ∈ (connect1 g a b).1.conns x ↔ y ∈ g.conns x ∨ (x = a ∧ y = b) ∨ (x = b ∧ y = a) := by
  have hab : a ≠ b := by
    intro e; subst e; simp [conj_irrefl] at hk
  unfold connect1
  split
  · rename_i hb
    have hb' := (h.symm a b).mp hb
    constructor
    · intro hy; exact Or.inl hy
    · rintro (hy | ⟨rfl, rfl⟩ | ⟨rfl, rfl⟩) <;> assumption
  · by_cases hxa : x = a <;> by_cases hxb : x = b <;> simp_all [updF] <;> grind

theorem mem_disconnect1 (g : G) (a b : Nat) (h : Inv g) (x y : Nat) :
    y ∈ (disconnect1 g a b).conns x ↔ y ∈ g.conns x ∧ ¬(x = a ∧ y = b) ∧ ¬(x = b ∧ y = a) := by
  unfold disconnect1
  split
  · rename_i hb
    have hab : a ≠ b := by
      intro e; subst e
      have := h.typed a a hb; simp [conj_irrefl] at this
    have hba : a ∈ g.conns b := (h.symm a b).mp hb
    have hmem : a ∈ (updF g.conns a ((g.conns a).erase b)) b := by
      simp [updF, Ne.symm hab, hba]
    simp only [hmem, if_true]
    have na := h.nodup a
    have nb := h.nodup b
    by_cases hxa : x = a <;> by_cases hxb : x = b <;>
      simp_all [updF, List.Nodup.mem_erase_iff] <;> grind
  · rename_i hb
    have hba : a ∉ g.conns b := fun hm => hb ((h.symm a b).mpr hm)
    constructor
    · intro hy
      refine ⟨hy, ?_, ?_⟩
      · rintro ⟨rfl, rfl⟩; exact hb hy
      · rintro ⟨rfl, rfl⟩; exact hba hy
    · intro hy; exact hy.1

theorem mem_disconnect (g : G) (a : Nat) (bs : List Nat) (h : Inv g) (x y : Nat) :
    y ∈ (disconnect g a bs).conns x ↔
      y ∈ g.conns x ∧ ¬(x = a ∧ y ∈ bs) ∧ ¬(y = a ∧ x ∈ bs) := by
  unfold disconnect
  induction bs generalizing g with
  | nil => simp
  | cons b bs ih =>
    simp only [List.foldl_cons]
    rw [ih _ (disconnect1_inv g a b h), mem_disconnect1 g a b h]
    simp only [List.mem_cons]
    constructor
    · rintro ⟨⟨h1, h2, h3⟩, h4, h5⟩
      refine ⟨h1, ?_, ?_⟩
      · rintro ⟨rfl, rfl | hy⟩
        · exact h2 ⟨rfl, rfl⟩
        · exact h4 ⟨rfl, hy⟩
      · rintro ⟨rfl, rfl | hx⟩
        · exact h3 ⟨rfl, rfl⟩
        · exact h5 ⟨rfl, hx⟩
    · rintro ⟨h1, h2, h3⟩
      refine ⟨⟨h1, ?_, ?_⟩, ?_, ?_⟩
      · rintro ⟨rfl, rfl⟩; exact h2 ⟨rfl, Or.inl rfl⟩
      · rintro ⟨rfl, rfl⟩; exact h3 ⟨rfl, Or.inl rfl⟩
      · rintro ⟨rfl, hy⟩; exact h2 ⟨rfl, Or.inr hy⟩
      · rintro ⟨rfl, hx⟩; exact h3 ⟨rfl, Or.inr hx⟩

theorem mem_disconnectAll (g : G) (a : Nat) (h : Inv g) (x y : Nat) :
    y ∈ (disconnectAll g a).conns x ↔ y ∈ g.conns x ∧ x ≠ a ∧ y ≠ a := by
  unfold disconnectAll
  rw [mem_disconnect g a _ h]
  constructor
  · rintro ⟨h1, h2, h3⟩
    refine ⟨h1, ?_, ?_⟩
    · rintro rfl; exact h2 ⟨rfl, h1⟩
    · rintro rfl; exact h3 ⟨rfl, (h.symm _ _).mp h1⟩
  · rintro ⟨h1, h2, h3⟩
    exact ⟨h1, fun e => h2 e.1, fun e => h3 e.1⟩

theorem mem_disconnectChans (g : G) (cs : List Nat) (h : Inv g) (x y : Nat) :
    y ∈ (disconnectChans g cs).conns x ↔ y ∈ g.conns x ∧ x ∉ cs ∧ y ∉ cs := by
  unfold disconnectChans
  induction cs generalizing g with
  | nil => simp
  | cons c cs ih =>
    simp only [List.foldl_cons]
    rw [ih _ (disconnectAll_inv g c h), mem_disconnectAll g c h]
    simp only [List.mem_cons, not_or]
    constructor
    · rintro ⟨⟨h1, h2, h3⟩, h4, h5⟩; exact ⟨h1, ⟨h2, h4⟩, ⟨h3, h5⟩⟩
    · rintro ⟨h1, ⟨h2, h4⟩, ⟨h3, h5⟩⟩; exact ⟨⟨h1, h2, h3⟩, h4, h5⟩

theorem cutRec_fst (g : G) (cs : List Nat) : (cutRec g cs).1 = disconnectChans g cs := by
  induction cs generalizing g with
  | nil => rfl
  | cons c cs ih => simp [cutRec, ih, disconnectChans]

/-- every recorded pair was a connection of a cut channel -/
theorem cutRec_pairs_sound (g : G) (cs : List Nat) (h : Inv g) (a b : Nat)
    (hp : (a, b) ∈ (cutRec g cs).2) : a ∈ cs ∧ b ∈ g.conns a := by
  induction cs generalizing g with
  | nil => simp [cutRec] at hp
  | cons c cs ih =>
    simp only [cutRec, List.mem_append, List.mem_map] at hp
    rcases hp with ⟨b', hb', he⟩ | hp
    · cases he; exact ⟨List.mem_cons_self, hb'⟩
    · obtain ⟨h1, h2⟩ := ih _ (disconnectAll_inv g c h) hp
      exact ⟨List.mem_cons_of_mem _ h1, ((mem_disconnectAll g c h a b).mp h2).1⟩

/-- every connection of a cut channel is recorded, in one orientation or the other -/
theorem cutRec_pairs_complete (g : G) (cs : List Nat) (h : Inv g) (a b : Nat)
    (ha : a ∈ cs) (hb : b ∈ g.conns a) : (a, b) ∈ (cutRec g cs).2 ∨ (b, a) ∈ (cutRec g cs).2 := by
  induction cs generalizing g with
  | nil => cases ha
  | cons c cs ih =>
    simp only [cutRec, List.mem_append, List.mem_map]
    by_cases hac : a = c
    · subst hac; exact Or.inl (Or.inl ⟨b, hb, rfl⟩)
    · by_cases hbc : b = c
      · subst hbc; exact Or.inr (Or.inl ⟨a, (h.symm _ _).mp hb, rfl⟩)
      · have ha' : a ∈ cs := by
          rcases List.mem_cons.mp ha with e | e
          · exact absurd e hac
          · exact e
        have hb' : b ∈ (disconnectAll g c).conns a := (mem_disconnectAll g c h a b).mpr ⟨hb, hac, hbc⟩
        rcases ih _ (disconnectAll_inv g c h) ha' hb' with e | e
        · exact Or.inl (Or.inr e)
        · exact Or.inr (Or.inr e)

theorem reconnect_static (g : G) (pairs : List (Nat × Nat)) : SameStatic g (reconnect g pairs) := by
  unfold reconnect
  induction pairs generalizing g with
  | nil => exact .refl g
  | cons p ps ih => exact (connect1_static g p.1 p.2).trans (ih _)

theorem reconnect_inv (g : G) (pairs : List (Nat × Nat)) (h : Inv g) : Inv (reconnect g pairs) := by
  unfold reconnect
  induction pairs generalizing g with
  | nil => exact h
  | cons p ps ih => exact ih _ (connect1_inv g p.1 p.2 h)

theorem mem_reconnect (g : G) (pairs : List (Nat × Nat)) (h : Inv g)
    (hk : ∀ p ∈ pairs, (g.kind p.1).conj (g.kind p.2) = true) (hv : ∀ a b, g.valid a b = true)
    (x y : Nat) :
    y ∈ (reconnect g pairs).conns x ↔ y ∈ g.conns x ∨ (x, y) ∈ pairs ∨ (y, x) ∈ pairs := by
  unfold reconnect
  induction pairs generalizing g with
  | nil => simp
  | cons p ps ih =>
    simp only [List.foldl_cons]
    have hst := connect1_static g p.1 p.2
    rw [ih _ (connect1_inv g p.1 p.2 h)
      (by intro q hq; rw [hst.kind]; exact hk q (List.mem_cons_of_mem _ hq))
      (by intro a b; rw [hst.valid]; exact hv a b),
      mem_connect1 g p.1 p.2 h (hk p List.mem_cons_self) (hv _ _)]
    simp only [List.mem_cons]
    constructor
    · rintro ((h1 | ⟨rfl, rfl⟩ | ⟨rfl, rfl⟩) | h2 | h3)
      · exact Or.inl h1
      · exact Or.inr (Or.inl (Or.inl rfl))
      · exact Or.inr (Or.inr (Or.inl rfl))
      · exact Or.inr (Or.inl (Or.inr h2))
      · exact Or.inr (Or.inr (Or.inr h3))
    · rintro (h1 | (e | h2) | (e | h3))
      · exact Or.inl (Or.inl h1)
      · exact Or.inl (Or.inr (Or.inl (by cases e; exact ⟨rfl, rfl⟩)))
      · exact Or.inr (Or.inl h2)
      · exact Or.inl (Or.inr (Or.inr (by cases e; exact ⟨rfl, rfl⟩)))
      · exact Or.inr (Or.inr h3)


/-! ## channels of the pull world -/

theorem ch_mod (i k : Nat) (hk : k < 6) : ch i k % 6 = k := by unfold ch; omega
theorem ch_div (i k : Nat) (hk : k < 6) : ch i k / 6 = i := by unfold ch; omega

/-- signal channels: `run`, `accumulate_and_run` are inputs, the others outputs -/
def SigKinds (g : G) : Prop := ∀ c, g.kind c = if c % 6 < 2 then Kind.sigIn else Kind.sigOut

theorem SigKinds.of_static {g g' : G} (h : SigKinds g) (hs : SameStatic g g') : SigKinds g' := by
  intro c; rw [hs.kind]; exact h c

theorem SigKinds.run_ran {g : G} (h : SigKinds g) (a b : Nat) :
    (g.kind (ch b 0)).conj (g.kind (ch a 2)) = true := by
  rw [h, h, ch_mod _ _ (by omega), ch_mod _ _ (by omega)]; rfl

/-- consecutive members of the execution order -/
def Adj : List Nat → Nat → Nat → Prop
  | a :: b :: r, x, y => (x = a ∧ y = b) ∨ Adj (b :: r) x y
  | _, _, _ => False

theorem Adj.mem {L : List Nat} {x y : Nat} (h : Adj L x y) : x ∈ L ∧ y ∈ L := by
  induction L with
  | nil => simp [Adj] at h
  | cons a r ih =>
    cases r with
    | nil => simp [Adj] at h
    | cons b r' =>
      simp only [Adj] at h
      rcases h with ⟨rfl, rfl⟩ | h
      · simp
      · have := ih h
        exact ⟨List.mem_cons_of_mem _ this.1, List.mem_cons_of_mem _ this.2⟩

theorem wire_static (g : G) (L : List Nat) : SameStatic g (wire g L) := by
  induction L generalizing g with
  | nil => exact .refl g
  | cons a r ih =>
    cases r with
    | nil => exact .refl g
    | cons b r' => simp only [wire]; exact (connect1_static g _ _).trans (ih _)

theorem wire_inv (g : G) (L : List Nat) (h : Inv g) : Inv (wire g L) := by
  induction L generalizing g with
  | nil => exact h
  | cons a r ih =>
    cases r with
    | nil => exact h
    | cons b r' => simp only [wire]; exact ih _ (connect1_inv g _ _ h)

/-- the wiring adds exactly the `ran → run` edges between consecutive members -/
theorem mem_wire (g : G) (L : List Nat) (h : Inv g) (hk : SigKinds g) (hv : ∀ a b, g.valid a b = true)
    (x y : Nat) :
    y ∈ (wire g L).conns x ↔
      y ∈ g.conns x ∨ ∃ a b, Adj L a b ∧ ((x = ch b 0 ∧ y = ch a 2) ∨ (x = ch a 2 ∧ y = ch b 0)) := by
  induction L generalizing g with
  | nil => simp [wire, Adj]
  | cons a r ih =>
    cases r with
    | nil => simp [wire, Adj]
    | cons b r' =>
      simp only [wire]
      have hst := connect1_static g (ch b 0) (ch a 2)
      rw [ih _ (connect1_inv g _ _ h) (hk.of_static hst) (by intro p q; rw [hst.valid]; exact hv p q),
        mem_connect1 g _ _ h (hk.run_ran a b) (hv _ _)]
      simp only [Adj]
      constructor
      · rintro ((h1 | h1 | h1) | ⟨p, q, hpq, h2⟩)
        · exact Or.inl h1
        · exact Or.inr ⟨a, b, Or.inl ⟨rfl, rfl⟩, Or.inl h1⟩
        · exact Or.inr ⟨a, b, Or.inl ⟨rfl, rfl⟩, Or.inr h1⟩
        · exact Or.inr ⟨p, q, Or.inr hpq, h2⟩
      · rintro (h1 | ⟨p, q, (⟨rfl, rfl⟩ | hpq), h2⟩)
        · exact Or.inl (Or.inl h1)
        · rcases h2 with h2 | h2
          · exact Or.inl (Or.inr (Or.inl h2))
          · exact Or.inl (Or.inr (Or.inr h2))
        · exact Or.inr ⟨p, q, hpq, h2⟩


/-! ## the graph is restored (as sets) by the `finally` block -/

/-- well-formed signal graph -/
structure GWF (g : G) : Prop where
  inv : Inv g
  kinds : SigKinds g
  valid : ∀ a b, g.valid a b = true

theorem GWF.of_static {g g' : G} (h : GWF g) (hs : SameStatic g g') (hi : Inv g') : GWF g' :=
  ⟨hi, h.kinds.of_static hs, by intro a b; rw [hs.valid]; exact h.valid a b⟩

theorem GWF.disconnectChans {g : G} (h : GWF g) (cs : List Nat) : GWF (disconnectChans g cs) :=
  h.of_static (disconnectChans_static g cs) (disconnectChans_inv g cs h.inv)

theorem GWF.wire {g : G} (h : GWF g) (L : List Nat) : GWF (wire g L) :=
  h.of_static (wire_static g L) (wire_inv g L h.inv)

theorem GWF.reconnect {g : G} (h : GWF g) (ps : List (Nat × Nat)) : GWF (reconnect g ps) :=
  h.of_static (reconnect_static g ps) (reconnect_inv g ps h.inv)

theorem disconnectChans_append (g : G) (a b : List Nat) :
    disconnectChans g (a ++ b) = disconnectChans (disconnectChans g a) b := by
  simp [disconnectChans, List.foldl_append]

theorem foldl_disconnectRun (g : G) (order : List Nat) :
    order.foldl disconnectRun g = disconnectChans g (order.flatMap runChans) := by
  induction order generalizing g with
  | nil => rfl
  | cons i is ih =>
    simp only [List.foldl_cons, List.flatMap_cons, disconnectChans_append]
    rw [ih]; rfl

theorem mem_cutChans (order : List Nat) (x : Nat) :
    x ∈ cutChans order ↔ ∃ i ∈ order, x = ch i 0 ∨ x = ch i 1 ∨ x = ch i 2 := by
  simp [cutChans, List.mem_flatMap]

theorem mem_runChansOf (order : List Nat) (x : Nat) :
    x ∈ order.flatMap runChans ↔ ∃ i ∈ order, x = ch i 0 ∨ x = ch i 1 := by
  simp [runChans, List.mem_flatMap]

theorem mem_otherOutChans (order : List Nat) (x : Nat) :
    x ∈ otherOutChans order ↔ ∃ i ∈ order, x = ch i 3 ∨ x = ch i 4 ∨ x = ch i 5 := by
  simp [otherOutChans, List.mem_flatMap]

/-- cut (remembering the pairs), then re-connect the pairs: the same edges as before -/
theorem mem_cut_reconnect (g : G) (cs : List Nat) (h : GWF g) (x y : Nat) :
    y ∈ (reconnect (cutRec g cs).1 (cutRec g cs).2).conns x ↔ y ∈ g.conns x := by
  have hsound := cutRec_pairs_sound g cs h.inv
  have hcomp := cutRec_pairs_complete g cs h.inv
  have hsymm := h.inv.symm
  have h1 := h.disconnectChans cs
  rw [cutRec_fst] at *
  rw [mem_reconnect _ _ h1.inv
      (by intro p hp
          rw [(disconnectChans_static g cs).kind]
          exact h.inv.typed _ _ (hsound p.1 p.2 hp).2)
      h1.valid,
    mem_disconnectChans g cs h.inv]
  constructor
  · rintro (⟨h0, _, _⟩ | hp | hp)
    · exact h0
    · exact (hsound _ _ hp).2
    · exact (hsymm _ _).mp (hsound _ _ hp).2
  · intro h0
    by_cases hx : x ∈ cs
    · rcases hcomp x y hx h0 with e | e
      · exact Or.inr (Or.inl e)
      · exact Or.inr (Or.inr e)
    · by_cases hy : y ∈ cs
      · rcases hcomp y x hy ((hsymm _ _).mp h0) with e | e
        · exact Or.inr (Or.inr e)
        · exact Or.inr (Or.inl e)
      · exact Or.inl ⟨h0, hx, hy⟩


theorem restore_core (g gP : G) (order : List Nat) (pairs : List (Nat × Nat))
    (h : GWF g) (hP : GWF gP) (hst : SameStatic g gP)
    (h1 : ∀ x y, y ∈ gP.conns x → x ∉ order.flatMap runChans → y ∉ order.flatMap runChans → y ∈ g.conns x)
    (h2 : ∀ x y, y ∈ g.conns x →
      (y ∈ gP.conns x ∧ x ∉ order.flatMap runChans ∧ y ∉ order.flatMap runChans) ∨
        (x, y) ∈ pairs ∨ (y, x) ∈ pairs)
    (h3 : ∀ a b, (a, b) ∈ pairs → b ∈ g.conns a) :
    GWF (restoreG gP order pairs) ∧
      ∀ x y, y ∈ (restoreG gP order pairs).conns x ↔ y ∈ g.conns x := by
  unfold restoreG
  rw [foldl_disconnectRun]
  have h4 := hP.disconnectChans (order.flatMap runChans)
  refine ⟨h4.reconnect pairs, ?_⟩
  intro x y
  rw [mem_reconnect _ _ h4.inv
      (by intro p hp
          rw [(disconnectChans_static gP _).kind, hst.kind]
          exact h.inv.typed _ _ (h3 p.1 p.2 hp))
      h4.valid,
    mem_disconnectChans gP _ hP.inv]
  constructor
  · rintro (⟨h0, hx, hy⟩ | hp | hp)
    · exact h1 x y h0 hx hy
    · exact h3 _ _ hp
    · exact (h.inv.symm _ _).mp (h3 _ _ hp)
  · intro h0; exact h2 x y h0

/-- the output channels cut by the repaired variant -/
def extraChans (cfg : Cfg) (order : List Nat) : List Nat :=
  if cfg.cutAllOutputs then otherOutChans order else []

/-- `prepare` without its local definitions -/
theorem prepare_eq (cfg : Cfg) (g : G) (t : Nat) (order chain : List Nat) :
    prepare cfg g t order chain =
      if chain.headD t = t then
        (wire (disconnectChans g (cutChans order)) chain, (cutRec g (cutChans order)).2)
      else
        (disconnectChans (disconnectChans (wire (disconnectChans g (cutChans order)) chain)
            (extraChans cfg order)) (runChans t),
          (cutRec g (cutChans order)).2 ++
            (cutRec (wire (disconnectChans g (cutChans order)) chain) (extraChans cfg order)).2) := by
  unfold prepare disconnectRun extraChans
  simp only [cutRec_fst]
  split
  · rfl
  · split <;> simp [cutRec_fst, cutRec, disconnectChans]

theorem prepare_static (cfg : Cfg) (g : G) (t : Nat) (order chain : List Nat) :
    SameStatic g (prepare cfg g t order chain).1 := by
  have s2 := (disconnectChans_static g (cutChans order)).trans
    (wire_static (disconnectChans g (cutChans order)) chain)
  rw [prepare_eq]
  split
  · exact s2
  · exact (s2.trans (disconnectChans_static _ _)).trans (disconnectChans_static _ _)

theorem prepare_gwf (cfg : Cfg) (g : G) (t : Nat) (order chain : List Nat) (h : GWF g) :
    GWF (prepare cfg g t order chain).1 := by
  have i2 := ((h.disconnectChans (cutChans order)).wire chain)
  rw [prepare_eq]
  split
  · exact i2
  · exact (i2.disconnectChans _).disconnectChans _

/-- whatever ran in between (running changes no connection): after the `finally` block every
channel has the same set of connections as before the pull -/
theorem restore_prepare (cfg : Cfg) (g : G) (t : Nat) (order chain : List Nat) (h : GWF g)
    (hch : ∀ x ∈ chain, x ∈ order) (ht : t ∈ order) :
    GWF (restoreG (prepare cfg g t order chain).1 order (prepare cfg g t order chain).2) ∧
      ∀ x y, y ∈ (restoreG (prepare cfg g t order chain).1 order (prepare cfg g t order chain).2).conns x ↔
        y ∈ g.conns x := by
  refine restore_core g _ order _ h (prepare_gwf cfg g t order chain h) (prepare_static cfg g t order chain)
    ?_ ?_ ?_
  all_goals
    have hsound := cutRec_pairs_sound g (cutChans order) h.inv
    have hcomp := cutRec_pairs_complete g (cutChans order) h.inv
    have hsymm := h.inv.symm
    have hg1 := h.disconnectChans (cutChans order)
    have m1 := mem_disconnectChans g (cutChans order) h.inv
    have m2 := mem_wire (disconnectChans g (cutChans order)) chain hg1.inv hg1.kinds hg1.valid
    have hg2 := hg1.wire chain
    have hRC : ∀ x, x ∈ order.flatMap runChans → x ∈ cutChans order := by
      intro x hx
      obtain ⟨i, hi, e⟩ := (mem_runChansOf order x).mp hx
      exact (mem_cutChans order x).mpr ⟨i, hi, by rcases e with e | e <;> simp [e]⟩
    have htRC : ∀ x, x ∈ runChans t → x ∈ order.flatMap runChans := by
      intro x hx
      exact (mem_runChansOf order x).mpr ⟨t, ht, by simpa [runChans] using hx⟩
    have hEC : ∀ x, x ∈ extraChans cfg order → x ∈ otherOutChans order := by
      intro x hx; unfold extraChans at hx; split at hx
      · exact hx
      · cases hx
    have hW : ∀ x y, (∃ a b, Adj chain a b ∧ ((x = ch b 0 ∧ y = ch a 2) ∨ (x = ch a 2 ∧ y = ch b 0))) →
        (x ∈ order.flatMap runChans ∨ y ∈ order.flatMap runChans) ∧
          x ∉ otherOutChans order ∧ y ∉ otherOutChans order := by
      rintro x y ⟨a, b, hab, e⟩
      have hb : b ∈ order := hch b hab.mem.2
      have hin : ch b 0 ∈ order.flatMap runChans := (mem_runChansOf order _).mpr ⟨b, hb, Or.inl rfl⟩
      have hno : ∀ i k, k = 0 ∨ k = 2 → ch i k ∉ otherOutChans order := by
        intro i k hk hm
        obtain ⟨j, _, e⟩ := (mem_otherOutChans order _).mp hm
        unfold ch at e; omega
      rcases e with ⟨rfl, rfl⟩ | ⟨rfl, rfl⟩
      · exact ⟨Or.inl hin, hno _ _ (Or.inl rfl), hno _ _ (Or.inr rfl)⟩
      · exact ⟨Or.inr hin, hno _ _ (Or.inr rfl), hno _ _ (Or.inl rfl)⟩
    rw [prepare_eq]
  · -- what is left outside the closure's run inputs is old
    intro x y hy hx' hy'
    have key : y ∈ (wire (disconnectChans g (cutChans order)) chain).conns x := by
      split at hy
      · exact hy
      · exact disconnectChans_subset _ _ _ _ (disconnectChans_subset _ _ _ _ hy)
    rcases (m2 x y).mp key with hk | hk
    · exact ((m1 x y).mp hk).1
    · rcases (hW x y hk).1 with e | e
      · exact absurd e hx'
      · exact absurd e hy'
  · -- every old edge survives or is remembered
    intro x y h0
    by_cases hx : x ∈ cutChans order
    · rcases hcomp x y hx h0 with e | e
      · split
        · exact Or.inr (Or.inl e)
        · exact Or.inr (Or.inl (List.mem_append_left _ e))
      · split
        · exact Or.inr (Or.inr e)
        · exact Or.inr (Or.inr (List.mem_append_left _ e))
    · by_cases hy : y ∈ cutChans order
      · rcases hcomp y x hy ((hsymm _ _).mp h0) with e | e
        · split
          · exact Or.inr (Or.inr e)
          · exact Or.inr (Or.inr (List.mem_append_left _ e))
        · split
          · exact Or.inr (Or.inl e)
          · exact Or.inr (Or.inl (List.mem_append_left _ e))
      · have k1 : y ∈ (disconnectChans g (cutChans order)).conns x := (m1 x y).mpr ⟨h0, hx, hy⟩
        have k2 : y ∈ (wire (disconnectChans g (cutChans order)) chain).conns x := (m2 x y).mpr (Or.inl k1)
        have hxr : x ∉ order.flatMap runChans := fun e => hx (hRC x e)
        have hyr : y ∉ order.flatMap runChans := fun e => hy (hRC y e)
        split
        · exact Or.inl ⟨k2, hxr, hyr⟩
        · by_cases hxo : x ∈ extraChans cfg order
          · rcases cutRec_pairs_complete _ (extraChans cfg order) hg2.inv x y hxo k2 with e | e
            · exact Or.inr (Or.inl (List.mem_append_right _ e))
            · exact Or.inr (Or.inr (List.mem_append_right _ e))
          · by_cases hyo : y ∈ extraChans cfg order
            · rcases cutRec_pairs_complete _ (extraChans cfg order) hg2.inv y x hyo
                ((hg2.inv.symm _ _).mp k2) with e | e
              · exact Or.inr (Or.inr (List.mem_append_right _ e))
              · exact Or.inr (Or.inl (List.mem_append_right _ e))
            · refine Or.inl ⟨?_, hxr, hyr⟩
              rw [mem_disconnectChans _ _ (disconnectChans_inv _ _ hg2.inv),
                mem_disconnectChans _ _ hg2.inv]
              exact ⟨⟨k2, hxo, hyo⟩, fun e => hxr (htRC x e), fun e => hyr (htRC y e)⟩
  · -- the remembered pairs were connections
    intro a b hp
    have from1 : (a, b) ∈ (cutRec g (cutChans order)).2 → b ∈ g.conns a := fun e => (hsound a b e).2
    split at hp
    · exact from1 hp
    · rcases List.mem_append.mp hp with e | e
      · exact from1 e
      · obtain ⟨ha, hb⟩ := cutRec_pairs_sound _ _ hg2.inv a b e
        rcases (m2 a b).mp hb with hk | hk
        · exact ((m1 a b).mp hk).1
        · exact absurd (hEC a ha) (hW a b hk).2.1


/-! ## (repair) the remembered lists are assigned back: the graph is literally as before -/

theorem disconnect1_frame (g : G) (a b c : Nat) (ha : c ≠ a) (hb : c ≠ b) :
    (disconnect1 g a b).conns c = g.conns c := by
  unfold disconnect1
  split
  · dsimp only; split <;> simp [updF, ha, hb]
  · rfl

theorem connect1_frame (g : G) (a b c : Nat) (ha : c ≠ a) (hb : c ≠ b) :
    (connect1 g a b).1.conns c = g.conns c := by
  unfold connect1
  split
  · rfl
  · split
    · split
      · simp [updF, ha, hb]
      · rfl
    · rfl

theorem disconnect_frame (g : G) (a : Nat) (bs : List Nat) (c : Nat) (ha : c ≠ a) (hb : c ∉ bs) :
    (disconnect g a bs).conns c = g.conns c := by
  unfold disconnect
  induction bs generalizing g with
  | nil => rfl
  | cons b bs ih =>
    simp only [List.foldl_cons]
    rw [ih _ (fun h => hb (List.mem_cons_of_mem _ h)),
      disconnect1_frame g a b c ha (fun e => hb (e ▸ List.mem_cons_self))]

theorem disconnectChans_frame (g : G) (cs : List Nat) (c : Nat) (h : Inv g) (hc : c ∉ cs)
    (hn : ∀ y ∈ g.conns c, y ∉ cs) : (disconnectChans g cs).conns c = g.conns c := by
  unfold disconnectChans
  induction cs generalizing g with
  | nil => rfl
  | cons x cs ih =>
    simp only [List.foldl_cons]
    have hcx : c ≠ x := fun e => hc (e ▸ List.mem_cons_self)
    have hxc : c ∉ g.conns x := fun hm => hn x ((h.symm c x).mpr hm) List.mem_cons_self
    have e1 : (disconnectAll g x).conns c = g.conns c := disconnect_frame g x _ c hcx hxc
    rw [ih _ (disconnectAll_inv g x h) (fun hm => hc (List.mem_cons_of_mem _ hm))
      (by intro y hy; rw [e1] at hy; exact fun hm => hn y hy (List.mem_cons_of_mem _ hm)), e1]

theorem wire_frame (g : G) (L : List Nat) (c : Nat) (hc : ∀ a ∈ L, c ≠ ch a 0 ∧ c ≠ ch a 2) :
    (wire g L).conns c = g.conns c := by
  induction L generalizing g with
  | nil => rfl
  | cons a r ih =>
    cases r with
    | nil => rfl
    | cons b r' =>
      simp only [wire]
      rw [ih _ (fun x hx => hc x (List.mem_cons_of_mem _ hx)),
        connect1_frame g _ _ c (hc b (by simp)).1 (hc a (by simp)).2]

theorem mem_savedChans (g : G) (order : List Nat) (c : Nat) :
    c ∈ savedChans g order ↔
      (∃ i ∈ order, ∃ k, k < 6 ∧ c = ch i k) ∨ (∃ i ∈ order, ∃ k, k < 6 ∧ c ∈ g.conns (ch i k)) := by
  have own : ∀ z, z ∈ order.flatMap (fun i => [ch i 0, ch i 1, ch i 2, ch i 3, ch i 4, ch i 5]) ↔
      ∃ i ∈ order, ∃ k, k < 6 ∧ z = ch i k := by
    intro z
    simp only [List.mem_flatMap, List.mem_cons, List.not_mem_nil, or_false]
    constructor
    · rintro ⟨i, hi, e⟩
      rcases e with e | e | e | e | e | e <;> exact ⟨i, hi, _, by omega, e⟩
    · rintro ⟨i, hi, k, hk, e⟩
      refine ⟨i, hi, ?_⟩
      have : k = 0 ∨ k = 1 ∨ k = 2 ∨ k = 3 ∨ k = 4 ∨ k = 5 := by omega
      rcases this with rfl | rfl | rfl | rfl | rfl | rfl <;> simp [e]
  unfold savedChans
  simp only [List.mem_append]
  constructor
  · rintro (h | h)
    · exact Or.inl ((own c).mp h)
    · obtain ⟨z, hz, hc⟩ := List.mem_flatMap.mp h
      obtain ⟨i, hi, k, hk, e⟩ := (own z).mp hz
      exact Or.inr ⟨i, hi, k, hk, e ▸ hc⟩
  · rintro (h | ⟨i, hi, k, hk, hc⟩)
    · exact Or.inl ((own c).mpr h)
    · exact Or.inr (List.mem_flatMap.mpr ⟨ch i k, (own _).mpr ⟨i, hi, k, hk, rfl⟩, hc⟩)

/-- a channel that is neither a signal channel of the closure nor connected to one keeps its list
through the whole surgery -/
theorem prepare_frame (cfg : Cfg) (g : G) (t : Nat) (order chain : List Nat) (c : Nat) (h : GWF g)
    (hch : ∀ x ∈ chain, x ∈ order) (ht : t ∈ order) (hc : c ∉ savedChans g order) :
    (prepare cfg g t order chain).1.conns c = g.conns c := by
  have hown : ∀ i ∈ order, ∀ k, k < 6 → c ≠ ch i k := by
    intro i hi k hk e
    exact hc ((mem_savedChans g order c).mpr (Or.inl ⟨i, hi, k, hk, e⟩))
  have hpart : ∀ y ∈ g.conns c, ∀ i ∈ order, ∀ k, k < 6 → y ≠ ch i k := by
    intro y hy i hi k hk e
    apply hc
    refine (mem_savedChans g order c).mpr (Or.inr ⟨i, hi, k, hk, ?_⟩)
    rw [← e]; exact (h.inv.symm c y).mp hy
  have notin : ∀ (cs : List Nat), (∀ z ∈ cs, ∃ i ∈ order, ∃ k, k < 6 ∧ z = ch i k) →
      c ∉ cs ∧ ∀ y ∈ g.conns c, y ∉ cs := by
    intro cs hcs
    refine ⟨fun hm => ?_, fun y hy hm => ?_⟩
    · obtain ⟨i, hi, k, hk, e⟩ := hcs c hm; exact hown i hi k hk e
    · obtain ⟨i, hi, k, hk, e⟩ := hcs y hm; exact hpart y hy i hi k hk e
  have hCC := notin (cutChans order) (by
    intro z hz
    obtain ⟨i, hi, e⟩ := (mem_cutChans order z).mp hz
    rcases e with e | e | e <;> exact ⟨i, hi, _, by omega, e⟩)
  have hEC := notin (extraChans cfg order) (by
    intro z hz
    unfold extraChans at hz
    split at hz
    · obtain ⟨i, hi, e⟩ := (mem_otherOutChans order z).mp hz
      rcases e with e | e | e <;> exact ⟨i, hi, _, by omega, e⟩
    · cases hz)
  have hRT := notin (runChans t) (by
    intro z hz
    simp only [runChans, List.mem_cons, List.not_mem_nil, or_false] at hz
    rcases hz with e | e <;> exact ⟨t, ht, _, by omega, e⟩)
  have hg1 := h.disconnectChans (cutChans order)
  have e1 : (disconnectChans g (cutChans order)).conns c = g.conns c :=
    disconnectChans_frame g _ c h.inv hCC.1 hCC.2
  have e2 : (wire (disconnectChans g (cutChans order)) chain).conns c = g.conns c := by
    rw [wire_frame _ chain c (fun a ha => ⟨hown a (hch a ha) 0 (by omega), hown a (hch a ha) 2 (by omega)⟩), e1]
  rw [prepare_eq]
  split
  · exact e2
  · have hg2 := hg1.wire chain
    have e3 : (disconnectChans (wire (disconnectChans g (cutChans order)) chain) (extraChans cfg order)).conns c
        = g.conns c := by
      rw [disconnectChans_frame _ _ c hg2.inv hEC.1 (by rw [e2]; exact hEC.2), e2]
    rw [disconnectChans_frame _ _ c (hg2.disconnectChans _).inv hRT.1 (by rw [e3]; exact hRT.2), e3]

theorem restoreLists_prepare (cfg : Cfg) (g : G) (t : Nat) (order chain : List Nat) (h : GWF g)
    (hch : ∀ x ∈ chain, x ∈ order) (ht : t ∈ order) :
    (restoreLists g (prepare cfg g t order chain).1 order).conns = g.conns := by
  funext c
  simp only [restoreLists]
  split
  · rfl
  · rename_i hc
    exact prepare_frame cfg g t order chain c h hch ht hc

theorem GWF.of_conns_eq {g g' : G} (h : GWF g) (hs : SameStatic g g') (hc : g'.conns = g.conns) : GWF g' := by
  refine h.of_static hs ⟨?_, ?_, ?_⟩
  · intro a b; rw [hc]; exact h.inv.symm a b
  · intro a b hb; rw [hc] at hb; rw [hs.kind]; exact h.inv.typed a b hb
  · intro a; rw [hc]; exact h.inv.nodup a

/-- the graph part of the `finally` block, both variants -/
theorem finish_graph (cfg : Cfg) (g : G) (t : Nat) (order chain : List Nat) (h : GWF g)
    (hch : ∀ x ∈ chain, x ∈ order) (ht : t ∈ order) :
    GWF (if cfg.restoreLists then restoreLists g (prepare cfg g t order chain).1 order
          else restoreG (prepare cfg g t order chain).1 order (prepare cfg g t order chain).2) ∧
      (∀ x y, y ∈ (if cfg.restoreLists then restoreLists g (prepare cfg g t order chain).1 order
          else restoreG (prepare cfg g t order chain).1 order (prepare cfg g t order chain).2).conns x ↔
        y ∈ g.conns x) ∧
      (cfg.restoreLists = true →
        (if cfg.restoreLists then restoreLists g (prepare cfg g t order chain).1 order
          else restoreG (prepare cfg g t order chain).1 order (prepare cfg g t order chain).2).conns = g.conns) := by
  cases hr : cfg.restoreLists
  · simp only [Bool.false_eq_true, if_false, false_implies, and_true]
    exact restore_prepare cfg g t order chain h hch ht
  · simp only [if_true, true_implies]
    have e := restoreLists_prepare cfg g t order chain h hch ht
    refine ⟨h.of_conns_eq ?_ e, by intro x y; rw [e], e⟩
    have := prepare_static cfg g t order chain
    exact ⟨this.kind, this.owner, this.valid⟩

/-! ## the run along the chain -/

/-- nothing hangs on `failed` / `true` / `false` of the node -/
def Silent (g : G) (a : Nat) : Prop :=
  g.conns (ch a 3) = [] ∧ g.conns (ch a 4) = [] ∧ g.conns (ch a 5) = []

/-- every member's `ran` is connected to the `run` of the next member and to nothing else, the
last member's `ran` to nothing -/
def Linked (g : G) : List Nat → Prop
  | [] => True
  | [z] => Silent g z ∧ g.conns (ch z 2) = []
  | a :: b :: r => Silent g a ∧ g.conns (ch a 2) = [ch b 0] ∧ Linked g (b :: r)

theorem runFuel_empty (e : Env) (m : Mode) (f : Nat) (x : X) (h : x.stack = []) :
    runFuel e m f x = x := by
  cases f <;> simp [runFuel, h]

theorem emitItems_failed (e : Env) (a : Nat) (h : Silent e.g a) : emitItems e a false = [] := by
  simp [emitItems, fireAll, h.1]

theorem emitItems_ok (e : Env) (a : Nat) (h : Silent e.g a) :
    emitItems e a true = fireAll e (ch a 2) := by
  simp only [emitItems, if_true]
  cases e.truth a with
  | none => simp
  | some b => cases b <;> simp [fireAll, h.2.1, h.2.2]

/-- success of a run as the mode reports it -/
def cleanRun (m : Mode) (x x' : X) : Prop :=
  match m with
  | .dfs => x'.raised = false
  | .bfs => x'.errs = x.errs

/-- the members that are really executed: a member whose cache answers only emits -/
def executed (hit : Nat → Bool) (l : List Nat) : List Nat := l.filter (fun i => !hit i)

@[simp] theorem executed_nil (hit : Nat → Bool) : executed hit [] = [] := rfl

theorem executed_append (hit : Nat → Bool) (a b : List Nat) :
    executed hit (a ++ b) = executed hit a ++ executed hit b := by simp [executed]

/-- a member that neither refuses nor raises: its (possibly cached) run appends itself to the log
unless cached, and leaves exactly its `ran` emission on the stack -/
theorem startNode_passes (e : Env) (m : Mode) (x : X) (a : Nat) (hsil : Silent e.g a) (hs : x.stack = [])
    (h1 : (x.failed a || e.running a) = false) (h2 : e.hit a = true ∨ e.fails a = false) :
    startNode e m x a =
      { x with log := x.log ++ executed e.hit [a], stack := fireAll e (ch a 2) } := by
  unfold startNode
  simp only [h1, Bool.false_eq_true, if_false]
  by_cases hh : e.hit a = true
  · cases m <;> simp [hh, executed, emitItems_ok e a hsil, hs]
  · have hf : e.fails a = false := by
      rcases h2 with h2 | h2
      · exact absurd h2 hh
      · exact h2
    have hh' : e.hit a = false := by simpa using hh
    cases m <;> simp [hh', hf, executed, emitItems_ok e a hsil, hs]

theorem run_chain (e : Env) (m : Mode) (L : List Nat) :
    ∀ (a : Nat) (x : X) (fuel : Nat), Linked e.g (a :: L) → x.stack = [] → L.length + 2 ≤ fuel →
      (runFuel e m fuel (startNode e m x a)).stack = [] ∧
      x.errs ≤ (runFuel e m fuel (startNode e m x a)).errs ∧
      ∃ pre, pre <+: (a :: L) ∧
        (runFuel e m fuel (startNode e m x a)).log = x.log ++ executed e.hit pre ∧
        (cleanRun m x (runFuel e m fuel (startNode e m x a)) → pre = a :: L) := by
  induction L with
  | nil =>
    intro a x fuel hl hs hf
    obtain ⟨f, rfl⟩ : ∃ f, fuel = f + 2 := ⟨fuel - 2, by omega⟩
    simp only [Linked] at hl
    obtain ⟨hsil, hran⟩ := hl
    by_cases h1 : (x.failed a || e.running a) = true
    · unfold startNode
      cases m <;> simp [h1, runFuel, hs, cleanRun, executed] <;> exact ⟨[], List.nil_prefix, by simp⟩
    · have h1' : (x.failed a || e.running a) = false := by simpa using h1
      by_cases h2 : e.hit a = true ∨ e.fails a = false
      · rw [startNode_passes e m x a hsil hs h1' h2]
        simp only [fireAll, hran, List.map_nil]
        rw [runFuel_empty _ _ _ _ rfl]
        exact ⟨rfl, Nat.le_refl _, [a], List.prefix_refl _, rfl, fun _ => rfl⟩
      · have hh : e.hit a = false := by
          cases h : e.hit a <;> simp_all
        have hfl : e.fails a = true := by
          cases h : e.fails a <;> simp_all
        unfold startNode
        cases m
        · simp [h1', hh, hfl, emitItems_failed e a hsil, runFuel, step, hs, cleanRun, executed]
          exact ⟨[a], List.prefix_refl _, by simp [hh]⟩
        · simp [h1', hh, hfl, emitItems_failed e a hsil, runFuel, hs, cleanRun, executed]
          exact ⟨[a], List.prefix_refl _, by simp [hh]⟩
  | cons b r ih =>
    intro a x fuel hl hs hf
    obtain ⟨f, rfl⟩ : ∃ f, fuel = f + 1 := ⟨fuel - 1, by simp at hf; omega⟩
    simp only [Linked] at hl
    obtain ⟨hsil, hran, hrest⟩ := hl
    have hf' : r.length + 2 ≤ f := by simp at hf; omega
    by_cases h1 : (x.failed a || e.running a) = true
    · unfold startNode
      cases m <;> simp [h1, runFuel, hs, cleanRun, executed] <;> exact ⟨[], List.nil_prefix, by simp⟩
    · have h1' : (x.failed a || e.running a) = false := by simpa using h1
      by_cases h2 : e.hit a = true ∨ e.fails a = false
      · -- `a` runs (or its cache answers) and hands over to `b`
        have hmod : ch b 0 % 6 = 0 := ch_mod b 0 (by omega)
        have hdiv : ch b 0 / 6 = b := ch_div b 0 (by omega)
        rw [startNode_passes e m x a hsil hs h1' h2]
        simp only [fireAll, hran, List.map_cons, List.map_nil]
        simp only [runFuel, List.isEmpty_cons, Bool.false_eq_true, if_false, step, hmod, if_true, hdiv]
        obtain ⟨g1, g2, pre, hp, hlog, hcl⟩ :=
          ih b { x with log := x.log ++ executed e.hit [a], stack := [] } f hrest rfl hf'
        refine ⟨g1, g2, a :: pre, ?_, ?_, ?_⟩
        · exact List.prefix_cons_inj a |>.mpr hp
        · rw [hlog]
          have : a :: pre = [a] ++ pre := rfl
          rw [this, executed_append]; simp
        · intro hc
          have : pre = b :: r := by
            apply hcl
            cases m <;> simpa [cleanRun] using hc
          rw [this]
      · have hh : e.hit a = false := by
          cases h : e.hit a <;> simp_all
        have hfl : e.fails a = true := by
          cases h : e.fails a <;> simp_all
        unfold startNode
        cases m
        · simp [h1', hh, hfl, emitItems_failed e a hsil, runFuel, step, hs, cleanRun, executed]
          rw [runFuel_empty _ _ _ _ rfl]
          exact ⟨rfl, Nat.le_refl _, [a], by simp, by simp [hh], by simp⟩
        · simp [h1', hh, hfl, emitItems_failed e a hsil, runFuel, hs, cleanRun, executed]
          exact ⟨[a], by simp, by simp [hh]⟩

/-- the run along the linked chain only ever calls `run` inputs: no all-of trigger collects anything -/
theorem run_chain_recv (e : Env) (m : Mode) (L : List Nat) :
    ∀ (a : Nat) (x : X) (fuel : Nat), Linked e.g (a :: L) → x.stack = [] → L.length + 2 ≤ fuel →
      (runFuel e m fuel (startNode e m x a)).recv = x.recv := by
  induction L with
  | nil =>
    intro a x fuel hl hs hf
    obtain ⟨f, rfl⟩ : ∃ f, fuel = f + 2 := ⟨fuel - 2, by omega⟩
    simp only [Linked] at hl
    obtain ⟨hsil, hran⟩ := hl
    by_cases h1 : (x.failed a || e.running a) = true
    · unfold startNode
      cases m <;> simp [h1, runFuel, hs]
    · have h1' : (x.failed a || e.running a) = false := by simpa using h1
      by_cases h2 : e.hit a = true ∨ e.fails a = false
      · rw [startNode_passes e m x a hsil hs h1' h2]
        simp only [fireAll, hran, List.map_nil]
        rw [runFuel_empty _ _ _ _ rfl]
      · have hh : e.hit a = false := by
          cases h : e.hit a <;> simp_all
        have hfl : e.fails a = true := by
          cases h : e.fails a <;> simp_all
        unfold startNode
        cases m <;> simp [h1', hh, hfl, emitItems_failed e a hsil, runFuel, step, hs]
  | cons b r ih =>
    intro a x fuel hl hs hf
    obtain ⟨f, rfl⟩ : ∃ f, fuel = f + 1 := ⟨fuel - 1, by simp at hf; omega⟩
    simp only [Linked] at hl
    obtain ⟨hsil, hran, hrest⟩ := hl
    have hf' : r.length + 2 ≤ f := by simp at hf; omega
    by_cases h1 : (x.failed a || e.running a) = true
    · unfold startNode
      cases m <;> simp [h1, runFuel, hs]
    · have h1' : (x.failed a || e.running a) = false := by simpa using h1
      by_cases h2 : e.hit a = true ∨ e.fails a = false
      · have hmod : ch b 0 % 6 = 0 := ch_mod b 0 (by omega)
        have hdiv : ch b 0 / 6 = b := ch_div b 0 (by omega)
        rw [startNode_passes e m x a hsil hs h1' h2]
        simp only [fireAll, hran, List.map_cons, List.map_nil]
        simp only [runFuel, List.isEmpty_cons, Bool.false_eq_true, if_false, step, hmod, if_true, hdiv]
        exact ih b { x with log := x.log ++ executed e.hit [a], stack := [] } f hrest rfl hf'
      · have hh : e.hit a = false := by
          cases h : e.hit a <;> simp_all
        have hfl : e.fails a = true := by
          cases h : e.fails a <;> simp_all
        unfold startNode
        cases m
        · simp [h1', hh, hfl, emitItems_failed e a hsil, runFuel, step, hs]
          rw [runFuel_empty _ _ _ _ rfl]
        · simp [h1', hh, hfl, emitItems_failed e a hsil, runFuel, hs]

/-! ## the prepared graph is linked along the chain -/

theorem Adj.mid (l1 : List Nat) (a b : Nat) (l2 : List Nat) : Adj (l1 ++ a :: b :: l2) a b := by
  induction l1 with
  | nil => simp [Adj]
  | cons x xs ih =>
    cases xs with
    | nil => simp [Adj]
    | cons y ys =>
      have : Adj (x :: y :: (ys ++ a :: b :: l2)) a b := Or.inr (by simpa using ih)
      simpa using this

theorem Adj.unique {L : List Nat} (hnd : L.Nodup) {a q q' : Nat} (h1 : Adj L a q) (h2 : Adj L a q') :
    q = q' := by
  induction L with
  | nil => simp [Adj] at h1
  | cons x r ih =>
    cases r with
    | nil => simp [Adj] at h1
    | cons y r' =>
      simp only [Adj] at h1 h2
      have hx : x ∉ y :: r' := (List.nodup_cons.mp hnd).1
      have hnd' := (List.nodup_cons.mp hnd).2
      rcases h1 with ⟨rfl, rfl⟩ | h1 <;> rcases h2 with ⟨e, rfl⟩ | h2
      · rfl
      · exact absurd h2.mem.1 hx
      · subst e; exact absurd h1.mem.1 hx
      · exact ih hnd' h1 h2

theorem eq_singleton_of_mem_iff {l : List Nat} (hnd : l.Nodup) {y : Nat} (h : ∀ z, z ∈ l ↔ z = y) :
    l = [y] := by
  cases l with
  | nil => have := (h y).mpr rfl; cases this
  | cons a r =>
    have ha : a = y := (h a).mp List.mem_cons_self
    cases r with
    | nil => rw [ha]
    | cons b r' =>
      have hb : b = y := (h b).mp (by simp)
      subst ha; subst hb
      simp at hnd

/-- the connections of the prepared graph when something has to run -/
theorem mem_prepared (cfg : Cfg) (g : G) (t : Nat) (order chain : List Nat) (h : GWF g)
    (hne : chain.headD t ≠ t) (x y : Nat) :
    y ∈ (prepare cfg g t order chain).1.conns x ↔
      (((y ∈ g.conns x ∧ x ∉ cutChans order ∧ y ∉ cutChans order) ∨
          ∃ a b, Adj chain a b ∧ ((x = ch b 0 ∧ y = ch a 2) ∨ (x = ch a 2 ∧ y = ch b 0))) ∧
        x ∉ extraChans cfg order ∧ y ∉ extraChans cfg order) ∧ x ∉ runChans t ∧ y ∉ runChans t := by
  have hg1 := h.disconnectChans (cutChans order)
  have hg2 := hg1.wire chain
  rw [prepare_eq, if_neg hne]
  rw [mem_disconnectChans _ _ (hg2.disconnectChans _).inv, mem_disconnectChans _ _ hg2.inv,
    mem_wire _ _ hg1.inv hg1.kinds hg1.valid, mem_disconnectChans _ _ h.inv]

theorem linked_prepared (cfg : Cfg) (g : G) (t : Nat) (order pre : List Nat) (h : GWF g)
    (hnd : (pre ++ [t]).Nodup) (hsub : ∀ x ∈ pre, x ∈ order) (hne : pre ≠ [])
    (hemit : cfg.cutAllOutputs = true ∨
      ∀ i ∈ pre, g.conns (ch i 3) = [] ∧ g.conns (ch i 4) = [] ∧ g.conns (ch i 5) = []) :
    Linked (prepare cfg g t order (pre ++ [t])).1 pre := by
  have hhead : (pre ++ [t]).headD t ≠ t := by
    cases pre with
    | nil => exact absurd rfl hne
    | cons a r =>
      simp only [List.cons_append, List.headD_cons]
      intro e; subst e
      simp at hnd
  have hgP := prepare_gwf cfg g t order (pre ++ [t]) h
  have mP := mem_prepared cfg g t order (pre ++ [t]) h hhead
  have htpre : t ∉ pre := by
    intro ht
    rw [List.nodup_append] at hnd
    exact hnd.2.2 t ht t (by simp) rfl
  -- nothing hangs on the other outputs of a member
  have hsil : ∀ a ∈ pre, Silent (prepare cfg g t order (pre ++ [t])).1 a := by
    intro a ha
    have hao := hsub a ha
    have key : ∀ k, k = 3 ∨ k = 4 ∨ k = 5 → (prepare cfg g t order (pre ++ [t])).1.conns (ch a k) = [] := by
      intro k hk
      apply List.eq_nil_iff_forall_not_mem.mpr
      intro y hy
      obtain ⟨⟨hcase, hxe, _⟩, _, _⟩ := (mP (ch a k) y).mp hy
      rcases hcase with ⟨h0, _, _⟩ | ⟨p, q, _, e⟩
      · rcases hemit with hc | hc
        · apply hxe
          unfold extraChans; rw [if_pos hc]
          exact (mem_otherOutChans order _).mpr ⟨a, hao, by rcases hk with rfl | rfl | rfl <;> simp⟩
        · have := hc a ha
          rcases hk with rfl | rfl | rfl
          · rw [this.1] at h0; cases h0
          · rw [this.2.1] at h0; cases h0
          · rw [this.2.2] at h0; cases h0
      · unfold ch at e; omega
    exact ⟨key 3 (by simp), key 4 (by simp), key 5 (by simp)⟩
  -- `ran` of a member leads to the `run` of its successor, unless that is the target
  have hran : ∀ a ∈ pre, ∀ y, y ∈ (prepare cfg g t order (pre ++ [t])).1.conns (ch a 2) ↔
      ∃ q, Adj (pre ++ [t]) a q ∧ q ≠ t ∧ y = ch q 0 := by
    intro a ha y
    have hao := hsub a ha
    rw [mP]
    constructor
    · rintro ⟨⟨hcase, _, _⟩, _, hyt⟩
      rcases hcase with ⟨_, hx, _⟩ | ⟨p, q, hpq, e⟩
      · exact absurd ((mem_cutChans order _).mpr ⟨a, hao, Or.inr (Or.inr rfl)⟩) hx
      · rcases e with ⟨e1, _⟩ | ⟨e1, e2⟩
        · unfold ch at e1; omega
        · have : p = a := by unfold ch at e1; omega
          subst this
          refine ⟨q, hpq, ?_, e2⟩
          rintro rfl
          apply hyt; rw [e2]; simp [runChans]
    · rintro ⟨q, hq, hqt, rfl⟩
      have hno : ∀ c, c ∈ extraChans cfg order → c % 6 ≥ 3 := by
        intro c hc
        unfold extraChans at hc
        split at hc
        · obtain ⟨j, _, e⟩ := (mem_otherOutChans order _).mp hc
          unfold ch at e; omega
        · cases hc
      refine ⟨⟨Or.inr ⟨a, q, hq, Or.inr ⟨rfl, rfl⟩⟩, ?_, ?_⟩, ?_, ?_⟩
      · intro hc; have := hno _ hc; unfold ch at this; omega
      · intro hc; have := hno _ hc; unfold ch at this; omega
      · simp only [runChans, List.mem_cons, List.not_mem_nil, or_false]; unfold ch; omega
      · simp only [runChans, List.mem_cons, List.not_mem_nil, or_false]; unfold ch; omega
  -- along the chain
  have main : ∀ (s l1 : List Nat), pre = l1 ++ s → Linked (prepare cfg g t order (pre ++ [t])).1 s := by
    intro s
    induction s with
    | nil => intro _ _; trivial
    | cons a r ih =>
      intro l1 hpre
      have ha : a ∈ pre := by rw [hpre]; simp
      cases r with
      | nil =>
        refine ⟨hsil a ha, ?_⟩
        apply List.eq_nil_iff_forall_not_mem.mpr
        intro y hy
        obtain ⟨q, hq, hqt, _⟩ := (hran a ha y).mp hy
        have hat : Adj (pre ++ [t]) a t := by
          rw [hpre]; simpa using Adj.mid l1 a t []
        exact hqt (Adj.unique hnd hq hat)
      | cons b r' =>
        have hb : b ∈ pre := by rw [hpre]; simp
        have hab : Adj (pre ++ [t]) a b := by
          rw [hpre]; simpa using Adj.mid l1 a b (r' ++ [t])
        refine ⟨hsil a ha, ?_, ?_⟩
        · apply eq_singleton_of_mem_iff (hgP.inv.nodup _)
          intro z
          rw [hran a ha z]
          constructor
          · rintro ⟨q, hq, _, rfl⟩
            rw [Adj.unique hnd hq hab]
          · rintro rfl
            exact ⟨b, hab, fun e => htpre (e ▸ hb), rfl⟩
        · exact ih (l1 ++ [a]) (by rw [hpre]; simp)
  exact main pre [] rfl


/-! ## running changes nothing but the log, the received signals and the status flags -/

theorem drive_frame (cfg : Cfg) (w : World) (t s fuel : Nat) :
    ∃ l r f, (drive cfg w t s fuel).1 = { w with log := l, recv := r, failed := f } := by
  unfold drive
  split
  · exact ⟨_, _, _, rfl⟩
  · split
    · exact ⟨w.log, w.recv, w.failed, rfl⟩
    · rename_i p hp _
      by_cases hex : w.hasExec p = true
      · rw [if_pos hex]; exact ⟨w.log, w.recv, w.failed, rfl⟩
      rw [if_neg hex]
      by_cases hch : ((List.range w.n).any fun i => decide (w.parent i = some p) && w.running i) = true
      · rw [if_pos hch]; exact ⟨w.log, w.recv, _, rfl⟩
      · rw [if_neg hch]
        dsimp only
        split
        · exact ⟨_, _, _, rfl⟩
        · split
          · exact ⟨_, _, _, rfl⟩
          · exact ⟨_, _, _, rfl⟩

theorem emitItems_silent (e : Env) (p : Nat) (ok : Bool) (h2 : e.g.conns (ch p 2) = [])
    (hs : Silent e.g p) : emitItems e p ok = [] := by
  cases ok
  · exact emitItems_failed e p hs
  · rw [emitItems_ok e p hs]; simp [fireAll, h2]

/-- the parent that has to drive the upstream run does so here, not on an executor -/
def DriverLocal (w : World) (t : Nat) : Prop := ∀ p, w.parent t = some p → w.hasExec p = false

/-- the driving parent is a workflow (never emits) or nothing hangs on its outputs -/
def DriverSilent (w : World) (t : Nat) : Prop :=
  ∀ p, w.parent t = some p → w.isWf p = true ∨ (w.g.conns (ch p 2) = [] ∧ Silent w.g p)

theorem ite_ne_stuck (c : Prop) [Decidable c] : (if c then Outcome.failed else Outcome.ok) ≠ .stuck := by
  split <;> simp

theorem ite_ok (c : Prop) [Decidable c] (h : (if c then Outcome.failed else Outcome.ok) = .ok) : ¬ c := by
  split at h
  · cases h
  · assumption

/-- the upstream run executes a prefix of the linked chain, all of it when nothing is reported -/
theorem drive_log (cfg : Cfg) (w : World) (t a fuel : Nat) (L : List Nat)
    (hl : Linked w.g (a :: L)) (hf : L.length + 2 ≤ fuel)
    (hdrv : cfg.parentEmits = false ∨ DriverSilent w t) (hloc : DriverLocal w t) :
    (drive cfg w t a fuel).2 ≠ .stuck ∧
      ∃ pre, pre <+: (a :: L) ∧ (drive cfg w t a fuel).1.log = w.log ++ executed w.hit pre ∧
        ((drive cfg w t a fuel).2 = .ok → pre = a :: L) ∧ (drive cfg w t a fuel).1.recv = w.recv := by
  unfold drive
  split
  · -- parentless: the starter runs, signals are direct calls
    obtain ⟨h1, _, pre, hp, hlog, hcl⟩ := run_chain w.env .dfs L a w.x fuel hl rfl hf
    have hrecv := run_chain_recv w.env .dfs L a w.x fuel hl rfl hf
    simp only [h1, List.isEmpty_nil, Bool.not_true, Bool.false_eq_true, if_false]
    refine ⟨ite_ne_stuck _, pre, hp, hlog, ?_, hrecv⟩
    intro hok
    apply hcl
    simp only [cleanRun]
    exact Bool.eq_false_iff.mpr (ite_ok _ hok)
  · rename_i p hp
    split
    · exact ⟨by simp, [], List.nil_prefix, by simp [executed], by simp, rfl⟩
    · rw [if_neg (by rw [hloc p hp]; simp)]
      by_cases hch : ((List.range w.n).any fun i => decide (w.parent i = some p) && w.running i) = true
      · rw [if_pos hch]; exact ⟨by simp, [], List.nil_prefix, by simp [executed], by simp, rfl⟩
      · rw [if_neg hch]
        obtain ⟨h1, _, pre, hpre, hlog, hcl⟩ := run_chain w.env .bfs L a w.x fuel hl rfl hf
        have hrecv := run_chain_recv w.env .bfs L a w.x fuel hl rfl hf
        have herr0 : w.x.errs = 0 := rfl
        simp only [h1, List.isEmpty_nil, Bool.not_true, Bool.false_eq_true, if_false]
        have hclean : ¬ decide ((runFuel w.env .bfs fuel (startNode w.env .bfs w.x a)).errs > 0) = true →
            pre = a :: L := by
          intro hb; apply hcl; simp only [cleanRun]
          have : ¬ (runFuel w.env .bfs fuel (startNode w.env .bfs w.x a)).errs > 0 := by simpa using hb
          omega
        split
        · refine ⟨ite_ne_stuck _, pre, hpre, hlog, ?_, hrecv⟩
          intro hok
          exact hclean (ite_ok _ hok)
        · rename_i hemit
          have hpe : cfg.parentEmits = true := by
            cases hc : cfg.parentEmits <;> simp_all
          have hnwf : w.isWf p = false := by
            cases hc : w.isWf p <;> simp_all
          have hsil : w.g.conns (ch p 2) = [] ∧ Silent w.g p := by
            rcases hdrv with hd | hd
            · rw [hd] at hpe; cases hpe
            · rcases hd p hp with hd | hd
              · rw [hd] at hnwf; cases hnwf
              · exact hd
          rw [emitItems_silent _ p _ hsil.1 hsil.2, runFuel_empty _ Mode.dfs _ _ rfl]
          simp only [List.isEmpty_nil, Bool.not_true, Bool.false_eq_true, if_false]
          refine ⟨ite_ne_stuck _, pre, hpre, hlog, ?_, hrecv⟩
          intro hok
          apply hclean
          intro hb
          exact ite_ok _ hok (by simp [hb])


  /-! ## one level of `run_data_tree` -/

/-- everything a pull has to leave alone (connection lists up to their order) -/
structure Same (w w' : World) : Prop where
  n : w'.n = w.n
  deps : w'.deps = w.deps
  parent : w'.parent = w.parent
  isWf : w'.isWf = w.isWf
  hasExec : w'.hasExec = w.hasExec
  fails : w'.fails = w.fails
  truth : w'.truth = w.truth
  running : w'.running = w.running
  hit : w'.hit = w.hit
  label : w'.label = w.label
  starting : w'.starting = w.starting
  conns : ∀ x y, y ∈ w'.g.conns x ↔ y ∈ w.g.conns x
  gwf : GWF w'.g

theorem Same.refl (w : World) (h : GWF w.g) : Same w w :=
  ⟨rfl, rfl, rfl, rfl, rfl, rfl, rfl, rfl, rfl, rfl, rfl, fun _ _ => Iff.rfl, h⟩

theorem Same.trans {a b c : World} (h1 : Same a b) (h2 : Same b c) : Same a c :=
  ⟨h2.n.trans h1.n, h2.deps.trans h1.deps, h2.parent.trans h1.parent, h2.isWf.trans h1.isWf,
   h2.hasExec.trans h1.hasExec, h2.fails.trans h1.fails, h2.truth.trans h1.truth,
   h2.running.trans h1.running, h2.hit.trans h1.hit,
   h2.label.trans h1.label, h2.starting.trans h1.starting,
   fun x y => (h2.conns x y).trans (h1.conns x y), h2.gwf⟩

theorem updF_updF_self {α} (f : Nat → α) (p : Nat) (v : α) : updF (updF f p v) p (f p) = f := by
  funext x; by_cases h : x = p <;> simp [updF, h]

theorem runUpstream_frame (cfg : Cfg) (w : World) (t s fuel : Nat) :
    ∃ l r f au, (runUpstream cfg w t s fuel).1 =
        { w with log := l, recv := r, failed := f, automate := au,
                 starting := match w.parent t with
                   | some p => updF w.starting p [s]
                   | none => w.starting } ∧
      ((cfg.automateInFinally = true ∨ (runUpstream cfg w t s fuel).2 = .ok) → au = w.automate) := by
  unfold runUpstream
  split
  · rename_i hp
    obtain ⟨l, r, f, e⟩ := drive_frame cfg w t s fuel
    exact ⟨l, r, f, w.automate, by rw [e]; simp [hp], fun _ => rfl⟩
  · rename_i p hp
    dsimp only
    cases hwf : w.isWf p
    · -- a macro drives: `automate_execution` is not touched
      simp only [Bool.false_and, Bool.false_eq_true, if_false]
      obtain ⟨l, r, f, e⟩ := drive_frame cfg { w with starting := updF w.starting p [s] } t s fuel
      exact ⟨l, r, f, w.automate, by rw [e]; simp [hp], fun _ => rfl⟩
    · simp only [Bool.true_and, if_true]
      obtain ⟨l, r, f, e⟩ := drive_frame cfg
        { w with starting := updF w.starting p [s], automate := updF w.automate p false } t s fuel
      split
      · refine ⟨l, r, f, w.automate, ?_, fun _ => rfl⟩
        rw [e]
        simp [updF_updF_self, hp]
      · rename_i hc
        refine ⟨l, r, f, updF w.automate p false, by rw [e]; simp [hp], ?_⟩
        intro hor
        exfalso; apply hc
        rcases hor with h1 | h1
        · simp [h1]
        · simp [h1]

theorem relabel_unlabel (lab : Nat → Label) (order : List Nat) :
    unlabel lab (relabel lab order) order = lab := by
  funext i; unfold unlabel relabel; split <;> simp_all

theorem mem_closure_self (w : World) (t : Nat) (cl : List Nat) (h : closureOf w t = some cl) : t ∈ cl :=
  dfs_complete w.deps t t (.refl t) _ _ h

theorem validOrder_mem (cl order : List Nat) (h : validOrder cl order = true) :
    ∀ x, x ∈ order ↔ x ∈ cl := by
  simp only [validOrder, Bool.and_eq_true] at h
  exact (sameMembers_iff _ _).mp h.2

theorem validChain_spec (w : World) (cl chain : List Nat) (h : validChain w cl chain = true) :
    chain.Nodup ∧ (∀ x, x ∈ chain ↔ x ∈ cl) ∧ topoOk w.deps [] chain = true := by
  simp only [validChain, Bool.and_eq_true, decide_eq_true_eq] at h
  exact ⟨h.1.1, (sameMembers_iff _ _).mp h.1.2, h.2⟩

/-- whatever the outcome, one level of `run_data_tree` leaves the graph as it was -/
theorem upstream_same (cfg : Cfg) (w : World) (t : Nat) (order chain : List Nat) (fuel : Nat)
    (h : GWF w.g) : Same w (upstream cfg w t order chain fuel).1 := by
  unfold upstream
  split
  · exact .refl w h
  · rename_i cl hcl
    split
    · exact .refl w h
    · split
      · exact .refl w h
      · rename_i hvo
        have hvo' : validOrder cl order = true := by simpa using hvo
        split
        · -- data from another scope: refused, the cut lists are put back as they were
          exact .refl w h
        · split
          · exact .refl w h
          · rename_i hvc
            have hvc' : validChain w cl chain = true := by simpa using hvc
            obtain ⟨_, hcm, _⟩ := validChain_spec w cl chain hvc'
            have hom := validOrder_mem cl order hvo'
            have hto : t ∈ order := (hom t).mpr (mem_closure_self w t cl hcl)
            have hco : ∀ x ∈ chain, x ∈ order := fun x hx => (hom x).mpr ((hcm x).mp hx)
            obtain ⟨hgwf, hconns, _⟩ := finish_graph cfg w.g t order chain h hco hto
            dsimp only
            split
            · -- the target is alone in its closure
              unfold finish
              dsimp only
              split <;>
                exact ⟨rfl, rfl, rfl, rfl, rfl, rfl, rfl, rfl, rfl, relabel_unlabel _ _,
                  by first | rfl | (rename_i p hp; funext x; by_cases hx : x = p <;> simp [updF, hx]),
                  hconns, hgwf⟩
            · obtain ⟨l, r, f, au, e, _⟩ := runUpstream_frame cfg
                { w with g := (prepare cfg w.g t order chain).1, label := relabel w.label order }
                t (chain.headD t) fuel
              rw [e]
              unfold finish
              dsimp only
              split
              · rename_i p hp
                refine ⟨rfl, rfl, rfl, rfl, rfl, rfl, rfl, rfl, rfl, relabel_unlabel _ _, ?_, hconns, hgwf⟩
                simp only [hp]
                exact updF_updF_self _ _ _
              · rename_i hp
                refine ⟨rfl, rfl, rfl, rfl, rfl, rfl, rfl, rfl, rfl, relabel_unlabel _ _, ?_, hconns, hgwf⟩
                simp only [hp]


theorem runUpstream_log (cfg : Cfg) (w : World) (t a fuel : Nat) (L : List Nat)
    (hl : Linked w.g (a :: L)) (hf : L.length + 2 ≤ fuel)
    (hdrv : cfg.parentEmits = false ∨ DriverSilent w t) (hloc : DriverLocal w t) :
    (runUpstream cfg w t a fuel).2 ≠ .stuck ∧
      ∃ pre, pre <+: (a :: L) ∧ (runUpstream cfg w t a fuel).1.log = w.log ++ executed w.hit pre ∧
        ((runUpstream cfg w t a fuel).2 = .ok → pre = a :: L) ∧ (runUpstream cfg w t a fuel).1.recv = w.recv := by
  unfold runUpstream
  split
  · exact drive_log cfg w t a fuel L hl hf hdrv hloc
  · rename_i p hp
    dsimp only
    cases hwf : w.isWf p
    · simp only [Bool.false_and, Bool.false_eq_true, if_false]
      exact drive_log cfg { w with starting := updF w.starting p [a] } t a fuel L hl hf hdrv hloc
    · simp only [Bool.true_and, if_true]
      have key := drive_log cfg
        { w with starting := updF w.starting p [a], automate := updF w.automate p false } t a fuel L hl hf hdrv hloc
      split
      · exact key
      · exact key

/-- the cases in which nothing is touched at all -/
theorem upstream_cyclic (cfg : Cfg) (w : World) (t : Nat) (order chain : List Nat) (fuel : Nat)
    (h : closureOf w t = none) : upstream cfg w t order chain fuel = (w, .cyclic) := by
  simp [upstream, h]

theorem upstream_exec (cfg : Cfg) (w : World) (t : Nat) (order chain : List Nat) (fuel : Nat)
    (cl : List Nat) (h : closureOf w t = some cl) (he : cl.any w.hasExec = true) :
    upstream cfg w t order chain fuel = (w, .execRefused) := by
  simp [upstream, h, he]

/-- no node is its own parent -/
def NoSelfParent (w : World) : Prop := ∀ i, w.parent i ≠ some i

/-- (pinned behaviour) nothing hangs on `failed` / `true` / `false` of the members of the closure -/
def ClosureEmitsOnlyRan (w : World) (t : Nat) : Prop :=
  ∀ i, Reach w.deps t i → Silent w.g i

theorem closure_spec (w : World) (t : Nat) (cl : List Nat) (h : closureOf w t = some cl) :
    ∀ x, x ∈ cl ↔ Reach w.deps t x :=
  fun x => ⟨dfs_sound w.deps _ t cl h x, fun hr => dfs_complete w.deps t x hr _ cl h⟩

/-- one level: what runs is a prefix of the chain without the target, all of it on success -/
theorem upstream_log (cfg : Cfg) (w : World) (t : Nat) (order chain : List Nat) (fuel : Nat)
    (h : GWF w.g) (hnsp : NoSelfParent w)
    (hemit : cfg.cutAllOutputs = true ∨ ClosureEmitsOnlyRan w t)
    (hdrv : cfg.parentEmits = false ∨ DriverSilent w t)
    (hlocal : cfg.refuseDriverExec = true ∨ DriverLocal w t)
    (hfuel : chain.length + 1 ≤ fuel) :
    (upstream cfg w t order chain fuel).2 ≠ .stuck ∧
      ∃ pre, pre <+: chain.dropLast ∧ (upstream cfg w t order chain fuel).1.log = w.log ++ executed w.hit pre ∧
        ((upstream cfg w t order chain fuel).2 = .ok → pre = chain.dropLast) ∧
        (∀ x ∈ pre, Reach w.deps t x) ∧ (upstream cfg w t order chain fuel).1.recv = w.recv := by
  have trivial_case : ∀ (o : Outcome), o ≠ .stuck → o ≠ .ok →
      (w, o).2 ≠ Outcome.stuck ∧ ∃ pre, pre <+: chain.dropLast ∧ (w, o).1.log = w.log ++ executed w.hit pre ∧
        ((w, o).2 = .ok → pre = chain.dropLast) ∧ (∀ x ∈ pre, Reach w.deps t x) ∧ (w, o).1.recv = w.recv :=
    fun o h1 h2 => ⟨h1, [], List.nil_prefix, by simp, fun e => absurd e h2, by simp, rfl⟩
  unfold upstream
  split
  · exact trivial_case _ (by simp) (by simp)
  · rename_i cl hcl
    split
    · exact trivial_case _ (by simp) (by simp)
    · rename_i hexec
      split
      · exact trivial_case _ (by simp) (by simp)
      · rename_i hvo
        have hvo' : validOrder cl order = true := by simpa using hvo
        split
        · exact trivial_case _ (by simp) (by simp)
        · rename_i hscope
          split
          · exact trivial_case _ (by simp) (by simp)
          · rename_i hvc
            have hvc' : validChain w cl chain = true := by simpa using hvc
            obtain ⟨hnd, hcm, htopo⟩ := validChain_spec w cl chain hvc'
            have hom := validOrder_mem cl order hvo'
            have hreach := closure_spec w t cl hcl
            obtain ⟨pre0, hchain⟩ := chain_ends_in_target w.deps t chain hnd
              (fun x => (hcm x).trans (hreach x)) htopo
            have hdl : chain.dropLast = pre0 := by rw [hchain]; simp
            rw [hdl]
            dsimp only
            split
            · -- alone
              rename_i hst
              have : pre0 = [] := by
                cases pre0 with
                | nil => rfl
                | cons a r =>
                  exfalso
                  rw [hchain] at hst hnd
                  simp only [List.cons_append, List.headD_cons] at hst
                  subst hst
                  simp at hnd
              subst this
              refine ⟨by simp, [], List.nil_prefix, ?_, fun _ => rfl, by simp, ?_⟩
              · unfold finish; dsimp only; split <;> simp
              · unfold finish; dsimp only; split <;> rfl
            · rename_i hst
              cases pre0 with
              | nil => rw [hchain] at hst; simp at hst
              | cons a L =>
                have hhead : chain.headD t = a := by rw [hchain]; rfl
                rw [hhead]
                have hsub : ∀ x ∈ a :: L, x ∈ order := by
                  intro x hx
                  exact (hom x).mpr ((hcm x).mp (by rw [hchain]; exact List.mem_append_left _ hx))
                have hlinked : Linked (prepare cfg w.g t order chain).1 (a :: L) := by
                  rw [hchain]
                  apply linked_prepared cfg w.g t order (a :: L) h (by rw [← hchain]; exact hnd) hsub (by simp)
                  rcases hemit with hc | hc
                  · exact Or.inl hc
                  · right
                    intro i hi
                    exact hc i ((hreach i).mp ((hcm i).mp (by rw [hchain]; exact List.mem_append_left _ hi)))
                have hpar : ∀ i ∈ order, w.parent i = w.parent t := by
                  have : order.all (fun i => decide (w.parent i = w.parent t)) = true := by simpa using hscope
                  intro i hi
                  simpa using (List.all_eq_true.mp this) i hi
                have hdrv' : cfg.parentEmits = false ∨ DriverSilent
                    { w with g := (prepare cfg w.g t order chain).1, label := relabel w.label order } t := by
                  rcases hdrv with hd | hd
                  · exact Or.inl hd
                  · right
                    intro p hp
                    rcases hd p hp with hwf | ⟨h2, hs⟩
                    · exact Or.inl hwf
                    · right
                      have hp_notin : p ∉ chain := by
                        intro hpc
                        have : w.parent p = some p := by
                          rw [hpar p ((hom p).mpr ((hcm p).mp hpc))]; exact hp
                        exact hnsp p this
                      have hhd : chain.headD t ≠ t := hst
                      have key : ∀ k, k = 2 ∨ k = 3 ∨ k = 4 ∨ k = 5 → w.g.conns (ch p k) = [] →
                          (prepare cfg w.g t order chain).1.conns (ch p k) = [] := by
                        intro k hk h0
                        apply List.eq_nil_iff_forall_not_mem.mpr
                        intro y hy
                        obtain ⟨⟨hcase, _, _⟩, _, _⟩ := (mem_prepared cfg w.g t order chain h hhd _ y).mp hy
                        rcases hcase with ⟨hy0, _, _⟩ | ⟨a', b', hab, e⟩
                        · rw [h0] at hy0; cases hy0
                        · rcases e with ⟨e1, _⟩ | ⟨e1, _⟩
                          · unfold ch at e1; omega
                          · have : p = a' := by unfold ch at e1; omega
                            subst this
                            exact hp_notin hab.mem.1
                      exact ⟨key 2 (by simp) h2, key 3 (by simp) hs.1, key 4 (by simp) hs.2.1,
                        key 5 (by simp) hs.2.2⟩
                have hf' : L.length + 2 ≤ fuel := by
                  rw [hchain] at hfuel; simp at hfuel; omega
                have hloc' : DriverLocal
                    { w with g := (prepare cfg w.g t order chain).1, label := relabel w.label order } t := by
                  intro p hp
                  rcases hlocal with hr | hl
                  · -- with the repair the pull would have been refused: `a` is upstream of the target
                    have hat : a ≠ t := by
                      intro e; apply hst; rw [hhead, e]
                    have hacl : a ∈ cl := (hcm a).mp (by rw [hchain]; simp)
                    have hany : cl.any (fun x => decide (x ≠ t)) = true :=
                      List.any_eq_true.mpr ⟨a, hacl, by simpa using hat⟩
                    cases hx : w.hasExec p with
                    | false => rfl
                    | true =>
                      exfalso; apply hexec
                      have hp' : w.parent t = some p := hp
                      simp [driverExecRefused, hr, hp', hx]
                      exact Or.inr ⟨a, hacl, hat⟩
                  · exact hl p hp
                obtain ⟨hns, pre, hpre, hlog, hok, hrecv⟩ := runUpstream_log cfg
                  { w with g := (prepare cfg w.g t order chain).1, label := relabel w.label order }
                  t a fuel L hlinked hf' hdrv' hloc'
                refine ⟨hns, pre, hpre, ?_, hok, ?_, ?_⟩
                · unfold finish; dsimp only
                  split <;> exact hlog
                rotate_left
                · unfold finish; dsimp only
                  split <;> exact hrecv
                · intro x hx
                  exact (hreach x).mp ((hcm x).mp (by
                    rw [hchain]; exact List.mem_append_left _ (hpre.subset hx)))


/-- the branch of `upstream` in which every check has passed -/
theorem upstream_main (cfg : Cfg) (w : World) (t : Nat) (order chain : List Nat) (fuel : Nat)
    (cl : List Nat) (hcl : closureOf w t = some cl)
    (he : (cl.any w.hasExec || driverExecRefused cfg w t cl) = false)
    (hvo : validOrder cl order = true)
    (hsc : (order.all fun i => decide (w.parent i = w.parent t)) = true)
    (hvc : validChain w cl chain = true) :
    upstream cfg w t order chain fuel =
      (finish cfg w
        (if chain.headD t = t then
            (({ w with g := (prepare cfg w.g t order chain).1, label := relabel w.label order } : World),
              Outcome.ok)
          else runUpstream cfg
            { w with g := (prepare cfg w.g t order chain).1, label := relabel w.label order }
            t (chain.headD t) fuel).1 t order (prepare cfg w.g t order chain).2,
       (if chain.headD t = t then
            (({ w with g := (prepare cfg w.g t order chain).1, label := relabel w.label order } : World),
              Outcome.ok)
          else runUpstream cfg
            { w with g := (prepare cfg w.g t order chain).1, label := relabel w.label order }
            t (chain.headD t) fuel).2) := by
  unfold upstream
  simp only [hcl, he, hvo, hsc, hvc, Bool.not_true, Bool.false_eq_true, if_false]

/-- `automate_execution` is put back whenever the repaired variant is used or no exception came out -/
theorem upstream_automate (cfg : Cfg) (w : World) (t : Nat) (order chain : List Nat) (fuel : Nat)
    (hor : cfg.automateInFinally = true ∨ (upstream cfg w t order chain fuel).2 = .ok) :
    (upstream cfg w t order chain fuel).1.automate = w.automate := by
  cases hcl : closureOf w t with
  | none => simp [upstream, hcl]
  | some cl =>
    cases he : (cl.any w.hasExec || driverExecRefused cfg w t cl) with
    | true => simp [upstream, hcl, he]
    | false =>
      cases hvo : validOrder cl order with
      | false => simp [upstream, hcl, he, hvo]
      | true =>
        cases hsc : (order.all fun i => decide (w.parent i = w.parent t)) with
        | false => simp [upstream, hcl, he, hvo, hsc]
        | true =>
          cases hvc : validChain w cl chain with
          | false => simp [upstream, hcl, he, hvo, hsc, hvc]
          | true =>
            rw [upstream_main cfg w t order chain fuel cl hcl he hvo hsc hvc] at hor ⊢
            dsimp only at hor ⊢
            split
            · unfold finish; dsimp only; split <;> rfl
            · rename_i hst
              simp only [hst, if_false] at hor
              obtain ⟨l, r, f, au, e, hau⟩ := runUpstream_frame cfg
                { w with g := (prepare cfg w.g t order chain).1, label := relabel w.label order }
                t (chain.headD t) fuel
              have := hau hor
              rw [e]
              unfold finish; dsimp only
              split <;> exact this

/-- (repair `restoreLists`) one level leaves every connection *list* exactly as it was -/
theorem upstream_conns_eq (cfg : Cfg) (w : World) (t : Nat) (order chain : List Nat) (fuel : Nat)
    (h : GWF w.g) (hr : cfg.restoreLists = true) :
    (upstream cfg w t order chain fuel).1.g.conns = w.g.conns := by
  cases hcl : closureOf w t with
  | none => simp [upstream, hcl]
  | some cl =>
    cases he : (cl.any w.hasExec || driverExecRefused cfg w t cl) with
    | true => simp [upstream, hcl, he]
    | false =>
      cases hvo : validOrder cl order with
      | false => simp [upstream, hcl, he, hvo]
      | true =>
        cases hsc : (order.all fun i => decide (w.parent i = w.parent t)) with
        | false => simp [upstream, hcl, he, hvo, hsc]
        | true =>
          cases hvc : validChain w cl chain with
          | false => simp [upstream, hcl, he, hvo, hsc, hvc]
          | true =>
            obtain ⟨_, hcm, _⟩ := validChain_spec w cl chain hvc
            have hom := validOrder_mem cl order hvo
            have hto : t ∈ order := (hom t).mpr (mem_closure_self w t cl hcl)
            have hco : ∀ x ∈ chain, x ∈ order := fun x hx => (hom x).mpr ((hcm x).mp hx)
            obtain ⟨_, _, heq⟩ := finish_graph cfg w.g t order chain h hco hto
            have heq := heq hr
            rw [upstream_main cfg w t order chain fuel cl hcl he hvo hsc hvc]
            dsimp only
            split
            · unfold finish; dsimp only; split <;> exact heq
            · obtain ⟨l, r, f, au, e, _⟩ := runUpstream_frame cfg
                { w with g := (prepare cfg w.g t order chain).1, label := relabel w.label order }
                t (chain.headD t) fuel
              rw [e]
              unfold finish; dsimp only
              split <;> exact heq

theorem upstreamLevels_conns_eq (cfg : Cfg) (obs : Nat → List Nat × List Nat) (fuel : Nat)
    (hr : cfg.restoreLists = true) :
    ∀ (levels : List Nat) (w : World), GWF w.g →
      (upstreamLevels cfg obs fuel w levels).1.g.conns = w.g.conns := by
  intro levels
  induction levels with
  | nil => intro w _; rfl
  | cons a rest ih =>
    intro w hg
    have hsame := upstream_same cfg w a (obs a).1 (obs a).2 fuel hg
    have heq := upstream_conns_eq cfg w a (obs a).1 (obs a).2 fuel hg hr
    simp only [upstreamLevels]
    cases hu : upstream cfg w a (obs a).1 (obs a).2 fuel with
    | mk w' o =>
      rw [hu] at hsame heq
      cases o <;> first | exact heq | (dsimp only; rw [ih w' hsame.gwf]; exact heq)

/-- a level that came back without an exception had passed every check -/
theorem upstream_ok_valid (cfg : Cfg) (w : World) (t : Nat) (order chain : List Nat) (fuel : Nat)
    (hok : (upstream cfg w t order chain fuel).2 = .ok) :
    ∃ cl, closureOf w t = some cl ∧ cl.any w.hasExec = false ∧ validOrder cl order = true ∧
      validChain w cl chain = true := by
  unfold upstream at hok
  split at hok
  · cases hok
  · rename_i cl hcl
    split at hok
    · cases hok
    · rename_i he
      split at hok
      · cases hok
      · rename_i hvo
        split at hok
        · cases hok
        · split at hok
          · cases hok
          · rename_i hvc
            exact ⟨cl, hcl, by simp at he; simpa using he.1, by simpa using hvo, by simpa using hvc⟩

theorem Silent.of_same {w w' : World} (hs : Same w w') {i : Nat} (h : Silent w.g i) : Silent w'.g i := by
  have key : ∀ c, w.g.conns c = [] → w'.g.conns c = [] := by
    intro c hc
    apply List.eq_nil_iff_forall_not_mem.mpr
    intro y hy
    have := (hs.conns c y).mp hy
    rw [hc] at this; cases this
  exact ⟨key _ h.1, key _ h.2.1, key _ h.2.2⟩

/-- what a level needs for exactness; trivially true of the repaired variant -/
def LevelHyp (cfg : Cfg) (w : World) (a : Nat) : Prop :=
  (cfg.cutAllOutputs = true ∨ ClosureEmitsOnlyRan w a) ∧ (cfg.parentEmits = false ∨ DriverSilent w a) ∧
    (cfg.refuseDriverExec = true ∨ DriverLocal w a)

theorem LevelHyp.of_same {cfg : Cfg} {w w' : World} {a : Nat} (hs : Same w w') (h : LevelHyp cfg w a) :
    LevelHyp cfg w' a := by
  refine ⟨?_, ?_, ?_⟩
  rotate_left 2
  · rcases h.2.2 with h3 | h3
    · exact Or.inl h3
    · right
      intro p hp
      rw [hs.parent] at hp
      rw [hs.hasExec]
      exact h3 p hp
  · rcases h.1 with h1 | h1
    · exact Or.inl h1
    · right
      intro i hi
      rw [hs.deps] at hi
      exact (h1 i hi).of_same hs
  · rcases h.2.1 with h2 | h2
    · exact Or.inl h2
    · right
      intro p hp
      rw [hs.parent] at hp
      rcases h2 p hp with h3 | ⟨h3, h4⟩
      · left; rw [hs.isWf]; exact h3
      · right
        refine ⟨?_, h4.of_same hs⟩
        apply List.eq_nil_iff_forall_not_mem.mpr
        intro y hy
        have := (hs.conns _ y).mp hy
        rw [h3] at this; cases this

theorem NoSelfParent.of_same {w w' : World} (hs : Same w w') (h : NoSelfParent w) : NoSelfParent w' := by
  intro i; rw [hs.parent]; exact h i

/-- the expected executions of the levels: every level's chain without its own target -/
def levelsLog (obs : Nat → List Nat × List Nat) (levels : List Nat) : List Nat :=
  levels.flatMap (fun a => (obs a).2.dropLast)

theorem upstreamLevels_spec (cfg : Cfg) (obs : Nat → List Nat × List Nat) (fuel : Nat) :
    ∀ (levels : List Nat) (w : World), GWF w.g → NoSelfParent w →
      (∀ a ∈ levels, LevelHyp cfg w a) → (∀ a ∈ levels, (obs a).2.length + 1 ≤ fuel) →
      (upstreamLevels cfg obs fuel w levels).2 ≠ .stuck ∧
      ∃ pre, pre <+: levelsLog obs levels ∧
        (upstreamLevels cfg obs fuel w levels).1.log = w.log ++ executed w.hit pre ∧
        ((upstreamLevels cfg obs fuel w levels).2 = .ok → pre = levelsLog obs levels) ∧
        (∀ x ∈ pre, ∃ a ∈ levels, Reach w.deps a x) ∧
        (upstreamLevels cfg obs fuel w levels).1.recv = w.recv := by
  intro levels
  induction levels with
  | nil =>
    intro w _ _ _ _
    exact ⟨by simp [upstreamLevels], [], by simp [levelsLog], by simp [upstreamLevels],
      fun _ => by simp [levelsLog], by simp, rfl⟩
  | cons a rest ih =>
    intro w hg hn hh hf
    have hlev := hh a List.mem_cons_self
    obtain ⟨hns, pre1, hp1, hlog1, hok1, hmem1, hrecv1⟩ := upstream_log cfg w a (obs a).1 (obs a).2 fuel hg hn
      hlev.1 hlev.2.1 hlev.2.2 (hf a List.mem_cons_self)
    have hsame := upstream_same cfg w a (obs a).1 (obs a).2 fuel hg
    have hll : levelsLog obs (a :: rest) = (obs a).2.dropLast ++ levelsLog obs rest := by
      simp [levelsLog]
    rw [hll]
    simp only [upstreamLevels]
    cases hr : upstream cfg w a (obs a).1 (obs a).2 fuel with
    | mk w' o =>
      rw [hr] at hns hlog1 hok1 hsame hrecv1
      have hmem1' : ∀ x ∈ pre1, ∃ b ∈ a :: rest, Reach w.deps b x :=
        fun x hx => ⟨a, List.mem_cons_self, hmem1 x hx⟩
      have bad : o ≠ .ok → (w', o).2 ≠ Outcome.stuck ∧ ∃ pre, pre <+: (obs a).2.dropLast ++ levelsLog obs rest ∧
          (w', o).1.log = w.log ++ executed w.hit pre ∧ ((w', o).2 = .ok → pre = (obs a).2.dropLast ++ levelsLog obs rest) ∧
          (∀ x ∈ pre, ∃ b ∈ a :: rest, Reach w.deps b x) ∧ (w', o).1.recv = w.recv :=
        fun hne => ⟨hns, pre1, hp1.trans (List.prefix_append _ _), hlog1, fun e => absurd e hne, hmem1', hrecv1⟩
      cases o with
      | ok =>
        dsimp only
        have e1 := hok1 rfl
        obtain ⟨hns2, pre2, hp2, hlog2, hok2, hmem2, hrecv2⟩ := ih w' hsame.gwf (hn.of_same hsame)
          (fun b hb => (hh b (List.mem_cons_of_mem _ hb)).of_same hsame)
          (fun b hb => hf b (List.mem_cons_of_mem _ hb))
        refine ⟨hns2, pre1 ++ pre2, ?_, ?_, ?_, ?_, hrecv2.trans hrecv1⟩
        · rw [e1]; exact (List.prefix_append_right_inj _).mpr hp2
        · rw [hlog2]; dsimp only at hlog1; rw [hlog1, hsame.hit, executed_append]; simp
        · intro hok; rw [hok2 hok, e1]
        · intro x hx
          rcases List.mem_append.mp hx with hx | hx
          · exact hmem1' x hx
          · obtain ⟨b, hb, hr⟩ := hmem2 x hx
            rw [hsame.deps] at hr
            exact ⟨b, List.mem_cons_of_mem _ hb, hr⟩
      | cyclic => exact bad (by simp)
      | execRefused => exact bad (by simp)
      | mixedScope => exact bad (by simp)
      | failed => exact bad (by simp)
      | stuck => exact bad (by simp)
      | badObs => exact bad (by simp)

theorem upstreamLevels_same (cfg : Cfg) (obs : Nat → List Nat × List Nat) (fuel : Nat) :
    ∀ (levels : List Nat) (w : World), GWF w.g → Same w (upstreamLevels cfg obs fuel w levels).1 := by
  intro levels
  induction levels with
  | nil => intro w hg; exact .refl w hg
  | cons a rest ih =>
    intro w hg
    have hsame := upstream_same cfg w a (obs a).1 (obs a).2 fuel hg
    simp only [upstreamLevels]
    cases hr : upstream cfg w a (obs a).1 (obs a).2 fuel with
    | mk w' o =>
      rw [hr] at hsame
      cases o <;> first | exact hsame | exact hsame.trans (ih w' hsame.gwf)

theorem upstreamLevels_automate (cfg : Cfg) (obs : Nat → List Nat × List Nat) (fuel : Nat) :
    ∀ (levels : List Nat) (w : World),
      (cfg.automateInFinally = true ∨ (upstreamLevels cfg obs fuel w levels).2 = .ok) →
      (upstreamLevels cfg obs fuel w levels).1.automate = w.automate := by
  intro levels
  induction levels with
  | nil => intro w _; rfl
  | cons a rest ih =>
    intro w hor
    simp only [upstreamLevels] at hor ⊢
    have hau := upstream_automate cfg w a (obs a).1 (obs a).2 fuel
    cases hr : upstream cfg w a (obs a).1 (obs a).2 fuel with
    | mk w' o =>
      rw [hr] at hau hor
      cases o with
      | ok =>
        dsimp only at hor ⊢
        rw [ih w' hor]; exact hau (Or.inr rfl)
      | cyclic | execRefused | mixedScope | failed | stuck | badObs =>
        dsimp only at hor ⊢
        rcases hor with h1 | h1
        · exact hau (Or.inl h1)
        · cases h1


/-! ## the whole pull -/

theorem runTarget_same (w : World) (t : Nat) (h : GWF w.g) : Same w (runTarget w t).1 := by
  unfold runTarget
  split
  · exact .refl w h
  · split
    · exact .refl w h
    · split <;> exact ⟨rfl, rfl, rfl, rfl, rfl, rfl, rfl, rfl, rfl, rfl, rfl, fun _ _ => Iff.rfl, h⟩

theorem runTarget_automate (w : World) (t : Nat) : (runTarget w t).1.automate = w.automate := by
  unfold runTarget; split
  · rfl
  · split
    · rfl
    · split <;> rfl

theorem runTarget_recv (w : World) (t : Nat) : (runTarget w t).1.recv = w.recv := by
  unfold runTarget; split
  · rfl
  · split
    · rfl
    · split <;> rfl

theorem runTarget_conns (w : World) (t : Nat) : (runTarget w t).1.g = w.g := by
  unfold runTarget; split
  · rfl
  · split
    · rfl
    · split <;> rfl

theorem runTarget_log (w : World) (t : Nat) :
    (runTarget w t).2 ≠ .stuck ∧ ∃ pre, pre <+: [t] ∧ (runTarget w t).1.log = w.log ++ executed w.hit pre ∧
      ((runTarget w t).2 = .ok → pre = [t]) := by
  unfold runTarget
  split
  · exact ⟨by simp, [], by simp, by simp, by simp⟩
  · split
    · rename_i hh
      exact ⟨by simp, [t], by simp, by simp [executed, hh], by simp⟩
    · rename_i hh
      have hh' : w.hit t = false := by simpa using hh
      split
      · exact ⟨by simp, [t], by simp, by simp [executed, hh'], by simp⟩
      · exact ⟨by simp, [t], by simp, by simp [executed, hh'], by simp⟩

/-- the levels a pull works through -/
def pullLevels (w : World) (t : Nat) (parents : Bool) : List Nat :=
  if parents then ancestors w (w.n + 1) t else [t]

theorem pull_eq (cfg : Cfg) (w : World) (t : Nat) (parents : Bool) (obs : Nat → List Nat × List Nat)
    (fuel : Nat) :
    pull cfg w t parents obs fuel =
      match upstreamLevels cfg obs fuel w (pullLevels w t parents) with
      | (w', .ok) => runTarget w' t
      | r => r := rfl

theorem pull_same (cfg : Cfg) (w : World) (t : Nat) (parents : Bool) (obs : Nat → List Nat × List Nat)
    (fuel : Nat) (h : GWF w.g) : Same w (pull cfg w t parents obs fuel).1 := by
  rw [pull_eq]
  have hs := upstreamLevels_same cfg obs fuel (pullLevels w t parents) w h
  cases hr : upstreamLevels cfg obs fuel w (pullLevels w t parents) with
  | mk w' o =>
    rw [hr] at hs
    cases o <;> first | exact hs | exact hs.trans (runTarget_same w' t hs.gwf)

theorem pull_automate (cfg : Cfg) (w : World) (t : Nat) (parents : Bool)
    (obs : Nat → List Nat × List Nat) (fuel : Nat)
    (hor : cfg.automateInFinally = true ∨ (pull cfg w t parents obs fuel).2 = .ok) :
    (pull cfg w t parents obs fuel).1.automate = w.automate := by
  rw [pull_eq] at hor ⊢
  have ha := upstreamLevels_automate cfg obs fuel (pullLevels w t parents) w
  cases hr : upstreamLevels cfg obs fuel w (pullLevels w t parents) with
  | mk w' o =>
    rw [hr] at ha hor
    cases o with
    | ok =>
      dsimp only at hor ⊢
      rw [runTarget_automate]; exact ha (Or.inr rfl)
    | cyclic | execRefused | mixedScope | failed | stuck | badObs =>
      dsimp only at hor ⊢
      rcases hor with h1 | h1
      · exact ha (Or.inl h1)
      · cases h1

/-- (repair `restoreLists`) after a pull every connection list is exactly as it was -/
theorem pull_conns_eq (cfg : Cfg) (w : World) (t : Nat) (parents : Bool) (obs : Nat → List Nat × List Nat)
    (fuel : Nat) (h : GWF w.g) (hr : cfg.restoreLists = true) :
    (pull cfg w t parents obs fuel).1.g.conns = w.g.conns := by
  rw [pull_eq]
  have hl := upstreamLevels_conns_eq cfg obs fuel hr (pullLevels w t parents) w h
  cases hu : upstreamLevels cfg obs fuel w (pullLevels w t parents) with
  | mk w' o =>
    rw [hu] at hl
    cases o <;> first | exact hl | (dsimp only; rw [runTarget_conns]; exact hl)

theorem pull_log (cfg : Cfg) (w : World) (t : Nat) (parents : Bool) (obs : Nat → List Nat × List Nat)
    (fuel : Nat) (hg : GWF w.g) (hn : NoSelfParent w)
    (hh : ∀ a ∈ pullLevels w t parents, LevelHyp cfg w a)
    (hf : ∀ a ∈ pullLevels w t parents, (obs a).2.length + 1 ≤ fuel) :
    (pull cfg w t parents obs fuel).2 ≠ .stuck ∧
      ∃ pre, pre <+: levelsLog obs (pullLevels w t parents) ++ [t] ∧
        (pull cfg w t parents obs fuel).1.log = w.log ++ executed w.hit pre ∧
        ((pull cfg w t parents obs fuel).2 = .ok → pre = levelsLog obs (pullLevels w t parents) ++ [t]) ∧
        (∀ x ∈ pre, x = t ∨ ∃ a ∈ pullLevels w t parents, Reach w.deps a x) ∧
        (pull cfg w t parents obs fuel).1.recv = w.recv := by
  rw [pull_eq]
  obtain ⟨hns, pre1, hp1, hlog1, hok1, hmem1, hrecv1⟩ :=
    upstreamLevels_spec cfg obs fuel (pullLevels w t parents) w hg hn hh hf
  have hsame := upstreamLevels_same cfg obs fuel (pullLevels w t parents) w hg
  cases hr : upstreamLevels cfg obs fuel w (pullLevels w t parents) with
  | mk w' o =>
    rw [hr] at hns hlog1 hok1 hsame hrecv1
    have bad : o ≠ .ok → (w', o).2 ≠ Outcome.stuck ∧
        ∃ pre, pre <+: levelsLog obs (pullLevels w t parents) ++ [t] ∧
          (w', o).1.log = w.log ++ executed w.hit pre ∧
          ((w', o).2 = .ok → pre = levelsLog obs (pullLevels w t parents) ++ [t]) ∧
          (∀ x ∈ pre, x = t ∨ ∃ a ∈ pullLevels w t parents, Reach w.deps a x) ∧ (w', o).1.recv = w.recv :=
      fun hne => ⟨hns, pre1, hp1.trans (List.prefix_append _ _), hlog1, fun e => absurd e hne,
        fun x hx => Or.inr (hmem1 x hx), hrecv1⟩
    cases o with
    | ok =>
      dsimp only
      obtain ⟨h1, pre2, hp2, hlog2, hok2⟩ := runTarget_log w' t
      have e1 := hok1 rfl
      refine ⟨h1, pre1 ++ pre2, ?_, ?_, ?_, ?_, (runTarget_recv w' t).trans hrecv1⟩
      · rw [e1]; exact (List.prefix_append_right_inj _).mpr hp2
      · rw [hlog2]; dsimp only at hlog1 hsame; rw [hlog1, hsame.hit, executed_append]; simp
      · intro hok; rw [hok2 hok, e1]
      · intro x hx
        rcases List.mem_append.mp hx with hx | hx
        · exact Or.inr (hmem1 x hx)
        · left; simpa using hp2.subset hx
    | cyclic => exact bad (by simp)
    | execRefused => exact bad (by simp)
    | mixedScope => exact bad (by simp)
    | failed => exact bad (by simp)
    | stuck => exact bad (by simp)
    | badObs => exact bad (by simp)


/-! ## building blocks for the concrete worlds of the non-vacuity examples and witnesses -/

def sigKind (c : Nat) : Kind := if c % 6 < 2 then .sigIn else .sigOut

def g0 : G := { kind := sigKind, owner := fun c => c / 6, valid := fun _ _ => true, conns := fun _ => [] }

/-- a signal graph made by connecting the listed pairs of channels (`ch node k`: k = 0 run,
1 accumulate_and_run, 2 ran, 3 failed, 4 true, 5 false) -/
def mkG (edges : List (Nat × Nat)) : G := reconnect g0 edges

theorem mkG_gwf (edges : List (Nat × Nat)) : GWF (mkG edges) :=
  (⟨⟨by simp [g0], by simp [g0], by simp [g0]⟩, fun _ => rfl, fun _ _ => rfl⟩ : GWF g0).reconnect edges

/-- when only `run`/`accumulate_and_run`/`ran` channels are connected, every node is silent on its
other outputs -/
theorem mkG_silent (edges : List (Nat × Nat))
    (hk : ∀ p ∈ edges, (sigKind p.1).conj (sigKind p.2) = true)
    (hlow : ∀ p ∈ edges, p.1 % 6 < 3 ∧ p.2 % 6 < 3) (i : Nat) : Silent (mkG edges) i := by
  have key : ∀ k, k = 3 ∨ k = 4 ∨ k = 5 → (mkG edges).conns (ch i k) = [] := by
    intro k hk3
    apply List.eq_nil_iff_forall_not_mem.mpr
    intro y hy
    have hg0 : GWF g0 := ⟨⟨by simp [g0], by simp [g0], by simp [g0]⟩, fun _ => rfl, fun _ _ => rfl⟩
    rcases (mem_reconnect g0 edges hg0.inv hk hg0.valid (ch i k) y).mp hy with h0 | h1 | h1
    · simp [g0] at h0
    · have := (hlow _ h1).1; simp only [ch] at this; omega
    · have := (hlow _ h1).2; simp only [ch] at this; omega
  exact ⟨key 3 (by simp), key 4 (by simp), key 5 (by simp)⟩

def world0 : World :=
  { n := 0, g := mkG [], deps := fun _ => [], parent := fun _ => none, isWf := fun _ => false,
    label := fun i => { base := i, tag := none }, starting := fun _ => [], automate := fun _ => true,
    hasExec := fun _ => false, fails := fun _ => false, truth := fun _ => none,
    running := fun _ => false, hit := fun _ => false,
    log := [], recv := fun _ => [], failed := fun _ => false }

end PwVerif.Pull
