import PwVerif.Model.CacheGate
namespace PwVerif.CacheGate

structure Sim (a b : N) : Prop where
  inp : a.inp = b.inp
  out : a.out = b.out
  lax : a.lax = b.lax
  twin : b.uc = false
  valid : ∀ c, a.cached = some c → a.out = some c

theorem step_sim (a b : N) (op : Op) (h : Sim a b) :
    Sim (step true true false a op).1 (step true true true b op).1 ∧ (step true true false a op).2 = (step true true true b op).2 := by
  obtain ⟨hi, ho, hl, ht, hv⟩ := h
  obtain ⟨ai, ao, ac, al, au⟩ := a
  obtain ⟨bi, bo, bc, bl, bu⟩ := b
  simp only at hi ho hl ht hv
  subst hi ho hl ht
  cases op <;> cases al <;> cases au <;> cases ac <;>
    simp_all [step, runLike, N.ready] <;> (try split) <;> (try split) <;>
    (try (first | refine ⟨⟨?_, ?_, ?_, ?_, ?_⟩, ?_⟩ | refine ⟨?_, ?_, ?_, ?_, ?_⟩)) <;>
    (try simp_all) <;> (try grind)

theorem runOps_sim (ops : List Op) (a b : N) (h : Sim a b) :
    (runOps true true false a ops).2 = (runOps true true true b ops).2 ∧ Sim (runOps true true false a ops).1 (runOps true true true b ops).1 := by
  induction ops generalizing a b with
  | nil => exact ⟨rfl, h⟩
  | cons o os ih =>
    obtain ⟨h1, h2⟩ := step_sim a b o h
    obtain ⟨i1, i2⟩ := ih _ _ h1
    simp only [runOps]
    exact ⟨by rw [h2, i1], i2⟩

end PwVerif.CacheGate
