import PwVerif.Proofs.ConnOps
/-! `_seat_replacement` (lists assigned one after the other) keeps the connection invariant: the seated
graph is the graph without the replacement's prepended copies, renamed along the stand-ins. Covers a
replaced node connected to itself. Then: every step of the current alphabet, `replace_child` included. -/
namespace PwVerif.ConnOps
open PwVerif PwVerif.Conn

/-! ## small list facts -/

theorem mem_uniq (l : List Nat) (x : Nat) : x ∈ uniq l ↔ x ∈ l := by
  induction l with
  | nil => simp [uniq]
  | cons y ys ih =>
    unfold uniq
    by_cases hy : y ∈ uniq ys
    · simp only [hy, if_true, List.mem_cons]
      constructor
      · intro h; exact Or.inr (ih.mp h)
      · rintro (rfl | h)
        · exact hy
        · exact ih.mpr h
    · simp only [hy, if_false, List.mem_cons, ih]

theorem nodup_uniq (l : List Nat) : (uniq l).Nodup := by
  induction l with
  | nil => simp [uniq]
  | cons y ys ih =>
    unfold uniq
    by_cases hy : y ∈ uniq ys
    · simpa [hy] using ih
    · simp only [hy, if_false]
      exact List.nodup_cons.mpr ⟨hy, ih⟩

theorem nodup_map_on {f : Nat → Nat} : ∀ {l : List Nat}, (∀ x ∈ l, ∀ y ∈ l, f x = f y → x = y) → l.Nodup →
    (l.map f).Nodup := by
  intro l
  induction l with
  | nil => intro _ _; simp
  | cons a l ih =>
    intro hinj hn
    have hn' := List.nodup_cons.mp hn
    simp only [List.map_cons]
    apply List.nodup_cons.mpr
    constructor
    · intro hm
      obtain ⟨y, hy, hfy⟩ := List.mem_map.mp hm
      have : a = y := hinj a (by simp) y (by simp [hy]) hfy.symm
      exact hn'.1 (this ▸ hy)
    · exact ih (fun x hx y hy => hinj x (by simp [hx]) y (by simp [hy])) hn'.2

theorem fst_inj {m : List (Nat × Nat)} (hn : (m.map Prod.fst).Nodup) {e e' : Nat × Nat} (he : e ∈ m) (he' : e' ∈ m)
    (h : e.1 = e'.1) : e = e' := by
  induction m with
  | nil => cases he
  | cons x xs ih =>
    simp only [List.map_cons, List.nodup_cons, List.mem_map, not_exists, not_and] at hn
    rcases List.mem_cons.mp he with rfl | he1 <;> rcases List.mem_cons.mp he' with rfl | he2
    · rfl
    · exact absurd h.symm (hn.1 e' he2)
    · exact absurd h (hn.1 e he1)
    · exact ih hn.2 he1 he2

theorem snd_inj {m : List (Nat × Nat)} (hn : (m.map Prod.snd).Nodup) {e e' : Nat × Nat} (he : e ∈ m) (he' : e' ∈ m)
    (h : e.2 = e'.2) : e = e' := by
  induction m with
  | nil => cases he
  | cons x xs ih =>
    simp only [List.map_cons, List.nodup_cons, List.mem_map, not_exists, not_and] at hn
    rcases List.mem_cons.mp he with rfl | he1 <;> rcases List.mem_cons.mp he' with rfl | he2
    · rfl
    · exact absurd h.symm (hn.1 e' he2)
    · exact absurd h (hn.1 e he1)
    · exact ih hn.2 he1 he2

theorem subst_of_mem {m : List (Nat × Nat)} (hn : (m.map Prod.fst).Nodup) {o n : Nat} (h : (o, n) ∈ m) :
    subst m o = n := by
  unfold subst
  cases hf : m.find? (fun e => e.1 == o) with
  | none =>
    have := List.find?_eq_none.mp hf (o, n) h
    simp at this
  | some e =>
    have he := List.mem_of_find?_eq_some hf
    have h1 := List.find?_some hf
    simp only [beq_iff_eq] at h1
    have : e = (o, n) := fst_inj hn he h h1
    simp [this]

theorem subst_of_not {m : List (Nat × Nat)} {y : Nat} (h : y ∉ m.map Prod.fst) : subst m y = y := by
  unfold subst
  cases hf : m.find? (fun e => e.1 == y) with
  | none => rfl
  | some e =>
    have he := List.mem_of_find?_eq_some hf
    have h1 := List.find?_some hf
    simp only [beq_iff_eq] at h1
    exact absurd (List.mem_map.mpr ⟨e, he, h1⟩) h

/-! ## the two loops, pointwise -/

/-- a neighbour's list without the replacement's channels, stand-ins in place of the replaced channels -/
def tr (g : G) (m : List (Nat × Nat)) (N : List Nat) (x : Nat) : List Nat :=
  ((g.conns x).filter fun z => !N.contains z).map (subst m)

theorem seatNeighbours_conns (m : List (Nat × Nat)) (N : List Nat) : ∀ (qs : List Nat) (g : G), qs.Nodup →
    ∀ x, (seatNeighbours g m N qs).conns x = if x ∈ qs then tr g m N x else g.conns x := by
  intro qs
  induction qs with
  | nil => intro g _ x; simp [seatNeighbours]
  | cons q qs ih =>
    intro g hn x
    have hn' := List.nodup_cons.mp hn
    simp only [seatNeighbours, List.foldl_cons]
    have := ih (seatNeighbour m N g q) hn'.2 x
    simp only [seatNeighbours] at this
    rw [this]
    by_cases hxq : x = q
    · subst hxq
      simp [hn'.1, seatNeighbour, setConns, tr]
    · by_cases hxs : x ∈ qs
      · simp [hxs, hxq, tr, seatNeighbour, setConns, updF]
      · simp [hxs, hxq, seatNeighbour, setConns, updF]

theorem seatNeighbours_static (m : List (Nat × Nat)) (N : List Nat) : ∀ (qs : List Nat) (g : G),
    SameStatic g (seatNeighbours g m N qs) := by
  intro qs
  induction qs with
  | nil => intro g; exact .refl g
  | cons q qs ih =>
    intro g
    have := ih (seatNeighbour m N g q)
    simp only [seatNeighbours, List.foldl_cons] at this ⊢
    exact SameStatic.trans (b := seatNeighbour m N g q) ⟨rfl, rfl, rfl⟩ this

theorem seatStandIns_static (O : List Nat) : ∀ (m : List (Nat × Nat)) (g : G), SameStatic g (seatStandIns g O m) := by
  intro m
  induction m with
  | nil => intro g; exact .refl g
  | cons e es ih =>
    intro g
    have := ih (seatStandIn O g e)
    simp only [seatStandIns, List.foldl_cons] at this ⊢
    exact SameStatic.trans (b := seatStandIn O g e) ⟨rfl, rfl, rfl⟩ this

theorem seatStandIn_conns (O : List Nat) (g : G) (e : Nat × Nat) (x : Nat) :
    (seatStandIn O g e).conns x =
      if x = e.1 then [] else if x = e.2 then (g.conns e.1).filter (fun z => !O.contains z) else g.conns x := by
  simp only [seatStandIn, setConns, updF]

theorem seatStandIns_other (O : List Nat) : ∀ (m : List (Nat × Nat)) (g : G) (x : Nat),
    x ∉ m.map Prod.fst → x ∉ m.map Prod.snd → (seatStandIns g O m).conns x = g.conns x := by
  intro m
  induction m with
  | nil => intro g x _ _; rfl
  | cons e es ih =>
    intro g x h1 h2
    simp only [List.map_cons, List.mem_cons, not_or] at h1 h2
    simp only [seatStandIns, List.foldl_cons]
    have := ih (seatStandIn O g e) x h1.2 h2.2
    simp only [seatStandIns] at this
    rw [this, seatStandIn_conns]
    simp [h1.1, h2.1]

theorem seatStandIns_old (O : List Nat) : ∀ (m : List (Nat × Nat)) (g : G) (o : Nat),
    (m.map Prod.fst).Nodup → (∀ e ∈ m, ∀ e' ∈ m, e.2 ≠ e'.1) →
    o ∈ m.map Prod.fst → (seatStandIns g O m).conns o = [] := by
  intro m
  induction m with
  | nil => intro g o _ _ h; cases h
  | cons e es ih =>
    intro g o hn hx ho
    simp only [List.map_cons, List.nodup_cons] at hn
    simp only [seatStandIns, List.foldl_cons]
    by_cases hoe : o = e.1
    · subst hoe
      have h2 : e.1 ∉ es.map Prod.snd := by
        intro hm
        obtain ⟨e', he', h'⟩ := List.mem_map.mp hm
        exact hx e' (by simp [he']) e (by simp) h'
      have := seatStandIns_other O es (seatStandIn O g e) e.1 hn.1 h2
      simp only [seatStandIns] at this
      rw [this, seatStandIn_conns]; simp
    · have ho' : o ∈ es.map Prod.fst := by
        simp only [List.map_cons, List.mem_cons] at ho
        rcases ho with h | h
        · exact absurd h hoe
        · exact h
      have := ih (seatStandIn O g e) o hn.2 (fun a ha b hb => hx a (by simp [ha]) b (by simp [hb])) ho'
      simpa [seatStandIns] using this

theorem seatStandIns_new (O : List Nat) : ∀ (m : List (Nat × Nat)) (g : G) (o n : Nat),
    (m.map Prod.fst).Nodup → (m.map Prod.snd).Nodup → (∀ e ∈ m, ∀ e' ∈ m, e.2 ≠ e'.1) →
    (o, n) ∈ m → (seatStandIns g O m).conns n = (g.conns o).filter (fun z => !O.contains z) := by
  intro m
  induction m with
  | nil => intro g o n _ _ _ h; cases h
  | cons e es ih =>
    intro g o n hn1 hn2 hx hm
    simp only [List.map_cons, List.nodup_cons] at hn1 hn2
    simp only [seatStandIns, List.foldl_cons]
    rcases List.mem_cons.mp hm with he | he
    · subst he
      have h1 : n ∉ es.map Prod.fst := by
        intro hmem
        obtain ⟨e', he', h'⟩ := List.mem_map.mp hmem
        exact hx (o, n) (by simp) e' (by simp [he']) h'.symm
      have := seatStandIns_other O es (seatStandIn O g (o, n)) n h1 hn2.1
      simp only [seatStandIns] at this
      rw [this, seatStandIn_conns]
      have hne : n ≠ o := fun e => hx (o, n) (by simp) (o, n) (by simp) e
      simp [hne]
    · have := ih (seatStandIn O g e) o n hn1.2 hn2.2 (fun a ha b hb => hx a (by simp [ha]) b (by simp [hb])) he
      simp only [seatStandIns] at this
      rw [this, seatStandIn_conns]
      have h1 : o ≠ e.1 := by
        intro h
        exact hn1.1 (List.mem_map.mpr ⟨(o, n), he, h.symm ▸ rfl⟩)
      have h2 : o ≠ e.2 := fun h => hx e (by simp) (o, n) (by simp [he]) h.symm
      simp [h1, h2]

/-! ## what the model checks before seating, as propositions -/

structure Seatable (g : G) (m : List (Nat × Nat)) (O N : List Nat) : Prop where
  disj : ∀ x, x ∈ O → x ∉ N
  fstNodup : (m.map Prod.fst).Nodup
  sndNodup : (m.map Prod.snd).Nodup
  memO : ∀ e ∈ m, e.1 ∈ O
  memN : ∀ e ∈ m, e.2 ∈ N
  kindEq : ∀ e ∈ m, g.kind e.1 = g.kind e.2
  complete : ∀ o ∈ O, g.conns o = [] ∨ o ∈ m.map Prod.fst
  newOnly : ∀ n ∈ N, g.conns n = [] ∨ n ∈ m.map Prod.snd
  newPartners : ∀ n ∈ N, ∀ z ∈ g.conns n, z ∈ partnersOf g m

theorem seatable_spec (g : G) (m : List (Nat × Nat)) (O N : List Nat) (h : seatable g m O N = true) :
    Seatable g m O N := by
  simp only [seatable, disjointL, Bool.and_eq_true, List.all_eq_true, decide_eq_true_eq, Bool.not_eq_true',
    Bool.or_eq_true, List.isEmpty_iff, List.contains_eq_mem, decide_eq_false_iff_not] at h
  obtain ⟨⟨⟨⟨⟨⟨h1, h2⟩, h3⟩, h4⟩, h5⟩, h6⟩, h7⟩ := h
  exact ⟨h1, h2, h3, fun e he => (h4 e he).1.1, fun e he => (h4 e he).1.2, fun e he => (h4 e he).2, h5, h6, h7⟩

/-- the channel whose (translated) list `y` carries after seating -/
def src (m : List (Nat × Nat)) (N : List Nat) (y : Nat) : Option Nat :=
  match m.find? (fun e => e.2 == y) with
  | some e => some e.1
  | none => if y ∈ m.map Prod.fst ∨ y ∈ N then none else some y

theorem mem_partners {g : G} {m : List (Nat × Nat)} {e : Nat × Nat} {y : Nat} (he : e ∈ m) (hy : y ∈ g.conns e.1) :
    y ∈ partnersOf g m := List.mem_flatMap.mpr ⟨e, he, hy⟩

/-- a channel no stand-in's original lists has no replaced and no replacement channel in its own list -/
theorem clean_of_not_partner {g : G} {m : List (Nat × Nat)} {O N : List Nat} (h : Inv g) (hs : Seatable g m O N)
    {y : Nat} (hy : y ∉ partnersOf g m) : ∀ z ∈ g.conns y, z ∉ N ∧ z ∉ m.map Prod.fst ∧ z ∉ O := by
  intro z hz
  have hyz : y ∈ g.conns z := (h.symm y z).mp hz
  have h2 : z ∉ m.map Prod.fst := by
    intro hm
    obtain ⟨e, he, rfl⟩ := List.mem_map.mp hm
    exact hy (mem_partners he hyz)
  refine ⟨fun hn => hy (hs.newPartners z hn y hyz), h2, ?_⟩
  intro ho
  rcases hs.complete z ho with h0 | hm
  · rw [h0] at hyz; cases hyz
  · exact h2 hm

theorem tr_of_clean {g : G} {m : List (Nat × Nat)} {N : List Nat} {y : Nat}
    (hc : ∀ z ∈ g.conns y, z ∉ N ∧ z ∉ m.map Prod.fst) : tr g m N y = g.conns y := by
  unfold tr
  have h1 : (g.conns y).filter (fun z => !N.contains z) = g.conns y :=
    List.filter_eq_self.mpr (fun z hz => by simpa using (hc z hz).1)
  rw [h1]
  calc (g.conns y).map (subst m) = (g.conns y).map id :=
        List.map_congr_left (fun z hz => subst_of_not (hc z hz).2)
    _ = g.conns y := List.map_id _

/-- the seated graph, channel by channel -/
theorem seat_conns (g : G) (m : List (Nat × Nat)) (O N : List Nat) (h : Inv g) (hs : Seatable g m O N) (y : Nat) :
    (seat g m O N).conns y = match src m N y with
      | some a => tr g m N a
      | none => [] := by
  have hcross : ∀ e ∈ m, ∀ e' ∈ m, e.2 ≠ e'.1 := fun e he e' he' hh =>
    hs.disj e'.1 (hs.memO e' he') (hh ▸ hs.memN e he)
  have hA := seatNeighbours_conns m N (uniq (partnersOf g m)) g (nodup_uniq _)
  simp only [mem_uniq] at hA
  unfold seat src
  cases hf : m.find? (fun e => e.2 == y) with
  | some e =>
    have he := List.mem_of_find?_eq_some hf
    have h1 := List.find?_some hf
    simp only [beq_iff_eq] at h1
    subst h1
    simp only
    rw [seatStandIns_new O m _ e.1 e.2 hs.fstNodup hs.sndNodup hcross he, hA e.1]
    by_cases hp : e.1 ∈ partnersOf g m
    · simp only [hp, if_true]
      apply List.filter_eq_self.mpr
      intro w hw
      simp only [tr, List.mem_map, List.mem_filter] at hw
      obtain ⟨z, ⟨hz, _⟩, rfl⟩ := hw
      simp only [List.contains_eq_mem, decide_eq_true_eq, Bool.not_eq_true', decide_eq_false_iff_not]
      by_cases hzm : z ∈ m.map Prod.fst
      · obtain ⟨e', he', rfl⟩ := List.mem_map.mp hzm
        rw [subst_of_mem hs.fstNodup (show (e'.1, e'.2) ∈ m from he')]
        exact fun ho => hs.disj _ ho (hs.memN e' he')
      · rw [subst_of_not hzm]
        intro ho
        rcases hs.complete z ho with h0 | hm
        · have : e.1 ∈ g.conns z := (h.symm e.1 z).mp hz
          rw [h0] at this; cases this
        · exact hzm hm
    · simp only [hp, if_false]
      have hc := clean_of_not_partner h hs hp
      rw [tr_of_clean (fun z hz => ⟨(hc z hz).1, (hc z hz).2.1⟩)]
      exact List.filter_eq_self.mpr (fun z hz => by simpa using (hc z hz).2.2)
  | none =>
    have hnr : y ∉ m.map Prod.snd := by
      intro hm
      obtain ⟨e, he, rfl⟩ := List.mem_map.mp hm
      have := List.find?_eq_none.mp hf e he
      simp at this
    simp only
    by_cases hd : y ∈ m.map Prod.fst
    · simp only [hd, true_or, if_true]
      exact seatStandIns_old O m _ y hs.fstNodup hcross hd
    · rw [seatStandIns_other O m _ y hd hnr, hA y]
      by_cases hn : y ∈ N
      · simp only [hd, hn, or_true, if_true]
        have h0 : g.conns y = [] := by
          rcases hs.newOnly y hn with h0 | hm
          · exact h0
          · exact absurd hm hnr
        have hp : y ∉ partnersOf g m := by
          intro hp
          obtain ⟨e, he, hy⟩ := List.mem_flatMap.mp hp
          have : e.1 ∈ g.conns y := (h.symm e.1 y).mp hy
          rw [h0] at this; cases this
        simp [hp, h0]
      · simp only [hd, hn, or_self, if_false]
        by_cases hp : y ∈ partnersOf g m
        · simp [hp]
        · simp only [hp, if_false]
          have hc := clean_of_not_partner h hs hp
          exact (tr_of_clean (fun z hz => ⟨(hc z hz).1, (hc z hz).2.1⟩)).symm

/-- every channel outside the replacement is the source of its own image -/
theorem src_subst {g : G} {m : List (Nat × Nat)} {O N : List Nat} (hs : Seatable g m O N) {a : Nat} (ha : a ∉ N) :
    src m N (subst m a) = some a := by
  by_cases hm : a ∈ m.map Prod.fst
  · obtain ⟨e, he, rfl⟩ := List.mem_map.mp hm
    rw [subst_of_mem hs.fstNodup (show (e.1, e.2) ∈ m from he)]
    unfold src
    cases hf : m.find? (fun x => x.2 == e.2) with
    | none =>
      have := List.find?_eq_none.mp hf e he
      simp at this
    | some e' =>
      have he' := List.mem_of_find?_eq_some hf
      have h1 := List.find?_some hf
      simp only [beq_iff_eq] at h1
      have : e' = e := snd_inj hs.sndNodup he' he h1
      simp [this]
  · rw [subst_of_not hm]
    unfold src
    cases hf : m.find? (fun x => x.2 == a) with
    | some e' =>
      have he' := List.mem_of_find?_eq_some hf
      have h1 := List.find?_some hf
      simp only [beq_iff_eq] at h1
      exact absurd (h1 ▸ hs.memN e' he') ha
    | none => simp [hm, ha]

theorem src_some {g : G} {m : List (Nat × Nat)} {O N : List Nat} (hs : Seatable g m O N) {y a : Nat}
    (h : src m N y = some a) : a ∉ N ∧ subst m a = y ∧ g.kind a = g.kind y := by
  unfold src at h
  cases hf : m.find? (fun e => e.2 == y) with
  | some e =>
    rw [hf] at h
    simp only [Option.some.injEq] at h
    subst h
    have he := List.mem_of_find?_eq_some hf
    have h1 := List.find?_some hf
    simp only [beq_iff_eq] at h1
    subst h1
    exact ⟨fun hn => hs.disj _ (hs.memO e he) hn, subst_of_mem hs.fstNodup (show (e.1, e.2) ∈ m from he),
      hs.kindEq e he⟩
  | none =>
    rw [hf] at h
    simp only at h
    split at h
    · cases h
    · rename_i hno
      simp only [Option.some.injEq] at h
      subst h
      simp only [not_or] at hno
      exact ⟨hno.2, subst_of_not hno.1, rfl⟩

/-- `_seat_replacement` keeps mutuality, conjugate kinds and duplicate-freedom -/
theorem seat_inv (g : G) (m : List (Nat × Nat)) (O N : List Nat) (h : Inv g) (hs : Seatable g m O N) :
    Inv (seat g m O N) := by
  have hst : SameStatic g (seat g m O N) :=
    (seatNeighbours_static m N _ g).trans (seatStandIns_static O m _)
  have hc := seat_conns g m O N h hs
  -- membership in a seated list
  have key : ∀ a b, b ∈ (seat g m O N).conns a ↔
      ∃ a0 z, src m N a = some a0 ∧ z ∈ g.conns a0 ∧ z ∉ N ∧ subst m z = b := by
    intro a b
    rw [hc a]
    cases hsa : src m N a with
    | none => simp
    | some a0 =>
      simp only [tr, List.mem_map, List.mem_filter, List.contains_eq_mem, decide_eq_true_eq, Bool.not_eq_true',
        decide_eq_false_iff_not, Option.some.injEq]
      constructor
      · rintro ⟨z, ⟨hz, hzn⟩, rfl⟩
        exact ⟨a0, z, rfl, hz, hzn, rfl⟩
      · rintro ⟨a1, z, rfl, hz, hzn, rfl⟩
        exact ⟨z, ⟨hz, hzn⟩, rfl⟩
  have half : ∀ a b, b ∈ (seat g m O N).conns a → a ∈ (seat g m O N).conns b := by
    intro a b hb
    obtain ⟨a0, z, hsa, hz, hzn, rfl⟩ := (key a b).mp hb
    obtain ⟨ha0, hsub, _⟩ := src_some hs hsa
    exact (key (subst m z) a).mpr ⟨z, a0, src_subst hs hzn, (h.symm a0 z).mp hz, ha0, hsub⟩
  refine ⟨fun a b => ⟨half a b, half b a⟩, ?_, ?_⟩
  · intro a b hb
    obtain ⟨a0, z, hsa, hz, hzn, rfl⟩ := (key a b).mp hb
    obtain ⟨_, _, hka⟩ := src_some hs hsa
    obtain ⟨_, _, hkz⟩ := src_some hs (src_subst hs hzn)
    rw [hst.kind, ← hka, ← hkz]
    exact h.typed a0 z hz
  · intro a
    rw [hc a]
    cases hsa : src m N a with
    | none => simp
    | some a0 =>
      simp only [tr]
      apply nodup_map_on
      · intro x hx y hy hxy
        simp only [List.mem_filter, List.contains_eq_mem, decide_eq_true_eq, Bool.not_eq_true',
          decide_eq_false_iff_not] at hx hy
        have h1 := src_subst hs hx.2
        have h2 := src_subst hs hy.2
        rw [hxy, h2] at h1
        exact (Option.some.inj h1).symm
      · exact (h.nodup a0).filter _

theorem replaceConn_inv (g : G) (r : RepArgs) (pre : Bool) (h : Inv g) : Inv (replaceConn g r pre).1 := by
  unfold replaceConn
  split
  · exact h
  · split
    · exact h
    · have h1 := copyIoN_inv g true r.pairs h
      split
      · rename_i g1 heq
        rw [heq] at h1
        simp only
        split
        · rename_i hsb
          exact disconnectChans_inv _ _ (seat_inv g1 _ _ _ h1 (seatable_spec g1 _ _ _ hsb))
        · exact h1
      · rename_i g1 _ _ heq
        rw [heq] at h1
        exact h1

/-- a refused `replace_child` (a guard, or the connection copy in any panel) restores every list exactly -/
theorem replaceConn_refused (g : G) (r : RepArgs) (pre : Bool) (h : Inv g)
    (hr : (replaceConn g r pre).2 = .refused ∨ (replaceConn g r pre).2 = .connErr) : (replaceConn g r pre).1 = g := by
  unfold replaceConn at hr ⊢
  by_cases hp : pre = true
  · by_cases hc : anyConnected g r.newChans = true
    · simp [hp, hc]
    · have h2 := copyIoN_refused g r.pairs h
      rcases hd : copyIoN g true r.pairs with ⟨g1, res⟩
      rw [hd] at h2
      simp only [hp, hc, hd, Bool.not_true, Bool.false_eq_true, if_false] at hr ⊢
      cases res with
      | ok => by_cases hsb : seatable g1 (standInsOf g1 r.pairs) r.oldChans r.newChans = true <;> simp [hsb] at hr
      | typeErr => exact h2 (by simp)
      | connErr => exact h2 (by simp)
  · simp [hp]


/-! ## assignments of saved lists, permutations -/

theorem restoreSaved_conns (g0 : G) : ∀ (saved : List (Nat × List Nat)) (g : G),
    (∀ p ∈ saved, p.2 = g0.conns p.1) → ∀ x,
    (restoreSaved g saved).conns x = if x ∈ saved.map Prod.fst then g0.conns x else g.conns x := by
  intro saved
  induction saved with
  | nil => intro g _ x; simp [restoreSaved]
  | cons p ps ih =>
    intro g hv x
    simp only [restoreSaved, List.foldl_cons]
    have := ih (setConns g p.1 p.2) (fun q hq => hv q (by simp [hq])) x
    simp only [restoreSaved] at this
    rw [this]
    by_cases hx : x ∈ ps.map Prod.fst
    · simp [hx]
    · by_cases hxp : x = p.1
      · subst hxp
        simp [hx, setConns, hv p (by simp)]
      · simp [hx, hxp, setConns, updF]

theorem restoreSaved_static : ∀ (saved : List (Nat × List Nat)) (g : G), SameStatic g (restoreSaved g saved) := by
  intro saved
  induction saved with
  | nil => intro g; exact .refl g
  | cons p ps ih =>
    intro g
    have := ih (setConns g p.1 p.2)
    simp only [restoreSaved, List.foldl_cons] at this ⊢
    exact SameStatic.trans (b := setConns g p.1 p.2) ⟨rfl, rfl, rfl⟩ this

/-- the fallback recovery gives back exactly the graph the derivation started from -/
theorem dagAttempt_fail (g : G) (cut : List Nat) (h : Inv g) : dagAttempt g cut true = g := by
  simp only [dagAttempt, if_true]
  apply G.eq_of_static ((disconnectChans_static g cut).trans (restoreSaved_static _ _))
  intro x
  rw [restoreSaved_conns g (savedOf g cut) _ (by
    intro p hp
    simp only [savedOf, List.mem_map] at hp
    obtain ⟨c, _, rfl⟩ := hp
    rfl) x]
  split
  · rfl
  · rename_i hx
    have hx' : ∀ c ∈ cut, x ≠ c ∧ x ∉ g.conns c := by
      intro c hc
      constructor
      · intro e
        apply hx
        simp only [savedOf, List.map_map, List.mem_map, List.mem_flatMap, Function.comp]
        exact ⟨x, ⟨c, hc, by simp [e]⟩, rfl⟩
      · intro hm
        apply hx
        simp only [savedOf, List.map_map, List.mem_map, List.mem_flatMap, Function.comp]
        exact ⟨x, ⟨c, hc, by simp [hm]⟩, rfl⟩
    rw [disconnectChans_conns g cut h x]
    have hxc : x ∉ cut := fun hc => (hx' x hc).1 rfl
    simp only [hxc, if_false]
    apply List.filter_eq_self.mpr
    intro y hy
    simp only [List.contains_eq_mem, Bool.not_eq_true', decide_eq_false_iff_not]
    intro hyc
    exact (hx' y hyc).2 ((h.symm x y).mp hy)

theorem dagAttempt_inv (g : G) (cut : List Nat) (fail : Bool) (h : Inv g) : Inv (dagAttempt g cut fail) := by
  cases fail with
  | true => rw [dagAttempt_fail g cut h]; exact h
  | false => simpa [dagAttempt] using disconnectChans_inv g cut h

theorem reorder_inv (g : G) (c : Nat) (l : List Nat) (h : Inv g) : Inv (reorder g c l).1 := by
  unfold reorder
  split
  · rename_i hp
    have hperm : l.Perm (g.conns c) := List.isPerm_iff.mp hp
    refine ⟨?_, ?_, ?_⟩
    · intro a b
      have := h.symm a b
      by_cases ha : a = c <;> by_cases hb : b = c <;> simp_all [setConns, updF, hperm.mem_iff]
    · intro a b hb
      have := h.typed a b
      by_cases ha : a = c
      · subst ha
        simp only [setConns, updF, if_true] at hb
        exact this (hperm.mem_iff.mp hb)
      · simp only [setConns, updF, ha, if_false] at hb
        exact this hb
    · intro a
      by_cases ha : a = c
      · subst ha
        simp only [setConns, updF, if_true]
        exact hperm.nodup_iff.mpr (h.nodup a)
      · simpa [setConns, updF, ha] using h.nodup a
  · exact h


theorem restoreInsert_inv (g : G) (a b : Nat) (h : Inv g) : Inv (restoreInsert g a b).1 := by
  unfold restoreInsert
  split
  · exact h
  · rename_i hb
    split
    · rename_i hc
      have h' : Inv { g with valid := fun _ _ => true } := ⟨h.symm, h.typed, h.nodup⟩
      have := connect1_inv { g with valid := fun _ _ => true } a b h'
      simp only [connect1, hb, hc, if_false, if_true] at this
      exact ⟨this.symm, this.typed, this.nodup⟩
    · exact h

theorem moveChan_inv (g : G) (o n : Nat) (h : Inv g) : Inv (moveChan g o n).1 := by
  unfold moveChan
  split
  · rename_i hs
    exact seat_inv g _ _ _ h (seatable_spec g _ _ _ hs)
  · exact h


/-! ## pull: whatever was written to the saved channels in between, the assignment gives the starting graph back -/

/-- restore-by-assignment after ANY intermediate graph that differs from the saved one only on saved channels -/
theorem restoreSaved_framed (g g' : G) (keys : List Nat) (hs : SameStatic g g')
    (hf : ∀ x, x ∉ keys → g'.conns x = g.conns x) : restoreSaved g' (savedKeys g keys) = g := by
  apply G.eq_of_static (hs.trans (restoreSaved_static _ _))
  intro x
  rw [restoreSaved_conns g (savedKeys g keys) g' (by
    intro p hp
    simp only [savedKeys, List.mem_map] at hp
    obtain ⟨c, _, rfl⟩ := hp
    rfl) x]
  have hk : (savedKeys g keys).map Prod.fst = keys := by
    simp [savedKeys, List.map_map, Function.comp_def]
  rw [hk]
  split
  · rfl
  · rename_i hx
    exact hf x hx

theorem connect1_frame (g : G) (a b x : Nat) (hxa : x ≠ a) (hxb : x ≠ b) : (connect1 g a b).1.conns x = g.conns x := by
  unfold connect1
  split
  · rfl
  · split
    · split
      · simp [updF, hxa, hxb]
      · rfl
    · rfl

theorem disconnect1_frame (g : G) (a b x : Nat) (hxa : x ≠ a) (hxb : x ≠ b) : (disconnect1 g a b).conns x = g.conns x := by
  unfold disconnect1
  split
  · dsimp only
    split <;> simp [updF, hxa, hxb]
  · rfl

theorem runPrims_frame (keys : List Nat) : ∀ (ps : List Prim) (g : G), primsWithin keys ps = true →
    SameStatic g (runPrims g ps) ∧ ∀ x, x ∉ keys → (runPrims g ps).conns x = g.conns x := by
  intro ps
  induction ps with
  | nil => intro g _; exact ⟨.refl g, fun _ _ => rfl⟩
  | cons p ps ih =>
    intro g hw
    simp only [primsWithin, List.all_cons, Bool.and_eq_true] at hw
    have hrest : primsWithin keys ps = true := by simpa [primsWithin] using hw.2
    cases p with
    | connect a b =>
      simp only [List.contains_eq_mem, decide_eq_true_eq, Bool.and_eq_true] at hw
      have := ih (connect1 g a b).1 hrest
      simp only [runPrims, List.foldl_cons] at this ⊢
      refine ⟨(connect1_static g a b).trans this.1, fun x hx => ?_⟩
      rw [this.2 x hx]
      exact connect1_frame g a b x (fun e => hx (e ▸ hw.1.1)) (fun e => hx (e ▸ hw.1.2))
    | disconnect a b =>
      simp only [List.contains_eq_mem, decide_eq_true_eq, Bool.and_eq_true] at hw
      have := ih (disconnect1 g a b) hrest
      simp only [runPrims, List.foldl_cons] at this ⊢
      refine ⟨(disconnect1_static g a b).trans this.1, fun x hx => ?_⟩
      rw [this.2 x hx]
      exact disconnect1_frame g a b x (fun e => hx (e ▸ hw.1.1)) (fun e => hx (e ▸ hw.1.2))

/-- a pull leaves every connection list exactly as it was, order included -/
theorem pullAttempt_eq (g : G) (keys : List Nat) (ps : List Prim) : (pullAttempt g keys ps).1 = g := by
  unfold pullAttempt
  split
  · rename_i hw
    obtain ⟨hs, hf⟩ := runPrims_frame keys ps g hw
    exact restoreSaved_framed g _ keys hs hf
  · rfl


/-! ## calls -/

theorem callConn_inv : ∀ (items : List CallItem) (g : G), Inv g → Inv (callConn g items).1 := by
  intro items
  induction items with
  | nil => intro g h; exact h
  | cons it rest ih =>
    intro g h
    cases it with
    | chan a b =>
      unfold callConn
      have h1 := connect1_inv g a b h
      split
      · rename_i g' heq
        rw [heq] at h1; exact ih g' h1
      · rename_i g' e _ heq
        rw [heq] at h1; exact h1
    | valOk => unfold callConn; exact ih g h
    | valBad => unfold callConn; exact h

theorem connect1_suffix (g : G) (a b x : Nat) : ∃ pre, (connect1 g a b).1.conns x = pre ++ g.conns x := by
  unfold connect1
  split
  · exact ⟨[], rfl⟩
  · split
    · split
      · by_cases hxb : x = b
        · subst hxb
          by_cases hxa : x = a
          · subst hxa; exact ⟨[x], by simp [updF]⟩
          · exact ⟨[a], by simp [updF]⟩
        · by_cases hxa : x = a
          · subst hxa; exact ⟨[b], by simp [updF, hxb]⟩
          · exact ⟨[], by simp [updF, hxa, hxb]⟩
      · exact ⟨[], rfl⟩
    · exact ⟨[], rfl⟩

/-- a call — accepted or refused half-way — never removes or re-orders anything: every list keeps what it had, as
its tail -/
theorem callConn_suffix : ∀ (items : List CallItem) (g : G) (x : Nat),
    ∃ pre, (callConn g items).1.conns x = pre ++ g.conns x := by
  intro items
  induction items with
  | nil => intro g x; exact ⟨[], rfl⟩
  | cons it rest ih =>
    intro g x
    cases it with
    | chan a b =>
      unfold callConn
      obtain ⟨p1, h1⟩ := connect1_suffix g a b x
      split
      · rename_i g' heq
        rw [heq] at h1
        obtain ⟨p2, h2⟩ := ih g' x
        exact ⟨p2 ++ p1, by rw [h2, h1, List.append_assoc]⟩
      · rename_i g' e _ heq
        rw [heq] at h1
        exact ⟨p1, h1⟩
    | valOk => unfold callConn; exact ih g x
    | valBad => unfold callConn; exact ⟨[], rfl⟩

/-- a call whose channel keywords only restate connections that exist leaves the graph exactly as it is,
whatever it answers -/
theorem callConn_restated : ∀ (items : List CallItem) (g : G),
    (∀ a b, CallItem.chan a b ∈ items → b ∈ g.conns a) → (callConn g items).1 = g := by
  intro items
  induction items with
  | nil => intro g _; rfl
  | cons it rest ih =>
    intro g hall
    cases it with
    | chan a b =>
      unfold callConn
      have hb : b ∈ g.conns a := hall a b (by simp)
      have : connect1 g a b = (g, .ok) := by simp [connect1, hb]
      rw [this]
      exact ih g (fun a' b' hm => hall a' b' (by simp [hm]))
    | valOk => unfold callConn; exact ih g (fun a' b' hm => hall a' b' (by simp [hm]))
    | valBad => unfold callConn; rfl


theorem reloadConn_inv : ∀ (pairs : List (Nat × Nat)) (g : G), Inv g → Inv (reloadConn g pairs) := by
  intro pairs
  induction pairs with
  | nil => intro g h; exact h
  | cons p ps ih =>
    intro g h
    simp only [reloadConn, List.foldl_cons]
    exact ih _ (moveChan_inv g p.1 p.2 h)

theorem step_inv (g : G) (op : Op) (h : Inv g) : Inv (step g op).1 := by
  cases op with
  | connect a bs => exact connect_inv g a bs h
  | disconnect a bs => simp only [step]; rw [disconnectR_fst]; exact disconnect_inv g a bs h
  | disconnectAll a => simp only [step, disconnectAllR]; rw [disconnectR_fst]; exact disconnect_inv g a _ h
  | disconnectChans cs => simp only [step]; rw [disconnectChansR_fst]; exact disconnectChans_inv g cs h
  | copyConns a b => exact copyConnsAuxN_inv g a _ _ h
  | copyIo fh ps => exact copyIoN_inv g fh ps h
  | replace r pre => exact replaceConn_inv g r pre h
  | dagAttempt cut fail => exact dagAttempt_inv g cut fail h
  | reorder c l => exact reorder_inv g c l h
  | restoreInsert a b => exact restoreInsert_inv g a b h
  | moveChan o n => exact moveChan_inv g o n h
  | pullAttempt keys ps => simp only [step]; rw [pullAttempt_eq]; exact h
  | reload pairs => exact reloadConn_inv pairs g h
  | call known items =>
    simp only [step, callOp]
    split
    · exact callConn_inv items g h
    · exact h

theorem run_inv (g : G) (ops : List Op) (h : Inv g) : Inv (run g ops) := by
  unfold run
  induction ops generalizing g with
  | nil => exact h
  | cons o os ih => exact ih _ (step_inv g o h)

end PwVerif.ConnOps
