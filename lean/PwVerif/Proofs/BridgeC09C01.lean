import PwVerif.Props.C01
import PwVerif.Proofs.Macro
/-!
# Bridge C09 ⇄ C01: the body of a macro under EVERY schedule and executor assignment

C01's model (`Exec`) runs a wired DAG of nodes with uninterpreted functions: node `i` finishing with
argument terms `as` leaves the term `app i as`. This file interprets those terms in a macro body:

* node `j < B` is the `j`-th child the creator made (a term node or a NESTED macro instance), its
  meaning is `denote` of that child — for a nested macro the composition of its own body, which by
  the same theorem one level down is what every schedule of ITS scheduler computes;
* node `B + k` is the UI node of parameter `k` (kept ones only are wired), its meaning is the macro
  input value;
* an input without connection holds what the construction and the value links put there: the macro
  input of a single-use parameter, the creator's plain value, the class default (`resolve`).

`interp` is the homomorphic interpretation of `Exec.Val`. With C01's value theorem (`C01_value`: at
exit of ANY schedule, for ANY executor assignment, every member's output term satisfies the equations
of composition) the interpreted outputs are exactly `denoteBody`, i.e. what the macro model computes in
creation order (`run_value`). Nothing of C01 is re-proved.
-/
namespace PwVerif.BridgeC09C01
open PwVerif PwVerif.Macro

abbrev EV := Exec.Val
abbrev MV := Macro.Val

/-- the meaning of the nodes of one scheduler -/
structure Sem where
  /-- node `i`: resolved input values ↦ its outputs -/
  fn : Nat → (Nat → MV) → Nat → MV
  /-- what slot `p` of node `i` holds when nothing is connected to it -/
  own : Nat → Nat → MV
  /-- which output of the upstream node slot `p` of node `i` is connected to -/
  sel : Nat → Nat → Nat

mutual
def interp (d : Exec.Dag) (m : Sem) : EV → Nat → MV
  | .nd => fun _ => .nd
  | .d => fun _ => .nd
  | .app i as => m.fn i (interpArgs d m i (d.slots i) as 0)
/-- the input values of node `i` from slot `p` on, as a function of the absolute slot index -/
def interpArgs (d : Exec.Dag) (m : Sem) (i : Nat) : List (List Nat) → List EV → Nat → Nat → MV
  | [] :: css, _ :: as, p => fun q => if q = p then m.own i p else interpArgs d m i css as (p + 1) q
  | (_ :: _) :: css, a :: as, p => fun q =>
      if q = p then interp d m a (m.sel i p) else interpArgs d m i css as (p + 1) q
  | _, _, _ => fun _ => .nd
end

/-- the equations of composition, semantically: a valuation of the nodes' outputs -/
def Solves (d : Exec.Dag) (m : Sem) (V : Nat → Nat → MV) (i : Nat) : Prop :=
  V i = m.fn i (fun p => match (d.slots i)[p]? with
    | some [] => m.own i p
    | some (c :: _) => V c (m.sel i p)
    | none => .nd)

theorem interpArgs_head (d : Exec.Dag) (m : Sem) (i : Nat) (o : Nat → EV) (g : List Nat → EV)
    (hg : ∀ c cs, g (c :: cs) = o c) :
    ∀ (css : List (List Nat)) (p q : Nat),
    interpArgs d m i css (css.map g) p q =
      if p ≤ q then
        (match css[q - p]? with
          | some [] => m.own i q
          | some (c :: _) => interp d m (o c) (m.sel i q)
          | none => .nd)
      else .nd := by
  intro css
  induction css with
  | nil => intro p q; simp [interpArgs]
  | cons cs css ih =>
    intro p q
    cases cs with
    | nil =>
      simp only [List.map_cons, interpArgs]
      by_cases hq : q = p
      · subst hq; simp
      · rw [if_neg hq, ih (p + 1) q]
        by_cases hle : p ≤ q
        · have h1 : p + 1 ≤ q := by omega
          have e : q - p = (q - (p + 1)) + 1 := by omega
          simp only [h1, hle, if_true]
          rw [e]; simp
        · have h1 : ¬ p + 1 ≤ q := by omega
          simp [h1, hle]
    | cons c cs' =>
      simp only [List.map_cons, interpArgs, hg]
      by_cases hq : q = p
      · subst hq; simp
      · rw [if_neg hq, ih (p + 1) q]
        by_cases hle : p ≤ q
        · have h1 : p + 1 ≤ q := by omega
          have e : q - p = (q - (p + 1)) + 1 := by omega
          simp only [h1, hle, if_true]
          rw [e]; simp
        · have h1 : ¬ p + 1 ≤ q := by omega
          simp [h1, hle]

/-- terms that satisfy C01's equations interpret to a semantic solution -/
theorem interp_solves (d : Exec.Dag) (m : Sem) (o : Nat → EV) (i : Nat)
    (h : o i = .app i (Exec.headArgs d o i)) : Solves d m (fun j => interp d m (o j)) i := by
  unfold Solves
  show interp d m (o i) = _
  rw [h]
  simp only [interp]
  congr 1
  funext p
  unfold Exec.headArgs
  rw [interpArgs_head d m i o _ (fun _ _ => rfl) (d.slots i) 0 p]
  simp

/-- on an acyclic graph the semantic equations have one solution -/
theorem solves_unique (d : Exec.Dag) (m : Sem) (rank : Nat → Nat)
    (hrank : ∀ i j, j ∈ d.deps i → rank j < rank i) (mem : Nat → Prop)
    (hclosed : ∀ i j, mem i → j ∈ d.deps i → mem j)
    (V V' : Nat → Nat → MV) (hV : ∀ i, mem i → Solves d m V i) (hV' : ∀ i, mem i → Solves d m V' i) :
    ∀ i, mem i → V i = V' i := by
  have key : ∀ n i, rank i < n → mem i → V i = V' i := by
    intro n
    induction n with
    | zero => intro i hi; omega
    | succ n ih =>
      intro i hi hm
      rw [hV i hm, hV' i hm]
      congr 1
      funext p
      cases hs : (d.slots i)[p]? with
      | none => rfl
      | some cs =>
        cases cs with
        | nil => rfl
        | cons c cs' =>
          simp only
          have hc : c ∈ d.deps i :=
            Exec.mem_deps_of_slot d i _ c (List.mem_of_getElem? hs) (by simp)
          rw [ih c (by have := hrank i c hc; omega) (hclosed i c hm hc)]
  intro i
  exact key (rank i + 1) i (by omega)

/-! ## one macro level as a scheduler -/

/-- the connections the creator makes for one keyword argument: to the UI node of a KEPT parameter
(node `B + k`), to an earlier child, or none -/
def slotOf (kp : Nat → Bool) (B : Nat) : Src → List Nat
  | .arg k => if kp k then [B + k] else []
  | .out j _ => [j]
  | .const _ => []
  | .none => []

def selOf : Src → Nat
  | .out _ o => o
  | _ => 0

/-- the meaning of the nodes of the scheduler of `mac args body rets` with input values `a` -/
def levelSem (body : List Node) (a : Nat → MV) : Sem where
  fn i ins :=
    match body[i]? with
    | some n => memo n.nout (denote n ins)
    | none => fun o => if o = 0 then a (i - body.length) else .nd
  own i p :=
    match body[i]? with
    | some n => resolve n a (fun _ _ => .nd) p
    | none => .nd
  sel i p :=
    match body[i]? with
    | some n => selOf (n.srcs.getD p .none)
    | none => 0

/-- the graph is wired as the creator wired it (data connections only; the `ran` order, the starting
order and the executor assignment are left arbitrary) -/
structure Wired (d : Exec.Dag) (kp : Nat → Bool) (body : List Node) : Prop where
  kids : ∀ j n, body[j]? = some n → d.slots j = n.srcs.map (slotOf kp body.length)
  uis : ∀ i, body.length ≤ i → d.slots i = []

mutual
theorem denote_congr : ∀ (n : Node) (a a' : Nat → MV), WF n → (∀ i, i < n.arity → a i = a' i) →
    denote n a = denote n a'
  | .leaf f srcs, a, a', _, h => by
    funext o
    simp only [denote]
    by_cases ho : o = 0
    · simp only [ho, if_true]
      congr 1
      apply List.map_congr_left
      intro i hi
      exact h i (by simpa [Node.arity] using List.mem_range.mp hi)
    · simp [ho]
  | .mac args body rets oh s, a, a', hwf, h => by
    simp only [WF] at hwf
    simp only [Node.arity] at h
    funext r
    simp only [denote]
    rw [denoteBody_congr args.length (noutsOf body) a a' h body 0 _ hwf.1]
    cases hr : rets[r]? with
    | none => rfl
    | some x =>
      cases x with
      | arg k =>
        have := hwf.2 _ (List.mem_of_getElem? hr)
        exact h k (by simpa [RetWF] using this)
      | out j o => rfl
theorem denoteBody_congr (na : Nat) (nouts : Nat → Nat) (a a' : Nat → MV) (h : ∀ i, i < na → a i = a' i) :
    ∀ (ns : List Node) (j : Nat) (acc : Nat → Nat → MV), WFBody na nouts ns j →
    denoteBody ns j a acc = denoteBody ns j a' acc
  | [], _, _, _ => by simp [denoteBody]
  | n :: ns, j, acc, hwf => by
    simp only [WFBody] at hwf
    simp only [denoteBody]
    have hres : resolve n a acc = resolve n a' acc := by
      funext i
      unfold resolve
      cases hs : n.srcs[i]? with
      | none => rfl
      | some s =>
        cases s with
        | arg k =>
          have := hwf.2.2.2.1 i _ hs
          exact h k (by simpa [SrcWF] using this)
        | out j' o => rfl
        | const v => rfl
        | none => rfl
    rw [hres]
    exact denoteBody_congr na nouts a a' h ns (j + 1) _ hwf.2.2.2.2
end

/-- later children do not change what `denoteBody` says about earlier ones -/
theorem denoteBody_frame (ns : List Node) (j : Nat) (a : Nat → MV) (acc : Nat → Nat → MV) (j' : Nat)
    (h : j' < j) : denoteBody ns j a acc j' = acc j' := by
  induction ns generalizing j acc with
  | nil => simp [denoteBody]
  | cons n ns ih =>
    simp only [denoteBody]
    rw [ih (j + 1) _ (by omega)]
    have : j' ≠ j := by omega
    simp [this]

/-- two accumulators that agree below `j` give the same body from `j` on -/
theorem denoteBody_acc_congr (na : Nat) (nouts : Nat → Nat) (a : Nat → MV) :
    ∀ (ns : List Node) (j : Nat) (acc acc' : Nat → Nat → MV), WFBody na nouts ns j →
    (∀ j', j' < j → acc j' = acc' j') →
    ∀ j', j' < j + ns.length → denoteBody ns j a acc j' = denoteBody ns j a acc' j' := by
  intro ns
  induction ns with
  | nil => intro j acc acc' _ h j' hj'; simpa [denoteBody] using h j' (by simpa using hj')
  | cons n ns ih =>
    intro j acc acc' hwf h j' hj'
    simp only [WFBody] at hwf
    simp only [denoteBody]
    have hres : resolve n a acc = resolve n a acc' := by
      funext i
      unfold resolve
      cases hs : n.srcs[i]? with
      | none => rfl
      | some s =>
        cases s with
        | arg k => rfl
        | out j0 o =>
          have := hwf.2.2.2.1 i _ hs
          simp only [SrcWF] at this
          simp only
          rw [h j0 this.1]
        | const v => rfl
        | none => rfl
    rw [hres]
    apply ih (j + 1) _ _ hwf.2.2.2.2
    · intro j0 hj0
      by_cases he : j0 = j
      · simp [he]
      · simp only [he, if_false]; exact h j0 (by omega)
    · simp at hj'; omega

/-- what `denoteBody` says about child `t`: its own denotation on the keyword arguments resolved
against the finished body -/
theorem denoteBody_at (na : Nat) (nouts : Nat → Nat) (a : Nat → MV) :
    ∀ (ns : List Node) (j : Nat) (acc : Nat → Nat → MV), WFBody na nouts ns j →
    ∀ (t : Nat) (n : Node), ns[t]? = some n →
    denoteBody ns j a acc (j + t) = memo n.nout (denote n (resolve n a (denoteBody ns j a acc))) := by
  intro ns
  induction ns with
  | nil => intro j acc _ t n hn; simp at hn
  | cons m ns ih =>
    intro j acc hwf t n hn
    have hwf' := hwf
    simp only [WFBody] at hwf
    cases t with
    | zero =>
      simp at hn; subst hn
      simp only [denoteBody, Nat.add_zero]
      rw [denoteBody_frame ns (j + 1) a _ j (by omega)]
      simp only [if_true]
      congr 1
      apply denote_congr m _ _ hwf.1
      intro i hi
      -- the keyword arguments of child `j` only look at children before `j`
      unfold resolve
      rw [← hwf.2.1] at hi
      have hs : m.srcs[i]? = some m.srcs[i] := by simp [hi]
      rw [hs]
      cases hsi : m.srcs[i] with
      | arg k => rfl
      | out j0 o =>
        have := hwf.2.2.2.1 i _ hs
        rw [hsi] at this
        simp only [SrcWF] at this
        simp only
        rw [denoteBody_frame ns (j + 1) a _ j0 (by omega)]
        have : j0 ≠ j := by omega
        simp [this]
      | const v => rfl
      | none => rfl
    | succ t =>
      simp only [denoteBody]
      have := ih (j + 1) (fun j' => if j' = j then memo m.nout (denote m (resolve m a acc)) else acc j')
        hwf.2.2.2.2 t n (by simpa using hn)
      have e : j + 1 + t = j + (t + 1) := by omega
      rw [e] at this
      exact this


/-- the valuation the macro model computes (in creation order) for the nodes of one level -/
def levelVal (body : List Node) (a : Nat → MV) : Nat → Nat → MV := fun i =>
  if i < body.length then denoteBody body 0 a (fun _ _ => .nd) i
  else fun o => if o = 0 then a (i - body.length) else .nd

theorem levelVal_solves (na : Nat) (body : List Node) (rets : List Ret) (d : Exec.Dag)
    (hw : Wired d (kept body rets) body) (hwf : WFBody na (noutsOf body) body 0) (a : Nat → MV) (i : Nat) :
    Solves d (levelSem body a) (levelVal body a) i := by
  unfold Solves
  cases hb : body[i]? with
  | none =>
    have hi : body.length ≤ i := by
      rcases Nat.lt_or_ge i body.length with h | h
      · simp [h] at hb
      · exact h
    have hlt : ¬ i < body.length := by omega
    simp only [levelVal, levelSem, hb, hlt, if_false]
  | some n =>
    have hi : i < body.length := (List.getElem?_eq_some_iff.mp hb).1
    obtain ⟨hwn, har, _, hsw⟩ := wfBody_get _ _ body 0 i n hwf hb
    rw [Nat.zero_add] at hsw
    have h1 := denoteBody_at na (noutsOf body) a body 0 (fun _ _ => .nd) hwf i n hb
    rw [Nat.zero_add] at h1
    simp only [levelVal, hi, if_true, levelSem, hb]
    rw [h1]
    congr 1
    apply denote_congr n _ _ hwn
    intro p hp
    rw [← har] at hp
    have hs : n.srcs[p]? = some n.srcs[p] := by simp [hp]
    rw [hw.kids i n hb]
    simp only [List.getElem?_map, hs, Option.map_some]
    have hgd : n.srcs.getD p Src.none = n.srcs[p] := by simp [List.getD, hs]
    rw [hgd]
    unfold resolve
    rw [hs]
    have hw' := hsw p _ hs
    cases hsp : n.srcs[p] with
    | arg k =>
      simp only [slotOf]
      by_cases hk : kept body rets k = true
      · simp only [hk, if_true, selOf]
        have : ¬ body.length + k < body.length := by omega
        simp [this]
      · simp only [hk, Bool.false_eq_true, if_false]
    | out j0 o =>
      rw [hsp] at hw'
      simp only [SrcWF] at hw'
      simp only [slotOf, selOf]
      have : j0 < body.length := by omega
      simp [this]
    | const v =>
      simp only [slotOf]
    | none =>
      simp only [slotOf]

/-- **every schedule, every executor assignment**: when C01's scheduler has exited on the wired body of a
macro level (any `ran` order, starting order, `onExec`, any interleaving of completions), every node's
output term interprets to the value the macro model computed in creation order -/
theorem level_any_schedule {cfg : Exec.Cfg} {d : Exec.Dag} {s : Exec.S} (wf : Exec.WF d) (rank : Nat → Nat)
    (hrank : ∀ i j, j ∈ d.deps i → rank j < rank i) (hnf : C01.NoFaults d) (h : C01.Reach cfg d s)
    (hex : s.phase = .exited)
    (na : Nat) (body : List Node) (rets : List Ret) (hw : Wired d (kept body rets) body)
    (hwf : WFBody na (noutsOf body) body 0) (a : Nat → MV) :
    ∀ i, d.member i → interp d (levelSem body a) (s.out i) = levelVal body a i := by
  apply solves_unique d (levelSem body a) rank hrank d.member
  · intro i j _ hj
    by_cases hd : d.deps j = []
    · exact Or.inl (wf.rootsStart i j hj hd)
    · exact Or.inr hd
  · intro i hm
    exact interp_solves d (levelSem body a) s.out i (C01.C01_value wf rank hrank hnf h hex i hm)
  · intro i _
    exact levelVal_solves na body rets d hw hwf a i

/-- the macro's outputs read off that final scheduler state: the plain composition -/
def retOf (d : Exec.Dag) (m : Sem) (a : Nat → MV) (sout : Nat → EV) : Ret → MV
  | .arg k => a k
  | .out j o => interp d m (sout j) o

theorem mac_any_schedule {cfg : Exec.Cfg} {d : Exec.Dag} {s : Exec.S} (wf : Exec.WF d) (rank : Nat → Nat)
    (hrank : ∀ i j, j ∈ d.deps i → rank j < rank i) (hnf : C01.NoFaults d) (h : C01.Reach cfg d s)
    (hex : s.phase = .exited)
    (args : List Arg) (body : List Node) (rets : List Ret) (oh : List Nat) (srcs : List Src)
    (hw : Wired d (kept body rets) body) (hwf : WF (.mac args body rets oh srcs))
    (hmem : ∀ j, j < body.length → d.member j) (a : Nat → MV) (r : Nat) (x : Ret) (hr : rets[r]? = some x) :
    retOf d (levelSem body a) a s.out x = denote (.mac args body rets oh srcs) a r := by
  simp only [WF] at hwf
  simp only [denote, hr]
  cases x with
  | arg k => rfl
  | out j o =>
    have hx := hwf.2 _ (List.mem_of_getElem? hr)
    simp only [RetWF] at hx
    simp only [retOf]
    rw [level_any_schedule wf rank hrank hnf h hex args.length body rets hw hwf.1 a j (hmem j hx.1)]
    simp [levelVal, hx.1]

end PwVerif.BridgeC09C01
