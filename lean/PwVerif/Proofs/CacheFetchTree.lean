import PwVerif.Model.CacheFetchTree
namespace PwVerif.CacheFetchTree
variable {ρ : Type}

theorem fetchIn_key (nd : ρ) (pv : List ρ) (env : List (Nat × ρ)) (a b : In ρ) (h : inKey a = inKey b) :
    fetchIn nd pv env a = fetchIn nd pv env b := by
  cases a <;> cases b <;> simp_all [inKey, fetchIn]

theorem map_fetchIn_key (nd : ρ) (pv : List ρ) (env : List (Nat × ρ)) : ∀ (a b : List (In ρ)), a.map inKey = b.map inKey →
    a.map (fetchIn nd pv env) = b.map (fetchIn nd pv env)
  | [], [], _ => rfl
  | [], _ :: _, h => by simp at h
  | _ :: _, [], h => by simp at h
  | x :: xs, y :: ys, h => by
    simp only [List.map_cons, List.cons.injEq] at h ⊢
    exact ⟨fetchIn_key nd pv env x y h.1, map_fetchIn_key nd pv env xs ys h.2⟩

theorem inKey_fetchIn (nd : ρ) (pv : List ρ) (env : List (Nat × ρ)) (a : In ρ) : inKey (fetchIn nd pv env a) = inKey a := by
  cases a <;> rfl

theorem map_inKey_fetchIn (nd : ρ) (pv : List ρ) (env : List (Nat × ρ)) (ins : List (In ρ)) :
    (ins.map (fetchIn nd pv env)).map inKey = ins.map inKey := by
  simp only [List.map_map]
  apply List.map_congr_left
  intro a _
  exact inKey_fetchIn nd pv env a

theorem map_fetchIn_idem (nd : ρ) (pv : List ρ) (env : List (Nat × ρ)) (ins : List (In ρ)) :
    (ins.map (fetchIn nd pv env)).map (fetchIn nd pv env) = ins.map (fetchIn nd pv env) := by
  simp only [List.map_map]
  apply List.map_congr_left
  intro a _
  cases a <;> rfl

theorem label_runN (F : Nat → List ρ → ρ) (nd : ρ) (pv : List ρ) (env : List (Nat × ρ)) (k : Nd ρ) :
    (runN F nd pv env k).label = k.label := by
  cases k <;> simp [runN, Nd.label]

mutual
theorem sameLB_sound [DecidableEq ρ] : ∀ (a b : List (Nd ρ)), sameLB a b = true → SameL a b
  | [], [], _ => trivial
  | [], _ :: _, h => by simp [sameLB] at h
  | _ :: _, [], h => by simp [sameLB] at h
  | x :: xs, y :: ys, h => by
    simp only [sameLB, Bool.and_eq_true] at h
    exact ⟨sameNB_sound x y h.1, sameLB_sound xs ys h.2⟩
theorem sameNB_sound [DecidableEq ρ] : ∀ (a b : Nd ρ), sameNB a b = true → SameN a b
  | .leaf _ _ _ _, .leaf _ _ _ _, h => by
    simp only [sameNB, Bool.and_eq_true, decide_eq_true_eq] at h
    exact ⟨h.1.1, h.1.2, h.2⟩
  | .comp _ _ _ k _, .comp _ _ _ k' _, h => by
    simp only [sameNB, Bool.and_eq_true, decide_eq_true_eq] at h
    exact ⟨h.1.1.1, h.1.1.2, h.1.2, sameLB_sound k k' h.2⟩
  | .leaf _ _ _ _, .comp _ _ _ _ _, h => by simp [sameNB] at h
  | .comp _ _ _ _ _, .leaf _ _ _ _, h => by simp [sameNB] at h
end

mutual
theorem sameL_symm : ∀ (a b : List (Nd ρ)), SameL a b → SameL b a
  | [], [], _ => trivial
  | [], _ :: _, h => by simp [SameL] at h
  | _ :: _, [], h => by simp [SameL] at h
  | x :: xs, y :: ys, h => by
    simp only [SameL] at h ⊢
    exact ⟨sameN_symm x y h.1, sameL_symm xs ys h.2⟩
theorem sameN_symm : ∀ (a b : Nd ρ), SameN a b → SameN b a
  | .leaf _ _ _ _, .leaf _ _ _ _, h => by
    simp only [SameN] at h ⊢
    exact ⟨h.1.symm, h.2.1.symm, h.2.2.symm⟩
  | .comp _ _ _ k _, .comp _ _ _ k' _, h => by
    simp only [SameN] at h ⊢
    exact ⟨h.1.symm, h.2.1.symm, h.2.2.1.symm, sameL_symm k k' h.2.2.2⟩
  | .leaf _ _ _ _, .comp _ _ _ _ _, h => by simp [SameN] at h
  | .comp _ _ _ _ _, .leaf _ _ _ _, h => by simp [SameN] at h
end

mutual
/-- a run is a function of the key alone, at every depth -/
theorem runL_same (F : Nat → List ρ → ρ) (nd : ρ) : ∀ (a b : List (Nd ρ)) (pv : List ρ) (env : List (Nat × ρ)),
    SameL a b → runL F nd pv env a = runL F nd pv env b
  | [], [], _, _, _ => rfl
  | [], _ :: _, _, _, h => by simp [SameL] at h
  | _ :: _, [], _, _, h => by simp [SameL] at h
  | x :: xs, y :: ys, pv, env, h => by
    simp only [SameL] at h
    have hx := runN_same F nd x y pv env h.1
    have hl : x.label = y.label := by
      cases x <;> cases y <;> simp only [SameN] at h <;> first | exact h.1.1 | exact h.1.elim
    simp only [runL, hx, hl]
    congr 1
    exact runL_same F nd xs ys pv _ h.2
theorem runN_same (F : Nat → List ρ → ρ) (nd : ρ) : ∀ (a b : Nd ρ) (pv : List ρ) (env : List (Nat × ρ)),
    SameN a b → runN F nd pv env a = runN F nd pv env b
  | .leaf _ _ i _, .leaf _ _ i' _, pv, env, h => by
    simp only [SameN] at h
    obtain ⟨rfl, rfl, hi⟩ := h
    simp only [runN, map_fetchIn_key nd pv env i i' hi]
  | .comp _ _ i k _, .comp _ _ i' k' _, pv, env, h => by
    simp only [SameN] at h
    obtain ⟨rfl, rfl, hi, hk⟩ := h
    simp only [runN, map_fetchIn_key nd pv env i i' hi, runL_same F nd k k' _ [] hk]
  | .leaf _ _ _ _, .comp _ _ _ _ _, _, _, h => by simp [SameN] at h
  | .comp _ _ _ _ _, .leaf _ _ _ _, _, _, h => by simp [SameN] at h
end

mutual
theorem same_runL (F : Nat → List ρ → ρ) (nd : ρ) : ∀ (a : List (Nd ρ)) (pv : List ρ) (env : List (Nat × ρ)),
    SameL (runL F nd pv env a) a
  | [], _, _ => trivial
  | x :: xs, pv, env => by
    simp only [runL, SameL]
    exact ⟨same_runN F nd x pv env, same_runL F nd xs pv _⟩
theorem same_runN (F : Nat → List ρ → ρ) (nd : ρ) : ∀ (a : Nd ρ) (pv : List ρ) (env : List (Nat × ρ)),
    SameN (runN F nd pv env a) a
  | .leaf _ _ i _, pv, env => by simp only [runN, SameN, map_inKey_fetchIn, and_self]
  | .comp _ _ i k _, pv, env => by
    simp only [runN, SameN, map_inKey_fetchIn, true_and]
    exact same_runL F nd k _ []
end

theorem runL_idem (F : Nat → List ρ → ρ) (nd : ρ) (a : List (Nd ρ)) (pv : List ρ) (env : List (Nat × ρ)) :
    runL F nd pv env (runL F nd pv env a) = runL F nd pv env a :=
  runL_same F nd _ _ pv env (same_runL F nd a pv env)

mutual
/-- a deep re-fetch is a function of the key and the stored outputs -/
theorem refL_same (nd : ρ) : ∀ (a b : List (Nd ρ)) (pv : List ρ) (env : List (Nat × ρ)),
    SameL a b → OutsL a b → refL true nd pv env a = refL true nd pv env b
  | [], [], _, _, _, _ => rfl
  | [], _ :: _, _, _, h, _ => by simp [SameL] at h
  | _ :: _, [], _, _, h, _ => by simp [SameL] at h
  | x :: xs, y :: ys, pv, env, h, ho => by
    simp only [SameL] at h
    simp only [OutsL] at ho
    have hx := refN_same nd x y pv env h.1 ho.1
    have hl : x.label = y.label := by
      cases x <;> cases y <;> simp only [SameN] at h <;> first | exact h.1.1 | exact h.1.elim
    have hout : x.out = y.out := by
      cases x <;> cases y <;> simp only [OutsN] at ho <;> first | exact ho.1 | exact ho.1.1 | exact ho.1.elim
    simp only [refL, hx, hl, hout]
    congr 1
    exact refL_same nd xs ys pv _ h.2 ho.2
theorem refN_same (nd : ρ) : ∀ (a b : Nd ρ) (pv : List ρ) (env : List (Nat × ρ)),
    SameN a b → OutsN a b → refN true nd pv env a = refN true nd pv env b
  | .leaf _ _ i _, .leaf _ _ i' _, pv, env, h, ho => by
    simp only [SameN] at h
    simp only [OutsN] at ho
    obtain ⟨rfl, rfl, hi⟩ := h
    subst ho
    simp only [refN, map_fetchIn_key nd pv env i i' hi]
  | .comp _ _ i k _, .comp _ _ i' k' _, pv, env, h, ho => by
    simp only [SameN] at h
    simp only [OutsN] at ho
    obtain ⟨rfl, rfl, hi, hk⟩ := h
    obtain ⟨rfl, hok⟩ := ho
    simp only [refN, map_fetchIn_key nd pv env i i' hi, if_true, refL_same nd k k' _ [] hk hok]
  | .leaf _ _ _ _, .comp _ _ _ _ _, _, _, h, _ => by simp [SameN] at h
  | .comp _ _ _ _ _, .leaf _ _ _ _, _, _, h, _ => by simp [SameN] at h
end

mutual
/-- right after a run a deep re-fetch changes nothing -/
theorem refL_runL (F : Nat → List ρ → ρ) (nd : ρ) : ∀ (a : List (Nd ρ)) (pv : List ρ) (env : List (Nat × ρ)),
    refL true nd pv env (runL F nd pv env a) = runL F nd pv env a
  | [], _, _ => rfl
  | x :: xs, pv, env => by
    simp only [runL, refL, refN_runN F nd x pv env, label_runN]
    congr 1
    exact refL_runL F nd xs pv _
theorem refN_runN (F : Nat → List ρ → ρ) (nd : ρ) : ∀ (a : Nd ρ) (pv : List ρ) (env : List (Nat × ρ)),
    refN true nd pv env (runN F nd pv env a) = runN F nd pv env a
  | .leaf _ _ i _, pv, env => by simp only [runN, refN, map_fetchIn_idem]
  | .comp _ _ i k _, pv, env => by
    simp only [runN, refN, map_fetchIn_idem, if_true, refL_runL F nd k _ []]
end

mutual
theorem outsL_refl : ∀ (a : List (Nd ρ)), OutsL a a
  | [] => trivial
  | x :: xs => by simp only [OutsL]; exact ⟨outsN_refl x, outsL_refl xs⟩
theorem outsN_refl : ∀ (a : Nd ρ), OutsN a a
  | .leaf _ _ _ _ => by simp [OutsN]
  | .comp _ _ _ k _ => by simp only [OutsN, true_and]; exact outsL_refl k
end

mutual
theorem outsL_trans : ∀ (a b c : List (Nd ρ)), OutsL a b → OutsL b c → OutsL a c
  | [], [], [], _, _ => trivial
  | [], [], _ :: _, _, h => by simp [OutsL] at h
  | [], _ :: _, _, h, _ => by simp [OutsL] at h
  | _ :: _, [], _, h, _ => by simp [OutsL] at h
  | _ :: _, _ :: _, [], _, h => by simp [OutsL] at h
  | x :: xs, y :: ys, z :: zs, h1, h2 => by
    simp only [OutsL] at h1 h2 ⊢
    exact ⟨outsN_trans x y z h1.1 h2.1, outsL_trans xs ys zs h1.2 h2.2⟩
theorem outsN_trans : ∀ (a b c : Nd ρ), OutsN a b → OutsN b c → OutsN a c
  | .leaf _ _ _ _, .leaf _ _ _ _, .leaf _ _ _ _, h1, h2 => by
    simp only [OutsN] at h1 h2 ⊢; exact h1.trans h2
  | .comp _ _ _ k1 _, .comp _ _ _ k2 _, .comp _ _ _ k3 _, h1, h2 => by
    simp only [OutsN] at h1 h2 ⊢
    exact ⟨h1.1.trans h2.1, outsL_trans k1 k2 k3 h1.2 h2.2⟩
  | .leaf _ _ _ _, .comp _ _ _ _ _, _, h, _ => by simp [OutsN] at h
  | .comp _ _ _ _ _, .leaf _ _ _ _, _, h, _ => by simp [OutsN] at h
  | .leaf _ _ _ _, .leaf _ _ _ _, .comp _ _ _ _ _, _, h => by simp [OutsN] at h
  | .comp _ _ _ _ _, .comp _ _ _ _ _, .leaf _ _ _ _, _, h => by simp [OutsN] at h
end

mutual
theorem outs_refL (deep : Bool) (nd : ρ) : ∀ (a : List (Nd ρ)) (pv : List ρ) (env : List (Nat × ρ)),
    OutsL (refL deep nd pv env a) a
  | [], _, _ => trivial
  | x :: xs, pv, env => by
    simp only [refL, OutsL]
    exact ⟨outs_refN deep nd x pv env, outs_refL deep nd xs pv _⟩
theorem outs_refN (deep : Bool) (nd : ρ) : ∀ (a : Nd ρ) (pv : List ρ) (env : List (Nat × ρ)),
    OutsN (refN deep nd pv env a) a
  | .leaf _ _ _ _, _, _ => by simp [refN, OutsN]
  | .comp _ _ _ k _, pv, env => by
    simp only [refN, OutsN, true_and]
    cases deep
    · simpa using outsL_refl k
    · simpa using outs_refL true nd k _ []
end

/-! edits of channels leave every output alone -/
theorem outsN_mapIns (f : List (In ρ) → List (In ρ)) (k : Nd ρ) : OutsN (k.mapIns f) k := by
  cases k with
  | leaf => simp [Nd.mapIns, OutsN]
  | comp _ _ _ ks _ => simp only [Nd.mapIns, OutsN, true_and]; exact outsL_refl ks

theorem outsL_mapNd (l : Nat) (f : Nd ρ → Nd ρ) (hf : ∀ k, OutsN (f k) k) : ∀ (b : List (Nd ρ)), OutsL (mapNd l f b) b
  | [] => trivial
  | x :: xs => by
    have ih := outsL_mapNd l f hf xs
    simp only [mapNd, List.map_cons, OutsL] at ih ⊢
    refine ⟨?_, ih⟩
    by_cases h : x.label = l
    · simp only [h, if_true]; exact hf x
    · simp only [h, if_false]; exact outsN_refl x

theorem outsN_mapKids (g : List (Nd ρ) → List (Nd ρ)) (hg : ∀ b, OutsL (g b) b) (k : Nd ρ) : OutsN (k.mapKids g) k := by
  cases k with
  | leaf => simp [Nd.mapKids, OutsN]
  | comp _ _ _ ks _ => simp only [Nd.mapKids, OutsN, true_and]; exact hg ks

theorem outsL_atPath (g : List (Nd ρ) → List (Nd ρ)) (hg : ∀ b, OutsL (g b) b) :
    ∀ (p : List Nat) (b : List (Nd ρ)), OutsL (atPath g p b) b
  | [], b => hg b
  | l :: p, b => outsL_mapNd l _ (fun k => outsN_mapKids _ (outsL_atPath g hg p) k) b

/-- the twins hold the same state at every depth, channel values included; the snapshot vouches that, for any body
with its key that shows the outputs as they stand, a deep re-fetch is all a run would do -/
structure Sim (F : Nat → List ρ → ρ) (nd : ρ) (a b : St ρ) : Prop where
  body : a.body = b.body
  valid : ∀ snap, a.cache = some snap → ∀ b', SameL snap b' → OutsL b' a.body →
    refL true nd [] [] b' = runL F nd [] [] b'

theorem step_sim [DecidableEq ρ] (F : Nat → List ρ → ρ) (nd : ρ) (a b : St ρ) (op : Op ρ) (h : Sim F nd a b) :
    Sim F nd (step F nd true true true a op).1 (step F nd true true false b op).1 ∧
    (step F nd true true true a op).2 = (step F nd true true false b op).2 := by
  obtain ⟨hb, hv⟩ := h
  obtain ⟨ab, ac⟩ := a
  obtain ⟨bb, bc⟩ := b
  simp only at hb hv
  subst hb
  cases op with
  | assign p l i v =>
    refine ⟨⟨rfl, ?_⟩, rfl⟩
    intro snap hk b' hs ho
    simp only [step] at hk ho
    exact hv snap hk b' hs (outsL_trans _ _ _ ho
      (outsL_atPath _ (fun b => outsL_mapNd l _ (fun k => outsN_mapIns _ k) b) p ab))
  | disconnect p l i =>
    refine ⟨⟨rfl, ?_⟩, rfl⟩
    intro snap hk b' hs ho
    simp only [step] at hk ho
    exact hv snap hk b' hs (outsL_trans _ _ _ ho
      (outsL_atPath _ (fun b => outsL_mapNd l _ (fun k => outsN_mapIns _ k) b) p ab))
  | run =>
    cases ac with
    | none =>
      simp only [step, Bool.and_false, Bool.false_eq_true, if_false, if_true, Bool.false_and]
      refine ⟨⟨rfl, ?_⟩, by first | rfl | trivial⟩
      intro snap hk b' hs ho
      simp only [Option.some.injEq] at hk
      subst hk
      have hs' := sameL_symm _ _ hs
      rw [refL_same nd b' _ [] [] hs' ho, refL_runL, runL_same F nd b' _ [] [] hs', runL_idem]
    | some snap0 =>
      by_cases hh : sameLB snap0 ab = true
      · have hfix := hv snap0 rfl ab (sameLB_sound _ _ hh) (outsL_refl ab)
        simp only [step, hh, Bool.and_self, if_true, Bool.false_and, Bool.false_eq_true, if_false, hfix]
        refine ⟨⟨rfl, ?_⟩, by first | rfl | trivial⟩
        intro snap hk b' hs ho
        simp only [Option.some.injEq] at hk
        subst hk
        rw [← hfix] at ho
        exact hv _ rfl b' hs (outsL_trans _ _ _ ho (outs_refL true nd ab [] []))
      · simp only [step, hh, Bool.and_false, Bool.false_eq_true, if_false, if_true, Bool.false_and]
        refine ⟨⟨rfl, ?_⟩, by first | rfl | trivial⟩
        intro snap hk b' hs ho
        simp only [Option.some.injEq] at hk
        subst hk
        have hs' := sameL_symm _ _ hs
        rw [refL_same nd b' _ [] [] hs' ho, refL_runL, runL_same F nd b' _ [] [] hs', runL_idem]

theorem runOps_sim [DecidableEq ρ] (F : Nat → List ρ → ρ) (nd : ρ) (ops : List (Op ρ)) (a b : St ρ) (h : Sim F nd a b) :
    (runOps F nd true true true a ops).2 = (runOps F nd true true false b ops).2 ∧
    Sim F nd (runOps F nd true true true a ops).1 (runOps F nd true true false b ops).1 := by
  induction ops generalizing a b with
  | nil => exact ⟨rfl, h⟩
  | cons o os ih =>
    obtain ⟨hs, hr⟩ := step_sim F nd a b o h
    obtain ⟨ih1, ih2⟩ := ih _ _ hs
    simp only [runOps]
    exact ⟨by rw [hr, ih1], ih2⟩

end PwVerif.CacheFetchTree
