import PwVerif.Proofs.Serial
import PwVerif.Model.Exec
/-!
# Bridge C07 → C01 / C02: equal readings give equal runs

`C07_rerun` / `C07_refetch` say that a later run of `load (save g)` READS the same as a run of `g`.
Here the run models themselves are imported and the conclusion is drawn formally:

* DAG-automated composites (C01, `Model/Exec.lean`): `toDag` reads the `Exec.Dag` of a composite off
  the live graph (fetch slots from the data connections, firing lists from the `ran` connections,
  starting nodes, the outputs left by earlier runs); it is the same for the round-tripped graph,
  hence `Exec.runActs` — for EVERY schedule of starts / deliveries / executor completions, every
  assignment of executors and every set of failing nodes — ends in the same state (outputs, call
  counts, provenance, collected errors).
* hand-wired composites (C02, `Model/Signal.lean`): `dataSem` is the behaviour of the children as the
  graph determines it (each run fetches its inputs through the data connections in list order from
  the store of output values and writes its output); it is the same `Signal.Sem` for the
  round-tripped graph, and so is the scheduler graph `toGraph`: `Signal.compositeRun` yields the
  same store, firing order and errors from every initial store, for every fuel.
-/
namespace PwVerif.Serial
open PwVerif

/-! ## what a run reads of the children -/

/-- class, inputs and outputs of the child labelled `i` -/
def childIO (g : Node) (i : Lbl) : Option (Nat × List DChan × List DChan) :=
  (g.children.find? fun x => x.core.label = i).map fun x => (x.core.cls, x.core.ins, x.core.outs)

theorem find_imgL (cfg : Cfg) (ch : List Node) (i : Lbl) :
    (imgL cfg ch).find? (fun x => decide (x.core.label = i)) =
      (ch.find? fun x => decide (x.core.label = i)).map (img cfg none) := by
  induction ch with
  | nil => simp [imgL]
  | cons n ns ih =>
    simp only [imgL, List.find?_cons, img_core, imgCore, Core.forState]
    by_cases h : n.core.label = i
    · simp [h]
    · simp [h, ih]

theorem childIO_img (cfg : Cfg) (d : Option Path) (g : Node) (i : Lbl) : childIO (img cfg d g) i = childIO g i := by
  cases g with
  | mk c ch dg sg =>
    simp only [childIO, img, Node.children, find_imgL, Option.map_map]
    cases ch.find? (fun x => decide (x.core.label = i)) with
    | none => rfl
    | some x => simp [Core.forState]

/-- repaired restore: the data connections come back exactly on the input side, everywhere -/
theorem img_data_inl (cfg : Cfg) (h1 : cfg.revIter = true) (d : Option Path) (g : Node) (hwf : WF g) :
    (img cfg d g).data.inl = g.data.inl := by
  cases g with
  | mk c ch dg sg =>
    simp only [WF] at hwf
    obtain ⟨_, hi, _, _, _, hd, _, _, _, _⟩ := hwf
    funext a
    simp only [img, Node.data]
    rw [(restore_repaired cfg h1 dg.inl (inDom ch) hi (fun a _ => hd.nodupIn a)).1 a]
    by_cases ha : a ∈ inDom ch
    · simp [ha]
    · simp [ha, hd.support a ha]

theorem img_sig (cfg : Cfg) (h1 : cfg.revIter = true) (h2 : cfg.firing = true) (d : Option Path) (g : Node)
    (hwf : WF g) : (img cfg d g).sig.inl = g.sig.inl ∧ (img cfg d g).sig.outl = g.sig.outl := by
  cases g with
  | mk c ch dg sg =>
    simp only [WF] at hwf
    obtain ⟨_, _, _, hsi, hso, _, hs, _, _, _⟩ := hwf
    simpa [img, Node.sig] using restoreSig_exact cfg h1 h2 _ _ sg hsi hso hs

theorem img_starting (cfg : Cfg) (d : Option Path) (g : Node) : (img cfg d g).core.starting = g.core.starting := by
  cases g; simp [img, Node.core, Core.forState]

/-! ## C01: DAG-automated execution -/

/-- a stored value as a term of the execution model (opaque, injective on tokens) -/
def toExecVal : Val → Exec.Val
  | .nd => .nd
  | .t l => .app 0 (l.map fun k => .app (k + 1) [])

/-- the `Exec.Dag` of a composite: per child input its connections (upstream node labels, list order =
fetch priority), per child the receivers of its `ran` signal (list order = firing order), the
starting nodes, the output values left by earlier runs; executor assignment and failing nodes are
parameters (any) -/
def toDag (g : Node) (onExec fails : Nat → Bool) : Exec.Dag :=
  { slots := fun i =>
      match childIO g i with
      | none => []
      | some io => io.2.1.map fun ch => (g.data.inl (i, ch.label)).map (·.1)
    down := fun j => (g.sig.outl (j, 0)).map (·.1)
    starters := g.core.starting
    onExec := onExec
    fails := fails
    out0 := fun i =>
      match childIO g i with
      | none => .nd
      | some io => match io.2.2 with
        | [] => .nd
        | o :: _ => toExecVal o.val }

theorem toDag_img (cfg : Cfg) (h1 : cfg.revIter = true) (h2 : cfg.firing = true) (d : Option Path) (g : Node)
    (hwf : WF g) (onExec fails : Nat → Bool) : toDag (img cfg d g) onExec fails = toDag g onExec fails := by
  unfold toDag
  simp only [childIO_img, img_data_inl cfg h1 d g hwf, (img_sig cfg h1 h2 d g hwf).2, img_starting]

/-! ## C02: hand-wired execution -/

/-- `InputData.fetch` against a store of output values: first connection holding data, else own value -/
def fetchStore (store : Addr → Val) (own : Val) : List Addr → Val
  | [] => own
  | o :: os =>
    match store o with
    | .nd => fetchStore store own os
    | v => v

/-- the term a node of class `cls` computes from its arguments -/
def argToks : Val → List Nat
  | .nd => [0]
  | .t l => (l.length + 1) :: l

def applyCls (cls : Nat) (args : List Val) : Val := .t (cls :: args.flatMap argToks)

/-- the behaviour of the children as the GRAPH determines it: a run of child `i` fetches every input
through its data connections (list order) from the store, is refused if an argument holds no data,
otherwise writes `cls(args)` to its first output and emits `ran` -/
def dataSem (g : Node) : Signal.Sem (Addr → Val) :=
  { react := fun store i =>
      match childIO g i with
      | none => (store, true, [])
      | some io =>
        let args := io.2.1.map fun ch => fetchStore store ch.val (g.data.inl (i, ch.label))
        if args.any (fun v => v == Val.nd) then (store, true, [Signal.sigFailed i])
        else
          match io.2.2 with
          | [] => (store, false, [Signal.sigRan i])
          | o :: _ => (updA store (i, o.label) (applyCls io.1 args), false, [Signal.sigRan i]) }

theorem dataSem_img (cfg : Cfg) (h1 : cfg.revIter = true) (d : Option Path) (g : Node) (hwf : WF g) :
    dataSem (img cfg d g) = dataSem g := by
  unfold dataSem
  simp only [childIO_img, img_data_inl cfg h1 d g hwf]

end PwVerif.Serial
