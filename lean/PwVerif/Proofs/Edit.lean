import PwVerif.Model.Edit
import PwVerif.Proofs.Conn
/-! Lemmas for C14: undo logs restore the connection graph, frame properties of the copy and of
the flow derivation, the ancestor walk is monotone, the seat puts the stand-ins in place. -/
namespace PwVerif.Edit
open PwVerif PwVerif.Conn

/-! ## structure extensionality -/

theorem G.ext' {g g' : G} (h1 : g.kind = g'.kind) (h2 : g.owner = g'.owner) (h3 : g.valid = g'.valid)
    (h4 : g.conns = g'.conns) : g = g' := by
  cases g; cases g'; simp_all

theorem G.eq_of_static {g g' : G} (hs : SameStatic g g') (hc : ∀ x, g'.conns x = g.conns x) : g' = g :=
  G.ext' hs.kind hs.owner hs.valid (funext hc)

/-! ## undoing logged pairs is filtering -/

/-- `(x, y)` is the pair `p`, in either orientation -/
def isPair (p : Nat × Nat) (x y : Nat) : Bool := (x == p.1 && y == p.2) || (x == p.2 && y == p.1)

def covered (log : List (Nat × Nat)) (x y : Nat) : Bool := log.any fun p => isPair p x y

theorem covered_append (l1 l2 : List (Nat × Nat)) (x y : Nat) :
    covered (l1 ++ l2) x y = (covered l1 x y || covered l2 x y) := by
  simp [covered, List.any_append]

theorem disconnect1_conns (g : G) (a b : Nat) (h : Inv g) (x : Nat) :
    (disconnect1 g a b).conns x = (g.conns x).filter (fun y => !isPair (a, b) x y) := by
  unfold disconnect1
  split
  · rename_i hb
    have hab : a ≠ b := by
      intro e; subst e
      have := h.typed a a hb; simp [conj_irrefl] at this
    have hba : a ∈ g.conns b := (h.symm a b).mp hb
    have hmem : a ∈ (updF g.conns a ((g.conns a).erase b)) b := by
      simp [updF, Ne.symm hab, hba]
    simp only [hmem, if_true]
    by_cases hxa : x = a
    · subst hxa
      simp only [updF, hab, if_false, if_true]
      rw [(h.nodup x).erase_eq_filter]
      apply List.filter_congr
      intro y _
      rw [Bool.eq_iff_iff]
      simp [isPair]
      grind
    · by_cases hxb : x = b
      · subst hxb
        simp only [updF, if_true, hxa, if_false]
        rw [(h.nodup x).erase_eq_filter]
        apply List.filter_congr
        intro y _
        rw [Bool.eq_iff_iff]
        simp [isPair]
        grind
      · simp only [updF, hxa, hxb, if_false]
        symm
        apply List.filter_eq_self.mpr
        intro y _
        simp [isPair, hxa, hxb]
  · rename_i hb
    symm
    apply List.filter_eq_self.mpr
    intro y hy
    have hba : a ∉ g.conns b := fun hm => hb ((h.symm a b).mpr hm)
    simp [isPair]
    grind

theorem undoPairs_static (g : G) (log : List (Nat × Nat)) : SameStatic g (undoPairs g log) := by
  unfold undoPairs
  induction log generalizing g with
  | nil => exact .refl g
  | cons p ps ih => exact (disconnect1_static g p.1 p.2).trans (ih _)

theorem undoPairs_conns (g : G) (log : List (Nat × Nat)) (h : Inv g) (x : Nat) :
    (undoPairs g log).conns x = (g.conns x).filter (fun y => !covered log x y) := by
  unfold undoPairs
  induction log generalizing g with
  | nil =>
    simp only [covered, List.any_nil, Bool.not_false, List.foldl_nil, List.map_nil]
    exact (List.filter_eq_self.mpr (fun _ _ => rfl)).symm
  | cons p ps ih =>
    simp only [List.foldl_cons]
    rw [ih _ (disconnect1_inv g p.1 p.2 h), disconnect1_conns g p.1 p.2 h, List.filter_filter]
    apply List.filter_congr
    intro y _
    simp [covered, Bool.and_comm]

theorem disconnect_static' (g : G) (a : Nat) (bs : List Nat) : SameStatic g (disconnect g a bs) :=
  disconnect_static g a bs

theorem disconnect_conns (g : G) (a : Nat) (bs : List Nat) (h : Inv g) (x : Nat) :
    (disconnect g a bs).conns x = (g.conns x).filter (fun y => !covered (bs.map fun b => (a, b)) x y) := by
  unfold disconnect
  induction bs generalizing g with
  | nil =>
    simp only [covered, List.any_nil, Bool.not_false, List.foldl_nil, List.map_nil]
    exact (List.filter_eq_self.mpr (fun _ _ => rfl)).symm
  | cons b bs ih =>
    simp only [List.foldl_cons, List.map_cons]
    rw [ih _ (disconnect1_inv g a b h), disconnect1_conns g a b h, List.filter_filter]
    apply List.filter_congr
    intro y _
    simp [covered, Bool.and_comm]

/-- the three ways `connect1` can go -/
theorem connect1_cases (g : G) (a b : Nat) :
    (b ∈ g.conns a ∧ connect1 g a b = (g, .ok)) ∨
    (b ∉ g.conns a ∧ (g.kind a).conj (g.kind b) = true ∧
      connect1 g a b = ({ g with conns := updF (updF g.conns a (b :: g.conns a)) b (a :: g.conns b) }, .ok)) ∨
    ((connect1 g a b).1 = g ∧ (connect1 g a b).2 ≠ .ok) := by
  unfold connect1
  by_cases h1 : b ∈ g.conns a
  · left; simp [h1]
  · by_cases h2 : (g.kind a).conj (g.kind b) = true
    · by_cases h3 : g.valid a b = true
      · right; left; simp [h1, h2, h3]
      · right; right; simp [h1, h2, h3]
    · right; right; simp [h1, h2]

/-- the log explains exactly what was added: filtering the logged pairs out gives the lists
of `g0` -/
def Logged (g0 g : G) (log : List (Nat × Nat)) : Prop :=
  ∀ x, (g.conns x).filter (fun y => !covered log x y) = g0.conns x

theorem Logged.refl (g : G) : Logged g g [] := by
  intro x; simp [covered]

/-- a genuinely new connection, logged -/
theorem Logged.step {g0 g : G} {log : List (Nat × Nat)} (hl : Logged g0 g log) (h : Inv g) {a b : Nat}
    (hb : b ∉ g.conns a) (hc : (g.kind a).conj (g.kind b) = true) :
    Logged g0 { g with conns := updF (updF g.conns a (b :: g.conns a)) b (a :: g.conns b) } (log ++ [(a, b)]) := by
  have hab : a ≠ b := by
    intro e; subst e; simp [conj_irrefl] at hc
  have hba : a ∉ g.conns b := fun hm => hb ((h.symm a b).mpr hm)
  intro x
  have hx := hl x
  simp only
  by_cases hxb : x = b
  · subst hxb
    simp only [updF, if_true]
    rw [List.filter_cons]
    have h1 : (!covered (log ++ [(a, x)]) x a) = false := by
      simp [covered, isPair]
    simp only [h1]
    rw [← hx]
    apply List.filter_congr
    intro y hy
    have : y ≠ a := fun e => hba (e ▸ hy)
    simp [covered, isPair, this]
    grind
  · by_cases hxa : x = a
    · subst hxa
      simp only [updF, hxb, if_false, if_true]
      rw [List.filter_cons]
      have h1 : (!covered (log ++ [(x, b)]) x b) = false := by
        simp [covered, isPair]
      simp only [h1]
      rw [← hx]
      apply List.filter_congr
      intro y hy
      have : y ≠ b := fun e => hb (e ▸ hy)
      simp [covered, isPair, this]
      grind
    · simp only [updF, hxa, hxb, if_false]
      rw [← hx]
      apply List.filter_congr
      intro y _
      simp [covered, isPair, hxa, hxb]

/-- undoing a faithful log gives back the graph one started from -/
theorem undo_logged {g0 g : G} {log : List (Nat × Nat)} (hs : SameStatic g0 g) (hl : Logged g0 g log)
    (h : Inv g) : undoPairs g log = g0 := by
  apply G.eq_of_static (hs.trans (undoPairs_static g log))
  intro x
  rw [undoPairs_conns g log h x, hl x]

/-! ## induction principles for the copy loops -/

/-- the graph after `connect1 a b` made a new connection -/
def linked (g : G) (a b : Nat) : G :=
  { g with conns := updF (updF g.conns a (b :: g.conns a)) b (a :: g.conns b) }

theorem copyTargets_ind (P : G → List (Nat × Nat) → Prop) (onlyNew : Bool) (my : Option Nat) (hard : Bool)
    (ts : List Nat)
    (hskip : ∀ g log m t, my = some m → t ∈ ts → t ∈ g.conns m → P g log →
      P g (if onlyNew then log else log ++ [(m, t)]))
    (hnew : ∀ g log m t, my = some m → t ∈ ts → t ∉ g.conns m → (g.kind m).conj (g.kind t) = true →
      connect1 g m t = (linked g m t, .ok) → P g log → P (linked g m t) (log ++ [(m, t)])) :
    ∀ (us : List Nat), (∀ t ∈ us, t ∈ ts) → ∀ g log, P g log →
      P (copyTargets onlyNew g my hard us log).1 (copyTargets onlyNew g my hard us log).2.1 := by
  intro us
  induction us with
  | nil => intro _ g log h; exact h
  | cons t us ih =>
    intro hsub g log h
    have ht : t ∈ ts := hsub t (List.mem_cons_self ..)
    have hsub' : ∀ u ∈ us, u ∈ ts := fun u hu => hsub u (List.mem_cons_of_mem _ hu)
    unfold copyTargets
    cases my with
    | none =>
      dsimp only
      split
      · exact h
      · exact ih hsub' g log h
    | some m =>
      dsimp only
      rcases connect1_cases g m t with ⟨hin, he⟩ | ⟨hnin, hc, he⟩ | ⟨hg, hne⟩
      · rw [he]
        dsimp only
        have := hskip g log m t rfl ht hin h
        simp only [hin, decide_true, Bool.and_true]
        cases onlyNew <;> simp_all
      · rw [he]
        dsimp only
        have := hnew g log m t rfl ht hnin hc he h
        simp only [hnin, decide_false, Bool.and_false, Bool.false_eq_true, if_false]
        exact ih hsub' _ _ this
      · generalize hr : connect1 g m t = r at hg hne
        obtain ⟨g', res⟩ := r
        simp only at hg hne
        subst hg
        cases res with
        | ok => exact absurd rfl hne
        | typeErr =>
          dsimp only
          split
          · exact h
          · exact ih hsub' _ _ h
        | connErr =>
          dsimp only
          split
          · exact h
          · exact ih hsub' _ _ h

theorem copyPairs_ind (P : G → List (Nat × Nat) → Prop) (onlyNew hard : Bool)
    (ps : List (Option Nat × Nat))
    (hstep : ∀ g log my oc, (my, oc) ∈ ps → P g log →
      P (copyTargets onlyNew g my hard (g.conns oc) log).1 (copyTargets onlyNew g my hard (g.conns oc) log).2.1) :
    ∀ (qs : List (Option Nat × Nat)), (∀ q ∈ qs, q ∈ ps) → ∀ g log, P g log →
      P (copyPairs onlyNew g hard qs log).1 (copyPairs onlyNew g hard qs log).2.1 := by
  intro qs
  induction qs with
  | nil => intro _ g log h; exact h
  | cons q qs ih =>
    intro hsub g log h
    obtain ⟨my, oc⟩ := q
    have hq : (my, oc) ∈ ps := hsub _ (List.mem_cons_self ..)
    have hsub' : ∀ u ∈ qs, u ∈ ps := fun u hu => hsub u (List.mem_cons_of_mem _ hu)
    unfold copyPairs
    have h1 := hstep g log my oc hq h
    generalize copyTargets onlyNew g my hard (g.conns oc) log = r at h1
    obtain ⟨g', log', fl⟩ := r
    cases fl with
    | true => exact h1
    | false => exact ih hsub' g' log' h1

/-- with the repaired log the undo of a failed copy is exact -/
theorem copyPairs_logged (g0 : G) (hard : Bool) (ps : List (Option Nat × Nat)) (h0 : Inv g0) :
    let r := copyPairs true g0 hard ps []
    Inv r.1 ∧ SameStatic g0 r.1 ∧ Logged g0 r.1 r.2.1 := by
  have := copyPairs_ind (fun g log => Inv g ∧ SameStatic g0 g ∧ Logged g0 g log) true hard ps
    (fun g log my oc _ hP =>
      copyTargets_ind (fun g log => Inv g ∧ SameStatic g0 g ∧ Logged g0 g log) true my hard (g.conns oc)
        (fun g log m t _ _ _ hP => by simpa using hP)
        (fun g log m t _ _ hnin hc he hP => by
          have hi := connect1_inv g m t hP.1
          have hst := connect1_static g m t
          rw [he] at hi hst
          exact ⟨hi, hP.2.1.trans hst, hP.2.2.step hP.1 hnin hc⟩)
        (g.conns oc) (fun _ h => h) g log hP)
    ps (fun _ h => h) g0 [] ⟨h0, .refl g0, .refl g0⟩
  exact this

end PwVerif.Edit
