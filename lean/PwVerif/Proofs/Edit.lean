import PwVerif.Model.Edit
import PwVerif.Proofs.Conn
/-! Lemmas for C14: undo logs restore the connection graph, frame properties of the copy and of
the flow derivation, the ancestor walk is monotone, the seat puts the stand-ins in place. -/
namespace PwVerif.Edit
open PwVerif PwVerif.Conn

/-! ## structure extensionality -/

theorem G.ext' {g g' : G} (h1 : g.kind = g'.kind) (h2 : g.owner = g'.owner) (h3 : g.valid = g'.valid)
    (h4 : g.conns = g'.conns) : g = g' := by
  cases g; cases g'; simp_all

theorem G.eq_of_static {g g' : G} (hs : SameStatic g g') (hc : ∀ x, g'.conns x = g.conns x) : g' = g :=
  G.ext' hs.kind hs.owner hs.valid (funext hc)

/-! ## undoing logged pairs is filtering -/

/-- `(x, y)` is the pair `p`, in either orientation -/
def isPair (p : Nat × Nat) (x y : Nat) : Bool := (x == p.1 && y == p.2) || (x == p.2 && y == p.1)

def covered (log : List (Nat × Nat)) (x y : Nat) : Bool := log.any fun p => isPair p x y

theorem covered_append (l1 l2 : List (Nat × Nat)) (x y : Nat) :
    covered (l1 ++ l2) x y = (covered l1 x y || covered l2 x y) := by
  simp [covered, List.any_append]

theorem disconnect1_conns (g : G) (a b : Nat) (h : Inv g) (x : Nat) :
    (disconnect1 g a b).conns x = (g.conns x).filter (fun y => !isPair (a, b) x y) := by
  unfold disconnect1
  split
  · rename_i hb
    have hab : a ≠ b := by
      intro e; subst e
      have := h.typed a a hb; simp [conj_irrefl] at this
    have hba : a ∈ g.conns b := (h.symm a b).mp hb
    have hmem : a ∈ (updF g.conns a ((g.conns a).erase b)) b := by
      simp [updF, Ne.symm hab, hba]
    simp only [hmem, if_true]
    by_cases hxa : x = a
    · subst hxa
      simp only [updF, hab, if_false, if_true]
      rw [(h.nodup x).erase_eq_filter]
      apply List.filter_congr
      intro y _
      rw [Bool.eq_iff_iff]
      simp [isPair]
      grind
    · by_cases hxb : x = b
      · subst hxb
        simp only [updF, if_true, hxa, if_false]
        rw [(h.nodup x).erase_eq_filter]
        apply List.filter_congr
        intro y _
        rw [Bool.eq_iff_iff]
        simp [isPair]
        grind
      · simp only [updF, hxa, hxb, if_false]
        symm
        apply List.filter_eq_self.mpr
        intro y _
        simp [isPair, hxa, hxb]
  · rename_i hb
    symm
    apply List.filter_eq_self.mpr
    intro y hy
    have hba : a ∉ g.conns b := fun hm => hb ((h.symm a b).mpr hm)
    simp [isPair]
    grind

theorem undoPairs_static (g : G) (log : List (Nat × Nat)) : SameStatic g (undoPairs g log) := by
  unfold undoPairs
  induction log generalizing g with
  | nil => exact .refl g
  | cons p ps ih => exact (disconnect1_static g p.1 p.2).trans (ih _)

theorem undoPairs_conns (g : G) (log : List (Nat × Nat)) (h : Inv g) (x : Nat) :
    (undoPairs g log).conns x = (g.conns x).filter (fun y => !covered log x y) := by
  unfold undoPairs
  induction log generalizing g with
  | nil =>
    simp only [covered, List.any_nil, Bool.not_false, List.foldl_nil]
    exact (List.filter_eq_self.mpr (fun _ _ => rfl)).symm
  | cons p ps ih =>
    simp only [List.foldl_cons]
    rw [ih _ (disconnect1_inv g p.1 p.2 h), disconnect1_conns g p.1 p.2 h, List.filter_filter]
    apply List.filter_congr
    intro y _
    simp [covered, Bool.and_comm]

theorem disconnect_static' (g : G) (a : Nat) (bs : List Nat) : SameStatic g (disconnect g a bs) :=
  disconnect_static g a bs

theorem disconnect_conns (g : G) (a : Nat) (bs : List Nat) (h : Inv g) (x : Nat) :
    (disconnect g a bs).conns x = (g.conns x).filter (fun y => !covered (bs.map fun b => (a, b)) x y) := by
  unfold disconnect
  induction bs generalizing g with
  | nil =>
    simp only [covered, List.any_nil, Bool.not_false, List.foldl_nil, List.map_nil]
    exact (List.filter_eq_self.mpr (fun _ _ => rfl)).symm
  | cons b bs ih =>
    simp only [List.foldl_cons, List.map_cons]
    rw [ih _ (disconnect1_inv g a b h), disconnect1_conns g a b h, List.filter_filter]
    apply List.filter_congr
    intro y _
    simp [covered, Bool.and_comm]

/-- the three ways `connect1` can go -/
theorem connect1_cases (g : G) (a b : Nat) :
    (b ∈ g.conns a ∧ connect1 g a b = (g, .ok)) ∨
    (b ∉ g.conns a ∧ (g.kind a).conj (g.kind b) = true ∧
      connect1 g a b = ({ g with conns := updF (updF g.conns a (b :: g.conns a)) b (a :: g.conns b) }, .ok)) ∨
    ((connect1 g a b).1 = g ∧ (connect1 g a b).2 ≠ .ok) := by
  unfold connect1
  by_cases h1 : b ∈ g.conns a
  · left; simp [h1]
  · by_cases h2 : (g.kind a).conj (g.kind b) = true
    · by_cases h3 : g.valid a b = true
      · right; left; simp [h1, h2, h3]
      · right; right; simp [h1, h2, h3]
    · right; right; simp [h1, h2]

/-- the log explains exactly what was added: filtering the logged pairs out gives the lists
of `g0` -/
def Logged (g0 g : G) (log : List (Nat × Nat)) : Prop :=
  ∀ x, (g.conns x).filter (fun y => !covered log x y) = g0.conns x

theorem Logged.refl (g : G) : Logged g g [] := by
  intro x; simp [covered]

/-- a genuinely new connection, logged -/
theorem Logged.step {g0 g : G} {log : List (Nat × Nat)} (hl : Logged g0 g log) (h : Inv g) {a b : Nat}
    (hb : b ∉ g.conns a) (hc : (g.kind a).conj (g.kind b) = true) :
    Logged g0 { g with conns := updF (updF g.conns a (b :: g.conns a)) b (a :: g.conns b) } (log ++ [(a, b)]) := by
  have hab : a ≠ b := by
    intro e; subst e; simp [conj_irrefl] at hc
  have hba : a ∉ g.conns b := fun hm => hb ((h.symm a b).mpr hm)
  intro x
  have hx := hl x
  simp only
  by_cases hxb : x = b
  · subst hxb
    simp only [updF, if_true]
    rw [List.filter_cons]
    have h1 : (!covered (log ++ [(a, x)]) x a) = false := by
      simp [covered, isPair]
    simp only [h1]
    rw [← hx]
    apply List.filter_congr
    intro y hy
    have : y ≠ a := fun e => hba (e ▸ hy)
    simp [covered, isPair, this]
    grind
  · by_cases hxa : x = a
    · subst hxa
      simp only [updF, hxb, if_false, if_true]
      rw [List.filter_cons]
      have h1 : (!covered (log ++ [(x, b)]) x b) = false := by
        simp [covered, isPair]
      simp only [h1]
      rw [← hx]
      apply List.filter_congr
      intro y hy
      have : y ≠ b := fun e => hb (e ▸ hy)
      simp [covered, isPair, this]
      grind
    · simp only [updF, hxa, hxb, if_false]
      rw [← hx]
      apply List.filter_congr
      intro y _
      simp [covered, isPair, hxa, hxb]

/-- undoing a faithful log gives back the graph one started from -/
theorem undo_logged {g0 g : G} {log : List (Nat × Nat)} (hs : SameStatic g0 g) (hl : Logged g0 g log)
    (h : Inv g) : undoPairs g log = g0 := by
  apply G.eq_of_static (hs.trans (undoPairs_static g log))
  intro x
  rw [undoPairs_conns g log h x, hl x]

/-! ## induction principles for the copy loops -/

/-- the graph after `connect1 a b` made a new connection -/
def linked (g : G) (a b : Nat) : G :=
  { g with conns := updF (updF g.conns a (b :: g.conns a)) b (a :: g.conns b) }

theorem copyTargets_ind (P : G → List (Nat × Nat) → Prop) (onlyNew : Bool) (my : Option Nat) (hard : Bool)
    (ts : List Nat)
    (hskip : ∀ g log m t, my = some m → t ∈ ts → t ∈ g.conns m → P g log →
      P g (if onlyNew then log else log ++ [(m, t)]))
    (hnew : ∀ g log m t, my = some m → t ∈ ts → t ∉ g.conns m → (g.kind m).conj (g.kind t) = true →
      connect1 g m t = (linked g m t, .ok) → P g log → P (linked g m t) (log ++ [(m, t)])) :
    ∀ (us : List Nat), (∀ t ∈ us, t ∈ ts) → ∀ g log, P g log →
      P (copyTargets onlyNew g my hard us log).1 (copyTargets onlyNew g my hard us log).2.1 := by
  intro us
  induction us with
  | nil => intro _ g log h; exact h
  | cons t us ih =>
    intro hsub g log h
    have ht : t ∈ ts := hsub t (List.mem_cons_self ..)
    have hsub' : ∀ u ∈ us, u ∈ ts := fun u hu => hsub u (List.mem_cons_of_mem _ hu)
    unfold copyTargets
    cases my with
    | none =>
      dsimp only
      split
      · exact h
      · exact ih hsub' g log h
    | some m =>
      dsimp only
      rcases connect1_cases g m t with ⟨hin, he⟩ | ⟨hnin, hc, he⟩ | ⟨hg, hne⟩
      · rw [he]
        dsimp only
        have := hskip g log m t rfl ht hin h
        simp only [hin, decide_true, Bool.and_true]
        cases onlyNew <;> simp_all
      · rw [he]
        dsimp only
        have := hnew g log m t rfl ht hnin hc he h
        simp only [hnin, decide_false, Bool.and_false, Bool.false_eq_true, if_false]
        exact ih hsub' _ _ this
      · generalize hr : connect1 g m t = r at hg hne
        obtain ⟨g', res⟩ := r
        simp only at hg hne
        subst hg
        cases res with
        | ok => exact absurd rfl hne
        | typeErr =>
          dsimp only
          split
          · exact h
          · exact ih hsub' _ _ h
        | connErr =>
          dsimp only
          split
          · exact h
          · exact ih hsub' _ _ h

theorem copyPairs_ind (P : G → List (Nat × Nat) → Prop) (onlyNew hard : Bool)
    (ps : List (Option Nat × Nat))
    (hstep : ∀ g log my oc, (my, oc) ∈ ps → P g log →
      P (copyTargets onlyNew g my hard (g.conns oc) log).1 (copyTargets onlyNew g my hard (g.conns oc) log).2.1) :
    ∀ (qs : List (Option Nat × Nat)), (∀ q ∈ qs, q ∈ ps) → ∀ g log, P g log →
      P (copyPairs onlyNew g hard qs log).1 (copyPairs onlyNew g hard qs log).2.1 := by
  intro qs
  induction qs with
  | nil => intro _ g log h; exact h
  | cons q qs ih =>
    intro hsub g log h
    obtain ⟨my, oc⟩ := q
    have hq : (my, oc) ∈ ps := hsub _ (List.mem_cons_self ..)
    have hsub' : ∀ u ∈ qs, u ∈ ps := fun u hu => hsub u (List.mem_cons_of_mem _ hu)
    unfold copyPairs
    have h1 := hstep g log my oc hq h
    generalize copyTargets onlyNew g my hard (g.conns oc) log = r at h1
    obtain ⟨g', log', fl⟩ := r
    cases fl with
    | true => exact h1
    | false => exact ih hsub' g' log' h1

/-- with the repaired log the undo of a failed copy is exact -/
theorem copyPairs_logged (g0 : G) (hard : Bool) (ps : List (Option Nat × Nat)) (h0 : Inv g0) :
    let r := copyPairs true g0 hard ps []
    Inv r.1 ∧ SameStatic g0 r.1 ∧ Logged g0 r.1 r.2.1 := by
  have := copyPairs_ind (fun g log => Inv g ∧ SameStatic g0 g ∧ Logged g0 g log) true hard ps
    (fun g log my oc _ hP =>
      copyTargets_ind (fun g log => Inv g ∧ SameStatic g0 g ∧ Logged g0 g log) true my hard (g.conns oc)
        (fun g log m t _ _ _ hP => by simpa using hP)
        (fun g log m t _ _ hnin hc he hP => by
          have hi := connect1_inv g m t hP.1
          have hst := connect1_static g m t
          rw [he] at hi hst
          exact ⟨hi, hP.2.1.trans hst, hP.2.2.step hP.1 hnin hc⟩)
        (g.conns oc) (fun _ h => h) g log hP)
    ps (fun _ h => h) g0 [] ⟨h0, .refl g0, .refl g0⟩
  exact this

/-! ## values: only `val` changes -/

/-- `w'` is `w` up to the values -/
def ValOnly (w w' : W) : Prop := ∃ f, w' = { w with val := f }

theorem ValOnly.refl (w : W) : ValOnly w w := ⟨w.val, rfl⟩
theorem ValOnly.trans {a b c : W} (h1 : ValOnly a b) (h2 : ValOnly b c) : ValOnly a c := by
  obtain ⟨f, rfl⟩ := h1
  obtain ⟨f', rfl⟩ := h2
  exact ⟨f', rfl⟩

theorem setValF_val (w : W) : ∀ (n c : Nat) (v : Option Nat) (w' : W),
    setValF w n c v = some w' → ValOnly w w' := by
  intro n
  induction n with
  | zero => intro c v w' h; simp [setValF] at h
  | succ n ih =>
    intro c v w' h
    unfold setValF at h
    split at h
    · cases h
    · split at h
      · cases h
      · cases hr : w.recv c with
        | none =>
          simp only [hr, Option.some.injEq] at h; exact ⟨_, h.symm⟩
        | some r =>
          simp only [hr] at h
          cases h1 : setValF w n r v with
          | none => simp [h1] at h
          | some w1 =>
            simp only [h1, Option.some.injEq] at h
            obtain ⟨f, hf⟩ := ih r v w1 h1
            subst hf
            exact ⟨_, h.symm⟩

theorem copyPanel_valOnly (fuel : Nat) (hard : Bool) : ∀ (ps : List (Option Nat × Nat)) (w : W)
    (log : List (Nat × Option Nat)), ValOnly w (copyPanel fuel hard w ps log).1 := by
  intro ps
  induction ps with
  | nil => intro w log; exact .refl w
  | cons p ps ih =>
    intro w log
    obtain ⟨my, oc⟩ := p
    unfold copyPanel
    split
    · exact ih w log
    · cases my with
      | none => dsimp only; split
                · exact .refl w
                · exact ih w log
      | some m =>
        dsimp only
        split
        · split
          · exact .refl w
          · exact ih w log
        · rename_i w' hw'
          exact (setValF_val w fuel m _ w' hw').trans (ih w' _)

theorem copyPanel_soft (fuel : Nat) : ∀ (ps : List (Option Nat × Nat)) (w : W)
    (log : List (Nat × Option Nat)), (copyPanel fuel false w ps log).2.2 = false := by
  intro ps
  induction ps with
  | nil => intro w log; rfl
  | cons p ps ih =>
    intro w log
    obtain ⟨my, oc⟩ := p
    unfold copyPanel
    split
    · exact ih w log
    · cases my with
      | none => simp [ih]
      | some m =>
        dsimp only
        split
        · simp [ih]
        · exact ih _ _

theorem revertVals_valOnly (fuel : Nat) : ∀ (log : List (Nat × Option Nat)) (w : W),
    ValOnly w (revertVals fuel w log) := by
  intro log
  induction log with
  | nil => intro w; exact .refl w
  | cons p r ih =>
    intro w
    obtain ⟨c, v⟩ := p
    unfold revertVals
    split
    · exact .refl w
    · rename_i w' hw'
      exact (setValF_val w fuel c v w' hw').trans (ih w')

theorem copyValues_valOnly (cfg : Cfg) (w : W) (me other : Nat) (hard : Bool) :
    ValOnly w (copyValues cfg w me other hard).1 := by
  unfold copyValues
  have h1 := copyPanel_valOnly cfg.fuel hard (panelPairs w (w.io me).inp (w.io other).inp) w []
  generalize copyPanel cfg.fuel hard w (panelPairs w (w.io me).inp (w.io other).inp) [] = r1 at h1
  obtain ⟨w1, log1, f1⟩ := r1
  cases f1 with
  | true => exact h1.trans (revertVals_valOnly cfg.fuel log1 w1)
  | false =>
    dsimp only
    have h2 := copyPanel_valOnly cfg.fuel hard (panelPairs w (w.io me).out (w.io other).out) w1 []
    generalize copyPanel cfg.fuel hard w1 (panelPairs w (w.io me).out (w.io other).out) [] = r2 at h2
    obtain ⟨w2, log2, f2⟩ := r2
    cases f2 with
    | true =>
      dsimp only
      have h3 := revertVals_valOnly cfg.fuel log2 w2
      split
      · exact (h1.trans (h2.trans h3)).trans (revertVals_valOnly cfg.fuel log1 _)
      · exact h1.trans (h2.trans h3)
    | false => exact h1.trans h2

theorem copyValues_soft (cfg : Cfg) (w : W) (me other : Nat) : (copyValues cfg w me other false).2 = true := by
  unfold copyValues
  have h1 := copyPanel_soft cfg.fuel (panelPairs w (w.io me).inp (w.io other).inp) w []
  generalize copyPanel cfg.fuel false w (panelPairs w (w.io me).inp (w.io other).inp) [] = r1 at h1
  obtain ⟨w1, log1, f1⟩ := r1
  simp only at h1; subst h1
  dsimp only
  have h2 := copyPanel_soft cfg.fuel (panelPairs w (w.io me).out (w.io other).out) w1 []
  generalize copyPanel cfg.fuel false w1 (panelPairs w (w.io me).out (w.io other).out) [] = r2 at h2
  obtain ⟨w2, log2, f2⟩ := r2
  simp only at h2; subst h2
  rfl

/-! ## `copy_io` -/

/-- what a successful `copy_io` leaves: the graph after the connection loop, values changed -/
theorem copyIo_ok_shape (cfg : Cfg) (w : W) (me other : Nat) (ch vh : Bool) (w' : W)
    (h : copyIo cfg w me other ch vh = (w', .ok)) :
    ∃ f, w' = { w with g := (copyPairs cfg.onlyNewUndo w.g ch (ioPairs w me other) []).1, val := f } := by
  unfold copyIo at h
  generalize copyPairs cfg.onlyNewUndo w.g ch (ioPairs w me other) [] = r at h
  obtain ⟨g', log, fl⟩ := r
  cases fl with
  | true => simp at h
  | false =>
    dsimp only at h
    have hv := copyValues_valOnly cfg { w with g := g' } me other vh
    generalize copyValues cfg { w with g := g' } me other vh = rv at h hv
    obtain ⟨w2, okv⟩ := rv
    cases okv with
    | true =>
      simp only [Prod.mk.injEq, and_true] at h
      subst h
      obtain ⟨f, hf⟩ := hv
      exact ⟨f, hf⟩
    | false => simp at h

/-- repaired log, soft values (the way `replace_child` calls it): a failed `copy_io` leaves
the world as it was -/
theorem copyIo_atomic_soft (cfg : Cfg) (honly : cfg.onlyNewUndo = true) (w : W) (me other : Nat) (ch : Bool)
    (hinv : Inv w.g) (herr : (copyIo cfg w me other ch false).2 ≠ .ok) :
    (copyIo cfg w me other ch false).1 = w := by
  unfold copyIo at herr ⊢
  rw [honly] at herr ⊢
  have hl := copyPairs_logged w.g ch (ioPairs w me other) hinv
  generalize copyPairs true w.g ch (ioPairs w me other) [] = r at herr hl ⊢
  obtain ⟨g', log, fl⟩ := r
  cases fl with
  | true =>
    dsimp only at hl ⊢
    rw [undo_logged hl.2.1 hl.2.2 hl.1]
  | false =>
    exfalso
    dsimp only at herr
    have hs := copyValues_soft cfg { w with g := g' } me other
    generalize copyValues cfg { w with g := g' } me other false = rv at herr hs
    obtain ⟨w2, okv⟩ := rv
    simp only at hs; subst hs
    exact herr rfl

/-! ## the ownership pre-check is not overtaken by the removal -/

theorem ancWalk_fewer_parents (t t' : Tree.Tree) (c : Nat)
    (hsub : ∀ y q, t'.parent y = some q → t.parent y = some q) :
    ∀ n x, Tree.ancWalk t c n x = .ok → Tree.ancWalk t' c n x = .ok := by
  intro n
  induction n with
  | zero => intro x h; simp [Tree.ancWalk] at h
  | succ n ih =>
    intro x h
    unfold Tree.ancWalk at h ⊢
    split at h
    · cases h
    · rename_i hx
      simp only [hx, if_false]
      cases hp' : t'.parent x with
      | none => rfl
      | some q =>
        have := hsub x q hp'
        simp only [this] at h
        exact ih q h

theorem adoptRefusal_ok_iff (fuel : Nat) (t : Tree.Tree) (p c : Nat) :
    adoptRefusal fuel t p c = .ok ↔ (Tree.ancWalk t c fuel p = .ok ∧ t.kind c ≠ .workflow) := by
  unfold adoptRefusal
  cases h : Tree.ancWalk t c fuel p <;> simp

theorem adoptPre_ok_iff (fuel : Nat) (t : Tree.Tree) (p c : Nat) :
    adoptPre fuel t p c = .ok ↔ adoptRefusal fuel t p c = .ok := by
  unfold adoptPre
  cases h : adoptRefusal fuel t p c <;> simp

theorem adoptRefusal_after_removal (fuel : Nat) (t : Tree.Tree) (p old new : Nat)
    (h : adoptRefusal fuel t p new = .ok) :
    adoptRefusal fuel (swapLabels (Tree.removeCore0 t p old) new old) p new = .ok := by
  rw [adoptRefusal_ok_iff] at h ⊢
  refine ⟨ancWalk_fewer_parents t _ new ?_ fuel p h.1, h.2⟩
  intro y q hy
  simp only [swapLabels, Tree.removeCore0, updF] at hy
  split at hy
  · cases hy
  · exact hy

theorem commit_ok (cfg : Cfg) (hlp : cfg.linkPrecheck = true) (w : W) (p old new : Nat)
    (links : List (Nat × Nat))
    (h : adoptRefusal cfg.fuel (swapLabels (Tree.removeCore0 w.t p old) new old) p new = .ok) :
    (commit cfg w p old new links).2 = .ok := by
  unfold commit
  simp only [h, hlp, if_true]

theorem seated_t (cfg : Cfg) (w : W) (new old : Nat) : (seated cfg w new old).t = w.t := by
  unfold seated; split <;> rfl

/-- the composite-level replacement with the repaired log, the ownership pre-check and the link
pre-check (whatever the other switches): a refusal leaves the world as it was -/
theorem compReplace_atomic' (cfg : Cfg) (ho : cfg.onlyNewUndo = true) (ha : cfg.adoptPrecheck = true)
    (hlp : cfg.linkPrecheck = true) (w : W) (p old new : Nat) (hinv : Inv w.g)
    (herr : (compReplace cfg w p old new).2 ≠ .ok) : (compReplace cfg w p old new).1 = w := by
  unfold compReplace at herr ⊢
  by_cases h1 : w.t.parent old ≠ some p
  · rw [if_pos h1]
  · rw [if_neg h1] at herr ⊢
    by_cases h2 : w.t.parent new ≠ none
    · rw [if_pos h2]
    · rw [if_neg h2] at herr ⊢
      by_cases h3 : nodeConnected w new = true
      · rw [if_pos h3]
      · rw [if_neg h3] at herr ⊢
        simp only [ha, hlp, if_true] at herr ⊢
        cases hpre : adoptPre cfg.fuel w.t p new with
        | ok =>
          simp only [hpre] at herr ⊢
          cases hl : linksOf w p old new with
          | error e => rfl
          | ok links =>
            simp only [hl] at herr ⊢
            by_cases h4 : linksValid w links = false
            · rw [if_pos h4]
            · rw [if_neg h4] at herr ⊢
              by_cases h5 : dryRefuses cfg w p old new = true
              · rw [if_pos h5]
              · rw [if_neg h5] at herr ⊢
                have hat := copyIo_atomic_soft cfg ho w new old true hinv
                have hsh := copyIo_ok_shape cfg w new old true false
                generalize copyIo cfg w new old true false = r at herr hat hsh ⊢
                obtain ⟨w1, e⟩ := r
                cases e with
                | ok =>
                  exfalso
                  obtain ⟨f, hf⟩ := hsh w1 rfl
                  apply herr
                  apply commit_ok _ hlp
                  rw [seated_t]
                  have : w1.t = w.t := by rw [hf]
                  rw [this]
                  exact adoptRefusal_after_removal cfg.fuel w.t p old new ((adoptPre_ok_iff _ _ _ _).mp hpre)
                | _ => exact hat (by simp)
        | _ => rfl

theorem compReplace_atomic (fuel : Nat) (w : W) (p old new : Nat) (hinv : Inv w.g)
    (herr : (compReplace (Cfg.repaired fuel) w p old new).2 ≠ .ok) :
    (compReplace (Cfg.repaired fuel) w p old new).1 = w :=
  compReplace_atomic' (Cfg.repaired fuel) rfl rfl rfl w p old new hinv herr

/-! ## frames: what cutting and wiring can touch -/

theorem disconnect1_frame (g : G) (a b x : Nat) (hxa : x ≠ a) (hxb : x ≠ b) :
    (disconnect1 g a b).conns x = g.conns x := by
  unfold disconnect1
  split
  · dsimp only
    split <;> simp [updF, hxa, hxb]
  · rfl

theorem disconnect_frame (g : G) (a : Nat) (bs : List Nat) (x : Nat) (hxa : x ≠ a) (hxb : x ∉ bs) :
    (disconnect g a bs).conns x = g.conns x := by
  unfold disconnect
  induction bs generalizing g with
  | nil => rfl
  | cons b bs ih =>
    simp only [List.foldl_cons]
    rw [ih _ (fun h => hxb (List.mem_cons_of_mem _ h)),
      disconnect1_frame g a b x hxa (fun e => hxb (e ▸ List.mem_cons_self ..))]

theorem cutAll_static : ∀ (cs : List Nat) (g : G), SameStatic g (cutAll g cs).1 := by
  intro cs
  induction cs with
  | nil => intro g; exact .refl g
  | cons c cs ih =>
    intro g
    unfold cutAll
    exact (disconnect_static g c _).trans (ih _)

theorem cutAll_frame : ∀ (cs : List Nat) (g : G) (x : Nat), x ∉ cs → (∀ c ∈ cs, x ∉ g.conns c) →
    (cutAll g cs).1.conns x = g.conns x := by
  intro cs
  induction cs with
  | nil => intro g x _ _; rfl
  | cons c cs ih =>
    intro g x hx hp
    unfold cutAll
    dsimp only
    rw [ih (disconnectAll g c) x (fun h => hx (List.mem_cons_of_mem _ h))
      (fun c' hc' hm => hp c' (List.mem_cons_of_mem _ hc') (disconnect_subset g c _ c' x hm))]
    exact disconnect_frame g c _ x (fun e => hx (e ▸ List.mem_cons_self ..)) (hp c (List.mem_cons_self ..))

theorem connect1_frame (g : G) (a b x : Nat) (hxa : x ≠ a) (hxb : x ≠ b) :
    (connect1 g a b).1.conns x = g.conns x := by
  rcases connect1_cases g a b with ⟨_, he⟩ | ⟨_, _, he⟩ | ⟨hg, _⟩
  · rw [he]
  · rw [he]; simp [updF, hxa, hxb]
  · rw [hg]

theorem connect_frame (g : G) (a : Nat) (bs : List Nat) (x : Nat) (hxa : x ≠ a) (hxb : x ∉ bs) :
    (connect g a bs).1.conns x = g.conns x := by
  induction bs generalizing g with
  | nil => rfl
  | cons b bs ih =>
    unfold connect
    have h1 := connect1_frame g a b x hxa (fun e => hxb (e ▸ List.mem_cons_self ..))
    generalize connect1 g a b = r at h1
    obtain ⟨g', res⟩ := r
    cases res with
    | ok => dsimp only; rw [ih g' (fun h => hxb (List.mem_cons_of_mem _ h))]; exact h1
    | typeErr => exact h1
    | connErr => exact h1

theorem wire_static (w : W) (up : Nat → List Nat) : ∀ (ns : List Nat) (g : G), SameStatic g (wire w up g ns).1 := by
  intro ns
  induction ns with
  | nil => intro g; exact .refl g
  | cons n ns ih =>
    intro g
    unfold wire
    split
    · exact .refl g
    · rename_i a _
      have h1 := connect_static g a ((up n).filterMap fun u => sigOut w u "ran")
      generalize connect g a ((up n).filterMap fun u => sigOut w u "ran") = r at h1
      obtain ⟨g', res⟩ := r
      cases res with
      | ok => exact h1.trans (ih g')
      | typeErr => exact h1
      | connErr => exact h1

theorem wire_frame (w : W) (up : Nat → List Nat) (T : List Nat) (x : Nat) (hx : x ∉ T) :
    ∀ (ns : List Nat) (g : G),
      (∀ n ∈ ns, ∀ a, sigIn w n "accumulate_and_run" = some a →
        a ∈ T ∧ ∀ u ∈ up n, ∀ r, sigOut w u "ran" = some r → r ∈ T) →
      (wire w up g ns).1.conns x = g.conns x := by
  intro ns
  induction ns with
  | nil => intro g _; rfl
  | cons n ns ih =>
    intro g hT
    unfold wire
    split
    · rfl
    · rename_i a ha
      obtain ⟨haT, hrT⟩ := hT n (List.mem_cons_self ..) a ha
      have hxb : x ∉ (up n).filterMap fun u => sigOut w u "ran" := by
        intro hm
        obtain ⟨u, hu, hr⟩ := List.mem_filterMap.mp hm
        exact hx (hrT u hu x hr)
      have h1 := connect_frame g a _ x (fun e => hx (e ▸ haT)) hxb
      generalize connect g a ((up n).filterMap fun u => sigOut w u "ran") = r at h1
      obtain ⟨g', res⟩ := r
      cases res with
      | ok =>
        dsimp only
        rw [ih g' (fun m hm => hT m (List.mem_cons_of_mem _ hm))]; exact h1
      | typeErr => exact h1
      | connErr => exact h1

theorem restoreLists_eq (g0 g : G) (T : List Nat) (hs : SameStatic g0 g)
    (hf : ∀ x, x ∉ T → g.conns x = g0.conns x) : restoreLists g0 g T = g0 := by
  apply G.eq_of_static (g := g0) (g' := restoreLists g0 g T)
  · exact ⟨hs.kind, hs.owner, hs.valid⟩
  · intro x
    simp only [restoreLists]
    split
    · rfl
    · rename_i hx; exact hf x hx

theorem digraphErr_none (w : W) (nodes : List Nat) : ∀ (ns : List Nat), digraphErr w nodes ns = none →
    ∀ n ∈ ns, ∀ d ∈ depsOf w n, d ∈ nodes := by
  intro ns
  induction ns with
  | nil => intro _ n hn; cases hn
  | cons m ms ih =>
    intro h n hn d hd
    unfold digraphErr at h
    split at h
    · split at h <;> cases h
    · rename_i hfind
      split at h
      · cases h
      · rcases List.mem_cons.mp hn with rfl | hn'
        · have := List.find?_eq_none.mp hfind d hd
          simpa using this
        · exact ih h n hn' d hd

theorem sameMembers_sub {a b : List Nat} (h : sameMembers a b = true) : ∀ u ∈ a, u ∈ b := by
  unfold sameMembers at h
  simp only [Bool.and_eq_true, List.all_eq_true, decide_eq_true_eq] at h
  exact h.1

theorem mem_cutChans_acc (w : W) (nodes : List Nat) (n a : Nat) (hn : n ∈ nodes)
    (ha : sigIn w n "accumulate_and_run" = some a) : a ∈ cutChans w nodes := by
  unfold cutChans
  exact List.mem_flatMap.mpr ⟨n, hn, by simp [ha]⟩

theorem mem_cutChans_ran (w : W) (nodes : List Nat) (n r : Nat) (hn : n ∈ nodes)
    (hr : sigOut w n "ran" = some r) : r ∈ cutChans w nodes := by
  unfold cutChans
  exact List.mem_flatMap.mpr ⟨n, hn, by simp [hr]⟩

/-- the snapshot taken by the repaired recovery covers everything cutting touches -/
theorem cut_restore (g : G) (cuts : List Nat) :
    ∀ x, x ∉ cuts ++ cuts.flatMap g.conns → (cutAll g cuts).1.conns x = g.conns x := by
  intro x hx
  apply cutAll_frame cuts g x (fun h => hx (List.mem_append_left _ h))
  intro c hc hm
  exact hx (List.mem_append_right _ (List.mem_flatMap.mpr ⟨c, hc, hm⟩))

/-- deriving the execution flow with the repaired recovery: a failure leaves the world as it
was -/
theorem dag_atomic (fuel : Nat) (w : W) (p : Nat) (up : Nat → List Nat) (start : List Nat)
    (herr : (dag (Cfg.repaired fuel) w p up start).2 ≠ .ok) :
    (dag (Cfg.repaired fuel) w p up start).1 = w := by
  unfold dag at herr ⊢
  dsimp only at herr ⊢
  split
  · rfl
  · rename_i hne
    rw [if_neg hne] at herr
    have hrec : ∀ e, (dagRecover (Cfg.repaired fuel) w (cutChans w (Tree.vals (w.t.children p)))
        (cutAll w.g (cutChans w (Tree.vals (w.t.children p)))).1
        (cutAll w.g (cutChans w (Tree.vals (w.t.children p)))).2 e).1 = w := by
      intro e
      simp only [dagRecover, Cfg.repaired, if_true]
      rw [restoreLists_eq w.g _ _ (cutAll_static _ _) (cut_restore w.g _)]
    cases hd : digraphErr w (Tree.vals (w.t.children p)) (Tree.vals (w.t.children p)) with
    | some e => exact hrec e
    | none =>
      simp only [hd] at herr ⊢
      split
      · exact hrec _
      · split
        · rfl
        · rename_i hup
          rw [if_neg hup] at herr
          rename_i hpeel
          rw [if_neg hpeel] at herr
          have hst := wire_static w up (Tree.vals (w.t.children p)) (cutAll w.g (cutChans w (Tree.vals (w.t.children p)))).1
          have hfr : ∀ x, x ∉ cutChans w (Tree.vals (w.t.children p)) ++
              (cutChans w (Tree.vals (w.t.children p))).flatMap w.g.conns →
              (wire w up (cutAll w.g (cutChans w (Tree.vals (w.t.children p)))).1 (Tree.vals (w.t.children p))).1.conns x
                = (cutAll w.g (cutChans w (Tree.vals (w.t.children p)))).1.conns x := by
            intro x hx
            apply wire_frame w up _ x hx
            intro n hn a ha
            refine ⟨List.mem_append_left _ (mem_cutChans_acc w _ n a hn ha), ?_⟩
            intro u hu r hr
            have hall : sameMembers (up n) ((depsOf w n).eraseDups) = true := by
              have := hup
              simp only [List.any_eq_true, Bool.not_eq_true', not_exists, not_and] at this
              have h2 := this n hn
              simpa using h2
            have hud : u ∈ depsOf w n := List.mem_eraseDups.mp (sameMembers_sub hall u hu)
            have hun := digraphErr_none w _ _ hd n hn u hud
            exact List.mem_append_left _ (mem_cutChans_ran w _ u r hun hr)
          generalize wire w up (cutAll w.g (cutChans w (Tree.vals (w.t.children p)))).1 (Tree.vals (w.t.children p)) = r
            at herr hst hfr ⊢
          obtain ⟨g2, res⟩ := r
          cases res with
          | ok =>
            dsimp only at herr ⊢
            split
            · rename_i hs; rw [if_pos hs] at herr; exact absurd rfl herr
            · rfl
          | typeErr =>
            simp only [dagRecover, Cfg.repaired, if_true]
            rw [restoreLists_eq w.g _ _ ((cutAll_static _ _).trans hst)
              (fun x hx => (hfr x hx).trans (cut_restore w.g _ x hx))]
          | connErr =>
            simp only [dagRecover, Cfg.repaired, if_true]
            rw [restoreLists_eq w.g _ _ ((cutAll_static _ _).trans hst)
              (fun x hx => (hfr x hx).trans (cut_restore w.g _ x hx))]

/-! ## channel tables -/

theorem mem_panels_all (w : W) (n : Nat) (pl : List Nat) (c : Nat) (hp : pl ∈ panels w n) (hc : c ∈ pl) :
    c ∈ (w.io n).all := by
  unfold panels at hp
  unfold NodeIO.all
  split at hp <;> simp at hp <;> rcases hp with rfl | rfl | rfl | rfl <;> simp [hc]

theorem findLab_mem (w : W) (pl : List Nat) (l : String) (c : Nat) (h : findLab w pl l = some c) : c ∈ pl := by
  unfold findLab at h
  exact List.mem_of_find?_eq_some h

theorem mem_ioPairs (w : W) (me other : Nat) (my : Option Nat) (oc : Nat) (h : (my, oc) ∈ ioPairs w me other) :
    oc ∈ (w.io other).all ∧ ∀ m, my = some m → m ∈ (w.io me).all := by
  unfold ioPairs at h
  obtain ⟨mo, hmo, hin⟩ := List.mem_flatMap.mp h
  obtain ⟨oc', hoc', heq⟩ := List.mem_map.mp hin
  simp only [Prod.mk.injEq] at heq
  obtain ⟨hmy, rfl⟩ := heq
  have hz := List.of_mem_zip hmo
  refine ⟨mem_panels_all w other mo.2 oc' hz.2 hoc', ?_⟩
  intro m hm
  rw [hm] at hmy
  exact mem_panels_all w me mo.1 m hz.1 (findLab_mem w _ _ _ hmy)

theorem mem_standIns (w : W) (new old : Nat) (oc nc : Nat) (h : (oc, nc) ∈ standIns w new old) :
    (some nc, oc) ∈ ioPairs w new old ∧ w.g.conns oc ≠ [] := by
  unfold standIns at h
  obtain ⟨mo, hmo, hf⟩ := List.mem_filterMap.mp h
  split at hf
  · cases hf
  · rename_i hne
    obtain ⟨my, oc'⟩ := mo
    cases my with
    | none => simp at hf
    | some m =>
      simp only [Option.map_some, Option.some.injEq, Prod.mk.injEq] at hf
      obtain ⟨rfl, rfl⟩ := hf
      exact ⟨hmo, by simpa using hne⟩

theorem standIns_of (w : W) (new old : Nat) (oc nc : Nat) (h : (some nc, oc) ∈ ioPairs w new old)
    (hne : w.g.conns oc ≠ []) : (oc, nc) ∈ standIns w new old := by
  unfold standIns
  apply List.mem_filterMap.mpr
  refine ⟨(some nc, oc), h, ?_⟩
  simp [hne]

/-! ## what `copy_io` onto an unconnected node leaves -/

/-- no channel of `old` is connected to a channel of `old` -/
def NoSelfConn (g : G) (old : Nat) : Prop :=
  ∀ c, g.owner c = old → ∀ y ∈ g.conns c, g.owner y ≠ old

/-- the copy loop only ever connects a channel of `new` to a partner of `old` -/
def PairsOwned (g : G) (old new : Nat) (ps : List (Option Nat × Nat)) : Prop :=
  ∀ my oc, (my, oc) ∈ ps → g.owner oc = old ∧ ∀ m, my = some m → g.owner m = new

structure CopyInv (g0 : G) (old new : Nat) (g : G) : Prop where
  inv : Inv g
  static : SameStatic g0 g
  /-- the lists of the copied node are untouched -/
  oldSame : ∀ x, g0.owner x = old → g.conns x = g0.conns x
  /-- every other list is its former self behind a prefix of channels of `new` -/
  others : ∀ x, g0.owner x ≠ new → (g.conns x).filter (fun y => g0.owner y != new) = g0.conns x
  /-- the channels of `new` are only connected to partners of `old` -/
  newOnly : ∀ y, g0.owner y = new → ∀ z ∈ g.conns y, ∃ oc, g0.owner oc = old ∧ z ∈ g0.conns oc

theorem CopyInv.init (g0 : G) (old new : Nat) (h : Inv g0) (hun : ∀ c, g0.owner c = new → g0.conns c = []) :
    CopyInv g0 old new g0 := by
  refine ⟨h, .refl g0, fun _ _ => rfl, ?_, ?_⟩
  · intro x _
    apply List.filter_eq_self.mpr
    intro y hy
    simp only [bne_iff_ne, ne_eq]
    intro hyn
    have := (h.symm x y).mp hy
    rw [hun y hyn] at this
    cases this
  · intro y hy z hz
    rw [hun y hy] at hz; cases hz

theorem CopyInv.link {g0 g : G} {old new : Nat} (hc : CopyInv g0 old new g) (hne : old ≠ new)
    (hself : NoSelfConn g0 old) (hun : ∀ c, g0.owner c = new → g0.conns c = [])
    {m t oc : Nat} (hm : g0.owner m = new) (hoc : g0.owner oc = old) (ht : t ∈ g.conns oc)
    (he : connect1 g m t = (linked g m t, .ok)) : CopyInv g0 old new (linked g m t) := by
  have ht0 : t ∈ g0.conns oc := by rw [← hc.oldSame oc hoc]; exact ht
  have hto : g0.owner t ≠ old := hself oc hoc t ht0
  have htn : g0.owner t ≠ new := by
    intro e
    have := (hc.inv.symm oc t).mp ht
    have h0 : oc ∈ g0.conns t := by
      have hs := (CopyInv.inv hc)
      have : oc ∈ g.conns t := this
      -- `t` is owned by `new`: its list only holds partners of `old`, and it was empty before
      have h1 := (show g0.conns t = [] from hun t e)
      have h2 := hc.others oc (by rw [hoc]; exact hne)
      have : t ∈ (g.conns oc).filter (fun y => g0.owner y != new) := by
        rw [h2]; exact ht0
      simp [e] at this
    rw [hun t e] at h0; cases h0
  have hmt : m ≠ t := by intro e; rw [e] at hm; exact htn hm
  have hi := connect1_inv g m t hc.inv
  have hst := connect1_static g m t
  rw [he] at hi hst
  refine ⟨hi, hc.static.trans hst, ?_, ?_, ?_⟩
  · intro x hx
    have hxm : x ≠ m := by intro e; rw [e, hm] at hx; exact hne hx.symm
    have hxt : x ≠ t := by intro e; rw [e] at hx; exact hto hx
    simp only [linked, updF, hxm, hxt, if_false]
    exact hc.oldSame x hx
  · intro x hx
    have hxm : x ≠ m := by intro e; rw [e] at hx; exact hx hm
    by_cases hxt : x = t
    · subst hxt
      simp only [linked, updF, if_true]
      rw [List.filter_cons]
      simp only [hm, bne_self_eq_false, Bool.false_eq_true, if_false]
      exact hc.others x hx
    · simp only [linked, updF, hxm, hxt, if_false]
      exact hc.others x hx
  · intro y hy z hz
    have hyt : y ≠ t := by intro e; rw [e] at hy; exact htn hy
    by_cases hym : y = m
    · subst hym
      simp only [linked, updF, hyt, if_false, if_true] at hz
      rcases List.mem_cons.mp hz with rfl | hz'
      · exact ⟨oc, hoc, ht0⟩
      · exact hc.newOnly y hy z hz'
    · simp only [linked, updF, hym, hyt, if_false] at hz
      exact hc.newOnly y hy z hz

theorem copyPairs_copyInv (g0 : G) (old new : Nat) (onlyNew hard : Bool) (ps : List (Option Nat × Nat))
    (h : Inv g0) (hne : old ≠ new) (hself : NoSelfConn g0 old)
    (hun : ∀ c, g0.owner c = new → g0.conns c = []) (hps : PairsOwned g0 old new ps) :
    CopyInv g0 old new (copyPairs onlyNew g0 hard ps []).1 := by
  have := copyPairs_ind (fun g _ => CopyInv g0 old new g) onlyNew hard ps
    (fun g log my oc hmem hP =>
      copyTargets_ind (fun g' _ => CopyInv g0 old new g') onlyNew my hard (g0.conns oc)
        (fun g' log' m t _ _ _ hP' => hP')
        (fun g' log' m t hmy ht _ _ he hP' => by
          have ho := hps my oc hmem
          exact hP'.link hne hself hun (ho.2 m hmy) ho.1 (by rw [hP'.oldSame oc ho.1]; exact ht) he)
        (g.conns oc) (fun t ht => by rw [← hP.oldSame oc (hps my oc hmem).1]; exact ht) g log hP)
    ps (fun _ h => h) g0 [] (CopyInv.init g0 old new h hun)
  exact this

/-- every connection of a channel of `new` after the copy comes from its own counterpart -/
theorem copyPairs_newFrom (g0 : G) (old new : Nat) (onlyNew hard : Bool) (ps : List (Option Nat × Nat))
    (h : Inv g0) (hne : old ≠ new) (hself : NoSelfConn g0 old)
    (hun : ∀ c, g0.owner c = new → g0.conns c = []) (hps : PairsOwned g0 old new ps) :
    ∀ y z, g0.owner y = new → z ∈ (copyPairs onlyNew g0 hard ps []).1.conns y →
      ∃ oc, (some y, oc) ∈ ps ∧ z ∈ g0.conns oc := by
  have := copyPairs_ind
    (fun g _ => CopyInv g0 old new g ∧
      ∀ y z, g0.owner y = new → z ∈ g.conns y → ∃ oc, (some y, oc) ∈ ps ∧ z ∈ g0.conns oc) onlyNew hard ps
    (fun g log my oc hmem hP =>
      copyTargets_ind
        (fun g' _ => CopyInv g0 old new g' ∧
          ∀ y z, g0.owner y = new → z ∈ g'.conns y → ∃ oc, (some y, oc) ∈ ps ∧ z ∈ g0.conns oc)
        onlyNew my hard (g0.conns oc)
        (fun g' log' m t _ _ _ hP' => hP')
        (fun g' log' m t hmy ht _ _ he hP' => by
          have ho := hps my oc hmem
          refine ⟨hP'.1.link hne hself hun (ho.2 m hmy) ho.1 (by rw [hP'.1.oldSame oc ho.1]; exact ht) he, ?_⟩
          intro y z hy hz
          have htn : g0.owner t ≠ new := by
            intro e
            have := (h.symm oc t).mp ht
            rw [hun t e] at this; cases this
          have hyt : y ≠ t := by intro e; rw [e] at hy; exact htn hy
          by_cases hym : y = m
          · subst hym
            simp only [linked, updF, hyt, if_false, if_true] at hz
            rcases List.mem_cons.mp hz with rfl | hz'
            · exact ⟨oc, by rw [← hmy]; exact hmem, ht⟩
            · exact hP'.2 y z hy hz'
          · simp only [linked, updF, hym, hyt, if_false] at hz
            exact hP'.2 y z hy hz)
        (g.conns oc) (fun t ht => by rw [← hP.1.oldSame oc (hps my oc hmem).1]; exact ht) g log hP)
    ps (fun _ h => h) g0 [] ⟨CopyInv.init g0 old new h hun, fun y z hy hz => by rw [hun y hy] at hz; cases hz⟩
  exact this.2

theorem copyTargets_none_hard (onlyNew : Bool) (g : G) (t : Nat) (ts : List Nat) (log : List (Nat × Nat)) :
    copyTargets onlyNew g none true (t :: ts) log = (g, log, true) := by
  simp [copyTargets]

/-- a hard copy that succeeded found a counterpart for every connected channel -/
theorem copyPairs_hard_counterparts (g0 : G) (old new : Nat) (onlyNew : Bool) (hne : old ≠ new)
    (hself : NoSelfConn g0 old) (hun : ∀ c, g0.owner c = new → g0.conns c = []) :
    ∀ (ps : List (Option Nat × Nat)) (g : G) (log : List (Nat × Nat)), CopyInv g0 old new g →
      PairsOwned g0 old new ps → (copyPairs onlyNew g true ps log).2.2 = false →
      ∀ oc, (none, oc) ∈ ps → g0.conns oc = [] := by
  intro ps
  induction ps with
  | nil => intro _ _ _ _ _ oc h; cases h
  | cons q qs ih =>
    intro g log hP hps hfl oc hmem
    obtain ⟨my, oc'⟩ := q
    have ho := hps my oc' (List.mem_cons_self ..)
    have hps' : PairsOwned g0 old new qs := fun a b hab => hps a b (List.mem_cons_of_mem _ hab)
    have hstep := copyTargets_ind (fun g' _ => CopyInv g0 old new g') onlyNew my true (g0.conns oc')
        (fun g' log' m t _ _ _ hP' => hP')
        (fun g' log' m t hmy ht _ _ he hP' =>
          hP'.link hne hself hun (ho.2 m hmy) ho.1 (by rw [hP'.oldSame oc' ho.1]; exact ht) he)
        (g.conns oc') (fun t ht => by rw [← hP.oldSame oc' ho.1]; exact ht) g log hP
    unfold copyPairs at hfl
    rcases List.mem_cons.mp hmem with heq | hmem'
    · simp only [Prod.mk.injEq] at heq
      obtain ⟨rfl, rfl⟩ := heq
      cases hts : g.conns oc with
      | nil => rw [← hP.oldSame oc ho.1]; exact hts
      | cons t ts =>
        rw [hts, copyTargets_none_hard] at hfl
        simp at hfl
    · generalize copyTargets onlyNew g my true (g.conns oc') log = r at hfl hstep
      obtain ⟨g', log', fl⟩ := r
      cases fl with
      | true => simp at hfl
      | false => exact ih g' log' hstep hps' hfl oc hmem'

/-! ## the seat -/

theorem lookup_mem {m : List (Nat × Nat)} {y n : Nat} (h : m.lookup y = some n) : (y, n) ∈ m := by
  obtain ⟨l1, l2, rfl, _⟩ := List.lookup_eq_some_iff.mp h
  simp

theorem subst_of_not_key {m : List (Nat × Nat)} {y : Nat} (h : ∀ n, (y, n) ∉ m) : subst m y = y := by
  unfold subst
  cases hl : m.lookup y with
  | none => rfl
  | some n => exact absurd (lookup_mem hl) (h n)

/-- what the seat needs to know about the world right after `copy_io` -/
structure SeatCtx (g0 : G) (w1 : W) (old new : Nat) : Prop where
  ci : CopyInv g0 old new w1.g
  ne : old ≠ new
  self : NoSelfConn g0 old
  own : ∀ oc nc, (oc, nc) ∈ standIns w1 new old → g0.owner oc = old ∧ g0.owner nc = new
  complete : ∀ oc, g0.owner oc = old → g0.conns oc ≠ [] → ∃ nc, (oc, nc) ∈ standIns w1 new old
  inj : ∀ e e', e ∈ standIns w1 new old → e' ∈ standIns w1 new old → e.2 = e'.2 → e.1 = e'.1
  /-- a channel of the replacement that got connected by the copy is a stand-in -/
  seated : ∀ y, g0.owner y = new → w1.g.conns y ≠ [] → ∃ oc, (oc, y) ∈ standIns w1 new old
  /-- nothing was connected to the replacement before -/
  fresh : ∀ y, g0.owner y = new → g0.conns y = []

theorem SeatCtx.owner_eq {g0 : G} {w1 : W} {old new : Nat} (h : SeatCtx g0 w1 old new) :
    w1.g.owner = g0.owner := h.ci.static.owner

theorem SeatCtx.partner_iff {g0 : G} {w1 : W} {old new : Nat} (h : SeatCtx g0 w1 old new) (q : Nat) :
    q ∈ (standIns w1 new old).flatMap (fun e => w1.g.conns e.1) ↔ ∃ oc, g0.owner oc = old ∧ q ∈ g0.conns oc := by
  constructor
  · intro hq
    obtain ⟨e, he, hqe⟩ := List.mem_flatMap.mp hq
    have ho := (h.own e.1 e.2 he).1
    exact ⟨e.1, ho, by rw [← h.ci.oldSame e.1 ho]; exact hqe⟩
  · rintro ⟨oc, ho, hq⟩
    obtain ⟨nc, hm⟩ := h.complete oc ho (List.ne_nil_of_mem hq)
    exact List.mem_flatMap.mpr ⟨(oc, nc), hm, by show q ∈ w1.g.conns oc; rw [h.ci.oldSame oc ho]; exact hq⟩

/-- every neighbour lists the stand-in exactly where it listed the replaced channel -/
theorem seat_neighbour {g0 : G} {w1 : W} {old new : Nat} (h : SeatCtx g0 w1 old new) (h0 : Inv g0) (q : Nat)
    (hqo : g0.owner q ≠ old) (hqn : g0.owner q ≠ new) :
    (seat w1 new old).conns q = (g0.conns q).map (subst (standIns w1 new old)) := by
  have hf : (standIns w1 new old).find? (fun e => e.2 == q) = none := by
    apply List.find?_eq_none.mpr
    intro e he hq
    simp only [beq_iff_eq] at hq
    have := (h.own e.1 e.2 he).2
    rw [hq] at this; exact hqn this
  have ha : (standIns w1 new old).any (fun e => e.1 == q) = false := by
    apply List.any_eq_false.mpr
    intro e he hq
    simp only [beq_iff_eq] at hq
    have := (h.own e.1 e.2 he).1
    rw [hq] at this; exact hqo this
  simp only [seat, hf, ha, Bool.false_eq_true, if_false, seatPass1]
  split
  · rw [h.owner_eq, h.ci.others q hqn]
  · rename_i hnp
    have hnp' : ¬ ∃ oc, g0.owner oc = old ∧ q ∈ g0.conns oc := fun hh => hnp ((h.partner_iff q).mpr hh)
    have h1 : w1.g.conns q = g0.conns q := by
      rw [← h.ci.others q hqn]
      symm
      apply List.filter_eq_self.mpr
      intro y hy
      simp only [bne_iff_ne, ne_eq]
      intro hyn
      have hqy : q ∈ w1.g.conns y := (h.ci.inv.symm q y).mp hy
      exact hnp' (h.ci.newOnly y hyn q hqy)
    rw [h1]
    symm
    conv => rhs; rw [← List.map_id (g0.conns q)]
    apply List.map_congr_left
    intro y hy
    simp only [id]
    apply subst_of_not_key
    intro n hm
    have ho := (h.own y n hm).1
    exact hnp' ⟨y, ho, (h0.symm q y).mp hy⟩

/-- the stand-in's own list is the replaced channel's list, same order -/
theorem seat_own {g0 : G} {w1 : W} {old new : Nat} (h : SeatCtx g0 w1 old new) (oc nc : Nat)
    (hm : (oc, nc) ∈ standIns w1 new old) : (seat w1 new old).conns nc = g0.conns oc := by
  have ho := (h.own oc nc hm).1
  cases hf : (standIns w1 new old).find? (fun e => e.2 == nc) with
  | none =>
    have := List.find?_eq_none.mp hf (oc, nc) hm
    simp at this
  | some e =>
    have he := List.mem_of_find?_eq_some hf
    have h2 := List.find?_some hf
    simp only [beq_iff_eq] at h2
    have h1 : e.1 = oc := h.inj e (oc, nc) he hm h2
    have hnp : oc ∉ (standIns w1 new old).flatMap (fun e => w1.g.conns e.1) := by
      intro hp
      obtain ⟨oc', ho', hm'⟩ := (h.partner_iff oc).mp hp
      exact h.self oc' ho' oc hm' ho
    simp only [seat, hf, seatPass1]
    rw [h1, if_neg hnp, h.ci.oldSame oc ho, h.owner_eq]
    apply List.filter_eq_self.mpr
    intro y hy
    simp only [bne_iff_ne, ne_eq]
    exact h.self oc ho y hy

/-- the replaced node's channels let go -/
theorem seat_old {g0 : G} {w1 : W} {old new : Nat} (h : SeatCtx g0 w1 old new) (c : Nat)
    (hc : g0.owner c = old) : (seat w1 new old).conns c = [] := by
  have hf : (standIns w1 new old).find? (fun e => e.2 == c) = none := by
    apply List.find?_eq_none.mpr
    intro e he hq
    simp only [beq_iff_eq] at hq
    have := (h.own e.1 e.2 he).2
    rw [hq, hc] at this; exact h.ne this
  simp only [seat, hf]
  split
  · rfl
  · rename_i hk
    have hempty : w1.g.conns c = [] := by
      rw [h.ci.oldSame c hc]
      cases hcs : g0.conns c with
      | nil => rfl
      | cons a l =>
        exfalso
        obtain ⟨nc, hm⟩ := h.complete c hc (by rw [hcs]; simp)
        apply hk
        apply List.any_eq_true.mpr
        exact ⟨(c, nc), hm, by simp⟩
    simp only [seatPass1]
    split <;> simp [hempty]

/-- a channel of the replacement without a connected counterpart stays unconnected -/
theorem seat_unseated {g0 : G} {w1 : W} {old new : Nat} (h : SeatCtx g0 w1 old new) (h0 : Inv g0) (c : Nat)
    (hc : g0.owner c = new) (hns : ∀ oc, (oc, c) ∉ standIns w1 new old) : (seat w1 new old).conns c = [] := by
  have hf : (standIns w1 new old).find? (fun e => e.2 == c) = none := by
    apply List.find?_eq_none.mpr
    intro e he hq
    simp only [beq_iff_eq] at hq
    exact hns e.1 (by rw [← hq]; exact he)
  have ha : (standIns w1 new old).any (fun e => e.1 == c) = false := by
    apply List.any_eq_false.mpr
    intro e he hq
    simp only [beq_iff_eq] at hq
    have := (h.own e.1 e.2 he).1
    rw [hq, hc] at this; exact h.ne this.symm
  have hempty : w1.g.conns c = [] := by
    cases hcs : w1.g.conns c with
    | nil => rfl
    | cons a l =>
      exfalso
      obtain ⟨oc, hm⟩ := h.seated c hc (by rw [hcs]; simp)
      exact hns oc hm
  simp only [seat, hf, ha, Bool.false_eq_true, if_false, seatPass1]
  split <;> simp [hempty]

theorem disconnectChans_noop (g : G) (cs : List Nat) (h : ∀ c ∈ cs, g.conns c = []) :
    disconnectChans g cs = g := by
  unfold disconnectChans
  induction cs with
  | nil => rfl
  | cons c cs ih =>
    simp only [List.foldl_cons]
    have : disconnectAll g c = g := by
      simp [disconnectAll, h c (List.mem_cons_self ..), disconnect]
    rw [this]
    exact ih (fun c' hc' => h c' (List.mem_cons_of_mem _ hc'))

/-! ## value links -/

/-- the links after forging: the old ones overwritten in order -/
def overwrite (r : Nat → Option Nat) : List (Nat × Nat) → Nat → Option Nat
  | [] => r
  | (s, x) :: ls => overwrite (updF r s (some x)) ls

theorem forgeSoft_shape (fuel : Nat) : ∀ (links : List (Nat × Nat)) (w : W),
    ∃ f, forgeSoft fuel w links = { w with val := f, recv := overwrite w.recv links } := by
  intro links
  induction links with
  | nil => intro w; exact ⟨w.val, rfl⟩
  | cons l ls ih =>
    intro w
    obtain ⟨s, r⟩ := l
    unfold forgeSoft
    dsimp only
    have hv : ValOnly { w with recv := updF w.recv s (some r) }
        ((setValF { w with recv := updF w.recv s (some r) } fuel r (w.val s)).getD
          { w with recv := updF w.recv s (some r) }) := by
      cases hs : setValF { w with recv := updF w.recv s (some r) } fuel r (w.val s) with
      | none => exact .refl _
      | some w2 => exact setValF_val _ fuel r _ w2 hs
    obtain ⟨f1, hf1⟩ := hv
    rw [hf1]
    obtain ⟨f, hf⟩ := ih { w with recv := updF w.recv s (some r), val := f1 }
    exact ⟨f, by rw [hf]; rfl⟩

theorem overwrite_not_mem (r : Nat → Option Nat) : ∀ (links : List (Nat × Nat)) (s : Nat),
    (∀ x, (s, x) ∉ links) → overwrite r links s = r s := by
  intro links
  induction links generalizing r with
  | nil => intro s _; rfl
  | cons l ls ih =>
    intro s h
    obtain ⟨s', x⟩ := l
    unfold overwrite
    rw [ih _ s (fun y hy => h y (List.mem_cons_of_mem _ hy))]
    have : s ≠ s' := by
      intro e; subst e; exact h x (List.mem_cons_self ..)
    simp [updF, this]

theorem overwrite_mem (r : Nat → Option Nat) : ∀ (links : List (Nat × Nat)) (s x : Nat),
    (links.map Prod.fst).Nodup → (s, x) ∈ links → overwrite r links s = some x := by
  intro links
  induction links generalizing r with
  | nil => intro s x _ h; cases h
  | cons l ls ih =>
    intro s x hn h
    obtain ⟨s', x'⟩ := l
    simp only [List.map_cons, List.nodup_cons] at hn
    unfold overwrite
    rcases List.mem_cons.mp h with heq | h'
    · simp only [Prod.mk.injEq] at heq
      obtain ⟨rfl, rfl⟩ := heq
      rw [overwrite_not_mem _ ls s (fun y hy => hn.1 (List.mem_map.mpr ⟨(s, y), hy, rfl⟩))]
      simp [updF]
    · exact ih _ s x hn.2 h'

theorem linksIn_spec (w : W) (old new : Nat) : ∀ (ss : List Nat) (li : List (Nat × Nat)),
    linksIn w old new ss = some li →
    (∀ s nr, (s, nr) ∈ li → s ∈ ss ∧ ∃ r, w.recv s = some r ∧ r ∈ (w.io old).inp ∧
      findLab w (w.io new).inp (w.clab r) = some nr) ∧
    (∀ s r, s ∈ ss → w.recv s = some r → r ∈ (w.io old).inp → ∃ nr, (s, nr) ∈ li) := by
  intro ss
  induction ss with
  | nil =>
    intro li h
    simp only [linksIn, Option.some.injEq] at h
    subst h
    exact ⟨fun _ _ h => (nomatch h), fun _ _ h => (nomatch h)⟩
  | cons s ss ih =>
    intro li h
    unfold linksIn at h
    cases hr : w.recv s with
    | none =>
      simp only [hr] at h
      obtain ⟨h1, h2⟩ := ih li h
      refine ⟨fun a b hab => ?_, fun a r ha hra hro => ?_⟩
      · obtain ⟨x, y⟩ := h1 a b hab; exact ⟨List.mem_cons_of_mem _ x, y⟩
      · rcases List.mem_cons.mp ha with rfl | ha'
        · rw [hr] at hra; cases hra
        · exact h2 a r ha' hra hro
    | some r =>
      simp only [hr] at h
      by_cases hro : r ∈ (w.io old).inp
      · rw [if_pos hro] at h
        cases hf : findLab w (w.io new).inp (w.clab r) with
        | none => simp [hf] at h
        | some nr =>
          simp only [hf] at h
          cases hrest : linksIn w old new ss with
          | none => simp [hrest] at h
          | some li' =>
            simp only [hrest, Option.map_some, Option.some.injEq] at h
            subst h
            obtain ⟨h1, h2⟩ := ih li' hrest
            refine ⟨fun a b hab => ?_, fun a r' ha hra hro' => ?_⟩
            · rcases List.mem_cons.mp hab with heq | hab'
              · simp only [Prod.mk.injEq] at heq
                obtain ⟨rfl, rfl⟩ := heq
                exact ⟨List.mem_cons_self .., r, hr, hro, hf⟩
              · obtain ⟨x, y⟩ := h1 a b hab'; exact ⟨List.mem_cons_of_mem _ x, y⟩
            · rcases List.mem_cons.mp ha with rfl | ha'
              · exact ⟨nr, List.mem_cons_self ..⟩
              · obtain ⟨n', hn'⟩ := h2 a r' ha' hra hro'
                exact ⟨n', List.mem_cons_of_mem _ hn'⟩
      · rw [if_neg hro] at h
        obtain ⟨h1, h2⟩ := ih li h
        refine ⟨fun a b hab => ?_, fun a r' ha hra hro' => ?_⟩
        · obtain ⟨x, y⟩ := h1 a b hab; exact ⟨List.mem_cons_of_mem _ x, y⟩
        · rcases List.mem_cons.mp ha with rfl | ha'
          · rw [hr] at hra; cases hra; exact absurd hro' hro
          · exact h2 a r' ha' hra hro'

theorem linksOut_spec (w : W) (p new : Nat) : ∀ (cs : List Nat) (lo : List (Nat × Nat)),
    linksOut w p new cs = some lo →
    (∀ nc r, (nc, r) ∈ lo → ∃ c, c ∈ cs ∧ w.recv c = some r ∧ r ∈ (w.io p).out ∧
      findLab w (w.io new).out (w.clab c) = some nc) ∧
    (∀ c r, c ∈ cs → w.recv c = some r → r ∈ (w.io p).out → ∃ nc, (nc, r) ∈ lo ∧
      findLab w (w.io new).out (w.clab c) = some nc) := by
  intro cs
  induction cs with
  | nil =>
    intro lo h
    simp only [linksOut, Option.some.injEq] at h
    subst h
    exact ⟨fun _ _ h => (nomatch h), fun _ _ h => (nomatch h)⟩
  | cons c cs ih =>
    intro lo h
    unfold linksOut at h
    cases hr : w.recv c with
    | none =>
      simp only [hr] at h
      obtain ⟨h1, h2⟩ := ih lo h
      refine ⟨fun a b hab => ?_, fun a r ha hra hro => ?_⟩
      · obtain ⟨c', x, y⟩ := h1 a b hab; exact ⟨c', List.mem_cons_of_mem _ x, y⟩
      · rcases List.mem_cons.mp ha with rfl | ha'
        · rw [hr] at hra; cases hra
        · exact h2 a r ha' hra hro
    | some r =>
      simp only [hr] at h
      by_cases hro : r ∈ (w.io p).out
      · rw [if_pos hro] at h
        cases hf : findLab w (w.io new).out (w.clab c) with
        | none => simp [hf] at h
        | some nc =>
          simp only [hf] at h
          cases hrest : linksOut w p new cs with
          | none => simp [hrest] at h
          | some lo' =>
            simp only [hrest, Option.map_some, Option.some.injEq] at h
            subst h
            obtain ⟨h1, h2⟩ := ih lo' hrest
            refine ⟨fun a b hab => ?_, fun a r' ha hra hro' => ?_⟩
            · rcases List.mem_cons.mp hab with heq | hab'
              · simp only [Prod.mk.injEq] at heq
                obtain ⟨rfl, rfl⟩ := heq
                exact ⟨c, List.mem_cons_self .., hr, hro, hf⟩
              · obtain ⟨c', x, y⟩ := h1 a b hab'; exact ⟨c', List.mem_cons_of_mem _ x, y⟩
            · rcases List.mem_cons.mp ha with rfl | ha'
              · rw [hr] at hra; cases hra
                exact ⟨nc, List.mem_cons_self .., hf⟩
              · obtain ⟨n', hn', hf'⟩ := h2 a r' ha' hra hro'
                exact ⟨n', List.mem_cons_of_mem _ hn', hf'⟩
      · rw [if_neg hro] at h
        obtain ⟨h1, h2⟩ := ih lo h
        refine ⟨fun a b hab => ?_, fun a r' ha hra hro' => ?_⟩
        · obtain ⟨c', x, y⟩ := h1 a b hab; exact ⟨c', List.mem_cons_of_mem _ x, y⟩
        · rcases List.mem_cons.mp ha with rfl | ha'
          · rw [hr] at hra; cases hra; exact absurd hro' hro
          · exact h2 a r' ha' hra hro'

/-! ## the shape of a successful replacement (all repairs in place) -/

/-- the ownership side of the result -/
def tAfter (t : Tree.Tree) (p old new : Nat) : Tree.Tree :=
  let t4 := adopt (swapLabels (Tree.removeCore0 t p old) new old) p new
  if old ∈ t.starting p then { t4 with starting := updF t4.starting p (t4.starting p ++ [new]) } else t4

theorem linksOf_error_ne_ok (w : W) (p old new : Nat) (e : Err) (h : linksOf w p old new = .error e) :
    e ≠ .ok := by
  unfold linksOf at h
  split at h
  · split at h
    · cases h
    · cases h; decide
  · split at h
    · cases h; decide
    · split at h
      · cases h; decide
      · cases h

theorem compReplace_ok_shape' (cfg : Cfg) (ho : cfg.onlyNewUndo = true) (ha : cfg.adoptPrecheck = true)
    (hlp : cfg.linkPrecheck = true) (hpos : cfg.positional = true) (w : W) (p old new : Nat) (w' : W)
    (h : compReplace cfg w p old new = (w', .ok)) :
    w.t.parent old = some p ∧ w.t.parent new = none ∧ nodeConnected w new = false ∧
    adoptRefusal cfg.fuel w.t p new = .ok ∧ dryRefuses cfg w p old new = false ∧
    ∃ links f, linksOf w p old new = .ok links ∧ linksValid w links = true ∧
      (copyPairs true w.g true (ioPairs w new old) []).2.2 = false ∧
      w' = forgeSoft cfg.fuel
        { w with val := f, t := tAfter w.t p old new,
                 g := disconnectChans
                   (seat { w with g := (copyPairs true w.g true (ioPairs w new old) []).1, val := f } new old)
                   (w.io old).all,
                 cached := updF (updF w.cached p false) new false } links := by
  unfold compReplace at h
  by_cases h1 : w.t.parent old ≠ some p
  · rw [if_pos h1] at h; simp at h
  · rw [if_neg h1] at h
    by_cases h2 : w.t.parent new ≠ none
    · rw [if_pos h2] at h; simp at h
    · rw [if_neg h2] at h
      by_cases h3 : nodeConnected w new = true
      · rw [if_pos h3] at h; simp at h
      · rw [if_neg h3] at h
        simp only [ha, hlp, if_true] at h
        cases hpre : adoptPre cfg.fuel w.t p new with
        | ok =>
          simp only [hpre] at h
          have hadopt := (adoptPre_ok_iff _ _ _ _).mp hpre
          cases hl : linksOf w p old new with
          | error e =>
            exfalso
            simp only [hl, Prod.mk.injEq] at h
            exact linksOf_error_ne_ok w p old new e hl h.2
          | ok links =>
            simp only [hl] at h
            by_cases h4 : linksValid w links = false
            · rw [if_pos h4] at h; simp at h
            · rw [if_neg h4] at h
              by_cases h5 : dryRefuses cfg w p old new = true
              · rw [if_pos h5] at h; simp at h
              · rw [if_neg h5] at h
                have hsh := copyIo_ok_shape cfg w new old true false
                have hfl : ∀ w1, copyIo cfg w new old true false = (w1, .ok) →
                    (copyPairs true w.g true (ioPairs w new old) []).2.2 = false := by
                  intro w1 hc
                  unfold copyIo at hc
                  rw [ho] at hc
                  generalize copyPairs true w.g true (ioPairs w new old) [] = r at hc ⊢
                  obtain ⟨g', log, fl⟩ := r
                  cases fl with
                  | true => simp at hc
                  | false => rfl
                rw [ho] at hsh
                generalize copyIo cfg w new old true false = r at h hsh hfl
                obtain ⟨w1, e⟩ := r
                cases e with
                | ok =>
                  obtain ⟨f, hf⟩ := hsh w1 rfl
                  have hflag := hfl w1 rfl
                  subst hf
                  have hok := adoptRefusal_after_removal cfg.fuel w.t p old new hadopt
                  unfold commit at h
                  simp only [seated, hpos, if_true] at h
                  rw [hok] at h
                  refine ⟨by simpa using h1, by simpa using h2, by simpa using h3, hadopt, by simpa using h5,
                    links, f, rfl, by simpa using h4, hflag, ?_⟩
                  simp only [hlp, if_true, Prod.mk.injEq, and_true] at h
                  rw [← h]
                  unfold tAfter
                  simp only [decide_eq_true_eq]
                | _ => simp at h
        | _ => simp [hpre] at h

theorem compReplace_ok_shape (fuel : Nat) (w : W) (p old new : Nat) (w' : W)
    (h : compReplace (Cfg.repaired fuel) w p old new = (w', .ok)) :
    w.t.parent old = some p ∧ w.t.parent new = none ∧ nodeConnected w new = false ∧
    adoptRefusal fuel w.t p new = .ok ∧
    ∃ links f, linksOf w p old new = .ok links ∧ linksValid w links = true ∧
      (copyPairs true w.g true (ioPairs w new old) []).2.2 = false ∧
      w' = forgeSoft fuel
        { w with val := f, t := tAfter w.t p old new,
                 g := disconnectChans
                   (seat { w with g := (copyPairs true w.g true (ioPairs w new old) []).1, val := f } new old)
                   (w.io old).all,
                 cached := updF (updF w.cached p false) new false } links := by
  obtain ⟨a1, a2, a3, a4, _, rest⟩ := compReplace_ok_shape' (Cfg.repaired fuel) rfl rfl rfl rfl w p old new w' h
  exact ⟨a1, a2, a3, a4, rest⟩

/-! ## inheritance -/

/-- the channel tables agree with the `owner` function; stand-ins are distinct -/
structure Tables (w : W) (old new : Nat) : Prop where
  oldOwn : ∀ c, c ∈ (w.io old).all ↔ w.g.owner c = old
  newOwn : ∀ c, c ∈ (w.io new).all ↔ w.g.owner c = new
  oldKind : w.t.kind old ≠ .workflow
  inj : ∀ e e', e ∈ standIns w new old → e' ∈ standIns w new old → e.2 = e'.2 → e.1 = e'.1

theorem ioPairs_cover (w : W) (me other : Nat) (h1 : w.t.kind me ≠ .workflow) (h2 : w.t.kind other ≠ .workflow)
    (oc : Nat) (hoc : oc ∈ (w.io other).all) : ∃ my, (my, oc) ∈ ioPairs w me other := by
  unfold ioPairs panels
  simp only [h1, h2, if_false]
  simp only [NodeIO.all, List.mem_append] at hoc
  rcases hoc with ((hoc | hoc) | hoc) | hoc
  · exact ⟨findLab w (w.io me).inp (w.clab oc), List.mem_flatMap.mpr
      ⟨((w.io me).inp, (w.io other).inp), by simp, List.mem_map.mpr ⟨oc, hoc, rfl⟩⟩⟩
  · exact ⟨findLab w (w.io me).out (w.clab oc), List.mem_flatMap.mpr
      ⟨((w.io me).out, (w.io other).out), by simp, List.mem_map.mpr ⟨oc, hoc, rfl⟩⟩⟩
  · exact ⟨findLab w (w.io me).sin (w.clab oc), List.mem_flatMap.mpr
      ⟨((w.io me).sin, (w.io other).sin), by simp, List.mem_map.mpr ⟨oc, hoc, rfl⟩⟩⟩
  · exact ⟨findLab w (w.io me).sout (w.clab oc), List.mem_flatMap.mpr
      ⟨((w.io me).sout, (w.io other).sout), by simp, List.mem_map.mpr ⟨oc, hoc, rfl⟩⟩⟩

theorem filterMap_congr' {α β} (f g : α → Option β) : ∀ (l : List α), (∀ a ∈ l, f a = g a) →
    l.filterMap f = l.filterMap g := by
  intro l
  induction l with
  | nil => intro _; rfl
  | cons a l ih =>
    intro h
    simp only [List.filterMap_cons, h a (List.mem_cons_self ..)]
    rw [ih (fun b hb => h b (List.mem_cons_of_mem _ hb))]

theorem updF_updF' {α} (f : Nat → α) (a : Nat) (x y : α) : updF (updF f a x) a y = updF f a y := by
  funext z; by_cases h : z = a <;> simp [updF, h]

theorem standIns_congr (w : W) (g1 : G) (f : Nat → Option Nat) (new old : Nat)
    (hsame : ∀ oc, oc ∈ (w.io old).all → g1.conns oc = w.g.conns oc) :
    standIns { w with g := g1, val := f } new old = standIns w new old := by
  unfold standIns
  show List.filterMap _ (ioPairs w new old) = _
  apply filterMap_congr'
  intro mo hmo
  have := (mem_ioPairs w new old mo.1 mo.2 hmo).1
  show (if (g1.conns mo.2).isEmpty then none else _) = _
  rw [hsame mo.2 this]

theorem unconnected_of (w : W) (new : Nat) (htab : ∀ c, c ∈ (w.io new).all ↔ w.g.owner c = new)
    (h : nodeConnected w new = false) : ∀ c, w.g.owner c = new → w.g.conns c = [] := by
  intro c hc
  unfold nodeConnected at h
  have := List.any_eq_false.mp h c ((htab c).mpr hc)
  simpa using this

theorem seatCtx_of (fuel : Nat) (w : W) (p old new : Nat) (f : Nat → Option Nat) (hinv : Inv w.g)
    (htab : Tables w old new) (hself : NoSelfConn w.g old)
    (hpo : w.t.parent old = some p) (hpn : w.t.parent new = none) (hcn : nodeConnected w new = false)
    (hadopt : adoptRefusal fuel w.t p new = .ok)
    (hflag : (copyPairs true w.g true (ioPairs w new old) []).2.2 = false) :
    SeatCtx w.g { w with g := (copyPairs true w.g true (ioPairs w new old) []).1, val := f } old new := by
  have hne : old ≠ new := by intro e; rw [e, hpn] at hpo; cases hpo
  have hun := unconnected_of w new htab.newOwn hcn
  have hps : PairsOwned w.g old new (ioPairs w new old) := by
    intro my oc hm
    obtain ⟨h1, h2⟩ := mem_ioPairs w new old my oc hm
    exact ⟨(htab.oldOwn oc).mp h1, fun m hmy => (htab.newOwn m).mp (h2 m hmy)⟩
  have hci := copyPairs_copyInv w.g old new true true (ioPairs w new old) hinv hne hself hun hps
  have hst : standIns { w with g := (copyPairs true w.g true (ioPairs w new old) []).1, val := f } new old
      = standIns w new old :=
    standIns_congr w _ f new old (fun oc hoc => hci.oldSame oc ((htab.oldOwn oc).mp hoc))
  have hkn : w.t.kind new ≠ .workflow := ((adoptRefusal_ok_iff _ _ _ _).mp hadopt).2
  refine ⟨hci, hne, hself, ?_, ?_, ?_, ?_, ?_⟩
  · intro oc nc hm
    rw [hst] at hm
    obtain ⟨hio, _⟩ := mem_standIns w new old oc nc hm
    exact hps (some nc) oc hio |>.imp id (fun h => h nc rfl)
  · intro oc ho hcon
    rw [hst]
    obtain ⟨my, hmy⟩ := ioPairs_cover w new old hkn htab.oldKind oc ((htab.oldOwn oc).mpr ho)
    cases my with
    | none =>
      exfalso
      exact hcon (copyPairs_hard_counterparts w.g old new true hne hself hun (ioPairs w new old) w.g []
        (CopyInv.init w.g old new hinv hun) hps hflag oc hmy)
    | some nc => exact ⟨nc, standIns_of w new old oc nc hmy hcon⟩
  · rw [hst]; exact htab.inj
  · intro y hy hcon
    rw [hst]
    obtain ⟨z, hz⟩ := List.exists_mem_of_ne_nil _ hcon
    obtain ⟨oc, hmem, hzo⟩ := copyPairs_newFrom w.g old new true true (ioPairs w new old) hinv hne hself hun hps
      y z hy hz
    exact ⟨oc, standIns_of w new old oc y hmem (List.ne_nil_of_mem hzo)⟩
  · exact hun

theorem mem_vals_popVal (l : List (Tree.Str × Nat)) (v x : Nat) :
    x ∈ Tree.vals (Tree.popVal l v) ↔ x ∈ Tree.vals l ∧ x ≠ v := by
  simp only [Tree.vals, Tree.popVal, List.mem_map, List.mem_filter]
  constructor
  · rintro ⟨e, ⟨he, hne⟩, rfl⟩
    exact ⟨⟨e, he, rfl⟩, by simpa using hne⟩
  · rintro ⟨⟨e, he, rfl⟩, hne⟩
    exact ⟨e, ⟨he, by simpa using hne⟩, rfl⟩

/-- the ownership side: the replacement sits under the old label, the replaced node is free,
starting status is handed over, nobody else is touched -/
theorem tAfter_facts (t : Tree.Tree) (p old new : Nat) (hpo : t.parent old = some p) (hpn : t.parent new = none)
    (hns : new ∉ t.starting p) :
    (tAfter t p old new).label new = t.label old ∧
    (tAfter t p old new).label old = t.label new ∧
    (tAfter t p old new).parent new = some p ∧
    (tAfter t p old new).parent old = none ∧
    (t.label old, new) ∈ (tAfter t p old new).children p ∧
    old ∉ Tree.vals ((tAfter t p old new).children p) ∧
    (∀ x, x ≠ old → x ≠ new → (x ∈ Tree.vals ((tAfter t p old new).children p) ↔ x ∈ Tree.vals (t.children p))) ∧
    (new ∈ (tAfter t p old new).starting p ↔ old ∈ t.starting p) ∧
    (∀ x, x ≠ old → x ≠ new → (x ∈ (tAfter t p old new).starting p ↔ x ∈ t.starting p)) ∧
    (∀ x, x ≠ old → x ≠ new → (tAfter t p old new).label x = t.label x ∧ (tAfter t p old new).parent x = t.parent x) ∧
    (∀ q, q ≠ p → (tAfter t p old new).children q = t.children q ∧ (tAfter t p old new).starting q = t.starting q) := by
  have hne : old ≠ new := by intro e; rw [e, hpn] at hpo; cases hpo
  have hne' : new ≠ old := Ne.symm hne
  have key : ∀ s : Tree.Tree, s = tAfter t p old new →
      s.label = updF (updF t.label new (t.label old)) old (t.label new) ∧
      s.parent = updF (updF t.parent old none) new (some p) ∧
      s.children = updF t.children p (Tree.popVal (t.children p) old ++ [(t.label old, new)]) ∧
      s.starting = updF t.starting p
        (if old ∈ t.starting p then (t.starting p).erase old ++ [new] else (t.starting p).erase old) := by
    intro s hs
    subst hs
    unfold tAfter
    split <;>
      simp [adopt, swapLabels, Tree.removeCore0, updF_updF', *]
  obtain ⟨hl, hp, hc, hs⟩ := key _ rfl
  refine ⟨?_, ?_, ?_, ?_, ?_, ?_, ?_, ?_, ?_, ?_, ?_⟩
  · rw [hl]; simp [updF, hne']
  · rw [hl]; simp [updF]
  · rw [hp]; simp [updF]
  · rw [hp]; simp [updF, hne]
  · rw [hc]; simp [updF]
  · rw [hc]
    simp only [updF, if_true, Tree.vals, List.map_append, List.mem_append, List.map_cons, List.map_nil,
      List.mem_singleton]
    rintro (h | h)
    · have := (mem_vals_popVal (t.children p) old old).mp h
      exact this.2 rfl
    · exact hne h
  · intro x hxo hxn
    rw [hc]
    simp only [updF, if_true, Tree.vals, List.map_append, List.mem_append, List.map_cons, List.map_nil,
      List.mem_singleton]
    constructor
    · rintro (h | h)
      · exact ((mem_vals_popVal (t.children p) old x).mp h).1
      · exact absurd h hxn
    · intro h
      exact .inl ((mem_vals_popVal (t.children p) old x).mpr ⟨h, hxo⟩)
  · rw [hs]
    simp only [updF, if_true]
    split
    · rename_i ho; simp [ho]
    · rename_i ho
      simp only [ho, iff_false]
      intro h
      exact hns (List.mem_of_mem_erase h)
  · intro x hxo hxn
    rw [hs]
    simp only [updF, if_true]
    split
    · simp only [List.mem_append, List.mem_singleton, hxn, or_false]
      exact List.mem_erase_of_ne hxo
    · exact List.mem_erase_of_ne hxo
  · intro x hxo hxn
    rw [hl, hp]
    simp [updF, hxo, hxn]
  · intro q hq
    rw [hc, hs]
    simp [updF, hq]

/-- MAIN LEMMA (all repairs in place): after a successful composite-level replacement the
stand-ins hold the replaced channels' lists, every neighbour lists them where it listed the
replaced channels, the replaced node is free, the tree is `tAfter`, and the links are the old
ones overwritten by the computed ones -/
theorem compReplace_inherits' (cfg : Cfg) (ho : cfg.onlyNewUndo = true) (ha : cfg.adoptPrecheck = true)
    (hlp : cfg.linkPrecheck = true) (hpos : cfg.positional = true) (w : W) (p old new : Nat) (w' : W)
    (h : compReplace cfg w p old new = (w', .ok)) (hinv : Inv w.g)
    (htab : Tables w old new) (hself : NoSelfConn w.g old) :
    (∀ oc nc, (oc, nc) ∈ standIns w new old → w'.g.conns nc = w.g.conns oc) ∧
    (∀ q, w.g.owner q ≠ old → w.g.owner q ≠ new →
      w'.g.conns q = (w.g.conns q).map (subst (standIns w new old))) ∧
    (∀ c, w.g.owner c = old → w'.g.conns c = []) ∧
    w'.t = tAfter w.t p old new ∧
    (∃ links, linksOf w p old new = .ok links ∧ w'.recv = overwrite w.recv links) ∧
    w'.cached = updF (updF w.cached p false) new false ∧
    w'.g = seat { w with g := (copyPairs true w.g true (ioPairs w new old) []).1, val := w'.val } new old ∧
    SeatCtx w.g { w with g := (copyPairs true w.g true (ioPairs w new old) []).1, val := w'.val } old new := by
  obtain ⟨hpo, hpn, hcn, hadopt, _, links, f, hl, _, hflag, hw'⟩ :=
    compReplace_ok_shape' cfg ho ha hlp hpos w p old new w' h
  have hctx := seatCtx_of cfg.fuel w p old new f hinv htab hself hpo hpn hcn hadopt hflag
  have hst : standIns { w with g := (copyPairs true w.g true (ioPairs w new old) []).1, val := f } new old
      = standIns w new old :=
    standIns_congr w _ f new old (fun oc hoc => hctx.ci.oldSame oc ((htab.oldOwn oc).mp hoc))
  have hdc : disconnectChans
      (seat { w with g := (copyPairs true w.g true (ioPairs w new old) []).1, val := f } new old) (w.io old).all
      = seat { w with g := (copyPairs true w.g true (ioPairs w new old) []).1, val := f } new old :=
    disconnectChans_noop _ _ (fun c hc => seat_old hctx c ((htab.oldOwn c).mp hc))
  rw [hdc] at hw'
  obtain ⟨f2, hf2⟩ := forgeSoft_shape cfg.fuel links
    { w with val := f, t := tAfter w.t p old new,
             g := seat { w with g := (copyPairs true w.g true (ioPairs w new old) []).1, val := f } new old,
             cached := updF (updF w.cached p false) new false }
  rw [hf2] at hw'
  subst hw'
  have hctx2 := seatCtx_of cfg.fuel w p old new f2 hinv htab hself hpo hpn hcn hadopt hflag
  refine ⟨?_, ?_, ?_, rfl, ⟨links, hl, rfl⟩, rfl, rfl, hctx2⟩
  · intro oc nc hm
    rw [← hst] at hm
    exact seat_own hctx oc nc hm
  · intro q hqo hqn
    rw [← hst]
    exact seat_neighbour hctx hinv q hqo hqn
  · intro c hc
    exact seat_old hctx c hc

theorem compReplace_inherits (fuel : Nat) (w : W) (p old new : Nat) (w' : W)
    (h : compReplace (Cfg.repaired fuel) w p old new = (w', .ok)) (hinv : Inv w.g)
    (htab : Tables w old new) (hself : NoSelfConn w.g old) :
    (∀ oc nc, (oc, nc) ∈ standIns w new old → w'.g.conns nc = w.g.conns oc) ∧
    (∀ q, w.g.owner q ≠ old → w.g.owner q ≠ new →
      w'.g.conns q = (w.g.conns q).map (subst (standIns w new old))) ∧
    (∀ c, w.g.owner c = old → w'.g.conns c = []) ∧
    w'.t = tAfter w.t p old new ∧
    (∃ links, linksOf w p old new = .ok links ∧ w'.recv = overwrite w.recv links) := by
  obtain ⟨a1, a2, a3, a4, a5, _⟩ :=
    compReplace_inherits' (Cfg.repaired fuel) rfl rfl rfl rfl w p old new w' h hinv htab hself
  exact ⟨a1, a2, a3, a4, a5⟩

/-! ## mutuality, typing and duplicate-freedom survive the seat (C12's invariant) -/

/-- the involution that swaps every connected channel of the replaced node with its stand-in -/
def swapCh (m : List (Nat × Nat)) (x : Nat) : Nat :=
  match m.lookup x with
  | some n => n
  | none =>
    match m.find? (fun e => e.2 == x) with
    | some e => e.1
    | none => x

theorem nodup_map_inj (τ : Nat → Nat) (hinj : ∀ a b, τ a = τ b → a = b) : ∀ (l : List Nat), l.Nodup → (l.map τ).Nodup := by
  intro l
  induction l with
  | nil => intro _; simp
  | cons a l ih =>
    intro h
    simp only [List.nodup_cons, List.map_cons, List.mem_map, not_exists, not_and] at h ⊢
    exact ⟨fun x hx e => h.1 (hinj x a e ▸ hx), ih h.2⟩

/-- conjugating a well-formed graph with a kind-preserving involution gives a well-formed graph -/
theorem inv_conj (g g' : G) (τ : Nat → Nat) (hinv : Inv g) (hτ : ∀ x, τ (τ x) = x)
    (hk : ∀ x, g.kind (τ x) = g.kind x) (hkind : g'.kind = g.kind)
    (hc : ∀ x, g'.conns x = (g.conns (τ x)).map τ) : Inv g' := by
  have hinj : ∀ a b, τ a = τ b → a = b := fun a b h => by rw [← hτ a, ← hτ b, h]
  have hmem : ∀ a b, b ∈ g'.conns a ↔ τ b ∈ g.conns (τ a) := by
    intro a b
    rw [hc a, List.mem_map]
    constructor
    · rintro ⟨z, hz, rfl⟩; rw [hτ]; exact hz
    · intro h; exact ⟨τ b, h, hτ b⟩
  refine ⟨?_, ?_, ?_⟩
  · intro a b
    rw [hmem a b, hmem b a]
    exact hinv.symm (τ a) (τ b)
  · intro a b hb
    have := hinv.typed (τ a) (τ b) ((hmem a b).mp hb)
    rw [hkind, ← hk a, ← hk b]; exact this
  · intro a
    rw [hc a]
    exact nodup_map_inj τ hinj _ (hinv.nodup (τ a))

/-- what is needed of the stand-in table beyond `SeatCtx`: one stand-in per replaced channel, of
the same kind -/
structure StandInsOk (g0 : G) (m : List (Nat × Nat)) : Prop where
  fn : ∀ e e', e ∈ m → e' ∈ m → e.1 = e'.1 → e.2 = e'.2
  kinds : ∀ e, e ∈ m → g0.kind e.1 = g0.kind e.2

theorem seat_inv {g0 : G} {w1 : W} {old new : Nat} (h : SeatCtx g0 w1 old new) (h0 : Inv g0)
    (hm : StandInsOk g0 (standIns w1 new old)) : Inv (seat w1 new old) := by
  -- the table read both ways
  have hkey : ∀ oc nc, (oc, nc) ∈ standIns w1 new old → (standIns w1 new old).lookup oc = some nc := by
    intro oc nc hmem
    cases hl : (standIns w1 new old).lookup oc with
    | none =>
      have := List.lookup_eq_none_iff.mp hl (oc, nc) hmem
      simp at this
    | some n =>
      have := hm.fn (oc, n) (oc, nc) (lookup_mem hl) hmem rfl
      simp only at this; rw [this]
  have hnokey : ∀ x, g0.owner x ≠ old → (standIns w1 new old).lookup x = none := by
    intro x hx
    cases hl : (standIns w1 new old).lookup x with
    | none => rfl
    | some n => exact absurd (h.own x n (lookup_mem hl)).1 hx
  have hval : ∀ oc nc, (oc, nc) ∈ standIns w1 new old →
      ∃ e, (standIns w1 new old).find? (fun e => e.2 == nc) = some e ∧ e.1 = oc := by
    intro oc nc hmem
    cases hf : (standIns w1 new old).find? (fun e => e.2 == nc) with
    | none =>
      have := List.find?_eq_none.mp hf (oc, nc) hmem
      simp at this
    | some e =>
      have he := List.mem_of_find?_eq_some hf
      have h2 := List.find?_some hf
      simp only [beq_iff_eq] at h2
      exact ⟨e, rfl, h.inj e (oc, nc) he hmem h2⟩
  have hnoval : ∀ x, g0.owner x ≠ new → (standIns w1 new old).find? (fun e => e.2 == x) = none := by
    intro x hx
    apply List.find?_eq_none.mpr
    intro e he hq
    simp only [beq_iff_eq] at hq
    have := (h.own e.1 e.2 he).2
    rw [hq] at this; exact hx this
  have hne := h.ne
  -- the swap on the three kinds of channels
  have τkey : ∀ oc nc, (oc, nc) ∈ standIns w1 new old → swapCh (standIns w1 new old) oc = nc := by
    intro oc nc hmem; simp [swapCh, hkey oc nc hmem]
  have τval : ∀ oc nc, (oc, nc) ∈ standIns w1 new old → swapCh (standIns w1 new old) nc = oc := by
    intro oc nc hmem
    obtain ⟨e, hf, he⟩ := hval oc nc hmem
    have : g0.owner nc ≠ old := by rw [(h.own oc nc hmem).2]; exact Ne.symm hne
    simp [swapCh, hnokey nc this, hf, he]
  have τfix : ∀ x, (∀ n, (x, n) ∉ standIns w1 new old) → (∀ o, (o, x) ∉ standIns w1 new old) →
      swapCh (standIns w1 new old) x = x := by
    intro x h1 h2
    have l1 : (standIns w1 new old).lookup x = none := by
      cases hl : (standIns w1 new old).lookup x with
      | none => rfl
      | some n => exact absurd (lookup_mem hl) (h1 n)
    have l2 : (standIns w1 new old).find? (fun e => e.2 == x) = none := by
      apply List.find?_eq_none.mpr
      intro e he hq
      simp only [beq_iff_eq] at hq
      exact h2 e.1 (by rw [← hq]; exact he)
    simp [swapCh, l1, l2]
  have τout : ∀ x, g0.owner x ≠ old → g0.owner x ≠ new → swapCh (standIns w1 new old) x = x := by
    intro x ho hn
    exact τfix x (fun n hmem => ho (h.own x n hmem).1) (fun o hmem => hn (h.own o x hmem).2)
  -- classification of a channel
  have hcases : ∀ x, (∃ nc, (x, nc) ∈ standIns w1 new old) ∨ (∃ oc, (oc, x) ∈ standIns w1 new old) ∨
      ((∀ n, (x, n) ∉ standIns w1 new old) ∧ (∀ o, (o, x) ∉ standIns w1 new old)) := by
    intro x
    by_cases h1 : ∃ nc, (x, nc) ∈ standIns w1 new old
    · exact .inl h1
    · by_cases h2 : ∃ oc, (oc, x) ∈ standIns w1 new old
      · exact .inr (.inl h2)
      · exact .inr (.inr ⟨fun n hm => h1 ⟨n, hm⟩, fun o hm => h2 ⟨o, hm⟩⟩)
  have hinvol : ∀ x, swapCh (standIns w1 new old) (swapCh (standIns w1 new old) x) = x := by
    intro x
    rcases hcases x with ⟨nc, hmem⟩ | ⟨oc, hmem⟩ | ⟨h1, h2⟩
    · rw [τkey x nc hmem, τval x nc hmem]
    · rw [τval oc x hmem, τkey oc x hmem]
    · rw [τfix x h1 h2, τfix x h1 h2]
  have hkindτ : ∀ x, g0.kind (swapCh (standIns w1 new old) x) = g0.kind x := by
    intro x
    rcases hcases x with ⟨nc, hmem⟩ | ⟨oc, hmem⟩ | ⟨h1, h2⟩
    · rw [τkey x nc hmem]; exact (hm.kinds _ hmem).symm
    · rw [τval oc x hmem]; exact hm.kinds _ hmem
    · rw [τfix x h1 h2]
  -- members of the former lists are outsiders, except for the replaced channels listed by outsiders
  have hlist_old : ∀ oc, g0.owner oc = old → ∀ z ∈ g0.conns oc, g0.owner z ≠ old ∧ g0.owner z ≠ new := by
    intro oc ho z hz
    refine ⟨h.self oc ho z hz, ?_⟩
    intro hzn
    have := (h0.symm oc z).mp hz
    rw [h.fresh z hzn] at this; cases this
  apply inv_conj g0 (seat w1 new old) (swapCh (standIns w1 new old)) h0 hinvol hkindτ
  · show w1.g.kind = g0.kind
    exact h.ci.static.kind
  · intro x
    rcases hcases x with ⟨nc, hmem⟩ | ⟨oc, hmem⟩ | ⟨h1, h2⟩
    · -- a connected channel of the replaced node
      have ho := (h.own x nc hmem).1
      rw [seat_old h x ho, τkey x nc hmem, h.fresh nc (h.own x nc hmem).2]
      rfl
    · -- a stand-in
      have ho := (h.own oc x hmem).1
      rw [seat_own h oc x hmem, τval oc x hmem]
      symm
      conv => rhs; rw [← List.map_id (g0.conns oc)]
      apply List.map_congr_left
      intro z hz
      obtain ⟨a, b⟩ := hlist_old oc ho z hz
      exact τout z a b
    · rw [τfix x h1 h2]
      by_cases hxo : g0.owner x = old
      · -- an unconnected channel of the replaced node
        rw [seat_old h x hxo]
        cases hcs : g0.conns x with
        | nil => rfl
        | cons a l =>
          exfalso
          obtain ⟨nc, hmem⟩ := h.complete x hxo (by rw [hcs]; simp)
          exact h1 nc hmem
      · by_cases hxn : g0.owner x = new
        · rw [seat_unseated h h0 x hxn h2, h.fresh x hxn]; rfl
        · rw [seat_neighbour h h0 x hxo hxn]
          apply List.map_congr_left
          intro z hz
          by_cases hzk : ∃ n, (z, n) ∈ standIns w1 new old
          · obtain ⟨n, hmem⟩ := hzk
            rw [τkey z n hmem]
            simp [subst, hkey z n hmem]
          · have hzn : g0.owner z ≠ new := by
              intro e
              have := (h0.symm x z).mp hz
              rw [h.fresh z e] at this; cases this
            have l1 : (standIns w1 new old).lookup z = none := by
              cases hl : (standIns w1 new old).lookup z with
              | none => rfl
              | some n => exact absurd ⟨n, lookup_mem hl⟩ hzk
            rw [τfix z (fun n hm => hzk ⟨n, hm⟩) (fun o hm => hzn (h.own o z hm).2)]
            simp [subst, l1]

/-! ## the dry run of the workflow IO is sound -/

theorem tAfter_children (t : Tree.Tree) (p old new : Nat) (hne : old ≠ new) :
    (tAfter t p old new).children p = Tree.popVal (t.children p) old ++ [(t.label old, new)] := by
  have hne' : new ≠ old := Ne.symm hne
  unfold tAfter
  split <;> simp [adopt, swapLabels, Tree.removeCore0, updF, hne']

theorem buildFrom_conn_congr (m : WfIO.KeyMap) (c c' : Nat → Bool) :
    ∀ (chans : WfIO.Chans) (io : WfIO.Panel), (∀ ch ∈ chans, c ch.2 = c' ch.2) →
      WfIO.buildFrom m c io chans = WfIO.buildFrom m c' io chans := by
  intro chans
  induction chans with
  | nil => intro io _; rfl
  | cons ch rest ih =>
    intro io h
    unfold WfIO.buildFrom
    have hs : WfIO.stepKey m c ch = WfIO.stepKey m c' ch := by
      unfold WfIO.stepKey
      rw [h ch (List.mem_cons_self ..)]
    rw [hs]
    have hr := fun io' => ih io' (fun x hx => h x (List.mem_cons_of_mem _ hx))
    split
    · exact hr io
    · split
      · rfl
      · exact hr _

theorem buildIO_conn_congr (m : Option WfIO.KeyMap) (c c' : Nat → Bool) (chans : WfIO.Chans)
    (h : ∀ ch ∈ chans, c ch.2 = c' ch.2) : WfIO.buildIO m c chans = WfIO.buildIO m c' chans := by
  unfold WfIO.buildIO
  exact buildFrom_conn_congr _ c c' chans [] h

/-- the channel tables of the other children of `p` belong to them (and so neither to the
replaced node nor to the replacement) -/
def SiblingsApart (w : W) (p old new : Nat) : Prop :=
  ∀ e ∈ Tree.popVal (w.t.children p) old, ∀ c, c ∈ (w.io e.2).inp ∨ c ∈ (w.io e.2).out →
    w.g.owner c ≠ old ∧ w.g.owner c ≠ new

theorem mem_dryChans (w : W) (p old new : Nat) (side : NodeIO → List Nat) (ch : String × Nat)
    (h : ch ∈ dryChans w p old new side) :
    (∃ e ∈ Tree.popVal (w.t.children p) old, ch.2 ∈ side (w.io e.2)) ∨ ch.2 ∈ side (w.io new) := by
  unfold dryChans at h
  rcases List.mem_append.mp h with h | h
  · left
    obtain ⟨e, he, hm⟩ := List.mem_flatMap.mp h
    obtain ⟨c, hc, rfl⟩ := List.mem_map.mp hm
    exact ⟨e, he, hc⟩
  · right
    obtain ⟨c, hc, rfl⟩ := List.mem_map.mp h
    exact hc

/-- after a successful replacement the connectedness the dry run assumed is the real one -/
theorem dryConn_sound (cfg : Cfg) (ho : cfg.onlyNewUndo = true) (ha : cfg.adoptPrecheck = true)
    (hlp : cfg.linkPrecheck = true) (hpos : cfg.positional = true) (w : W) (p old new : Nat) (w' : W)
    (h : compReplace cfg w p old new = (w', .ok)) (hinv : Inv w.g) (htab : Tables w old new)
    (hself : NoSelfConn w.g old) (hsib : SiblingsApart w p old new)
    (side : NodeIO → List Nat) (hside : ∀ n c, c ∈ side (w.io n) → c ∈ (w.io n).inp ∨ c ∈ (w.io n).out)
    (ch : String × Nat) (hch : ch ∈ dryChans w p old new side) :
    (!(w'.g.conns ch.2).isEmpty) = dryConn w old new ch.2 := by
  obtain ⟨h1, h2, _, _, _, _, hg, hctx⟩ :=
    compReplace_inherits' cfg ho ha hlp hpos w p old new w' h hinv htab hself
  have hst : standIns { w with g := (copyPairs true w.g true (ioPairs w new old) []).1, val := w'.val } new old
      = standIns w new old :=
    standIns_congr w _ _ new old (fun oc hoc => hctx.ci.oldSame oc ((htab.oldOwn oc).mp hoc))
  unfold dryConn
  rcases mem_dryChans w p old new side ch hch with ⟨e, he, hc⟩ | hc
  · obtain ⟨hno, hnn⟩ := hsib e he ch.2 (hside e.2 ch.2 hc)
    rw [if_neg hnn, h2 ch.2 hno hnn]
    simp
  · have hown : w.g.owner ch.2 = new := (htab.newOwn ch.2).mp (by
      rcases hside new ch.2 hc with h | h <;> simp [NodeIO.all, h])
    rw [if_pos hown]
    by_cases hs : ∃ oc, (oc, ch.2) ∈ standIns w new old
    · obtain ⟨oc, hm⟩ := hs
      rw [h1 oc ch.2 hm]
      have hne := (mem_standIns w new old oc ch.2 hm).2
      have : (standIns w new old).any (fun e => e.2 == ch.2) = true :=
        List.any_eq_true.mpr ⟨(oc, ch.2), hm, by simp⟩
      rw [this]
      cases hco : w.g.conns oc with
      | nil => exact absurd hco hne
      | cons a l => rfl
    · have hns : ∀ oc, (oc, ch.2) ∉ standIns w new old := fun oc hm => hs ⟨oc, hm⟩
      have : (standIns w new old).any (fun e => e.2 == ch.2) = false := by
        apply List.any_eq_false.mpr
        intro e he hq
        simp only [beq_iff_eq] at hq
        exact hns e.1 (by rw [← hq]; exact he)
      rw [this, hg, seat_unseated hctx hinv ch.2 hown (by rw [hst]; exact hns)]
      rfl

/-- … hence the IO of the workflow can be built after every replacement the dry run let pass -/
theorem wf_rebuild_ok (cfg : Cfg) (ho : cfg.onlyNewUndo = true) (ha : cfg.adoptPrecheck = true)
    (hlp : cfg.linkPrecheck = true) (hpos : cfg.positional = true) (hdry : cfg.wfDryRun = true)
    (w : W) (p old new : Nat) (w' : W) (hk : w.t.kind p = .workflow)
    (h : compReplace cfg w p old new = (w', .ok)) (hinv : Inv w.g) (htab : Tables w old new)
    (hself : NoSelfConn w.g old) (hsib : SiblingsApart w p old new) : wfIoOk w' p = true := by
  obtain ⟨hpo, hpn, _, _, hdr, links, f, _, _, _, hw'⟩ := compReplace_ok_shape' cfg ho ha hlp hpos w p old new w' h
  have hne : old ≠ new := by intro e; rw [e, hpn] at hpo; cases hpo
  have hdok : dryOk w p old new = true := by
    simp only [dryRefuses, hdry, hk, decide_true, Bool.true_and, Bool.not_eq_false'] at hdr
    simpa using hdr
  obtain ⟨f2, hf2⟩ := forgeSoft_shape cfg.fuel links
    { w with val := f, t := tAfter w.t p old new,
             g := disconnectChans
               (seat { w with g := (copyPairs true w.g true (ioPairs w new old) []).1, val := f } new old)
               (w.io old).all,
             cached := updF (updF w.cached p false) new false }
  have hchans : ∀ side, wfChans w' p side = dryChans w p old new side := by
    intro side
    rw [hw', hf2]
    unfold wfChans dryChans
    show List.flatMap _ ((tAfter w.t p old new).children p) = _
    rw [tAfter_children w.t p old new hne, List.flatMap_append]
    simp
  have hmaps : w'.imap = w.imap ∧ w'.omap = w.omap := by rw [hw', hf2]; exact ⟨rfl, rfl⟩
  unfold wfIoOk
  unfold dryOk at hdok
  simp only [Bool.and_eq_true] at hdok ⊢
  rw [hchans, hchans, hmaps.1, hmaps.2]
  refine ⟨?_, ?_⟩
  · rw [buildIO_conn_congr (w.imap p) _ (dryConn w old new) _
      (fun ch hch => dryConn_sound cfg ho ha hlp hpos w p old new w' h hinv htab hself hsib NodeIO.inp
        (fun _ _ hc => .inl hc) ch hch)]
    exact hdok.1
  · rw [buildIO_conn_congr (w.omap p) _ (dryConn w old new) _
      (fun ch hch => dryConn_sound cfg ho ha hlp hpos w p old new w' h hinv htab hself hsib NodeIO.out
        (fun _ _ hc => .inr hc) ch hch)]
    exact hdok.2

/-- the dry run is exact, for every assignment of labels and maps: the verdict computed before the
swap is the buildability of the IO view after it -/
theorem wfIoOk_eq_dryOk (cfg : Cfg) (ho : cfg.onlyNewUndo = true) (ha : cfg.adoptPrecheck = true)
    (hlp : cfg.linkPrecheck = true) (hpos : cfg.positional = true)
    (w : W) (p old new : Nat) (w' : W)
    (h : compReplace cfg w p old new = (w', .ok)) (hinv : Inv w.g) (htab : Tables w old new)
    (hself : NoSelfConn w.g old) (hsib : SiblingsApart w p old new) : wfIoOk w' p = dryOk w p old new := by
  obtain ⟨hpo, hpn, _, _, _, links, f, _, _, _, hw'⟩ := compReplace_ok_shape' cfg ho ha hlp hpos w p old new w' h
  have hne : old ≠ new := by intro e; rw [e, hpn] at hpo; cases hpo
  obtain ⟨f2, hf2⟩ := forgeSoft_shape cfg.fuel links
    { w with val := f, t := tAfter w.t p old new,
             g := disconnectChans
               (seat { w with g := (copyPairs true w.g true (ioPairs w new old) []).1, val := f } new old)
               (w.io old).all,
             cached := updF (updF w.cached p false) new false }
  have hchans : ∀ side, wfChans w' p side = dryChans w p old new side := by
    intro side
    rw [hw', hf2]
    unfold wfChans dryChans
    show List.flatMap _ ((tAfter w.t p old new).children p) = _
    rw [tAfter_children w.t p old new hne, List.flatMap_append]
    simp
  have hmaps : w'.imap = w.imap ∧ w'.omap = w.omap := by rw [hw', hf2]; exact ⟨rfl, rfl⟩
  unfold wfIoOk dryOk
  rw [hchans, hchans, hmaps.1, hmaps.2]
  rw [buildIO_conn_congr (w.imap p) _ (dryConn w old new) _
      (fun ch hch => dryConn_sound cfg ho ha hlp hpos w p old new w' h hinv htab hself hsib NodeIO.inp
        (fun _ _ hc => .inl hc) ch hch),
    buildIO_conn_congr (w.omap p) _ (dryConn w old new) _
      (fun ch hch => dryConn_sound cfg ho ha hlp hpos w p old new w' h hinv htab hself hsib NodeIO.out
        (fun _ _ hc => .inr hc) ch hch)]

/-- `Workflow.replace_child` with every repair in place: all-or-nothing; the revert branch is dead -/
theorem replace_atomic_full (cfg : Cfg) (ho : cfg.onlyNewUndo = true) (ha : cfg.adoptPrecheck = true)
    (hlp : cfg.linkPrecheck = true) (hpos : cfg.positional = true) (hdry : cfg.wfDryRun = true)
    (w : W) (p old new : Nat) (hinv : Inv w.g)
    (hwf : w.t.kind p = .workflow → Tables w old new ∧ NoSelfConn w.g old ∧ SiblingsApart w p old new)
    (herr : (replace cfg w p old new).2 ≠ .ok) : (replace cfg w p old new).1 = w := by
  unfold replace at herr ⊢
  split
  · rename_i hk
    rw [if_pos hk] at herr
    obtain ⟨htab, hself, hsib⟩ := hwf hk
    have hat := compReplace_atomic' cfg ho ha hlp w p old new hinv
    have hio := fun w1 h => wf_rebuild_ok cfg ho ha hlp hpos hdry w p old new w1 hk h hinv htab hself hsib
    generalize compReplace cfg w p old new = r at herr hat hio ⊢
    obtain ⟨w1, e⟩ := r
    cases e with
    | ok =>
      have := hio w1 rfl
      simp only [this, if_true] at herr
      exact absurd rfl herr
    | _ => exact hat (by simp)
  · rename_i hk
    rw [if_neg hk] at herr
    exact compReplace_atomic' cfg ho ha hlp w p old new hinv herr

/-! ## `Channel.copy_connections` -/

theorem disconnect_logged {g0 g : G} {a : Nat} {done : List Nat} (hs : SameStatic g0 g)
    (hl : Logged g0 g (done.map fun b => (a, b))) (h : Inv g) : disconnect g a done = g0 := by
  apply G.eq_of_static (hs.trans (disconnect_static g a done))
  intro x
  rw [disconnect_conns g a done h x, hl x]

theorem copyChanAux_atomic (g0 : G) (a : Nat) : ∀ (cs : List Nat) (g : G) (done : List Nat),
    Inv g → SameStatic g0 g → Logged g0 g (done.map fun b => (a, b)) →
    (copyChanAux true g a cs done).2 ≠ .ok → (copyChanAux true g a cs done).1 = g0 := by
  intro cs
  induction cs with
  | nil => intro g done _ _ _ h; exact absurd rfl h
  | cons c cs ih =>
    intro g done hi hs hl herr
    unfold copyChanAux at herr ⊢
    dsimp only at herr ⊢
    rcases connect1_cases g a c with ⟨hin, he⟩ | ⟨hnin, hc, he⟩ | ⟨hg, hne⟩
    · rw [he] at herr ⊢
      dsimp only at herr ⊢
      simp only [hin, decide_true, Bool.and_self, if_true] at herr ⊢
      exact ih g done hi hs hl herr
    · rw [he] at herr ⊢
      dsimp only at herr ⊢
      simp only [hnin, decide_false, Bool.and_false, Bool.false_eq_true, if_false] at herr ⊢
      have hi' := connect1_inv g a c hi
      have hst := connect1_static g a c
      rw [he] at hi' hst
      refine ih _ _ hi' (hs.trans hst) ?_ herr
      rw [List.map_append]
      exact hl.step hi hnin hc
    · generalize hr : connect1 g a c = r at hg hne herr ⊢
      obtain ⟨g', res⟩ := r
      simp only at hg hne
      subst hg
      cases res with
      | ok => exact absurd rfl hne
      | typeErr => exact disconnect_logged hs hl hi
      | connErr => exact disconnect_logged hs hl hi

theorem copyChan_atomic (cfg : Cfg) (honly : cfg.onlyNewUndo = true) (w : W) (a b : Nat) (hinv : Inv w.g)
    (herr : (copyChan cfg w a b).2 ≠ .ok) : (copyChan cfg w a b).1 = w := by
  unfold copyChan at herr ⊢
  rw [honly] at herr ⊢
  have := copyChanAux_atomic w.g a (w.g.conns b) w.g [] hinv (.refl _) (by simpa using Logged.refl w.g)
  generalize copyChanAux true w.g a (w.g.conns b) [] = r at herr this ⊢
  obtain ⟨g', res⟩ := r
  cases res with
  | ok => exact absurd rfl herr
  | typeErr =>
    have h2 : g' = w.g := this (by simp)
    dsimp only; rw [h2]
  | connErr =>
    have h2 : g' = w.g := this (by simp)
    dsimp only; rw [h2]

/-! ## `copy_io` in every variant: nothing but the values can differ after a failure -/

/-- whatever the variant and the flags: if the log of the connection loop only holds
connections that were not there before (as it always does with the repaired log), a failed
`copy_io` restores everything except possibly values of the receiving object -/
theorem copyIo_failed_valOnly (cfg : Cfg) (w : W) (me other : Nat) (ch vh : Bool) (hinv : Inv w.g)
    (hlog : copyPairs cfg.onlyNewUndo w.g ch (ioPairs w me other) [] = copyPairs true w.g ch (ioPairs w me other) [])
    (herr : (copyIo cfg w me other ch vh).2 ≠ .ok) : ValOnly w (copyIo cfg w me other ch vh).1 := by
  unfold copyIo at herr ⊢
  rw [hlog] at herr ⊢
  have hl := copyPairs_logged w.g ch (ioPairs w me other) hinv
  generalize copyPairs true w.g ch (ioPairs w me other) [] = r at herr hl ⊢
  obtain ⟨g', log, fl⟩ := r
  cases fl with
  | true =>
    dsimp only at hl ⊢
    rw [undo_logged hl.2.1 hl.2.2 hl.1]
    exact .refl w
  | false =>
    dsimp only at herr hl ⊢
    have hv := copyValues_valOnly cfg { w with g := g' } me other vh
    generalize copyValues cfg { w with g := g' } me other vh = rv at herr hv ⊢
    obtain ⟨w2, okv⟩ := rv
    cases okv with
    | true => exact absurd rfl herr
    | false =>
      dsimp only at hv ⊢
      obtain ⟨f, hf⟩ := hv
      subst hf
      dsimp only
      rw [undo_logged hl.2.1 hl.2.2 hl.1]
      exact ⟨f, rfl⟩

theorem copyIo_atomic_soft' (cfg : Cfg) (w : W) (me other : Nat) (ch : Bool) (hinv : Inv w.g)
    (hlog : copyPairs cfg.onlyNewUndo w.g ch (ioPairs w me other) [] = copyPairs true w.g ch (ioPairs w me other) [])
    (herr : (copyIo cfg w me other ch false).2 ≠ .ok) : (copyIo cfg w me other ch false).1 = w := by
  unfold copyIo at herr ⊢
  rw [hlog] at herr ⊢
  have hl := copyPairs_logged w.g ch (ioPairs w me other) hinv
  generalize copyPairs true w.g ch (ioPairs w me other) [] = r at herr hl ⊢
  obtain ⟨g', log, fl⟩ := r
  cases fl with
  | true =>
    dsimp only at hl ⊢
    rw [undo_logged hl.2.1 hl.2.2 hl.1]
  | false =>
    exfalso
    dsimp only at herr
    have hs := copyValues_soft cfg { w with g := g' } me other
    generalize copyValues cfg { w with g := g' } me other false = rv at herr hs
    obtain ⟨w2, okv⟩ := rv
    simp only at hs; subst hs
    exact herr rfl

/-! ## `Workflow.replace_child` -/

/-- with all repairs in place a workflow-level replacement is all-or-nothing as long as the IO
of the workflow can still be built afterwards (no renaming-map collision brought in by the
replacement: known finding D7) -/
theorem replace_atomic (fuel : Nat) (w : W) (p old new : Nat) (hinv : Inv w.g)
    (hio : ∀ w1, compReplace (Cfg.repaired fuel) w p old new = (w1, .ok) → w.t.kind p = .workflow → wfIoOk w1 p = true)
    (herr : (replace (Cfg.repaired fuel) w p old new).2 ≠ .ok) :
    (replace (Cfg.repaired fuel) w p old new).1 = w := by
  unfold replace at herr ⊢
  split
  · rename_i hk
    rw [if_pos hk] at herr
    have hat := compReplace_atomic fuel w p old new hinv
    generalize hr : compReplace (Cfg.repaired fuel) w p old new = r at herr hat hio ⊢
    obtain ⟨w1, e⟩ := r
    cases e with
    | ok =>
      have := hio w1 rfl hk
      simp only [this, if_true] at herr
      exact absurd rfl herr
    | _ => exact hat (by simp)
  · rename_i hk
    rw [if_neg hk] at herr
    exact compReplace_atomic fuel w p old new hinv herr

/-! ## partial statements for the tree as it is -/

/-- the copy never meets a pair that is connected already (then the pinned log is faithful) -/
def freshTargets (g : G) (my : Option Nat) (hard : Bool) : List Nat → Bool
  | [] => true
  | t :: ts =>
    match my with
    | none => if hard then true else freshTargets g my hard ts
    | some m =>
      if t ∈ g.conns m then false
      else
        match connect1 g m t with
        | (g', .ok) => freshTargets g' my hard ts
        | (g', _) => if hard then true else freshTargets g' my hard ts

def freshPairs (g : G) (hard : Bool) : List (Option Nat × Nat) → Bool
  | [] => true
  | (my, oc) :: ps =>
    freshTargets g my hard (g.conns oc) &&
      (match copyTargets true g my hard (g.conns oc) [] with
       | (_, _, true) => true
       | (g', _, false) => freshPairs g' hard ps)

theorem copyTargets_fresh (my : Option Nat) (hard : Bool) : ∀ (ts : List Nat) (g : G) (log : List (Nat × Nat)),
    freshTargets g my hard ts = true →
    copyTargets false g my hard ts log = copyTargets true g my hard ts log := by
  intro ts
  induction ts with
  | nil => intro g log _; rfl
  | cons t ts ih =>
    intro g log h
    unfold freshTargets at h
    unfold copyTargets
    cases my with
    | none =>
      dsimp only at h ⊢
      split
      · rfl
      · rename_i hh; rw [if_neg hh] at h; exact ih g log h
    | some m =>
      dsimp only at h ⊢
      by_cases hin : t ∈ g.conns m
      · rw [if_pos hin] at h; cases h
      · rw [if_neg hin] at h
        simp only [hin, decide_false, Bool.and_false, Bool.false_eq_true, if_false]
        generalize connect1 g m t = r at h ⊢
        obtain ⟨g', res⟩ := r
        cases res with
        | ok => exact ih g' _ h
        | typeErr =>
          dsimp only at h ⊢
          split
          · rfl
          · rename_i hh; rw [if_neg hh] at h; exact ih g' log h
        | connErr =>
          dsimp only at h ⊢
          split
          · rfl
          · rename_i hh; rw [if_neg hh] at h; exact ih g' log h

/-- the graph and the flag of the copy loop do not depend on the log -/
theorem copyTargets_log_irrelevant (onlyNew : Bool) (my : Option Nat) (hard : Bool) :
    ∀ (ts : List Nat) (g : G) (log log' : List (Nat × Nat)),
      (copyTargets onlyNew g my hard ts log).1 = (copyTargets onlyNew g my hard ts log').1 ∧
      (copyTargets onlyNew g my hard ts log).2.2 = (copyTargets onlyNew g my hard ts log').2.2 := by
  intro ts
  induction ts with
  | nil => intro g log log'; exact ⟨rfl, rfl⟩
  | cons t ts ih =>
    intro g log log'
    unfold copyTargets
    cases my with
    | none =>
      dsimp only
      split
      · exact ⟨rfl, rfl⟩
      · exact ih g log log'
    | some m =>
      dsimp only
      generalize connect1 g m t = r
      obtain ⟨g', res⟩ := r
      cases res with
      | ok => exact ih g' _ _
      | typeErr => dsimp only; split
                   · exact ⟨rfl, rfl⟩
                   · exact ih g' log log'
      | connErr => dsimp only; split
                   · exact ⟨rfl, rfl⟩
                   · exact ih g' log log'

theorem copyPairs_fresh (hard : Bool) : ∀ (ps : List (Option Nat × Nat)) (g : G) (log : List (Nat × Nat)),
    freshPairs g hard ps = true → copyPairs false g hard ps log = copyPairs true g hard ps log := by
  intro ps
  induction ps with
  | nil => intro g log _; rfl
  | cons q qs ih =>
    intro g log h
    obtain ⟨my, oc⟩ := q
    unfold freshPairs at h
    simp only [Bool.and_eq_true] at h
    unfold copyPairs
    rw [copyTargets_fresh my hard (g.conns oc) g log h.1]
    have hirr := copyTargets_log_irrelevant true my hard (g.conns oc) g log []
    generalize copyTargets true g my hard (g.conns oc) log = r at hirr ⊢
    obtain ⟨g', log', fl⟩ := r
    have h2 := h.2
    generalize copyTargets true g my hard (g.conns oc) [] = r0 at hirr h2
    obtain ⟨g0, log0, fl0⟩ := r0
    simp only at hirr
    obtain ⟨rfl, rfl⟩ := hirr
    cases fl with
    | true => rfl
    | false => exact ih g' log' h2

/-- linksOf of a composite that is not a workflow only reads the tables and the links -/
theorem linksOf_congr (w w2 : W) (p old new : Nat) (hk : w.t.kind p ≠ .workflow) (ht : w2.t = w.t)
    (hr : w2.recv = w.recv) (hio : w2.io = w.io) (hc : w2.clab = w.clab) :
    linksOf w2 p old new = linksOf w p old new := by
  have hlin : ∀ ss, linksIn w2 old new ss = linksIn w old new ss := by
    intro ss
    induction ss with
    | nil => rfl
    | cons s ss ih => unfold linksIn; simp only [hr, hio, hc, findLab, ih]
  have hlout : ∀ cs, linksOut w2 p new cs = linksOut w p new cs := by
    intro cs
    induction cs with
    | nil => rfl
    | cons c cs ih => unfold linksOut; simp only [hr, hio, hc, findLab, ih]
  unfold linksOf
  rw [ht, if_neg hk, if_neg hk, hlin, hlout, hio]

theorem forge_ok_shape (fuel : Nat) : ∀ (links : List (Nat × Nat)) (w w' : W),
    forge fuel w links = (w', .ok) → ∃ f, w' = { w with val := f, recv := overwrite w.recv links } := by
  intro links
  induction links with
  | nil =>
    intro w w' h
    simp only [forge, Prod.mk.injEq, and_true] at h
    exact ⟨w.val, by rw [← h]; rfl⟩
  | cons l ls ih =>
    intro w w' h
    obtain ⟨s, r⟩ := l
    unfold forge at h
    split at h
    · simp at h
    · cases hs : setValF w fuel r (w.val s) with
      | none => simp [hs] at h
      | some w2 =>
        simp only [hs] at h
        obtain ⟨f2, hf2⟩ := setValF_val w fuel r _ w2 hs
        subst hf2
        obtain ⟨f, hf⟩ := ih _ w' h
        exact ⟨f, by rw [hf]; rfl⟩

theorem copyPairs_inv (onlyNew hard : Bool) (ps : List (Option Nat × Nat)) (g : G) (h : Inv g) :
    Inv (copyPairs onlyNew g hard ps []).1 := by
  have := copyPairs_ind (fun g _ => Inv g) onlyNew hard ps
    (fun g log my oc _ hP =>
      copyTargets_ind (fun g _ => Inv g) onlyNew my hard (g.conns oc)
        (fun g log m t _ _ _ hP => hP)
        (fun g log m t _ _ _ _ he hP => by
          have hi := connect1_inv g m t hP
          rw [he] at hi; exact hi)
        (g.conns oc) (fun _ h => h) g log hP)
    ps (fun _ h => h) g [] h
  exact this

theorem cutAll_noop : ∀ (cs : List Nat) (g : G), (∀ c ∈ cs, g.conns c = []) → cutAll g cs = (g, []) := by
  intro cs
  induction cs with
  | nil => intro g _; rfl
  | cons c cs ih =>
    intro g h
    unfold cutAll
    have hc := h c (List.mem_cons_self ..)
    have : disconnectAll g c = g := by simp [disconnectAll, hc, disconnect]
    rw [this, ih g (fun c' hc' => h c' (List.mem_cons_of_mem _ hc')), hc]
    rfl

/-- the composite-level replacement in a tree that has the ownership pre-check but not the link
pre-check (`Cfg.current`): all-or-nothing when the composite holds no value link to the replaced
node and the copy log is faithful -/
theorem dryRefuses_nonwf (cfg : Cfg) (w : W) (p old new : Nat) (hk : w.t.kind p ≠ .workflow) :
    dryRefuses cfg w p old new = false := by
  simp [dryRefuses, hk]

theorem compReplace_atomic_partial (cfg : Cfg) (hap : cfg.adoptPrecheck = true) (hlp : cfg.linkPrecheck = false)
    (w : W) (p old new : Nat) (hinv : Inv w.g) (hk : w.t.kind p ≠ .workflow)
    (hlinks : linksOf w p old new = .ok [])
    (hfresh : freshPairs w.g true (ioPairs w new old) = true)
    (herr : (compReplace cfg w p old new).2 ≠ .ok) : (compReplace cfg w p old new).1 = w := by
  unfold compReplace at herr ⊢
  by_cases h1 : w.t.parent old ≠ some p
  · rw [if_pos h1]
  · rw [if_neg h1] at herr ⊢
    by_cases h2 : w.t.parent new ≠ none
    · rw [if_pos h2]
    · rw [if_neg h2] at herr ⊢
      by_cases h3 : nodeConnected w new = true
      · rw [if_pos h3]
      · rw [if_neg h3] at herr ⊢
        simp only [hap, hlp, if_true, Bool.false_eq_true, if_false] at herr ⊢
        cases hpre : adoptPre cfg.fuel w.t p new with
        | ok =>
          simp only [hpre, dryRefuses_nonwf cfg w p old new hk, Bool.false_eq_true, if_false] at herr ⊢
          have hlog : copyPairs cfg.onlyNewUndo w.g true (ioPairs w new old) []
              = copyPairs true w.g true (ioPairs w new old) [] := by
            cases cfg.onlyNewUndo with
            | true => rfl
            | false => exact copyPairs_fresh true _ w.g [] hfresh
          have hat := copyIo_atomic_soft' cfg w new old true hinv hlog
          have hsh := copyIo_ok_shape cfg w new old true false
          generalize copyIo cfg w new old true false = r at herr hat hsh ⊢
          obtain ⟨w1, e⟩ := r
          cases e with
          | ok =>
            exfalso
            obtain ⟨f, hf⟩ := hsh w1 rfl
            apply herr
            dsimp only
            have hl2 : linksOf (seated cfg w1 new old) p old new = .ok [] := by
              rw [← hlinks]
              apply linksOf_congr w _ p old new hk
              · rw [seated_t, hf]
              · unfold seated; split <;> rw [hf]
              · unfold seated; split <;> rw [hf]
              · unfold seated; split <;> rw [hf]
            rw [hl2]
            dsimp only
            unfold commit
            have hok : adoptRefusal cfg.fuel
                (swapLabels (Tree.removeCore0 (seated cfg w1 new old).t p old) new old) p new = .ok := by
              rw [seated_t]
              have : w1.t = w.t := by rw [hf]
              rw [this]
              exact adoptRefusal_after_removal cfg.fuel w.t p old new ((adoptPre_ok_iff _ _ _ _).mp hpre)
            simp only [hok, hlp, Bool.false_eq_true, if_false, forge]
          | _ => exact hat (by simp)
        | _ => rfl

/-- flow derivation in every variant: when the children carry no run wiring yet, a graph that
cannot be ordered leaves everything as it was -/
theorem dag_atomic_partial (cfg : Cfg) (w : W) (p : Nat) (up : Nat → List Nat) (start : List Nat)
    (hnw : ∀ c ∈ cutChans w (Tree.vals (w.t.children p)), w.g.conns c = [])
    (herr : (dag cfg w p up start).2 ≠ .ok) (hnc : (dag cfg w p up start).2 ≠ .connErr) :
    (dag cfg w p up start).1 = w := by
  unfold dag at herr hnc ⊢
  dsimp only at herr hnc ⊢
  rw [cutAll_noop _ _ hnw] at herr hnc ⊢
  have hrec : ∀ e, dagRecover cfg w (cutChans w (Tree.vals (w.t.children p))) w.g [] e = (w, e) := by
    intro e
    unfold dagRecover
    split
    · rw [restoreLists_eq w.g w.g _ (.refl _) (fun _ _ => rfl)]
    · simp [reconnect]
  split
  · rfl
  · rename_i hne
    rw [if_neg hne] at herr hnc
    cases hd : digraphErr w (Tree.vals (w.t.children p)) (Tree.vals (w.t.children p)) with
    | some e => simp only [hrec]
    | none =>
      simp only [hd] at herr hnc ⊢
      split
      · simp only [hrec]
      · rename_i hpeel
        rw [if_neg hpeel] at herr hnc
        split
        · rfl
        · rename_i hup
          rw [if_neg hup] at herr hnc
          generalize wire w up w.g (Tree.vals (w.t.children p)) = r at herr hnc ⊢
          obtain ⟨g2, res⟩ := r
          cases res with
          | ok =>
            dsimp only at herr ⊢
            split
            · rename_i hs; rw [if_pos hs] at herr; exact absurd rfl herr
            · rfl
          | typeErr =>
            exfalso
            apply hnc
            simp only [dagRecover]
            split
            · rfl
            · split <;> rfl
          | connErr =>
            exfalso
            apply hnc
            simp only [dagRecover]
            split
            · rfl
            · split <;> rfl

/-- the shape of a successful replacement in a tree without the link pre-check and without the
seat (pinned / current) -/
theorem compReplace_ok_shape_plain (cfg : Cfg) (hlp : cfg.linkPrecheck = false) (hpos : cfg.positional = false)
    (w : W) (p old new : Nat) (w' : W) (h : compReplace cfg w p old new = (w', .ok)) :
    w.t.parent old = some p ∧ w.t.parent new = none ∧
    ∃ links f,
      linksOf { w with g := (copyPairs cfg.onlyNewUndo w.g true (ioPairs w new old) []).1, val := f } p old new
        = .ok links ∧
      w'.t = tAfter w.t p old new ∧
      w'.g = disconnectChans (copyPairs cfg.onlyNewUndo w.g true (ioPairs w new old) []).1 (w.io old).all ∧
      w'.recv = overwrite w.recv links := by
  unfold compReplace at h
  by_cases h1 : w.t.parent old ≠ some p
  · rw [if_pos h1] at h; simp at h
  · rw [if_neg h1] at h
    by_cases h2 : w.t.parent new ≠ none
    · rw [if_pos h2] at h; simp at h
    · rw [if_neg h2] at h
      by_cases h3 : nodeConnected w new = true
      · rw [if_pos h3] at h; simp at h
      · rw [if_neg h3] at h
        simp only [hlp, Bool.false_eq_true, if_false] at h
        generalize hpre : (if cfg.adoptPrecheck = true then adoptPre cfg.fuel w.t p new else Err.ok) = pre at h
        cases pre with
        | ok =>
          dsimp only at h
          by_cases h5 : dryRefuses cfg w p old new = true
          · rw [if_pos h5] at h; simp at h
          rw [if_neg h5] at h
          have hsh := copyIo_ok_shape cfg w new old true false
          generalize copyIo cfg w new old true false = r at h hsh
          obtain ⟨w1, e⟩ := r
          cases e with
          | ok =>
            obtain ⟨f, hf⟩ := hsh w1 rfl
            dsimp only at h
            have hseat : seated cfg w1 new old = w1 := by simp [seated, hpos]
            rw [hseat] at h
            cases hl : linksOf w1 p old new with
            | error e =>
              exfalso
              simp only [hl, Prod.mk.injEq] at h
              exact linksOf_error_ne_ok w1 p old new e hl h.2
            | ok links =>
              simp only [hl] at h
              unfold commit at h
              dsimp only at h
              split at h
              · simp only [hlp, Bool.false_eq_true, if_false] at h
                obtain ⟨f2, hf2⟩ := forge_ok_shape cfg.fuel links _ w' h
                subst hf
                refine ⟨by simpa using h1, by simpa using h2, links, f, hl, ?_, ?_, ?_⟩
                · rw [hf2]; unfold tAfter; simp only [decide_eq_true_eq]
                · rw [hf2]
                · rw [hf2]
              · exfalso
                simp only [Prod.mk.injEq] at h
                rename_i hne
                exact hne h.2
          | _ => simp at h
        | _ => simp at h

/-! ## the order inside the setter -/

/-- the setter of the code is the forward-then-store instance -/
theorem setValG_false (w : W) : ∀ (f c : Nat) (v : Option Nat),
    setValG false w f c v = match setValF w f c v with | some w' => (w', true) | none => (w, false) := by
  intro f
  induction f with
  | zero => intro c v; rfl
  | succ f ih =>
    intro c v
    unfold setValG setValF
    split
    · rfl
    · split
      · rfl
      · cases hr : w.recv c with
        | none => rfl
        | some r =>
          simp only [Bool.false_eq_true, if_false]
          rw [ih r v]
          cases setValF w f r v <;> rfl

/-- forward, then store: a refused assignment leaves the world — the sender included — untouched;
`_copy_panel` may therefore log a channel for unwinding only after its assignment succeeded -/
theorem setValG_refused_untouched (w : W) (f c : Nat) (v : Option Nat)
    (h : (setValG false w f c v).2 = false) : (setValG false w f c v).1 = w := by
  rw [setValG_false] at h ⊢
  cases hs : setValF w f c v with
  | none => rfl
  | some w' => rw [hs] at h; simp at h

theorem copyPanelG_false (fuel : Nat) : ∀ (ps : List (Option Nat × Nat)) (w : W) (log : List (Nat × Option Nat)),
    copyPanelG false fuel w ps log = copyPanel fuel true w ps log := by
  intro ps
  induction ps with
  | nil => intro w log; rfl
  | cons p ps ih =>
    intro w log
    obtain ⟨my, oc⟩ := p
    unfold copyPanelG copyPanel
    cases w.val oc with
    | none => exact ih w log
    | some v =>
      cases my with
      | none => rfl
      | some m =>
        dsimp only
        rw [setValG_false]
        cases setValF w fuel m (some v) with
        | none => rfl
        | some w' => exact ih w' _

/-! ## hard value failures: the reverts are exact (receiving object without value receivers) -/

theorem setValF_noRecv (w : W) (f c : Nat) (v : Option Nat) (h : w.recv c = none) :
    setValF w (f + 1) c v =
      if w.g.kind c = .dataIn ∧ w.locked (w.g.owner c) = true then none
      else if admitsV w c v = false then none
      else some { w with val := updF w.val c v } := by
  rw [setValF]
  simp only [h]

/-- the assignments of a log applied in order -/
def overlay (f : Nat → Option Nat) : List (Nat × Option Nat) → Nat → Option Nat
  | [] => f
  | (c, v) :: r => overlay (updF f c v) r

theorem overlay_updF_comm (m : Nat) (x : Option Nat) : ∀ (l : List (Nat × Option Nat)) (f : Nat → Option Nat),
    m ∉ l.map Prod.fst → overlay (updF f m x) l = updF (overlay f l) m x := by
  intro l
  induction l with
  | nil => intro f _; rfl
  | cons e l ih =>
    intro f hm
    obtain ⟨c, v⟩ := e
    simp only [List.map_cons, List.mem_cons, not_or] at hm
    unfold overlay
    have : updF (updF f m x) c v = updF (updF f c v) m x := by
      funext z
      simp only [updF]
      grind
    rw [this, ih _ hm.2]

/-- the setter would accept `v` on `c` (no receiver involved) -/
def OkSet (w : W) (c : Nat) (v : Option Nat) : Prop :=
  ¬ (w.g.kind c = .dataIn ∧ w.locked (w.g.owner c) = true) ∧ admitsV w c v = true

theorem revertVals_overlay (f : Nat) : ∀ (log : List (Nat × Option Nat)) (w : W),
    (∀ e ∈ log, w.recv e.1 = none ∧ OkSet w e.1 e.2) →
    revertVals (f + 1) w log = { w with val := overlay w.val log } := by
  intro log
  induction log with
  | nil => intro w _; rfl
  | cons e log ih =>
    intro w h
    obtain ⟨c, v⟩ := e
    obtain ⟨hr, hlk, had⟩ := h (c, v) (List.mem_cons_self ..)
    unfold revertVals
    rw [setValF_noRecv w f c v hr, if_neg hlk]
    simp only [had, Bool.true_eq_false, if_false]
    rw [ih { w with val := updF w.val c v } (fun e he => h e (List.mem_cons_of_mem _ he))]
    rfl

/-- forward trace of `_copy_panel`: the new log entries hold the former values of distinct
channels, each of which the setter accepted; replaying them gives the former values back -/
theorem copyPanel_trace (f : Nat) (hard : Bool) : ∀ (ps : List (Option Nat × Nat)) (w : W)
    (log : List (Nat × Option Nat)),
    (∀ m oc, (some m, oc) ∈ ps → w.recv m = none) → (ps.filterMap (·.1)).Nodup →
    ∃ new, (copyPanel (f + 1) hard w ps log).2.1 = log ++ new ∧
      (∀ e ∈ new, e.1 ∈ ps.filterMap (·.1) ∧ e.2 = w.val e.1 ∧
        ¬ (w.g.kind e.1 = .dataIn ∧ w.locked (w.g.owner e.1) = true)) ∧
      overlay (copyPanel (f + 1) hard w ps log).1.val new = w.val := by
  intro ps
  induction ps with
  | nil => intro w log _ _; exact ⟨[], (by simp [copyPanel]), (fun _ h => nomatch h), rfl⟩
  | cons p ps ih =>
    intro w log hnr hnd
    obtain ⟨my, oc⟩ := p
    have hnr' : ∀ m oc', (some m, oc') ∈ ps → w.recv m = none :=
      fun m oc' h => hnr m oc' (List.mem_cons_of_mem _ h)
    have lift : ∀ (new : List (Nat × Option Nat)),
        (∀ e ∈ new, e.1 ∈ ps.filterMap (·.1) ∧ e.2 = w.val e.1 ∧
          ¬ (w.g.kind e.1 = .dataIn ∧ w.locked (w.g.owner e.1) = true)) →
        (∀ e ∈ new, e.1 ∈ ((my, oc) :: ps).filterMap (·.1) ∧ e.2 = w.val e.1 ∧
          ¬ (w.g.kind e.1 = .dataIn ∧ w.locked (w.g.owner e.1) = true)) := by
      intro new h e he
      obtain ⟨h1, h2, h3⟩ := h e he
      refine ⟨?_, h2, h3⟩
      cases my with
      | none => simpa using h1
      | some m => simp only [List.filterMap_cons]; exact List.mem_cons_of_mem _ h1
    have hnd' : (ps.filterMap (·.1)).Nodup := by
      cases my with
      | none => simpa using hnd
      | some m => simp only [List.filterMap_cons, List.nodup_cons] at hnd; exact hnd.2
    unfold copyPanel
    cases hv : w.val oc with
    | none =>
      obtain ⟨new, h1, h2, h3⟩ := ih w log hnr' hnd'
      exact ⟨new, h1, lift new h2, h3⟩
    | some v =>
      dsimp only
      cases my with
      | none =>
        dsimp only
        split
        · exact ⟨[], (by simp), (fun _ h => nomatch h), rfl⟩
        · obtain ⟨new, h1, h2, h3⟩ := ih w log hnr' hnd'
          exact ⟨new, h1, lift new h2, h3⟩
      | some m =>
        dsimp only
        have hrm := hnr m oc (List.mem_cons_self ..)
        rw [setValF_noRecv w f m (some v) hrm]
        by_cases hlk : w.g.kind m = .dataIn ∧ w.locked (w.g.owner m) = true
        · rw [if_pos hlk]
          dsimp only
          split
          · exact ⟨[], (by simp), (fun _ h => nomatch h), rfl⟩
          · obtain ⟨new, h1, h2, h3⟩ := ih w log hnr' hnd'
            exact ⟨new, h1, lift new h2, h3⟩
        · rw [if_neg hlk]
          by_cases had : admitsV w m (some v) = false
          · rw [if_pos had]
            dsimp only
            split
            · exact ⟨[], (by simp), (fun _ h => nomatch h), rfl⟩
            · obtain ⟨new, h1, h2, h3⟩ := ih w log hnr' hnd'
              exact ⟨new, h1, lift new h2, h3⟩
          · rw [if_neg had]
            dsimp only
            simp only [List.filterMap_cons, List.nodup_cons] at hnd
            obtain ⟨new, h1, h2, h3⟩ := ih { w with val := updF w.val m (some v) } (log ++ [(m, w.val m)]) hnr' hnd'
            have hmnew : m ∉ new.map Prod.fst := by
              intro hm
              obtain ⟨e, he, hem⟩ := List.mem_map.mp hm
              have := (h2 e he).1
              rw [hem] at this
              exact hnd.1 this
            refine ⟨(m, w.val m) :: new, (by rw [h1]; simp), ?_, ?_⟩
            · intro e he
              rcases List.mem_cons.mp he with rfl | he'
              · exact ⟨by simp, rfl, hlk⟩
              · obtain ⟨g1, g2, g3⟩ := h2 e he'
                refine ⟨by simp only [List.filterMap_cons]; exact List.mem_cons_of_mem _ g1, ?_, g3⟩
                rw [g2]
                have : e.1 ≠ m := fun h => hnd.1 (h ▸ g1)
                simp [updF, this]
            · show overlay (updF _ m (w.val m)) new = w.val
              rw [overlay_updF_comm m _ new _ hmnew, h3]
              funext z
              by_cases hz : z = m <;> simp [updF, hz]

/-- the unwinding of one panel is exact -/
theorem copyPanel_revert (f : Nat) (hard : Bool) (ps : List (Option Nat × Nat)) (w : W)
    (hnr : ∀ m oc, (some m, oc) ∈ ps → w.recv m = none) (hnd : (ps.filterMap (·.1)).Nodup)
    (had : ∀ m, m ∈ ps.filterMap (·.1) → admitsV w m (w.val m) = true) :
    revertVals (f + 1) (copyPanel (f + 1) hard w ps []).1 (copyPanel (f + 1) hard w ps []).2.1 = w := by
  obtain ⟨new, h1, h2, h3⟩ := copyPanel_trace f hard ps w [] hnr hnd
  obtain ⟨fv, hfv⟩ := copyPanel_valOnly (f + 1) hard ps w []
  simp only [List.nil_append] at h1
  rw [h1, revertVals_overlay f new]
  · rw [h3, hfv]
  · intro e he
    obtain ⟨g1, g2, g3⟩ := h2 e he
    obtain ⟨m', hm'⟩ : ∃ oc, (some e.1, oc) ∈ ps := by
      obtain ⟨q, hq, hq2⟩ := List.mem_filterMap.mp g1
      exact ⟨q.2, by cases q; simp_all⟩
    rw [hfv]
    refine ⟨hnr e.1 m' hm', g3, ?_⟩
    rw [g2]
    exact had e.1 g1

theorem overlay_not_mem (m : Nat) : ∀ (l : List (Nat × Option Nat)) (f : Nat → Option Nat),
    m ∉ l.map Prod.fst → overlay f l m = f m := by
  intro l
  induction l with
  | nil => intro f _; rfl
  | cons e l ih =>
    intro f hm
    obtain ⟨c, v⟩ := e
    simp only [List.map_cons, List.mem_cons, not_or] at hm
    unfold overlay
    rw [ih _ hm.2]
    simp [updF, hm.1]

/-- what the value copy needs for its unwinding to be exact -/
structure ValuesOk (cfg : Cfg) (w : W) (me other : Nat) : Prop where
  fuelPos : 0 < cfg.fuel
  noRecv : ∀ c, c ∈ (w.io me).inp ∨ c ∈ (w.io me).out → w.recv c = none
  admitted : ∀ c, c ∈ (w.io me).inp ∨ c ∈ (w.io me).out → admitsV w c (w.val c) = true
  distinctIn : ((panelPairs w (w.io me).inp (w.io other).inp).filterMap (·.1)).Nodup
  distinctOut : ((panelPairs w (w.io me).out (w.io other).out).filterMap (·.1)).Nodup
  disjoint : ∀ c, c ∈ (w.io me).inp → c ∉ (w.io me).out

theorem panelPairs_target_mem (w : W) (mine theirs : List Nat) (m : Nat)
    (h : m ∈ (panelPairs w mine theirs).filterMap (·.1)) : m ∈ mine := by
  obtain ⟨q, hq, hq2⟩ := List.mem_filterMap.mp h
  unfold panelPairs at hq
  obtain ⟨oc, _, rfl⟩ := List.mem_map.mp hq
  exact findLab_mem w mine _ m hq2

theorem copyValues_atomic (cfg : Cfg) (hva : cfg.valuesAtomic = true) (w : W) (me other : Nat) (hard : Bool)
    (hok : ValuesOk cfg w me other) (hfail : (copyValues cfg w me other hard).2 = false) :
    (copyValues cfg w me other hard).1 = w := by
  obtain ⟨f, hf⟩ : ∃ f, cfg.fuel = f + 1 := ⟨cfg.fuel - 1, by have := hok.fuelPos; omega⟩
  have hin_mem : ∀ m oc, (some m, oc) ∈ panelPairs w (w.io me).inp (w.io other).inp → m ∈ (w.io me).inp := by
    intro m oc h
    exact panelPairs_target_mem w _ _ m (List.mem_filterMap.mpr ⟨(some m, oc), h, rfl⟩)
  have hout_mem : ∀ m oc, (some m, oc) ∈ panelPairs w (w.io me).out (w.io other).out → m ∈ (w.io me).out := by
    intro m oc h
    exact panelPairs_target_mem w _ _ m (List.mem_filterMap.mpr ⟨(some m, oc), h, rfl⟩)
  have hnr1 : ∀ m oc, (some m, oc) ∈ panelPairs w (w.io me).inp (w.io other).inp → w.recv m = none :=
    fun m oc h => hok.noRecv m (.inl (hin_mem m oc h))
  have hrev1 := copyPanel_revert f hard (panelPairs w (w.io me).inp (w.io other).inp) w hnr1 hok.distinctIn
    (fun m h => hok.admitted m (.inl (panelPairs_target_mem w _ _ m h)))
  obtain ⟨new1, t1, t2, t3⟩ := copyPanel_trace f hard (panelPairs w (w.io me).inp (w.io other).inp) w [] hnr1
    hok.distinctIn
  unfold copyValues at hfail ⊢
  rw [hf] at hfail ⊢
  have hv1 := copyPanel_valOnly (f + 1) hard (panelPairs w (w.io me).inp (w.io other).inp) w []
  generalize copyPanel (f + 1) hard w (panelPairs w (w.io me).inp (w.io other).inp) [] = r1
    at hfail hrev1 hv1 t1 t2 t3 ⊢
  obtain ⟨w1, log1, f1⟩ := r1
  cases f1 with
  | true => exact hrev1
  | false =>
    dsimp only at hfail hrev1 hv1 t1 t3 ⊢
    obtain ⟨fv1, hfv1⟩ := hv1
    have hval : ∀ m, m ∈ (w.io me).out → w1.val m = w.val m := by
      intro m hm
      rw [← t3]
      symm
      apply overlay_not_mem
      intro hmem
      obtain ⟨e, he, hem⟩ := List.mem_map.mp hmem
      have := panelPairs_target_mem w _ _ e.1 (t2 e he).1
      rw [hem] at this
      exact hok.disjoint m this hm
    have hrev2 := copyPanel_revert f hard (panelPairs w (w.io me).out (w.io other).out) w1
      (fun m oc h => by rw [hfv1]; exact hok.noRecv m (.inr (hout_mem m oc h))) hok.distinctOut
      (fun m h => by
        have hm := panelPairs_target_mem w _ _ m h
        rw [hval m hm]
        have := hok.admitted m (.inr hm)
        rw [hfv1]
        exact this)
    generalize copyPanel (f + 1) hard w1 (panelPairs w (w.io me).out (w.io other).out) [] = r2 at hfail hrev2 ⊢
    obtain ⟨w2, log2, f2⟩ := r2
    cases f2 with
    | false => simp at hfail
    | true =>
      dsimp only at hrev2 ⊢
      rw [hva]
      simp only [if_true]
      rw [hrev2]
      exact hrev1

/-- `copy_io` with hard value failures, all repairs in place: all-or-nothing -/
theorem copyIo_atomic_hard (cfg : Cfg) (honly : cfg.onlyNewUndo = true) (hva : cfg.valuesAtomic = true)
    (w : W) (me other : Nat) (ch vh : Bool) (hinv : Inv w.g) (hok : ValuesOk cfg w me other)
    (herr : (copyIo cfg w me other ch vh).2 ≠ .ok) : (copyIo cfg w me other ch vh).1 = w := by
  unfold copyIo at herr ⊢
  rw [honly] at herr ⊢
  have hl := copyPairs_logged w.g ch (ioPairs w me other) hinv
  generalize copyPairs true w.g ch (ioPairs w me other) [] = r at herr hl ⊢
  obtain ⟨g', log, fl⟩ := r
  cases fl with
  | true =>
    dsimp only at hl ⊢
    rw [undo_logged hl.2.1 hl.2.2 hl.1]
  | false =>
    dsimp only at herr hl ⊢
    have hok' : ValuesOk cfg { w with g := g' } me other :=
      ⟨hok.fuelPos, hok.noRecv, hok.admitted, hok.distinctIn, hok.distinctOut, hok.disjoint⟩
    have hat := copyValues_atomic cfg hva { w with g := g' } me other vh hok'
    generalize copyValues cfg { w with g := g' } me other vh = rv at herr hat ⊢
    obtain ⟨w2, okv⟩ := rv
    cases okv with
    | true => exact absurd rfl herr
    | false =>
      dsimp only at hat ⊢
      rw [hat rfl]
      dsimp only
      rw [undo_logged hl.2.1 hl.2.2 hl.1]

end PwVerif.Edit
