import PwVerif.Model.Preview
/-! Lemmas for the per-class preview model (C09, interface clause under class inheritance). -/
namespace PwVerif.Preview

/-- every cached entry holds the labels scraped from the function it names -/
def Good (cs : Classes) (k : Cache) : Prop := ∀ c g l, k.slot c = some (g, l) → l = cs.scrape g

theorem good_empty (cs : Classes) : Good cs Cache.empty := by
  intro c g l h; simp [Cache.empty] at h

theorem lookup_some {α} (cs : Classes) (tbl : Nat → Option α) (fuel c : Nat) (x : α)
    (h : lookup cs tbl fuel c = some x) : ∃ c', tbl c' = some x := by
  induction fuel generalizing c with
  | zero => exact ⟨c, by simpa [lookup] using h⟩
  | succ fuel ih =>
    simp only [lookup] at h
    cases ht : tbl c with
    | some y => rw [ht] at h; simp at h; subst h; exact ⟨c, ht⟩
    | none =>
      rw [ht] at h
      simp only at h
      cases hp : cs.parent c with
      | none => rw [hp] at h; cases h
      | some p => rw [hp] at h; exact ih p h

theorem getRepaired_spec (cs : Classes) (fuel : Nat) (k : Cache) (c : Nat) (hk : Good cs k) :
    (getRepaired cs fuel k c).1 = spec cs fuel c ∧ Good cs (getRepaired cs fuel k c).2 := by
  unfold getRepaired spec
  cases hd : lookup cs cs.declared fuel c with
  | some l => exact ⟨rfl, hk⟩
  | none =>
    simp only
    have hgood' : Good cs { k with slot := upd k.slot c (some (fnOf cs fuel c, cs.scrape (fnOf cs fuel c))) } := by
      intro c' g l h
      simp only [upd] at h
      by_cases he : c' = c
      · simp [he] at h; rw [← h.1, ← h.2]
      · simp only [he, if_false] at h; exact hk c' g l h
    cases hs : lookup cs k.slot fuel c with
    | none => exact ⟨rfl, hgood'⟩
    | some e =>
      obtain ⟨g, l⟩ := e
      simp only
      by_cases hg : g = fnOf cs fuel c
      · simp only [hg, if_true]
        obtain ⟨c', hc'⟩ := lookup_some cs k.slot fuel c _ hs
        exact ⟨by rw [hk c' g l hc', hg], hk⟩
      · simp only [hg, if_false]
        exact ⟨trivial, hgood'⟩

theorem runReqs_repaired (cs : Classes) (fuel : Nat) (k : Cache) (hk : Good cs k) (reqs : List Nat) :
    runReqs (getRepaired cs fuel) k reqs = reqs.map (spec cs fuel) := by
  induction reqs generalizing k with
  | nil => rfl
  | cons c reqs ih =>
    simp only [runReqs, List.map_cons]
    obtain ⟨h1, h2⟩ := getRepaired_spec cs fuel k c hk
    rw [h1, ih _ h2]


theorem makeClass_own (key : Nat → Nat) (reg : Nat → Option Nat) (c : Nat) :
    (makeClass key key reg c).1 = c := by
  simp [makeClass, upd]

theorem runMakes_own (key : Nat → Nat) (reg : Nat → Option Nat) (cs : List Nat) :
    runMakes key key reg cs = cs := by
  induction cs generalizing reg with
  | nil => rfl
  | cons c cs ih => simp only [runMakes, makeClass_own, ih]

end PwVerif.Preview
