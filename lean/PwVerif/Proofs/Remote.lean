import PwVerif.Model.Remote
/-! Lemmas about `PwVerif.Remote` (executor transparency, shape preservation, input lock). -/
namespace PwVerif.Remote

/-! ### small facts -/

@[simp] theorem place_ignore (e : Exe) : place .ignore e = .none := rfl

theorem place_byValue {mode : Mode} {e : Exe} (h : (place mode e).byValue = true) : e.byValue = true := by
  cases mode with
  | ignore => simp [place, Exe.byValue] at h
  | honour ic => cases ic <;> cases e <;> simp_all [place, Exe.byValue, Exe.strip]

@[simp] theorem Node.own_setOwn (n : Node) (o : Own) : (n.setOwn o).own = o := by
  cases n <;> rfl

theorem allOk_setOwn (n : Node) (o : Own) (h : o.failed = n.own.failed) :
    allOk (n.setOwn o) = allOk n := by
  cases n <;> simp [Node.setOwn, allOk, Node.own] at * <;> simp [h]

theorem allOkKids_append (a b : List Node) : allOkKids (a ++ b) = (allOkKids a && allOkKids b) := by
  induction a with
  | nil => simp [allOkKids]
  | cons x xs ih => simp [allOkKids, ih, Bool.and_assoc]

theorem allOkKids_map_rewire (bumps : List (Nat × Nat)) (ks : List Node) :
    allOkKids (ks.map fun n => n.setOwn (n.own.rewire bumps)) = allOkKids ks := by
  induction ks with
  | nil => rfl
  | cons x xs ih =>
    simp only [List.map_cons, allOkKids, ih]
    rw [allOk_setOwn]; rfl

theorem allOkKids_rewireAll (bumps : List (Nat × Nat)) (ks : List Node) :
    allOkKids (rewireAll bumps ks) = allOkKids ks := by
  unfold rewireAll
  split
  · rfl
  · exact allOkKids_map_rewire bumps ks

@[simp] theorem KS.push_pre (st : KS) (old n : Node) (ok err : Bool) :
    (st.push old n ok err).pre = st.pre ++ [n] := rfl


theorem allOkKids_runKids_pre (cfg : Cfg) (fails : Nat → Bool) (mode : Mode) (pins : List Val)
    (links : List (Option Ref)) :
    ∀ (rest : List Node) (st : KS),
      allOkKids (runKids cfg fails mode pins links st rest).pre = true → allOkKids st.pre = true
  | [], st, h => by simpa [runKids] using h
  | n :: rest, st, h => by
    rw [runKids] at h
    split at h <;>
    · have := allOkKids_runKids_pre cfg fails mode pins links rest _ h
      simp only [KS.push_pre, allOkKids_append, Bool.and_eq_true] at this
      exact this.1

/-! ### transparency -/

@[simp] theorem Exe.byValue_none : Exe.byValue .none = false := rfl

theorem run_gen_of_not_byValue (cfg : Cfg) (fails : Nat → Bool) (mode : Mode) (ins : List Val) (n : Node)
    (h : (place mode n.own.exe).byValue = false ∨ cfg.keepIO = true) :
    (run cfg fails mode ins n).own.gen = n.own.gen := by
  cases n with
  | fn o fid =>
    simp only [run, Node.own, Own.leafRun]
    split <;> rfl
  | comp o k links kids =>
    simp only [Node.own] at h
    simp only [run]
    by_cases hb : (place mode o.exe).byValue = true
    · simp only [hb, if_true]
      rcases h with h | h
      · simp [h] at hb
      · simp only [mergeOrFail]
        split
        · rfl
        · simp [mergeBack, h, Node.own]
    · simp only [hb]; rfl

mutual
theorem run_eq_ignore (cfg : Cfg) (fails : Nat → Bool) (hIO : cfg.keepIO = true) (hKE : cfg.keepKidExe = true)
    (hDD : cfg.dropDetached = true) :
    ∀ (n : Node) (mode : Mode) (ins : List Val),
      allOk (run cfg fails .ignore ins n) = true → run cfg fails mode ins n = run cfg fails .ignore ins n
  | .fn o fid, mode, ins, _ => by simp [run]
  | .comp o k links kids, mode, ins, h => by
    simp only [run, place_ignore, Exe.byValue_none, Bool.false_eq_true, if_false] at h ⊢
    simp only [allOk, Bool.and_eq_true, Bool.not_eq_true'] at h
    obtain ⟨herr, hk⟩ := h
    rw [allOkKids_rewireAll] at hk
    by_cases hb : (place mode o.exe).byValue = true
    · simp only [hb, if_true]
      rw [runKids_eq_ignore cfg fails hIO hKE hDD kids (.honour true) ins links KS.init hk]
      simp only [mergeOrFail, herr, Bool.false_eq_true, if_false, mergeBack, hIO, hKE, hDD, if_true]
    · simp only [hb]
      rw [runKids_eq_ignore cfg fails hIO hKE hDD kids mode ins links KS.init hk]
      simp

theorem runKids_eq_ignore (cfg : Cfg) (fails : Nat → Bool) (hIO : cfg.keepIO = true)
    (hKE : cfg.keepKidExe = true) (hDD : cfg.dropDetached = true) :
    ∀ (kids : List Node) (mode : Mode) (pins : List Val) (links : List (Option Ref)) (st : KS),
      allOkKids (runKids cfg fails .ignore pins links st kids).pre = true →
      runKids cfg fails mode pins links st kids = runKids cfg fails .ignore pins links st kids
  | [], _, _, _, _, _ => by simp [runKids]
  | n :: rest, mode, pins, links, st, h => by
    rw [runKids] at h
    rw [runKids, runKids]
    split
    · rename_i i hp
      simp only [hp] at h
      exact runKids_eq_ignore cfg fails hIO hKE hDD rest mode pins links _ h
    · rename_i i hp
      simp only [hp] at h
      exact runKids_eq_ignore cfg fails hIO hKE hDD rest mode pins links _ h
    · rename_i i hp
      simp only [hp] at h
      have hpre := allOkKids_runKids_pre cfg fails .ignore pins links rest _ h
      simp only [KS.push_pre, allOkKids_append, Bool.and_eq_true, allOkKids] at hpre
      have hn := run_eq_ignore cfg fails hIO hKE hDD n mode i hpre.2.1
      simp only [hn]
      exact runKids_eq_ignore cfg fails hIO hKE hDD rest mode pins links _ h
end


/-- when no composite is ever merged (specification mode, or no composite sits on a by-value executor),
the configuration and the mode are irrelevant -/
def noMerge (mode : Mode) (n : Node) : Bool := mode == .ignore || noByValueComp n
def noMergeKids (mode : Mode) (ks : List Node) : Bool := mode == .ignore || noByValueCompKids ks

mutual
theorem run_noMerge (cfg cfg' : Cfg) (fails : Nat → Bool) :
    ∀ (n : Node) (mode : Mode) (ins : List Val), noMerge mode n = true →
      run cfg fails mode ins n = run cfg' fails .ignore ins n
  | .fn o fid, mode, ins, _ => by simp [run]
  | .comp o k links kids, mode, ins, h => by
    have hk : noMergeKids mode kids = true := by
      simp only [noMerge, noMergeKids, noByValueComp, Bool.or_eq_true, Bool.and_eq_true] at h ⊢
      rcases h with h | h
      · exact Or.inl h
      · exact Or.inr h.2
    have hb : (place mode o.exe).byValue = false := by
      simp only [noMerge, noByValueComp, Bool.or_eq_true, Bool.and_eq_true, beq_iff_eq] at h
      rcases h with h | h
      · subst h; rfl
      · cases hc : (place mode o.exe).byValue with
        | false => rfl
        | true => have := place_byValue hc; simp [this] at h
    simp only [run, hb, place_ignore, Exe.byValue_none, Bool.false_eq_true, if_false]
    rw [runKids_noMerge cfg cfg' fails kids mode ins links KS.init hk]
  termination_by n => sizeOf n

theorem runKids_noMerge (cfg cfg' : Cfg) (fails : Nat → Bool) :
    ∀ (kids : List Node) (mode : Mode) (pins : List Val) (links : List (Option Ref)) (st : KS),
      noMergeKids mode kids = true →
      runKids cfg fails mode pins links st kids = runKids cfg' fails .ignore pins links st kids
  | [], _, _, _, _, _ => by simp [runKids]
  | n :: rest, mode, pins, links, st, h => by
    have hn : noMerge mode n = true := by
      simp only [noMerge, noMergeKids, noByValueCompKids, Bool.or_eq_true, Bool.and_eq_true] at h ⊢
      rcases h with h | h
      · exact Or.inl h
      · exact Or.inr h.1
    have hr : noMergeKids mode rest = true := by
      simp only [noMergeKids, noByValueCompKids, Bool.or_eq_true, Bool.and_eq_true] at h ⊢
      rcases h with h | h
      · exact Or.inl h
      · exact Or.inr h.2
    rw [runKids, runKids]
    split
    · exact runKids_noMerge cfg cfg' fails rest mode pins links _ hr
    · exact runKids_noMerge cfg cfg' fails rest mode pins links _ hr
    · rename_i i hp
      simp only [run_noMerge cfg cfg' fails n mode i hn]
      exact runKids_noMerge cfg cfg' fails rest mode pins links _ hr
  termination_by kids => sizeOf kids
end

end PwVerif.Remote
