import PwVerif.Model.Remote
/-! Lemmas about `PwVerif.Remote` (executor transparency, shape preservation, input lock). -/
namespace PwVerif.Remote

/-! ### small facts -/

@[simp] theorem place_ignore (e : Exe) : place .ignore e = .none := rfl

theorem place_byValue {mode : Mode} {e : Exe} (h : (place mode e).byValue = true) : e.byValue = true := by
  cases mode with
  | ignore => simp [place, Exe.byValue] at h
  | honour ic => cases ic <;> cases e <;> simp_all [place, Exe.byValue, Exe.strip]

@[simp] theorem Node.own_setOwn (n : Node) (o : Own) : (n.setOwn o).own = o := by
  cases n <;> rfl

theorem allOk_setOwn (n : Node) (o : Own) (h : o.failed = n.own.failed) :
    allOk (n.setOwn o) = allOk n := by
  cases n <;> simp [Node.setOwn, allOk, Node.own] at * <;> simp [h]

theorem allOkKids_append (a b : List Node) : allOkKids (a ++ b) = (allOkKids a && allOkKids b) := by
  induction a with
  | nil => simp [allOkKids]
  | cons x xs ih => simp [allOkKids, ih, Bool.and_assoc]

theorem allOkKids_map_rewire (bumps : List (Nat × Nat)) (ks : List Node) :
    allOkKids (ks.map fun n => n.setOwn (n.own.rewire bumps)) = allOkKids ks := by
  induction ks with
  | nil => rfl
  | cons x xs ih =>
    simp only [List.map_cons, allOkKids, ih]
    rw [allOk_setOwn]; rfl

theorem allOkKids_rewireAll (bumps : List (Nat × Nat)) (ks : List Node) :
    allOkKids (rewireAll bumps ks) = allOkKids ks := by
  unfold rewireAll
  split
  · rfl
  · exact allOkKids_map_rewire bumps ks

@[simp] theorem KS.push_pre (st : KS) (old n : Node) (ok err : Bool) :
    (st.push old n ok err).pre = st.pre ++ [n] := rfl


theorem allOkKids_runKids_pre (cfg : Cfg) (fails : Nat → Bool) (mode : Mode) (pins : List Val)
    (links : List (Option Ref)) (mask : List Bool) :
    ∀ (rest : List Node) (st : KS),
      allOkKids (runKids cfg fails mode pins links mask st rest).pre = true → allOkKids st.pre = true
  | [], st, h => by simpa [runKids] using h
  | n :: rest, st, h => by
    rw [runKids] at h
    split at h <;>
    · have := allOkKids_runKids_pre cfg fails mode pins links mask rest _ h
      simp only [KS.push_pre, allOkKids_append, Bool.and_eq_true] at this
      exact this.1

/-! ### transparency -/

@[simp] theorem Exe.byValue_none : Exe.byValue .none = false := rfl

theorem run_gen_of_not_byValue (cfg : Cfg) (fails : Nat → Bool) (mode : Mode) (ins : List Val)
    (mask : List Bool) (n : Node)
    (h : (place mode n.own.exe).byValue = false ∨ cfg.keepIO = true) :
    (run cfg fails mode ins mask n).own.gen = n.own.gen := by
  cases n with
  | fn o fid =>
    simp only [run, Node.own, Own.leafRun]
    split <;> rfl
  | comp o k links kids =>
    simp only [Node.own] at h
    simp only [run]
    by_cases hb : (place mode o.exe).byValue = true
    · simp only [hb, if_true]
      rcases h with h | h
      · simp [h] at hb
      · simp only [mergeOrFail]
        split
        · rfl
        · simp [mergeBack, h, Node.own]
    · simp only [hb]; rfl

mutual
theorem run_eq_ignore (cfg : Cfg) (fails : Nat → Bool) (hIO : cfg.keepIO = true) (hKE : cfg.keepKidExe = true)
    (hDD : cfg.dropDetached = true) (hBE : cfg.keepBodyExe = true) :
    ∀ (n : Node) (mode : Mode) (ins : List Val) (mask : List Bool),
      allOk (run cfg fails .ignore ins mask n) = true →
      run cfg fails mode ins mask n = run cfg fails .ignore ins mask n
  | .fn o fid, mode, ins, mask, _ => by simp [run]
  | .comp o k links kids, mode, ins, mask, h => by
    simp only [run, place_ignore, Exe.byValue_none, Bool.false_eq_true, if_false] at h ⊢
    simp only [allOk, Bool.and_eq_true, Bool.not_eq_true'] at h
    obtain ⟨herr, hk⟩ := h
    rw [allOkKids_rewireAll] at hk
    by_cases hb : (place mode o.exe).byValue = true
    · simp only [hb, if_true]
      rw [runKids_eq_ignore cfg fails hIO hKE hDD hBE kids (.honour true) ins links mask KS.init hk]
      simp [mergeOrFail, herr, mergeBack, hIO, hKE, hDD, hBE]
    · simp only [hb]
      rw [runKids_eq_ignore cfg fails hIO hKE hDD hBE kids mode ins links mask KS.init hk]
      simp

theorem runKids_eq_ignore (cfg : Cfg) (fails : Nat → Bool) (hIO : cfg.keepIO = true)
    (hKE : cfg.keepKidExe = true) (hDD : cfg.dropDetached = true) (hBE : cfg.keepBodyExe = true) :
    ∀ (kids : List Node) (mode : Mode) (pins : List Val) (links : List (Option Ref)) (mask : List Bool) (st : KS),
      allOkKids (runKids cfg fails .ignore pins links mask st kids).pre = true →
      runKids cfg fails mode pins links mask st kids = runKids cfg fails .ignore pins links mask st kids
  | [], _, _, _, _, _, _ => by simp [runKids]
  | n :: rest, mode, pins, links, mask, st, h => by
    rw [runKids] at h
    rw [runKids, runKids]
    split
    · rename_i i hp
      simp only [hp] at h
      exact runKids_eq_ignore cfg fails hIO hKE hDD hBE rest mode pins links mask _ h
    · rename_i i hp
      simp only [hp] at h
      exact runKids_eq_ignore cfg fails hIO hKE hDD hBE rest mode pins links mask _ h
    · rename_i i hp
      simp only [hp] at h
      have hpre := allOkKids_runKids_pre cfg fails .ignore pins links mask rest _ h
      simp only [KS.push_pre, allOkKids_append, Bool.and_eq_true, allOkKids] at hpre
      have hn := run_eq_ignore cfg fails hIO hKE hDD hBE n mode i _ hpre.2.1
      simp only [hn]
      exact runKids_eq_ignore cfg fails hIO hKE hDD hBE rest mode pins links mask _ h
end


/-- when no composite is ever merged (specification mode, or no composite sits on a by-value executor),
the configuration and the mode are irrelevant -/
def noMerge (mode : Mode) (n : Node) : Bool := mode == .ignore || noByValueComp n
def noMergeKids (mode : Mode) (ks : List Node) : Bool := mode == .ignore || noByValueCompKids ks

mutual
theorem run_noMerge (cfg cfg' : Cfg) (fails : Nat → Bool) :
    ∀ (n : Node) (mode : Mode) (ins : List Val) (mask : List Bool), noMerge mode n = true →
      run cfg fails mode ins mask n = run cfg' fails .ignore ins mask n
  | .fn o fid, mode, ins, mask, _ => by simp [run]
  | .comp o k links kids, mode, ins, mask, h => by
    have hk : noMergeKids mode kids = true := by
      simp only [noMerge, noMergeKids, noByValueComp, Bool.or_eq_true, Bool.and_eq_true] at h ⊢
      rcases h with h | h
      · exact Or.inl h
      · exact Or.inr h.2
    have hb : (place mode o.exe).byValue = false := by
      simp only [noMerge, noByValueComp, Bool.or_eq_true, Bool.and_eq_true, beq_iff_eq] at h
      rcases h with h | h
      · subst h; rfl
      · cases hc : (place mode o.exe).byValue with
        | false => rfl
        | true => have := place_byValue hc; simp [this] at h
    simp only [run, hb, place_ignore, Exe.byValue_none, Bool.false_eq_true, if_false]
    rw [runKids_noMerge cfg cfg' fails kids mode ins links mask KS.init hk]
  termination_by n => sizeOf n

theorem runKids_noMerge (cfg cfg' : Cfg) (fails : Nat → Bool) :
    ∀ (kids : List Node) (mode : Mode) (pins : List Val) (links : List (Option Ref)) (mask : List Bool) (st : KS),
      noMergeKids mode kids = true →
      runKids cfg fails mode pins links mask st kids = runKids cfg' fails .ignore pins links mask st kids
  | [], _, _, _, _, _, _ => by simp [runKids]
  | n :: rest, mode, pins, links, mask, st, h => by
    have hn : noMerge mode n = true := by
      simp only [noMerge, noMergeKids, noByValueCompKids, Bool.or_eq_true, Bool.and_eq_true] at h ⊢
      rcases h with h | h
      · exact Or.inl h
      · exact Or.inr h.1
    have hr : noMergeKids mode rest = true := by
      simp only [noMergeKids, noByValueCompKids, Bool.or_eq_true, Bool.and_eq_true] at h ⊢
      rcases h with h | h
      · exact Or.inl h
      · exact Or.inr h.2
    rw [runKids, runKids]
    split
    · exact runKids_noMerge cfg cfg' fails rest mode pins links mask _ hr
    · exact runKids_noMerge cfg cfg' fails rest mode pins links mask _ hr
    · rename_i i hp
      simp only [run_noMerge cfg cfg' fails n mode i _ hn]
      exact runKids_noMerge cfg cfg' fails rest mode pins links mask _ hr
  termination_by kids => sizeOf kids
end


/-! ### the repaired merge leaves the shape of the graph alone -/

theorem shapeOf_setOwn (n : Node) (o : Own) (h : o.shape = n.own.shape) :
    shapeOf (n.setOwn o) = shapeOf n := by
  cases n <;> simp [Node.setOwn, shapeOf, Node.own] at * <;> exact h

mutual
theorem shapeOf_setIns : ∀ (n : Node) (i : List Val) (m : List Bool), shapeOf (setIns i m n) = shapeOf n
  | .fn o fid, i, m => rfl
  | .comp o k l ks, i, m => by
    simp only [setIns, shapeOf, shapeOfKids_pushKids ks i l m 0]
    rfl
theorem shapeOfKids_pushKids : ∀ (ks : List Node) (pins : List Val) (l : List (Option Ref)) (m : List Bool)
    (p : Nat), shapeOfKids (pushKids pins l m p ks) = shapeOfKids ks
  | [], _, _, _, _ => rfl
  | n :: ns, pins, l, m, p => by
    simp only [pushKids, shapeOfKids, shapeOf_setIns n, shapeOfKids_pushKids ns]
end
attribute [simp] shapeOf_setIns shapeOfKids_pushKids

@[simp] theorem setIns_gen (n : Node) (i : List Val) (m : List Bool) : (setIns i m n).own.gen = n.own.gen := by
  cases n <;> rfl

mutual
theorem allOk_setIns : ∀ (n : Node) (i : List Val) (m : List Bool), allOk (setIns i m n) = allOk n
  | .fn o fid, i, m => rfl
  | .comp o k l ks, i, m => by simp only [setIns, allOk, allOkKids_pushKids ks i l m 0]
theorem allOkKids_pushKids : ∀ (ks : List Node) (pins : List Val) (l : List (Option Ref)) (m : List Bool)
    (p : Nat), allOkKids (pushKids pins l m p ks) = allOkKids ks
  | [], _, _, _, _ => rfl
  | n :: ns, pins, l, m, p => by
    simp only [pushKids, allOkKids, allOk_setIns n, allOkKids_pushKids ns]
end
attribute [simp] allOk_setIns allOkKids_pushKids

theorem shapeOfKids_append (a b : List Node) : shapeOfKids (a ++ b) = shapeOfKids a ++ shapeOfKids b := by
  induction a with
  | nil => simp [shapeOfKids]
  | cons x xs ih => simp [shapeOfKids, ih]

@[simp] theorem rewireAll_nil (ks : List Node) : rewireAll [] ks = ks := by simp [rewireAll]

theorem KS.push_bumps_same (st : KS) (old n : Node) (ok err : Bool) (h : n.own.gen = old.own.gen) :
    (st.push old n ok err).bumps = st.bumps := by
  simp [KS.push, h]

mutual
theorem shapeOf_run (cfg : Cfg) (fails : Nat → Bool) (hIO : cfg.keepIO = true) (hKE : cfg.keepKidExe = true)
    (hDD : cfg.dropDetached = true) (hBE : cfg.keepBodyExe = true) :
    ∀ (n : Node) (mode : Mode) (ins : List Val) (mask : List Bool),
      shapeOf (run cfg fails mode ins mask n) = shapeOf n
  | .fn o fid, mode, ins, mask => by
    simp only [run, shapeOf, Own.leafRun]
    split <;> rfl
  | .comp o k links kids, mode, ins, mask => by
    have hk : ∀ m, shapeOfKids (runKids cfg fails m ins links mask KS.init kids).pre = shapeOfKids kids ∧
        (runKids cfg fails m ins links mask KS.init kids).bumps = [] := by
      intro m
      have := shapeOfKids_runKids cfg fails hIO hKE hDD hBE kids m ins links mask KS.init
      simpa [KS.init, shapeOfKids] using this
    simp only [run]
    by_cases hb : (place mode o.exe).byValue = true
    · simp only [hb, if_true, mergeOrFail]
      split
      · simp only [shapeOf, shapeOfKids_pushKids]; rfl
      · obtain ⟨h1, h2⟩ := hk (.honour true)
        simp only [mergeBack, hIO, hKE, hDD, hBE, if_true, h2, rewireAll_nil, shapeOf, h1]
        rfl
    · obtain ⟨h1, h2⟩ := hk mode
      simp only [hb, Bool.false_eq_true, if_false, h2, rewireAll_nil, shapeOf, h1]
      rfl
  termination_by n => sizeOf n

theorem shapeOfKids_runKids (cfg : Cfg) (fails : Nat → Bool) (hIO : cfg.keepIO = true)
    (hKE : cfg.keepKidExe = true) (hDD : cfg.dropDetached = true) (hBE : cfg.keepBodyExe = true) :
    ∀ (kids : List Node) (mode : Mode) (pins : List Val) (links : List (Option Ref)) (mask : List Bool) (st : KS),
      shapeOfKids (runKids cfg fails mode pins links mask st kids).pre = shapeOfKids st.pre ++ shapeOfKids kids ∧
      (runKids cfg fails mode pins links mask st kids).bumps = st.bumps
  | [], _, _, _, _, st => by simp [runKids, shapeOfKids]
  | n :: rest, mode, pins, links, mask, st => by
    rw [runKids]
    split
    · rename_i i hp
      obtain ⟨h1, h2⟩ := shapeOfKids_runKids cfg fails hIO hKE hDD hBE rest mode pins links mask
        (st.push n (setIns i (kidMask links mask st.pre.length n.own []) n) false false)
      rw [h1, h2, KS.push_bumps_same _ _ _ _ _ (by simp)]
      simp [shapeOfKids_append, shapeOfKids]
    · rename_i i hp
      obtain ⟨h1, h2⟩ := shapeOfKids_runKids cfg fails hIO hKE hDD hBE rest mode pins links mask
        (st.push n (setIns i (kidMask links mask st.pre.length n.own (fetchedMask st n.own)) n) false true)
      rw [h1, h2, KS.push_bumps_same _ _ _ _ _ (by simp)]
      simp [shapeOfKids_append, shapeOfKids]
    · rename_i i hp
      obtain ⟨h1, h2⟩ := shapeOfKids_runKids cfg fails hIO hKE hDD hBE rest mode pins links mask
        (st.push n (run cfg fails mode i (kidMask links mask st.pre.length n.own (fetchedMask st n.own)) n)
          (!(run cfg fails mode i (kidMask links mask st.pre.length n.own (fetchedMask st n.own)) n).own.failed)
          (run cfg fails mode i (kidMask links mask st.pre.length n.own (fetchedMask st n.own)) n).own.failed)
      rw [h1, h2, KS.push_bumps_same _ _ _ _ _ (run_gen_of_not_byValue cfg fails mode i _ n (Or.inr hIO))]
      simp [shapeOfKids_append, shapeOfKids, shapeOf_run cfg fails hIO hKE hDD hBE n mode i]
  termination_by kids => sizeOf kids
end


/-! ### nothing is left running -/

mutual
theorem idle_setIns : ∀ (n : Node) (i : List Val) (m : List Bool), idle (setIns i m n) = idle n
  | .fn o fid, i, m => rfl
  | .comp o k l ks, i, m => by simp only [setIns, idle, idleKids_pushKids ks i l m 0]
theorem idleKids_pushKids : ∀ (ks : List Node) (pins : List Val) (l : List (Option Ref)) (m : List Bool)
    (p : Nat), idleKids (pushKids pins l m p ks) = idleKids ks
  | [], _, _, _, _ => rfl
  | n :: ns, pins, l, m, p => by
    simp only [pushKids, idleKids, idle_setIns n, idleKids_pushKids ns]
end
attribute [simp] idle_setIns idleKids_pushKids

theorem idleKids_append (a b : List Node) : idleKids (a ++ b) = (idleKids a && idleKids b) := by
  induction a with
  | nil => simp [idleKids]
  | cons x xs ih => simp [idleKids, ih, Bool.and_assoc]

theorem idle_setOwn (n : Node) (o : Own) (h : o.running = n.own.running) : idle (n.setOwn o) = idle n := by
  cases n <;> simp [Node.setOwn, idle, Node.own] at * <;> simp [h]

theorem idleKids_rewireAll (bumps : List (Nat × Nat)) (ks : List Node) :
    idleKids (rewireAll bumps ks) = idleKids ks := by
  unfold rewireAll
  split
  · rfl
  · induction ks with
    | nil => rfl
    | cons x xs ih =>
      simp only [List.map_cons, idleKids, ih]
      rw [idle_setOwn]; rfl

mutual
theorem idle_stripDeep : ∀ (n : Node), idle (stripDeep n) = idle n
  | .fn o fid => by simp [stripDeep, idle]
  | .comp o k l ks => by simp [stripDeep, idle, idleKids_stripKids ks]
theorem idleKids_stripKids : ∀ (ks : List Node), idleKids (stripDeep.stripKids ks) = idleKids ks
  | [] => by simp [stripDeep.stripKids, idleKids]
  | n :: ns => by simp [stripDeep.stripKids, idleKids, idle_stripDeep n, idleKids_stripKids ns]
end

mutual
theorem idle_run (cfg : Cfg) (fails : Nat → Bool) :
    ∀ (n : Node) (mode : Mode) (ins : List Val) (mask : List Bool),
      idle n = true → idle (run cfg fails mode ins mask n) = true
  | .fn o fid, mode, ins, mask, _ => by
    simp only [run, idle, Own.leafRun]
    split <;> rfl
  | .comp o k links kids, mode, ins, mask, h => by
    simp only [idle, Bool.and_eq_true] at h
    have hk := fun m => idleKids_runKids cfg fails kids m ins links mask KS.init (by simp [KS.init, idleKids]) h.2
    simp only [run]
    by_cases hb : (place mode o.exe).byValue = true
    · simp only [hb, if_true, mergeOrFail]
      split
      · simp [idle, h.2]
      · have hkk : idleKids (if cfg.keepKidExe = true then
              rewireAll (runKids cfg fails (.honour true) ins links mask KS.init kids).bumps
                (runKids cfg fails (.honour true) ins links mask KS.init kids).pre
            else stripDeep.stripKids (rewireAll (runKids cfg fails (.honour true) ins links mask KS.init kids).bumps
                (runKids cfg fails (.honour true) ins links mask KS.init kids).pre)) = true := by
          split <;> simp [idleKids_rewireAll, idleKids_stripKids, hk]
        simp only [mergeBack]
        split <;> simp [idle, hkk]
    · simp [hb, idle, idleKids_rewireAll, hk]
  termination_by n => sizeOf n

theorem idleKids_runKids (cfg : Cfg) (fails : Nat → Bool) :
    ∀ (kids : List Node) (mode : Mode) (pins : List Val) (links : List (Option Ref)) (mask : List Bool) (st : KS),
      idleKids st.pre = true → idleKids kids = true →
      idleKids (runKids cfg fails mode pins links mask st kids).pre = true
  | [], _, _, _, _, st, h, _ => by simpa [runKids] using h
  | n :: rest, mode, pins, links, mask, st, h, hk => by
    simp only [idleKids, Bool.and_eq_true] at hk
    rw [runKids]
    split
    · exact idleKids_runKids cfg fails rest mode pins links mask _
        (by simp [idleKids_append, idleKids, h, hk.1]) hk.2
    · exact idleKids_runKids cfg fails rest mode pins links mask _
        (by simp [idleKids_append, idleKids, h, hk.1]) hk.2
    · rename_i i hp
      exact idleKids_runKids cfg fails rest mode pins links mask _
        (by simp [idleKids_append, idleKids, h, idle_run cfg fails n mode i _ hk.1]) hk.2
  termination_by kids => sizeOf kids
end


/-! ### the input lock -/

def hasData (e : Option Val) : Bool := match e with | some v => !isNd v | none => false

theorem fetchTop_noData (ext : List (Option Val))
    (h : (ext.any fun e => match e with | some v => !isNd v | none => false) = false) :
    ∀ (k : Nat) (acc : Node), fetchTop ext k acc = acc
  | 0, acc => rfl
  | k + 1, acc => by
    rw [fetchTop, fetchTop_noData ext h k acc]
    split
    · rename_i v hv
      have hm : some v ∈ ext := List.mem_of_getElem? hv
      have := (List.any_eq_false.mp h) (some v) hm
      simp only [Bool.not_eq_true, Bool.not_eq_false'] at this
      simp [this]
    · rfl

theorem edit_locked (s : Sess) (e : Edit) (h : lockedTop s.node = true) :
    (edit s e).1.node = s.node ∧ (edit s e).1.job = s.job := by
  cases e with
  | setIn k v => simp [edit, h]
  | fetch =>
    simp only [edit, h, Bool.true_and]
    split
    · exact ⟨rfl, rfl⟩
    · rename_i hn
      simp only [Bool.not_eq_true] at hn
      exact ⟨fetchTop_noData s.ext hn _ _, rfl⟩
  | connect k v => exact ⟨rfl, rfl⟩
  | disconnect k => exact ⟨rfl, rfl⟩
  | rerun =>
    simp only [edit, h, Bool.true_and]
    split
    · exact ⟨rfl, rfl⟩
    · rename_i hn
      simp only [Bool.not_eq_true] at hn
      exact ⟨fetchTop_noData s.ext hn _ _, rfl⟩
  | setKid j k v =>
    cases hn : s.node with
    | fn o fid => simp [edit, hn]
    | comp o c l ks =>
      cases c <;> simp_all [edit, lockedTop]

theorem edits_locked : ∀ (es : List Edit) (s : Sess), lockedTop s.node = true →
    (edits s es).node = s.node ∧ (edits s es).job = s.job
  | [], s, _ => ⟨rfl, rfl⟩
  | e :: es, s, h => by
    obtain ⟨h1, h2⟩ := edit_locked s e h
    obtain ⟨h3, h4⟩ := edits_locked es (edit s e).1 (by rw [h1]; exact h)
    exact ⟨by rw [edits, h3, h1], by rw [edits, h4, h2]⟩

/-- completion only looks at the node and the job -/
theorem complete_node_congr (cfg : Cfg) (fails : Nat → Bool) (s t : Sess) (hn : s.node = t.node)
    (hj : s.job = t.job) : (complete cfg fails s).1.node = (complete cfg fails t).1.node ∧
      (complete cfg fails s).2 = (complete cfg fails t).2 := by
  unfold complete
  rw [hn, hj]
  split
  · exact ⟨hn ▸ rfl, rfl⟩
  · split
    · exact ⟨rfl, rfl⟩
    · exact ⟨hn ▸ rfl, rfl⟩

/-- `running` is not read by a composite's run -/
theorem run_comp_running (cfg : Cfg) (fails : Nat → Bool) (mode : Mode) (ins : List Val) (mask : List Bool)
    (o : Own) (k : CK) (l : List (Option Ref)) (ks : List Node) (b : Bool) :
    run cfg fails mode ins mask (.comp { o with running := b } k l ks) =
      run cfg fails mode ins mask (.comp o k l ks) := by
  simp only [run]
  split
  · simp only [mergeOrFail, mergeBack]
  · rfl


/-! ### submission -/

theorem submit_comp (snap : Bool) (o : Own) (k : CK) (l : List (Option Ref)) (ks : List Node)
    (hr : ready (.comp o k l ks) = true) :
    (submit snap ⟨.comp o k l ks, none, []⟩).1.node = .comp { o with running := true } k l ks ∧
    (submit snap ⟨.comp o k l ks, none, []⟩).2 = .future ∧
    (submit snap ⟨.comp o k l ks, none, []⟩).1.job =
      some (if o.exe.byValue then .copy (if snap then some (.comp { o with running := true } k l ks) else none)
            else .shared) := by
  have hf : ∀ m, fetchTop [] m (.comp o k l ks) = .comp o k l ks :=
    fun m => fetchTop_noData [] (by simp) m _
  simp [submit, hf, hr, Node.setOwn, Node.own]

theorem submit_fn (snap : Bool) (o : Own) (fid : Nat) (hr : ready (.fn o fid) = true) :
    (submit snap ⟨.fn o fid, none, []⟩).1.node = .fn { o with running := true } fid ∧
    (submit snap ⟨.fn o fid, none, []⟩).2 = .future ∧
    (submit snap ⟨.fn o fid, none, []⟩).1.job = some (.leaf o.ins) := by
  have hf : ∀ m, fetchTop [] m (.fn o fid) = .fn o fid :=
    fun m => fetchTop_noData [] (by simp) m _
  simp [submit, hf, hr, Node.setOwn, Node.own]

/-- submission followed by completion is `run` (the job is the object itself, a snapshot of it, or a late copy
of it: all the same when nothing was changed in between) -/
theorem finish_submitted_comp (cfg : Cfg) (fails : Nat → Bool) (snap : Bool) (o : Own) (k : CK)
    (l : List (Option Ref)) (ks : List Node) :
    finish cfg fails
      (if o.exe.byValue then .copy (if snap then some (.comp { o with running := true } k l ks) else none)
       else .shared) (.comp { o with running := true } k l ks)
    = some (run cfg fails (.honour false) o.ins [] (.comp o k l ks)) := by
  by_cases hb : o.exe.byValue = true
  · cases snap <;>
      simp only [hb, if_true, finish, run, place, mergeOrFail, mergeBack, Bool.false_eq_true, if_false]
  · have hb' : o.exe.byValue = false := by simpa using hb
    simp only [hb', Bool.false_eq_true, if_false, finish]
    rw [run_comp_running]

/-! ### concrete graphs (witnesses of the pinned behaviour, non-vacuity examples) -/

namespace Ex

def c (k : Nat) : Val := app (1000 + k) []
def dflt : Val := app 999 []

def own0 (label : Nat) (ins : List Val) : Own :=
  { label, ins, out := nd, running := false, failed := false, exe := .none, hasParent := true,
    detached := false, gen := 0, ioMine := true, outLinked := false, inRefs := ins.map fun _ => none,
    outRefs := [] }

def rf (p s : Nat) : Option Ref := some ⟨p, 0, s⟩

/-- the macro `M2(x, y): p = F1(a=x, b=y); q = F2(a=p, b=x); return q` — `x` is used twice and keeps its
UserInput child, `y` is used once and is linked straight to `p.b` -/
def m2 (ck : CK) (label : Nat) (x y : Val) (e : Exe) (xr yr : Option Ref) (outRefs : List Ref)
    (lnk : Bool) : Node :=
  .comp { own0 label [x, y] with exe := e, inRefs := [xr, yr], outRefs, outLinked := lnk } ck [rf 0 0, rf 1 1]
    [ .fn { own0 10 [x] with outRefs := [⟨1, 0, 0⟩, ⟨2, 0, 1⟩] } 0,
      .fn { own0 11 [dflt, y, dflt] with inRefs := [rf 0 0, none, none], outRefs := [⟨2, 0, 0⟩] } 1,
      .fn { own0 12 [dflt, dflt, dflt] with inRefs := [rf 1 0, rf 0 0, none], outLinked := true } 2 ]

/-- workflow `a = F20(c1); m = M2(x=a, y=c2) on executor e; z = F6(a=m, b=a)` -/
def wfA (ck : CK) (e : Exe) : Node :=
  .comp { own0 100 [] with hasParent := false } .wf []
    [ .fn { own0 1 [c 1, dflt, dflt] with outRefs := [⟨1, 0, 0⟩, ⟨2, 0, 1⟩] } 20,
      m2 ck 2 dflt (c 2) e (rf 0 0) none [⟨2, 0, 0⟩] false,
      .fn { own0 3 [dflt, dflt, dflt] with inRefs := [rf 1 0, rf 0 0, none] } 6 ]

/-- outer macro `MO(x): inner = M2(x=x, y=c7) on executor e; return inner` -/
def mo (e : Exe) : Node :=
  .comp { own0 200 [c 1] with hasParent := false } .macro [rf 0 0]
    [ m2 .macro 1 (c 1) (c 7) e none none [] true ]

/-- a parentless macro on an executor whose child `p` has a live executor of its own -/
def mk (e : Exe) : Node :=
  match m2 .macro 5 (c 1) (c 2) e none none [] false with
  | .comp o k l (ui :: .fn po pf :: rest) =>
    .comp { o with hasParent := false } k l (ui :: .fn { po with exe := .inst false } pf :: rest)
  | n => n

def nf : Nat → Bool := fun _ => false

end Ex

end PwVerif.Remote
