import PwVerif.Proofs.Edit
import PwVerif.Proofs.Tree
/-! Bridge C14 → C13: the ownership side of a successful `replace_child` (`Edit.tAfter`, built from
the specialised steps of `Model/Edit.lean`) preserves C13's tree invariant `Tree.WFTree`, by C13's
own lemmas about `release` / re-labelling an orphan / `adopt` / `starting_nodes`. -/
namespace PwVerif.Edit
open PwVerif PwVerif.Tree

/-- a node that is not a child is not a starting node of a well-formed tree -/
theorem not_starting_of_orphan {t : Tree} (h : WFTree t) {p c : Nat} (hpc : t.parent c = none) :
    c ∉ t.starting p := by
  intro hs
  obtain ⟨l, hl⟩ := h.starters p c hs
  have := ((h.agree p c l).mp hl).1
  rw [hpc] at this; cases this

theorem tAfter_wf (fuel : Nat) (t : Tree) (p old new : Nat) (h : WFTree t) (hpo : t.parent old = some p)
    (hpn : t.parent new = none) (had : adoptRefusal fuel t p new = .ok) : WFTree (tAfter t p old new) := by
  have hon : old ≠ new := by intro e; rw [e, hpn] at hpo; cases hpo
  obtain ⟨hwalk, hkind⟩ := (adoptRefusal_ok_iff fuel t p new).mp had
  obtain ⟨hpne, hnanc⟩ := ancWalk_ok t new fuel p hwalk
  -- release
  have h1 := release_wf h hpo
  have hp1o : (release t p old).parent old = none := by simp [release, removeCore0]
  have hp1n : (release t p old).parent new = none := by
    simp [release, removeCore0, updF, Ne.symm hon, hpn]
  -- the two label assignments
  have h2a := orphan_label_wf' (l := (release t p old).label old) h1 hp1n (h1.labelsOk old)
  have h2 := orphan_label_wf' (c := old) (l := (release t p old).label new) h2a hp1o (h1.labelsOk new)
  have e2 : ({ (release t p old) with
      label := updF (updF (release t p old).label new ((release t p old).label old)) old
        ((release t p old).label new) } : Tree) = swapLabels (Tree.removeCore0 t p old) new old := rfl
  rw [e2] at h2
  -- adoption under the freed label
  have hlold : (t.label old, old) ∈ t.children p := (h.agree p old (t.label old)).mpr ⟨hpo, rfl⟩
  have hlab : (swapLabels (Tree.removeCore0 t p old) new old).label new = t.label old := by
    simp [swapLabels, Tree.removeCore0, updF, Ne.symm hon]
  have hdir : t.label old ∉ dirOf (swapLabels (Tree.removeCore0 t p old) new old) p := by
    simp only [dirOf, swapLabels, Tree.removeCore0, updF, if_true, List.mem_append, not_or]
    refine ⟨h.noClash p (t.label old) old hlold, ?_⟩
    intro hk
    obtain ⟨v, hv⟩ := mem_keys.mp hk
    obtain ⟨hv1, hv2⟩ := mem_popVal.mp hv
    exact hv2 (eq_of_mem_same_key (h.keysNodup p) hv1 hlold)
  have hanc2 : ¬ Anc (swapLabels (Tree.removeCore0 t p old) new old) new p := by
    intro ha
    apply hnanc
    apply anc_parent_subset (t := t) (t' := swapLabels (Tree.removeCore0 t p old) new old) _ ha
    intro a b hab
    simp only [swapLabels, Tree.removeCore0, updF] at hab
    split at hab
    · cases hab
    · exact hab
  have h3 := adopt_wf h2 (p := p) (c := new) (l := t.label old) hp1n hkind hdir (h.labelsOk old) hanc2
    (Ne.symm hpne)
  have e3 : Tree.adopt (swapLabels (Tree.removeCore0 t p old) new old) p new (t.label old)
      = Edit.adopt (swapLabels (Tree.removeCore0 t p old) new old) p new := by
    apply Tree.ext' <;> intros <;> try rfl
    · rename_i x
      simp only [Tree.adopt, Edit.adopt, updF]
      split
      · rename_i e; rw [e]; exact hlab.symm
      · rfl
    · rename_i x
      simp only [Tree.adopt, Edit.adopt, hlab]
  rw [e3] at h3
  -- starting status
  unfold tAfter
  split
  · rename_i hst
    refine setStarting_wf h3 p _ ?_ ?_
    · intro s hs
      rcases List.mem_append.mp hs with hs | hs
      · exact h3.starters p s hs
      · simp only [List.mem_singleton] at hs; subst hs
        exact ⟨t.label old, by simp [Edit.adopt, hlab]⟩
    · rw [List.nodup_append]
      refine ⟨h3.startNodup p, by simp, ?_⟩
      intro a ha b hb
      simp only [List.mem_singleton] at hb; subst hb
      intro e; subst e
      have ha' : a ∈ (t.starting p).erase old := by
        simpa [Edit.adopt, swapLabels, Tree.removeCore0] using ha
      have ha'' := List.mem_of_mem_erase ha'
      exact not_starting_of_orphan h hpn ha''
  · exact h3

end PwVerif.Edit
