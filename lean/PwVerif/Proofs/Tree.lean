import PwVerif.Model.Tree
/-!
Helper lemmas for C13: the ownership invariant `WFTree`, the three atomic transitions
(`release`, `adopt`, `relabel`) preserve it, the string check of `_ensure_path_is_not_cyclic`
catches every real cycle, and on well-formed trees the transcribed protocol of the repaired
variant is one of the atomic transitions (accepted) or the identity (rejected).
-/
namespace PwVerif.Tree
open PwVerif

theorem updF_updF {α} (f : Nat → α) (a : Nat) (x y : α) : updF (updF f a x) a y = updF f a y := by
  funext z; simp only [updF]; split <;> rfl

/-! ## lists / bidict -/

theorem mem_keys {l : List (Str × Nat)} {k : Str} : k ∈ keys l ↔ ∃ v, (k, v) ∈ l := by
  simp [keys]

theorem mem_vals {l : List (Str × Nat)} {v : Nat} : v ∈ vals l ↔ ∃ k, (k, v) ∈ l := by
  simp [vals]

theorem mem_popVal {l : List (Str × Nat)} {v : Nat} {e : Str × Nat} :
    e ∈ popVal l v ↔ e ∈ l ∧ e.2 ≠ v := by
  simp [popVal]

theorem mem_popKey {l : List (Str × Nat)} {k : Str} {e : Str × Nat} :
    e ∈ popKey l k ↔ e ∈ l ∧ e.1 ≠ k := by
  simp [popKey]

theorem keys_popVal_nodup {l : List (Str × Nat)} (v : Nat) (h : (keys l).Nodup) :
    (keys (popVal l v)).Nodup := by
  unfold keys popVal
  exact List.Nodup.sublist (List.Sublist.map _ List.filter_sublist) h

theorem keys_popKey_nodup {l : List (Str × Nat)} (k : Str) (h : (keys l).Nodup) :
    (keys (popKey l k)).Nodup := by
  unfold keys popKey
  exact List.Nodup.sublist (List.Sublist.map _ List.filter_sublist) h

theorem not_mem_vals_popVal (l : List (Str × Nat)) (v : Nat) : v ∉ vals (popVal l v) := by
  simp [vals, popVal]

theorem popVal_of_not_mem {l : List (Str × Nat)} {v : Nat} (h : v ∉ vals l) : popVal l v = l := by
  unfold popVal
  apply List.filter_eq_self.mpr
  intro e he
  simp only [ne_eq, decide_not, Bool.not_eq_eq_eq_not, Bool.not_true, decide_eq_false_iff_not]
  intro hv
  exact h (mem_vals.mpr ⟨e.1, by rw [← hv]; exact he⟩)

theorem popKey_append_fresh {l : List (Str × Nat)} {k : Str} {v : Nat} (h : k ∉ keys l) :
    popKey (l ++ [(k, v)]) k = l := by
  unfold popKey
  rw [List.filter_append]
  have h1 : List.filter (fun e : Str × Nat => decide (e.1 ≠ k)) l = l := by
    apply List.filter_eq_self.mpr
    intro e he
    simp only [ne_eq, decide_not, Bool.not_eq_eq_eq_not, Bool.not_true, decide_eq_false_iff_not]
    intro hk
    exact h (mem_keys.mpr ⟨e.2, by rw [← hk]; exact he⟩)
  rw [h1]; simp

theorem lookupKey_some_mem {l : List (Str × Nat)} {k : Str} {v : Nat}
    (h : lookupKey l k = some v) : (k, v) ∈ l := by
  induction l with
  | nil => simp [lookupKey] at h
  | cons e r ih =>
    obtain ⟨k', v'⟩ := e
    simp only [lookupKey] at h
    split at h
    · rename_i hk; subst hk; simp at h; subst h; simp
    · exact List.mem_cons_of_mem _ (ih h)

theorem lookupKey_of_mem {l : List (Str × Nat)} {k : Str} {v : Nat} (hn : (keys l).Nodup)
    (h : (k, v) ∈ l) : lookupKey l k = some v := by
  induction l with
  | nil => simp at h
  | cons e r ih =>
    obtain ⟨k', v'⟩ := e
    simp only [keys, List.map_cons, List.nodup_cons] at hn
    simp only [lookupKey]
    rcases List.mem_cons.mp h with heq | hr
    · simp at heq; obtain ⟨rfl, rfl⟩ := heq; simp
    · have : k' ≠ k := by
        intro e; subst e
        exact hn.1 (List.mem_map.mpr ⟨(k', v), hr, rfl⟩)
      simp [this]; exact ih hn.2 hr

theorem lookupKey_none_of_not_mem {l : List (Str × Nat)} {k : Str} (h : k ∉ keys l) :
    lookupKey l k = none := by
  induction l with
  | nil => rfl
  | cons e r ih =>
    obtain ⟨k', v'⟩ := e
    simp only [keys, List.map_cons, List.mem_cons, not_or] at h
    simp only [lookupKey]
    have : k' ≠ k := fun e => h.1 e.symm
    simp [this]; exact ih h.2

theorem bidictPut_fresh {l : List (Str × Nat)} {k : Str} {v : Nat} (hk : k ∉ keys l)
    (hv : v ∉ vals l) : bidictPut l k v = some (l ++ [(k, v)]) := by
  unfold bidictPut
  have h1 : (k, v) ∉ l := fun h => hk (mem_keys.mpr ⟨v, h⟩)
  simp [h1, hk, hv]

/-! ## paths and ancestors -/

/-- `p` is the parent of `c` -/
def Par (t : Tree) (p c : Nat) : Prop := t.parent c = some p

/-- `a` is a proper ancestor of `x` -/
inductive Anc (t : Tree) : Nat → Nat → Prop
  | base {a x} : t.parent x = some a → Anc t a x
  | step {a q x} : t.parent x = some q → Anc t a q → Anc t a x

theorem pathF_det (t : Tree) : ∀ (n m x : Nat) (s s' : Str),
    pathF t n x = some s → pathF t m x = some s' → s = s' := by
  intro n
  induction n with
  | zero => intro m x s s' h; simp [pathF] at h
  | succ n ih =>
    intro m x s s' h h'
    cases m with
    | zero => simp [pathF] at h'
    | succ m =>
      simp only [pathF] at h h'
      cases hp : t.parent x with
      | none => simp [hp] at h h'; rw [← h, ← h']
      | some q =>
        simp only [hp, Option.map_eq_some_iff] at h h'
        obtain ⟨a, ha, rfl⟩ := h
        obtain ⟨b, hb, rfl⟩ := h'
        rw [ih m q a b ha hb]

/-- **the string check catches every real cycle**: the lexical path of a proper ancestor,
followed by the delimiter, is a prefix of the descendant's lexical path -/
theorem path_prefix_of_anc (t : Tree) {a x : Nat} (h : Anc t a x) :
    ∀ (n m : Nat) (sa sx : Str), pathF t n a = some sa → pathF t m x = some sx →
      (sa ++ ['/']) <+: sx := by
  induction h with
  | base hp =>
    rename_i y
    intro n m sa sx ha hx
    cases m with
    | zero => simp [pathF] at hx
    | succ m =>
      simp only [pathF, hp, Option.map_eq_some_iff] at hx
      obtain ⟨s', hs', rfl⟩ := hx
      rw [pathF_det t n m a sa s' ha hs']
      exact ⟨t.label y, by simp⟩
  | step hp _ ih =>
    rename_i q y
    intro n m sa sx ha hx
    cases m with
    | zero => simp [pathF] at hx
    | succ m =>
      simp only [pathF, hp, Option.map_eq_some_iff] at hx
      obtain ⟨s', hs', rfl⟩ := hx
      exact List.prefix_append_of_prefix (ih n m sa s' ha hs')

theorem ancWalk_cases (t : Tree) (c : Nat) : ∀ n x,
    ancWalk t c n x = .ok ∨ ancWalk t c n x = .cyclicPathError ∨ ancWalk t c n x = .recursionError := by
  intro n
  induction n with
  | zero => intro x; simp [ancWalk]
  | succ n ih =>
    intro x
    simp only [ancWalk]
    split
    · simp
    · split
      · simp
      · exact ih _

theorem ancWalk_ok (t : Tree) (c : Nat) : ∀ n x, ancWalk t c n x = .ok → x ≠ c ∧ ¬ Anc t c x := by
  intro n
  induction n with
  | zero => intro x h; simp [ancWalk] at h
  | succ n ih =>
    intro x h
    simp only [ancWalk] at h
    split at h
    · cases h
    · rename_i hxc
      refine ⟨hxc, ?_⟩
      split at h
      · rename_i hp
        intro ha
        cases ha with
        | base hq => rw [hp] at hq; cases hq
        | step hq _ => rw [hp] at hq; cases hq
      · rename_i q hp
        have := ih q h
        intro ha
        cases ha with
        | base hq => rw [hp] at hq; cases hq; exact this.1 rfl
        | step hq hr => rw [hp] at hq; cases hq; exact this.2 hr

/-- a walk that raises has met the child: it is the prospective parent or one of its ancestors -/
theorem ancWalk_cyclic (t : Tree) (c : Nat) : ∀ n x, ancWalk t c n x = .cyclicPathError →
    x = c ∨ Anc t c x := by
  intro n
  induction n with
  | zero => intro x h; simp [ancWalk] at h
  | succ n ih =>
    intro x h
    simp only [ancWalk] at h
    split at h
    · rename_i hxc; exact .inl hxc
    · split at h
      · cases h
      · rename_i q hp
        rcases ih q h with e | e
        · subst e; exact .inr (.base hp)
        · exact .inr (.step hp e)

/-- the walk only reads the parents of nodes other than the child itself -/
theorem ancWalk_congr (t t' : Tree) (c : Nat) (hpar : ∀ x, x ≠ c → t'.parent x = t.parent x) :
    ∀ n x, ancWalk t' c n x = ancWalk t c n x := by
  intro n
  induction n with
  | zero => intro x; rfl
  | succ n ih =>
    intro x
    simp only [ancWalk]
    split
    · rfl
    · rename_i hxc
      rw [hpar x hxc]
      split
      · rfl
      · exact ih _

/-- a passed check excludes that the child is a proper ancestor of the prospective parent -/
theorem not_anc_of_cyclicCheck_ok (cfg : Cfg) (t : Tree) (p c : Nat)
    (h : cyclicCheck cfg t p c = .ok) : ¬ Anc t c p := by
  intro hanc
  unfold cyclicCheck at h
  split at h
  · exact (ancWalk_ok t c _ _ h).2 hanc
  · split at h
    · cases h
    · rename_i sp hsp
      split at h
      · cases h
      · rename_i sc hsc
        have := path_prefix_of_anc t hanc _ _ sc sp hsc hsp
        simp [List.isPrefixOf_iff_prefix, this] at h

theorem ne_of_cyclicCheck_ok (cfg : Cfg) (t : Tree) (p c : Nat) (hs : cfg.identityCheck = true)
    (h : cyclicCheck cfg t p c = .ok) : p ≠ c := by
  unfold cyclicCheck at h
  rw [if_pos hs] at h
  exact (ancWalk_ok t c _ _ h).1

theorem cyclicCheck_cases (cfg : Cfg) (t : Tree) (p c : Nat) :
    cyclicCheck cfg t p c = .ok ∨ cyclicCheck cfg t p c = .cyclicPathError ∨
      cyclicCheck cfg t p c = .recursionError := by
  unfold cyclicCheck
  split
  · exact ancWalk_cases t c _ _
  · split
    · simp
    · split
      · simp
      · split <;> simp

theorem cyclicCheck_cyclic_imp {cfg : Cfg} (hs : cfg.identityCheck = true) {t : Tree} {p c : Nat}
    (h : cyclicCheck cfg t p c = .cyclicPathError) : p = c ∨ Anc t c p := by
  unfold cyclicCheck at h
  rw [if_pos hs] at h
  exact ancWalk_cyclic t c _ _ h

/-- identity variant: the outcome is insensitive to labels, children and the child's own parent -/
theorem cyclicCheck_congr_identity {cfg : Cfg} (hs : cfg.identityCheck = true) (t t' : Tree)
    (p c : Nat) (hpar : ∀ x, x ≠ c → t'.parent x = t.parent x) :
    cyclicCheck cfg t' p c = cyclicCheck cfg t p c := by
  unfold cyclicCheck
  simp only [hs, if_true]
  exact ancWalk_congr t t' c hpar _ _

/-- string variant: when the child hangs directly below the prospective parent its path is
longer than the parent's and cannot be a prefix of it -/
theorem cyclicCheck_child_of (cfg : Cfg) (t : Tree) (p c : Nat) (hs : cfg.identityCheck = false)
    (hp : t.parent c = some p) :
    cyclicCheck cfg t p c = .ok ∨ cyclicCheck cfg t p c = .recursionError := by
  unfold cyclicCheck
  simp only [hs, Bool.false_eq_true, if_false]
  split
  · simp
  · rename_i sp hsp
    split
    · simp
    · rename_i sc hsc
      left
      cases hf : cfg.fuel with
      | zero => rw [hf] at hsc; simp [pathF] at hsc
      | succ n =>
        rw [hf] at hsc hsp
        simp only [pathF, hp, Option.map_eq_some_iff] at hsc
        obtain ⟨s', hs', rfl⟩ := hsc
        have e := pathF_det t n (n + 1) p s' sp hs' hsp
        subst e
        rw [if_neg]
        rw [List.isPrefixOf_iff_prefix]
        intro hpre
        have := hpre.length_le
        simp at this
        omega

/-- the check only looks at parents and labels -/
theorem pathF_congr (t t' : Tree) (hp : t'.parent = t.parent) (hl : t'.label = t.label) :
    ∀ n x, pathF t' n x = pathF t n x := by
  intro n
  induction n with
  | zero => intro x; rfl
  | succ n ih => intro x; simp only [pathF, hp, hl, ih]

theorem cyclicCheck_congr (cfg : Cfg) (t t' : Tree) (hp : t'.parent = t.parent)
    (hl : t'.label = t.label) (p c : Nat) : cyclicCheck cfg t' p c = cyclicCheck cfg t p c := by
  unfold cyclicCheck
  simp only [pathF_congr t t' hp hl, ancWalk_congr t t' c (fun x _ => by rw [hp])]

/-! ## the invariant -/

structure WFTree (t : Tree) : Prop where
  /-- a composite lists a node under a label exactly when the node names it as parent and
  carries that label -/
  agree      : ∀ p c l, (l, c) ∈ t.children p ↔ (t.parent c = some p ∧ t.label c = l)
  /-- sibling labels are unique -/
  keysNodup  : ∀ p, (keys (t.children p)).Nodup
  /-- and never collide with the composite's own attributes -/
  noClash    : ∀ p l c, (l, c) ∈ t.children p → l ∉ t.reserved p
  /-- following parents always ends at a root -/
  acyclic    : WellFounded (Par t)
  /-- a workflow never has a parent -/
  wfRoots    : ∀ n, t.kind n = .workflow → t.parent n = none
  /-- starting nodes are current children -/
  starters   : ∀ p s, s ∈ t.starting p → ∃ l, (l, s) ∈ t.children p
  startNodup : ∀ p, (t.starting p).Nodup
  /-- labels never contain the path delimiter -/
  labelsOk   : ∀ c, '/' ∉ t.label c

theorem WFTree.mem_vals_iff {t : Tree} (h : WFTree t) (p c : Nat) :
    c ∈ vals (t.children p) ↔ t.parent c = some p := by
  rw [mem_vals]
  constructor
  · rintro ⟨k, hk⟩; exact ((h.agree p c k).mp hk).1
  · intro hp; exact ⟨t.label c, (h.agree p c _).mpr ⟨hp, rfl⟩⟩

theorem WFTree.label_of_mem {t : Tree} (h : WFTree t) {p c : Nat} {l : Str}
    (hm : (l, c) ∈ t.children p) : t.label c = l := ((h.agree p c l).mp hm).2

theorem WFTree.childLabels_eq_keys {t : Tree} (h : WFTree t) (p : Nat) :
    childLabels t p = keys (t.children p) := by
  unfold childLabels keys
  apply List.map_congr_left
  intro e he
  exact h.label_of_mem (p := p) (c := e.2) (l := e.1) he

/-- at most one parent, seen from the composites' side -/
theorem WFTree.one_parent {t : Tree} (h : WFTree t) {p q c : Nat} {l l' : Str}
    (h1 : (l, c) ∈ t.children p) (h2 : (l', c) ∈ t.children q) : p = q ∧ l = l' := by
  have a := (h.agree p c l).mp h1
  have b := (h.agree q c l').mp h2
  constructor
  · have := a.1.symm.trans b.1; simpa using this
  · exact a.2.symm.trans b.2

theorem wf_empty (kind : Nat → Kind) (strict : Nat → Bool) (reserved : Nat → List Str) :
    WFTree (empty kind strict reserved) := by
  refine ⟨?_, ?_, ?_, ?_, ?_, ?_, ?_, ?_⟩ <;> simp [empty, keys]
  constructor
  intro a
  constructor
  intro y hy
  simp [Par] at hy

/-- ext for trees whose static part is shared -/
theorem Tree.ext' {t t' : Tree} (h1 : t.kind = t'.kind) (h2 : t.strict = t'.strict)
    (h3 : t.reserved = t'.reserved) (h4 : ∀ x, t.label x = t'.label x)
    (h5 : ∀ x, t.parent x = t'.parent x) (h6 : ∀ x, t.children x = t'.children x)
    (h7 : ∀ x, t.starting x = t'.starting x) : t = t' := by
  cases t; cases t'
  simp only [Tree.mk.injEq]
  exact ⟨h1, h2, h3, funext h4, funext h5, funext h6, funext h7⟩


/-! ## the three atomic transitions -/

/-- `q` gives up its child `c` (this is literally `removeCore0`) -/
abbrev release (t : Tree) (q c : Nat) : Tree := removeCore0 t q c

/-- the orphan `c` becomes a child of `p` under the label `l` -/
def adopt (t : Tree) (p c : Nat) (l : Str) : Tree :=
  { t with label := updF t.label c l, parent := updF t.parent c (some p),
           children := updF t.children p (t.children p ++ [(l, c)]) }

/-- the child `c` of `p` is re-labelled `l` (and moves to the end of the insertion order) -/
def relabel (t : Tree) (p c : Nat) (l : Str) : Tree :=
  { t with label := updF t.label c l,
           children := updF t.children p (popVal (t.children p) c ++ [(l, c)]) }

theorem release_wf {t : Tree} (h : WFTree t) {q c : Nat} (hp : t.parent c = some q) :
    WFTree (release t q c) := by
  refine ⟨?_, ?_, ?_, ?_, ?_, ?_, ?_, ?_⟩
  · intro p x l
    have a := h.agree p x l
    have a' := h.agree p c l
    by_cases hpq : p = q <;> by_cases hxc : x = c <;>
      simp_all [release, removeCore0, updF, mem_popVal] <;> grind
  · intro p
    by_cases hpq : p = q
    · subst hpq; simp only [release, removeCore0, updF_same]; exact keys_popVal_nodup _ (h.keysNodup p)
    · simp only [release, removeCore0, updF, hpq, if_false]; exact h.keysNodup p
  · intro p l x hm
    apply h.noClash p l x
    by_cases hpq : p = q <;> simp_all [release, removeCore0, updF, mem_popVal]
  · apply Subrelation.wf (r := Par t) _ h.acyclic
    intro a b hab
    simp only [Par, release, removeCore0, updF] at hab
    split at hab
    · cases hab
    · exact hab
  · intro n hn
    have := h.wfRoots n hn
    simp only [release, removeCore0, updF]
    split <;> simp_all
  · intro p s hs
    by_cases hpq : p = q
    · subst hpq
      simp only [release, removeCore0, updF_same] at hs ⊢
      have hs' := ((h.startNodup p).mem_erase_iff).mp hs
      obtain ⟨l, hl⟩ := h.starters p s hs'.2
      exact ⟨l, mem_popVal.mpr ⟨hl, hs'.1⟩⟩
    · simp only [release, removeCore0, updF, hpq, if_false] at hs ⊢
      exact h.starters p s hs
  · intro p
    by_cases hpq : p = q
    · subst hpq; simp only [release, removeCore0, updF_same]; exact (h.startNodup p).erase c
    · simp only [release, removeCore0, updF, hpq, if_false]; exact h.startNodup p
  · exact h.labelsOk

theorem anc_parent_subset {t t' : Tree} (hsub : ∀ a b, t'.parent b = some a → t.parent b = some a)
    {a x : Nat} (h : Anc t' a x) : Anc t a x := by
  induction h with
  | base hp => exact .base (hsub _ _ hp)
  | step hp _ ih => exact .step (hsub _ _ hp) ih

theorem anc_of_parent_anc {t : Tree} {x y p : Nat} (hy : t.parent x = some y) (e : Anc t x p) :
    Anc t y p := by
  induction e with
  | base hq => exact .step hq (.base hy)
  | step hq _ ih => exact .step hq ih

/-- giving the node `c` the parent `p` keeps the parent relation well-founded as long as `c` is
neither `p` nor one of its ancestors -/
theorem wf_set_parent (t t' : Tree) (c p : Nat) (hw : WellFounded (Par t)) (hne : c ≠ p)
    (hanc : ¬ Anc t c p) (hpar : ∀ x, t'.parent x = if x = c then some p else t.parent x) :
    WellFounded (Par t') := by
  have up : ∀ x, (x = p ∨ Anc t x p) → Acc (Par t') x := by
    intro x
    induction x using hw.induction with
    | _ x ih =>
      intro hx
      constructor
      intro y hy
      have hxc : x ≠ c := by
        intro e; subst e
        rcases hx with e | e
        · exact hne e
        · exact hanc e
      have hy' : t.parent x = some y := by
        have := hpar x; simp only [Par] at hy; rw [hy] at this; simp [hxc] at this; exact this.symm
      apply ih y hy'
      right
      rcases hx with e | e
      · subst e; exact .base hy'
      · exact anc_of_parent_anc hy' e
  have hc : Acc (Par t') c := by
    constructor
    intro y hy
    have := hpar c; simp only [Par] at hy; rw [hy] at this; simp at this
    subst this
    exact up y (.inl rfl)
  constructor
  intro x
  induction x using hw.induction with
  | _ x ih =>
    by_cases hxc : x = c
    · subst hxc; exact hc
    · constructor
      intro y hy
      apply ih y
      have := hpar x; simp only [Par] at hy; rw [hy] at this; simp [hxc] at this
      exact this.symm

theorem adopt_wf {t : Tree} (h : WFTree t) {p c : Nat} {l : Str} (hp : t.parent c = none)
    (hk : t.kind c ≠ .workflow) (hl : l ∉ dirOf t p) (hs : '/' ∉ l) (hanc : ¬ Anc t c p)
    (hne : c ≠ p) : WFTree (adopt t p c l) := by
  have hlk : l ∉ keys (t.children p) := fun hh => hl (by simp [dirOf, hh])
  have hlr : l ∉ t.reserved p := fun hh => hl (by simp [dirOf, hh])
  have hnotlisted : ∀ r k, (k, c) ∉ t.children r := by
    intro r k hm
    have := ((h.agree r c k).mp hm).1
    rw [hp] at this; cases this
  refine ⟨?_, ?_, ?_, ?_, ?_, ?_, ?_, ?_⟩
  · intro r x k
    have a := h.agree r x k
    have n1 := hnotlisted r k
    by_cases hrp : r = p <;> by_cases hxc : x = c <;> simp_all [adopt, updF] <;> grind
  · intro r
    by_cases hrp : r = p
    · subst hrp
      simp only [adopt, updF_same, keys, List.map_append, List.map_cons, List.map_nil]
      rw [List.nodup_append]
      refine ⟨h.keysNodup r, by simp, ?_⟩
      intro a ha b hb
      simp at hb; subst hb
      intro e; subst e; exact hlk ha
    · simp only [adopt, updF, hrp, if_false]; exact h.keysNodup r
  · intro r k x hm
    by_cases hrp : r = p
    · subst hrp
      simp only [adopt, updF_same, List.mem_append, List.mem_singleton, Prod.mk.injEq] at hm
      rcases hm with hm | ⟨rfl, rfl⟩
      · exact h.noClash r k x hm
      · exact hlr
    · simp only [adopt, updF, hrp, if_false] at hm
      exact h.noClash r k x hm
  · apply wf_set_parent t (adopt t p c l) c p h.acyclic hne hanc
    intro x; simp [adopt, updF]
  · intro n hn
    have := h.wfRoots n hn
    by_cases hnc : n = c
    · subst hnc; exact absurd hn hk
    · simp [adopt, updF, hnc, this]
  · intro r s hs
    obtain ⟨k, hk⟩ := h.starters r s hs
    refine ⟨k, ?_⟩
    by_cases hrp : r = p
    · subst hrp; simp [adopt, updF, hk]
    · simp [adopt, updF, hrp, hk]
  · exact h.startNodup
  · intro x
    by_cases hxc : x = c
    · subst hxc; simp [adopt, updF, hs]
    · simp only [adopt, updF, hxc, if_false]; exact h.labelsOk x

theorem relabel_wf {t : Tree} (h : WFTree t) {p c : Nat} {l : Str} (hp : t.parent c = some p)
    (hl : l ∉ dirOf t p) (hs : '/' ∉ l) : WFTree (relabel t p c l) := by
  have hlk : l ∉ keys (t.children p) := fun hh => hl (by simp [dirOf, hh])
  have hlr : l ∉ t.reserved p := fun hh => hl (by simp [dirOf, hh])
  refine ⟨?_, ?_, ?_, ?_, ?_, ?_, ?_, ?_⟩
  · intro r x k
    have a := h.agree r x k
    have a' := h.agree r c k
    by_cases hrp : r = p <;> by_cases hxc : x = c <;> simp_all [relabel, updF, mem_popVal] <;> grind
  · intro r
    by_cases hrp : r = p
    · subst hrp
      simp only [relabel, updF_same, keys, List.map_append, List.map_cons, List.map_nil]
      rw [List.nodup_append]
      refine ⟨keys_popVal_nodup c (h.keysNodup r), by simp, ?_⟩
      intro a ha b hb
      simp at hb; subst hb
      intro e; subst e
      apply hlk
      obtain ⟨v, hv⟩ := mem_keys.mp ha
      exact mem_keys.mpr ⟨v, (mem_popVal.mp hv).1⟩
    · simp only [relabel, updF, hrp, if_false]; exact h.keysNodup r
  · intro r k x hm
    by_cases hrp : r = p
    · subst hrp
      simp only [relabel, updF_same, List.mem_append, List.mem_singleton, Prod.mk.injEq] at hm
      rcases hm with hm | ⟨rfl, rfl⟩
      · exact h.noClash r k x (mem_popVal.mp hm).1
      · exact hlr
    · simp only [relabel, updF, hrp, if_false] at hm
      exact h.noClash r k x hm
  · exact h.acyclic
  · exact h.wfRoots
  · intro r s hs
    obtain ⟨k, hk⟩ := h.starters r s hs
    by_cases hrp : r = p
    · subst hrp
      by_cases hsc : s = c
      · subst hsc; exact ⟨l, by simp [relabel, updF]⟩
      · exact ⟨k, by simp [relabel, updF, mem_popVal, hk, hsc]⟩
    · exact ⟨k, by simp [relabel, updF, hrp, hk]⟩
  · exact h.startNodup
  · intro x
    by_cases hxc : x = c
    · subst hxc; simp [relabel, updF, hs]
    · simp only [relabel, updF, hxc, if_false]; exact h.labelsOk x


/-! ## the transcribed protocol on well-formed trees -/

structure Repaired (cfg : Cfg) : Prop where
  f1 : cfg.releaseByValue = true
  f2 : cfg.prevalidate = true
  f3 : cfg.labelBeforePop = true
  f4 : cfg.rollbackAdopt = true
  f5 : cfg.identityCheck = true
  f6 : cfg.relabelByMembership = true

theorem repaired_repaired (fuel : Nat) : Repaired (Cfg.repaired fuel) := ⟨rfl, rfl, rfl, rfl, rfl, rfl⟩
/-- the tree after the four `fix:` commits (without the replace pre-check F7) -/
theorem sixFixes_repaired (fuel : Nat) : Repaired (Cfg.sixFixes fuel) := ⟨rfl, rfl, rfl, rfl, rfl, rfl⟩
/-- /repo at 02da358 and later (F1–F7) -/
theorem head_repaired (fuel : Nat) : Repaired (Cfg.head fuel) := ⟨rfl, rfl, rfl, rfl, rfl, rfl⟩

/-- what the property asks of one operation: accepted ⇒ the invariant holds afterwards;
rejected ⇒ nothing changed (a `RecursionError` from Python's recursion limit set aside) -/
def Good (t : Tree) (r : Tree × Outcome) : Prop :=
  (r.2 = .ok → WFTree r.1) ∧ (r.2 ≠ .ok → r.2 ≠ .recursionError → r.1 = t)

theorem good_same {t : Tree} (h : WFTree t) (o : Outcome) : Good t (t, o) := ⟨fun _ => h, fun _ _ => rfl⟩

theorem WFTree.not_workflow_of_parent {t : Tree} (h : WFTree t) {c q : Nat}
    (hp : t.parent c = some q) : t.kind c ≠ .workflow := by
  intro hk; rw [h.wfRoots c hk] at hp; cases hp

theorem setParentNone1_after_pop (cfg : Cfg) {t : Tree} (h : WFTree t) {q c : Nat}
    (hp : t.parent c = some q) (ch : List (Str × Nat)) (hc : c ∉ vals ch) :
    setParentNone1 cfg { t with children := updF t.children q ch } c =
      { t with children := updF t.children q ch, parent := updF t.parent c none } := by
  unfold setParentNone1
  simp [h.not_workflow_of_parent hp, hp, hc]

theorem removeListed_eq (cfg : Cfg) {t : Tree} (h : WFTree t) {q c : Nat}
    (hp : t.parent c = some q) : removeListed cfg t q c = release t q c := by
  unfold removeListed
  simp only [setParentNone1_after_pop cfg h hp _ (not_mem_vals_popVal _ c)]
  rfl

theorem removeChild_good (cfg : Cfg) {t : Tree} (h : WFTree t) (q c : Nat) :
    Good t (removeChild cfg t q c) := by
  unfold removeChild
  split
  · exact good_same h _
  · split
    · rename_i hm
      have hp := (h.mem_vals_iff q c).mp hm
      rw [removeListed_eq cfg h hp]
      exact ⟨fun _ => release_wf h hp, fun hne => absurd rfl hne⟩
    · exact good_same h _

theorem eq_of_mem_same_key {l : List (Str × Nat)} (hn : (keys l).Nodup) {k : Str} {v v' : Nat}
    (h1 : (k, v) ∈ l) (h2 : (k, v') ∈ l) : v = v' := by
  have a := lookupKey_of_mem hn h1
  have b := lookupKey_of_mem hn h2
  rw [a] at b; simpa using b

theorem WFTree.popKey_eq_popVal {t : Tree} (h : WFTree t) {q c : Nat} {l : Str}
    (hm : (l, c) ∈ t.children q) : popKey (t.children q) l = popVal (t.children q) c := by
  unfold popKey popVal
  apply List.filter_congr
  intro e he
  obtain ⟨k, v⟩ := e
  simp only [ne_eq, decide_not, Bool.not_eq_eq_eq_not, Bool.not_not, decide_eq_decide]
  constructor
  · intro hk; subst hk; exact eq_of_mem_same_key (h.keysNodup q) he hm
  · intro hv; subst hv; exact (h.one_parent he hm).2

theorem removeChildLabel_good (cfg : Cfg) {t : Tree} (h : WFTree t) (q : Nat) (l : Str) :
    Good t (removeChildLabel cfg t q l) := by
  unfold removeChildLabel
  split
  · exact good_same h _
  · split
    · exact good_same h _
    · rename_i c hl
      have hm := lookupKey_some_mem hl
      have hp := ((h.agree q c l).mp hm).1
      simp only [h.popKey_eq_popVal hm, setParentNone1_after_pop cfg h hp _ (not_mem_vals_popVal _ c)]
      exact ⟨fun _ => release_wf h hp, fun hne => absurd rfl hne⟩

/-- `c.parent = None` (repaired: the old parent really lets go) -/
theorem setParent_none_good {cfg : Cfg} (hr : Repaired cfg) {t : Tree} (h : WFTree t) (c : Nat) :
    Good t (setParent cfg t c none) := by
  unfold setParent
  split
  · exact good_same h _
  · split
    · exact good_same h _
    · rename_i hk hne
      cases hp : t.parent c with
      | none => rw [hp] at hne; exact absurd rfl hne
      | some q =>
        have hm := (h.mem_vals_iff q c).mpr hp
        simp only [hr.f1, hm, and_self, if_true, removeListed_eq cfg h hp]
        refine ⟨fun _ => ?_, fun hne => absurd rfl hne⟩
        have : ({ release t q c with parent := updF (release t q c).parent c none } : Tree) = release t q c := by
          apply Tree.ext' <;> intros <;> simp [release, removeCore0, updF]
          intro a b; exact absurd a b
        rw [this]
        exact release_wf h hp


/-! ### labels -/

theorem suffixLoop_spec (dir : List Str) (label : Str) : ∀ (n i : Nat) (l : Str),
    suffixLoop dir label n i = some l → l ∉ dir ∧ ∃ j, l = label ++ Nat.toDigits 10 j := by
  intro n
  induction n with
  | zero => intro i l h; simp [suffixLoop] at h
  | succ n ih =>
    intro i l h
    simp only [suffixLoop] at h
    split at h
    · exact ih (i + 1) l h
    · rename_i hnot
      simp at h; subst h
      exact ⟨hnot, i, rfl⟩

theorem uniqueLabel_ok {t : Tree} {p : Nat} {label l' : Str} {strict : Bool}
    (h : uniqueLabel t p label strict = .ok l') :
    l' ∉ dirOf t p ∧ (l' = label ∨ ∃ j, l' = label ++ Nat.toDigits 10 j) := by
  unfold uniqueLabel at h
  split at h
  · rename_i hin
    split at h
    · split at h
      · cases h
      · split at h
        · rename_i l hl
          simp only [Except.ok.injEq] at h; subst h
          unfold addSuffix at hl
          rw [if_pos hin] at hl
          have := suffixLoop_spec _ _ _ _ _ hl
          exact ⟨this.1, .inr this.2⟩
        · cases h
    · cases h
  · rename_i hnot
    simp only [Except.ok.injEq] at h; subst h
    exact ⟨hnot, .inl rfl⟩

theorem slash_not_digit (j : Nat) : '/' ∉ Nat.toDigits 10 j := by
  intro h
  have := Nat.isDigit_of_mem_toDigits (b := 10) (by decide) (by decide) h
  exact absurd this (by decide)

theorem uniqueLabel_no_slash {t : Tree} {p : Nat} {label l' : Str} {strict : Bool}
    (hs : '/' ∉ label) (h : uniqueLabel t p label strict = .ok l') : '/' ∉ l' := by
  rcases (uniqueLabel_ok h).2 with rfl | ⟨j, rfl⟩
  · exact hs
  · simp [hs, slash_not_digit]

/-- uniqueness only depends on the composite's own child list and the labels of its children -/
theorem uniqueLabel_congr (t t' : Tree) (p : Nat) (label : Str) (strict : Bool)
    (hr : t'.reserved p = t.reserved p) (hc : t'.children p = t.children p)
    (hl : childLabels t' p = childLabels t p) :
    uniqueLabel t' p label strict = uniqueLabel t p label strict := by
  unfold uniqueLabel dirOf
  simp only [hr, hc, hl]

/-- what `add_child` relies on about the child list of `p` -/
structure LocalOK (t : Tree) (p : Nat) : Prop where
  nodup : (keys (t.children p)).Nodup
  labels : ∀ k v, (k, v) ∈ t.children p → t.label v = k

theorem WFTree.localOK {t : Tree} (h : WFTree t) (p : Nat) : LocalOK t p :=
  ⟨h.keysNodup p, fun _ _ hm => h.label_of_mem hm⟩

theorem LocalOK.childLabels_eq {t : Tree} {p : Nat} (h : LocalOK t p) :
    childLabels t p = keys (t.children p) := by
  unfold childLabels keys
  apply List.map_congr_left
  intro e he
  exact h.labels e.1 e.2 he

theorem alreadyAtLabel_eq {t : Tree} {p : Nat} (hl : LocalOK t p) (c : Nat) (label : Str) :
    alreadyAtLabel t p c label = .ok (decide (label = t.label c ∧ (label, c) ∈ t.children p)) := by
  unfold alreadyAtLabel
  rw [hl.childLabels_eq]
  split
  · rename_i h1
    obtain ⟨v, hv⟩ := mem_keys.mp h1.2
    rw [lookupKey_of_mem hl.nodup hv]
    simp only [Except.ok.injEq, decide_eq_decide]
    constructor
    · intro e; subst e; exact ⟨h1.1, hv⟩
    · intro h2; exact eq_of_mem_same_key hl.nodup hv h2.2
  · rename_i h1
    simp only [Except.ok.injEq, Bool.false_eq, decide_eq_false_iff_not]
    intro h2
    exact h1 ⟨h2.1, mem_keys.mpr ⟨c, h2.2⟩⟩

/-! ### `add_child` body -/

theorem addChildCore_notok (cfg : Cfg) (s : Tree) (p c : Nat) (lbl : Option Str) (sa : Option Bool)
    (k : Tree → Tree × Outcome) (hc : cyclicCheck cfg s p c ≠ .ok) :
    addChildCore cfg s p c lbl sa k = (s, cyclicCheck cfg s p c) := by
  unfold addChildCore
  rcases cyclicCheck_cases cfg s p c with h | h | h
  · exact absurd h hc
  · rw [h]
  · rw [h]

/-- the state just after `self.children[child.label] = child` for a newcomer -/
def inserted (s : Tree) (p c : Nat) (l : Str) : Tree :=
  { s with label := updF s.label c l, children := updF s.children p (s.children p ++ [(l, c)]) }

theorem addChildCore_fresh {cfg : Cfg} (hr : Repaired cfg) {s : Tree} {p c : Nat}
    {lbl : Option Str} {sa : Option Bool} (k : Tree → Tree × Outcome) {l' : Str}
    (hl : LocalOK s p) (hc : cyclicCheck cfg s p c = .ok)
    (hpar : ¬ (s.parent c ≠ none ∧ s.parent c ≠ some p)) (hnl : c ∉ vals (s.children p))
    (hu : uniqueLabel s p (lbl.getD (s.label c)) (sa.getD (s.strict p)) = .ok l')
    (hsl : '/' ∉ l') :
    addChildCore cfg s p c lbl sa k =
      match k (inserted s p c l') with
      | (t4, .ok) => (t4, .ok)
      | (t4, e) => ({ t4 with children := updF t4.children p (popKey (t4.children p) l'),
                              label := updF t4.label c (s.label c) }, e) := by
  have hk : l' ∉ keys (s.children p) := fun hh => (uniqueLabel_ok hu).1 (by simp [dirOf, hh])
  have hmem : ∀ l, (l, c) ∉ s.children p := fun l hm => hnl (mem_vals.mpr ⟨l, hm⟩)
  unfold addChildCore
  simp only [hc, hpar, if_false, alreadyAtLabel_eq hl, hmem, and_false, decide_false, hu, hr.f6, hr.f3,
    hr.f4, if_true, hnl, Bool.false_and, hsl, Bool.false_eq_true, updF_same]
  rw [bidictPut_fresh hk hnl]
  simp only [inserted]
  split <;> simp_all

theorem addChildCore_relabel {cfg : Cfg} (hr : Repaired cfg) {s : Tree} {p c : Nat}
    {lbl : Option Str} {sa : Option Bool} (k : Tree → Tree × Outcome) {l' : Str}
    (hl : LocalOK s p) (hc : cyclicCheck cfg s p c = .ok)
    (hpar : ¬ (s.parent c ≠ none ∧ s.parent c ≠ some p)) (hin : c ∈ vals (s.children p))
    (ha : ¬ (lbl.getD (s.label c) = s.label c))
    (hu : uniqueLabel s p (lbl.getD (s.label c)) (sa.getD (s.strict p)) = .ok l')
    (hsl : '/' ∉ l') :
    addChildCore cfg s p c lbl sa k =
      match k (relabel s p c l') with
      | (t4, .ok) => (t4, .ok)
      | (t4, e) => ({ t4 with children := updF t4.children p (popKey (t4.children p) l'),
                              label := updF t4.label c (s.label c) }, e) := by
  have hk : l' ∉ keys (s.children p) := fun hh => (uniqueLabel_ok hu).1 (by simp [dirOf, hh])
  obtain ⟨k0, hk0⟩ := mem_vals.mp hin
  have hne : l' ≠ s.label c := by
    intro e; apply hk; rw [e]
    have := hl.labels k0 c hk0
    exact mem_keys.mpr ⟨c, by rw [this]; exact hk0⟩
  have hk' : l' ∉ keys (popVal (s.children p) c) := by
    intro hh; obtain ⟨v, hv⟩ := mem_keys.mp hh
    exact hk (mem_keys.mpr ⟨v, (mem_popVal.mp hv).1⟩)
  unfold addChildCore
  simp only [hc, hpar, if_false, alreadyAtLabel_eq hl, ha, false_and, decide_false, hu, hr.f6, hr.f3,
    hr.f4, if_true, hin, decide_true, hne, ne_eq, not_false_eq_true, Bool.and_self, hsl, updF_same]
  rw [bidictPut_fresh hk' (not_mem_vals_popVal _ c)]
  simp only [relabel, updF_updF]
  split <;> simp_all


theorem good_of_recursion {t : Tree} {r : Tree × Outcome} (h : r.2 = .recursionError) : Good t r :=
  ⟨fun h' => (by rw [h] at h'; cases h'), fun _ h' => absurd h h'⟩

theorem inserted_rollback {t : Tree} {p c : Nat} {l' : Str} (hk : l' ∉ keys (t.children p)) :
    ({ inserted t p c l' with
        children := updF (inserted t p c l').children p (popKey ((inserted t p c l').children p) l'),
        label := updF (inserted t p c l').label c (t.label c) } : Tree) = t := by
  apply Tree.ext'
  · rfl
  · rfl
  · rfl
  · intro x; simp only [inserted, updF]; split <;> simp_all
  · intro x; rfl
  · intro x
    simp only [inserted, updF_updF, updF_same, popKey_append_fresh hk]
    simp only [updF]; split <;> simp_all
  · intro x; rfl

/-- the innermost `self._parent.add_child(self)` of `_set_parent`, for a child that the new
parent does not list yet: inserts it -/
theorem adopt_via_setParent {cfg : Cfg} (hr : Repaired cfg) {t1 : Tree} (h1 : WFTree t1) {p c : Nat}
    (hp : t1.parent c = none) (hk : t1.kind c ≠ .workflow) (hne : p ≠ c) (hanc : ¬ Anc t1 c p)
    (hc1 : cyclicCheck cfg t1 p c = .ok)
    {l' : Str} (hu : uniqueLabel t1 p (t1.label c) (t1.strict p) = .ok l') :
    addChildCore cfg { t1 with parent := updF t1.parent c (some p) } p c none none
        (setParentEarly p c) = (adopt t1 p c l', .ok) ∧ WFTree (adopt t1 p c l') := by
  have hnl : c ∉ vals (t1.children p) := by
    rw [h1.mem_vals_iff, hp]; simp
  have hsl : '/' ∉ l' := uniqueLabel_no_slash (h1.labelsOk c) hu
  have hwf : WFTree (adopt t1 p c l') :=
    adopt_wf h1 hp hk (uniqueLabel_ok hu).1 hsl hanc (Ne.symm hne)
  let t2 : Tree := { t1 with parent := updF t1.parent c (some p) }
  have hl2 : LocalOK t2 p := ⟨h1.keysNodup p, fun _ _ hm => h1.label_of_mem hm⟩
  have hup : t2.parent c = some p := by simp [t2]
  have hc : cyclicCheck cfg t2 p c = .ok := by
    rw [cyclicCheck_congr_identity hr.f5 t1 t2 p c (fun x hx => by simp [t2, updF, hx])]
    exact hc1
  refine ⟨?_, hwf⟩
  have hu2 : uniqueLabel t2 p (Option.getD none (t2.label c)) (Option.getD none (t2.strict p)) = .ok l' := hu
  rw [addChildCore_fresh hr _ hl2 hc (by simp [hup]) hnl hu2 hsl]
  simp [setParentEarly, inserted, t2, adopt]

theorem setParent_some_good {cfg : Cfg} (hr : Repaired cfg) {t : Tree} (h : WFTree t) (c p : Nat) :
    Good t (setParent cfg t c (some p)) := by
  unfold setParent
  split
  · exact good_same h _
  · split
    · exact good_same h _
    · rename_i hk hne
      simp only []
      split
      · exact good_same h _
      · rcases cyclicCheck_cases cfg t p c with hc | hc | hc
        · have hpc : p ≠ c := ne_of_cyclicCheck_ok cfg t p c hr.f5 hc
          have hanc : ¬ Anc t c p := not_anc_of_cyclicCheck_ok cfg t p c hc
          have hnl : c ∉ vals (t.children p) := by
            rw [h.mem_vals_iff]; exact fun e => hne e.symm
          simp only [hc, hr.f2, hnl, not_false_eq_true, and_self, if_true]
          cases hu : uniqueLabel t p (t.label c) (t.strict p) with
          | error e => exact good_same h _
          | ok l' =>
            simp only []
            cases hp : t.parent c with
            | none =>
              simp only []
              obtain ⟨he, hw⟩ := adopt_via_setParent hr h hp hk hpc hanc hc hu
              rw [he]; exact ⟨fun _ => hw, fun hn => absurd rfl hn⟩
            | some q =>
              have hm := (h.mem_vals_iff q c).mpr hp
              have hqp : q ≠ p := by intro e; subst e; exact hne hp.symm
              simp only [hr.f1, hm, and_self, if_true, removeListed_eq cfg h hp]
              have h1 := release_wf h hp
              have hp1 : (release t q c).parent c = none := by simp [release, removeCore0]
              have hanc1 : ¬ Anc (release t q c) c p := by
                intro ha; apply hanc
                refine anc_parent_subset ?_ ha
                intro a b hab
                simp only [release, removeCore0, updF] at hab
                split at hab
                · cases hab
                · exact hab
              have hu1 : uniqueLabel (release t q c) p ((release t q c).label c) ((release t q c).strict p) = .ok l' := by
                rw [← hu]
                apply uniqueLabel_congr
                · rfl
                · simp [release, removeCore0, updF, Ne.symm hqp]
                · simp [childLabels, release, removeCore0, updF, Ne.symm hqp]
              have hc1 : cyclicCheck cfg (release t q c) p c = .ok := by
                rw [cyclicCheck_congr_identity hr.f5 t (release t q c) p c
                  (fun x hx => by simp [release, removeCore0, updF, hx])]
                exact hc
              obtain ⟨he, hw⟩ := adopt_via_setParent hr h1 hp1 hk hpc hanc1 hc1 hu1
              rw [he]; exact ⟨fun _ => hw, fun hn => absurd rfl hn⟩
        · simp only [hc]; exact good_same h _
        · simp only [hc]; exact good_same h _

/-- the reflexive `child.parent = self` right after a newcomer has been inserted -/
theorem setParent_inserted {cfg : Cfg} (hr : Repaired cfg) {t : Tree} (h : WFTree t) {p c : Nat}
    {l' : Str} (hp : t.parent c = none) (hcomp : (t.kind p).isComposite = true) (hpc : p ≠ c)
    (hanc : ¬ Anc t c p) (hl : l' ∉ dirOf t p) (hsl : '/' ∉ l') :
    (setParent cfg (inserted t p c l') c (some p) = (adopt t p c l', .ok) ∧ WFTree (adopt t p c l')) ∨
    ((setParent cfg (inserted t p c l') c (some p)).2 = .recursionError) ∨
    (t.kind c = .workflow ∧
      setParent cfg (inserted t p c l') c (some p) = (inserted t p c l', .parentMostError)) := by
  have hlk : l' ∉ keys (t.children p) := fun hh => hl (by simp [dirOf, hh])
  unfold setParent
  by_cases hk : t.kind c = .workflow
  · right; right
    exact ⟨hk, by simp [inserted, hk]⟩
  · have hk' : ¬ (inserted t p c l').kind c = .workflow := hk
    have hnp : ¬ (some p = (inserted t p c l').parent c) := by simp [inserted, hp]
    have hcomp' : ¬ ((inserted t p c l').kind p).isComposite = false := by simp [inserted, hcomp]
    simp only [hk', if_false, hnp, hcomp', Bool.true_eq_false]
    rcases cyclicCheck_cases cfg (inserted t p c l') p c with hc | hc | hc
    · have hin : c ∈ vals ((inserted t p c l').children p) := by
        simp [inserted, vals]
      have hpi : (inserted t p c l').parent c = none := hp
      simp only [hc, hin, not_true_eq_false, and_false, if_false, hpi]
      -- the innermost add_child finds the child at its label
      let t2 : Tree := { inserted t p c l' with parent := updF (inserted t p c l').parent c (some p) }
      have e2 : t2 = adopt t p c l' := by
        apply Tree.ext' <;> intros <;> rfl
      have hwf : WFTree (adopt t p c l') := adopt_wf h hp hk hl hsl hanc (Ne.symm hpc)
      have hup : t2.parent c = some p := by simp [t2]
      have hc2 : cyclicCheck cfg t2 p c = .ok := by
        rw [cyclicCheck_congr_identity hr.f5 (inserted t p c l') t2 p c
          (fun x hx => by simp [t2, updF, hx])]
        exact hc
      left
      refine ⟨?_, hwf⟩
      have hl2 : LocalOK t2 p := by rw [e2]; exact hwf.localOK p
      have hmem : (t2.label c, c) ∈ t2.children p := by simp [t2, inserted]
      show addChildCore cfg t2 p c none none (setParentEarly p c) = _
      unfold addChildCore
      simp only [hc2, hup, alreadyAtLabel_eq hl2, Option.getD_none, hmem, and_self, decide_true]
      simp [e2]
    · -- the second walk sees the same parents as the first one
      exfalso
      rcases cyclicCheck_cyclic_imp hr.f5 hc with e | ha
      · exact hpc e
      · exact hanc (anc_parent_subset (t := t) (t' := inserted t p c l') (fun _ _ hab => hab) ha)
    · right; left
      simp only [hc]

theorem uniqueLabel_error_ne_ok {t : Tree} {p : Nat} {label : Str} {strict : Bool} {e : Outcome}
    (h : uniqueLabel t p label strict = .error e) : e ≠ .ok := by
  unfold uniqueLabel at h
  split at h
  · split at h
    · split at h
      · cases h; decide
      · split at h
        · cases h
        · cases h; decide
    · cases h; decide
  · cases h

/-- what `add_child` amounts to on a well-formed tree (repaired variant) -/
def AddSpec (t : Tree) (p c : Nat) (lbl : Option Str) (r : Tree × Outcome) : Prop :=
  (∃ e, r = (t, e) ∧ (e = .ok → t.parent c = some p)) ∨
  (∃ l', r = (relabel t p c l', .ok) ∧ t.parent c = some p ∧ l' ∉ dirOf t p ∧ '/' ∉ l' ∧
      lbl.getD (t.label c) ≠ t.label c) ∨
  (∃ l', r = (adopt t p c l', .ok) ∧ t.parent c = none ∧ t.kind c ≠ .workflow ∧ l' ∉ dirOf t p ∧
      '/' ∉ l' ∧ ¬ Anc t c p ∧ c ≠ p) ∨
  r.2 = .recursionError

theorem AddSpec.good {t : Tree} (h : WFTree t) {p c : Nat} {lbl : Option Str} {r : Tree × Outcome}
    (hs : AddSpec t p c lbl r) : Good t r := by
  rcases hs with ⟨e, rfl, _⟩ | ⟨l', rfl, hp, hl, hsl, _⟩ | ⟨l', rfl, hp, hk, hl, hsl, hanc, hne⟩ | hrec
  · exact good_same h _
  · exact ⟨fun _ => relabel_wf h hp hl hsl, fun hn => absurd rfl hn⟩
  · exact ⟨fun _ => adopt_wf h hp hk hl hsl hanc hne, fun hn => absurd rfl hn⟩
  · exact good_of_recursion hrec

theorem addChild_spec {cfg : Cfg} (hr : Repaired cfg) {t : Tree} (h : WFTree t) (p c : Nat)
    (lbl : Option Str) (sa : Option Bool) : AddSpec t p c lbl (addChild cfg t p c lbl sa) := by
  unfold addChild
  split
  · exact .inl ⟨_, rfl, fun e => by cases e⟩
  · rename_i hcomp
    simp only [Bool.not_eq_false] at hcomp
    rcases cyclicCheck_cases cfg t p c with hc | hc | hc
    · have hpc : p ≠ c := ne_of_cyclicCheck_ok cfg t p c hr.f5 hc
      have hanc : ¬ Anc t c p := not_anc_of_cyclicCheck_ok cfg t p c hc
      have hl := h.localOK p
      by_cases hpar : (t.parent c ≠ none ∧ t.parent c ≠ some p)
      · unfold addChildCore
        simp only [hc]
        rw [if_pos hpar]
        exact .inl ⟨_, rfl, fun e => by cases e⟩
      · by_cases hin : c ∈ vals (t.children p)
        · have hp := (h.mem_vals_iff p c).mp hin
          have hmem : (t.label c, c) ∈ t.children p := (h.agree p c _).mpr ⟨hp, rfl⟩
          by_cases ha : lbl.getD (t.label c) = t.label c
          · unfold addChildCore
            simp only [hc, hpar, if_false, alreadyAtLabel_eq hl, ha, hmem, and_self, decide_true]
            exact .inl ⟨_, rfl, fun _ => hp⟩
          · cases hu : uniqueLabel t p (lbl.getD (t.label c)) (sa.getD (t.strict p)) with
            | error e =>
              unfold addChildCore
              simp only [hc, hpar, if_false, alreadyAtLabel_eq hl, ha, false_and, decide_false, hu]
              exact .inl ⟨_, rfl, fun e' => absurd e' (uniqueLabel_error_ne_ok hu)⟩
            | ok l' =>
              by_cases hsl : '/' ∈ l'
              · unfold addChildCore
                simp only [hc, hpar, if_false, alreadyAtLabel_eq hl, ha, false_and, decide_false, hu,
                  hr.f3, if_true, hsl]
                exact .inl ⟨_, rfl, fun e => by cases e⟩
              · rw [addChildCore_relabel hr _ hl hc hpar hin ha hu hsl]
                have hk := h.not_workflow_of_parent hp
                have : setParent cfg (relabel t p c l') c (some p) = (relabel t p c l', .ok) := by
                  unfold setParent
                  have hk' : ¬ (relabel t p c l').kind c = .workflow := hk
                  have hp' : some p = (relabel t p c l').parent c := hp.symm
                  simp only [hk', if_false, hp', if_true]
                rw [this]
                exact .inr (.inl ⟨l', rfl, hp, (uniqueLabel_ok hu).1, hsl, ha⟩)
        · have hp : t.parent c = none := by
            cases hq : t.parent c with
            | none => rfl
            | some q =>
              exfalso
              have : q = p := by
                rw [hq] at hpar
                simp only [ne_eq, reduceCtorEq, not_false_eq_true, Option.some.injEq, true_and,
                  Decidable.not_not] at hpar
                exact hpar
              subst this
              exact hin ((h.mem_vals_iff q c).mpr hq)
          have hmem : ∀ l, (l, c) ∉ t.children p := fun l hm => hin (mem_vals.mpr ⟨l, hm⟩)
          cases hu : uniqueLabel t p (lbl.getD (t.label c)) (sa.getD (t.strict p)) with
          | error e =>
            unfold addChildCore
            simp only [hc, hpar, if_false, alreadyAtLabel_eq hl, hmem, and_false, decide_false, hu]
            exact .inl ⟨_, rfl, fun e' => absurd e' (uniqueLabel_error_ne_ok hu)⟩
          | ok l' =>
            by_cases hsl : '/' ∈ l'
            · unfold addChildCore
              simp only [hc, hpar, if_false, alreadyAtLabel_eq hl, hmem, and_false, decide_false, hu,
                hr.f3, if_true, hsl]
              exact .inl ⟨_, rfl, fun e => by cases e⟩
            · rw [addChildCore_fresh hr _ hl hc hpar hin hu hsl]
              have hlk : l' ∉ keys (t.children p) := fun hh => (uniqueLabel_ok hu).1 (by simp [dirOf, hh])
              have hk : t.kind c = .workflow ∨ t.kind c ≠ .workflow := Decidable.em _
              rcases setParent_inserted hr h hp hcomp hpc hanc (uniqueLabel_ok hu).1 hsl with
                ⟨he, _⟩ | hrec | ⟨_, he'⟩
              · rw [he]
                refine .inr (.inr (.inl ⟨l', rfl, hp, ?_, (uniqueLabel_ok hu).1, hsl, hanc, Ne.symm hpc⟩))
                intro hkw
                have : (setParent cfg (inserted t p c l') c (some p)).2 = .parentMostError := by
                  unfold setParent; simp [inserted, hkw]
                rw [he] at this; cases this
              · refine .inr (.inr (.inr ?_))
                generalize setParent cfg (inserted t p c l') c (some p) = r at hrec
                obtain ⟨t4, e⟩ := r
                simp only at hrec; subst hrec; rfl
              · obtain ⟨e, hne, he⟩ : ∃ e : Outcome, e ≠ .ok ∧
                    setParent cfg (inserted t p c l') c (some p) = (inserted t p c l', e) :=
                  ⟨.parentMostError, by decide, he'⟩
                rw [he]
                have : (match ((inserted t p c l', e) : Tree × Outcome) with
                    | (t4, .ok) => (t4, Outcome.ok)
                    | (t4, e) => ({ t4 with children := updF t4.children p (popKey (t4.children p) l'),
                                            label := updF t4.label c (t.label c) }, e)) =
                    (t, e) := by
                  cases e <;> first | exact absurd rfl hne | (simp only [inserted_rollback hlk])
                rw [this]
                exact .inl ⟨_, rfl, fun e' => absurd e' hne⟩
    · rw [addChildCore_notok cfg t p c lbl sa _ (by rw [hc]; decide), hc]
      exact .inl ⟨_, rfl, fun e => by cases e⟩
    · rw [addChildCore_notok cfg t p c lbl sa _ (by rw [hc]; decide), hc]
      exact .inr (.inr (.inr rfl))

theorem addChild_good {cfg : Cfg} (hr : Repaired cfg) {t : Tree} (h : WFTree t) (p c : Nat)
    (lbl : Option Str) (sa : Option Bool) : Good t (addChild cfg t p c lbl sa) :=
  (addChild_spec hr h p c lbl sa).good h

/-- an orphan that is not a workflow, not the composite itself nor one of its ancestors, and
whose label is free there, is never refused (Python's recursion limit set aside) -/
theorem addChild_orphan_accepts {cfg : Cfg} (hr : Repaired cfg) {t : Tree} (h : WFTree t) {p c : Nat}
    (hcomp : (t.kind p).isComposite = true) (hp : t.parent c = none) (hk : t.kind c ≠ .workflow)
    (hpc : p ≠ c) (hanc : ¬ Anc t c p) (hl : t.label c ∉ dirOf t p) :
    (addChild cfg t p c none none).2 = .ok ∨ (addChild cfg t p c none none).2 = .recursionError := by
  unfold addChild
  rw [if_neg (by simp [hcomp])]
  rcases cyclicCheck_cases cfg t p c with hc | hc | hc
  · have hnl : c ∉ vals (t.children p) := by rw [h.mem_vals_iff, hp]; simp
    have hu : uniqueLabel t p ((none : Option Str).getD (t.label c))
        ((none : Option Bool).getD (t.strict p)) = .ok (t.label c) := by
      unfold uniqueLabel; simp [hl]
    have hsl := h.labelsOk c
    rw [addChildCore_fresh hr _ (h.localOK p) hc (by simp [hp]) hnl hu hsl]
    rcases setParent_inserted hr h hp hcomp hpc hanc hl hsl with ⟨he, _⟩ | hrec | ⟨hkw, _⟩
    · rw [he]; left; rfl
    · right
      generalize setParent cfg (inserted t p c (t.label c)) c (some p) = r at hrec
      obtain ⟨t4, e⟩ := r
      simp only at hrec; subst hrec; rfl
    · exact absurd hkw hk
  · exfalso
    rcases cyclicCheck_cyclic_imp hr.f5 hc with e | ha
    · exact hpc e
    · exact hanc ha
  · right
    rw [addChildCore_notok cfg t p c none none _ (by rw [hc]; decide), hc]

theorem assignParent_good {cfg : Cfg} (hr : Repaired cfg) {t : Tree} (h : WFTree t) (c : Nat)
    (np : Option Nat) : Good t (assignParent cfg t c np) := by
  unfold assignParent
  cases np with
  | none => exact setParent_none_good hr h c
  | some v =>
    simp only []
    split
    · exact addChild_good hr h _ _ _ _
    · exact setParent_some_good hr h c v

theorem setAttr_good {cfg : Cfg} (hr : Repaired cfg) {t : Tree} (h : WFTree t) (p : Nat) (key : Str)
    (c : Nat) : Good t (setAttr cfg t p key c) := by
  unfold setAttr
  split
  · exact good_same h _
  · split
    · split
      · exact setParent_some_good hr h p c
      · exact good_same h _
    · exact addChild_good hr h _ _ _ _

/-- (re)labelling an orphan keeps the invariant -/
theorem orphan_label_wf {t : Tree} (h : WFTree t) {c : Nat} {l : Str} (hp : t.parent c = none)
    (hs : '/' ∉ l) : WFTree { t with label := updF t.label c l, parent := updF t.parent c none } := by
  have hpar : ∀ x, updF t.parent c none x = t.parent x := by
    intro x; simp only [updF]; split
    · rename_i e; rw [e, hp]
    · rfl
  refine ⟨?_, h.keysNodup, h.noClash, ?_, ?_, h.starters, h.startNodup, ?_⟩
  · intro p x k
    have a := h.agree p x k
    simp only [hpar]
    by_cases hxc : x = c
    · subst hxc; simp_all [updF]
    · simp_all [updF]
  · apply Subrelation.wf (r := Par t) _ h.acyclic
    intro a b hab
    simp only [Par, hpar] at hab
    exact hab
  · intro n hn; simp only [hpar]; exact h.wfRoots n hn
  · intro x
    by_cases hxc : x = c
    · subst hxc; simp [updF, hs]
    · simp only [updF, hxc, if_false]; exact h.labelsOk x

theorem newNode_good {cfg : Cfg} (hr : Repaired cfg) {t : Tree} (h : WFTree t) (c : Nat) (l : Str)
    (np : Option Nat) (hp : t.parent c = none) : Good t (newNode cfg t c l np) := by
  unfold newNode
  split
  · exact good_same h _
  · rename_i hs
    have h0 := orphan_label_wf h hp hs
    have g : Good { t with label := updF t.label c l, parent := updF t.parent c none }
        (setParent cfg { t with label := updF t.label c l, parent := updF t.parent c none } c np) := by
      cases np with
      | none => exact setParent_none_good hr h0 c
      | some p => exact setParent_some_good hr h0 c p
    simp only []
    split
    · rename_i t1 heq
      rw [heq] at g
      exact ⟨fun _ => g.1 rfl, fun hn => absurd rfl hn⟩
    · exact ⟨fun hh => by simp_all, fun _ _ => rfl⟩


theorem orphan_label_wf' {t : Tree} (h : WFTree t) {c : Nat} {l : Str} (hp : t.parent c = none)
    (hs : '/' ∉ l) : WFTree { t with label := updF t.label c l } := by
  have := orphan_label_wf h hp hs
  have e : ({ t with label := updF t.label c l, parent := updF t.parent c none } : Tree) =
      { t with label := updF t.label c l } := by
    apply Tree.ext' <;> intros <;> try rfl
    simp only [updF]; split
    · rename_i x e; rw [e, hp]
    · rfl
  rw [e] at this; exact this

theorem setStarting_wf {t : Tree} (h : WFTree t) (p : Nat) (l : List Nat)
    (hch : ∀ s ∈ l, ∃ k, (k, s) ∈ t.children p) (hn : l.Nodup) :
    WFTree { t with starting := updF t.starting p l } := by
  refine ⟨h.agree, h.keysNodup, h.noClash, h.acyclic, h.wfRoots, ?_, ?_, h.labelsOk⟩
  · intro q s hs
    by_cases hq : q = p
    · subst hq; simp only [updF_same] at hs; exact hch s hs
    · simp only [updF, hq, if_false] at hs; exact h.starters q s hs
  · intro q
    by_cases hq : q = p
    · subst hq; simp only [updF_same]; exact hn
    · simp only [updF, hq, if_false]; exact h.startNodup q

/-- `replace_child`: the invariant survives in every case (accepted or not) -/
theorem replaceChild_wf {cfg : Cfg} (hr : Repaired cfg) {t : Tree} (h : WFTree t) (p old new : Nat) :
    (replaceChild cfg t p old new).2 ≠ .recursionError → WFTree (replaceChild cfg t p old new).1 := by
  unfold replaceChild
  split
  · exact fun _ => h
  · rename_i hcomp
    split
    · exact fun _ => h
    · rename_i hpo
      simp only [ne_eq, Decidable.not_not] at hpo
      split
      · exact fun _ => h
      · rename_i hpn
        simp only [ne_eq, Decidable.not_not] at hpn
        split
        · exact fun _ => h
        have hon : old ≠ new := by intro e; rw [e, hpn] at hpo; cases hpo
        have hm := (h.mem_vals_iff p old).mpr hpo
        have hrm : removeChild cfg t p old = (release t p old, .ok) := by
          unfold removeChild
          simp only [hcomp, hm, if_true, removeListed_eq cfg h hpo]
          simp
        simp only [hrm]
        have h1 := release_wf h hpo
        have hp1o : (release t p old).parent old = none := by simp [release, removeCore0]
        have hp1n : (release t p old).parent new = none := by
          simp [release, removeCore0, updF, Ne.symm hon, hpn]
        have h2a := orphan_label_wf' (l := (release t p old).label old) h1 hp1n (h1.labelsOk old)
        have h2 := orphan_label_wf' (c := old) (l := (release t p old).label new) h2a hp1o (h1.labelsOk new)
        have hp2n : ({ (release t p old) with
            label := updF (updF (release t p old).label new ((release t p old).label old)) old
              ((release t p old).label new) } : Tree).parent new = none := hp1n
        have hfact : ∀ a, a ∈ ({ (release t p old) with
            label := updF (updF (release t p old).label new ((release t p old).label old)) old
              ((release t p old).label new) } : Tree).starting p → t.parent a = some p := by
          intro a ha
          have ha' : a ∈ (t.starting p).erase old := by
            simpa [release, removeCore0] using ha
          have ha'' := ((h.startNodup p).mem_erase_iff.mp ha').2
          obtain ⟨k, hk⟩ := h.starters p a ha''
          exact ((h.agree p a k).mp hk).1
        generalize ({ (release t p old) with
            label := updF (updF (release t p old).label new ((release t p old).label old)) old
              ((release t p old).label new) } : Tree) = t2 at h2 hp2n hfact ⊢
        rcases addChild_spec hr h2 p new none none with ⟨e, he, hok⟩ | ⟨l', _, hp', _⟩ | ⟨l', he, _, hk, hl, hsl, hanc, hne⟩ | hrec
        · have hne : e ≠ .ok := by
            intro e'; have := hok e'; rw [hp2n] at this; cases this
          rw [he]
          cases e <;> first | exact absurd rfl hne | exact fun _ => h2
        · rw [hp2n] at hp'; cases hp'
        · rw [he]
          have h3 := adopt_wf h2 hp2n hk hl hsl hanc hne
          simp only []
          intro _
          split
          · refine setStarting_wf h3 p _ ?_ ?_
            · intro s hs
              rcases List.mem_append.mp hs with hs | hs
              · exact h3.starters p s hs
              · simp only [List.mem_singleton] at hs; subst hs
                exact ⟨l', by simp [adopt]⟩
            · rw [List.nodup_append]
              refine ⟨h3.startNodup p, by simp, ?_⟩
              intro a ha b hb
              simp only [List.mem_singleton] at hb; subst hb
              intro e; subst e
              have := hfact a ha
              rw [hpn] at this; cases this
          · exact h3
        · generalize addChild cfg _ p new none none = r at hrec
          obtain ⟨t3, e⟩ := r
          simp only at hrec; subst hrec
          exact fun hh => absurd rfl hh

/-- a replacement that is refused up front (not the owner / replacement already owned) changes
nothing -/
theorem replaceChild_refused (cfg : Cfg) (t : Tree) (p old new : Nat)
    (hpre : (t.kind p).isComposite = false ∨ t.parent old ≠ some p ∨ t.parent new ≠ none ∨
      replacePre cfg t p new ≠ .ok) :
    (replaceChild cfg t p old new).1 = t ∧ (replaceChild cfg t p old new).2 ≠ .ok := by
  unfold replaceChild
  split
  · exact ⟨rfl, by simp⟩
  · split
    · exact ⟨rfl, by simp⟩
    · split
      · exact ⟨rfl, by simp⟩
      · split
        · rename_i hne; exact ⟨rfl, hne⟩
        · rename_i a b c d
          rcases hpre with h | h | h | h
          · exact absurd h a
          · exact absurd h b
          · exact absurd h c
          · exact absurd h d

/-- repaired `replace_child`: either nothing changed, or it was accepted (or Python's recursion
limit was hit): once the ownership side has been validated up front, the `add_child` that
follows the removal of the old child and the label swap cannot refuse any more -/
theorem replaceChild_outcome {cfg : Cfg} (hr : Repaired cfg) (h7 : cfg.replacePrecheck = true)
    {t : Tree} (h : WFTree t) (p old new : Nat) :
    (replaceChild cfg t p old new).1 = t ∨ (replaceChild cfg t p old new).2 = .ok ∨
      (replaceChild cfg t p old new).2 = .recursionError := by
  unfold replaceChild
  split
  · exact .inl rfl
  · rename_i hcomp
    simp only [Bool.not_eq_false] at hcomp
    split
    · exact .inl rfl
    · rename_i hpo
      simp only [ne_eq, Decidable.not_not] at hpo
      split
      · exact .inl rfl
      · rename_i hpn
        simp only [ne_eq, Decidable.not_not] at hpn
        split
        · exact .inl rfl
        · rename_i hpre
          simp only [ne_eq, Decidable.not_not] at hpre
          right
          have hck : cyclicCheck cfg t p new = .ok ∧ t.kind new ≠ .workflow := by
            unfold replacePre at hpre
            rw [if_pos h7] at hpre
            rcases cyclicCheck_cases cfg t p new with hc | hc | hc
            · rw [hc] at hpre
              refine ⟨hc, ?_⟩
              intro hk
              simp only [hk, if_true] at hpre
              cases hpre
            · rw [hc] at hpre; cases hpre
            · rw [hc] at hpre; cases hpre
          have hpn' : p ≠ new := ne_of_cyclicCheck_ok cfg t p new hr.f5 hck.1
          have hanc : ¬ Anc t new p := not_anc_of_cyclicCheck_ok cfg t p new hck.1
          have hon : old ≠ new := by intro e; rw [e, hpn] at hpo; cases hpo
          have hm := (h.mem_vals_iff p old).mpr hpo
          have hrm : removeChild cfg t p old = (release t p old, .ok) := by
            unfold removeChild
            simp only [hcomp, hm, if_true, removeListed_eq cfg h hpo]
            simp
          simp only [hrm]
          have h1 := release_wf h hpo
          have hp1o : (release t p old).parent old = none := by simp [release, removeCore0]
          have hp1n : (release t p old).parent new = none := by
            simp [release, removeCore0, updF, Ne.symm hon, hpn]
          have h2a := orphan_label_wf' (l := (release t p old).label old) h1 hp1n (h1.labelsOk old)
          have h2 := orphan_label_wf' (c := old) (l := (release t p old).label new) h2a hp1o (h1.labelsOk new)
          have hp2n : ({ (release t p old) with
              label := updF (updF (release t p old).label new ((release t p old).label old)) old
                ((release t p old).label new) } : Tree).parent new = none := hp1n
          have hcomp2 : (({ (release t p old) with
              label := updF (updF (release t p old).label new ((release t p old).label old)) old
                ((release t p old).label new) } : Tree).kind p).isComposite = true := hcomp
          have hk2 : ({ (release t p old) with
              label := updF (updF (release t p old).label new ((release t p old).label old)) old
                ((release t p old).label new) } : Tree).kind new ≠ .workflow := hck.2
          have hanc2 : ¬ Anc ({ (release t p old) with
              label := updF (updF (release t p old).label new ((release t p old).label old)) old
                ((release t p old).label new) } : Tree) new p := by
            intro ha; apply hanc
            refine anc_parent_subset ?_ ha
            intro a b hab
            simp only [release, removeCore0, updF] at hab
            split at hab
            · cases hab
            · exact hab
          have hl2 : ({ (release t p old) with
              label := updF (updF (release t p old).label new ((release t p old).label old)) old
                ((release t p old).label new) } : Tree).label new ∉ dirOf ({ (release t p old) with
              label := updF (updF (release t p old).label new ((release t p old).label old)) old
                ((release t p old).label new) } : Tree) p := by
            have hmem : (t.label old, old) ∈ t.children p := (h.agree p old _).mpr ⟨hpo, rfl⟩
            have e1 : ({ (release t p old) with
                label := updF (updF (release t p old).label new ((release t p old).label old)) old
                  ((release t p old).label new) } : Tree).label new = t.label old := by
              simp [release, removeCore0, updF, Ne.symm hon]
            rw [e1]
            simp only [dirOf, release, removeCore0, updF_same]
            intro hh
            rcases List.mem_append.mp hh with hh | hh
            · exact h.noClash p _ _ hmem hh
            · obtain ⟨v, hv⟩ := mem_keys.mp hh
              have hv' := mem_popVal.mp hv
              exact hv'.2 (eq_of_mem_same_key (h.keysNodup p) hv'.1 hmem)
          generalize ({ (release t p old) with
              label := updF (updF (release t p old).label new ((release t p old).label old)) old
                ((release t p old).label new) } : Tree) = t2 at h2 hp2n hcomp2 hk2 hanc2 hl2 ⊢
          rcases addChild_orphan_accepts hr h2 hcomp2 hp2n hk2 hpn' hanc2 hl2 with hok | hrec
          · left
            generalize addChild cfg t2 p new none none = r at hok
            obtain ⟨t3, e⟩ := r
            simp only at hok; subst hok
            rfl
          · right
            generalize addChild cfg t2 p new none none = r at hrec
            obtain ⟨t3, e⟩ := r
            simp only at hrec; subst hrec
            rfl

theorem replaceChild_good {cfg : Cfg} (hr : Repaired cfg) (h7 : cfg.replacePrecheck = true)
    {t : Tree} (h : WFTree t) (p old new : Nat) : Good t (replaceChild cfg t p old new) := by
  refine ⟨fun hok => replaceChild_wf hr h p old new (by rw [hok]; decide), fun hne hrec => ?_⟩
  rcases replaceChild_outcome hr h7 h p old new with e | e | e
  · exact e
  · exact absurd e hne
  · exact absurd e hrec

theorem replaceChildLabel_good {cfg : Cfg} (hr : Repaired cfg) (h7 : cfg.replacePrecheck = true)
    {t : Tree} (h : WFTree t) (p : Nat) (l : Str) (new : Nat) :
    Good t (replaceChildLabel cfg t p l new) := by
  unfold replaceChildLabel
  split
  · exact good_same h _
  · split
    · exact good_same h _
    · exact replaceChild_good hr h7 h p _ new


/-! ## constructors that raise after `Lexical.__init__` -/

/-- parent assignment of an orphan: refused with the tree untouched, or the adoption -/
theorem setParent_orphan_spec {cfg : Cfg} (hr : Repaired cfg) {t : Tree} (h : WFTree t) {c p : Nat}
    (hp : t.parent c = none) :
    (∃ e, e ≠ .ok ∧ setParent cfg t c (some p) = (t, e)) ∨
    (∃ l', setParent cfg t c (some p) = (adopt t p c l', .ok) ∧ WFTree (adopt t p c l') ∧
        (t.kind p).isComposite = true) ∨
    (setParent cfg t c (some p)).2 = .recursionError := by
  unfold setParent
  split
  · left; exact ⟨.parentMostError, by decide, by simp⟩
  · split
    · rename_i heq; rw [hp] at heq; cases heq
    · rename_i hk hne
      simp only []
      split
      · left; exact ⟨.valueError, by decide, rfl⟩
      · rename_i hcomp
        simp only [Bool.not_eq_false] at hcomp
        rcases cyclicCheck_cases cfg t p c with hc | hc | hc
        · have hpc : p ≠ c := ne_of_cyclicCheck_ok cfg t p c hr.f5 hc
          have hanc : ¬ Anc t c p := not_anc_of_cyclicCheck_ok cfg t p c hc
          have hnl : c ∉ vals (t.children p) := by
            rw [h.mem_vals_iff]; exact fun e => hne e.symm
          simp only [hc, hr.f2, hnl, not_false_eq_true, and_self, if_true]
          cases hu : uniqueLabel t p (t.label c) (t.strict p) with
          | error e => left; exact ⟨e, uniqueLabel_error_ne_ok hu, rfl⟩
          | ok l' =>
            simp only [hp]
            obtain ⟨he, hw⟩ := adopt_via_setParent hr h hp hk hpc hanc hc hu
            right; left
            exact ⟨l', he, hw, hcomp⟩
        · simp only [hc]; left; exact ⟨.cyclicPathError, by decide, rfl⟩
        · simp only [hc]; right; right; trivial

/-- letting go of a node that has just been adopted, and giving it its label back, restores the tree -/
theorem undo_adopt_one {t : Tree} (h : WFTree t) {p c : Nat} {l' : Str} (hp : t.parent c = none) :
    ({ adopt t p c l' with
        children := updF (adopt t p c l').children p (popVal ((adopt t p c l').children p) c),
        parent := updF (adopt t p c l').parent c none,
        label := updF (adopt t p c l').label c (t.label c) } : Tree) = t := by
  have hnl : c ∉ vals (t.children p) := by rw [h.mem_vals_iff, hp]; simp
  have hpop : popVal (t.children p ++ [(l', c)]) c = t.children p := by
    unfold popVal
    rw [List.filter_append]
    have := popVal_of_not_mem hnl
    unfold popVal at this
    rw [this]; simp
  apply Tree.ext'
  · rfl
  · rfl
  · rfl
  · intro x; simp only [adopt, updF]; split <;> simp_all
  · intro x; simp only [adopt, updF]; split <;> simp_all
  · intro x
    simp only [adopt, updF_updF, updF_same, hpop]
    simp only [updF]; split <;> simp_all
  · intro x; rfl

theorem not_starting_of_orphan {t : Tree} (h : WFTree t) {p c : Nat} (hp : t.parent c = none) :
    c ∉ t.starting p := by
  intro hs
  obtain ⟨l, hl⟩ := h.starters p c hs
  have := ((h.agree p c l).mp hl).1
  rw [hp] at this; cases this

/-- the object right after `self.label = label` of `Lexical.__init__` -/
abbrev fresh (t : Tree) (c : Nat) (l : Str) : Tree :=
  { t with label := updF t.label c l, parent := updF t.parent c none }

/-- an accepted construction is the fresh orphan, or the fresh orphan adopted by `np` -/
theorem newNode_shape {cfg : Cfg} (hr : Repaired cfg) {t : Tree} (h : WFTree t) {c : Nat} {l : Str}
    {np : Option Nat} (hp : t.parent c = none) {t1 : Tree} (heq : newNode cfg t c l np = (t1, .ok)) :
    WFTree (fresh t c l) ∧
    (t1 = fresh t c l ∨
      ∃ p l', np = some p ∧ (t.kind p).isComposite = true ∧ t1 = adopt (fresh t c l) p c l') := by
  simp only [newNode] at heq
  split at heq
  · cases heq
  · rename_i hs
    have h0 : WFTree (fresh t c l) := orphan_label_wf h hp hs
    have hp0 : (fresh t c l).parent c = none := by simp [fresh, updF]
    refine ⟨h0, ?_⟩
    cases np with
    | none =>
      left
      have : setParent cfg (fresh t c l) c none = (fresh t c l, .ok) := by
        unfold setParent
        split
        · rfl
        · simp [hp0]
      rw [this] at heq
      simp only [Prod.mk.injEq] at heq
      exact heq.1.symm
    | some p =>
      right
      rcases setParent_orphan_spec hr h0 (p := p) hp0 with ⟨e, hne, he⟩ | ⟨l', he, _, hcomp⟩ | hrec
      · rw [he] at heq
        cases e <;> first | exact absurd rfl hne | (simp at heq)
      · rw [he] at heq
        simp only [Prod.mk.injEq] at heq
        exact ⟨p, l', rfl, hcomp, heq.1.symm⟩
      · exfalso
        generalize setParent cfg (fresh t c l) c (some p) = r at hrec heq
        obtain ⟨t4, e⟩ := r
        simp only at hrec; subst hrec
        simp at heq

theorem ctorRelease_fresh (cfg : Cfg) {t : Tree} {c : Nat} (l : Str) (hp : t.parent c = none) :
    ctorRelease cfg t (fresh t c l) c = t := by
  simp only [ctorRelease, fresh, updF_same]
  apply Tree.ext' <;> intros <;> try rfl
  · simp only [fresh, updF]; split <;> simp_all
  · simp only [fresh, updF]; split <;> simp_all

theorem ctorRelease_adopt (cfg : Cfg) {t : Tree} (h : WFTree t) {c p : Nat} (l l' : Str)
    (hp : t.parent c = none) (h0 : WFTree (fresh t c l)) (hw : WFTree (adopt (fresh t c l) p c l'))
    (hcomp : (t.kind p).isComposite = true) :
    ctorRelease cfg t (adopt (fresh t c l) p c l') c = t := by
  have hp0 : (fresh t c l).parent c = none := by simp [fresh, updF]
  have hp1 : (adopt (fresh t c l) p c l').parent c = some p := by simp [adopt, updF]
  have hm : c ∈ vals ((adopt (fresh t c l) p c l').children p) := (hw.mem_vals_iff p c).mpr hp1
  have hrm : removeChild cfg (adopt (fresh t c l) p c l') p c = (release (adopt (fresh t c l) p c l') p c, .ok) := by
    unfold removeChild
    have hc' : ((adopt (fresh t c l) p c l').kind p).isComposite = true := hcomp
    simp only [hc', hm, if_true, removeListed_eq cfg hw hp1]
    simp
  simp only [ctorRelease, hp1, hrm]
  have hone := undo_adopt_one (p := p) (l' := l') h0 hp0
  have hns : c ∉ (fresh t c l).starting p := not_starting_of_orphan h0 hp0
  have hfresh := ctorRelease_fresh cfg l hp
  -- the release is the one-step undo except for the label and the starting list
  apply Tree.ext'
  · rfl
  · rfl
  · rfl
  · intro x
    simp only [release, removeCore0, adopt, fresh, updF]; split <;> simp_all
  · intro x
    have := congrArg (fun t' => t'.parent x) hone
    simp only [release, removeCore0, adopt, fresh, updF] at this ⊢
    split <;> simp_all
  · intro x
    have := congrArg (fun t' => t'.children x) hone
    simpa [release, removeCore0, adopt, fresh] using this
  · intro x
    simp only [release, removeCore0, adopt, fresh, updF]
    split
    · rename_i e; subst e; exact List.erase_of_not_mem hns
    · rfl

/-- `Cls(label, parent=…)` that raises after the adoption: the invariant holds in what is left,
and with the rollback (F8) what is left is the tree before -/
theorem newNodeFail_spec {cfg : Cfg} (hr : Repaired cfg) {t : Tree} (h : WFTree t) (c : Nat) (l : Str)
    (np : Option Nat) (hp : t.parent c = none) :
    ((newNodeFail cfg t c l np).2 ≠ .recursionError → WFTree (newNodeFail cfg t c l np).1) ∧
    (newNodeFail cfg t c l np).2 ≠ .ok ∧
    (cfg.ctorRollback = true → (newNodeFail cfg t c l np).2 ≠ .recursionError →
      (newNodeFail cfg t c l np).1 = t) := by
  have hg := newNode_good hr h c l np hp
  cases hnn : newNode cfg t c l np with
  | mk t1 e =>
    rw [hnn] at hg
    by_cases he : e = .ok
    · subst he
      have hw1 : WFTree t1 := hg.1 rfl
      obtain ⟨h0, hshape⟩ := newNode_shape hr h hp hnn
      have hval : newNodeFail cfg t c l np =
          (if cfg.ctorRollback then ctorRelease cfg t t1 c else t1, .setupError) := by
        simp only [newNodeFail, hnn]
      have hfin : ctorRelease cfg t t1 c = t := by
        rcases hshape with e | ⟨p, l', _, hcomp, e⟩
        · rw [e]; exact ctorRelease_fresh cfg l hp
        · rw [e] at hw1 ⊢; exact ctorRelease_adopt cfg h l l' hp h0 hw1 hcomp
      rw [hval]
      refine ⟨fun _ => ?_, by simp, fun h8 _ => ?_⟩
      · by_cases h8 : cfg.ctorRollback = true
        · simp only [h8, if_true, hfin]; exact h
        · simp only [h8, Bool.false_eq_true, if_false]; exact hw1
      · simp only [h8, if_true, hfin]
    · have hval : newNodeFail cfg t c l np = (t, e) := by
        simp only [newNodeFail, hnn]
      rw [hval]
      exact ⟨fun _ => h, he, fun _ _ => rfl⟩

/-! ### `Workflow(label, *nodes)` -/

theorem adoptAll_wf {cfg : Cfg} (hr : Repaired cfg) (c : Nat) :
    ∀ (kids : List Nat) (t : Tree) (log : List (Nat × Str)), WFTree t →
      (adoptAll cfg c t log kids).2.2 ≠ .recursionError → WFTree (adoptAll cfg c t log kids).1 := by
  intro kids
  induction kids with
  | nil => intro t log h _; exact h
  | cons k r ih =>
    intro t log h hrec
    have g := addChild_good hr h c k none none
    simp only [adoptAll] at hrec ⊢
    cases hres : addChild cfg t c k none none with
    | mk t1 e =>
      rw [hres] at g
      cases e with
      | ok =>
        simp only [hres] at hrec ⊢
        exact ih _ _ (g.1 rfl) hrec
      | _ =>
        simp only [hres] at hrec ⊢
        have e1 : t1 = t := g.2 (by simp) hrec
        rw [e1]; exact h

/-- undoing the log of the adoption loop gives back the tree the loop started from -/
theorem undo_adoptAll {cfg : Cfg} (hr : Repaired cfg) (c : Nat) (base : Tree) :
    ∀ (kids : List Nat) (t : Tree) (log : List (Nat × Str)), WFTree t → undoAdopt c t log = base →
      (adoptAll cfg c t log kids).2.2 ≠ .recursionError →
      undoAdopt c (adoptAll cfg c t log kids).1 (adoptAll cfg c t log kids).2.1 = base := by
  intro kids
  induction kids with
  | nil => intro t log _ hb _; exact hb
  | cons k r ih =>
    intro t log h hb hrec
    simp only [adoptAll] at hrec ⊢
    rcases addChild_spec hr h c k none none with
      ⟨e, he, hok⟩ | ⟨l', _, _, _, _, hne⟩ | ⟨l', he, hpk, hk, hl, hsl, hanc, hne⟩ | hr4
    · cases e with
      | ok =>
        have hpk := hok rfl
        simp only [he, hpk, if_true] at hrec ⊢
        exact ih t log h hb hrec
      | _ =>
        simp only [he]
        exact hb
    · exact absurd rfl hne
    · have hif : ¬ t.parent k = some c := by rw [hpk]; simp
      simp only [he, hif, if_false] at hrec ⊢
      apply ih _ _ (adopt_wf h hpk hk hl hsl hanc hne) _ hrec
      simp only [undoAdopt, undo_adopt_one h hpk]
      exact hb
    · exfalso
      generalize addChild cfg t c k none none = res at hr4 hrec
      obtain ⟨t1, e⟩ := res
      simp only at hr4; subst hr4
      simp at hrec

/-- `Workflow(label, *nodes)`: the invariant holds whatever happens, and with the rollback (F8) a
constructor that raises leaves the tree before -/
theorem newWorkflowWith_spec {cfg : Cfg} (hr : Repaired cfg) {t : Tree} (h : WFTree t) (c : Nat)
    (l : Str) (kids : List Nat) (fails : Bool) (hp : t.parent c = none) :
    ((newWorkflowWith cfg t c l kids fails).2 ≠ .recursionError →
      WFTree (newWorkflowWith cfg t c l kids fails).1) ∧
    (cfg.ctorRollback = true → (newWorkflowWith cfg t c l kids fails).2 ≠ .ok →
      (newWorkflowWith cfg t c l kids fails).2 ≠ .recursionError →
      (newWorkflowWith cfg t c l kids fails).1 = t) := by
  have hg := newNode_good hr h c l none hp
  cases hnn : newNode cfg t c l none with
  | mk t0 e0 =>
    rw [hnn] at hg
    by_cases he0 : e0 = .ok
    · subst he0
      obtain ⟨h0, hshape⟩ := newNode_shape hr h hp hnn
      have e0 : t0 = fresh t c l := by
        rcases hshape with e | ⟨p, l', hnp, _⟩
        · exact e
        · cases hnp
      subst e0
      cases hall : adoptAll cfg c (fresh t c l) [] kids with
      | mk t1 rest =>
        obtain ⟨log, e⟩ := rest
        have hwf := adoptAll_wf hr c kids (fresh t c l) [] h0
        have hundo := undo_adoptAll hr c (fresh t c l) kids (fresh t c l) [] h0 rfl
        rw [hall] at hwf hundo
        simp only at hwf hundo
        have hrest : ({ fresh t c l with label := updF (fresh t c l).label c (t.label c) } : Tree) = t := by
          apply Tree.ext' <;> intros <;> try rfl
          · simp only [fresh, updF]; split <;> simp_all
          · simp only [fresh, updF]; split <;> simp_all
        by_cases hacc : e = .ok ∧ fails = false
        · have hval : newWorkflowWith cfg t c l kids fails = (t1, .ok) := by
            simp only [newWorkflowWith, hnn, hall, hacc, and_self, if_true]
          rw [hval]
          exact ⟨fun _ => hwf (by rw [hacc.1]; decide), fun _ hne => absurd rfl hne⟩
        · by_cases h8 : cfg.ctorRollback = true
          · have hval : newWorkflowWith cfg t c l kids fails =
                ({ undoAdopt c t1 log with label := updF (undoAdopt c t1 log).label c (t.label c) },
                 if e = .ok then .setupError else e) := by
              simp only [newWorkflowWith, hnn, hall, hacc, if_false, h8, if_true]
            rw [hval]
            have hfin : e ≠ .recursionError → ({ undoAdopt c t1 log with
                label := updF (undoAdopt c t1 log).label c (t.label c) } : Tree) = t := by
              intro hr'; rw [hundo hr']; exact hrest
            refine ⟨fun hrec => ?_, fun _ _ hrec => ?_⟩
            · have : e ≠ .recursionError := by
                intro ee; subst ee; simp at hrec
              rw [hfin this]; exact h
            · have : e ≠ .recursionError := by
                intro ee; subst ee; simp at hrec
              exact hfin this
          · have hval : newWorkflowWith cfg t c l kids fails =
                (t1, if e = .ok then .setupError else e) := by
              simp only [newWorkflowWith, hnn, hall, hacc, if_false, h8, Bool.false_eq_true]
            rw [hval]
            refine ⟨fun hrec => ?_, fun h8' => absurd h8' h8⟩
            apply hwf
            intro ee; subst ee; simp at hrec
    · have hval : newWorkflowWith cfg t c l kids fails = (t, e0) := by
        simp only [newWorkflowWith, hnn]
      rw [hval]
      exact ⟨fun _ => h, fun _ _ _ => rfl⟩

/-! ## re-owning on `__setstate__` -/

theorem updF_self {α} (f : Nat → α) (a : Nat) (x : α) (h : f a = x) : updF f a x = f := by
  funext z; simp only [updF]; split
  · rename_i e; rw [e, h]
  · rfl

theorem reownList_id (t : Tree) (c : Nat) : ∀ l : List (Str × Nat),
    (∀ e ∈ l, t.parent e.2 = some c) → reownList t c l = t := by
  intro l
  induction l with
  | nil => intro _; rfl
  | cons e r ih =>
    intro h
    obtain ⟨k, v⟩ := e
    have hv : t.parent v = some c := h (k, v) (by simp)
    have : ({ t with parent := updF t.parent v (some c) } : Tree) = t := by
      rw [updF_self _ _ _ hv]
    simp only [reownList, this]
    exact ih (fun e he => h e (List.mem_cons_of_mem _ he))

/-- where both sides agree, telling the listed children who owns them changes nothing -/
theorem reown_id {t : Tree} (h : WFTree t) : ∀ n c, reown n t c = t := by
  intro n
  induction n with
  | zero => intro c; rfl
  | succ n ih =>
    intro c
    simp only [reown]
    rw [reownList_id t c _ (fun e he => ((h.agree c e.2 e.1).mp he).1)]
    generalize t.children c = l
    induction l with
    | nil => rfl
    | cons e r ihl => simp only [List.foldl_cons, ih]; exact ihl

/-! ## operations and histories -/

/-- what is the caller's business, not the library's: a freshly constructed object has no owner
yet; the user names current children (once each) as starting nodes -/
def OpPre (t : Tree) : Op → Prop
  | .new c _ _ => t.parent c = none
  | .setStarting p l => (∀ s ∈ l, s ∈ vals (t.children p)) ∧ l.Nodup
  | .newFail c _ _ => t.parent c = none
  | .newWith c _ _ _ => t.parent c = none
  | _ => True

def Op.isReplace : Op → Bool
  | .replace .. => true
  | .replaceLabel .. => true
  | _ => false

/-- a constructor that raises after `Lexical.__init__` -/
def Op.isCtorFail : Op → Bool
  | .newFail .. => true
  | .newWith .. => true
  | _ => false

/-- F1–F6: every entry point other than `replace_child` -/
theorem step_good_nonreplace {cfg : Cfg} (hr : Repaired cfg) {t : Tree} (h : WFTree t) (op : Op)
    (hpre : OpPre t op) (hnr : op.isReplace = false) (hnc : op.isCtorFail = false) :
    Good t (step cfg t op) := by
  cases op with
  | new c l np => exact newNode_good hr h c l np hpre
  | add p c lbl s => exact addChild_good hr h p c lbl s
  | setattr p key c => exact setAttr_good hr h p key c
  | setparent c np => exact assignParent_good hr h c np
  | remove p c => exact removeChild_good cfg h p c
  | removeLabel p l => exact removeChildLabel_good cfg h p l
  | replace p o n => simp [Op.isReplace] at hnr
  | replaceLabel p l n => simp [Op.isReplace] at hnr
  | newFail c l np => simp [Op.isCtorFail] at hnc
  | newWith c l kids f => simp [Op.isCtorFail] at hnc
  | setStarting p l =>
    exact ⟨fun _ => setStarting_wf h p l (fun s hs => mem_vals.mp (hpre.1 s hs)) hpre.2, fun hn => absurd rfl hn⟩

/-- F1–F7: every entry point but the constructors that raise after `Lexical.__init__` -/
theorem step_good_nonctor {cfg : Cfg} (hr : Repaired cfg) (h7 : cfg.replacePrecheck = true) {t : Tree}
    (h : WFTree t) (op : Op) (hpre : OpPre t op) (hnc : op.isCtorFail = false) :
    Good t (step cfg t op) := by
  cases op with
  | replace p o n => exact replaceChild_good hr h7 h p o n
  | replaceLabel p l n => exact replaceChildLabel_good hr h7 h p l n
  | newFail c l np => simp [Op.isCtorFail] at hnc
  | newWith c l kids f => simp [Op.isCtorFail] at hnc
  | _ => exact step_good_nonreplace hr h _ hpre rfl rfl

/-- F1–F8: every entry point -/
theorem step_good {cfg : Cfg} (hr : Repaired cfg) (h7 : cfg.replacePrecheck = true)
    (h8 : cfg.ctorRollback = true) {t : Tree} (h : WFTree t) (op : Op) (hpre : OpPre t op) :
    Good t (step cfg t op) := by
  cases op with
  | newFail c l np =>
    have s := newNodeFail_spec hr h c l np hpre
    exact ⟨fun hok => absurd hok s.2.1, fun _ hrec => s.2.2 h8 hrec⟩
  | newWith c l kids f =>
    have s := newWorkflowWith_spec hr h c l kids f hpre
    refine ⟨fun hok => ?_, fun hne hrec => s.2 h8 hne hrec⟩
    have hok' : (newWorkflowWith cfg t c l kids f).2 = .ok := hok
    exact s.1 (by rw [hok']; decide)
  | _ => exact step_good_nonctor hr h7 h _ hpre rfl

theorem replaceChildLabel_wf {cfg : Cfg} (hr : Repaired cfg) {t : Tree} (h : WFTree t) (p : Nat)
    (l : Str) (new : Nat) : (replaceChildLabel cfg t p l new).2 ≠ .recursionError →
    WFTree (replaceChildLabel cfg t p l new).1 := by
  unfold replaceChildLabel
  split
  · exact fun _ => h
  · split
    · exact fun _ => h
    · exact replaceChild_wf hr h p _ new

/-- every operation, accepted or rejected, leaves a well-formed tree (unless Python's recursion
limit was hit on the way) -/
theorem step_wf {cfg : Cfg} (hr : Repaired cfg) {t : Tree} (h : WFTree t) (op : Op)
    (hpre : OpPre t op) (hrec : (step cfg t op).2 ≠ .recursionError) : WFTree (step cfg t op).1 := by
  by_cases hnr : op.isReplace = false
  · by_cases hnc : op.isCtorFail = false
    · have g := step_good_nonreplace hr h op hpre hnr hnc
      by_cases hok : (step cfg t op).2 = .ok
      · exact g.1 hok
      · rw [g.2 hok hrec]; exact h
    · cases op with
      | newFail c l np => exact (newNodeFail_spec hr h c l np hpre).1 hrec
      | newWith c l kids f => exact (newWorkflowWith_spec hr h c l kids f hpre).1 hrec
      | _ => simp [Op.isCtorFail] at hnc
  · cases op with
    | replace p o n => exact replaceChild_wf hr h p o n hrec
    | replaceLabel p l n => exact replaceChildLabel_wf hr h p l n hrec
    | _ => simp [Op.isReplace] at hnr

/-- a history all of whose steps meet `OpPre` and stay within the recursion limit -/
def Admissible (cfg : Cfg) : Tree → List Op → Prop
  | _, [] => True
  | t, op :: r => OpPre t op ∧ (step cfg t op).2 ≠ .recursionError ∧ Admissible cfg (step cfg t op).1 r

instance (t : Tree) (op : Op) : Decidable (OpPre t op) := by
  cases op <;> simp only [OpPre] <;> infer_instance

instance decAdmissible (cfg : Cfg) : (t : Tree) → (ops : List Op) → Decidable (Admissible cfg t ops)
  | _, [] => isTrue trivial
  | t, op :: r =>
    have := decAdmissible cfg (step cfg t op).1 r
    by simp only [Admissible]; infer_instance

theorem run_wf {cfg : Cfg} (hr : Repaired cfg) : ∀ (ops : List Op) (t : Tree), WFTree t →
    Admissible cfg t ops → WFTree (run cfg t ops) := by
  intro ops
  induction ops with
  | nil => intro t h _; exact h
  | cons op r ih =>
    intro t h ha
    simp only [run, List.foldl_cons]
    exact ih _ (step_wf hr h op ha.1 ha.2.1) ha.2.2

/-! ## ranks -/

theorem exists_rank_of_wf {t : Tree} (hw : WellFounded (Par t)) :
    ∃ rank : Nat → Nat, ∀ c p, t.parent c = some p → rank p < rank c := by
  let F : (c : Nat) → ((p : Nat) → Par t p c → Nat) → Nat := fun c ih =>
    match h : t.parent c with
    | none => 0
    | some p => ih p h + 1
  refine ⟨hw.fix F, ?_⟩
  intro c p hp
  rw [WellFounded.fix_eq hw F c]
  simp only [F]
  split
  · rename_i h; rw [hp] at h; cases h
  · rename_i q h
    have : q = p := by rw [hp] at h; cases h; rfl
    subst this
    omega

theorem wf_of_rank {t : Tree} (rank : Nat → Nat) (h : ∀ c p, t.parent c = some p → rank p < rank c) :
    WellFounded (Par t) := by
  apply Subrelation.wf (r := InvImage (· < ·) rank) _ (InvImage.wf rank Nat.lt_wfRel.wf)
  intro a b hab
  exact h b a hab

/-! ## termination of the ancestor walk -/

/-- with a rank that strictly decreases towards the parent, the walk of
`_ensure_path_is_not_cyclic` started at `x` ends within `rank x + 1` iterations -/
theorem ancWalk_terminates_of_rank (t : Tree) (rank : Nat → Nat)
    (hr : ∀ c p, t.parent c = some p → rank p < rank c) (c : Nat) :
    ∀ n x, rank x < n → ancWalk t c n x ≠ .recursionError := by
  intro n
  induction n with
  | zero => intro x h; omega
  | succ n ih =>
    intro x h
    simp only [ancWalk]
    split
    · simp
    · split
      · simp
      · rename_i q hq
        have := hr x q hq
        exact ih q (by omega)

/-- … and on such a tree the hardened walk (visited set) never meets a node twice: it computes
exactly what the plain walk computes -/
theorem ancWalkSeen_eq (t : Tree) (rank : Nat → Nat)
    (hr : ∀ c p, t.parent c = some p → rank p < rank c) (c : Nat) :
    ∀ n seen x, (∀ s ∈ seen, rank x < rank s) → ancWalkSeen t c n seen x = ancWalk t c n x := by
  intro n
  induction n with
  | zero => intro seen x _; rfl
  | succ n ih =>
    intro seen x hs
    simp only [ancWalkSeen, ancWalk]
    split
    · rfl
    · have hx : x ∉ seen := fun hm => Nat.lt_irrefl _ (hs x hm)
      simp only [hx, if_false]
      split
      · rfl
      · rename_i q hq
        have hlt := hr x q hq
        apply ih
        intro s hm
        rcases List.mem_cons.mp hm with e | hm
        · subst e; exact hlt
        · exact Nat.lt_trans hlt (hs s hm)

/-- every cycle that an adoption would really close is refused, in every variant, with the
tree untouched -/
theorem addChild_ancestor_refused (cfg : Cfg) (t : Tree) (p c : Nat) (lbl : Option Str)
    (sa : Option Bool) (hanc : Anc t c p) :
    (addChild cfg t p c lbl sa).1 = t ∧ (addChild cfg t p c lbl sa).2 ≠ .ok := by
  unfold addChild
  split
  · exact ⟨rfl, by simp⟩
  · have hc : cyclicCheck cfg t p c ≠ .ok := fun h => not_anc_of_cyclicCheck_ok cfg t p c h hanc
    rw [addChildCore_notok cfg t p c lbl sa _ hc]
    exact ⟨rfl, hc⟩

end PwVerif.Tree
