import PwVerif.Model.WfIO
/-! Helper lemmas for C15: the loop of `_build_io` computes the stated set expression, or
fails exactly when two visible channels would share one key. -/
namespace PwVerif.WfIO
open PwVerif

/-- the set expression for a plain (non-optional) map -/
def specL (m : KeyMap) (connected : Nat → Bool) (chans : Chans) : Panel :=
  (chans.filter (inIO m connected)).map fun ch => (keyFor m ch, ch.2)

theorem spec_eq_specL (m : Option KeyMap) (connected : Nat → Bool) (chans : Chans) :
    spec m connected chans = specL (m.getD []) connected chans := rfl

/-- the loop body assigns a channel iff it is in (open ∪ exposed) \ hidden, under `keyFor` -/
theorem stepKey_eq (m : KeyMap) (connected : Nat → Bool) (ch : String × Nat) :
    stepKey m connected ch = if inIO m connected ch then some (keyFor m ch) else none := by
  unfold stepKey inIO keyFor exposedAs isHidden
  cases h : m.lookup ch.1 with
  | none => cases hc : connected ch.2 <;> simp
  | some t => cases t <;> simp

theorem specL_cons_in (m : KeyMap) (connected : Nat → Bool) (ch : String × Nat) (rest : Chans)
    (h : inIO m connected ch = true) :
    specL m connected (ch :: rest) = (keyFor m ch, ch.2) :: specL m connected rest := by
  simp [specL, h]

theorem specL_cons_out (m : KeyMap) (connected : Nat → Bool) (ch : String × Nat) (rest : Chans)
    (h : inIO m connected ch = false) :
    specL m connected (ch :: rest) = specL m connected rest := by
  simp [specL, h]

theorem hasKey_append (io : Panel) (k : String) (c : Nat) (k' : String) :
    hasKey (io ++ [(k, c)]) k' = (hasKey io k' || k == k') := by
  simp [hasKey]

theorem hasKey_false_iff (io : Panel) (k : String) :
    hasKey io k = false ↔ k ∉ io.map Prod.fst := by
  simp [hasKey]
  constructor
  · intro h c hc; exact h k c hc rfl
  · intro h a b hab e; subst e; exact h b hab

/-- no two visible channels share a key, and none of them is already in `io` -/
def Fresh (m : KeyMap) (connected : Nat → Bool) (io : Panel) (chans : Chans) : Prop :=
  ((specL m connected chans).map Prod.fst).Nodup ∧
    ∀ k ∈ (specL m connected chans).map Prod.fst, hasKey io k = false

/-- the loop, characterised completely -/
theorem buildFrom_some_iff (m : KeyMap) (connected : Nat → Bool) :
    ∀ (chans : Chans) (io p : Panel),
      buildFrom m connected io chans = some p ↔
        (Fresh m connected io chans ∧ p = io ++ specL m connected chans) := by
  intro chans
  induction chans with
  | nil =>
    intro io p
    simp only [buildFrom, Fresh, specL, List.filter_nil, List.map_nil, List.nodup_nil, List.not_mem_nil,
      false_imp_iff, implies_true, and_self, true_and, List.append_nil, Option.some.injEq]
    exact eq_comm
  | cons ch rest ih =>
    intro io p
    unfold buildFrom
    rw [stepKey_eq]
    by_cases hin : inIO m connected ch = true
    · simp only [hin, if_true]
      by_cases hk : hasKey io (keyFor m ch) = true
      · simp only [hk, if_true]
        constructor
        · intro h; cases h
        · rintro ⟨⟨_, hall⟩, _⟩
          have := hall (keyFor m ch) (by simp [specL_cons_in _ _ _ _ hin])
          simp [hk] at this
      · have hk' : hasKey io (keyFor m ch) = false := by simpa using hk
        simp only [hk', Bool.false_eq_true, if_false]
        rw [ih]
        unfold Fresh
        rw [specL_cons_in _ _ _ _ hin]
        simp only [List.map_cons, List.nodup_cons, List.mem_cons, forall_eq_or_imp, hk', true_and,
          List.append_assoc, List.singleton_append]
        constructor
        · rintro ⟨⟨hnd, hall⟩, rfl⟩
          refine ⟨⟨⟨?_, hnd⟩, ?_⟩, rfl⟩
          · intro hmem
            have := hall _ hmem
            simp [hasKey_append] at this
          · intro k hkm
            have := hall k hkm
            simp [hasKey_append] at this
            exact this.1
        · rintro ⟨⟨⟨hnot, hnd⟩, hall⟩, rfl⟩
          refine ⟨⟨hnd, ?_⟩, rfl⟩
          intro k hkm
          rw [hasKey_append, hall k hkm]
          have : keyFor m ch ≠ k := fun e => hnot (e ▸ hkm)
          simp [this]
    · have hin' : inIO m connected ch = false := by simpa using hin
      simp only [hin', Bool.false_eq_true, if_false]
      rw [ih]
      unfold Fresh
      rw [specL_cons_out _ _ _ _ hin']

/-- keys of the set expression are pairwise different (= the effective naming is one-to-one) -/
def NoClash (m : Option KeyMap) (connected : Nat → Bool) (chans : Chans) : Prop :=
  ((spec m connected chans).map Prod.fst).Nodup

theorem buildIO_some_iff (m : Option KeyMap) (connected : Nat → Bool) (chans : Chans) (p : Panel) :
    buildIO m connected chans = some p ↔ (NoClash m connected chans ∧ p = spec m connected chans) := by
  unfold buildIO NoClash
  rw [buildFrom_some_iff, spec_eq_specL]
  simp [Fresh, hasKey]

theorem buildIO_none_iff (m : Option KeyMap) (connected : Nat → Bool) (chans : Chans) :
    buildIO m connected chans = none ↔ ¬ NoClash m connected chans := by
  constructor
  · intro h hn
    have := (buildIO_some_iff m connected chans _).mpr ⟨hn, rfl⟩
    rw [h] at this; cases this
  · intro h
    cases hb : buildIO m connected chans with
    | none => rfl
    | some p => exact absurd ((buildIO_some_iff m connected chans p).mp hb).1 h

/-- lookup in a panel with pairwise different keys finds exactly the listed channel -/
theorem lookup_of_mem_nodup : ∀ (p : Panel) (k : String) (c : Nat),
    (p.map Prod.fst).Nodup → (k, c) ∈ p → p.lookup k = some c := by
  intro p
  induction p with
  | nil => intro k c _ h; cases h
  | cons e rest ih =>
    intro k c hnd hmem
    obtain ⟨k', c'⟩ := e
    simp only [List.map_cons, List.nodup_cons] at hnd
    rcases List.mem_cons.mp hmem with heq | hin
    · cases heq; simp [List.lookup]
    · have hne : k ≠ k' := by
        intro e; subst e
        exact hnd.1 (List.mem_map.mpr ⟨(k, c), hin, rfl⟩)
      have : (k == k') = false := by simpa using hne
      simp only [List.lookup, this]
      exact ih k c hnd.2 hin

theorem mem_of_lookup {β} : ∀ (p : List (String × β)) (k : String) (c : β), p.lookup k = some c → (k, c) ∈ p := by
  intro p
  induction p with
  | nil => intro k c h; simp [List.lookup] at h
  | cons e rest ih =>
    intro k c h
    obtain ⟨k', c'⟩ := e
    simp only [List.lookup] at h
    split at h
    · rename_i hb
      have : k = k' := by simpa using hb
      cases h; subst this; simp
    · exact List.mem_cons_of_mem _ (ih k c h)

/-- membership in the set expression, spelled out -/
theorem mem_spec_iff (m : Option KeyMap) (connected : Nat → Bool) (chans : Chans) (k : String) (c : Nat) :
    (k, c) ∈ spec m connected chans ↔
      ∃ ch ∈ chans, ch.2 = c ∧ inIO (m.getD []) connected ch = true ∧ k = keyFor (m.getD []) ch := by
  simp only [spec, List.mem_map, List.mem_filter, Prod.mk.injEq]
  constructor
  · rintro ⟨ch, ⟨hm, hin⟩, hk, hc⟩; exact ⟨ch, hm, hc, hin, hk.symm⟩
  · rintro ⟨ch, hm, hc, hin, hk⟩; exact ⟨ch, ⟨hm, hin⟩, hk.symm, hc⟩

/-! ### the renaming maps -/

theorem dedupNones_keys (m : UserMap) : (dedupNones m).map Prod.fst = m.map Prod.fst := by
  simp [dedupNones, Function.comp_def]

/-- entries of the stored map that carry a name -/
theorem mem_dedupNones_name (m : UserMap) (k n : String) :
    (k, Target.name n) ∈ dedupNones m ↔ (k, some n) ∈ m := by
  simp only [dedupNones, List.mem_map]
  constructor
  · rintro ⟨⟨k', v⟩, hm, he⟩
    cases v with
    | none => simp at he
    | some s => simp at he; obtain ⟨rfl, rfl⟩ := he; exact hm
  · intro h; exact ⟨(k, some n), h, rfl⟩

/-- two different entries with one value ⇒ not `Nodup` -/
theorem not_nodup_of_two {α β} [DecidableEq β] : ∀ (l : List (α × β)) (a b : α) (v : β),
    a ≠ b → (a, v) ∈ l → (b, v) ∈ l → ¬ (l.map Prod.snd).Nodup := by
  intro l
  induction l with
  | nil => intro a b v _ h; cases h
  | cons e rest ih =>
    intro a b v hab ha hb hnd
    simp only [List.map_cons, List.nodup_cons] at hnd
    rcases List.mem_cons.mp ha with rfl | ha'
    · rcases List.mem_cons.mp hb with e | hb'
      · exact hab (by cases e; rfl)
      · exact hnd.1 (List.mem_map.mpr ⟨(b, v), hb', rfl⟩)
    · rcases List.mem_cons.mp hb with rfl | hb'
      · exact hnd.1 (List.mem_map.mpr ⟨(a, v), ha', rfl⟩)
      · exact ih a b v hab ha' hb' hnd.2

/-- with pairwise different keys, the stored values are pairwise different iff the *names*
are: the disabled markers never clash, however many there are -/
theorem dedupNones_values_nodup (m : UserMap) (hk : (m.map Prod.fst).Nodup) :
    ((dedupNones m).map Prod.snd).Nodup ↔ (m.filterMap Prod.snd).Nodup := by
  induction m with
  | nil => simp [dedupNones]
  | cons e rest ih =>
    obtain ⟨k, v⟩ := e
    simp only [List.map_cons, List.nodup_cons] at hk
    have ih' := ih hk.2
    have hcons : dedupNones ((k, v) :: rest) =
        (k, match v with | some s => Target.name s | none => Target.disabled k) :: dedupNones rest := rfl
    rw [hcons]
    simp only [List.map_cons, List.nodup_cons, ih']
    cases v with
    | none =>
      simp only [List.filterMap_cons]
      constructor
      · intro h; exact h.2
      · intro h
        refine ⟨?_, h⟩
        intro hmem
        obtain ⟨⟨k', t⟩, hm, ht⟩ := List.mem_map.mp hmem
        simp only [dedupNones, List.mem_map] at hm
        obtain ⟨⟨k'', v''⟩, hm', he⟩ := hm
        cases v'' with
        | none =>
          simp at he
          obtain ⟨rfl, rfl⟩ := he
          simp at ht; subst ht
          exact hk.1 (List.mem_map.mpr ⟨(k'', none), hm', rfl⟩)
        | some s => simp at he; obtain ⟨_, rfl⟩ := he; simp at ht
    | some s =>
      simp only [List.filterMap_cons, List.nodup_cons]
      constructor
      · rintro ⟨hn, hr⟩
        refine ⟨?_, hr⟩
        intro hmem
        apply hn
        obtain ⟨⟨k', v'⟩, hm, hv⟩ := List.mem_filterMap.mp hmem
        simp at hv; subst hv
        exact List.mem_map.mpr ⟨(k', Target.name s), (mem_dedupNones_name rest k' s).mpr hm, rfl⟩
      · rintro ⟨hn, hr⟩
        refine ⟨?_, hr⟩
        intro hmem
        apply hn
        obtain ⟨⟨k', t⟩, hm, ht⟩ := List.mem_map.mp hmem
        simp at ht; subst ht
        exact List.mem_filterMap.mpr ⟨(k', some s), (mem_dedupNones_name rest k' s).mp hm, rfl⟩

/-! ### the live `bidict` -/

/-- a value `t` may sit under key `k`: a disabled marker only under its own key -/
def Owned (k : String) (t : Target) : Prop := ∀ k', t = .disabled k' → k' = k

theorem owned_ofUser (k : String) (v : Option String) : Owned k (.ofUser v) := by
  intro k' h; cases v <;> simp [Target.ofUser] at h

theorem owned_disabled (k : String) : Owned k (.disabled k) := by
  intro k' h; cases h; rfl

/-- invariant of a stored map: a `bidict` (keys and values pairwise different) whose disabled
markers sit under the key they name -/
structure MapInv (m : KeyMap) : Prop where
  keys : (m.map Prod.fst).Nodup
  vals : (m.map Prod.snd).Nodup
  own  : ∀ k k', (k, Target.disabled k') ∈ m → k = k'

theorem lookup_none_iff {β} (m : List (String × β)) (k : String) : m.lookup k = none ↔ k ∉ m.map Prod.fst := by
  induction m with
  | nil => simp
  | cons e rest ih =>
    obtain ⟨k', v⟩ := e
    by_cases h : k = k'
    · subst h; simp [List.lookup]
    · have : (k == k') = false := by simpa using h
      simp [List.lookup, this, ih, h]

theorem lookup_mem_nodup {β} (m : List (String × β)) (k : String) (v : β)
    (hnd : (m.map Prod.fst).Nodup) (hm : (k, v) ∈ m) : m.lookup k = some v := by
  induction m with
  | nil => cases hm
  | cons e rest ih =>
    obtain ⟨k', v'⟩ := e
    simp only [List.map_cons, List.nodup_cons] at hnd
    rcases List.mem_cons.mp hm with heq | hin
    · cases heq; simp [List.lookup]
    · have hne : k ≠ k' := by
        intro e; subst e
        exact hnd.1 (List.mem_map.mpr ⟨(k, v), hin, rfl⟩)
      have : (k == k') = false := by simpa using hne
      simp only [List.lookup, this]
      exact ih hnd.2 hin

theorem keyOf_none_iff (m : KeyMap) (t : Target) : keyOf m t = none ↔ t ∉ m.map Prod.snd := by
  simp only [keyOf, Option.map_eq_none_iff, List.find?_eq_none, List.mem_map, not_exists, not_and]
  constructor
  · intro h x hx e; exact h x hx (by simp [e])
  · intro h x hx e; exact h x hx (by simpa using e)

theorem keyOf_some_mem (m : KeyMap) (t : Target) (k : String) (h : keyOf m t = some k) : (k, t) ∈ m := by
  unfold keyOf at h
  cases hf : m.find? (fun e => e.2 == t) with
  | none => simp [hf] at h
  | some e =>
    have h1 := List.mem_of_find?_eq_some hf
    have h2 := List.find?_some hf
    obtain ⟨a, b⟩ := e
    simp [hf] at h
    simp at h2
    subst h; subst h2; exact h1

/-- in a bidict the key of a value is unique -/
theorem key_unique (m : KeyMap) (h : (m.map Prod.snd).Nodup) (k k' : String) (t : Target)
    (h1 : (k, t) ∈ m) (h2 : (k', t) ∈ m) : k = k' := by
  by_cases e : k = k'
  · exact e
  · exact absurd h (not_nodup_of_two m k k' t e h1 h2)

theorem keyOf_eq_some (m : KeyMap) (h : (m.map Prod.snd).Nodup) (k : String) (t : Target)
    (hm : (k, t) ∈ m) : keyOf m t = some k := by
  cases hk : keyOf m t with
  | none => exact absurd (List.mem_map.mpr ⟨(k, t), hm, rfl⟩) ((keyOf_none_iff m t).mp hk)
  | some k' => rw [key_unique m h k' k t (keyOf_some_mem m t k' hk) hm]

/-! #### `setAt` -/

theorem setAt_keys (m : KeyMap) (k : String) (t : Target) : (setAt m k t).map Prod.fst = m.map Prod.fst := by
  unfold setAt
  rw [List.map_map]
  apply List.map_congr_left
  intro e _
  by_cases h : e.1 = k <;> simp [h]

theorem mem_setAt (m : KeyMap) (k : String) (t : Target) (a : String) (b : Target)
    (h : (a, b) ∈ setAt m k t) : ((a, b) ∈ m ∧ a ≠ k) ∨ (a = k ∧ b = t) := by
  unfold setAt at h
  obtain ⟨e, he, heq⟩ := List.mem_map.mp h
  by_cases hk : e.1 == k
  · simp [hk] at heq
    right; exact ⟨by rw [← heq.1]; simpa using hk, heq.2.symm⟩
  · simp [hk] at heq
    left; subst heq; exact ⟨he, by simpa using hk⟩

theorem setAt_of_not_mem (m : KeyMap) (k : String) (t : Target) (h : k ∉ m.map Prod.fst) : setAt m k t = m := by
  unfold setAt
  conv => rhs; rw [← List.map_id m]
  apply List.map_congr_left
  intro e he
  have : e.1 ≠ k := fun e' => h (List.mem_map.mpr ⟨e, he, e'⟩)
  simp [this]

theorem lookup_setAt (m : KeyMap) (k : String) (t : Target) (x : String) :
    (setAt m k t).lookup x = if x = k then (m.lookup k).map (fun _ => t) else m.lookup x := by
  induction m with
  | nil => simp [setAt]
  | cons e rest ih =>
    obtain ⟨k', v⟩ := e
    have hc : setAt ((k', v) :: rest) k t = (if k' == k then (k', t) else (k', v)) :: setAt rest k t := rfl
    rw [hc]
    by_cases hk : k' = k
    · subst hk
      by_cases hx : x = k'
      · subst hx; simp [List.lookup]
      · have : (x == k') = false := by simpa using hx
        simp [List.lookup, this, hx, ih]
    · have hk' : (k' == k) = false := by simpa using hk
      simp only [hk', Bool.false_eq_true, if_false]
      by_cases hx : x = k'
      · subst hx; simp [List.lookup, hk]
      · have : (x == k') = false := by simpa using hx
        simp only [List.lookup, this, ih]
        by_cases hxk : x = k
        · subst hxk
          have : (x == k') = false := by simpa using hx
          simp [this]
        · simp [hxk]

theorem setAt_vals_nodup (m : KeyMap) (k : String) (t : Target)
    (hk : (m.map Prod.fst).Nodup) (hv : (m.map Prod.snd).Nodup) (ht : t ∉ m.map Prod.snd) :
    ((setAt m k t).map Prod.snd).Nodup := by
  induction m with
  | nil => simp [setAt]
  | cons e rest ih =>
    obtain ⟨k', v⟩ := e
    simp only [List.map_cons, List.nodup_cons, List.mem_cons, not_or] at hk hv ht
    have hc : setAt ((k', v) :: rest) k t = (if k' == k then (k', t) else (k', v)) :: setAt rest k t := rfl
    rw [hc]
    by_cases hkk : k' = k
    · subst hkk
      rw [setAt_of_not_mem rest k' t hk.1]
      simp only [beq_self_eq_true, if_true, List.map_cons, List.nodup_cons]
      exact ⟨ht.2, hv.2⟩
    · have hk' : (k' == k) = false := by simpa using hkk
      simp only [hk', Bool.false_eq_true, if_false, List.map_cons, List.nodup_cons]
      refine ⟨?_, ih hk.2 hv.2 ht.2⟩
      intro hmem
      obtain ⟨⟨a, b⟩, hab, hb⟩ := List.mem_map.mp hmem
      simp only at hb; subst hb
      rcases mem_setAt rest k t a b hab with ⟨h1, _⟩ | ⟨_, h2⟩
      · exact hv.1 (List.mem_map.mpr ⟨(a, b), h1, rfl⟩)
      · exact ht.1 h2.symm

theorem MapInv.setAt {m : KeyMap} (h : MapInv m) (k : String) (t : Target)
    (ht : t ∉ m.map Prod.snd) (ho : Owned k t) : MapInv (setAt m k t) := by
  refine ⟨?_, setAt_vals_nodup m k t h.keys h.vals ht, ?_⟩
  · rw [setAt_keys]; exact h.keys
  · intro a k' hm
    rcases mem_setAt m k t a _ hm with ⟨h1, _⟩ | ⟨h1, h2⟩
    · exact h.own a k' h1
    · rw [h1]; exact (ho k' h2.symm).symm

/-! #### `eraseKey`, append, `dropLast` -/

theorem MapInv.sublist {m m' : KeyMap} (h : MapInv m) (hs : m'.Sublist m) : MapInv m' :=
  ⟨(hs.map _).nodup h.keys, (hs.map _).nodup h.vals, fun k k' hm => h.own k k' (hs.subset hm)⟩

theorem MapInv.erase {m : KeyMap} (h : MapInv m) (k : String) : MapInv (eraseKey m k) :=
  h.sublist List.filter_sublist

theorem mem_eraseKey (m : KeyMap) (k : String) (e : String × Target) :
    e ∈ eraseKey m k ↔ e ∈ m ∧ e.1 ≠ k := by
  simp [eraseKey]

theorem eraseKey_keys (m : KeyMap) (k : String) : k ∉ (eraseKey m k).map Prod.fst := by
  intro h
  obtain ⟨e, he, hk⟩ := List.mem_map.mp h
  exact ((mem_eraseKey m k e).mp he).2 hk

theorem lookup_eraseKey (m : KeyMap) (k x : String) :
    (eraseKey m k).lookup x = if x = k then none else m.lookup x := by
  induction m with
  | nil => simp [eraseKey]
  | cons e rest ih =>
    obtain ⟨k', v⟩ := e
    unfold eraseKey at ih ⊢
    by_cases hk : k' = k
    · subst hk
      simp only [List.filter, beq_self_eq_true, Bool.not_true, ih]
      by_cases hx : x = k'
      · simp [hx]
      · have : (x == k') = false := by simpa using hx
        simp [hx, List.lookup, this]
    · have hk' : (k' == k) = false := by simpa using hk
      simp only [List.filter, hk', Bool.not_false]
      by_cases hx : x = k'
      · subst hx; simp [List.lookup, hk]
      · have : (x == k') = false := by simpa using hx
        simp only [List.lookup, this, ih]

/-- the value of the erased item is gone -/
theorem erase_val_gone {m : KeyMap} (h : MapInv m) (k : String) (t : Target) (hm : (k, t) ∈ m) :
    t ∉ (eraseKey m k).map Prod.snd := by
  intro hmem
  obtain ⟨⟨a, b⟩, hab, hb⟩ := List.mem_map.mp hmem
  simp only at hb; subst hb
  have := (mem_eraseKey m k (a, b)).mp hab
  exact this.2 (key_unique m h.vals a k b this.1 hm)

theorem MapInv.append {m : KeyMap} (h : MapInv m) (k : String) (t : Target)
    (hk : k ∉ m.map Prod.fst) (ht : t ∉ m.map Prod.snd) (ho : Owned k t) : MapInv (m ++ [(k, t)]) := by
  refine ⟨?_, ?_, ?_⟩
  · rw [List.map_append, List.nodup_append]
    refine ⟨h.keys, by simp, ?_⟩
    intro a ha b hb
    simp at hb; subst hb
    intro e; subst e; exact hk ha
  · rw [List.map_append, List.nodup_append]
    refine ⟨h.vals, by simp, ?_⟩
    intro a ha b hb
    simp at hb; subst hb
    intro e; subst e; exact ht ha
  · intro a k' hm
    rcases List.mem_append.mp hm with h1 | h1
    · exact h.own a k' h1
    · simp at h1; rw [h1.1]; exact (ho k' h1.2.symm).symm

theorem lookup_append_single {β} (m : List (String × β)) (k : String) (t : β) (x : String) :
    (m ++ [(k, t)]).lookup x = match m.lookup x with | some v => some v | none => if x = k then some t else none := by
  induction m with
  | nil =>
    by_cases h : x = k
    · subst h; simp [List.lookup]
    · have : (x == k) = false := by simpa using h
      simp [List.lookup, this, h]
  | cons e rest ih =>
    obtain ⟨k', v⟩ := e
    by_cases hx : x = k'
    · subst hx; simp
    · have : (x == k') = false := by simpa using hx
      simp only [List.cons_append, List.lookup, this, ih]


/-! #### the writes preserve the invariant -/

theorem lookup_some_keys {β} (m : List (String × β)) (k : String) (v : β) (h : m.lookup k = some v) :
    k ∈ m.map Prod.fst := by
  apply Classical.byContradiction
  intro hn
  rw [(lookup_none_iff m k).mpr hn] at h; cases h

theorem bput_inv {m : KeyMap} (h : MapInv m) (k : String) (t : Target) (ho : Owned k t) :
    MapInv (bput m k t).1 := by
  unfold bput
  cases hl : m.lookup k with
  | none =>
    cases hk : keyOf m t with
    | none => exact h.append k t ((lookup_none_iff m k).mp hl) ((keyOf_none_iff m t).mp hk) ho
    | some k' => exact h
  | some v =>
    cases hk : keyOf m t with
    | none => exact h.setAt k t ((keyOf_none_iff m t).mp hk) ho
    | some k' => by_cases e : k' = k <;> simp [e] <;> exact h

theorem bput_err_same (m : KeyMap) (k : String) (t : Target) (h : (bput m k t).2 ≠ .ok) :
    (bput m k t).1 = m := by
  unfold bput at h ⊢
  cases hl : m.lookup k <;> cases hk : keyOf m t <;> simp_all
  split <;> simp_all

theorem bforce_inv {m : KeyMap} (h : MapInv m) (k : String) (t : Target) (ho : Owned k t) :
    MapInv (bforce m k t) := by
  unfold bforce
  cases hl : m.lookup k with
  | none =>
    cases hk : keyOf m t with
    | none => exact h.append k t ((lookup_none_iff m k).mp hl) ((keyOf_none_iff m t).mp hk) ho
    | some k' =>
      refine (h.erase k').append k t ?_ (erase_val_gone h k' t (keyOf_some_mem m t k' hk)) ho
      intro hm
      obtain ⟨e, he, hek⟩ := List.mem_map.mp hm
      exact (lookup_none_iff m k).mp hl (List.mem_map.mpr ⟨e, ((mem_eraseKey m k' e).mp he).1, hek⟩)
  | some v =>
    cases hk : keyOf m t with
    | none => exact h.setAt k t ((keyOf_none_iff m t).mp hk) ho
    | some k' =>
      by_cases e : k' = k
      · simp [e]; exact h
      · simp only [e, if_false]
        exact (h.erase k').setAt k t (erase_val_gone h k' t (keyOf_some_mem m t k' hk)) ho

theorem binvPut_inv {m : KeyMap} (h : MapInv m) (t : Target) (k : String) (ho : Owned k t) :
    MapInv (binvPut m t k).1 := by
  unfold binvPut
  cases hk : keyOf m t with
  | none =>
    cases hl : m.lookup k with
    | none => exact h.append k t ((lookup_none_iff m k).mp hl) ((keyOf_none_iff m t).mp hk) ho
    | some v => exact h
  | some k' =>
    cases hl : m.lookup k with
    | none =>
      refine (h.erase k').append k t ?_ (erase_val_gone h k' t (keyOf_some_mem m t k' hk)) ho
      intro hm
      obtain ⟨e, he, hek⟩ := List.mem_map.mp hm
      exact (lookup_none_iff m k).mp hl (List.mem_map.mpr ⟨e, ((mem_eraseKey m k' e).mp he).1, hek⟩)
    | some v => by_cases e : k' = k <;> simp [e] <;> exact h

theorem bputAll_inv (kvs : List (String × Target)) (hkv : ∀ kv ∈ kvs, Owned kv.1 kv.2) :
    ∀ {m : KeyMap}, MapInv m → MapInv (bputAll m kvs).1 := by
  induction kvs with
  | nil => intro m h; exact h
  | cons kv rest ih =>
    intro m h
    unfold bputAll
    have h1 := bput_inv h kv.1 kv.2 (hkv kv (by simp))
    generalize hb : bput m kv.1 kv.2 = r at h1
    obtain ⟨m', res⟩ := r
    cases res <;> simp only <;> (first | exact ih (fun kv hk => hkv kv (by simp [hk])) h1 | exact h1)

theorem bupdate_inv {m : KeyMap} (h : MapInv m) (kvs : List (String × Target))
    (hkv : ∀ kv ∈ kvs, Owned kv.1 kv.2) : MapInv (bupdate m kvs).1 := by
  unfold bupdate
  have h1 := bputAll_inv kvs hkv h
  generalize bputAll m kvs = r at h1
  obtain ⟨m', res⟩ := r
  cases res <;> simp only <;> (first | exact h1 | exact h)

theorem bupdate_err_same (m : KeyMap) (kvs : List (String × Target)) (h : (bupdate m kvs).2 ≠ .ok) :
    (bupdate m kvs).1 = m := by
  unfold bupdate at h ⊢
  generalize bputAll m kvs = r at h ⊢
  obtain ⟨m', res⟩ := r
  cases res <;> simp_all

theorem editMap_inv {m : KeyMap} (h : MapInv m) (e : Edit) : MapInv (editMap m e).1 := by
  cases e with
  | put k v => exact bput_inv h k _ (owned_ofUser k v)
  | del k => simp only [editMap]; split <;> (first | exact h.erase k | exact h)
  | pop k => simp only [editMap]; split <;> (first | exact h.erase k | exact h)
  | popd k => exact h.erase k
  | update kvs =>
    refine bupdate_inv h _ ?_
    intro kv hkv
    obtain ⟨e, _, rfl⟩ := List.mem_map.mp hkv
    exact owned_ofUser _ _
  | force k v => exact bforce_inv h k _ (owned_ofUser k v)
  | invPut v k => exact binvPut_inv h _ k (owned_ofUser k v)
  | invDel v => simp only [editMap]; split <;> (first | exact h.erase _ | exact h)
  | clear => exact ⟨by simp [editMap], by simp [editMap], by simp [editMap]⟩
  | popitem => simp only [editMap]; split <;> (first | exact h | exact h.sublist (List.dropLast_sublist m))
  | setdefault k v => simp only [editMap]; split <;> (first | exact h | exact bput_inv h k _ (owned_ofUser k v))

/-- a refused edit leaves the map as it was -/
theorem editMap_err_same (m : KeyMap) (e : Edit) (h : (editMap m e).2 ≠ .ok) : (editMap m e).1 = m := by
  cases e with
  | put k v => exact bput_err_same m k _ h
  | del k => simp only [editMap] at h ⊢; split <;> simp_all
  | pop k => simp only [editMap] at h ⊢; split <;> simp_all
  | popd k => simp [editMap] at h
  | update kvs => exact bupdate_err_same m _ h
  | force k v => simp [editMap] at h
  | invPut v k =>
    simp only [editMap, binvPut] at h ⊢
    cases hk : keyOf m (.ofUser v) <;> cases hl : m.lookup k <;> simp_all
    split <;> simp_all
  | invDel v => simp only [editMap] at h ⊢; split <;> simp_all
  | clear => simp [editMap] at h
  | popitem => simp only [editMap] at h ⊢; split <;> simp_all
  | setdefault k v =>
    simp only [editMap] at h ⊢
    split
    · rfl
    · rename_i hs; simp only [hs] at h; exact bput_err_same m k _ (by simpa using h)


/-! #### what `m[k] = t` does, completely -/

theorem bput_refused_iff {m : KeyMap} (h : MapInv m) (k : String) (t : Target) :
    (bput m k t).2 ≠ .ok ↔ ∃ k', k' ≠ k ∧ (k', t) ∈ m := by
  unfold bput
  cases hl : m.lookup k with
  | none =>
    cases hk : keyOf m t with
    | none =>
      simp only [ne_eq, not_true_eq_false, false_iff, not_exists, not_and]
      intro k' _ hm
      exact (keyOf_none_iff m t).mp hk (List.mem_map.mpr ⟨(k', t), hm, rfl⟩)
    | some k'' =>
      simp only [ne_eq, reduceCtorEq, not_false_eq_true, true_iff]
      have hm := keyOf_some_mem m t k'' hk
      refine ⟨k'', ?_, hm⟩
      intro e; subst e
      exact (lookup_none_iff m k'').mp hl (List.mem_map.mpr ⟨(k'', t), hm, rfl⟩)
  | some v =>
    cases hk : keyOf m t with
    | none =>
      simp only [ne_eq, not_true_eq_false, false_iff, not_exists, not_and]
      intro k' _ hm
      exact (keyOf_none_iff m t).mp hk (List.mem_map.mpr ⟨(k', t), hm, rfl⟩)
    | some k'' =>
      have hm := keyOf_some_mem m t k'' hk
      by_cases e : k'' = k
      · simp only [e, if_true, ne_eq, not_true_eq_false, false_iff, not_exists, not_and]
        intro k' hne hm'
        exact hne (e ▸ key_unique m h.vals k' k'' t hm' hm)
      · simp only [e, if_false, ne_eq, reduceCtorEq, not_false_eq_true, true_iff]
        exact ⟨k'', e, hm⟩

theorem bput_ok_lookup {m : KeyMap} (h : MapInv m) (k : String) (t : Target)
    (hok : (bput m k t).2 = .ok) (x : String) :
    (bput m k t).1.lookup x = if x = k then some t else m.lookup x := by
  unfold bput at hok ⊢
  cases hl : m.lookup k with
  | none =>
    cases hk : keyOf m t with
    | none =>
      simp only [lookup_append_single]
      by_cases hx : x = k
      · subst hx; simp [hl]
      · simp only [hx, if_false]; cases m.lookup x <;> rfl
    | some k'' => simp [hl, hk] at hok
  | some v =>
    cases hk : keyOf m t with
    | none =>
      simp only [lookup_setAt]
      by_cases hx : x = k
      · subst hx; simp [hl]
      · simp [hx]
    | some k'' =>
      by_cases e : k'' = k
      · subst e
        simp only [if_true]
        by_cases hx : x = k''
        · subst hx
          simp only [if_true]
          exact lookup_mem_nodup m x t h.keys (keyOf_some_mem m t x hk)
        · simp [hx]
      · simp [hl, hk, e] at hok

/-! #### the getter's clean-up -/

/-- no raw `None` is stored -/
def Normal (m : KeyMap) : Prop := Target.rawNone ∉ m.map Prod.snd

theorem lookup_userView (m : KeyMap) (k : String) : (userView m).lookup k = (m.lookup k).map Target.view := by
  induction m with
  | nil => simp [userView]
  | cons e rest ih =>
    obtain ⟨k', v⟩ := e
    unfold userView at ih ⊢
    by_cases hx : k = k'
    · subst hx; simp
    · have : (k == k') = false := by simpa using hx
      simp only [List.map_cons, List.lookup, this, ih]

theorem userView_setAt_hidden (m : KeyMap) (k : String) (hk : (m.map Prod.fst).Nodup)
    (hl : m.lookup k = some .rawNone) : userView (setAt m k (.disabled k)) = userView m := by
  unfold userView setAt
  rw [List.map_map]
  apply List.map_congr_left
  intro e he
  by_cases hek : e.1 = k
  · have : m.lookup k = some e.2 := lookup_mem_nodup m k e.2 hk (by rw [← hek]; exact he)
    rw [hl] at this
    simp only [Option.some.injEq] at this
    simp [hek, ← this, Target.view]
  · simp [hek]

theorem normalizeFrom_spec (items : List (String × Target)) :
    ∀ (cur : KeyMap), MapInv cur → (items.map Prod.fst).Nodup → (∀ e ∈ items, cur.lookup e.1 = some e.2) →
      (normalizeFrom cur items).2 = .ok ∧ MapInv (normalizeFrom cur items).1 ∧
      userView (normalizeFrom cur items).1 = userView cur ∧
      (∀ k, (normalizeFrom cur items).1.lookup k = some .rawNone →
        cur.lookup k = some .rawNone ∧ k ∉ items.map Prod.fst) := by
  induction items with
  | nil => intro cur h _ _; exact ⟨rfl, h, rfl, fun k hk => ⟨hk, by simp⟩⟩
  | cons e rest ih =>
    intro cur h hnd hag
    obtain ⟨k0, t0⟩ := e
    simp only [List.map_cons, List.nodup_cons] at hnd
    have hl : cur.lookup k0 = some t0 := hag (k0, t0) (by simp)
    have hag' : ∀ e ∈ rest, cur.lookup e.1 = some e.2 := fun e he => hag e (by simp [he])
    cases t0 with
    | name n =>
      obtain ⟨h1, h2, h3, h4⟩ := ih cur h hnd.2 hag'
      refine ⟨h1, h2, h3, ?_⟩
      intro k hk
      obtain ⟨h5, h6⟩ := h4 k hk
      refine ⟨h5, ?_⟩
      simp only [List.map_cons, List.mem_cons, not_or]
      refine ⟨?_, h6⟩
      intro e; subst e; rw [hl] at h5; cases h5
    | disabled n =>
      obtain ⟨h1, h2, h3, h4⟩ := ih cur h hnd.2 hag'
      refine ⟨h1, h2, h3, ?_⟩
      intro k hk
      obtain ⟨h5, h6⟩ := h4 k hk
      refine ⟨h5, ?_⟩
      simp only [List.map_cons, List.mem_cons, not_or]
      refine ⟨?_, h6⟩
      intro e; subst e; rw [hl] at h5; cases h5
    | rawNone =>
      have hk : keyOf cur (.disabled k0) = none := by
        cases hk : keyOf cur (.disabled k0) with
        | none => rfl
        | some k' =>
          have hm := keyOf_some_mem cur _ k' hk
          have := h.own k' k0 hm
          subst this
          have := lookup_mem_nodup cur k' _ h.keys hm
          rw [hl] at this; cases this
      have hb : bput cur k0 (.disabled k0) = (setAt cur k0 (.disabled k0), .ok) := by
        simp [bput, hl, hk]
      have hinv : MapInv (setAt cur k0 (.disabled k0)) :=
        h.setAt k0 _ ((keyOf_none_iff cur _).mp hk) (owned_disabled k0)
      have hag'' : ∀ e ∈ rest, (setAt cur k0 (.disabled k0)).lookup e.1 = some e.2 := by
        intro e he
        have hne : e.1 ≠ k0 := fun e' => hnd.1 (List.mem_map.mpr ⟨e, he, e'⟩)
        rw [lookup_setAt]; simp [hne, hag' e he]
      obtain ⟨h1, h2, h3, h4⟩ := ih _ hinv hnd.2 hag''
      have hstep : normalizeFrom cur ((k0, Target.rawNone) :: rest) =
          normalizeFrom (setAt cur k0 (.disabled k0)) rest := by
        simp [normalizeFrom, hb]
      rw [hstep]
      refine ⟨h1, h2, ?_, ?_⟩
      · rw [h3]; exact userView_setAt_hidden cur k0 h.keys hl
      · intro k hk'
        obtain ⟨h5, h6⟩ := h4 k hk'
        rw [lookup_setAt] at h5
        by_cases hkk : k = k0
        · subst hkk; simp [hl] at h5
        · simp only [hkk, if_false] at h5
          refine ⟨h5, ?_⟩
          simp only [List.map_cons, List.mem_cons, not_or]
          exact ⟨hkk, h6⟩

/-- the getter on a well-formed stored map: never raises, keeps it well-formed, does not
change what the user sees, and leaves no raw `None` behind -/
theorem normalize_spec {m : KeyMap} (h : MapInv m) :
    (normalize m).2 = .ok ∧ MapInv (normalize m).1 ∧ userView (normalize m).1 = userView m ∧
      Normal (normalize m).1 := by
  have hag : ∀ e ∈ m, m.lookup e.1 = some e.2 := fun e he => lookup_mem_nodup m e.1 e.2 h.keys he
  obtain ⟨h1, h2, h3, h4⟩ := normalizeFrom_spec m m h h.keys hag
  refine ⟨h1, h2, h3, ?_⟩
  intro hmem
  obtain ⟨⟨k, t⟩, hkt, ht⟩ := List.mem_map.mp hmem
  simp only at ht; subst ht
  have hl := lookup_mem_nodup _ k _ h2.keys hkt
  obtain ⟨h5, h6⟩ := h4 k hl
  exact h6 (lookup_some_keys m k _ h5)

/-- on a clean map hiding a channel is never refused -/
theorem bput_none_ok {m : KeyMap} (hn : Normal m) (k : String) : (bput m k .rawNone).2 = .ok := by
  have : keyOf m .rawNone = none := (keyOf_none_iff m _).mpr hn
  unfold bput
  cases hl : m.lookup k <;> simp [this]

/-! #### the panel depends on the stored map only through what the user sees -/

theorem stepKey_view (m : KeyMap) (connected : Nat → Bool) (ch : String × Nat) :
    stepKey m connected ch =
      if uInIO (userView m) connected ch then some (uKey (userView m) ch) else none := by
  unfold stepKey uInIO uKey
  rw [lookup_userView]
  cases h : m.lookup ch.1 with
  | none => cases hc : connected ch.2 <;> simp
  | some t => cases t <;> simp [Target.view]

theorem buildFrom_congr (m m' : KeyMap) (connected : Nat → Bool)
    (h : ∀ ch, stepKey m connected ch = stepKey m' connected ch) :
    ∀ (chans : Chans) (io : Panel), buildFrom m connected io chans = buildFrom m' connected io chans := by
  intro chans
  induction chans with
  | nil => intro io; rfl
  | cons ch rest ih =>
    intro io
    unfold buildFrom
    rw [h ch]
    cases stepKey m' connected ch with
    | none => exact ih io
    | some k => simp only; split <;> (first | rfl | exact ih _)

theorem buildFrom_view (m m' : KeyMap) (connected : Nat → Bool) (h : userView m = userView m')
    (chans : Chans) (io : Panel) : buildFrom m connected io chans = buildFrom m' connected io chans :=
  buildFrom_congr m m' connected (fun ch => by rw [stepKey_view, stepKey_view, h]) chans io

theorem inIO_view (m : KeyMap) (connected : Nat → Bool) (ch : String × Nat) :
    inIO m connected ch = uInIO (userView m) connected ch := by
  unfold inIO uInIO exposedAs isHidden
  rw [lookup_userView]
  cases h : m.lookup ch.1 with
  | none => simp
  | some t => cases t <;> simp [Target.view]

theorem keyFor_view (m : KeyMap) (ch : String × Nat) : keyFor m ch = uKey (userView m) ch := by
  unfold keyFor uKey exposedAs
  rw [lookup_userView]
  cases h : m.lookup ch.1 with
  | none => simp
  | some t => cases t <;> simp [Target.view]

theorem spec_eq_uspec (m : Option KeyMap) (connected : Nat → Bool) (chans : Chans) :
    spec m connected chans = uspec (userView (m.getD [])) connected chans := by
  unfold spec uspec
  have h1 : inIO (m.getD []) connected = uInIO (userView (m.getD [])) connected :=
    funext (inIO_view _ connected)
  rw [h1]
  apply List.map_congr_left
  intro ch _
  rw [keyFor_view]


/-! #### worlds -/

def MapOK : Option KeyMap → Prop
  | none => True
  | some m => MapInv m

/-- both stored maps are well-formed bidicts -/
def WInv (w : W) : Prop := MapOK w.imap ∧ MapOK w.omap

/-- the argument of a whole-map assignment is a Python mapping: its keys are pairwise different -/
def Op.WF : Op → Prop
  | .setMap _ (some m) => (m.map Prod.fst).Nodup
  | .setMapB _ m => (m.map Prod.fst).Nodup
  | _ => True

theorem dedupNones_inv (m : UserMap) (hk : (m.map Prod.fst).Nodup) (hb : bidictOk (dedupNones m) = true) :
    MapInv (dedupNones m) := by
  refine ⟨by rw [dedupNones_keys]; exact hk, by simpa [bidictOk] using hb, ?_⟩
  intro k k' hm
  simp only [dedupNones, List.mem_map] at hm
  obtain ⟨⟨a, v⟩, _, he⟩ := hm
  cases v with
  | none => simp at he; rw [← he.1, ← he.2]
  | some s => simp at he

theorem setMap_ok (old : Option KeyMap) (new : Option UserMap) (ho : MapOK old)
    (hk : ∀ m, new = some m → (m.map Prod.fst).Nodup) : MapOK (setMap old new).1 := by
  unfold setMap
  cases new with
  | none => trivial
  | some m =>
    simp only
    split
    · rename_i hb; exact dedupNones_inv m (hk m rfl) hb
    · exact ho

theorem setMapB_ok (old : Option KeyMap) (m : UserMap) (ho : MapOK old) (hk : (m.map Prod.fst).Nodup) :
    MapOK (setMapB old m).1 := by
  unfold setMapB
  simp only
  split
  · rename_i hb
    refine ⟨?_, by simpa [bidictOk] using hb, ?_⟩
    · rw [List.map_map]; exact hk
    · intro k k' hm
      obtain ⟨⟨a, v⟩, _, he⟩ := List.mem_map.mp hm
      cases v <;> simp [Target.ofUser] at he
  · exact ho

theorem readMap_ok (m : Option KeyMap) (ho : MapOK m) : MapOK (readMap m).1 := by
  cases m with
  | none => trivial
  | some m => exact (normalize_spec ho).2.1

theorem editStored_ok (m : Option KeyMap) (e : Edit) (ho : MapOK m) : MapOK (editStored m e).1 := by
  cases m with
  | none => trivial
  | some m => exact editMap_inv ho e

theorem setValue_maps (w : W) (c : Nat) (v : Val) :
    (setValue w c v).1.imap = w.imap ∧ (setValue w c v).1.omap = w.omap := by
  unfold setValue; split <;> simp

theorem assignVia_maps (w : W) (s : Side) (k : String) (v : Val) :
    (assignVia w s k v).1.imap = w.imap ∧ (assignVia w s k v).1.omap = w.omap := by
  unfold assignVia
  cases w.panel s with
  | none => simp
  | some p =>
    simp only
    cases panelGet p k with
    | none => simp
    | some c => exact setValue_maps w c v

theorem connectVia_maps (w : W) (s : Side) (k : String) (b : Nat) :
    (connectVia w s k b).1.imap = w.imap ∧ (connectVia w s k b).1.omap = w.omap := by
  unfold connectVia
  cases w.panel s with
  | none => simp
  | some p =>
    simp only
    cases panelGet p k with
    | none => simp only; split <;> simp
    | some c => simp

theorem addChild_maps (w : W) (c : Child) :
    (addChild w c).1.imap = w.imap ∧ (addChild w c).1.omap = w.omap := by
  unfold addChild; split <;> simp

theorem removeChild_maps (w : W) (l : String) :
    (removeChild w l).1.imap = w.imap ∧ (removeChild w l).1.omap = w.omap := by
  unfold removeChild; split <;> simp

theorem replaceSwap_maps (w : W) (old : Child) (l lab : String) (c : Child) :
    (replaceSwap w old l lab c).imap = w.imap ∧ (replaceSwap w old l lab c).omap = w.omap := by
  simp [replaceSwap]

theorem replaceChild_maps (b : Bool) (w : W) (l : String) (c : Child) :
    (replaceChild b w l c).1.imap = w.imap ∧ (replaceChild b w l c).1.omap = w.omap := by
  unfold replaceChild
  repeat' split
  all_goals first
    | exact ⟨rfl, rfl⟩
    | exact replaceSwap_maps _ _ _ _ _

theorem relabelChild_maps (b : Bool) (w : W) (o : String) (n : LabelArg) :
    (relabelChild b w o n).1.imap = w.imap ∧ (relabelChild b w o n).1.omap = w.omap := by
  unfold relabelChild
  split
  · simp
  · cases n with
    | attr _ => simp
    | nonStr => cases b <;> simp
    | str s =>
      simp only
      split
      · simp
      · split
        · simp
        · split
          · cases b <;> simp
          · simp

theorem pullChild_maps (b : Bool) (w : W) (l : String) (f : Bool) :
    (pullChild b w l f).imap = w.imap ∧ (pullChild b w l f).omap = w.omap := by
  unfold pullChild
  split
  · simp
  · simp only
    split <;> simp

theorem loadChild_maps (b : Bool) (w : W) (l : String) (c : Child) :
    (loadChild b w l c).1.imap = w.imap ∧ (loadChild b w l c).1.omap = w.omap := by
  unfold loadChild; split <;> simp

/-- putting the labels back node by node undoes the temporary labels -/
theorem labelBack_labelTemp (tree : List String) (cs : List Child) : labelBack cs (labelTemp tree cs) = cs := by
  induction cs with
  | nil => rfl
  | cons c rest ih =>
    have hc : labelTemp tree (c :: rest) =
        (if tree.contains c.label then { c with label := tmpLabel c } else c) :: labelTemp tree rest := rfl
    rw [hc]
    simp only [labelBack]
    rw [ih]
    congr 1
    split <;> (cases c; rfl)

/-- every operation of the larger alphabet keeps both stored maps well-formed -/
theorem step_inv (w : W) (op : Op) (h : WInv w) (hwf : op.WF) : WInv (step w op).1 := by
  obtain ⟨hi, ho⟩ := h
  cases op with
  | add c => have := addChild_maps w c; simp only [step, WInv, this.1, this.2]; exact ⟨hi, ho⟩
  | remove l => have := removeChild_maps w l; simp only [step, WInv, this.1, this.2]; exact ⟨hi, ho⟩
  | connect a b => exact ⟨hi, ho⟩
  | disconnect a b => exact ⟨hi, ho⟩
  | disconnectAll a => exact ⟨hi, ho⟩
  | setMap s m =>
    have hk : ∀ m', m = some m' → (m'.map Prod.fst).Nodup := by
      intro m' e; subst e; exact hwf
    cases s
    · exact ⟨setMap_ok _ _ hi hk, ho⟩
    · exact ⟨hi, setMap_ok _ _ ho hk⟩
  | assign s k v => have := assignVia_maps w s k v; simp only [step, WInv, this.1, this.2]; exact ⟨hi, ho⟩
  | connectVia s k b => have := connectVia_maps w s k b; simp only [step, WInv, this.1, this.2]; exact ⟨hi, ho⟩
  | setVal c v => exact ⟨hi, ho⟩
  | setMapB s m =>
    cases s
    · exact ⟨setMapB_ok _ _ hi hwf, ho⟩
    · exact ⟨hi, setMapB_ok _ _ ho hwf⟩
  | read s =>
    cases s
    · exact ⟨readMap_ok _ hi, ho⟩
    · exact ⟨hi, readMap_ok _ ho⟩
  | edit s e =>
    cases s
    · exact ⟨editStored_ok _ e hi, ho⟩
    · exact ⟨hi, editStored_ok _ e ho⟩
  | replace l c => have := replaceChild_maps false w l c; simp only [step, WInv, this.1, this.2]; exact ⟨hi, ho⟩
  | relabel o n => have := relabelChild_maps false w o n; simp only [step, WInv, this.1, this.2]; exact ⟨hi, ho⟩
  | pull l f => have := pullChild_maps true w l f; simp only [step, WInv, this.1, this.2]; exact ⟨hi, ho⟩
  | load l c => have := loadChild_maps false w l c; simp only [step, WInv, this.1, this.2]; exact ⟨hi, ho⟩

theorem run_inv (ops : List Op) (hwf : ∀ op ∈ ops, op.WF) : ∀ (w : W), WInv w → WInv (run w ops) := by
  induction ops with
  | nil => intro w h; exact h
  | cons op rest ih =>
    intro w h
    have : run w (op :: rest) = run (step w op).1 rest := rfl
    rw [this]
    exact ih (fun o ho => hwf o (by simp [ho])) _ (step_inv w op h (hwf op (by simp)))

theorem empty_inv (admits : Nat → Val → Bool) (valid : Nat → Nat → Bool) : WInv (empty admits valid) :=
  ⟨trivial, trivial⟩

/-- the map of one side after the getter ran -/
theorem read_map (w : W) (s : Side) :
    (step w (.read s)).1.map s = (readMap (w.map s)).1 ∧ (step w (.read s)).2 = (readMap (w.map s)).2 ∧
    (step w (.read s)).1.children = w.children ∧ (step w (.read s)).1.g = w.g ∧
    (step w (.read s)).1.val = w.val := by
  cases s <;> simp [step, W.map]

theorem edit_map (w : W) (s : Side) (e : Edit) :
    (step w (.edit s e)).1.map s = (editStored (w.map s) e).1 ∧
    (step w (.edit s e)).2 = (editStored (w.map s) e).2 ∧
    (step w (.edit s e)).1.children = w.children ∧ (step w (.edit s e)).1.g = w.g := by
  cases s <;> simp [step, W.map]

theorem WInv.map {w : W} (h : WInv w) (s : Side) : MapOK (w.map s) := by
  cases s
  · exact h.1
  · exact h.2

theorem view_ofUser (v : Option String) : (Target.ofUser v).view = v := by
  cases v <;> rfl

theorem panel_congr (w w' : W) (s : Side) (hc : w'.children = w.children) (hg : w'.g = w.g)
    (hv : userView ((w'.map s).getD []) = userView ((w.map s).getD [])) : w'.panel s = w.panel s := by
  unfold W.panel buildIO W.chans
  have : w'.connected = w.connected := by funext c; simp [W.connected, hg]
  rw [hc, this]
  exact buildFrom_view _ _ _ hv _ _

end PwVerif.WfIO
