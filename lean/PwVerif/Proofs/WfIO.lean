import PwVerif.Model.WfIO
/-! Helper lemmas for C15: the loop of `_build_io` computes the stated set expression, or
fails exactly when two visible channels would share one key. -/
namespace PwVerif.WfIO
open PwVerif

/-- the set expression for a plain (non-optional) map -/
def specL (m : KeyMap) (connected : Nat → Bool) (chans : Chans) : Panel :=
  (chans.filter (inIO m connected)).map fun ch => (keyFor m ch, ch.2)

theorem spec_eq_specL (m : Option KeyMap) (connected : Nat → Bool) (chans : Chans) :
    spec m connected chans = specL (m.getD []) connected chans := rfl

/-- the loop body assigns a channel iff it is in (open ∪ exposed) \ hidden, under `keyFor` -/
theorem stepKey_eq (m : KeyMap) (connected : Nat → Bool) (ch : String × Nat) :
    stepKey m connected ch = if inIO m connected ch then some (keyFor m ch) else none := by
  unfold stepKey inIO keyFor exposedAs isHidden
  cases h : m.lookup ch.1 with
  | none => cases hc : connected ch.2 <;> simp
  | some t => cases t <;> simp

theorem specL_cons_in (m : KeyMap) (connected : Nat → Bool) (ch : String × Nat) (rest : Chans)
    (h : inIO m connected ch = true) :
    specL m connected (ch :: rest) = (keyFor m ch, ch.2) :: specL m connected rest := by
  simp [specL, h]

theorem specL_cons_out (m : KeyMap) (connected : Nat → Bool) (ch : String × Nat) (rest : Chans)
    (h : inIO m connected ch = false) :
    specL m connected (ch :: rest) = specL m connected rest := by
  simp [specL, h]

theorem hasKey_append (io : Panel) (k : String) (c : Nat) (k' : String) :
    hasKey (io ++ [(k, c)]) k' = (hasKey io k' || k == k') := by
  simp [hasKey]

theorem hasKey_false_iff (io : Panel) (k : String) :
    hasKey io k = false ↔ k ∉ io.map Prod.fst := by
  simp [hasKey]
  constructor
  · intro h c hc; exact h k c hc rfl
  · intro h a b hab e; subst e; exact h b hab

/-- no two visible channels share a key, and none of them is already in `io` -/
def Fresh (m : KeyMap) (connected : Nat → Bool) (io : Panel) (chans : Chans) : Prop :=
  ((specL m connected chans).map Prod.fst).Nodup ∧
    ∀ k ∈ (specL m connected chans).map Prod.fst, hasKey io k = false

/-- the loop, characterised completely -/
theorem buildFrom_some_iff (m : KeyMap) (connected : Nat → Bool) :
    ∀ (chans : Chans) (io p : Panel),
      buildFrom m connected io chans = some p ↔
        (Fresh m connected io chans ∧ p = io ++ specL m connected chans) := by
  intro chans
  induction chans with
  | nil =>
    intro io p
    simp only [buildFrom, Fresh, specL, List.filter_nil, List.map_nil, List.nodup_nil, List.not_mem_nil,
      false_imp_iff, implies_true, and_self, true_and, List.append_nil, Option.some.injEq]
    exact eq_comm
  | cons ch rest ih =>
    intro io p
    unfold buildFrom
    rw [stepKey_eq]
    by_cases hin : inIO m connected ch = true
    · simp only [hin, if_true]
      by_cases hk : hasKey io (keyFor m ch) = true
      · simp only [hk, if_true]
        constructor
        · intro h; cases h
        · rintro ⟨⟨_, hall⟩, _⟩
          have := hall (keyFor m ch) (by simp [specL_cons_in _ _ _ _ hin])
          simp [hk] at this
      · have hk' : hasKey io (keyFor m ch) = false := by simpa using hk
        simp only [hk', Bool.false_eq_true, if_false]
        rw [ih]
        unfold Fresh
        rw [specL_cons_in _ _ _ _ hin]
        simp only [List.map_cons, List.nodup_cons, List.mem_cons, forall_eq_or_imp, hk', true_and,
          List.append_assoc, List.singleton_append]
        constructor
        · rintro ⟨⟨hnd, hall⟩, rfl⟩
          refine ⟨⟨⟨?_, hnd⟩, ?_⟩, rfl⟩
          · intro hmem
            have := hall _ hmem
            simp [hasKey_append] at this
          · intro k hkm
            have := hall k hkm
            simp [hasKey_append] at this
            exact this.1
        · rintro ⟨⟨⟨hnot, hnd⟩, hall⟩, rfl⟩
          refine ⟨⟨hnd, ?_⟩, rfl⟩
          intro k hkm
          rw [hasKey_append, hall k hkm]
          have : keyFor m ch ≠ k := fun e => hnot (e ▸ hkm)
          simp [this]
    · have hin' : inIO m connected ch = false := by simpa using hin
      simp only [hin', Bool.false_eq_true, if_false]
      rw [ih]
      unfold Fresh
      rw [specL_cons_out _ _ _ _ hin']

/-- keys of the set expression are pairwise different (= the effective naming is one-to-one) -/
def NoClash (m : Option KeyMap) (connected : Nat → Bool) (chans : Chans) : Prop :=
  ((spec m connected chans).map Prod.fst).Nodup

theorem buildIO_some_iff (m : Option KeyMap) (connected : Nat → Bool) (chans : Chans) (p : Panel) :
    buildIO m connected chans = some p ↔ (NoClash m connected chans ∧ p = spec m connected chans) := by
  unfold buildIO NoClash
  rw [buildFrom_some_iff, spec_eq_specL]
  simp [Fresh, hasKey]

theorem buildIO_none_iff (m : Option KeyMap) (connected : Nat → Bool) (chans : Chans) :
    buildIO m connected chans = none ↔ ¬ NoClash m connected chans := by
  constructor
  · intro h hn
    have := (buildIO_some_iff m connected chans _).mpr ⟨hn, rfl⟩
    rw [h] at this; cases this
  · intro h
    cases hb : buildIO m connected chans with
    | none => rfl
    | some p => exact absurd ((buildIO_some_iff m connected chans p).mp hb).1 h

/-- lookup in a panel with pairwise different keys finds exactly the listed channel -/
theorem lookup_of_mem_nodup : ∀ (p : Panel) (k : String) (c : Nat),
    (p.map Prod.fst).Nodup → (k, c) ∈ p → p.lookup k = some c := by
  intro p
  induction p with
  | nil => intro k c _ h; cases h
  | cons e rest ih =>
    intro k c hnd hmem
    obtain ⟨k', c'⟩ := e
    simp only [List.map_cons, List.nodup_cons] at hnd
    rcases List.mem_cons.mp hmem with heq | hin
    · cases heq; simp [List.lookup]
    · have hne : k ≠ k' := by
        intro e; subst e
        exact hnd.1 (List.mem_map.mpr ⟨(k, c), hin, rfl⟩)
      have : (k == k') = false := by simpa using hne
      simp only [List.lookup, this]
      exact ih k c hnd.2 hin

theorem mem_of_lookup {β} : ∀ (p : List (String × β)) (k : String) (c : β), p.lookup k = some c → (k, c) ∈ p := by
  intro p
  induction p with
  | nil => intro k c h; simp [List.lookup] at h
  | cons e rest ih =>
    intro k c h
    obtain ⟨k', c'⟩ := e
    simp only [List.lookup] at h
    split at h
    · rename_i hb
      have : k = k' := by simpa using hb
      cases h; subst this; simp
    · exact List.mem_cons_of_mem _ (ih k c h)

/-- membership in the set expression, spelled out -/
theorem mem_spec_iff (m : Option KeyMap) (connected : Nat → Bool) (chans : Chans) (k : String) (c : Nat) :
    (k, c) ∈ spec m connected chans ↔
      ∃ ch ∈ chans, ch.2 = c ∧ inIO (m.getD []) connected ch = true ∧ k = keyFor (m.getD []) ch := by
  simp only [spec, List.mem_map, List.mem_filter, Prod.mk.injEq]
  constructor
  · rintro ⟨ch, ⟨hm, hin⟩, hk, hc⟩; exact ⟨ch, hm, hc, hin, hk.symm⟩
  · rintro ⟨ch, hm, hc, hin, hk⟩; exact ⟨ch, ⟨hm, hin⟩, hk.symm, hc⟩

/-! ### the renaming maps -/

theorem dedupNones_keys (m : UserMap) : (dedupNones m).map Prod.fst = m.map Prod.fst := by
  simp [dedupNones, Function.comp_def]

/-- entries of the stored map that carry a name -/
theorem mem_dedupNones_name (m : UserMap) (k n : String) :
    (k, Target.name n) ∈ dedupNones m ↔ (k, some n) ∈ m := by
  simp only [dedupNones, List.mem_map]
  constructor
  · rintro ⟨⟨k', v⟩, hm, he⟩
    cases v with
    | none => simp at he
    | some s => simp at he; obtain ⟨rfl, rfl⟩ := he; exact hm
  · intro h; exact ⟨(k, some n), h, rfl⟩

/-- two different entries with one value ⇒ not `Nodup` -/
theorem not_nodup_of_two {α β} [DecidableEq β] : ∀ (l : List (α × β)) (a b : α) (v : β),
    a ≠ b → (a, v) ∈ l → (b, v) ∈ l → ¬ (l.map Prod.snd).Nodup := by
  intro l
  induction l with
  | nil => intro a b v _ h; cases h
  | cons e rest ih =>
    intro a b v hab ha hb hnd
    simp only [List.map_cons, List.nodup_cons] at hnd
    rcases List.mem_cons.mp ha with rfl | ha'
    · rcases List.mem_cons.mp hb with e | hb'
      · exact hab (by cases e; rfl)
      · exact hnd.1 (List.mem_map.mpr ⟨(b, v), hb', rfl⟩)
    · rcases List.mem_cons.mp hb with rfl | hb'
      · exact hnd.1 (List.mem_map.mpr ⟨(a, v), ha', rfl⟩)
      · exact ih a b v hab ha' hb' hnd.2

/-- with pairwise different keys, the stored values are pairwise different iff the *names*
are: the disabled markers never clash, however many there are -/
theorem dedupNones_values_nodup (m : UserMap) (hk : (m.map Prod.fst).Nodup) :
    ((dedupNones m).map Prod.snd).Nodup ↔ (m.filterMap Prod.snd).Nodup := by
  induction m with
  | nil => simp [dedupNones]
  | cons e rest ih =>
    obtain ⟨k, v⟩ := e
    simp only [List.map_cons, List.nodup_cons] at hk
    have ih' := ih hk.2
    have hcons : dedupNones ((k, v) :: rest) =
        (k, match v with | some s => Target.name s | none => Target.disabled k) :: dedupNones rest := rfl
    rw [hcons]
    simp only [List.map_cons, List.nodup_cons, ih']
    cases v with
    | none =>
      simp only [List.filterMap_cons]
      constructor
      · intro h; exact h.2
      · intro h
        refine ⟨?_, h⟩
        intro hmem
        obtain ⟨⟨k', t⟩, hm, ht⟩ := List.mem_map.mp hmem
        simp only [dedupNones, List.mem_map] at hm
        obtain ⟨⟨k'', v''⟩, hm', he⟩ := hm
        cases v'' with
        | none =>
          simp at he
          obtain ⟨rfl, rfl⟩ := he
          simp at ht; subst ht
          exact hk.1 (List.mem_map.mpr ⟨(k'', none), hm', rfl⟩)
        | some s => simp at he; obtain ⟨_, rfl⟩ := he; simp at ht
    | some s =>
      simp only [List.filterMap_cons, List.nodup_cons]
      constructor
      · rintro ⟨hn, hr⟩
        refine ⟨?_, hr⟩
        intro hmem
        apply hn
        obtain ⟨⟨k', v'⟩, hm, hv⟩ := List.mem_filterMap.mp hmem
        simp at hv; subst hv
        exact List.mem_map.mpr ⟨(k', Target.name s), (mem_dedupNones_name rest k' s).mpr hm, rfl⟩
      · rintro ⟨hn, hr⟩
        refine ⟨?_, hr⟩
        intro hmem
        apply hn
        obtain ⟨⟨k', t⟩, hm, ht⟩ := List.mem_map.mp hmem
        simp at ht; subst ht
        exact List.mem_filterMap.mpr ⟨(k', some s), (mem_dedupNones_name rest k' s).mp hm, rfl⟩

end PwVerif.WfIO
