import PwVerif.Model.Storage
/-! Lemmas for C19 (storage).  Core Lean only. -/
namespace PwVerif.Storage

/-! ### every crash point = every prefix of the step list -/

def prefixes {α} : List α → List (List α)
  | [] => [[]]
  | a :: l => [] :: (prefixes l).map (a :: ·)

theorem take_mem_prefixes {α} (l : List α) (k : Nat) : l.take k ∈ prefixes l := by
  induction l generalizing k with
  | nil => simp [prefixes]
  | cons a l ih =>
    cases k with
    | zero => simp [prefixes]
    | succ k =>
      simp only [List.take_succ_cons, prefixes, List.mem_cons, List.mem_map]
      exact Or.inr ⟨_, ih k, rfl⟩

theorem mem_prefixes_take {α} (l pre : List α) (h : pre ∈ prefixes l) : ∃ k, pre = l.take k := by
  induction l generalizing pre with
  | nil => simp [prefixes] at h; exact ⟨0, by simp [h]⟩
  | cons a l ih =>
    simp only [prefixes, List.mem_cons, List.mem_map] at h
    rcases h with rfl | ⟨q, hq, rfl⟩
    · exact ⟨0, rfl⟩
    · obtain ⟨k, rfl⟩ := ih q hq
      exact ⟨k + 1, rfl⟩

/-! ### the repaired save: what `_load` selects never degrades, at any crash point -/

/-- Repaired variant, any starting file system, any content, any crash point: `_load` still
selects what it selected before, or the new version, fully written. -/
theorem crash_sel_atomic (sw : Bool) (fs : FS) (c : Content) (cls : Cls) (v k : Nat) :
    storageLoad (crashFS ⟨.atomicReplace, sw⟩ fs c cls v k) = storageLoad fs ∨
      (c.fails = false ∧ storageLoad (crashFS ⟨.atomicReplace, sw⟩ fs c cls v k) = .ok cls v) := by
  unfold crashFS
  have hm := take_mem_prefixes (saveSteps (Cfg.mk .atomicReplace sw).saveMode c cls v) k
  generalize (saveSteps (Cfg.mk .atomicReplace sw).saveMode c cls v).take k = pre at hm
  obtain ⟨d, p, q, pt, ct⟩ := fs
  cases c <;>
    simp [saveSteps, attempt, prefixes] at hm <;>
    rcases hm with rfl | rfl | rfl | rfl | rfl | rfl | rfl | rfl | rfl | rfl <;>
    simp [runSteps, Step.apply, FS.set, FS.get, storageLoad, Content.fails] <;>
    cases p <;> cases q <;> simp

/-- ... and the two save files themselves are untouched by every prefix of a save that fails
under both picklers -/
theorem crash_bothFail_files_atomic (sw : Bool) (fs : FS) (c : Content) (hf : c.fails = true) (cls : Cls) (v k : Nat) :
    (crashFS ⟨.atomicReplace, sw⟩ fs c cls v k).pckl = fs.pckl ∧
      (crashFS ⟨.atomicReplace, sw⟩ fs c cls v k).cpckl = fs.cpckl := by
  unfold crashFS
  have hm := take_mem_prefixes (saveSteps (Cfg.mk .atomicReplace sw).saveMode c cls v) k
  generalize (saveSteps (Cfg.mk .atomicReplace sw).saveMode c cls v).take k = pre at hm
  obtain ⟨d, p, q, pt, ct⟩ := fs
  cases c <;> simp [Content.fails] at hf <;>
    simp [saveSteps, attempt, prefixes] at hm <;>
    rcases hm with rfl | rfl | rfl | rfl | rfl | rfl <;>
    simp [runSteps, Step.apply, FS.set]

/-- a save that raises (content unserialisable by both picklers) leaves both save files alone -/
theorem save_bothFail_files_atomic (sw : Bool) (fs : FS) (c : Content) (hf : c.fails = true) (cls : Cls) (v : Nat) :
    (saveFS ⟨.atomicReplace, sw⟩ fs c cls v).pckl = fs.pckl ∧
      (saveFS ⟨.atomicReplace, sw⟩ fs c cls v).cpckl = fs.cpckl := by
  obtain ⟨d, p, q, pt, ct⟩ := fs
  cases c <;> simp [Content.fails] at hf <;>
    simp [saveFS, saveSteps, attempt, runSteps, Step.apply, FS.set, FS.noFiles] <;>
    (repeat' split) <;> simp_all

theorem storageLoad_congr (a b : FS) (h1 : a.pckl = b.pckl) (h2 : a.cpckl = b.cpckl) :
    storageLoad a = storageLoad b := by
  simp [storageLoad, h1, h2]

theorem save_bothFail_sel_atomic (sw : Bool) (fs : FS) (c : Content) (hf : c.fails = true) (cls : Cls) (v : Nat) :
    storageLoad (saveFS ⟨.atomicReplace, sw⟩ fs c cls v) = storageLoad fs :=
  storageLoad_congr _ _ (save_bothFail_files_atomic sw fs c hf cls v).1 (save_bothFail_files_atomic sw fs c hf cls v).2

/-! ### a completed save is what `_load` selects (both variants, any starting file system) -/

theorem save_last_wins (cfg : Cfg) (fs : FS) (c : Content) (cls : Cls) (v : Nat) (hc : c.fails = false) :
    storageLoad (saveFS cfg fs c cls v) = .ok cls v := by
  obtain ⟨d, p, q, pt, ct⟩ := fs
  obtain ⟨m, sw⟩ := cfg
  cases m <;> cases c <;>
    simp_all [saveFS, saveSteps, attempt, runSteps, Step.apply, FS.set, FS.get, FS.noFiles, storageLoad, Content.fails]

/-- after a completed save no temporary is left and the directory exists -/
theorem save_ok_tidy (cfg : Cfg) (fs : FS) (c : Content) (cls : Cls) (v : Nat) (hc : c.fails = false)
    (ht : fs.pcklTmp = .absent ∨ cfg.saveMode = .atomicReplace) :
    (saveFS cfg fs c cls v).dir = true ∧ (saveFS cfg fs c cls v).pcklTmp = .absent := by
  obtain ⟨d, p, q, pt, ct⟩ := fs
  obtain ⟨m, sw⟩ := cfg
  cases m <;> cases c <;>
    simp_all [saveFS, saveSteps, attempt, runSteps, Step.apply, FS.set, FS.get, FS.noFiles, Content.fails]

/-! ### delete -/

theorem delete_cleans (cfg : Cfg) (fs : FS) :
    (deleteFS cfg fs).pckl = .absent ∧ (deleteFS cfg fs).cpckl = .absent ∧
      hasSaved (deleteFS cfg fs) = false ∧ storageLoad (deleteFS cfg fs) = .notFound ∧
      ¬ ((deleteFS cfg fs).dir = true ∧ (deleteFS cfg fs).noFiles = true) := by
  obtain ⟨d, p, q, pt, ct⟩ := fs
  obtain ⟨m, sw⟩ := cfg
  cases m <;> cases sw <;> cases p <;> cases q <;> cases d <;>
    simp [deleteFS, deleteSteps, hasSaved, hasLeftover, runSteps, Step.apply, FS.set, FS.noFiles, storageLoad] <;>
    (repeat' split) <;> simp_all

/-- files only exist inside an existing directory -/
def WF (fs : FS) : Prop := fs.dir = false → fs.noFiles = true

theorem delete_wf (cfg : Cfg) (fs : FS) (h : WF fs) : WF (deleteFS cfg fs) := by
  obtain ⟨d, p, q, pt, ct⟩ := fs
  obtain ⟨m, sw⟩ := cfg
  cases m <;> cases sw <;> cases d <;>
    simp_all [WF, deleteFS, deleteSteps, hasSaved, hasLeftover, runSteps, Step.apply, FS.set, FS.noFiles] <;>
    (repeat' split) <;> simp_all

theorem save_wf (cfg : Cfg) (fs : FS) (c : Content) (cls : Cls) (v : Nat) : WF (saveFS cfg fs c cls v) := by
  obtain ⟨d, p, q, pt, ct⟩ := fs
  obtain ⟨m, sw⟩ := cfg
  cases m <;> cases c <;>
    simp [WF, saveFS, saveSteps, attempt, runSteps, Step.apply, FS.set, FS.get, FS.noFiles] <;>
    (repeat' split) <;> simp_all

theorem crash_wf (cfg : Cfg) (fs : FS) (c : Content) (cls : Cls) (v k : Nat) (h : WF fs) :
    WF (crashFS cfg fs c cls v k) := by
  unfold crashFS
  have hm := take_mem_prefixes (saveSteps cfg.saveMode c cls v) k
  generalize (saveSteps cfg.saveMode c cls v).take k = pre at hm
  obtain ⟨d, p, q, pt, ct⟩ := fs
  obtain ⟨m, sw⟩ := cfg
  cases m <;> cases c <;>
    simp [saveSteps, attempt, prefixes] at hm <;>
    rcases hm with rfl | rfl | rfl | rfl | rfl | rfl | rfl | rfl | rfl | rfl <;>
    simp_all [WF, runSteps, Step.apply, FS.set, FS.get, FS.noFiles]

/-! ### Node.load -/

theorem nodeLoadBy_cls (chk : ClassCheck) (n : NodeSt) (fs : FS) : (nodeLoadBy chk n fs).1.cls = n.cls := by
  unfold nodeLoadBy
  split <;> (try split) <;> simp

theorem nodeLoad_cls (n : NodeSt) (fs : FS) : (nodeLoad n fs).1.cls = n.cls := nodeLoadBy_cls _ n fs

theorem nodeLoad_refused_unchanged (n : NodeSt) (fs : FS)
    (h : ∀ v, (nodeLoad n fs).2 ≠ .loaded v) : (nodeLoad n fs).1 = n := by
  unfold nodeLoad nodeLoadBy at h ⊢
  split <;> (try split) <;> simp_all

theorem nodeLoad_ok (n : NodeSt) (fs : FS) (v : Nat) (h : storageLoad fs = .ok n.cls v) :
    nodeLoad n fs = (⟨n.cls, v⟩, .loaded v) := by
  simp [nodeLoad, nodeLoadBy, ClassCheck.accepts, h]

theorem storageLoad_ok_hasSaved (fs : FS) (c : Cls) (v : Nat) (h : storageLoad fs = .ok c v) :
    hasSaved fs = true := by
  obtain ⟨d, p, q, pt, ct⟩ := fs
  cases p <;> cases q <;> simp_all [storageLoad, hasSaved]

theorem storageLoad_notFound_hasSaved (fs : FS) : storageLoad fs = .notFound ↔ hasSaved fs = false := by
  obtain ⟨d, p, q, pt, ct⟩ := fs
  cases p <;> cases q <;> simp [storageLoad, hasSaved]

theorem step_cls (cfg : Cfg) (w : World) (op : Op) : (step cfg w op).1.node.cls = w.node.cls := by
  cases op <;> simp [step]
  · exact nodeLoad_cls _ _
  · split
    · exact nodeLoad_cls ⟨w.node.cls, 0⟩ w.fs
    · rfl

theorem run_cls (cfg : Cfg) (w : World) (ops : List Op) : (run cfg w ops).node.cls = w.node.cls := by
  induction ops generalizing w with
  | nil => rfl
  | cons op r ih => simp [run, ih, step_cls]

/-- the ops that do not write: the file system is unchanged -/
theorem step_fs_readonly (cfg : Cfg) (w : World) (op : Op)
    (h : op = .load ∨ op = .reopen ∨ ∃ c v, op = .loadForeign c v) : (step cfg w op).1.fs = w.fs := by
  rcases h with rfl | rfl | ⟨c, v, rfl⟩ <;> simp [step]
  split <;> rfl

/-! ### the durability invariant -/

/-- what `_load` selects is what the history promises -/
def Sel (cls : Cls) (p : Promise) (fs : FS) : Prop :=
  match p.last with
  | some v => ∃ v', storageLoad fs = .ok cls v' ∧ (v' = v ∨ v' ∈ p.inflight)
  | none => storageLoad fs = .notFound ∨ ∃ v', storageLoad fs = .ok cls v' ∧ v' ∈ p.inflight

theorem sel_init (cls : Cls) : Sel cls Promise.init FS.init := by
  simp [Sel, Promise.init, FS.init, storageLoad]

theorem sel_step_atomic (sw : Bool) (w : World) (p : Promise) (op : Op) (h : Sel w.node.cls p w.fs) :
    Sel w.node.cls (p.step op) (step ⟨.atomicReplace, sw⟩ w op).1.fs := by
  cases op with
  | save c v =>
    cases hf : c.fails
    · have hl := save_last_wins ⟨.atomicReplace, sw⟩ w.fs c w.node.cls v hf
      simp_all [step, Promise.step, Sel]
    · simp only [step, Promise.step, hf, if_true]
      unfold Sel at h ⊢
      rw [save_bothFail_sel_atomic sw w.fs c hf]; exact h
  | crash c v k =>
    have hs := crash_sel_atomic sw w.fs c w.node.cls v k
    unfold Sel at h ⊢
    cases c <;> simp only [step, Promise.step, Content.fails] <;>
      rcases hs with hs | ⟨hne, hs⟩ <;> rw [hs] <;> (try simp [Content.fails] at hne) <;>
      cases hp : p.last <;> simp_all <;> grind
  | load => rw [step_fs_readonly _ _ _ (Or.inl rfl)]; exact h
  | reopen => rw [step_fs_readonly _ _ _ (Or.inr (Or.inl rfl))]; exact h
  | loadForeign c v => rw [step_fs_readonly _ _ _ (Or.inr (Or.inr ⟨c, v, rfl⟩))]; exact h
  | delete =>
    have := (delete_cleans ⟨.atomicReplace, sw⟩ w.fs).2.2.2.1
    simp [step, Promise.step, Sel, this]

theorem sel_run_atomic (sw : Bool) (w : World) (p : Promise) (ops : List Op) (h : Sel w.node.cls p w.fs) :
    Sel w.node.cls (promise p ops) (run ⟨.atomicReplace, sw⟩ w ops).fs := by
  induction ops generalizing w p with
  | nil => exact h
  | cons op r ih =>
    simp only [run, promise]
    have := ih (step ⟨.atomicReplace, sw⟩ w op).1 (p.step op) (by rw [step_cls]; exact sel_step_atomic sw w p op h)
    rwa [step_cls] at this

/-! ### the pinned code: exact durability as long as nothing fails after a good save -/

def SelExact (cls : Cls) (p : Promise) (fs : FS) : Prop :=
  ∀ v, p.last = some v → storageLoad fs = .ok cls v

theorem selExact_step (cfg : Cfg) (w : World) (p : Promise) (op : Op) (h : SelExact w.node.cls p w.fs)
    (hop : (match op with
      | .save c _ => !c.fails || p.last.isNone
      | .crash _ _ _ => p.last.isNone
      | _ => true) = true) :
    SelExact w.node.cls (p.step op) (step cfg w op).1.fs := by
  cases op with
  | save c v =>
    cases hf : c.fails
    · have hl := save_last_wins cfg w.fs c w.node.cls v hf
      simp_all [step, Promise.step, SelExact]
    · simp [hf] at hop
      intro v' hv'
      simp [Promise.step, hf, hop] at hv'
  | crash c v k =>
    simp at hop
    intro v' hv'
    cases hf : c.fails <;> simp [Promise.step, hf, hop] at hv'
  | load => rw [step_fs_readonly _ _ _ (Or.inl rfl)]; exact h
  | reopen => rw [step_fs_readonly _ _ _ (Or.inr (Or.inl rfl))]; exact h
  | loadForeign c v => rw [step_fs_readonly _ _ _ (Or.inr (Or.inr ⟨c, v, rfl⟩))]; exact h
  | delete => intro v hv; simp [Promise.step] at hv

theorem selExact_run (cfg : Cfg) (w : World) (p : Promise) (ops : List Op)
    (h : SelExact w.node.cls p w.fs) (hn : noFaultAfterGood p ops = true) :
    SelExact w.node.cls (promise p ops) (run cfg w ops).fs := by
  induction ops generalizing w p with
  | nil => exact h
  | cons op r ih =>
    simp only [run, promise]
    simp only [noFaultAfterGood, Bool.and_eq_true] at hn
    have := ih (step cfg w op).1 (p.step op) (by rw [step_cls]; exact selExact_step cfg w p op h hn.1) hn.2
    rwa [step_cls] at this

/-! ### the pinned code never leaves a torn file unless a save is interrupted -/

def Whole (fs : FS) : Prop :=
  (fs.pckl = .absent ∨ ∃ c v, fs.pckl = .good c v) ∧ (fs.cpckl = .absent ∨ ∃ c v, fs.cpckl = .good c v)

theorem whole_not_corrupt (fs : FS) (h : Whole fs) : storageLoad fs ≠ .corrupt := by
  obtain ⟨h1 | ⟨c, v, h1⟩, h2 | ⟨c', v', h2⟩⟩ := h <;> simp [storageLoad, h1, h2]

theorem whole_save (cfg : Cfg) (fs : FS) (c : Content) (cls : Cls) (v : Nat) (h : Whole fs) :
    Whole (saveFS cfg fs c cls v) := by
  obtain ⟨d, p, q, pt, ct⟩ := fs
  obtain ⟨m, sw⟩ := cfg
  cases m <;> cases c <;>
    simp [Whole, saveFS, saveSteps, attempt, runSteps, Step.apply, FS.set, FS.get, FS.noFiles] at h ⊢ <;>
    (repeat' split) <;> simp_all

theorem whole_delete (cfg : Cfg) (fs : FS) : Whole (deleteFS cfg fs) := by
  have := delete_cleans cfg fs
  exact ⟨Or.inl this.1, Or.inl this.2.1⟩

theorem whole_run (cfg : Cfg) (w : World) (ops : List Op) (h : Whole w.fs) (hn : noCrash ops = true) :
    Whole (run cfg w ops).fs := by
  induction ops generalizing w with
  | nil => exact h
  | cons op r ih =>
    cases op with
    | crash c v k => simp [noCrash] at hn
    | save c v => exact ih _ (whole_save cfg w.fs c w.node.cls v h) (by simpa [noCrash] using hn)
    | delete => exact ih _ (whole_delete cfg w.fs) (by simpa [noCrash] using hn)
    | load =>
      refine ih _ ?_ (by simpa [noCrash] using hn)
      rw [step_fs_readonly _ _ _ (Or.inl rfl)]; exact h
    | reopen =>
      refine ih _ ?_ (by simpa [noCrash] using hn)
      rw [step_fs_readonly _ _ _ (Or.inr (Or.inl rfl))]; exact h
    | loadForeign c v =>
      refine ih _ ?_ (by simpa [noCrash] using hn)
      rw [step_fs_readonly _ _ _ (Or.inr (Or.inr ⟨c, v, rfl⟩))]; exact h

/-- reachable file systems are well formed (files only inside an existing directory) -/
theorem wf_run (cfg : Cfg) (w : World) (ops : List Op) (h : WF w.fs) : WF (run cfg w ops).fs := by
  induction ops generalizing w with
  | nil => exact h
  | cons op r ih =>
    apply ih
    cases op with
    | crash c v k => exact crash_wf cfg w.fs c w.node.cls v k h
    | save c v => exact save_wf cfg w.fs c w.node.cls v
    | delete => exact delete_wf cfg w.fs h
    | load => rw [step_fs_readonly _ _ _ (Or.inl rfl)]; exact h
    | reopen => rw [step_fs_readonly _ _ _ (Or.inr (Or.inl rfl))]; exact h
    | loadForeign c v => rw [step_fs_readonly _ _ _ (Or.inr (Or.inr ⟨c, v, rfl⟩))]; exact h

/-! ### the auto-load decision (`has_saved_content`) against what `_load` selects -/

theorem autoAttempt_eq_loadable (fs : FS) (h : storageLoad fs ≠ .corrupt) : autoAttempt fs = loadable fs := by
  obtain ⟨d, p, q, pt, ct⟩ := fs
  cases p <;> cases q <;> simp_all [storageLoad, hasSaved, autoAttempt, loadable]

theorem sel_ok_or_notFound (cls : Cls) (p : Promise) (fs : FS) (h : Sel cls p fs) :
    storageLoad fs = .notFound ∨ ∃ v, storageLoad fs = .ok cls v := by
  unfold Sel at h
  split at h
  · obtain ⟨v', h, _⟩ := h; exact Or.inr ⟨v', h⟩
  · rcases h with h | ⟨v', h, _⟩
    · exact Or.inl h
    · exact Or.inr ⟨v', h⟩

/-- whatever the file system looks like: the constructor never sends `load` where `_load` finds no file -/
theorem reopen_not_notFound (cfg : Cfg) (w : World) : (step cfg w .reopen).2 ≠ .load .notFound := by
  simp only [step]
  split
  · rename_i hs
    intro hc
    have hn : storageLoad w.fs ≠ .notFound := by
      intro hnf
      rw [autoAttempt, (storageLoad_notFound_hasSaved w.fs).1 hnf] at hs
      cases hs
    simp only [nodeLoad, nodeLoadBy] at hc
    split at hc
    · split at hc <;> cases hc
    · rename_i hnf; exact hn hnf
    · cases hc
  · intro hc; cases hc

/-! ### the in-place save never creates a temporary -/

def NoTmp (fs : FS) : Prop := fs.pcklTmp = .absent ∧ fs.cpcklTmp = .absent

theorem save_noTmp (sw : Bool) (fs : FS) (c : Content) (cls : Cls) (v : Nat) (h : NoTmp fs) :
    NoTmp (saveFS ⟨.inPlace, sw⟩ fs c cls v) := by
  obtain ⟨d, p, q, pt, ct⟩ := fs
  cases c <;>
    simp [NoTmp, saveFS, saveSteps, attempt, runSteps, Step.apply, FS.set, FS.noFiles] at h ⊢ <;>
    (repeat' split) <;> simp_all

theorem crash_noTmp (sw : Bool) (fs : FS) (c : Content) (cls : Cls) (v k : Nat) (h : NoTmp fs) :
    NoTmp (crashFS ⟨.inPlace, sw⟩ fs c cls v k) := by
  unfold crashFS
  have hm := take_mem_prefixes (saveSteps (Cfg.mk .inPlace sw).saveMode c cls v) k
  generalize (saveSteps (Cfg.mk .inPlace sw).saveMode c cls v).take k = pre at hm
  obtain ⟨d, p, q, pt, ct⟩ := fs
  cases c <;>
    simp [saveSteps, attempt, prefixes] at hm <;>
    rcases hm with rfl | rfl | rfl | rfl | rfl | rfl | rfl <;>
    simp_all [NoTmp, runSteps, Step.apply, FS.set]

theorem delete_noTmp (cfg : Cfg) (fs : FS) (h : NoTmp fs) : NoTmp (deleteFS cfg fs) := by
  obtain ⟨d, p, q, pt, ct⟩ := fs
  obtain ⟨m, sw⟩ := cfg
  cases m <;> cases sw <;>
    simp_all [NoTmp, deleteFS, deleteSteps, hasSaved, hasLeftover, runSteps, Step.apply, FS.set, FS.noFiles] <;>
    (repeat' split) <;> simp_all

theorem noTmp_run (sw : Bool) (w : World) (ops : List Op) (h : NoTmp w.fs) : NoTmp (run ⟨.inPlace, sw⟩ w ops).fs := by
  induction ops generalizing w with
  | nil => exact h
  | cons op r ih =>
    apply ih
    cases op with
    | crash c v k => exact crash_noTmp sw w.fs c w.node.cls v k h
    | save c v => exact save_noTmp sw w.fs c w.node.cls v h
    | delete => exact delete_noTmp _ w.fs h
    | load => rw [step_fs_readonly _ _ _ (Or.inl rfl)]; exact h
    | reopen => rw [step_fs_readonly _ _ _ (Or.inr (Or.inl rfl))]; exact h
    | loadForeign c v => rw [step_fs_readonly _ _ _ (Or.inr (Or.inr ⟨c, v, rfl⟩))]; exact h

/-! ### delete, full strength: nothing is left, neither file nor directory -/

theorem delete_all_sweep (m : SaveMode) (fs : FS) (h : m = .atomicReplace ∨ NoTmp fs) :
    deleteFS ⟨m, true⟩ fs = FS.init := by
  obtain ⟨d, p, q, pt, ct⟩ := fs
  cases m <;> cases d <;> cases p <;> cases q <;> cases pt <;> cases ct <;>
    simp_all [NoTmp, deleteFS, deleteSteps, hasSaved, hasLeftover, runSteps, Step.apply, FS.set, FS.noFiles, FS.init]

theorem delete_all_noTmp (cfg : Cfg) (fs : FS) (h : NoTmp fs) : deleteFS cfg fs = FS.init := by
  obtain ⟨d, p, q, pt, ct⟩ := fs
  obtain ⟨m, sw⟩ := cfg
  cases m <;> cases sw <;> cases d <;> cases p <;> cases q <;>
    simp_all [NoTmp, deleteFS, deleteSteps, hasSaved, hasLeftover, runSteps, Step.apply, FS.set, FS.noFiles, FS.init]

theorem delete_all_hasSaved (sw : Bool) (fs : FS) (h : hasSaved fs = true) :
    deleteFS ⟨.atomicReplace, sw⟩ fs = FS.init := by
  obtain ⟨d, p, q, pt, ct⟩ := fs
  cases sw <;> cases d <;> cases p <;> cases q <;>
    simp_all [deleteFS, deleteSteps, hasSaved, hasLeftover, runSteps, Step.apply, FS.set, FS.noFiles, FS.init]

end PwVerif.Storage
