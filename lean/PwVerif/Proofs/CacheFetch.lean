import PwVerif.Model.CacheFetch
namespace PwVerif.CacheFetch
variable {ρ : Type}

theorem fetchIn_key (nd : ρ) (env : List (Nat × ρ)) (a b : In ρ) (h : inKey a = inKey b) :
    fetchIn nd env a = fetchIn nd env b := by
  cases a <;> cases b <;> simp_all [inKey, fetchIn]

theorem map_fetchIn_key (nd : ρ) (env : List (Nat × ρ)) : ∀ (a b : List (In ρ)), a.map inKey = b.map inKey →
    a.map (fetchIn nd env) = b.map (fetchIn nd env)
  | [], [], _ => rfl
  | [], _ :: _, h => by simp at h
  | _ :: _, [], h => by simp at h
  | x :: xs, y :: ys, h => by
    simp only [List.map_cons, List.cons.injEq] at h ⊢
    exact ⟨fetchIn_key nd env x y h.1, map_fetchIn_key nd env xs ys h.2⟩

theorem inKey_fetchIn (nd : ρ) (env : List (Nat × ρ)) (a : In ρ) : inKey (fetchIn nd env a) = inKey a := by
  cases a <;> rfl

theorem fetchIn_idem (nd : ρ) (env : List (Nat × ρ)) (a : In ρ) : fetchIn nd env (fetchIn nd env a) = fetchIn nd env a := by
  cases a <;> rfl

/-- a run is a function of the key alone -/
theorem runBody_key (F : Nat → List ρ → ρ) (nd : ρ) : ∀ (b1 b2 : Body ρ) (env : List (Nat × ρ)),
    keyOf b1 = keyOf b2 → runBody F nd env b1 = runBody F nd env b2
  | [], [], _, _ => rfl
  | [], _ :: _, _, h => by simp [keyOf] at h
  | _ :: _, [], _, h => by simp [keyOf] at h
  | k1 :: r1, k2 :: r2, env, h => by
    simp only [keyOf, List.map_cons, List.cons.injEq, Prod.mk.injEq] at h
    obtain ⟨⟨hl, hc, hi⟩, hr⟩ := h
    have hm := map_fetchIn_key nd env k1.ins k2.ins hi
    simp only [runBody, hm, hl, hc]
    congr 1
    exact runBody_key F nd r1 r2 _ hr

/-- a re-fetch is a function of the key and the stored outputs -/
theorem refetch_key (nd : ρ) : ∀ (b1 b2 : Body ρ) (env : List (Nat × ρ)),
    keyOf b1 = keyOf b2 → labOuts b1 = labOuts b2 → refetch nd env b1 = refetch nd env b2
  | [], [], _, _, _ => rfl
  | [], _ :: _, _, h, _ => by simp [keyOf] at h
  | _ :: _, [], _, h, _ => by simp [keyOf] at h
  | k1 :: r1, k2 :: r2, env, h, ho => by
    simp only [keyOf, List.map_cons, List.cons.injEq, Prod.mk.injEq] at h
    simp only [labOuts, List.map_cons, List.cons.injEq, Prod.mk.injEq] at ho
    obtain ⟨⟨hl, hc, hi⟩, hr⟩ := h
    obtain ⟨⟨_, hout⟩, hor⟩ := ho
    have hm := map_fetchIn_key nd env k1.ins k2.ins hi
    simp only [refetch, hm, hl, hout]
    congr 1
    · cases k1; cases k2; simp_all
    · exact refetch_key nd r1 r2 _ hr hor

theorem keyOf_runBody (F : Nat → List ρ → ρ) (nd : ρ) : ∀ (b : Body ρ) (env : List (Nat × ρ)),
    keyOf (runBody F nd env b) = keyOf b
  | [], _ => rfl
  | k :: r, env => by
    simp only [runBody, keyOf, List.map_cons, List.map_map, List.cons.injEq, Prod.mk.injEq, true_and]
    refine ⟨?_, keyOf_runBody F nd r _⟩
    apply List.map_congr_left
    intro a _
    exact inKey_fetchIn nd env a

theorem keyOf_refetch (nd : ρ) : ∀ (b : Body ρ) (env : List (Nat × ρ)), keyOf (refetch nd env b) = keyOf b
  | [], _ => rfl
  | k :: r, env => by
    simp only [refetch, keyOf, List.map_cons, List.map_map, List.cons.injEq, Prod.mk.injEq, true_and]
    refine ⟨?_, keyOf_refetch nd r _⟩
    apply List.map_congr_left
    intro a _
    exact inKey_fetchIn nd env a

theorem labOuts_refetch (nd : ρ) : ∀ (b : Body ρ) (env : List (Nat × ρ)), labOuts (refetch nd env b) = labOuts b
  | [], _ => rfl
  | k :: r, env => by
    simp only [refetch, labOuts, List.map_cons, List.cons.injEq, true_and]
    exact labOuts_refetch nd r _

/-- right after a run a re-fetch changes nothing … -/
theorem refetch_runBody (F : Nat → List ρ → ρ) (nd : ρ) : ∀ (b : Body ρ) (env : List (Nat × ρ)),
    refetch nd env (runBody F nd env b) = runBody F nd env b
  | [], _ => rfl
  | k :: r, env => by
    simp only [runBody, refetch, List.map_map, List.cons.injEq]
    refine ⟨?_, refetch_runBody F nd r _⟩
    congr 1
    apply List.map_congr_left
    intro a _
    exact fetchIn_idem nd env a

/-- … and neither does another run -/
theorem runBody_idem (F : Nat → List ρ → ρ) (nd : ρ) (b : Body ρ) (env : List (Nat × ρ)) :
    runBody F nd env (runBody F nd env b) = runBody F nd env b :=
  runBody_key F nd _ _ env (keyOf_runBody F nd b env)

theorem labOuts_assign (l i : Nat) (v : ρ) (b : Body ρ) :
    labOuts (b.map (fun k => if k.label = l then { k with ins := setAt i (assignIn v) k.ins } else k)) = labOuts b := by
  simp only [labOuts, List.map_map]
  apply List.map_congr_left
  intro k _
  by_cases h : k.label = l <;> simp [h]

/-- the twins hold the same state, channel values included; an entry vouches that, for any body with its key
and the outputs as they stand, fetching again is all a run would do -/
structure Sim (F : Nat → List ρ → ρ) (nd : ρ) (a b : St ρ) : Prop where
  body : a.body = b.body
  valid : ∀ k, a.cache = some k → ∀ b', keyOf b' = k → labOuts b' = labOuts a.body →
    refetch nd [] b' = runBody F nd [] b'

theorem step_sim [DecidableEq ρ] (F : Nat → List ρ → ρ) (nd : ρ) (a b : St ρ) (op : Op ρ) (h : Sim F nd a b) :
    Sim F nd (step F nd true true a op).1 (step F nd true false b op).1 ∧
    (step F nd true true a op).2 = (step F nd true false b op).2 := by
  obtain ⟨hb, hv⟩ := h
  obtain ⟨ab, ac⟩ := a
  obtain ⟨bb, bc⟩ := b
  simp only at hb hv
  subst hb
  cases op with
  | assign l i v =>
    refine ⟨⟨rfl, ?_⟩, rfl⟩
    intro k hk b' hkey hout
    simp only [step] at hk hout
    rw [labOuts_assign] at hout
    exact hv k hk b' hkey hout
  | disconnect x => exact ⟨⟨rfl, by simp [step]⟩, rfl⟩
  | run =>
    by_cases hh : decide (ac = some (keyOf ab)) = true
    · have hc : ac = some (keyOf ab) := by simpa using hh
      have hfix := hv (keyOf ab) hc ab rfl rfl
      simp only [step, hh, Bool.true_and, Bool.false_and, if_true, Bool.false_eq_true, if_false, hfix]
      refine ⟨⟨rfl, ?_⟩, by first | rfl | trivial⟩
      intro k hk b' hkey hout
      simp only at hk hout
      rw [← hfix, labOuts_refetch] at hout
      exact hv k hk b' hkey hout
    · simp only [step, hh, Bool.true_and, Bool.false_and, Bool.false_eq_true, if_false, if_true]
      refine ⟨⟨rfl, ?_⟩, by first | rfl | trivial⟩
      intro k hk b' hkey hout
      simp only [Option.some.injEq] at hk
      subst hk
      rw [refetch_key nd b' (runBody F nd [] ab) [] hkey hout, refetch_runBody,
        runBody_key F nd b' (runBody F nd [] ab) [] hkey, runBody_idem]

theorem runOps_sim [DecidableEq ρ] (F : Nat → List ρ → ρ) (nd : ρ) (ops : List (Op ρ)) (a b : St ρ) (h : Sim F nd a b) :
    (runOps F nd true true a ops).2 = (runOps F nd true false b ops).2 ∧
    Sim F nd (runOps F nd true true a ops).1 (runOps F nd true false b ops).1 := by
  induction ops generalizing a b with
  | nil => exact ⟨rfl, h⟩
  | cons o os ih =>
    obtain ⟨hs, hr⟩ := step_sim F nd a b o h
    obtain ⟨ih1, ih2⟩ := ih _ _ hs
    simp only [runOps]
    exact ⟨by rw [hr, ih1], ih2⟩

end PwVerif.CacheFetch
