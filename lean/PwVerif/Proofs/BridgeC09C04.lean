import PwVerif.Model.Hint
import PwVerif.Model.Macro
/-!
# Bridge C09 ⇄ C04: the three hints of the macro generator under C04's comparison

The macro model (Model/Macro.lean) abstracts type hints to codes `1 ⊑ 2 ⊑ 3` and tests "as or more
specific" by `≤` (`hintClash`). The codes stand for `str | tuple`, `str | tuple | int` and `object`.
Here they are mapped to C04's hint grammar and compared with C04's transcription `ms` of
`type_hint_is_as_or_more_specific_than` (for the tree as it is now and as repaired): it answers, within
the fuel, exactly `a ≤ b`. So the parameter of the macro model IS C04's comparison on these hints.
-/
namespace PwVerif.BridgeC09C04
open PwVerif.Hint

def hintOf : Nat → Hint
  | 1 => .unionNew [.cls .str, .cls .tuple]
  | 2 => .unionNew [.cls .str, .cls .tuple, .cls .int]
  | _ => .cls .object

theorem clash_is_C04 : ∀ a ∈ [1, 2, 3], ∀ b ∈ [1, 2, 3],
    ms Cfg.now 10 (.h (hintOf a)) (.h (hintOf b)) = some (!Macro.hintClash a b) ∧
    ms Cfg.repaired 10 (.h (hintOf a)) (.h (hintOf b)) = some (!Macro.hintClash a b) := by
  decide

end PwVerif.BridgeC09C04
