import PwVerif.Model.ConnOps
import PwVerif.Proofs.Conn
/-! Lemmas for the second layer of C12: the guarded, half-by-half transcription coincides with
`Model/Conn.lean` when nothing refuses; a refusal between the halves is exactly what breaks
mutuality; owner-level disconnection as a filter; reports; refused copies. -/
namespace PwVerif.ConnOps
open PwVerif PwVerif.Conn

/-! ## extensionality, pairs -/

theorem G.ext' {g g' : G} (h1 : g.kind = g'.kind) (h2 : g.owner = g'.owner) (h3 : g.valid = g'.valid)
    (h4 : g.conns = g'.conns) : g = g' := by
  cases g; cases g'; simp_all

theorem G.eq_of_static {g g' : G} (hs : SameStatic g g') (hc : ∀ x, g'.conns x = g.conns x) : g' = g :=
  G.ext' hs.kind hs.owner hs.valid (funext hc)

/-- `(x, y)` is the pair `p`, in either orientation -/
def isPair (p : Nat × Nat) (x y : Nat) : Bool := (x == p.1 && y == p.2) || (x == p.2 && y == p.1)

def covered (log : List (Nat × Nat)) (x y : Nat) : Bool := log.any fun p => isPair p x y

theorem covered_append (l1 l2 : List (Nat × Nat)) (x y : Nat) :
    covered (l1 ++ l2) x y = (covered l1 x y || covered l2 x y) := by
  simp [covered, List.any_append]

theorem ne_of_conn {g : G} (h : Inv g) {a b : Nat} (hb : b ∈ g.conns a) : a ≠ b := by
  intro e; subst e
  have := h.typed a a hb; simp [conj_irrefl] at this

/-! ## the unguarded case is `Model/Conn.lean` -/

theorem disconnect1_eq (g : G) (a b : Nat) :
    disconnect1 g a b = if b ∈ g.conns a then (discBack allow (eraseHalf g a b) b a).1 else g := by
  unfold disconnect1 discBack eraseHalf allow
  by_cases hb : b ∈ g.conns a
  · simp only [hb, if_true]
    split <;> rfl
  · simp [hb]

theorem discBack_allow_raised (g : G) (b a : Nat) : (discBack allow g b a).2 = false := by
  simp only [discBack, allow, if_true]; split <;> rfl

theorem discLoop_allow (g : G) (a : Nat) (bs : List Nat) (rep : List (Nat × Nat)) :
    (discLoop allow g a bs rep).1 = disconnect g a bs ∧ (discLoop allow g a bs rep).2.2 = false := by
  induction bs generalizing g rep with
  | nil => simp [discLoop, disconnect]
  | cons b bs ih =>
    unfold discLoop
    by_cases hb : b ∈ g.conns a
    · simp only [hb, if_true]
      have hr := discBack_allow_raised (eraseHalf g a b) b a
      have he := disconnect1_eq g a b
      simp only [hb, if_true] at he
      rcases hd : discBack allow (eraseHalf g a b) b a with ⟨g2, r⟩
      rw [hd] at hr he
      simp only at hr he
      subst hr
      subst he
      simp only
      have := ih (disconnect1 g a b) (rep ++ [(a, b)])
      simpa [disconnect] using this
    · simp only [hb, if_false]
      have := ih g rep
      have h1 : disconnect1 g a b = g := disconnect1_unconnected_noop g a b hb
      simpa [disconnect, h1] using this

theorem disconnectG_allow (g : G) (a : Nat) (bs : List Nat) :
    (disconnectG allow g a bs).1 = disconnect g a bs ∧ (disconnectG allow g a bs).2.2 = false := by
  unfold disconnectG
  simpa [allow] using discLoop_allow g a bs []

theorem disconnectAllG_allow (g : G) (a : Nat) :
    (disconnectAllG allow g a).1 = disconnectAll g a ∧ (disconnectAllG allow g a).2.2 = false :=
  disconnectG_allow g a _

theorem disconnectChansG_allow (g : G) (cs : List Nat) (rep : List (Nat × Nat)) :
    (disconnectChansG allow g cs rep).1 = disconnectChans g cs ∧ (disconnectChansG allow g cs rep).2.2 = false := by
  induction cs generalizing g rep with
  | nil => simp [disconnectChansG, disconnectChans]
  | cons c cs ih =>
    unfold disconnectChansG
    have h := disconnectAllG_allow g c
    rcases hd : disconnectAllG allow g c with ⟨g', r, raised⟩
    rw [hd] at h
    simp only at h
    obtain ⟨h1, h2⟩ := h
    subst h2
    subst h1
    simp only
    have := ih (disconnectAll g c) (rep ++ r)
    simpa [disconnectChans] using this

theorem connectG_allow (g : G) (a : Nat) (bs : List Nat) :
    connectG allow g a bs = ((connect g a bs).1, .ofRes (connect g a bs).2) := by
  simp [connectG, allow]

theorem disconnectR_fst (g : G) (a : Nat) (bs : List Nat) : (disconnectR g a bs).1 = disconnect g a bs :=
  (disconnectG_allow g a bs).1

theorem disconnectChansR_fst (g : G) (cs : List Nat) : (disconnectChansR g cs).1 = disconnectChans g cs :=
  (disconnectChansG_allow g cs []).1

/-! ## refusals -/

theorem disconnectG_locked_noop (me : May) (g : G) (a : Nat) (bs : List Nat) (h : me a = false) :
    disconnectG me g a bs = (g, [], true) := by
  simp [disconnectG, h]

theorem connectG_locked_noop (me : May) (g : G) (a : Nat) (bs : List Nat) (h : me a = false) :
    connectG me g a bs = (g, .locked) := by
  simp [connectG, h]

theorem connectG_inv (me : May) (g : G) (a : Nat) (bs : List Nat) (h : Inv g) : Inv (connectG me g a bs).1 := by
  unfold connectG
  split
  · exact connect_inv g a bs h
  · exact h

theorem Out.ofRes_ok (r : Res) : Out.ofRes r = .ok ↔ r = .ok := by cases r <;> simp [Out.ofRes]

theorem connectG_single_refused_noop (me : May) (g : G) (a b : Nat) (hr : (connectG me g a [b]).2 ≠ .ok) :
    (connectG me g a [b]).1 = g := by
  unfold connectG at hr ⊢
  split
  · rename_i hm
    simp only [hm, if_true] at hr
    have hc : (connect g a [b]) = connect1 g a b := by
      unfold connect
      rcases h1 : connect1 g a b with ⟨g', r⟩
      cases r <;> simp [connect]
    rw [hc] at hr ⊢
    apply connect1_refused_noop
    intro h; apply hr; simp [Out.ofRes_ok, h]
  · rfl

/-- the state `a.disconnect(b)` leaves when `b` refuses: `a`'s half is gone, `b`'s is not -/
theorem disconnectG_single_torn (me : May) (g : G) (a b : Nat) (ha : me a = true) (hb : b ∈ g.conns a)
    (hmb : me b = false) : disconnectG me g a [b] = (eraseHalf g a b, [], true) := by
  simp [disconnectG, ha, discLoop, hb, discBack, hmb]

theorem eraseHalf_not_inv (g : G) (a b : Nat) (h : Inv g) (hb : b ∈ g.conns a) : ¬ Inv (eraseHalf g a b) := by
  intro hi
  have hab := ne_of_conn h hb
  have hba : a ∈ g.conns b := (h.symm a b).mp hb
  have h1 : a ∈ (eraseHalf g a b).conns b := by simp [eraseHalf, updF, Ne.symm hab, hba]
  have h2 : b ∈ (eraseHalf g a b).conns a := (hi.symm a b).mpr h1
  have : b ∉ (g.conns a).erase b := by
    rw [(h.nodup a).mem_erase_iff]; simp
  simp [eraseHalf, updF] at h2
  exact this h2

theorem disconnectG_single_ok (me : May) (g : G) (a b : Nat) (h : Inv g) (ha : me a = true) (hb : b ∈ g.conns a)
    (hmb : me b = true) : disconnectG me g a [b] = (disconnect1 g a b, [(a, b)], false) := by
  have hab := ne_of_conn h hb
  have hba : a ∈ g.conns b := (h.symm a b).mp hb
  have h1 : a ∈ (eraseHalf g a b).conns b := by simp [eraseHalf, updF, Ne.symm hab, hba]
  have he := disconnect1_eq g a b
  simp only [hb, if_true, discBack, allow, h1] at he
  simp [disconnectG, ha, discLoop, hb, discBack, hmb, h1, he]

/-- mutuality survives `a.disconnect(b)` exactly when `b` cannot refuse once `a`'s half is gone -/
theorem disconnectG_single_inv_iff (me : May) (g : G) (a b : Nat) (h : Inv g) (ha : me a = true)
    (hb : b ∈ g.conns a) : Inv (disconnectG me g a [b]).1 ↔ me b = true := by
  constructor
  · intro hi
    by_cases hmb : me b = true
    · exact hmb
    · have hmb' : me b = false := by simpa using hmb
      rw [disconnectG_single_torn me g a b ha hb hmb'] at hi
      exact absurd hi (eraseHalf_not_inv g a b h hb)
  · intro hmb
    rw [disconnectG_single_ok me g a b h ha hb hmb]
    exact disconnect1_inv g a b h

/-! ## the protocol that looks at both guards first -/

theorem stepSafe_inv (me : May) (g : G) (op : SafeOp) (h : Inv g) : Inv (stepSafe me g op).1 := by
  cases op with
  | connect a b =>
    simp only [stepSafe, connect1Safe]
    split
    · exact connect1_inv g a b h
    · exact h
  | disconnect a b =>
    simp only [stepSafe, disconnect1Safe]
    split
    · exact disconnect1_inv g a b h
    · exact h

theorem stepSafe_refused_noop (me : May) (g : G) (op : SafeOp) (hr : (stepSafe me g op).2 ≠ .ok) :
    (stepSafe me g op).1 = g := by
  cases op with
  | connect a b =>
    simp only [stepSafe, connect1Safe] at hr ⊢
    split
    · rename_i hm
      simp only [hm, if_true] at hr
      apply connect1_refused_noop
      intro h; apply hr; simp [Out.ofRes_ok, h]
    · rfl
  | disconnect a b =>
    simp only [stepSafe, disconnect1Safe] at hr ⊢
    split
    · rename_i hm
      simp [hm] at hr
    · rfl

theorem runSafe_inv (g : G) (hist : List (May × SafeOp)) (h : Inv g) : Inv (runSafe g hist) := by
  unfold runSafe
  induction hist generalizing g with
  | nil => exact h
  | cons s ss ih => exact ih _ (stepSafe_inv s.1 g s.2 h)

/-! ## disconnection is filtering -/

theorem disconnect1_conns (g : G) (a b : Nat) (h : Inv g) (x : Nat) :
    (disconnect1 g a b).conns x = (g.conns x).filter (fun y => !isPair (a, b) x y) := by
  by_cases hb : b ∈ g.conns a
  · have hab := ne_of_conn h hb
    have hba : a ∈ g.conns b := (h.symm a b).mp hb
    have h1 : a ∈ (updF g.conns a ((g.conns a).erase b)) b := by simp [updF, Ne.symm hab, hba]
    simp only [disconnect1, hb, if_true, h1]
    by_cases hxa : x = a
    · subst hxa
      simp only [updF, hab, if_false, if_true]
      rw [(h.nodup x).erase_eq_filter]
      apply List.filter_congr
      intro y _
      rw [Bool.eq_iff_iff]
      simp [isPair]
      grind
    · by_cases hxb : x = b
      · subst hxb
        simp only [updF, if_true, hxa, if_false]
        rw [(h.nodup x).erase_eq_filter]
        apply List.filter_congr
        intro y _
        rw [Bool.eq_iff_iff]
        simp [isPair]
        grind
      · simp only [updF, hxa, hxb, if_false]
        symm
        apply List.filter_eq_self.mpr
        intro y _
        simp [isPair, hxa, hxb]
  · rw [disconnect1_unconnected_noop g a b hb]
    symm
    apply List.filter_eq_self.mpr
    intro y hy
    have hba : a ∉ g.conns b := fun hm => hb ((h.symm a b).mpr hm)
    simp [isPair]
    grind

theorem disconnect_conns (g : G) (a : Nat) (bs : List Nat) (h : Inv g) (x : Nat) :
    (disconnect g a bs).conns x = (g.conns x).filter (fun y => !covered (bs.map fun b => (a, b)) x y) := by
  unfold disconnect
  induction bs generalizing g with
  | nil =>
    simp only [covered, List.any_nil, Bool.not_false, List.foldl_nil, List.map_nil]
    exact (List.filter_eq_self.mpr (fun _ _ => rfl)).symm
  | cons b bs ih =>
    simp only [List.foldl_cons, List.map_cons]
    rw [ih _ (disconnect1_inv g a b h), disconnect1_conns g a b h, List.filter_filter]
    apply List.filter_congr
    intro y _
    simp [covered, Bool.and_comm]

theorem undoPairs_static (g : G) (log : List (Nat × Nat)) : SameStatic g (undoPairs g log) := by
  unfold undoPairs
  induction log generalizing g with
  | nil => exact .refl g
  | cons p ps ih => exact (disconnect1_static g p.1 p.2).trans (ih _)

theorem undoPairs_conns (g : G) (log : List (Nat × Nat)) (h : Inv g) (x : Nat) :
    (undoPairs g log).conns x = (g.conns x).filter (fun y => !covered log x y) := by
  unfold undoPairs
  induction log generalizing g with
  | nil =>
    simp only [covered, List.any_nil, Bool.not_false, List.foldl_nil]
    exact (List.filter_eq_self.mpr (fun _ _ => rfl)).symm
  | cons p ps ih =>
    simp only [List.foldl_cons]
    rw [ih _ (disconnect1_inv g p.1 p.2 h), disconnect1_conns g p.1 p.2 h, List.filter_filter]
    apply List.filter_congr
    intro y _
    simp [covered, Bool.and_comm]

/-- `disconnect_all` of `a`: `a` holds nothing, everybody else just loses `a`, in place -/
theorem disconnectAll_conns (g : G) (a : Nat) (h : Inv g) (x : Nat) :
    (disconnectAll g a).conns x = if x = a then [] else (g.conns x).filter (fun y => y != a) := by
  unfold disconnectAll
  rw [disconnect_conns g a _ h x]
  by_cases hxa : x = a
  · subst hxa
    simp only [if_true]
    apply List.filter_eq_nil_iff.mpr
    intro y hy
    simp only [covered, List.any_map, Bool.not_eq_true, Bool.not_eq_false', List.any_eq_true]
    exact ⟨y, hy, by simp [isPair]⟩
  · simp only [hxa, if_false]
    apply List.filter_congr
    intro y hy
    rw [Bool.eq_iff_iff]
    simp only [covered, List.any_map, Bool.not_eq_true', List.any_eq_false, bne_iff_ne, ne_eq]
    constructor
    · intro hall hya
      subst hya
      have hx : x ∈ g.conns y := (h.symm y x).mpr hy
      have := hall x hx
      simp [isPair] at this
    · intro hya b _
      simp [isPair, hxa, hya]

/-- owner-level `disconnect()` over the channels `cs`: they hold nothing, everybody else loses exactly
them, order kept -/
theorem disconnectChans_conns (g : G) (cs : List Nat) (h : Inv g) (x : Nat) :
    (disconnectChans g cs).conns x = if x ∈ cs then [] else (g.conns x).filter (fun y => !cs.contains y) := by
  unfold disconnectChans
  induction cs generalizing g with
  | nil =>
    simp only [List.foldl_nil, List.not_mem_nil, if_false, List.contains_nil, Bool.not_false]
    exact (List.filter_eq_self.mpr (fun _ _ => rfl)).symm
  | cons c cs ih =>
    simp only [List.foldl_cons]
    rw [ih _ (disconnectAll_inv g c h), disconnectAll_conns g c h x]
    by_cases hxc : x = c
    · subst hxc; simp
    · by_cases hxs : x ∈ cs
      · simp [hxs]
      · simp only [hxs, if_false, hxc, List.mem_cons, or_self, List.filter_filter]
        apply List.filter_congr
        intro y _
        rw [Bool.eq_iff_iff]
        simp
        grind

theorem disconnectChans_clean (g : G) (cs : List Nat) (h : Inv g) (y : Nat) (hy : y ∈ cs) (x : Nat) :
    y ∉ (disconnectChans g cs).conns x ∧ (disconnectChans g cs).conns y = [] := by
  constructor
  · rw [disconnectChans_conns g cs h x]
    split
    · simp
    · simp [List.mem_filter, hy]
  · rw [disconnectChans_conns g cs h y]; simp [hy]

theorem anyConnected_after (g : G) (cs : List Nat) (h : Inv g) : anyConnected (disconnectChans g cs) cs = false := by
  unfold anyConnected
  apply List.any_eq_false.mpr
  intro c hc
  simp [(disconnectChans_clean g cs h c hc c).2]

/-! ## reports -/

theorem discLoop_allow_report (g : G) (a : Nat) (bs : List Nat) (rep : List (Nat × Nat)) (h : Inv g)
    (hn : bs.Nodup) (hall : ∀ b ∈ bs, b ∈ g.conns a) :
    (discLoop allow g a bs rep).2.1 = rep ++ bs.map fun b => (a, b) := by
  induction bs generalizing g rep with
  | nil => simp [discLoop]
  | cons b bs ih =>
    have hb : b ∈ g.conns a := hall b (by simp)
    have hab := ne_of_conn h hb
    unfold discLoop
    simp only [hb, if_true]
    have hr := discBack_allow_raised (eraseHalf g a b) b a
    have he := disconnect1_eq g a b
    simp only [hb, if_true] at he
    rcases hd : discBack allow (eraseHalf g a b) b a with ⟨g2, r⟩
    rw [hd] at hr he
    simp only at hr he
    subst hr
    subst he
    simp only
    have hn' := List.nodup_cons.mp hn
    rw [ih (disconnect1 g a b) (rep ++ [(a, b)]) (disconnect1_inv g a b h) hn'.2]
    · simp
    · intro b' hb'
      rw [disconnect1_conns g a b h a]
      apply List.mem_filter.mpr
      refine ⟨hall b' (by simp [hb']), ?_⟩
      have : b' ≠ b := fun e => hn'.1 (e ▸ hb')
      simp [isPair, this, hab]

theorem disconnectAllG_allow_report (g : G) (a : Nat) (h : Inv g) :
    (disconnectAllG allow g a).2.1 = (g.conns a).map fun b => (a, b) := by
  unfold disconnectAllG disconnectG
  simp only [allow, if_true]
  have := discLoop_allow_report g a (g.conns a) [] h (h.nodup a) (fun _ hb => hb)
  simpa [allow] using this

theorem disconnectChans_snoc (g : G) (seen : List Nat) (c : Nat) :
    disconnectChans g (seen ++ [c]) = disconnectAll (disconnectChans g seen) c := by
  simp [disconnectChans, List.foldl_append]

theorem disconnectChansG_allow_report (g : G) (h : Inv g) (cs : List Nat) :
    ∀ (seen : List Nat) (rep : List (Nat × Nat)),
      (disconnectChansG allow (disconnectChans g seen) cs rep).2.1 = rep ++ reportSpec g cs seen := by
  induction cs with
  | nil => intro seen rep; simp [disconnectChansG, reportSpec]
  | cons c cs ih =>
    intro seen rep
    have hs := disconnectChans_inv g seen h
    unfold disconnectChansG
    have h1 := disconnectAllG_allow (disconnectChans g seen) c
    have h2 := disconnectAllG_allow_report (disconnectChans g seen) c hs
    rcases hd : disconnectAllG allow (disconnectChans g seen) c with ⟨g', r, raised⟩
    rw [hd] at h1 h2
    simp only at h1 h2
    obtain ⟨h1a, h1b⟩ := h1
    subst h1b
    subst h1a
    subst h2
    simp only
    rw [← disconnectChans_snoc, ih (seen ++ [c])]
    rw [disconnectChans_conns g seen h c]
    simp only [reportSpec, List.append_assoc]
    congr 1
    split <;> simp

/-- the report of an owner-level `disconnect()` in terms of the graph before the call -/
theorem disconnectChansR_report (g : G) (h : Inv g) (cs : List Nat) :
    (disconnectChansR g cs).2 = reportSpec g cs [] := by
  have := disconnectChansG_allow_report g h cs [] []
  simpa [disconnectChansR, disconnectChans] using this

theorem reportSpec_sound (g : G) (cs : List Nat) : ∀ (seen : List Nat) (p : Nat × Nat),
    p ∈ reportSpec g cs seen → p.1 ∈ cs ∧ p.2 ∈ g.conns p.1 ∧ p.1 ∉ seen ∧ p.2 ∉ seen := by
  induction cs with
  | nil => intro seen p hp; simp [reportSpec] at hp
  | cons c cs ih =>
    intro seen p hp
    simp only [reportSpec, List.mem_append] at hp
    rcases hp with hp | hp
    · split at hp
      · simp at hp
      · rename_i hc
        simp only [List.mem_map, List.mem_filter] at hp
        obtain ⟨y, ⟨hy, hys⟩, rfl⟩ := hp
        simp at hys
        exact ⟨by simp, hy, hc, hys⟩
    · have := ih (seen ++ [c]) p hp
      simp only [List.mem_append, List.mem_singleton, not_or] at this
      exact ⟨by simp [this.1], this.2.1, this.2.2.1.1, this.2.2.2.1⟩

theorem reportSpec_complete (g : G) (h : Inv g) (cs : List Nat) : ∀ (seen : List Nat) (c y : Nat),
    c ∈ cs → y ∈ g.conns c → c ∉ seen → y ∉ seen →
    (c, y) ∈ reportSpec g cs seen ∨ (y, c) ∈ reportSpec g cs seen := by
  induction cs with
  | nil => intro seen c y hc; simp at hc
  | cons d ds ih =>
    intro seen c y hc hy hcs hys
    simp only [reportSpec, List.mem_append]
    by_cases hcd : c = d
    · subst hcd
      left; left
      simp only [hcs, if_false, List.mem_map, List.mem_filter]
      exact ⟨y, ⟨hy, by simpa using hys⟩, rfl⟩
    · have hc' : c ∈ ds := by
        rcases List.mem_cons.mp hc with e | e
        · exact absurd e hcd
        · exact e
      by_cases hyd : y = d
      · subst hyd
        right; left
        simp only [hys, if_false, List.mem_map, List.mem_filter]
        exact ⟨c, ⟨(h.symm c y).mp hy, by simpa using hcs⟩, rfl⟩
      · have := ih (seen ++ [d]) c y hc' hy (by simp [hcs, hcd]) (by simp [hys, hyd])
        rcases this with t | t
        · left; right; exact t
        · right; right; exact t

/-! ## refused copies: the undo log -/

/-- the three ways `connect1` can go -/
theorem connect1_cases (g : G) (a b : Nat) :
    (b ∈ g.conns a ∧ connect1 g a b = (g, .ok)) ∨
    (b ∉ g.conns a ∧ (g.kind a).conj (g.kind b) = true ∧
      connect1 g a b = ({ g with conns := updF (updF g.conns a (b :: g.conns a)) b (a :: g.conns b) }, .ok)) ∨
    ((connect1 g a b).1 = g ∧ (connect1 g a b).2 ≠ .ok) := by
  unfold connect1
  by_cases h1 : b ∈ g.conns a
  · left; simp [h1]
  · by_cases h2 : (g.kind a).conj (g.kind b) = true
    · by_cases h3 : g.valid a b = true
      · right; left; simp [h1, h2, h3]
      · right; right; simp [h1, h2, h3]
    · right; right; simp [h1, h2]

/-- the log explains exactly what was added: filtering the logged pairs out gives the lists of `g0` -/
def Logged (g0 g : G) (log : List (Nat × Nat)) : Prop :=
  ∀ x, (g.conns x).filter (fun y => !covered log x y) = g0.conns x

theorem Logged.refl (g : G) : Logged g g [] := by
  intro x; simp [covered]

theorem isPair_symm (p : Nat × Nat) (x y : Nat) : isPair p x y = isPair (p.2, p.1) x y := by
  simp [isPair, Bool.or_comm]

theorem isPair_swap (p : Nat × Nat) (x y : Nat) : isPair p x y = isPair p y x := by
  simp only [isPair]
  rw [Bool.eq_iff_iff]
  simp
  grind

theorem covered_swap (log : List (Nat × Nat)) (x y : Nat) : covered log x y = covered log y x := by
  simp only [covered]
  congr 1
  funext p
  exact isPair_swap p x y

theorem covered_of_isPair (log : List (Nat × Nat)) (a b x y : Nat) (h : isPair (a, b) x y = true) :
    covered log x y = covered log a b := by
  simp [isPair] at h
  rcases h with ⟨rfl, rfl⟩ | ⟨rfl, rfl⟩
  · rfl
  · exact covered_swap log _ _

/-- logging once more a pair the log already explains changes nothing -/
theorem Logged.again {g0 g : G} {log : List (Nat × Nat)} (hl : Logged g0 g log) {a b : Nat}
    (hc : covered log a b = true) : Logged g0 g (log ++ [(a, b)]) := by
  intro x
  rw [← hl x]
  apply List.filter_congr
  intro y _
  rw [covered_append]
  by_cases hp : isPair (a, b) x y = true
  · have h1 := covered_of_isPair log a b x y hp
    have h2 : covered [(a, b)] x y = true := by simp [covered, hp]
    rw [h1, hc, h2]; rfl
  · have h2 : covered [(a, b)] x y = false := by simpa [covered] using hp
    rw [h2]; simp

/-- a connection the graph has but `g0` has not is in the log -/
theorem Logged.covered_of_new {g0 g : G} {log : List (Nat × Nat)} (hl : Logged g0 g log) {a b : Nat}
    (hb : b ∈ g.conns a) (h0 : b ∉ g0.conns a) : covered log a b = true := by
  by_cases hc : covered log a b = true
  · exact hc
  · exfalso
    apply h0
    rw [← hl a]
    exact List.mem_filter.mpr ⟨hb, by simpa using hc⟩

/-- a genuinely new connection, logged -/
theorem Logged.step {g0 g : G} {log : List (Nat × Nat)} (hl : Logged g0 g log) (h : Inv g) {a b : Nat}
    (hb : b ∉ g.conns a) (hc : (g.kind a).conj (g.kind b) = true) :
    Logged g0 { g with conns := updF (updF g.conns a (b :: g.conns a)) b (a :: g.conns b) } (log ++ [(a, b)]) := by
  have hab : a ≠ b := by
    intro e; subst e; simp [conj_irrefl] at hc
  have hba : a ∉ g.conns b := fun hm => hb ((h.symm a b).mpr hm)
  intro x
  rw [← hl x]
  by_cases hxb : x = b
  · subst hxb
    simp only [updF, if_true]
    rw [List.filter_cons]
    have h1 : (!covered (log ++ [(a, x)]) x a) = false := by
      simp [covered, isPair]
    simp only [h1]
    apply List.filter_congr
    intro y hy
    have hya : y ≠ a := fun e => hba (e ▸ hy)
    simp [covered, isPair, hya, Ne.symm hab]
  · by_cases hxa : x = a
    · subst hxa
      simp only [updF, hxb, if_false, if_true]
      rw [List.filter_cons]
      have h1 : (!covered (log ++ [(x, b)]) x b) = false := by
        simp [covered, isPair]
      simp only [h1]
      apply List.filter_congr
      intro y hy
      have hyb : y ≠ b := fun e => hb (e ▸ hy)
      simp [covered, isPair, hyb, hab]
    · simp only [updF, hxa, hxb, if_false]
      apply List.filter_congr
      intro y _
      simp [covered, isPair, hxa, hxb]

/-- undoing a faithful log gives back the graph one started from -/
theorem undo_logged {g0 g : G} {log : List (Nat × Nat)} (hs : SameStatic g0 g) (hl : Logged g0 g log)
    (h : Inv g) : undoPairs g log = g0 := by
  apply G.eq_of_static (hs.trans (undoPairs_static g log))
  intro x
  rw [undoPairs_conns g log h x, hl x]

theorem disconnect_logged {g0 g : G} {a : Nat} {done : List Nat} (hs : SameStatic g0 g)
    (hl : Logged g0 g (done.map fun b => (a, b))) (h : Inv g) : disconnect g a done = g0 := by
  apply G.eq_of_static (hs.trans (disconnect_static g a done))
  intro x
  rw [disconnect_conns g a done h x, hl x]

/-- `Channel.copy_connections`: if none of the partners to be copied was a partner before, a refused
copy restores every list exactly -/
theorem copyConnsAux_refused (g0 : G) (a : Nat) : ∀ (cs : List Nat) (g : G) (done : List Nat),
    Inv g → SameStatic g0 g → Logged g0 g (done.map fun b => (a, b)) → (∀ c ∈ cs, c ∉ g0.conns a) →
    (copyConnsAux g a cs done).2 ≠ .ok → (copyConnsAux g a cs done).1 = g0 := by
  intro cs
  induction cs with
  | nil => intro g done _ _ _ _ hr; simp [copyConnsAux] at hr
  | cons c cs ih =>
    intro g done hi hs hl hfresh hr
    have hc0 : c ∉ g0.conns a := hfresh c (by simp)
    have hfresh' : ∀ c' ∈ cs, c' ∉ g0.conns a := fun c' h' => hfresh c' (by simp [h'])
    unfold copyConnsAux at hr ⊢
    rcases connect1_cases g a c with ⟨hin, he⟩ | ⟨hnin, hconj, he⟩ | ⟨he1, he2⟩
    · rw [he] at hr ⊢
      simp only at hr ⊢
      apply ih g (done ++ [c]) hi hs _ hfresh' hr
      rw [List.map_append]
      exact hl.again (hl.covered_of_new hin hc0)
    · have hi' := connect1_inv g a c hi
      have hs' := connect1_static g a c
      rw [he] at hr hi' hs' ⊢
      simp only at hr hi' hs' ⊢
      apply ih _ (done ++ [c]) hi' (hs.trans hs') _ hfresh' hr
      rw [List.map_append]
      exact hl.step hi hnin hconj
    · rcases hd : connect1 g a c with ⟨g', r⟩
      rw [hd] at he1 he2
      simp only at he1 he2
      subst he1
      cases r with
      | ok => exact absurd rfl he2
      | typeErr => exact disconnect_logged hs hl hi
      | connErr => exact disconnect_logged hs hl hi

theorem copyConns_refused (g : G) (a b : Nat) (h : Inv g) (hfresh : ∀ c ∈ g.conns b, c ∉ g.conns a)
    (hr : (copyConns g a b).2 ≠ .ok) : (copyConns g a b).1 = g :=
  copyConnsAux_refused g a (g.conns b) g [] h (.refl g) (by simpa using Logged.refl g) hfresh hr

/-- invariant of the `_copy_connections` loops when the receiving channels start unconnected -/
structure CopyP (g0 g : G) (log : List (Nat × Nat)) : Prop where
  inv : Inv g
  static : SameStatic g0 g
  logged : Logged g0 g log

theorem copyIoTargets_P (g0 : G) (my : Option Nat) (fh : Bool) (hmy : ∀ m, my = some m → g0.conns m = []) :
    ∀ (ts : List Nat) (g : G) (new : List (Nat × Nat)), CopyP g0 g new →
      CopyP g0 (copyIoTargets g my fh ts new).1 (copyIoTargets g my fh ts new).2.1 := by
  intro ts
  induction ts with
  | nil => intro g new hp; simpa [copyIoTargets] using hp
  | cons t ts ih =>
    intro g new hp
    unfold copyIoTargets
    cases my with
    | none =>
      simp only
      split
      · exact hp
      · exact ih g new hp
    | some m =>
      simp only
      have hm0 : g0.conns m = [] := hmy m rfl
      rcases connect1_cases g m t with ⟨hin, he⟩ | ⟨hnin, hconj, he⟩ | ⟨he1, he2⟩
      · rw [he]
        simp only
        apply ih g (new ++ [(m, t)])
        exact ⟨hp.inv, hp.static, hp.logged.again (hp.logged.covered_of_new hin (by simp [hm0]))⟩
      · have hi' := connect1_inv g m t hp.inv
        have hs' := connect1_static g m t
        rw [he] at hi' hs' ⊢
        simp only at hi' hs' ⊢
        apply ih _ (new ++ [(m, t)])
        exact ⟨hi', hp.static.trans hs', hp.logged.step hp.inv hnin hconj⟩
      · rcases hd : connect1 g m t with ⟨g', r⟩
        rw [hd] at he1 he2
        simp only at he1 he2
        subst he1
        cases r with
        | ok => exact absurd rfl he2
        | typeErr => simp only; split
                     · exact hp
                     · exact ih g' new hp
        | connErr => simp only; split
                     · exact hp
                     · exact ih g' new hp

theorem copyIoPairs_P (g0 : G) (fh : Bool) : ∀ (ps : List (Option Nat × Nat)) (g : G) (new : List (Nat × Nat)),
    (∀ m o, (some m, o) ∈ ps → g0.conns m = []) → CopyP g0 g new →
      CopyP g0 (copyIoPairs g fh ps new).1 (copyIoPairs g fh ps new).2.1 := by
  intro ps
  induction ps with
  | nil => intro g new _ hp; simpa [copyIoPairs] using hp
  | cons p ps ih =>
    intro g new hun hp
    obtain ⟨my, o⟩ := p
    unfold copyIoPairs
    have h1 := copyIoTargets_P g0 my fh (fun m e => hun m o (by simp [e])) (g.conns o) g new hp
    rcases hd : copyIoTargets g my fh (g.conns o) new with ⟨g', new', fl⟩
    rw [hd] at h1
    simp only at h1
    cases fl with
    | true => exact h1
    | false => exact ih g' new' (fun m o' hm => hun m o' (by simp [hm])) h1

/-- `HasIO._copy_connections(fail_hard=True)` onto channels that start unconnected (the precondition
`replace_child` enforces on the replacement): a refusal in ANY panel restores every list exactly -/
theorem copyIo_refused (g : G) (ps : List (Option Nat × Nat)) (h : Inv g)
    (hun : ∀ m o, (some m, o) ∈ ps → g.conns m = []) (hr : (copyIo g true ps).2 ≠ .ok) :
    (copyIo g true ps).1 = g := by
  unfold copyIo at hr ⊢
  have hp := copyIoPairs_P g true ps g [] hun ⟨h, .refl g, .refl g⟩
  rcases hd : copyIoPairs g true ps [] with ⟨g', new, fl⟩
  rw [hd] at hp
  simp only at hp
  cases fl with
  | true => exact undo_logged hp.static hp.logged hp.inv
  | false => rw [hd] at hr; simp at hr

/-! ## the copies of the current tree: invariant, and a refusal restores every list, unconditionally -/

theorem copyConnsAuxN_inv (g : G) (a : Nat) (cs done : List Nat) (h : Inv g) :
    Inv (copyConnsAuxN g a cs done).1 := by
  induction cs generalizing g done with
  | nil => exact h
  | cons c cs ih =>
    unfold copyConnsAuxN
    have h1 := connect1_inv g a c h
    simp only
    split
    · rename_i g' heq
      rw [heq] at h1; exact ih g' _ h1
    · rename_i g' r _ heq
      rw [heq] at h1; exact disconnect_inv g' a done h1

theorem copyIoTargetsN_inv (g : G) (my : Option Nat) (fh : Bool) (ts : List Nat) (new : List (Nat × Nat))
    (h : Inv g) : Inv (copyIoTargetsN g my fh ts new).1 := by
  induction ts generalizing g new with
  | nil => exact h
  | cons t ts ih =>
    unfold copyIoTargetsN
    cases my with
    | none => dsimp only; split
              · exact h
              · exact ih g new h
    | some m =>
      dsimp only
      have h1 := connect1_inv g m t h
      split
      · rename_i g' heq
        rw [heq] at h1; exact ih g' _ h1
      · rename_i g' r _ heq
        rw [heq] at h1
        split
        · exact h1
        · exact ih g' new h1

theorem copyIoPairsN_inv (g : G) (fh : Bool) (ps : List (Option Nat × Nat)) (new : List (Nat × Nat))
    (h : Inv g) : Inv (copyIoPairsN g fh ps new).1 := by
  induction ps generalizing g new with
  | nil => exact h
  | cons p ps ih =>
    obtain ⟨my, o⟩ := p
    unfold copyIoPairsN
    have h1 := copyIoTargetsN_inv g my fh (g.conns o) new h
    split
    · rename_i g' new' heq
      rw [heq] at h1; exact h1
    · rename_i g' new' heq
      rw [heq] at h1; exact ih g' new' h1

theorem undoPairs_inv' (g : G) (new : List (Nat × Nat)) (h : Inv g) : Inv (undoPairs g new) :=
  undoPairs_inv g new h

theorem copyIoN_inv (g : G) (fh : Bool) (ps : List (Option Nat × Nat)) (h : Inv g) :
    Inv (copyIoN g fh ps).1 := by
  unfold copyIoN
  have h1 := copyIoPairsN_inv g fh ps [] h
  split
  · rename_i g' new heq
    rw [heq] at h1; exact undoPairs_inv g' new h1
  · rename_i g' new heq
    rw [heq] at h1; exact h1

theorem copyConnsAuxN_refused (g0 : G) (a : Nat) : ∀ (cs : List Nat) (g : G) (done : List Nat),
    Inv g → SameStatic g0 g → Logged g0 g (done.map fun b => (a, b)) →
    (copyConnsAuxN g a cs done).2 ≠ .ok → (copyConnsAuxN g a cs done).1 = g0 := by
  intro cs
  induction cs with
  | nil => intro g done _ _ _ hr; simp [copyConnsAuxN] at hr
  | cons c cs ih =>
    intro g done hi hs hl hr
    unfold copyConnsAuxN at hr ⊢
    simp only at hr ⊢
    rcases connect1_cases g a c with ⟨hin, he⟩ | ⟨hnin, hconj, he⟩ | ⟨he1, he2⟩
    · rw [he] at hr ⊢
      simp only [hin, decide_true, if_true] at hr ⊢
      exact ih g done hi hs hl hr
    · have hi' := connect1_inv g a c hi
      have hs' := connect1_static g a c
      rw [he] at hr hi' hs' ⊢
      simp only [hnin, decide_false] at hr hi' hs' ⊢
      apply ih _ (done ++ [c]) hi' (hs.trans hs') _ hr
      rw [List.map_append]
      exact hl.step hi hnin hconj
    · rcases hd : connect1 g a c with ⟨g', r⟩
      rw [hd] at he1 he2
      simp only at he1 he2
      subst he1
      cases r with
      | ok => exact absurd rfl he2
      | typeErr => exact disconnect_logged hs hl hi
      | connErr => exact disconnect_logged hs hl hi

/-- `Channel.copy_connections` as it is now: refused ⇒ every list exactly as before -/
theorem copyConnsN_refused (g : G) (a b : Nat) (h : Inv g) (hr : (copyConnsN g a b).2 ≠ .ok) :
    (copyConnsN g a b).1 = g :=
  copyConnsAuxN_refused g a (g.conns b) g [] h (.refl g) (by simpa using Logged.refl g) hr

theorem copyIoTargetsN_P (g0 : G) (my : Option Nat) (fh : Bool) :
    ∀ (ts : List Nat) (g : G) (new : List (Nat × Nat)), CopyP g0 g new →
      CopyP g0 (copyIoTargetsN g my fh ts new).1 (copyIoTargetsN g my fh ts new).2.1 := by
  intro ts
  induction ts with
  | nil => intro g new hp; simpa [copyIoTargetsN] using hp
  | cons t ts ih =>
    intro g new hp
    unfold copyIoTargetsN
    cases my with
    | none =>
      simp only
      split
      · exact hp
      · exact ih g new hp
    | some m =>
      simp only
      rcases connect1_cases g m t with ⟨hin, he⟩ | ⟨hnin, hconj, he⟩ | ⟨he1, he2⟩
      · rw [he]
        simp only [hin, decide_true, if_true]
        exact ih g new hp
      · have hi' := connect1_inv g m t hp.inv
        have hs' := connect1_static g m t
        rw [he] at hi' hs' ⊢
        simp only [hnin, decide_false] at hi' hs' ⊢
        apply ih _ (new ++ [(m, t)])
        exact ⟨hi', hp.static.trans hs', hp.logged.step hp.inv hnin hconj⟩
      · rcases hd : connect1 g m t with ⟨g', r⟩
        rw [hd] at he1 he2
        simp only at he1 he2
        subst he1
        cases r with
        | ok => exact absurd rfl he2
        | typeErr => simp only; split
                     · exact hp
                     · exact ih g' new hp
        | connErr => simp only; split
                     · exact hp
                     · exact ih g' new hp

theorem copyIoPairsN_P (g0 : G) (fh : Bool) : ∀ (ps : List (Option Nat × Nat)) (g : G) (new : List (Nat × Nat)),
    CopyP g0 g new → CopyP g0 (copyIoPairsN g fh ps new).1 (copyIoPairsN g fh ps new).2.1 := by
  intro ps
  induction ps with
  | nil => intro g new hp; simpa [copyIoPairsN] using hp
  | cons p ps ih =>
    intro g new hp
    obtain ⟨my, o⟩ := p
    unfold copyIoPairsN
    have h1 := copyIoTargetsN_P g0 my fh (g.conns o) g new hp
    rcases hd : copyIoTargetsN g my fh (g.conns o) new with ⟨g', new', fl⟩
    rw [hd] at h1
    simp only at h1
    cases fl with
    | true => exact h1
    | false => exact ih g' new' h1

/-- `HasIO._copy_connections(fail_hard=True)` as it is now: a refusal in ANY panel, with ANY
pre-existing connections, restores every list exactly -/
theorem copyIoN_refused (g : G) (ps : List (Option Nat × Nat)) (h : Inv g) (hr : (copyIoN g true ps).2 ≠ .ok) :
    (copyIoN g true ps).1 = g := by
  unfold copyIoN at hr ⊢
  have hp := copyIoPairsN_P g true ps g [] ⟨h, .refl g, .refl g⟩
  rcases hd : copyIoPairsN g true ps [] with ⟨g', new, fl⟩
  rw [hd] at hp
  simp only at hp
  cases fl with
  | true => exact undo_logged hp.static hp.logged hp.inv
  | false => rw [hd] at hr; simp at hr

/-- a soft copy never refuses -/
theorem copyIoTargetsN_soft (my : Option Nat) : ∀ (ts : List Nat) (g : G) (new : List (Nat × Nat)),
    (copyIoTargetsN g my false ts new).2.2 = false := by
  intro ts
  induction ts with
  | nil => intro g new; simp [copyIoTargetsN]
  | cons t ts ih =>
    intro g new
    unfold copyIoTargetsN
    cases my with
    | none => simpa using ih g new
    | some m =>
      simp only
      split
      · exact ih _ _
      · simpa using ih _ _

theorem copyIoN_soft_ok (g : G) (ps : List (Option Nat × Nat)) : (copyIoN g false ps).2 = .ok := by
  unfold copyIoN
  have : ∀ (ps : List (Option Nat × Nat)) (g : G) (new : List (Nat × Nat)),
      (copyIoPairsN g false ps new).2.2 = false := by
    intro ps
    induction ps with
    | nil => intro g new; simp [copyIoPairsN]
    | cons p ps ih =>
      intro g new
      obtain ⟨my, o⟩ := p
      unfold copyIoPairsN
      have h1 := copyIoTargetsN_soft my (g.conns o) g new
      rcases hd : copyIoTargetsN g my false (g.conns o) new with ⟨g', new', fl⟩
      rw [hd] at h1
      simp only at h1
      subst h1
      exact ih g' new'
  have h1 := this ps g []
  rcases hd : copyIoPairsN g false ps [] with ⟨g', new, fl⟩
  rw [hd] at h1
  simp only at h1
  subst h1
  rfl

end PwVerif.ConnOps
