import PwVerif.Model.Cache
namespace PwVerif.Cache

/-- the twins agree on everything visible, and a cached input vouches for the outputs -/
structure Sim (a b : N) : Prop where
  inp : a.inp = b.inp
  out : a.out = b.out
  running : a.running = b.running
  failed : a.failed = b.failed
  job : a.job = b.job
  jobRun : a.running = true ↔ a.job.isSome
  valid : ∀ c, a.cached = some c →
    (a.running = true ∧ ∃ f, a.job = some (c, f)) ∨ (a.running = false ∧ a.out = some c ∧ c ≠ 0)

theorem step_sim (a b : N) (op : Op) (h : Sim a b) :
    Sim (step Cfg.repaired true a op).1 (step Cfg.repaired false b op).1 ∧
    (step Cfg.repaired true a op).2 = (step Cfg.repaired false b op).2 := by
  obtain ⟨hi, ho, hr, hf, hj, hjr, hv⟩ := h
  cases op with
  | set v =>
    simp only [step]
    rw [← hr]
    cases har : a.running
    · simp only [Bool.false_eq_true, if_false]
      refine ⟨⟨rfl, ho, by simp [har, ← hr], hf, hj, by simpa [har] using hjr, ?_⟩, rfl⟩
      intro c hc
      have := hv c hc
      simp [har] at this ⊢
      exact this
    · simp only [if_true]
      exact ⟨⟨hi, ho, hr, hf, hj, hjr, hv⟩, rfl⟩
  | clearFailed =>
    simp only [step]
    exact ⟨⟨hi, ho, hr, rfl, hj, hjr, hv⟩, rfl⟩
  | complete =>
    simp only [step]
    rw [← hj]
    cases haj : a.job with
    | none => exact ⟨⟨hi, ho, hr, hf, hj, hjr, hv⟩, rfl⟩
    | some p =>
      obtain ⟨v, f⟩ := p
      simp only
      cases f
      · simp only [Bool.false_eq_true, if_false]
        refine ⟨⟨hi, rfl, rfl, hf, rfl, by simp, ?_⟩, rfl⟩
        intro c hc
        have := hv c hc
        have hrun : a.running = true := hjr.mpr (by simp [haj])
        simp [hrun, haj] at this
        right
        refine ⟨rfl, ?_, ?_⟩
        · simp [this.1]
        · sorry
      · simp only [if_true]
        refine ⟨⟨hi, ho, rfl, rfl, rfl, by simp, ?_⟩, rfl⟩
        intro c hc; simp [Cfg.repaired] at hc
  | run f => sorry
  | submit f => sorry

end PwVerif.Cache
