import PwVerif.Model.Cache
namespace PwVerif.Cache

/-- the twins agree on everything visible, and a cached input vouches for the outputs -/
structure Sim (bad : Nat → Bool) (a b : N) : Prop where
  inp : a.inp = b.inp
  out : a.out = b.out
  running : a.running = b.running
  failed : a.failed = b.failed
  job : a.job = b.job
  jobRun : a.running = true ↔ a.job.isSome = true
  valid : ∀ c, a.cached = some c →
    (a.running = true ∧ a.failed = false ∧ c ≠ 0 ∧ a.job = some c) ∨
    (a.running = false ∧ a.failed = false ∧ a.out = some c ∧ c ≠ 0 ∧ bad c = false)

/-- the cached twin would answer from the cache now -/
def N.hits (n : N) : Bool := n.cached == some n.inp && (!n.running && n.ready)

theorem runLike_sim (bad : Nat → Bool) (a b : N) (e : Bool) (h : Sim bad a b)
    (hmiss : e = true → a.hits = false) :
    Sim bad (runLike Cfg.repaired bad true a e).1 (runLike Cfg.repaired bad false b e).1 ∧
    (runLike Cfg.repaired bad true a e).2 = (runLike Cfg.repaired bad false b e).2 := by
  obtain ⟨hi, ho, hr, hf, hj, hjr, hv⟩ := h
  obtain ⟨ai, ao, ar, af, ac, aj⟩ := a
  obtain ⟨bi, bo, br, bf, bc, bj⟩ := b
  simp only at hi ho hr hf hj hjr hv
  subst hi ho hr hf hj
  simp only [N.hits, N.ready] at hmiss
  by_cases hz : ai = 0 <;> cases ar <;> cases af <;> cases e <;> cases hb : bad ai <;> cases ac <;>
    simp_all [runLike, Cfg.repaired, N.ready] <;>
    (try split) <;>
    (try (first | refine ⟨⟨?_, ?_, ?_, ?_, ?_, ?_, ?_⟩, ?_⟩ | refine ⟨?_, ?_, ?_, ?_, ?_, ?_, ?_⟩)) <;>
    (try simp_all) <;> (try grind)

theorem step_sim (bad : Nat → Bool) (a b : N) (op : Op) (h : Sim bad a b)
    (hmiss : op = .submit → a.hits = false) :
    Sim bad (step Cfg.repaired bad true a op).1 (step Cfg.repaired bad false b op).1 ∧
    (step Cfg.repaired bad true a op).2 = (step Cfg.repaired bad false b op).2 := by
  cases op with
  | run => exact runLike_sim bad a b false h (by simp)
  | submit => exact runLike_sim bad a b true h (fun _ => hmiss rfl)
  | set v =>
    obtain ⟨hi, ho, hr, hf, hj, hjr, hv⟩ := h
    obtain ⟨ai, ao, ar, af, ac, aj⟩ := a
    obtain ⟨bi, bo, br, bf, bc, bj⟩ := b
    simp only at hi ho hr hf hj hjr hv
    subst hi ho hr hf hj
    cases ar <;> simp_all [step] <;> (try (refine ⟨?_, ?_, ?_, ?_, ?_, ?_, ?_⟩)) <;> (try simp_all)
  | clearFailed =>
    obtain ⟨hi, ho, hr, hf, hj, hjr, hv⟩ := h
    obtain ⟨ai, ao, ar, af, ac, aj⟩ := a
    obtain ⟨bi, bo, br, bf, bc, bj⟩ := b
    simp only at hi ho hr hf hj hjr hv
    subst hi ho hr hf hj
    simp_all [step]
    refine ⟨?_, ?_, ?_, ?_, ?_, ?_, ?_⟩ <;> (try simp_all) <;> (try grind)
  | complete =>
    obtain ⟨hi, ho, hr, hf, hj, hjr, hv⟩ := h
    obtain ⟨ai, ao, ar, af, ac, aj⟩ := a
    obtain ⟨bi, bo, br, bf, bc, bj⟩ := b
    simp only at hi ho hr hf hj hjr hv
    subst hi ho hr hf hj
    cases aj with
    | none => simp_all [step]; refine ⟨?_, ?_, ?_, ?_, ?_, ?_, ?_⟩ <;> (try simp_all)
    | some v =>
      cases hb : bad v <;> simp_all [step, Cfg.repaired] <;>
        (refine ⟨?_, ?_, ?_, ?_, ?_, ?_, ?_⟩) <;> (try simp_all) <;> (try grind)

theorem init_sim (bad : Nat → Bool) : Sim bad N.init N.init := by
  refine ⟨rfl, rfl, rfl, rfl, rfl, by simp [N.init], by simp [N.init]⟩

/-- along the cached twin's run, no `submit` is issued in a state where it would be answered from
the cache (a hit returns the outputs at once instead of a future — by design; see
`submit_hit_settles` for what that hit is equivalent to) -/
def noSubmitHit (bad : Nat → Bool) (a : N) : List Op → Bool
  | [] => true
  | o :: os => (o != .submit || !a.hits) && noSubmitHit bad (step Cfg.repaired bad true a o).1 os

def NoSubmitHit (bad : Nat → Bool) (a : N) (ops : List Op) : Prop := noSubmitHit bad a ops = true

theorem NoSubmitHit.cons {bad a o os} (h : NoSubmitHit bad a (o :: os)) :
    (o = .submit → a.hits = false) ∧ NoSubmitHit bad (step Cfg.repaired bad true a o).1 os := by
  simp only [NoSubmitHit, noSubmitHit, Bool.and_eq_true, Bool.or_eq_true, bne_iff_ne, ne_eq,
    Bool.not_eq_true'] at h
  refine ⟨?_, h.2⟩
  intro ho
  rcases h.1 with h1 | h1
  · exact absurd ho h1
  · exact h1

/-- for EVERY such history the cached node and its uncached twin return the same things and end in
the same visible state -/
theorem runOps_sim (bad : Nat → Bool) (ops : List Op) (a b : N) (h : Sim bad a b)
    (hok : NoSubmitHit bad a ops) :
    (runOps Cfg.repaired bad true a ops).2 = (runOps Cfg.repaired bad false b ops).2 ∧
    Sim bad (runOps Cfg.repaired bad true a ops).1 (runOps Cfg.repaired bad false b ops).1 := by
  induction ops generalizing a b with
  | nil => exact ⟨rfl, h⟩
  | cons o os ih =>
    obtain ⟨hs, hr⟩ := step_sim bad a b o h hok.cons.1
    obtain ⟨ih1, ih2⟩ := ih _ _ hs hok.cons.2
    simp only [runOps]
    exact ⟨by rw [hr, ih1], ih2⟩

/-- a `submit` answered from the cache equals, on the uncached twin, the submission followed by the
completion of that job: same outputs, same visible state -/
theorem submit_hit_settles (bad : Nat → Bool) (a b : N) (h : Sim bad a b) (hhit : a.hits = true) :
    let a' := (step Cfg.repaired bad true a .submit)
    let b' := (step Cfg.repaired bad false (step Cfg.repaired bad false b .submit).1 .complete).1
    Sim bad a'.1 b' ∧ a'.2 = .ret b'.out := by
  obtain ⟨hi, ho, hr, hf, hj, hjr, hv⟩ := h
  obtain ⟨ai, ao, ar, af, ac, aj⟩ := a
  obtain ⟨bi, bo, br, bf, bc, bj⟩ := b
  simp only at hi ho hr hf hj hjr hv
  subst hi ho hr hf hj
  simp only [N.hits, N.ready] at hhit
  cases ar <;> cases af <;> cases ac <;> simp_all [step, runLike, Cfg.repaired, N.ready] <;>
    (try (refine ⟨?_, ?_, ?_, ?_, ?_, ?_, ?_⟩)) <;> (try simp_all) <;> (try grind)

end PwVerif.Cache
