import PwVerif.Model.Cache
namespace PwVerif.Cache

/-! ## the cache records a processed result (`Cfg.commit k`, both settings of `k`): every history over the full alphabet -/

/-- the twins agree on everything visible and on the job queue; a cached input vouches for the outputs
(no condition on the flags: the cache is only ever written when a result has been processed) -/
structure Sim (beh : Nat → Outcome) (a b : N) : Prop where
  inp : a.inp = b.inp
  out : a.out = b.out
  running : a.running = b.running
  failed : a.failed = b.failed
  jobs : a.jobs = b.jobs
  jobsNZ : ∀ v ∈ a.jobs, v ≠ 0
  valid : ∀ c, a.cached = some c → a.out = some c ∧ c ≠ 0 ∧ beh c = .ok

/-- the cached twin would answer from the cache now -/
def N.hits (n : N) : Bool := n.cached == some n.inp && (!n.running && n.ready)

set_option maxHeartbeats 1600000 in
theorem runLike_sim (k al : Bool) (beh : Nat → Outcome) (a b : N) (e : Bool) (h : Sim beh a b)
    (hmiss : e = true → a.hits = false) :
    Sim beh (runLike (Cfg.commit k al) beh true a e).1 (runLike (Cfg.commit k al) beh false b e).1 ∧
    (runLike (Cfg.commit k al) beh true a e).2 = (runLike (Cfg.commit k al) beh false b e).2 := by
  obtain ⟨hi, ho, hr, hf, hj, hnz, hv⟩ := h
  obtain ⟨ai, ao, ar, af, ac, aj⟩ := a
  obtain ⟨bi, bo, br, bf, bc, bj⟩ := b
  simp only at hi ho hr hf hj hnz hv
  subst hi ho hr hf hj
  simp only [N.hits, N.ready] at hmiss
  by_cases hz : ai = 0 <;> cases al <;> cases ar <;> cases af <;> cases e <;> cases hb : beh ai <;> cases ac <;>
    simp_all [runLike, Cfg.commit, N.ready, N.succeed, N.fail] <;>
    (try split) <;>
    (try (first | refine ⟨⟨?_, ?_, ?_, ?_, ?_, ?_, ?_⟩, ?_⟩ | refine ⟨?_, ?_, ?_, ?_, ?_, ?_, ?_⟩)) <;>
    (try simp_all) <;> (try grind)

theorem step_sim (k al : Bool) (beh : Nat → Outcome) (a b : N) (op : Op) (h : Sim beh a b)
    (hmiss : op = .submit → a.hits = false) :
    Sim beh (step (Cfg.commit k al) beh true a op).1 (step (Cfg.commit k al) beh false b op).1 ∧
    (step (Cfg.commit k al) beh true a op).2 = (step (Cfg.commit k al) beh false b op).2 := by
  cases op with
  | run => exact runLike_sim k al beh a b false h (by simp)
  | submit => exact runLike_sim k al beh a b true h (fun _ => hmiss rfl)
  | _ =>
    obtain ⟨hi, ho, hr, hf, hj, hnz, hv⟩ := h
    obtain ⟨ai, ao, ar, af, ac, aj⟩ := a
    obtain ⟨bi, bo, br, bf, bc, bj⟩ := b
    simp only at hi ho hr hf hj hnz hv
    subst hi ho hr hf hj
    all_goals (
      first
      | (cases ar <;> simp_all [step] <;> (try (refine ⟨?_, ?_, ?_, ?_, ?_, ?_, ?_⟩)) <;> (try simp_all); done)
      | (cases aj with
         | nil => simp_all [step]; refine ⟨?_, ?_, ?_, ?_, ?_, ?_, ?_⟩ <;> simp_all
         | cons v js =>
           cases k <;> cases al <;> cases hb : beh v <;> simp_all [step, Cfg.commit, N.succeed, N.fail] <;>
             (try (refine ⟨?_, ?_, ?_, ?_, ?_, ?_, ?_⟩)) <;> (try simp_all) <;> (try grind)))

theorem init_sim (beh : Nat → Outcome) : Sim beh N.init N.init := by
  refine ⟨rfl, rfl, rfl, rfl, rfl, by simp [N.init], by simp [N.init]⟩

/-- along the cached twin's run, no `submit` is issued in a state where it would be answered from
the cache (a hit returns the outputs at once instead of a future — by design; see
`submit_hit_settles` for what that hit is equivalent to) -/
def noSubmitHit (cfg : Cfg) (beh : Nat → Outcome) (a : N) : List Op → Bool
  | [] => true
  | o :: os => (o != .submit || !a.hits) && noSubmitHit cfg beh (step cfg beh true a o).1 os

def NoSubmitHit (cfg : Cfg) (beh : Nat → Outcome) (a : N) (ops : List Op) : Prop :=
  noSubmitHit cfg beh a ops = true

theorem NoSubmitHit.cons {cfg beh a o os} (h : NoSubmitHit cfg beh a (o :: os)) :
    (o = .submit → a.hits = false) ∧ NoSubmitHit cfg beh (step cfg beh true a o).1 os := by
  simp only [NoSubmitHit, noSubmitHit, Bool.and_eq_true, Bool.or_eq_true, bne_iff_ne, ne_eq,
    Bool.not_eq_true'] at h
  refine ⟨?_, h.2⟩
  intro ho
  rcases h.1 with h1 | h1
  · exact absurd ho h1
  · exact h1

/-- for EVERY such history the cached node and its uncached twin return the same things and end in
the same visible state -/
theorem runOps_sim (k al : Bool) (beh : Nat → Outcome) (ops : List Op) (a b : N) (h : Sim beh a b)
    (hok : NoSubmitHit (Cfg.commit k al) beh a ops) :
    (runOps (Cfg.commit k al) beh true a ops).2 = (runOps (Cfg.commit k al) beh false b ops).2 ∧
    Sim beh (runOps (Cfg.commit k al) beh true a ops).1 (runOps (Cfg.commit k al) beh false b ops).1 := by
  induction ops generalizing a b with
  | nil => exact ⟨rfl, h⟩
  | cons o os ih =>
    obtain ⟨hs, hr⟩ := step_sim k al beh a b o h hok.cons.1
    obtain ⟨ih1, ih2⟩ := ih _ _ hs hok.cons.2
    simp only [runOps]
    exact ⟨by rw [hr, ih1], ih2⟩

/-- a `submit` answered from the cache equals, on the uncached twin, the submission followed by the
completion of that job (when nothing else is queued): same outputs, same visible state -/
theorem submit_hit_settles (k al : Bool) (beh : Nat → Outcome) (a b : N) (h : Sim beh a b) (hhit : a.hits = true)
    (hq : a.jobs = []) :
    let a' := (step (Cfg.commit k al) beh true a .submit)
    let b' := (step (Cfg.commit k al) beh false (step (Cfg.commit k al) beh false b .submit).1 .complete).1
    Sim beh a'.1 b' ∧ a'.2 = .ret b'.out := by
  obtain ⟨hi, ho, hr, hf, hj, hnz, hv⟩ := h
  obtain ⟨ai, ao, ar, af, ac, aj⟩ := a
  obtain ⟨bi, bo, br, bf, bc, bj⟩ := b
  simp only at hi ho hr hf hj hnz hv hq
  subst hi ho hr hf hj hq
  simp only [N.hits, N.ready] at hhit
  cases ac with
  | none => simp at hhit
  | some c =>
    obtain ⟨h1, h2, h3⟩ := hv c rfl
    cases ar <;> cases af <;>
      simp_all [step, runLike, Cfg.commit, N.ready, N.succeed, N.fail] <;>
      (try (refine ⟨?_, ?_, ?_, ?_, ?_, ?_, ?_⟩)) <;> (try simp_all) <;> (try grind)

/-! ## the tree as it is (`Cfg.repaired`): histories without a manual reset / a lost job, functions
that raise nothing but `Exception`s -/

def Op.tame : Op → Bool
  | .drop => false
  | .resetRunning => false
  | _ => true

def Outcome.tame : Outcome → Bool
  | .kbd => false
  | .fatal => false
  | _ => true

structure SimR (beh : Nat → Outcome) (a b : N) : Prop where
  inp : a.inp = b.inp
  out : a.out = b.out
  running : a.running = b.running
  failed : a.failed = b.failed
  jobs : a.jobs = b.jobs
  jobRun : (a.running = false ∧ a.jobs = []) ∨ (a.running = true ∧ ∃ v, a.jobs = [v])
  valid : ∀ c, a.cached = some c →
    (a.running = true ∧ a.failed = false ∧ c ≠ 0 ∧ a.jobs = [c]) ∨
    (a.running = false ∧ a.failed = false ∧ a.out = some c ∧ c ≠ 0 ∧ beh c = .ok)

theorem runLike_simR (beh : Nat → Outcome) (hb : ∀ v, (beh v).tame = true) (a b : N) (e : Bool)
    (h : SimR beh a b) (hmiss : e = true → a.hits = false) :
    SimR beh (runLike Cfg.repaired beh true a e).1 (runLike Cfg.repaired beh false b e).1 ∧
    (runLike Cfg.repaired beh true a e).2 = (runLike Cfg.repaired beh false b e).2 := by
  obtain ⟨hi, ho, hr, hf, hj, hjr, hv⟩ := h
  obtain ⟨ai, ao, ar, af, ac, aj⟩ := a
  obtain ⟨bi, bo, br, bf, bc, bj⟩ := b
  simp only at hi ho hr hf hj hjr hv
  subst hi ho hr hf hj
  simp only [N.hits, N.ready] at hmiss
  have hbi := hb ai
  by_cases hz : ai = 0 <;> cases ar <;> cases af <;> cases e <;> cases hbe : beh ai <;> cases ac <;>
    simp_all [runLike, Cfg.repaired, N.ready, N.succeed, N.fail, Outcome.tame] <;>
    (try split) <;>
    (try (first | refine ⟨⟨?_, ?_, ?_, ?_, ?_, ?_, ?_⟩, ?_⟩ | refine ⟨?_, ?_, ?_, ?_, ?_, ?_, ?_⟩)) <;>
    (try simp_all) <;> (try grind)

theorem step_simR (beh : Nat → Outcome) (hb : ∀ v, (beh v).tame = true) (a b : N) (op : Op)
    (hop : op.tame = true) (h : SimR beh a b) (hmiss : op = .submit → a.hits = false) :
    SimR beh (step Cfg.repaired beh true a op).1 (step Cfg.repaired beh false b op).1 ∧
    (step Cfg.repaired beh true a op).2 = (step Cfg.repaired beh false b op).2 := by
  cases op with
  | run => exact runLike_simR beh hb a b false h (by simp)
  | submit => exact runLike_simR beh hb a b true h (fun _ => hmiss rfl)
  | drop => simp [Op.tame] at hop
  | resetRunning => simp [Op.tame] at hop
  | _ =>
    obtain ⟨hi, ho, hr, hf, hj, hjr, hv⟩ := h
    obtain ⟨ai, ao, ar, af, ac, aj⟩ := a
    obtain ⟨bi, bo, br, bf, bc, bj⟩ := b
    simp only at hi ho hr hf hj hjr hv
    subst hi ho hr hf hj
    all_goals (
      first
      | (cases ar <;> simp_all [step] <;> (try (refine ⟨?_, ?_, ?_, ?_, ?_, ?_, ?_⟩)) <;> (try simp_all) <;>
          (try grind); done)
      | (cases aj with
         | nil => simp_all [step]; refine ⟨?_, ?_, ?_, ?_, ?_, ?_, ?_⟩ <;> simp_all
         | cons v js =>
           have hbv := hb v
           cases hbe : beh v <;> simp_all [step, Cfg.repaired, N.succeed, N.fail, Outcome.tame] <;>
             (try (refine ⟨?_, ?_, ?_, ?_, ?_, ?_, ?_⟩)) <;> (try simp_all) <;> (try grind)))

theorem init_simR (beh : Nat → Outcome) : SimR beh N.init N.init := by
  refine ⟨rfl, rfl, rfl, rfl, rfl, by simp [N.init], by simp [N.init]⟩

theorem runOps_simR (beh : Nat → Outcome) (hb : ∀ v, (beh v).tame = true) (ops : List Op)
    (hops : ∀ o ∈ ops, o.tame = true) (a b : N) (h : SimR beh a b)
    (hok : NoSubmitHit Cfg.repaired beh a ops) :
    (runOps Cfg.repaired beh true a ops).2 = (runOps Cfg.repaired beh false b ops).2 ∧
    SimR beh (runOps Cfg.repaired beh true a ops).1 (runOps Cfg.repaired beh false b ops).1 := by
  induction ops generalizing a b with
  | nil => exact ⟨rfl, h⟩
  | cons o os ih =>
    obtain ⟨hs, hr⟩ := step_simR beh hb a b o (hops o (by simp)) h hok.cons.1
    obtain ⟨ih1, ih2⟩ := ih (fun o' ho' => hops o' (by simp [ho'])) _ _ hs hok.cons.2
    simp only [runOps]
    exact ⟨by rw [hr, ih1], ih2⟩

end PwVerif.Cache
