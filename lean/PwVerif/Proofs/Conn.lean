import PwVerif.Model.Conn
/-! Helper lemmas: the connection invariant is preserved by the two primitives and hence
by every entry point composed of them. -/
namespace PwVerif.Conn
open PwVerif

structure Inv (g : G) : Prop where
  symm  : ∀ a b, b ∈ g.conns a ↔ a ∈ g.conns b
  typed : ∀ a b, b ∈ g.conns a → (g.kind a).conj (g.kind b) = true
  nodup : ∀ a, (g.conns a).Nodup

theorem conj_symm (k l : Kind) : k.conj l = l.conj k := by cases k <;> cases l <;> rfl
theorem conj_irrefl (k : Kind) : k.conj k = false := by cases k <;> rfl

/-- static fields never change -/
structure SameStatic (g g' : G) : Prop where
  kind : g'.kind = g.kind
  owner : g'.owner = g.owner
  valid : g'.valid = g.valid

theorem SameStatic.refl (g : G) : SameStatic g g := ⟨rfl, rfl, rfl⟩
theorem SameStatic.trans {a b c : G} (h1 : SameStatic a b) (h2 : SameStatic b c) : SameStatic a c :=
  ⟨h2.kind.trans h1.kind, h2.owner.trans h1.owner, h2.valid.trans h1.valid⟩

theorem connect1_static (g : G) (a b : Nat) : SameStatic g (connect1 g a b).1 := by
  unfold connect1; split
  · exact .refl g
  · split
    · split
      · exact ⟨rfl, rfl, rfl⟩
      · exact .refl g
    · exact .refl g

theorem connect1_inv (g : G) (a b : Nat) (h : Inv g) : Inv (connect1 g a b).1 := by
  unfold connect1
  split
  · exact h
  · rename_i hnot
    split
    · rename_i hconj
      split
      · have hab : a ≠ b := by
          intro e; subst e; simp [conj_irrefl] at hconj
        have hnot' : a ∉ g.conns b := fun hm => hnot ((h.symm a b).mpr hm)
        refine ⟨?_, ?_, ?_⟩
        · intro x y
          have := h.symm x y
          by_cases hxa : x = a <;> by_cases hxb : x = b <;> by_cases hya : y = a <;> by_cases hyb : y = b <;>
            simp_all [updF] <;> grind
        · intro x y hy
          have := h.typed x y
          have hc := conj_symm (g.kind a) (g.kind b)
          by_cases hxa : x = a <;> by_cases hxb : x = b <;> simp_all [updF] <;> grind
        · intro x
          have := h.nodup x
          by_cases hxa : x = a <;> by_cases hxb : x = b <;> simp_all [updF]
      · exact h
    · exact h

theorem connect1_refused_noop (g : G) (a b : Nat) (hr : (connect1 g a b).2 ≠ .ok) :
    (connect1 g a b).1 = g := by
  unfold connect1 at hr ⊢
  split
  · rfl
  · split
    · split
      · simp_all
      · rfl
    · rfl

theorem disconnect1_static (g : G) (a b : Nat) : SameStatic g (disconnect1 g a b) := by
  unfold disconnect1; split
  · dsimp only; split <;> exact ⟨rfl, rfl, rfl⟩
  · exact .refl g

theorem disconnect1_unconnected_noop (g : G) (a b : Nat) (hn : b ∉ g.conns a) :
    disconnect1 g a b = g := by
  simp [disconnect1, hn]

theorem disconnect1_inv (g : G) (a b : Nat) (h : Inv g) : Inv (disconnect1 g a b) := by
  unfold disconnect1
  split
  · rename_i hb
    have hab : a ≠ b := by
      intro e; subst e
      have := h.typed a a hb; simp [conj_irrefl] at this
    have hba : a ∈ g.conns b := (h.symm a b).mp hb
    have hmem : a ∈ (updF g.conns a ((g.conns a).erase b)) b := by
      simp [updF, Ne.symm hab, hba]
    simp only [hmem, if_true]
    refine ⟨?_, ?_, ?_⟩
    · intro x y
      have := h.symm x y
      have na := h.nodup a
      have nb := h.nodup b
      by_cases hxa : x = a <;> by_cases hxb : x = b <;> by_cases hya : y = a <;> by_cases hyb : y = b <;>
        simp_all [updF, List.Nodup.mem_erase_iff] <;> grind
    · intro x y hy
      have := h.typed x y
      by_cases hxa : x = a <;> by_cases hxb : x = b <;> simp_all [updF] <;>
        exact this (List.mem_of_mem_erase hy)
    · intro x
      have := h.nodup x
      by_cases hxa : x = a <;> by_cases hxb : x = b <;> simp_all [updF] <;>
        exact List.Nodup.erase _ (by assumption)
  · exact h

/-- after `disconnect1 a b` (on a well-formed graph) neither lists the other -/
theorem disconnect1_gone (g : G) (a b : Nat) (h : Inv g) :
    b ∉ (disconnect1 g a b).conns a ∧ a ∉ (disconnect1 g a b).conns b := by
  have h' := disconnect1_inv g a b h
  suffices hs : b ∉ (disconnect1 g a b).conns a from ⟨hs, fun hm => hs ((h'.symm a b).mpr hm)⟩
  unfold disconnect1
  split
  · rename_i hb
    have hab : a ≠ b := by
      intro e; subst e
      have := h.typed a a hb; simp [conj_irrefl] at this
    have hba : a ∈ g.conns b := (h.symm a b).mp hb
    have hmem : a ∈ (updF g.conns a ((g.conns a).erase b)) b := by
      simp [updF, Ne.symm hab, hba]
    simp only [hmem, if_true]
    have na := h.nodup a
    simp [updF, hab, List.Nodup.mem_erase_iff na]
  · assumption

/-- `disconnect1` only ever removes -/
theorem disconnect1_subset (g : G) (a b x y : Nat) (hy : y ∈ (disconnect1 g a b).conns x) :
    y ∈ g.conns x := by
  unfold disconnect1 at hy
  split at hy
  · dsimp only at hy
    split at hy
    · by_cases hxa : x = a <;> by_cases hxb : x = b <;> simp_all [updF] <;>
        first | exact hy | exact List.mem_of_mem_erase hy
              | exact List.mem_of_mem_erase (List.mem_of_mem_erase hy)
    · by_cases hxa : x = a <;> simp_all [updF] <;> exact List.mem_of_mem_erase hy
  · exact hy

theorem connect_inv (g : G) (a : Nat) (bs : List Nat) (h : Inv g) : Inv (connect g a bs).1 := by
  induction bs generalizing g with
  | nil => exact h
  | cons b bs ih =>
    unfold connect
    have h1 := connect1_inv g a b h
    split
    · rename_i g' heq
      rw [heq] at h1; exact ih g' h1
    · rename_i g' r _ heq
      rw [heq] at h1; exact h1

theorem connect_static (g : G) (a : Nat) (bs : List Nat) : SameStatic g (connect g a bs).1 := by
  induction bs generalizing g with
  | nil => exact .refl g
  | cons b bs ih =>
    unfold connect
    have h1 := connect1_static g a b
    split
    · rename_i g' heq
      rw [heq] at h1; exact h1.trans (ih g')
    · rename_i g' r _ heq
      rw [heq] at h1; exact h1

theorem disconnect_inv (g : G) (a : Nat) (bs : List Nat) (h : Inv g) : Inv (disconnect g a bs) := by
  unfold disconnect
  induction bs generalizing g with
  | nil => exact h
  | cons b bs ih => exact ih _ (disconnect1_inv g a b h)

theorem disconnect_static (g : G) (a : Nat) (bs : List Nat) : SameStatic g (disconnect g a bs) := by
  unfold disconnect
  induction bs generalizing g with
  | nil => exact .refl g
  | cons b bs ih => exact (disconnect1_static g a b).trans (ih _)

theorem disconnect_subset (g : G) (a : Nat) (bs : List Nat) (x y : Nat)
    (hy : y ∈ (disconnect g a bs).conns x) : y ∈ g.conns x := by
  unfold disconnect at hy
  induction bs generalizing g with
  | nil => exact hy
  | cons b bs ih => exact disconnect1_subset g a b x y (ih _ hy)

/-- every listed partner is gone afterwards -/
theorem disconnect_gone (g : G) (a : Nat) (bs : List Nat) (h : Inv g) :
    ∀ b ∈ bs, b ∉ (disconnect g a bs).conns a := by
  induction bs generalizing g with
  | nil => intro b hb; cases hb
  | cons c cs ih =>
    intro b hb
    have h1 := disconnect1_inv g a c h
    rcases List.mem_cons.mp hb with rfl | hb'
    · intro hm
      have : b ∈ (disconnect1 g a b).conns a := disconnect_subset _ a cs a b hm
      exact (disconnect1_gone g a b h).1 this
    · exact ih _ h1 b hb'

theorem disconnectAll_inv (g : G) (a : Nat) (h : Inv g) : Inv (disconnectAll g a) :=
  disconnect_inv g a _ h

theorem disconnectAll_empty (g : G) (a : Nat) (h : Inv g) : (disconnectAll g a).conns a = [] := by
  apply List.eq_nil_iff_forall_not_mem.mpr
  intro b hb
  have hb0 : b ∈ g.conns a := disconnect_subset g a _ a b hb
  exact disconnect_gone g a (g.conns a) h b hb0 hb

theorem disconnectChans_inv (g : G) (cs : List Nat) (h : Inv g) : Inv (disconnectChans g cs) := by
  unfold disconnectChans
  induction cs generalizing g with
  | nil => exact h
  | cons c cs ih => exact ih _ (disconnectAll_inv g c h)

theorem disconnectChans_static (g : G) (cs : List Nat) : SameStatic g (disconnectChans g cs) := by
  unfold disconnectChans
  induction cs generalizing g with
  | nil => exact .refl g
  | cons c cs ih => exact (disconnect_static g c _).trans (ih _)

theorem disconnectChans_subset (g : G) (cs : List Nat) (x y : Nat)
    (hy : y ∈ (disconnectChans g cs).conns x) : y ∈ g.conns x := by
  unfold disconnectChans at hy
  induction cs generalizing g with
  | nil => exact hy
  | cons c cs ih => exact disconnect_subset g c _ x y (ih _ hy)

theorem disconnectChans_empty (g : G) (cs : List Nat) (h : Inv g) :
    ∀ c ∈ cs, (disconnectChans g cs).conns c = [] := by
  induction cs generalizing g with
  | nil => intro c hc; cases hc
  | cons d ds ih =>
    intro c hc
    have h1 := disconnectAll_inv g d h
    by_cases hcd : c ∈ ds
    · exact ih _ h1 c hcd
    · have hcd' : c = d := by
        rcases List.mem_cons.mp hc with e | e
        · exact e
        · exact absurd e hcd
      subst hcd'
      apply List.eq_nil_iff_forall_not_mem.mpr
      intro y hy
      have : y ∈ (disconnectAll g c).conns c := disconnectChans_subset _ ds c y hy
      rw [disconnectAll_empty g c h] at this; cases this

theorem copyConnsAux_inv (g : G) (a : Nat) (cs done : List Nat) (h : Inv g) :
    Inv (copyConnsAux g a cs done).1 := by
  induction cs generalizing g done with
  | nil => exact h
  | cons c cs ih =>
    unfold copyConnsAux
    have h1 := connect1_inv g a c h
    split
    · rename_i g' heq
      rw [heq] at h1; exact ih g' _ h1
    · rename_i g' r _ heq
      rw [heq] at h1; exact disconnect_inv g' a done h1

theorem copyIoTargets_inv (g : G) (my : Option Nat) (fh : Bool) (ts : List Nat) (new : List (Nat × Nat))
    (h : Inv g) : Inv (copyIoTargets g my fh ts new).1 := by
  induction ts generalizing g new with
  | nil => exact h
  | cons t ts ih =>
    unfold copyIoTargets
    cases my with
    | none => dsimp only; split
              · exact h
              · exact ih g new h
    | some m =>
      dsimp only
      have h1 := connect1_inv g m t h
      split
      · rename_i g' heq
        rw [heq] at h1; exact ih g' _ h1
      · rename_i g' r _ heq
        rw [heq] at h1
        split
        · exact h1
        · exact ih g' new h1

theorem copyIoPairs_inv (g : G) (fh : Bool) (ps : List (Option Nat × Nat)) (new : List (Nat × Nat))
    (h : Inv g) : Inv (copyIoPairs g fh ps new).1 := by
  induction ps generalizing g new with
  | nil => exact h
  | cons p ps ih =>
    obtain ⟨my, o⟩ := p
    unfold copyIoPairs
    have h1 := copyIoTargets_inv g my fh (g.conns o) new h
    split
    · rename_i g' new' heq
      rw [heq] at h1; exact h1
    · rename_i g' new' heq
      rw [heq] at h1; exact ih g' new' h1

theorem undoPairs_inv (g : G) (new : List (Nat × Nat)) (h : Inv g) : Inv (undoPairs g new) := by
  unfold undoPairs
  induction new generalizing g with
  | nil => exact h
  | cons p ps ih => exact ih _ (disconnect1_inv g p.1 p.2 h)

theorem copyIo_inv (g : G) (fh : Bool) (ps : List (Option Nat × Nat)) (h : Inv g) :
    Inv (copyIo g fh ps).1 := by
  unfold copyIo
  have h1 := copyIoPairs_inv g fh ps [] h
  split
  · rename_i g' new heq
    rw [heq] at h1; exact undoPairs_inv g' new h1
  · rename_i g' new heq
    rw [heq] at h1; exact h1

theorem step_inv (g : G) (op : Op) (h : Inv g) : Inv (step g op).1 := by
  cases op with
  | connect a bs => exact connect_inv g a bs h
  | disconnect a bs => exact disconnect_inv g a bs h
  | disconnectAll a => exact disconnectAll_inv g a h
  | disconnectChans cs => exact disconnectChans_inv g cs h
  | copyConns a b => exact copyConnsAux_inv g a _ _ h
  | copyIo fh ps => exact copyIo_inv g fh ps h

theorem run_inv (g : G) (ops : List Op) (h : Inv g) : Inv (run g ops) := by
  unfold run
  induction ops generalizing g with
  | nil => exact h
  | cons o os ih => exact ih _ (step_inv g o h)

end PwVerif.Conn
