import PwVerif.Model.Signal
/-!
Lemmas for C02.

Part A: two invariants of the all-of trigger over an arbitrary history, by induction on the length of
the prefix: everything in `received` is the label of an arrival since the last firing (`InvSound`),
and every arrival since the last firing has its label in `received` (`InvComplete`).

Part B: a simulation between the transcribed composite loop (two phases, label-keyed triggers, the
receiving channel's own connection list) and the plain queue interpreter `Spec.queueInterp` (one
FIFO, identity-keyed triggers, connections read off the one signal graph).
-/
namespace PwVerif.Signal
open PwVerif

/-! ## Part A -/

theorem mem_insertL {x l : Label} {r : List Label} : x ∈ insertL l r ↔ x = l ∨ x ∈ r := by
  unfold insertL
  split
  · rename_i h
    have : l ∈ r := by simpa using h
    constructor
    · intro hx; exact Or.inr hx
    · rintro (rfl | hx)
      · exact this
      · exact hx
  · simp

theorem covered_iff {lab : Nat → Label} {conns : List Nat} {rec : List Label} :
    covered lab conns rec = true ↔ ∀ c ∈ conns, lab c ∈ rec := by
  simp [covered]

theorem Acc.run_append (lab : Nat → Label) (a : Acc) (l1 l2 : List Ev) :
    a.run lab (l1 ++ l2) = (a.run lab l1).run lab l2 := by
  induction l1 generalizing a with
  | nil => rfl
  | cons ev rest ih => simp [Acc.run, ih]

theorem Acc.before_succ (lab : Nat → Label) (a : Acc) (hist : List Ev) (k : Nat) (ev : Ev)
    (h : hist[k]? = some ev) :
    a.before lab hist (k + 1) = ((a.before lab hist k).step lab ev).1 := by
  unfold Acc.before
  rw [List.take_add_one, h, Acc.run_append]
  rfl

theorem Acc.firedAt_eq (lab : Nat → Label) (a : Acc) (hist : List Ev) (k : Nat) (ev : Ev)
    (h : hist[k]? = some ev) :
    a.firedAt lab hist k = ((a.before lab hist k).step lab ev).2 := by
  simp [Acc.firedAt, h]

/-- no firing at the events `j, …, k-1` -/
def Quiet (lab : Nat → Label) (a : Acc) (hist : List Ev) (j k : Nat) : Prop :=
  ∀ i, j ≤ i → i < k → a.firedAt lab hist i = false

theorem Quiet.extend {lab a hist j k} (h : Quiet lab a hist j k) (hk : a.firedAt lab hist k = false) :
    Quiet lab a hist j (k + 1) := by
  intro i hji hik
  by_cases hi : i = k
  · subst hi; exact hk
  · exact h i hji (by omega)

theorem Quiet.not_fired {lab a hist j k} (h : Quiet lab a hist j (k + 1)) (hjk : j ≤ k) :
    a.firedAt lab hist k = false := h k hjk (by omega)

theorem Quiet.shrink {lab a hist j k} (h : Quiet lab a hist j (k + 1)) : Quiet lab a hist j k :=
  fun i hji hik => h i hji (by omega)

/-- everything remembered is the label of an arrival since the last firing -/
def InvSound (lab : Nat → Label) (a : Acc) (hist : List Ev) (k : Nat) : Prop :=
  ∀ l ∈ (a.before lab hist k).received,
    ∃ j e, j < k ∧ hist[j]? = some (.arrive e) ∧ lab e = l ∧ Quiet lab a hist j k

/-- every arrival since the last firing is remembered -/
def InvComplete (lab : Nat → Label) (a : Acc) (hist : List Ev) (k : Nat) : Prop :=
  ∀ j e, j < k → hist[j]? = some (.arrive e) → Quiet lab a hist j k →
    lab e ∈ (a.before lab hist k).received

/-- what the trigger has heard once the current call is taken into account -/
@[reducible] def heard (lab : Nat → Label) (a : Acc) : Option Nat → List Label
  | some e => insertL (lab e) a.received
  | none => a.received

theorem Acc.call_eq (lab : Nat → Label) (a : Acc) (other : Option Nat) :
    a.call lab other = if covered lab a.conns (heard lab a other) then ({ a with received := [] }, true)
      else ({ a with received := heard lab a other }, false) := by
  cases other <;> rfl

theorem step_call_cases (lab : Nat → Label) (a : Acc) (other : Option Nat) :
    (covered lab a.conns (heard lab a other) = true ∧ a.call lab other = ({ a with received := [] }, true)) ∨
    (covered lab a.conns (heard lab a other) = false ∧
      a.call lab other = ({ a with received := heard lab a other }, false)) := by
  rw [Acc.call_eq]
  cases covered lab a.conns (heard lab a other) <;> simp

theorem inv_both (lab : Nat → Label) (a : Acc) (ha : a.received = []) (hist : List Ev) :
    ∀ k, k ≤ hist.length → InvSound lab a hist k ∧ InvComplete lab a hist k := by
  intro k
  induction k with
  | zero =>
    intro _
    constructor
    · intro l hl
      simp [Acc.before, Acc.run, ha] at hl
    · intro j e hj; omega
  | succ k ih =>
    intro hk
    have hlt : k < hist.length := by omega
    obtain ⟨ihS, ihC⟩ := ih (by omega)
    have hev : hist[k]? = some hist[k] := by simp [hlt]
    generalize hist[k] = ev at hev
    have hb := Acc.before_succ lab a hist k ev hev
    have hf := Acc.firedAt_eq lab a hist k ev hev
    -- what the call variants do
    have callCase : ∀ other : Option Nat, (ev = .poke ∧ other = none) ∨ (∃ e, ev = .arrive e ∧ other = some e) →
        ((a.before lab hist k).step lab ev) = (a.before lab hist k).call lab other := by
      intro other h
      rcases h with ⟨rfl, rfl⟩ | ⟨e, rfl, rfl⟩ <;> rfl
    cases ev with
    | connect e =>
      have hrec : (a.before lab hist (k + 1)).received = (a.before lab hist k).received := by
        rw [hb]; simp only [Acc.step]; split <;> rfl
      have hnf : a.firedAt lab hist k = false := by rw [hf]; rfl
      constructor
      · intro l hl
        rw [hrec] at hl
        obtain ⟨j, e', hj, hje, hl', hq⟩ := ihS l hl
        exact ⟨j, e', by omega, hje, hl', hq.extend hnf⟩
      · intro j e' hj hje hq
        rw [hrec]
        have : j ≠ k := by
          intro h; subst h; rw [hev] at hje; cases hje
        exact ihC j e' (by omega) hje hq.shrink
    | disconnect e =>
      have hrec : (a.before lab hist (k + 1)).received = (a.before lab hist k).received := by
        rw [hb]; rfl
      have hnf : a.firedAt lab hist k = false := by rw [hf]; rfl
      constructor
      · intro l hl
        rw [hrec] at hl
        obtain ⟨j, e', hj, hje, hl', hq⟩ := ihS l hl
        exact ⟨j, e', by omega, hje, hl', hq.extend hnf⟩
      · intro j e' hj hje hq
        rw [hrec]
        have : j ≠ k := by
          intro h; subst h; rw [hev] at hje; cases hje
        exact ihC j e' (by omega) hje hq.shrink
    | poke =>
      have hst := callCase none (Or.inl ⟨rfl, rfl⟩)
      rcases step_call_cases lab (a.before lab hist k) none with ⟨_, hc⟩ | ⟨_, hc⟩
      · -- fired: reset
        have hrec : (a.before lab hist (k + 1)).received = [] := by rw [hb, hst, hc]
        have hfk : a.firedAt lab hist k = true := by rw [hf, hst, hc]
        constructor
        · intro l hl; rw [hrec] at hl; cases hl
        · intro j e' hj hje hq
          have := hq.not_fired (by omega)
          rw [hfk] at this; cases this
      · have hrec : (a.before lab hist (k + 1)).received = (a.before lab hist k).received := by
          rw [hb, hst, hc]
        have hnf : a.firedAt lab hist k = false := by rw [hf, hst, hc]
        constructor
        · intro l hl
          rw [hrec] at hl
          obtain ⟨j, e', hj, hje, hl', hq⟩ := ihS l hl
          exact ⟨j, e', by omega, hje, hl', hq.extend hnf⟩
        · intro j e' hj hje hq
          rw [hrec]
          have : j ≠ k := by
            intro h; subst h; rw [hev] at hje; cases hje
          exact ihC j e' (by omega) hje hq.shrink
    | arrive e =>
      have hst := callCase (some e) (Or.inr ⟨e, rfl, rfl⟩)
      rcases step_call_cases lab (a.before lab hist k) (some e) with ⟨_, hc⟩ | ⟨_, hc⟩
      · have hrec : (a.before lab hist (k + 1)).received = [] := by rw [hb, hst, hc]
        have hfk : a.firedAt lab hist k = true := by rw [hf, hst, hc]
        constructor
        · intro l hl; rw [hrec] at hl; cases hl
        · intro j e' hj hje hq
          have := hq.not_fired (by omega)
          rw [hfk] at this; cases this
      · have hrec : (a.before lab hist (k + 1)).received
            = insertL (lab e) (a.before lab hist k).received := by
          rw [hb, hst, hc]
        have hnf : a.firedAt lab hist k = false := by rw [hf, hst, hc]
        constructor
        · intro l hl
          rw [hrec, mem_insertL] at hl
          rcases hl with rfl | hl
          · exact ⟨k, e, by omega, hev, rfl, fun i h1 h2 => by
              have : i = k := by omega
              subst this; exact hnf⟩
          · obtain ⟨j, e', hj, hje, hl', hq⟩ := ihS l hl
            exact ⟨j, e', by omega, hje, hl', hq.extend hnf⟩
        · intro j e' hj hje hq
          rw [hrec, mem_insertL]
          by_cases hjk : j = k
          · subst hjk
            rw [hev] at hje
            cases hje
            exact Or.inl rfl
          · exact Or.inr (ihC j e' (by omega) hje hq.shrink)

/-! ## Part B -/

def tok (i : Nat) : Option Sig × Recv := (none, { node := i, acc := false })

def lift (q : List (Sig × Recv)) : List (Option Sig × Recv) := q.map (fun p => (some p.1, p.2))

@[simp] theorem lift_append (a b : List (Sig × Recv)) : lift (a ++ b) = lift a ++ lift b := by
  simp [lift]

/-- the hypotheses on the signal graph: the receiving all-of channel's own connection list is the
mirror image of the emitters' lists (C12 mutuality), every emitting channel with a connection is a
listed channel, and the emitters wired to one all-of trigger carry distinct scoped labels (true
inside any one parent, where sibling labels are unique — C13) -/
structure WF (g : Graph) : Prop where
  mirror : ∀ r s, s ∈ g.accConns r ↔ (s ∈ g.sigs ∧ { node := r, acc := true } ∈ g.conns s)
  cover : ∀ s r, r ∈ g.conns s → s ∈ g.sigs
  inj : ∀ r s s', s ∈ g.accConns r → s' ∈ g.accConns r → g.lab s = g.lab s' → s = s'

theorem mem_pairs {g : Graph} {sigs : List Sig} {p : Sig × Recv} (h : p ∈ pairs g sigs) :
    p.2 ∈ g.conns p.1 := by
  induction sigs with
  | nil => simp [pairs] at h
  | cons s rest ih =>
    simp only [pairs, List.mem_append, List.mem_map] at h
    rcases h with ⟨r, hr, rfl⟩ | h
    · exact hr
    · exact ih h

theorem mem_upstream {g : Graph} {r : Nat} {s : Sig} :
    s ∈ Spec.upstream g r ↔ (s ∈ g.sigs ∧ { node := r, acc := true } ∈ g.conns s) := by
  simp [Spec.upstream]

/-- the simulation relation; `pre` = starting nodes not yet started -/
structure Rel {σ} (g : Graph) (m : S σ) (q : Spec.St σ) (pre : List Nat) : Prop where
  store : m.store = q.store
  errs : m.errs = q.errs
  fired : m.fired = q.fired
  fifo : q.fifo = pre.map tok ++ lift m.queue
  recv : ∀ r l, l ∈ m.received r ↔ ∃ s, s ∈ q.seen r ∧ g.lab s = l
  seenOk : ∀ r s, s ∈ q.seen r → s ∈ g.accConns r
  qOk : ∀ p, p ∈ m.queue → p.2 ∈ g.conns p.1

/-- running the same child on related states (the spec's fifo given explicitly) -/
theorem callRun_rel {σ} (sem : Sem σ) (g : Graph) (m : S σ) (q : Spec.St σ) (pre : List Nat) (i : Nat)
    (h : Rel g m q pre) : Rel g (callRun sem g m i) (Spec.run sem g q i) pre := by
  obtain ⟨hs, he, hf, hq, hr, hso, hqo⟩ := h
  unfold callRun Spec.run
  rw [← hs]
  rcases hreact : sem.react m.store i with ⟨st, raised, sigs⟩
  refine ⟨rfl, ?_, ?_, ?_, hr, hso, ?_⟩
  · simp [he]
  · simp [hf]
  · simp only [hq, lift_append, List.append_assoc]; rfl
  · intro p hp
    simp only [List.mem_append] at hp
    rcases hp with hp | hp
    · exact hqo p hp
    · exact mem_pairs hp

theorem fire_agree {g : Graph} (wf : WF g) (r : Nat) (e : Sig) (rec : List Label) (seen : List Sig)
    (he : { node := r, acc := true } ∈ g.conns e)
    (hr : ∀ l, l ∈ rec ↔ ∃ s, s ∈ seen ∧ g.lab s = l)
    (hso : ∀ s, s ∈ seen → s ∈ g.accConns r) :
    covered g.lab (g.accConns r) (insertL (g.lab e) rec)
      = (Spec.upstream g r).all (fun u => (e :: seen).contains u) := by
  have hea : e ∈ g.accConns r := (wf.mirror r e).2 ⟨wf.cover e _ he, he⟩
  rw [Bool.eq_iff_iff, covered_iff]
  simp only [List.all_eq_true, List.contains_iff_mem, List.mem_cons]
  constructor
  · intro h u hu
    have hua : u ∈ g.accConns r := (wf.mirror r u).2 (mem_upstream.1 hu)
    have := h u hua
    rw [mem_insertL] at this
    rcases this with h1 | h1
    · exact Or.inl (wf.inj r u e hua hea h1)
    · obtain ⟨s, hs, hl⟩ := (hr _).1 h1
      have := wf.inj r s u (hso s hs) hua hl
      subst this
      exact Or.inr hs
  · intro h c hc
    have hcu : c ∈ Spec.upstream g r := mem_upstream.2 ((wf.mirror r c).1 hc)
    rw [mem_insertL]
    rcases h c hcu with h1 | h1
    · exact Or.inl (by rw [h1])
    · exact Or.inr ((hr _).2 ⟨c, h1, rfl⟩)

/-- one delivery on related states -/
theorem deliver_rel {σ} (sem : Sem σ) (g : Graph) (wf : WF g) (m : S σ) (q : Spec.St σ)
    (e : Sig) (r : Recv) (he : r ∈ g.conns e) (h : Rel g m q []) :
    Rel g (deliver sem g m e r) (Spec.serve sem g q (some e) r) [] := by
  unfold deliver Spec.serve
  cases hacc : r.acc with
  | false => simpa using callRun_rel sem g m q [] r.node h
  | true =>
    have hr' : r = { node := r.node, acc := true } := by
      cases r; simp_all
    have he' : { node := r.node, acc := true } ∈ g.conns e := hr' ▸ he
    have hag := fire_agree wf r.node e (m.received r.node) (q.seen r.node) he'
      (h.recv r.node) (h.seenOk r.node)
    have hea : e ∈ g.accConns r.node := (wf.mirror r.node e).2 ⟨wf.cover e _ he', he'⟩
    simp only [if_true]
    rcases step_call_cases g.lab { conns := g.accConns r.node, received := m.received r.node } (some e)
      with ⟨hc, hcall⟩ | ⟨hc, hcall⟩
    · -- fires on both sides
      rw [hcall]
      have hc' := hag ▸ hc
      simp only [hc', if_true]
      apply callRun_rel
      refine ⟨h.store, h.errs, h.fired, h.fifo, ?_, ?_, h.qOk⟩
      · intro r' l
        by_cases hrr : r' = r.node
        · subst hrr; simp [updF]
        · simpa [updF, hrr] using h.recv r' l
      · intro r' s hs
        by_cases hrr : r' = r.node
        · subst hrr; simp [updF] at hs
        · exact h.seenOk r' s (by simpa [updF, hrr] using hs)
    · rw [hcall]
      have hc' := hag ▸ hc
      simp only [hc', Bool.false_eq_true, ↓reduceIte]
      refine ⟨h.store, h.errs, h.fired, h.fifo, ?_, ?_, h.qOk⟩
      · intro r' l
        by_cases hrr : r' = r.node
        · subst hrr
          simp only [updF_same, heard, mem_insertL, List.mem_cons]
          constructor
          · rintro (rfl | hl)
            · exact ⟨e, Or.inl rfl, rfl⟩
            · obtain ⟨s, hs, hl'⟩ := (h.recv _ l).1 hl
              exact ⟨s, Or.inr hs, hl'⟩
          · rintro ⟨s, rfl | hs, hl⟩
            · exact Or.inl hl.symm
            · exact Or.inr ((h.recv _ l).2 ⟨s, hs, hl⟩)
        · simpa [updF, hrr] using h.recv r' l
      · intro r' s hs
        by_cases hrr : r' = r.node
        · subst hrr
          simp only [updF_same, List.mem_cons] at hs
          rcases hs with rfl | hs
          · exact hea
          · exact h.seenOk _ s hs
        · exact h.seenOk r' s (by simpa [updF, hrr] using hs)

theorem Spec.qi_nil {σ} (sem : Sem σ) (g : Graph) (n : Nat) (s : Spec.St σ) (h : s.fifo = []) :
    Spec.queueInterp sem g (n + 1) s = s := by
  simp [Spec.queueInterp, h]

theorem Spec.qi_cons {σ} (sem : Sem σ) (g : Graph) (n : Nat) (s : Spec.St σ) (src : Option Sig) (r : Recv)
    (rest : List (Option Sig × Recv)) (h : s.fifo = (src, r) :: rest) :
    Spec.queueInterp sem g (n + 1) s
      = Spec.queueInterp sem g n (Spec.serve sem g { s with fifo := rest } src r) := by
  simp [Spec.queueInterp, h]

theorem drain_nil {σ} (sem : Sem σ) (g : Graph) (n : Nat) (s : S σ) (h : s.queue = []) :
    drain sem g (n + 1) s = s := by
  simp [drain, h]

theorem drain_cons {σ} (sem : Sem σ) (g : Graph) (n : Nat) (s : S σ) (e : Sig) (r : Recv)
    (rest : List (Sig × Recv)) (h : s.queue = (e, r) :: rest) :
    drain sem g (n + 1) s = drain sem g n (deliver sem g { s with queue := rest } e r) := by
  simp [drain, h]

/-- the drain loop simulates the interpreter step for step -/
theorem drain_rel {σ} (sem : Sem σ) (g : Graph) (wf : WF g) (n : Nat) :
    ∀ (m : S σ) (q : Spec.St σ), Rel g m q [] →
      Rel g (drain sem g n m) (Spec.queueInterp sem g n q) [] := by
  induction n with
  | zero => intro m q h; exact h
  | succ n ih =>
    intro m q h
    have hq := h.fifo
    simp only [List.map_nil, List.nil_append] at hq
    cases hmq : m.queue with
    | nil =>
      rw [hmq] at hq
      rw [drain_nil sem g n m hmq, Spec.qi_nil sem g n q (by simpa [lift] using hq)]
      exact h
    | cons p mq =>
      obtain ⟨e, r⟩ := p
      rw [hmq] at hq
      rw [drain_cons sem g n m e r mq hmq, Spec.qi_cons sem g n q (some e) r (lift mq) (by simpa [lift] using hq)]
      apply ih
      have he : r ∈ g.conns e := h.qOk (e, r) (by rw [hmq]; simp)
      apply deliver_rel sem g wf _ _ e r he
      refine ⟨h.store, h.errs, h.fired, by simp [lift], h.recv, h.seenOk, ?_⟩
      intro p hp
      exact h.qOk p (by rw [hmq]; exact List.mem_cons_of_mem _ hp)

/-- the starting loop = serving the start tokens at the head of the FIFO -/
theorem start_rel {σ} (sem : Sem σ) (g : Graph) (fuel : Nat) :
    ∀ (pre : List Nat) (m : S σ) (q : Spec.St σ), Rel g m q pre →
      ∃ q', Spec.queueInterp sem g (pre.length + fuel) q = Spec.queueInterp sem g fuel q' ∧
        Rel g (startAll sem g m pre) q' [] := by
  intro pre
  induction pre with
  | nil =>
    intro m q h
    exact ⟨q, by simp, h⟩
  | cons i rest ih =>
    intro m q h
    have hq := h.fifo
    simp only [List.map_cons, List.cons_append] at hq
    have harith : (i :: rest).length + fuel = (rest.length + fuel) + 1 := by
      simp only [List.length_cons]; omega
    rw [harith, Spec.qi_cons sem g _ q none { node := i, acc := false } _ hq]
    simp only [startAll]
    apply ih
    have h1 : Rel g m { q with fifo := List.map tok rest ++ lift m.queue } rest :=
      ⟨h.store, h.errs, h.fired, rfl, h.recv, h.seenOk, h.qOk⟩
    have := callRun_rel sem g m _ rest i h1
    simpa [Spec.serve] using this

/-! ## the finite check is sound -/

theorem getD_nil_of_ge {α} (l : List (List α)) (i : Nat) (h : l.length ≤ i) : l.getD i [] = [] := by
  simp [List.getD, List.getElem?_eq_none h]

theorem FinGraph.check_sound (f : FinGraph) (h : f.check = true) : WF f.toGraph := by
  unfold FinGraph.check at h
  simp only [Bool.and_eq_true, List.all_eq_true, List.mem_range, decide_eq_true_eq, Bool.or_eq_true,
    Bool.not_eq_true', List.contains_iff_mem, bne_iff_ne, beq_iff_eq] at h
  obtain ⟨⟨hA, hB⟩, hC⟩ := h
  have hsig : ∀ s, s ∈ f.toGraph.sigs ↔ s < f.conns.length := by
    intro s; simp [FinGraph.toGraph]
  have hconn0 : ∀ s, f.conns.length ≤ s → f.toGraph.conns s = [] := by
    intro s hs; exact getD_nil_of_ge _ _ hs
  have hacc0 : ∀ r, f.accConns.length ≤ r → f.toGraph.accConns r = [] := by
    intro r hr; exact getD_nil_of_ge _ _ hr
  refine ⟨?_, ?_, ?_⟩
  · intro r s
    constructor
    · intro hs
      by_cases hr : r < f.accConns.length
      · have := hA r hr s hs
        exact ⟨(hsig s).2 this.1, this.2⟩
      · rw [hacc0 r (by omega)] at hs; cases hs
    · rintro ⟨hs, hr⟩
      have := hB s ((hsig s).1 hs) _ hr
      simpa using this
  · intro s r hr
    by_cases hs : s < f.conns.length
    · exact (hsig s).2 hs
    · rw [hconn0 s (Nat.le_of_not_lt hs)] at hr; cases hr
  · intro r s s' hs hs' hl
    by_cases hr : r < f.accConns.length
    · rcases hC r hr s hs s' hs' with h1 | h1
      · exact absurd hl h1
      · exact h1
    · rw [hacc0 r (by omega)] at hs; cases hs

/-! ## Part A, consequences used by the property theorems -/

theorem fired_cases (lab : Nat → Label) (a : Acc) (hist : List Ev) (k : Nat)
    (h : a.firedAt lab hist k = true) :
    ∃ other, ((∃ e, hist[k]? = some (.arrive e) ∧ other = some e) ∨ (hist[k]? = some .poke ∧ other = none)) ∧
      covered lab (a.before lab hist k).conns (heard lab (a.before lab hist k) other) = true := by
  unfold Acc.firedAt at h
  cases hev : hist[k]? with
  | none => simp [hev] at h
  | some ev =>
    simp only [hev] at h
    cases ev with
    | connect e => simp [Acc.step] at h
    | disconnect e => simp [Acc.step] at h
    | poke =>
      refine ⟨none, Or.inr ⟨rfl, rfl⟩, ?_⟩
      rcases step_call_cases lab (a.before lab hist k) none with ⟨hc, _⟩ | ⟨_, hcall⟩
      · exact hc
      · simp only [Acc.step] at h; rw [hcall] at h; cases h
    | arrive e =>
      refine ⟨some e, Or.inl ⟨e, rfl, rfl⟩, ?_⟩
      rcases step_call_cases lab (a.before lab hist k) (some e) with ⟨hc, _⟩ | ⟨_, hcall⟩
      · exact hc
      · simp only [Acc.step] at h; rw [hcall] at h; cases h

theorem call_fires (lab : Nat → Label) (a : Acc) (hist : List Ev) (k : Nat) (other : Option Nat)
    (hev : (∃ e, hist[k]? = some (.arrive e) ∧ other = some e) ∨ (hist[k]? = some .poke ∧ other = none))
    (hc : covered lab (a.before lab hist k).conns (heard lab (a.before lab hist k) other) = true) :
    a.firedAt lab hist k = true := by
  unfold Acc.firedAt
  rcases hev with ⟨e, hev, rfl⟩ | ⟨hev, rfl⟩
  · simp only [hev, Acc.step]
    rw [Acc.call_eq, hc]; rfl
  · simp only [hev, Acc.step]
    rw [Acc.call_eq, hc]; rfl

theorem fired_lt (lab : Nat → Label) (a : Acc) (hist : List Ev) (k : Nat)
    (h : a.firedAt lab hist k = true) : k < hist.length := by
  unfold Acc.firedAt at h
  cases hev : hist[k]? with
  | none => simp [hev] at h
  | some ev =>
    have := List.getElem?_eq_some_iff.1 hev
    exact this.1

theorem fired_resets (lab : Nat → Label) (a : Acc) (hist : List Ev) (k : Nat)
    (h : a.firedAt lab hist k = true) : (a.before lab hist (k + 1)).received = [] := by
  have hlt := fired_lt lab a hist k h
  have hev : hist[k]? = some hist[k] := by simp [hlt]
  rw [Acc.before_succ lab a hist k _ hev]
  rw [Acc.firedAt_eq lab a hist k _ hev] at h
  generalize hist[k] = ev at h
  cases ev with
  | connect e => simp [Acc.step] at h
  | disconnect e => simp [Acc.step] at h
  | poke =>
    simp only [Acc.step] at h ⊢
    rcases step_call_cases lab (a.before lab hist k) none with ⟨_, hcall⟩ | ⟨_, hcall⟩
    · rw [hcall]
    · rw [hcall] at h; cases h
  | arrive e =>
    simp only [Acc.step] at h ⊢
    rcases step_call_cases lab (a.before lab hist k) (some e) with ⟨_, hcall⟩ | ⟨_, hcall⟩
    · rw [hcall]
    · rw [hcall] at h; cases h

theorem anyFirings_eq (conns : List Nat) (hist : List Ev) :
    anyFirings conns hist = (hist.filter Ev.isCall).length := by
  induction hist generalizing conns with
  | nil => rfl
  | cons ev rest ih =>
    cases ev <;> simp [anyFirings, anyStep, Ev.isCall, ih, List.filter_cons] <;> omega

theorem callsFrom_nodup (conns : List Nat) (e : Nat) (h : conns.Nodup) :
    callsFrom conns e = if conns.contains e then 1 else 0 := by
  unfold callsFrom
  induction conns with
  | nil => rfl
  | cons c rest ih =>
    have hn := List.nodup_cons.1 h
    by_cases hce : c = e
    · subst hce
      have : (rest.filter (· == c)) = [] := by
        simp only [List.filter_eq_nil_iff, beq_iff_eq]
        intro x hx hxc; subst hxc; exact hn.1 hx
      simp [this]
    · have h1 : (c == e) = false := by simpa using hce
      have h2 : (e == c) = false := by simpa using (fun h => hce h.symm)
      simp only [List.filter_cons, h1, Bool.false_eq_true, ↓reduceIte, ih hn.2, List.contains_cons, h2,
        Bool.false_or]

/-! ## Part C — macro reconfiguration of a hand-made wiring -/

/-- mirror image: an emitter lists a receiver iff the receiver lists the emitter -/
def Wiring.Mir (w : Wiring) : Prop := ∀ s r, r ∈ w.out s ↔ s ∈ w.inList r

theorem Wiring.empty_mir : Wiring.empty.Mir := by
  intro s r; simp [Wiring.empty, Wiring.inList]

theorem Wiring.mem_connect_out (w : Wiring) (s : Sig) (r : Recv) (s' : Sig) (r' : Recv) :
    r' ∈ (w.connect s r).out s' ↔ r' ∈ w.out s' ∨ (s' = s ∧ r' = r) := by
  unfold Wiring.connect
  split
  · rename_i h
    have : r ∈ w.out s := by simpa using h
    constructor
    · intro h'; exact Or.inl h'
    · rintro (h' | ⟨rfl, rfl⟩)
      · exact h'
      · exact this
  · by_cases hs : s' = s
    · subst hs; simp [updF]; grind
    · simp [updF, hs]

theorem Wiring.mem_connect_in (w : Wiring) (hm : w.Mir) (s : Sig) (r : Recv) (s' : Sig) (r' : Recv) :
    s' ∈ (w.connect s r).inList r' ↔ s' ∈ w.inList r' ∨ (s' = s ∧ r' = r) := by
  unfold Wiring.connect
  split
  · rename_i h
    have : s ∈ w.inList r := (hm s r).1 (by simpa using h)
    constructor
    · intro h'; exact Or.inl h'
    · rintro (h' | ⟨rfl, rfl⟩)
      · exact h'
      · exact this
  · obtain ⟨n, a⟩ := r
    obtain ⟨n', a'⟩ := r'
    cases a <;> cases a' <;> by_cases hn : n' = n <;> simp [Wiring.inList, updF, hn] <;> grind

theorem Wiring.connect_mir (w : Wiring) (hm : w.Mir) (s : Sig) (r : Recv) : (w.connect s r).Mir := by
  intro s' r'
  rw [Wiring.mem_connect_out, Wiring.mem_connect_in w hm, hm s' r']

theorem Wiring.connectAll_spec (L : List (Sig × Recv)) : ∀ (w : Wiring), w.Mir →
    (w.connectAll L).Mir ∧ ∀ s r, r ∈ (w.connectAll L).out s ↔ r ∈ w.out s ∨ (s, r) ∈ L := by
  induction L with
  | nil => intro w hm; exact ⟨hm, by simp [Wiring.connectAll]⟩
  | cons p rest ih =>
    intro w hm
    obtain ⟨h1, h2⟩ := ih (w.connect p.1 p.2) (Wiring.connect_mir w hm p.1 p.2)
    refine ⟨h1, ?_⟩
    intro s r
    simp only [Wiring.connectAll]
    rw [h2, Wiring.mem_connect_out]
    obtain ⟨ps, pr⟩ := p
    simp only [List.mem_cons, Prod.mk.injEq]
    grind

theorem Wiring.mem_runPairs (w : Wiring) (ch : List Nat) (s : Sig) (r : Recv) :
    (s, r) ∈ w.runPairs ch ↔ r.node ∈ ch ∧ s ∈ w.inList r := by
  induction ch with
  | nil => simp [Wiring.runPairs]
  | cons i rest ih =>
    obtain ⟨n, a⟩ := r
    simp only [Wiring.runPairs, List.mem_append, List.mem_map, Prod.mk.injEq, ih, List.mem_cons]
    cases a <;> simp [Wiring.inList] <;> grind

/-! ## Part A2 — callbacks that raise or come back to their trigger -/

theorem Acc.flags_append (lab : Nat → Label) (a : Acc) (l1 l2 : List Ev) :
    a.flags lab (l1 ++ l2) = a.flags lab l1 ++ (a.run lab l1).flags lab l2 := by
  induction l1 generalizing a with
  | nil => rfl
  | cons ev rest ih => simp [Acc.flags, Acc.run, ih]

theorem Acc.flags_length (lab : Nat → Label) (a : Acc) (l : List Ev) : (a.flags lab l).length = l.length := by
  induction l generalizing a with
  | nil => rfl
  | cons ev rest ih => simp [Acc.flags, ih]

theorem Acc.flags_get (lab : Nat → Label) (a : Acc) (hist : List Ev) (k : Nat) (hk : k < hist.length) :
    (a.flags lab hist)[k]? = some (a.firedAt lab hist k) := by
  induction hist generalizing a k with
  | nil => simp at hk
  | cons ev rest ih =>
    cases k with
    | zero => simp [Acc.flags, Acc.firedAt, Acc.before, Acc.run]
    | succ k =>
      have := ih (a.step lab ev).1 k (by simpa using hk)
      simp only [Acc.flags, List.getElem?_cons_succ, this]
      simp [Acc.firedAt, Acc.before, Acc.run]

/-- with the reset before the callback, whatever the callbacks do (return, raise, come back to the trigger, to
any depth): the trigger has simply lived through the flat history of the events that were performed -/
theorem execActs_flat (lab : Nat → Label) (n : Nat) : ∀ (a : Acc) (acts : List Act),
    (execActs true lab n a acts).acc = a.run lab (execActs true lab n a acts).evs ∧
    (execActs true lab n a acts).fires = a.flags lab (execActs true lab n a acts).evs := by
  induction n with
  | zero => intro a acts; simp [execActs, Acc.run, Acc.flags]
  | succ n ih =>
    intro a acts
    cases acts with
    | nil => simp [execActs, Acc.run, Acc.flags]
    | cons x rest =>
      obtain ⟨ev, boom, inner⟩ := x
      simp only [execActs, ↓reduceIte]
      by_cases hf : (a.step lab ev).2 = true
      · simp only [hf, ↓reduceIte]
        obtain ⟨hi1, hi2⟩ := ih (a.step lab ev).1 inner
        by_cases hr : ((execActs true lab n (a.step lab ev).1 inner).raised || boom) = true
        · simp only [hr, ↓reduceIte, Acc.run, Acc.flags, hf]
          exact ⟨hi1, by rw [hi2]⟩
        · simp only [hr, Bool.false_eq_true, ↓reduceIte, Acc.run, Acc.flags, hf]
          obtain ⟨hr1, hr2⟩ := ih (execActs true lab n (a.step lab ev).1 inner).acc rest
          rw [Acc.run_append, Acc.flags_append, ← hi1, ← hi2, ← hr1, ← hr2]
          exact ⟨rfl, rfl⟩
      · simp only [hf, Bool.false_eq_true, ↓reduceIte, Acc.run, Acc.flags]
        obtain ⟨hr1, hr2⟩ := ih (a.step lab ev).1 rest
        exact ⟨hr1, by rw [hr2]⟩

theorem execTop_flat (lab : Nat → Label) (n : Nat) (script : List Act) : ∀ (a : Acc),
    (execTop true lab n a script).acc = a.run lab (execTop true lab n a script).evs ∧
    (execTop true lab n a script).fires = a.flags lab (execTop true lab n a script).evs := by
  induction script with
  | nil => intro a; simp [execTop, Acc.run, Acc.flags]
  | cons x rest ih =>
    intro a
    obtain ⟨h1, h2⟩ := execActs_flat lab n a [x]
    obtain ⟨h3, h4⟩ := ih (execActs true lab n a [x]).acc
    simp only [execTop]
    rw [Acc.run_append, Acc.flags_append, ← h1, ← h2, ← h3, ← h4]
    exact ⟨rfl, rfl⟩

/-! ## Part D — state round trip of the connections -/

theorem mem_firingOrder (w : Wiring) (sigs : List Sig) (p : Sig × Recv) :
    p ∈ w.firingOrder sigs ↔ p.1 ∈ sigs ∧ p.2 ∈ w.out p.1 := by
  induction sigs with
  | nil => simp [Wiring.firingOrder]
  | cons u us ih =>
    obtain ⟨ps, pr⟩ := p
    simp only [Wiring.firingOrder, List.mem_append, List.mem_map, Prod.mk.injEq, ih, List.mem_cons]
    constructor
    · rintro (⟨r, hr, rfl, rfl⟩ | ⟨h1, h2⟩)
      · exact ⟨Or.inl rfl, hr⟩
      · exact ⟨Or.inr h1, h2⟩
    · rintro ⟨rfl | h1, h2⟩
      · exact Or.inl ⟨pr, h2, rfl, rfl⟩
      · exact Or.inr ⟨h1, h2⟩

theorem savedFor_firingOrder (w : Wiring) (sigs : List Sig) (hn : sigs.Nodup) (s : Sig) (hs : s ∈ sigs) :
    savedFor (w.firingOrder sigs) s = w.out s := by
  induction sigs with
  | nil => simp at hs
  | cons t rest ih =>
    have hn' := List.nodup_cons.1 hn
    simp only [Wiring.firingOrder, savedFor, List.filter_append, List.map_append]
    by_cases hts : t = s
    · subst hts
      have h1 : ((w.out t).map (fun r => (t, r))).filter (fun p => p.1 == t) = (w.out t).map (fun r => (t, r)) := by
        apply List.filter_eq_self.2
        intro p hp
        obtain ⟨r, _, rfl⟩ := List.mem_map.1 hp
        simp
      have h2 : (w.firingOrder rest).filter (fun p => p.1 == t) = [] := by
        apply List.filter_eq_nil_iff.2
        intro p hp he
        have h3 : p.1 = t := by simpa using he
        exact hn'.1 (h3 ▸ ((mem_firingOrder w rest p).1 hp).1)
      rw [h1, h2]
      simp only [List.map_map, List.map_nil, List.append_nil]
      simp [Function.comp_def]
    · have hs' : s ∈ rest := by
        rcases List.mem_cons.1 hs with h | h
        · exact absurd h.symm hts
        · exact h
      have h1 : ((w.out t).map (fun r => (t, r))).filter (fun p => p.1 == s) = [] := by
        apply List.filter_eq_nil_iff.2
        intro p hp
        obtain ⟨r, _, rfl⟩ := List.mem_map.1 hp
        simp [hts]
      rw [h1]
      simpa [savedFor] using ih hn'.2 hs'

theorem reorder_same (saved cur : List Recv) (h1 : ∀ r, r ∈ saved ↔ r ∈ cur) : reorder saved cur = saved := by
  unfold reorder
  have a : saved.filter (fun r => cur.contains r) = saved :=
    List.filter_eq_self.2 (fun r hr => by simpa using (h1 r).1 hr)
  have b : cur.filter (fun r => !saved.contains r) = [] :=
    List.filter_eq_nil_iff.2 (fun r hr => by simpa using (h1 r).2 hr)
  rw [a, b, List.append_nil]


theorem roundtrip_w1 (w : Wiring) (hm : w.Mir) (children : List Nat)
    (hc : ∀ s r, r ∈ w.out s → r.node ∈ children) :
    (Wiring.empty.connectAll (w.runPairs children).reverse).Mir ∧
    ∀ s r, r ∈ (Wiring.empty.connectAll (w.runPairs children).reverse).out s ↔ r ∈ w.out s := by
  obtain ⟨h1, h2⟩ := Wiring.connectAll_spec (w.runPairs children).reverse Wiring.empty Wiring.empty_mir
  refine ⟨h1, fun s r => ?_⟩
  rw [h2, List.mem_reverse, Wiring.mem_runPairs, ← hm s r]
  simp only [Wiring.empty, List.not_mem_nil, false_or]
  exact ⟨fun h => h.2, fun h => ⟨hc s r h, h⟩⟩

/-- the round trip as it is gives every emitter its list back, in order, and every receiver the same set of emitters -/
theorem roundtrip_spec (w : Wiring) (hm : w.Mir) (children : List Nat) (sigs : List Sig) (hn : sigs.Nodup)
    (hc : ∀ s r, r ∈ w.out s → r.node ∈ children ∧ s ∈ sigs) :
    (∀ s, (w.roundtrip false children sigs).out s = w.out s) ∧
    (∀ r s, s ∈ (w.roundtrip false children sigs).inList r ↔ s ∈ w.inList r) := by
  obtain ⟨hm1, hmem⟩ := roundtrip_w1 w hm children (fun s r h => (hc s r h).1)
  constructor
  · intro s
    simp only [Wiring.roundtrip, Bool.false_eq_true, ↓reduceIte]
    by_cases hs : s ∈ sigs
    · have : sigs.contains s = true := by simpa using hs
      simp only [this, ↓reduceIte]
      rw [savedFor_firingOrder w sigs hn s hs]
      exact reorder_same _ _ (fun r => (hmem s r).symm)
    · have : sigs.contains s = false := by simpa using hs
      simp only [this, Bool.false_eq_true, ↓reduceIte]
      have e1 : w.out s = [] := List.eq_nil_iff_forall_not_mem.2 (fun r hr => hs (hc s r hr).2)
      rw [e1]
      exact List.eq_nil_iff_forall_not_mem.2 (fun r hr => by
        have := (hmem s r).1 hr
        rw [e1] at this
        cases this)
  · intro r s
    have : (w.roundtrip false children sigs).inList r = (Wiring.empty.connectAll (w.runPairs children).reverse).inList r := by
      simp [Wiring.roundtrip, Wiring.inList]
    rw [this, ← hm1 s r, hmem s r, hm s r]

/-! ## Part E — edits: pull and replace_child -/

theorem pull_spec (w : Wiring) (tree : List Nat) :
    (∀ s, (w.pull true tree).out s = w.out s) ∧ (∀ r, (w.pull true tree).runIn r = w.runIn r) ∧
    (∀ r, (w.pull true tree).accIn r = w.accIn r) := by
  have key : ∀ (r : Nat) (l : List Sig), (if savedIn true tree r l = true then l
      else if tree.contains r = true then [] else l.filter (fun s => !cutSig tree s)) = l := by
    intro r l
    by_cases hs : savedIn true tree r l = true
    · simp [hs]
    · simp only [hs, Bool.false_eq_true, ↓reduceIte]
      simp only [savedIn, Bool.true_and, Bool.or_eq_true, not_or, Bool.not_eq_true] at hs
      simp only [hs.1, Bool.false_eq_true, ↓reduceIte]
      apply List.filter_eq_self.2
      intro s hsm
      have h2 := hs.2
      rw [List.any_eq_false] at h2
      have := h2 s hsm
      simp only [cutSig, Bool.not_eq_eq_eq_not, Bool.not_true, Bool.and_eq_false_imp]
      intro h; exact absurd h this
  refine ⟨?_, ?_, ?_⟩
  · intro s
    simp only [Wiring.pull, Wiring.cut]
    by_cases hs : savedOut true w tree s = true
    · simp [hs]
    · simp only [hs, Bool.false_eq_true, ↓reduceIte]
      simp only [savedOut, Bool.true_and, Bool.or_eq_true, not_or, Bool.not_eq_true] at hs
      have hc : cutSig tree s = false := by simp only [cutSig, hs.1, Bool.false_and]
      simp only [hc, Bool.false_eq_true, ↓reduceIte]
      apply List.filter_eq_self.2
      intro r hr
      have h2 := hs.2
      rw [List.any_eq_false] at h2
      simpa using h2 r hr
  · intro r; exact key r (w.runIn r)
  · intro r; exact key r (w.accIn r)

theorem renSig_node (i j : Nat) (s : Sig) (h : sigNode s = i) : sigNode (renSig i j s) = j ∧ sigChan (renSig i j s) = sigChan s := by
  have h' : s / 4 = i := h
  simp only [renSig, sigNode, sigChan, h', ↓reduceIte]
  constructor <;> omega

theorem sig_decomp (s : Sig) : 4 * sigNode s + sigChan s = s := by
  simp only [sigNode, sigChan]; omega

theorem replace_spec (w : Wiring) (i j : Nat) (hij : i ≠ j)
    (hself : ∀ s r, sigNode s = i → r ∈ w.out s → r.node ≠ i)
    (hselfIn : ∀ s, (s ∈ w.runIn i ∨ s ∈ w.accIn i) → sigNode s ≠ i) :
    (∀ s, sigNode s ≠ j → (w.replace false i j).out (renSig i j s) = (w.out s).map (renRecv i j)) ∧
    (∀ r, r ≠ j → (w.replace false i j).runIn (if r = i then j else r) = (w.runIn r).map (renSig i j)) ∧
    (∀ r, r ≠ j → (w.replace false i j).accIn (if r = i then j else r) = (w.accIn r).map (renSig i j)) := by
  have idRecv : ∀ s, sigNode s = i → (w.out s).map (renRecv i j) = w.out s := by
    intro s hs
    conv => rhs; rw [← List.map_id (w.out s)]
    apply List.map_congr_left
    intro r hr
    have := hself s r hs hr
    simp [renRecv, this]
  have idSig : ∀ l : List Sig, (∀ s ∈ l, sigNode s ≠ i) → l.map (renSig i j) = l := by
    intro l hl
    conv => rhs; rw [← List.map_id l]
    apply List.map_congr_left
    intro s hs
    simp [renSig, hl s hs]
  refine ⟨?_, ?_, ?_⟩
  · intro s hsj
    by_cases hsi : sigNode s = i
    · obtain ⟨h1, h2⟩ := renSig_node i j s hsi
      simp only [Wiring.replace, h1, ↓reduceIte, h2, Bool.false_eq_true]
      have : 4 * i + sigChan s = s := by rw [← hsi]; exact sig_decomp s
      rw [this, idRecv s hsi]
    · have : renSig i j s = s := by simp [renSig, hsi]
      simp only [Wiring.replace, this, hsj, hsi, ↓reduceIte]
  · intro r hrj
    by_cases hri : r = i
    · subst hri
      simp only [Wiring.replace, ↓reduceIte, Bool.false_eq_true]
      exact (idSig _ (fun s hs => hselfIn s (Or.inl hs))).symm
    · simp only [hri, ↓reduceIte, Wiring.replace, hrj]
  · intro r hrj
    by_cases hri : r = i
    · subst hri
      simp only [Wiring.replace, ↓reduceIte, Bool.false_eq_true]
      exact (idSig _ (fun s hs => hselfIn s (Or.inr hs))).symm
    · simp only [hri, ↓reduceIte, Wiring.replace, hrj]

end PwVerif.Signal
