import PwVerif.Model.Kinds
import PwVerif.Proofs.FuncWrap
/-! Lemmas for the parameter-kind slice of C17 (`Model/Kinds.lean`). -/
namespace PwVerif.Kinds
open PwVerif PwVerif.FuncWrap

def noVariadic (ps : List KParam) : Prop := ∀ p ∈ ps, p.kind.variadic = false

theorem sigOf_names (ps : List KParam) : (sigOf ps).map (·.name) = ps.map (·.name) := by
  simp [sigOf, Function.comp_def]

theorem eraseKey_notin (kw : List (String × Val)) (n : String) (h : ∀ q ∈ kw, q.1 ≠ n) : eraseKey kw n = kw := by
  unfold eraseKey
  rw [List.filter_eq_self]
  intro q hq
  simpa using h q hq

theorem lookup_notin (kw : List (String × Val)) (n : String) (h : ∀ q ∈ kw, q.1 ≠ n) : kw.lookup n = none := by
  induction kw with
  | nil => rfl
  | cons q r ih =>
    obtain ⟨k, v⟩ := q
    have hk : k ≠ n := h (k, v) (by simp)
    have : (n == k) = false := by simp [Ne.symm hk]
    simp only [List.lookup_cons, this]
    exact ih fun q hq => h q (List.mem_cons_of_mem _ hq)

theorem hasKey_notin (kw : List (String × Val)) (n : String) (h : ∀ q ∈ kw, q.1 ≠ n) : hasKey kw n = false := by
  simp only [hasKey, List.any_eq_false, beq_iff_eq]
  intro q hq
  exact h q hq

/-- every keyword Python's binder accepts names a parameter that can take keywords -/
theorem pyBindPartialK_keys (ps : List KParam) (args : List Val) (kw : List (String × Val))
    (b : List (String × Option Val)) (h : pyBindPartialK ps args kw = .ok b) :
    ∀ q ∈ kw, ∃ p ∈ ps, p.name = q.1 ∧ p.kind ≠ .posOnly := by
  induction ps generalizing args kw b with
  | nil =>
    cases args with
    | nil =>
      simp only [pyBindPartialK] at h
      split at h
      · intro q hq; simp_all
      · cases h
    | cons a as => simp [pyBindPartialK] at h
  | cons p ps ih =>
    cases args with
    | nil =>
      simp only [pyBindPartialK] at h
      cases hk : p.kind <;> simp only [hk] at h
      case posOnly =>
        cases hr : pyBindPartialK ps [] kw with
        | error e => simp [hr, Except.map] at h
        | ok r =>
          intro q hq
          obtain ⟨p', hp', h1, h2⟩ := ih [] kw r hr q hq
          exact ⟨p', List.mem_cons_of_mem _ hp', h1, h2⟩
      all_goals
        cases hr : pyBindPartialK ps [] (eraseKey kw p.name) with
        | error e => simp [hr, Except.map] at h
        | ok r =>
          intro q hq
          by_cases hq1 : q.1 = p.name
          · exact ⟨p, by simp, hq1.symm, by simp [hk]⟩
          · have : q ∈ eraseKey kw p.name := by simp [eraseKey, hq, hq1]
            obtain ⟨p', hp', h1, h2⟩ := ih [] _ r hr q this
            exact ⟨p', List.mem_cons_of_mem _ hp', h1, h2⟩
    | cons a as =>
      simp only [pyBindPartialK] at h
      cases hk : p.kind <;> simp only [hk] at h
      case posOnly =>
        cases hr : pyBindPartialK ps as kw with
        | error e => simp [hr, Except.map] at h
        | ok r =>
          intro q hq
          obtain ⟨p', hp', h1, h2⟩ := ih as kw r hr q hq
          exact ⟨p', List.mem_cons_of_mem _ hp', h1, h2⟩
      case posOrKw =>
        split at h
        · cases h
        · cases hr : pyBindPartialK ps as kw with
          | error e => simp [hr, Except.map] at h
          | ok r =>
            intro q hq
            obtain ⟨p', hp', h1, h2⟩ := ih as kw r hr q hq
            exact ⟨p', List.mem_cons_of_mem _ hp', h1, h2⟩
      all_goals cases h

/-- **the node's binder accepts whatever Python's kind-aware binder accepts, with the same binding** -/
theorem pyBindPartialK_plain (ps : List KParam) (args : List Val) (kw : List (String × Val))
    (b : List (String × Option Val)) (hnd : (ps.map (·.name)).Nodup)
    (h : pyBindPartialK ps args kw = .ok b) :
    pyBindPartial (ps.map (·.name)) args kw = .ok b := by
  induction ps generalizing args kw b with
  | nil =>
    cases args with
    | nil => simpa [pyBindPartialK, pyBindPartial] using h
    | cons a as => simp [pyBindPartialK] at h
  | cons p ps ih =>
    have hn : p.name ∉ ps.map (·.name) := (List.nodup_cons.mp hnd).1
    have hns := (List.nodup_cons.mp hnd).2
    -- a keyword accepted for the rest of the parameters is not called like `p`
    have notp : ∀ (as : List Val) (kw' : List (String × Val)) r, pyBindPartialK ps as kw' = .ok r →
        ∀ q ∈ kw', q.1 ≠ p.name := by
      intro as kw' r hr q hq e
      obtain ⟨p', hp', h1, _⟩ := pyBindPartialK_keys ps as kw' r hr q hq
      exact hn (by rw [← e, ← h1]; exact List.mem_map_of_mem hp')
    cases args with
    | nil =>
      simp only [pyBindPartialK] at h
      simp only [List.map_cons, pyBindPartial]
      cases hk : p.kind <;> simp only [hk] at h
      case posOnly =>
        cases hr : pyBindPartialK ps [] kw with
        | error e => simp [hr, Except.map] at h
        | ok r =>
          simp only [hr, Except.map, Except.ok.injEq] at h
          have hno := notp [] kw r hr
          rw [eraseKey_notin kw p.name hno, lookup_notin kw p.name hno, ih [] kw r hns hr]
          simp [Except.map, h]
      all_goals
        cases hr : pyBindPartialK ps [] (eraseKey kw p.name) with
        | error e => simp [hr, Except.map] at h
        | ok r =>
          simp only [hr, Except.map, Except.ok.injEq] at h
          rw [ih [] _ r hns hr]
          simp [Except.map, h]
    | cons a as =>
      simp only [pyBindPartialK] at h
      simp only [List.map_cons, pyBindPartial]
      cases hk : p.kind <;> simp only [hk] at h
      case posOnly =>
        cases hr : pyBindPartialK ps as kw with
        | error e => simp [hr, Except.map] at h
        | ok r =>
          simp only [hr, Except.map, Except.ok.injEq] at h
          rw [hasKey_notin kw p.name (notp as kw r hr), ih as kw r hns hr]
          simp [Except.map, h]
      case posOrKw =>
        split at h
        · cases h
        · rename_i hh
          cases hr : pyBindPartialK ps as kw with
          | error e => simp [hr, Except.map] at h
          | ok r =>
            simp only [hr, Except.map, Except.ok.injEq] at h
            simp only [hh]
            rw [ih as kw r hns hr]
            simp [Except.map, h]
      all_goals cases h

theorem pyArgsK_plain (ps : List KParam) (a1 : List Val) (k1 : List (String × Val)) (a2 : List Val)
    (k2 : List (String × Val)) (hnd : (ps.map (·.name)).Nodup) (vs : List Val)
    (h : pyArgsK ps a1 k1 a2 k2 = .ok vs) : pyArgs (sigOf ps) a1 k1 a2 k2 = .ok vs := by
  unfold pyArgsK at h
  unfold pyArgs
  rw [sigOf_names]
  cases h1 : pyBindPartialK ps a1 k1 with
  | error e => simp [h1] at h
  | ok b1 =>
    cases h2 : pyBindPartialK ps a2 k2 with
    | error e => simp [h1, h2] at h
    | ok b2 =>
      simp only [h1, h2] at h
      rw [pyBindPartialK_plain ps a1 k1 b1 hnd h1, pyBindPartialK_plain ps a2 k2 b2 hnd h2]
      exact h

/-- the keywords of a call Python's binder accepts are names of parameters -/
theorem pyArgsK_keys (ps : List KParam) (a1 : List Val) (k1 : List (String × Val)) (a2 : List Val)
    (k2 : List (String × Val)) (vs : List Val) (h : pyArgsK ps a1 k1 a2 k2 = .ok vs) :
    ∀ q ∈ k2, ∃ p ∈ ps, p.name = q.1 := by
  unfold pyArgsK at h
  cases h1 : pyBindPartialK ps a1 k1 with
  | error e => simp [h1] at h
  | ok b1 =>
    cases h2 : pyBindPartialK ps a2 k2 with
    | error e => simp [h1, h2] at h
    | ok b2 =>
      intro q hq
      obtain ⟨p, hp, hn, _⟩ := pyBindPartialK_keys ps a2 k2 b2 h2 q hq
      exact ⟨p, hp, hn⟩

/-- keywords that are names of parameters none of which is called like a keyword of `Node.run` pass through
`__call__ → pull → run` untouched -/
theorem runKeywords_pass (ps : List KParam) (kw : List (String × Val))
    (hk : ∀ q ∈ kw, ∃ p ∈ ps, p.name = q.1) (hrun : ∀ p ∈ ps, runKeywords.contains p.name = false) :
    kw.any (fun q => runFlagsClash.contains q.1) = false ∧ kw.filter (fun q => q.1 != runFlagSilent) = kw := by
  have key : ∀ q ∈ kw, runFlagsClash.contains q.1 = false ∧ q.1 ≠ runFlagSilent := by
    intro q hq
    obtain ⟨p, hp, hn⟩ := hk q hq
    have := hrun p hp
    rw [hn] at this
    simp only [runKeywords, List.contains_cons, Bool.or_eq_false_iff, beq_eq_false_iff_ne] at this
    exact ⟨this.2, this.1⟩
  refine ⟨?_, ?_⟩
  · simp only [List.any_eq_false]
    intro q hq
    rw [(key q hq).1]
    simp
  · rw [List.filter_eq_self]
    intro q hq
    simpa using (key q hq).2

end PwVerif.Kinds
