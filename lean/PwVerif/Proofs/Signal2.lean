import PwVerif.Model.Signal2
import PwVerif.Proofs.Signal
/-! Simulation between two instances of the two-composite machine that differ only in their all-of trigger. -/
namespace PwVerif.Signal
open PwVerif

variable {σ μ₁ μ₂ : Type}

/-- everything equal except the trigger memories, which are related child by child -/
structure Sim (R : Nat → μ₁ → μ₂ → Prop) (s : S2 σ μ₁) (q : S2 σ μ₂) : Prop where
  store : s.store = q.store
  mem : ∀ r, R r (s.mem r) (q.mem r)
  q0 : s.q0 = q.q0
  q1 : s.q1 = q.q1
  running1 : s.running1 = q.running1
  mFailed : s.mFailed = q.mFailed
  errs1 : s.errs1 = q.errs1
  errs0 : s.errs0 = q.errs0
  fired : s.fired = q.fired

theorem resetMem_rel (T1 : Trig μ₁) (T2 : Trig μ₂) (R : Nat → μ₁ → μ₂ → Prop) (hE : ∀ r, R r T1.empty T2.empty)
    (l : List Nat) : ∀ (m1 : Nat → μ₁) (m2 : Nat → μ₂), (∀ r, R r (m1 r) (m2 r)) →
      ∀ r, R r (resetMem T1 m1 l r) (resetMem T2 m2 l r) := by
  induction l with
  | nil => intro m1 m2 h; exact h
  | cons i rest ih =>
    intro m1 m2 h
    apply ih
    intro r
    by_cases hr : r = i <;> simp [updF, hr, hE, h r]

/-- the six statements, for one amount of fuel -/
def SimAt (T1 : Trig μ₁) (T2 : Trig μ₂) (sem : Sem σ) (w : Two) (R : Nat → μ₁ → μ₂ → Prop) (n : Nat) : Prop :=
  (∀ s q i, Sim R s q → Sim R (runChild T1 sem w n s i).1 (runChild T2 sem w n q i).1 ∧
      (runChild T1 sem w n s i).2 = (runChild T2 sem w n q i).2) ∧
  (∀ s q l, Sim R s q → Sim R (serveAll T1 sem w n s l).1 (serveAll T2 sem w n q l).1 ∧
      (serveAll T1 sem w n s l).2 = (serveAll T2 sem w n q l).2) ∧
  (∀ s q e r, Sim R s q → Sim R (serve T1 sem w n s e r).1 (serve T2 sem w n q e r).1 ∧
      (serve T1 sem w n s e r).2 = (serve T2 sem w n q e r).2) ∧
  (∀ s q, Sim R s q → Sim R (runMacro T1 sem w n s).1 (runMacro T2 sem w n q).1 ∧
      (runMacro T1 sem w n s).2 = (runMacro T2 sem w n q).2) ∧
  (∀ s q l, Sim R s q → Sim R (startM T1 sem w n s l) (startM T2 sem w n q l)) ∧
  (∀ s q, Sim R s q → Sim R (drainM T1 sem w n s) (drainM T2 sem w n q))

theorem sim_zero (T1 : Trig μ₁) (T2 : Trig μ₂) (sem : Sem σ) (w : Two) (R : Nat → μ₁ → μ₂ → Prop) :
    SimAt T1 T2 sem w R 0 := by
  refine ⟨?_, ?_, ?_, ?_, ?_, ?_⟩ <;> intros <;> simp [runChild, serveAll, serve, runMacro, startM, drainM] <;> assumption

theorem sim_succ (T1 : Trig μ₁) (T2 : Trig μ₂) (sem : Sem σ) (w : Two) (R : Nat → μ₁ → μ₂ → Prop)
    (hE : ∀ r, R r T1.empty T2.empty)
    (hH : ∀ r e a b, ({ node := r, acc := true } : Recv) ∈ w.g.conns e → R r a b →
      (T1.hear w.g r a e).2 = (T2.hear w.g r b e).2 ∧ R r (T1.hear w.g r a e).1 (T2.hear w.g r b e).1)
    (n : Nat) (ih : SimAt T1 T2 sem w R n) : SimAt T1 T2 sem w R (n + 1) := by
  obtain ⟨ihC, ihA, ihS, ihM, ihSt, ihD⟩ := ih
  refine ⟨?_, ?_, ?_, ?_, ?_, ?_⟩
  · -- runChild
    intro s q i h
    have hf : Sim R { s with fired := s.fired ++ [i] } { q with fired := q.fired ++ [i] } :=
      ⟨h.store, h.mem, h.q0, h.q1, h.running1, h.mFailed, h.errs1, h.errs0, by simp [h.fired]⟩
    simp only [runChild]
    by_cases hm : i = w.macroNode
    · simp only [hm, ↓reduceIte]
      have := ihM _ _ (hm ▸ hf)
      simpa [hm] using this
    · simp only [hm, ↓reduceIte]
      have hst : s.store = q.store := h.store
      rw [hst]
      by_cases ho : w.owner i = 0
      · simp only [ho, ↓reduceIte]
        exact ⟨⟨rfl, h.mem, by simp [h.q0], h.q1, h.running1, h.mFailed, h.errs1, h.errs0, by simp [h.fired]⟩, by trivial⟩
      · simp only [ho, ↓reduceIte]
        have hr : s.running1 = q.running1 := h.running1
        by_cases hrun : q.running1 = true
        · simp only [hr, hrun, ↓reduceIte]
          exact ⟨⟨rfl, h.mem, h.q0, by simp [h.q1], by trivial, h.mFailed, h.errs1, h.errs0, by simp [h.fired]⟩, by trivial⟩
        · simp only [hr, hrun, Bool.false_eq_true, ↓reduceIte]
          have hs1 : Sim R { s with fired := s.fired ++ [i], store := (sem.react q.store i).1, running1 := false }
              { q with fired := q.fired ++ [i], store := (sem.react q.store i).1, running1 := false } :=
            ⟨rfl, h.mem, h.q0, h.q1, rfl, h.mFailed, h.errs1, h.errs0, by simp [h.fired]⟩
          obtain ⟨a1, a2⟩ := ihA _ _ (pairs w.g (sem.react q.store i).2.2) hs1
          exact ⟨a1, congrArg (fun b => (sem.react q.store i).2.1 || b) a2⟩
  · -- serveAll
    intro s q l h
    cases l with
    | nil => simp only [serveAll]; exact ⟨h, by trivial⟩
    | cons p rest =>
      obtain ⟨e, r⟩ := p
      simp only [serveAll]
      obtain ⟨b1, b2⟩ := ihS s q e r h
      rw [b2]
      by_cases hr : (serve T2 sem w n q e r).2 = true
      · simp only [hr, ↓reduceIte]; exact ⟨b1, by trivial⟩
      · simp only [hr, Bool.false_eq_true, ↓reduceIte]; exact ihA _ _ rest b1
  · -- serve
    intro s q e r h
    simp only [serve]
    by_cases ha : r.acc = true
    · simp only [ha, ↓reduceIte]
      by_cases hc : (w.g.conns e).contains r = true
      · simp only [hc, ↓reduceIte]
        have hmem : ({ node := r.node, acc := true } : Recv) ∈ w.g.conns e := by
          have : r ∈ w.g.conns e := by simpa using hc
          obtain ⟨rn, ra⟩ := r
          simp only at ha
          subst ha
          exact this
        obtain ⟨c1, c2⟩ := hH r.node e (s.mem r.node) (q.mem r.node) hmem (h.mem r.node)
        have hs1 : Sim R { s with mem := updF s.mem r.node (T1.hear w.g r.node (s.mem r.node) e).1 }
            { q with mem := updF q.mem r.node (T2.hear w.g r.node (q.mem r.node) e).1 } :=
          ⟨h.store, by
            intro x
            by_cases hx : x = r.node
            · subst hx; simpa [updF] using c2
            · simpa [updF, hx] using h.mem x, h.q0, h.q1, h.running1, h.mFailed, h.errs1, h.errs0, h.fired⟩
        rw [c1]
        by_cases hfire : (T2.hear w.g r.node (q.mem r.node) e).2 = true
        · simp only [hfire, ↓reduceIte]; exact ihC _ _ r.node hs1
        · simp only [hfire, Bool.false_eq_true, ↓reduceIte]; exact ⟨hs1, by trivial⟩
      · simp only [hc, Bool.false_eq_true, ↓reduceIte]; exact ⟨h, by trivial⟩
    · simp only [ha, Bool.false_eq_true, ↓reduceIte]; exact ihC s q r.node h
  · -- runMacro
    intro s q h
    simp only [runMacro]
    have e1 : s.mFailed = q.mFailed := h.mFailed
    have e2 : s.running1 = q.running1 := h.running1
    have hbb : (s.mFailed || s.running1) = (q.mFailed || q.running1) := by rw [e1, e2]
    by_cases hb : (q.mFailed || q.running1) = true
    · have hbs : (s.mFailed || s.running1) = true := hbb ▸ hb
      simp only [hb, hbs, ↓reduceIte]; exact ⟨h, by trivial⟩
    · have hbs : ¬ (s.mFailed || s.running1) = true := hbb ▸ hb
      simp only [hb, hbs, Bool.false_eq_true, ↓reduceIte]
      have hs1 : Sim R { s with running1 := true, q1 := [], errs1 := [], mem := resetMem T1 s.mem w.mChildren }
          { q with running1 := true, q1 := [], errs1 := [], mem := resetMem T2 q.mem w.mChildren } :=
        ⟨h.store, resetMem_rel T1 T2 R hE w.mChildren _ _ h.mem, h.q0, rfl, rfl, h.mFailed, rfl, h.errs0, h.fired⟩
      have hs2 := ihSt _ _ w.mStarters hs1
      have hs3 := ihD _ _ hs2
      have he : (drainM T1 sem w n (startM T1 sem w n { s with running1 := true, q1 := [], errs1 := [], mem := resetMem T1 s.mem w.mChildren } w.mStarters)).errs1
          = (drainM T2 sem w n (startM T2 sem w n { q with running1 := true, q1 := [], errs1 := [], mem := resetMem T2 q.mem w.mChildren } w.mStarters)).errs1 := hs3.errs1
      exact ⟨⟨hs3.store, hs3.mem, by simp only [hs3.q0, he], hs3.q1, rfl, by simp only [he], hs3.errs1, hs3.errs0, hs3.fired⟩,
        by simp only [he]⟩
  · -- startM
    intro s q l h
    cases l with
    | nil => simp only [startM]; exact h
    | cons i rest =>
      simp only [startM]
      obtain ⟨d1, d2⟩ := ihC s q i h
      rw [d2]
      apply ihSt
      by_cases hr : (runChild T2 sem w n q i).2 = true
      · simp only [hr, ↓reduceIte]
        exact ⟨d1.store, d1.mem, d1.q0, d1.q1, d1.running1, d1.mFailed, by simp [d1.errs1], d1.errs0, d1.fired⟩
      · simp only [hr, Bool.false_eq_true, ↓reduceIte]; exact d1
  · -- drainM
    intro s q h
    simp only [drainM]
    have hq : s.q1 = q.q1 := h.q1
    rw [hq]
    cases hq1 : q.q1 with
    | nil => exact h
    | cons p rest =>
      obtain ⟨e, r⟩ := p
      simp only
      have hs1 : Sim R { s with q1 := rest } { q with q1 := rest } :=
        ⟨h.store, h.mem, h.q0, rfl, h.running1, h.mFailed, h.errs1, h.errs0, h.fired⟩
      obtain ⟨d1, d2⟩ := ihS _ _ e r hs1
      rw [d2]
      apply ihD
      by_cases hr : (serve T2 sem w n { q with q1 := rest } e r).2 = true
      · simp only [hr, ↓reduceIte]
        exact ⟨d1.store, d1.mem, d1.q0, d1.q1, d1.running1, d1.mFailed, by simp [d1.errs1], d1.errs0, d1.fired⟩
      · simp only [hr, Bool.false_eq_true, ↓reduceIte]; exact d1

theorem sim_all (T1 : Trig μ₁) (T2 : Trig μ₂) (sem : Sem σ) (w : Two) (R : Nat → μ₁ → μ₂ → Prop)
    (hE : ∀ r, R r T1.empty T2.empty)
    (hH : ∀ r e a b, ({ node := r, acc := true } : Recv) ∈ w.g.conns e → R r a b →
      (T1.hear w.g r a e).2 = (T2.hear w.g r b e).2 ∧ R r (T1.hear w.g r a e).1 (T2.hear w.g r b e).1) :
    ∀ n, SimAt T1 T2 sem w R n := by
  intro n
  induction n with
  | zero => exact sim_zero T1 T2 sem w R
  | succ n ih => exact sim_succ T1 T2 sem w R hE hH n ih

/-! ### the library's trigger (labels) against the plain interpreter's (identities) -/

/-- what a label memory and an identity memory of child `r` have in common -/
def MemRel (g : Graph) (r : Nat) (rec : List Label) (seen : List Sig) : Prop :=
  (∀ l, l ∈ rec ↔ ∃ s, s ∈ seen ∧ g.lab s = l) ∧ (∀ s, s ∈ seen → s ∈ g.accConns r)

theorem memRel_empty (g : Graph) (r : Nat) : MemRel g r labelTrig.empty identTrig.empty := by
  constructor <;> simp [labelTrig, identTrig]

theorem memRel_hear (g : Graph) (wf : WF g) (r : Nat) (e : Sig) (rec : List Label) (seen : List Sig)
    (he : ({ node := r, acc := true } : Recv) ∈ g.conns e) (h : MemRel g r rec seen) :
    (labelTrig.hear g r rec e).2 = (identTrig.hear g r seen e).2 ∧
      MemRel g r (labelTrig.hear g r rec e).1 (identTrig.hear g r seen e).1 := by
  have hag := fire_agree wf r e rec seen he h.1 h.2
  have hea : e ∈ g.accConns r := (wf.mirror r e).2 ⟨wf.cover e _ he, he⟩
  simp only [labelTrig, identTrig, Acc.call]
  by_cases hc : covered g.lab (g.accConns r) (insertL (g.lab e) rec) = true
  · have hc' := hc
    rw [hag] at hc'
    simp only [hc, hc', ↓reduceIte]
    exact ⟨trivial, by constructor <;> simp⟩
  · have hc' := hc
    rw [hag] at hc'
    simp only [hc, hc', Bool.false_eq_true, ↓reduceIte]
    refine ⟨trivial, ?_, ?_⟩
    · intro l
      rw [mem_insertL, h.1 l]
      constructor
      · rintro (rfl | ⟨s, hs, hl⟩)
        · exact ⟨e, List.mem_cons_self, rfl⟩
        · exact ⟨s, List.mem_cons_of_mem _ hs, hl⟩
      · rintro ⟨s, hs, hl⟩
        rcases List.mem_cons.1 hs with rfl | hs'
        · exact Or.inl hl.symm
        · exact Or.inr ⟨s, hs', hl⟩
    · intro s hs
      rcases List.mem_cons.1 hs with rfl | hs'
      · exact hea
      · exact h.2 s hs'

theorem startW_sim (T1 : Trig μ₁) (T2 : Trig μ₂) (sem : Sem σ) (w : Two) (R : Nat → μ₁ → μ₂ → Prop)
    (fuel : Nat) (hs : SimAt T1 T2 sem w R fuel) (l : List Nat) :
    ∀ s q, Sim R s q → Sim R (startW T1 sem w fuel s l) (startW T2 sem w fuel q l) := by
  induction l with
  | nil => intro s q h; exact h
  | cons i rest ih =>
    intro s q h
    simp only [startW]
    obtain ⟨d1, d2⟩ := hs.1 s q i h
    rw [d2]
    apply ih
    by_cases hr : (runChild T2 sem w fuel q i).2 = true
    · simp only [hr, ↓reduceIte]
      exact ⟨d1.store, d1.mem, d1.q0, d1.q1, d1.running1, d1.mFailed, d1.errs1, by simp [d1.errs0], d1.fired⟩
    · simp only [hr, Bool.false_eq_true, ↓reduceIte]; exact d1

theorem drainW_sim (T1 : Trig μ₁) (T2 : Trig μ₂) (sem : Sem σ) (w : Two) (R : Nat → μ₁ → μ₂ → Prop)
    (fuel : Nat) (hs : SimAt T1 T2 sem w R fuel) (k : Nat) :
    ∀ s q, Sim R s q → Sim R (drainW T1 sem w fuel k s) (drainW T2 sem w fuel k q) := by
  induction k with
  | zero => intro s q h; exact h
  | succ k ih =>
    intro s q h
    simp only [drainW]
    have hq : s.q0 = q.q0 := h.q0
    rw [hq]
    cases hq0 : q.q0 with
    | nil => exact h
    | cons p rest =>
      obtain ⟨e, r⟩ := p
      simp only
      have hs1 : Sim R { s with q0 := rest } { q with q0 := rest } :=
        ⟨h.store, h.mem, rfl, h.q1, h.running1, h.mFailed, h.errs1, h.errs0, h.fired⟩
      obtain ⟨d1, d2⟩ := hs.2.2.1 _ _ e r hs1
      rw [d2]
      apply ih
      by_cases hr : (serve T2 sem w fuel { q with q0 := rest } e r).2 = true
      · simp only [hr, ↓reduceIte]
        exact ⟨d1.store, d1.mem, d1.q0, d1.q1, d1.running1, d1.mFailed, d1.errs1, by simp [d1.errs0], d1.fired⟩
      · simp only [hr, Bool.false_eq_true, ↓reduceIte]; exact d1

theorem runTwo_sim (sem : Sem σ) (w : Two) (wf : WF w.g) (fuel steps : Nat) (st : σ) :
    Sim (MemRel w.g) (runTwo labelTrig sem w fuel steps st) (runTwo identTrig sem w fuel steps st) := by
  have hs := sim_all labelTrig identTrig sem w (MemRel w.g) (memRel_empty w.g)
    (fun r e a b he h => memRel_hear w.g wf r e a b he h) fuel
  apply drainW_sim _ _ _ _ _ _ hs
  apply startW_sim _ _ _ _ _ _ hs
  exact ⟨rfl, fun r => memRel_empty w.g r, rfl, rfl, rfl, rfl, rfl, rfl, rfl⟩

end PwVerif.Signal
