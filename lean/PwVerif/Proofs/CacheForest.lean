import PwVerif.Model.CacheForest
import PwVerif.Proofs.CacheTree
namespace PwVerif.CacheForest
open PwVerif.CacheTree (T Src K KCfg Sem lookup keyKids keyPair keyNode key lookup_key SameKid K.beq_sound)

variable {ρ : Type}

/-! ## what a cache entry means -/

mutual
/-- every entry in the tree vouches for the output stored next to it: a function node's for `F cls` of
the cached inputs, a composite's for the evaluation of ANY body that has the cached key -/
def ValidKids (S : Sem ρ) : List (Nat × TC ρ) → Prop
  | [] => True
  | p :: r => ValidPair S p ∧ ValidKids S r
def ValidPair (S : Sem ρ) : Nat × TC ρ → Prop
  | (_, t) => ValidT S t
def ValidT (S : Sem ρ) : TC ρ → Prop
  | .leaf cls _ out cache => ∀ vs, cache = some vs → out = S.F cls vs
  | .comp ret _ kids out cache =>
    ValidKids S kids ∧
    ∀ vs k, cache = some (vs, k) → ∀ (kids3 : List (Nat × T)) (f : Nat) (v : ρ),
      key KCfg.proposed kids3 = k → evalP S f vs kids3 ret = some v → v = out
end

theorem lookup_strip (l : Nat) : ∀ (kids : Kids ρ), lookup l (stripKids kids) = (lookupC l kids).map strip
  | [] => by simp [stripKids, lookup, lookupC]
  | (k, t) :: r => by
    by_cases h : k = l <;> simp [stripKids, stripPair, lookup, lookupC, h, lookup_strip l r]

theorem valid_lookup (S : Sem ρ) (l : Nat) : ∀ (kids : Kids ρ) (t : TC ρ),
    ValidKids S kids → lookupC l kids = some t → ValidT S t
  | [], _, _, h => by simp [lookupC] at h
  | (k, t0) :: r, t, hv, h => by
    simp only [ValidKids, ValidPair] at hv
    by_cases hk : k = l
    · simp [lookupC, hk] at h; subst h; exact hv.1
    · simp [lookupC, hk] at h; exact valid_lookup S l r t hv.2 h

theorem valid_setKid (S : Sem ρ) (l : Nat) (t' : TC ρ) (ht : ValidT S t') : ∀ (kids : Kids ρ),
    ValidKids S kids → ValidKids S (setKid l t' kids)
  | [], _ => by simp [setKid, ValidKids]
  | (k, t0) :: r, hv => by
    simp only [ValidKids, ValidPair] at hv
    by_cases hk : k = l
    · simp [setKid, hk, ValidKids, ValidPair, ht, hv.2]
    · simp [setKid, hk, ValidKids, ValidPair, hv.1, valid_setKid S l t' ht r hv.2]

theorem strip_setKid (l : Nat) (t' : TC ρ) : ∀ (kids : Kids ρ) (t : TC ρ),
    lookupC l kids = some t → strip t' = strip t → stripKids (setKid l t' kids) = stripKids kids
  | [], _, h, _ => by simp [lookupC] at h
  | (k, t0) :: r, t, h, hs => by
    by_cases hk : k = l
    · simp [lookupC, hk] at h; subst h; simp [setKid, hk, stripKids, stripPair, hs]
    · simp [lookupC, hk] at h
      simp [setKid, hk, stripKids, stripPair, strip_setKid l t' r t h hs]

theorem lookupC_setKid (l l2 : Nat) (t' : TC ρ) : ∀ (kids : Kids ρ) (t : TC ρ), lookupC l kids = some t →
    lookupC l2 (setKid l t' kids) = if l2 = l then some t' else lookupC l2 kids
  | [], _, h => by simp [lookupC] at h
  | (k, t0) :: r, t, h => by
    by_cases hk : k = l
    · subst hk
      by_cases h2 : l2 = k
      · simp [setKid, lookupC, h2]
      · have : ¬ k = l2 := fun e => h2 e.symm
        simp [setKid, lookupC, h2, this]
    · simp [lookupC, hk] at h
      have ih := lookupC_setKid l l2 t' r t h
      by_cases h2 : l2 = l
      · subst h2
        simp [setKid, hk, lookupC, ih]
      · by_cases h3 : k = l2 <;> simp [setKid, hk, lookupC, h3, ih, h2]

theorem mem_labels_of_lookupC (l : Nat) : ∀ (kids : Kids ρ) (t : TC ρ), lookupC l kids = some t → l ∈ labels kids
  | [], _, h => by simp [lookupC] at h
  | (k, t0) :: r, t, h => by
    by_cases hk : k = l
    · simp [labels, hk]
    · simp [lookupC, hk] at h
      have := mem_labels_of_lookupC l r t h
      simp [labels] at this ⊢
      exact Or.inr this

theorem labels_strip : ∀ (k1 k2 : Kids ρ), stripKids k1 = stripKids k2 → labels k1 = labels k2
  | [], [], _ => rfl
  | [], (_, _) :: _, h => by simp [stripKids] at h
  | (_, _) :: _, [], h => by simp [stripKids] at h
  | (l1, t1) :: r1, (l2, t2) :: r2, h => by
    simp [stripKids, stripPair] at h
    have := labels_strip r1 r2 h.2
    simp [labels] at this ⊢
    exact ⟨h.1.1, this⟩

/-! ## the key is sound for the partial evaluation too -/

theorem keyP_sound (S : Sem ρ) : ∀ (fuel : Nat) (vals : List ρ) (k1 k2 : List (Nat × T)) (l : Nat),
    keyKids KCfg.proposed k1 = keyKids KCfg.proposed k2 →
    evalP S fuel vals k1 l = evalP S fuel vals k2 l
  | 0, _, _, _, _, _ => rfl
  | fuel + 1, vals, k1, k2, l, h => by
    have hev : (fun sib => evalP S fuel vals k1 sib) = (fun sib => evalP S fuel vals k2 sib) :=
      funext (fun sib => keyP_sound S fuel vals k1 k2 sib h)
    have hk := lookup_key l k1 k2 h
    simp only [evalP, hev]
    generalize lookup l k1 = a at hk
    generalize lookup l k2 = b at hk
    cases a with
    | none => cases b with
      | none => rfl
      | some t => cases t <;> simp [SameKid] at hk
    | some t => cases b with
      | none => cases t <;> simp [SameKid] at hk
      | some t' =>
        cases t <;> cases t' <;> simp only [SameKid] at hk
        · rw [hk.1, hk.2]
        · obtain ⟨hr, hi, hks⟩ := hk
          subst hr hi
          dsimp only
          split
          · rfl
          · exact keyP_sound S fuel _ _ _ _ hks

/-- `o` is what the cache-free twin gets for child `l`, whenever it delivers -/
def Ag (S : Sem ρ) (vals : List ρ) (base : List (Nat × T)) (l : Nat) (o : ρ) : Prop :=
  ∀ f' v', evalP S f' vals base l = some v' → v' = o

/-- what the run of a child must guarantee (used as induction hypothesis) -/
def RkSpec [DecidableEq ρ] (S : Sem ρ) (vals : List ρ) (rk : Kids ρ → Nat → Option (Kids ρ × ρ)) : Prop :=
  ∀ kids s kids' v, ValidKids S kids → rk kids s = some (kids', v) →
    stripKids kids' = stripKids kids ∧ ValidKids S kids' ∧ Ag S vals (stripKids kids) s v ∧
    outAt S s kids' = v ∧
    ∀ l2, Ag S vals (stripKids kids) l2 (outAt S l2 kids) → Ag S vals (stripKids kids) l2 (outAt S l2 kids')

theorem fetchIns_spec [DecidableEq ρ] (S : Sem ρ) (vals : List ρ) (rk : Kids ρ → Nat → Option (Kids ρ × ρ))
    (hrk : RkSpec S vals rk) : ∀ (ins : List Src) (kids k' : Kids ρ) (vs : List ρ), ValidKids S kids →
    fetchIns S vals rk kids ins = some (k', vs) →
    stripKids k' = stripKids kids ∧ ValidKids S k' ∧
    (∀ f' vs', mapO (srcP S vals (fun s => evalP S f' vals (stripKids kids) s)) ins = some vs' → vs' = vs) ∧
    ∀ l2, Ag S vals (stripKids kids) l2 (outAt S l2 kids) → Ag S vals (stripKids kids) l2 (outAt S l2 k')
  | [], kids, k', vs, hv, h => by
    simp [fetchIns] at h
    obtain ⟨rfl, rfl⟩ := h
    exact ⟨rfl, hv, by intro f' vs' hm; simp [mapO] at hm; exact hm, fun _ h => h⟩
  | .val v :: r, kids, k', vs, hv, h => by
    simp only [fetchIns] at h
    cases hr : fetchIns S vals rk kids r with
    | none => simp [hr] at h
    | some p =>
      obtain ⟨k, vs0⟩ := p
      simp [hr] at h
      obtain ⟨rfl, rfl⟩ := h
      obtain ⟨h1, h2, h3, h4⟩ := fetchIns_spec S vals rk hrk r kids k vs0 hv hr
      refine ⟨h1, h2, ?_, h4⟩
      intro f' vs' hm
      simp only [mapO, srcP] at hm
      cases hm2 : mapO (srcP S vals fun s => evalP S f' vals (stripKids kids) s) r with
      | none => simp [hm2] at hm
      | some bs => simp [hm2] at hm; rw [← hm, h3 f' bs hm2]
  | .link i :: r, kids, k', vs, hv, h => by
    simp only [fetchIns] at h
    cases hr : fetchIns S vals rk kids r with
    | none => simp [hr] at h
    | some p =>
      obtain ⟨k, vs0⟩ := p
      simp [hr] at h
      obtain ⟨rfl, rfl⟩ := h
      obtain ⟨h1, h2, h3, h4⟩ := fetchIns_spec S vals rk hrk r kids k vs0 hv hr
      refine ⟨h1, h2, ?_, h4⟩
      intro f' vs' hm
      simp only [mapO, srcP] at hm
      cases hm2 : mapO (srcP S vals fun s => evalP S f' vals (stripKids kids) s) r with
      | none => simp [hm2] at hm
      | some bs => simp [hm2] at hm; rw [← hm, h3 f' bs hm2]
  | .conn sib :: r, kids, k', vs, hv, h => by
    simp only [fetchIns] at h
    cases hs : rk kids sib with
    | none => simp [hs] at h
    | some p1 =>
      obtain ⟨k1, o⟩ := p1
      simp only [hs] at h
      cases hr : fetchIns S vals rk k1 r with
      | none => simp [hr] at h
      | some p =>
        obtain ⟨k2, vs0⟩ := p
        simp [hr] at h
        obtain ⟨rfl, rfl⟩ := h
        obtain ⟨g1, g2, g3, _, g5⟩ := hrk kids sib k1 o hv hs
        obtain ⟨h1, h2, h3, h4⟩ := fetchIns_spec S vals rk hrk r k1 k2 vs0 g2 hr
        rw [g1] at h1 h3 h4
        refine ⟨h1, h2, ?_, fun l2 hl => h4 l2 (g5 l2 hl)⟩
        intro f' vs' hm
        simp only [mapO, srcP] at hm
        cases he : evalP S f' vals (stripKids kids) sib with
        | none => simp [he] at hm
        | some b =>
          simp only [he] at hm
          cases hm2 : mapO (srcP S vals fun s => evalP S f' vals (stripKids kids) s) r with
          | none => simp [hm2] at hm
          | some bs => simp [hm2] at hm; rw [← hm, h3 f' bs hm2, g3 f' b he]

theorem runAllL_spec [DecidableEq ρ] (S : Sem ρ) (vals : List ρ) (rk : Kids ρ → Nat → Option (Kids ρ × ρ))
    (hrk : RkSpec S vals rk) : ∀ (ls : List Nat) (kids k' : Kids ρ), ValidKids S kids →
    runAllL rk kids ls = some k' →
    stripKids k' = stripKids kids ∧ ValidKids S k' ∧
    (∀ l ∈ ls, Ag S vals (stripKids kids) l (outAt S l k')) ∧
    ∀ l2, Ag S vals (stripKids kids) l2 (outAt S l2 kids) → Ag S vals (stripKids kids) l2 (outAt S l2 k')
  | [], kids, k', hv, h => by
    simp [runAllL] at h; subst h
    exact ⟨rfl, hv, by simp, fun _ h => h⟩
  | l :: ls, kids, k', hv, h => by
    simp only [runAllL] at h
    cases hs : rk kids l with
    | none => simp [hs] at h
    | some p1 =>
      obtain ⟨k1, o⟩ := p1
      simp only [hs] at h
      obtain ⟨g1, g2, g3, g4, g5⟩ := hrk kids l k1 o hv hs
      obtain ⟨h1, h2, h3, h4⟩ := runAllL_spec S vals rk hrk ls k1 k' g2 h
      rw [g1] at h1 h3 h4
      refine ⟨h1, h2, ?_, fun l2 hl => h4 l2 (g5 l2 hl)⟩
      intro l' hl'
      simp only [List.mem_cons] at hl'
      rcases hl' with rfl | hl'
      · exact h4 _ (by rw [g4]; exact g3)
      · exact h3 l' hl'

theorem outAt_setKid (S : Sem ρ) (l l2 : Nat) (t' : TC ρ) (kids : Kids ρ) (t : TC ρ) (h : lookupC l kids = some t) :
    outAt S l2 (setKid l t' kids) = if l2 = l then t'.out else outAt S l2 kids := by
  unfold outAt
  rw [lookupC_setKid l l2 t' kids t h]
  by_cases h2 : l2 = l <;> simp [h2]

theorem lookupC_of_strip (l : Nat) (k1 k2 : Kids ρ) (h : stripKids k1 = stripKids k2) (t : TC ρ)
    (ht : lookupC l k2 = some t) : ∃ t1, lookupC l k1 = some t1 := by
  have h1 := lookup_strip l k1
  have h2 := lookup_strip l k2
  rw [h, h2, ht] at h1
  cases hc : lookupC l k1 with
  | none => simp [hc] at h1
  | some t1 => exact ⟨t1, rfl⟩

/-- THE RUN OF A CHILD WITH ALL CACHES BELOW IT: same structure afterwards, every entry still valid, the value
it returns (and stores) is what the cache-free twin computes, and no other stored output gets worse -/
theorem runKid_spec [DecidableEq ρ] (S : Sem ρ) : ∀ (fuel : Nat) (vals : List ρ),
    RkSpec S vals (fun k s => runKid S KCfg.proposed fuel vals k s)
  | 0, _ => by intro kids s kids' v _ h; simp [runKid] at h
  | fuel + 1, vals => by
    intro kids l kids' v hv h
    have ih := runKid_spec S fuel
    simp only [runKid] at h
    cases ht : lookupC l kids with
    | none =>
      simp only [ht] at h
      simp at h
      obtain ⟨rfl, rfl⟩ := h
      refine ⟨rfl, hv, ?_, by simp [outAt, ht], fun _ h => h⟩
      intro f' v' he
      cases f' with
      | zero => simp [evalP] at he
      | succ f' => simp [evalP, lookup_strip, ht] at he; exact he.symm
    | some t =>
      have hvt := valid_lookup S l kids t hv ht
      have hls : lookup l (stripKids kids) = some (strip t) := by rw [lookup_strip, ht]; rfl
      cases t with
      | leaf cls ins out cache =>
        simp only [ht] at h
        cases hf : fetchIns S vals (fun k s => runKid S KCfg.proposed fuel vals k s) kids ins with
        | none => simp [hf] at h
        | some p =>
          obtain ⟨k1, vs⟩ := p
          simp only [hf] at h
          obtain ⟨f1, f2, f3, f4⟩ := fetchIns_spec S vals _ (ih vals) ins kids k1 vs hv hf
          obtain ⟨t1, ht1⟩ := lookupC_of_strip l k1 kids f1 _ ht
          -- what the twin computes for this node
          have hag : Ag S vals (stripKids kids) l (S.F cls vs) := by
            intro f' v' he
            cases f' with
            | zero => simp [evalP] at he
            | succ f' =>
              simp only [evalP, hls, strip] at he
              cases hm : mapO (srcP S vals fun sib => evalP S f' vals (stripKids kids) sib) ins with
              | none => simp [hm] at he
              | some vs' => simp [hm] at he; rw [← he, f3 f' vs' hm]
          by_cases hc : cache = some vs
          · simp only [hc, if_true, Option.some.injEq, Prod.mk.injEq] at h
            obtain ⟨rfl, rfl⟩ := h
            simp only [ValidT] at hvt
            have ho : out = S.F cls vs := hvt vs hc
            have hst : strip (TC.leaf cls ins out (some vs)) = strip t1 := by
              have a := lookup_strip l k1; rw [f1, hls, ht1] at a; simp at a; rw [← a, hc] <;> simp [strip]
            refine ⟨by rw [strip_setKid l _ k1 t1 ht1 hst, f1],
              valid_setKid S l _ (by simp only [ValidT]; intro vs' h'; simp at h'; rw [← h']; exact ho) k1 f2,
              by rw [ho]; exact hag, by rw [outAt_setKid S l l _ k1 t1 ht1]; simp [TC.out], ?_⟩
            intro l2 hl2
            rw [outAt_setKid S l l2 _ k1 t1 ht1]
            by_cases h2 : l2 = l
            · simp only [h2, if_true, TC.out]; rw [ho]; exact hag
            · simp only [h2, if_false]; exact f4 l2 hl2
          · simp only [hc, if_false, Option.some.injEq, Prod.mk.injEq] at h
            obtain ⟨rfl, rfl⟩ := h
            have hst : strip (TC.leaf cls ins (S.F cls vs) (some vs)) = strip t1 := by
              have a := lookup_strip l k1; rw [f1, hls, ht1] at a; simp at a; rw [← a]; simp [strip]
            refine ⟨by rw [strip_setKid l _ k1 t1 ht1 hst, f1],
              valid_setKid S l _ (by simp only [ValidT]; intro vs' h'; simp at h'; rw [← h']) k1 f2,
              hag, by rw [outAt_setKid S l l _ k1 t1 ht1]; simp [TC.out], ?_⟩
            intro l2 hl2
            rw [outAt_setKid S l l2 _ k1 t1 ht1]
            by_cases h2 : l2 = l
            · simp only [h2, if_true, TC.out]; exact hag
            · simp only [h2, if_false]; exact f4 l2 hl2
      | comp ret ins inner out cache =>
        simp only [ht] at h
        cases hf : fetchIns S vals (fun k s => runKid S KCfg.proposed fuel vals k s) kids ins with
        | none => simp [hf] at h
        | some p =>
          obtain ⟨k1, vs⟩ := p
          simp only [hf] at h
          obtain ⟨f1, f2, f3, f4⟩ := fetchIns_spec S vals _ (ih vals) ins kids k1 vs hv hf
          obtain ⟨t1, ht1⟩ := lookupC_of_strip l k1 kids f1 _ ht
          simp only [ValidT] at hvt
          -- the twin's value for this node is its value for the exposed child of the body
          have hag : ∀ o, Ag S vs (stripKids inner) ret o → Ag S vals (stripKids kids) l o := by
            intro o hin f' v' he
            cases f' with
            | zero => simp [evalP] at he
            | succ f' =>
              simp only [evalP, hls, strip] at he
              cases hm : mapO (srcP S vals fun sib => evalP S f' vals (stripKids kids) sib) ins with
              | none => simp [hm] at he
              | some vs' =>
                simp only [hm] at he
                rw [f3 f' vs' hm] at he
                exact hin f' v' he
          have finish : ∀ (tn : TC ρ), strip tn = strip (TC.comp ret ins inner out cache) → ValidT S tn →
              Ag S vals (stripKids kids) l tn.out →
              stripKids (setKid l tn k1) = stripKids kids ∧ ValidKids S (setKid l tn k1) ∧
              Ag S vals (stripKids kids) l tn.out ∧ outAt S l (setKid l tn k1) = tn.out ∧
              ∀ l2, Ag S vals (stripKids kids) l2 (outAt S l2 kids) →
                Ag S vals (stripKids kids) l2 (outAt S l2 (setKid l tn k1)) := by
            intro tn hst hvn hagn
            have hst1 : strip tn = strip t1 := by
              have a := lookup_strip l k1; rw [f1, hls, ht1] at a; simp at a; rw [hst, ← a]
            refine ⟨by rw [strip_setKid l _ k1 t1 ht1 hst1, f1], valid_setKid S l _ hvn k1 f2, hagn,
              by rw [outAt_setKid S l l _ k1 t1 ht1]; simp, ?_⟩
            intro l2 hl2
            rw [outAt_setKid S l l2 _ k1 t1 ht1]
            by_cases h2 : l2 = l
            · simp only [h2, if_true]; exact hagn
            · simp only [h2, if_false]; exact f4 l2 hl2
          by_cases hh : hitC KCfg.proposed cache vs inner = true
          · simp only [hh, if_true, Option.some.injEq, Prod.mk.injEq] at h
            obtain ⟨rfl, rfl⟩ := h
            have hin : Ag S vs (stripKids inner) ret out := by
              unfold hitC at hh
              cases cache with
              | none => simp at hh
              | some e =>
                obtain ⟨vs', k⟩ := e
                simp only [Bool.and_eq_true, decide_eq_true_eq] at hh
                have hk := K.beq_sound _ _ hh.2
                intro f' v' he
                exact hvt.2 vs' k rfl (stripKids inner) f' v' hk.symm (by rw [hh.1]; exact he)
            exact finish _ rfl (by simp only [ValidT]; exact hvt) (hag out hin)
          · simp only [hh, Bool.false_eq_true, if_false] at h
            cases hr : runAllL (fun k s => runKid S KCfg.proposed fuel vs k s) inner (labels inner) with
            | none => simp [hr] at h
            | some inner1 =>
              simp only [hr, Option.some.injEq, Prod.mk.injEq] at h
              obtain ⟨rfl, rfl⟩ := h
              obtain ⟨r1, r2, r3, _⟩ := runAllL_spec S vs _ (ih vs) (labels inner) inner inner1 hvt.1 hr
              have hin : Ag S vs (stripKids inner) ret (outAt S ret inner1) := by
                cases hl : lookupC ret inner1 with
                | none =>
                  intro f' v' he
                  have : lookup ret (stripKids inner) = none := by rw [← r1, lookup_strip, hl]; rfl
                  cases f' with
                  | zero => simp [evalP] at he
                  | succ f' => simp [evalP, this] at he; simp [outAt, hl, he]
                | some tr =>
                  have := mem_labels_of_lookupC ret inner1 tr hl
                  rw [labels_strip inner1 inner r1] at this
                  exact r3 ret this
              refine finish _ (by simp [strip, r1]) ?_ (hag _ hin)
              simp only [ValidT]
              refine ⟨r2, ?_⟩
              intro vs' k he kids3 f v hk hev
              simp only [Option.some.injEq, Prod.mk.injEq] at he
              obtain ⟨rfl, rfl⟩ := he
              have hkk : keyKids KCfg.proposed kids3 = keyKids KCfg.proposed (stripKids inner1) := by
                simp only [key, K.mk.injEq] at hk
                exact Prod.ext hk.1 hk.2
              rw [keyP_sound S f _ kids3 _ ret hkk, r1] at hev
              exact hin f v hev

end PwVerif.CacheForest
