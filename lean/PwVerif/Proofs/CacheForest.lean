import PwVerif.Model.CacheForest
import PwVerif.Proofs.CacheTree
namespace PwVerif.CacheForest
open PwVerif.CacheTree (T Src K KCfg Sem lookup keyKids keyPair keyNode key lookup_key SameKid K.beq_sound)

variable {ρ : Type}

/-! ## what a cache entry means -/

mutual
/-- every entry in the tree vouches for the output stored next to it: a function node's for `F cls` of
the cached inputs, a composite's for the evaluation of ANY body that has the cached key -/
def ValidKids (S : Sem ρ) : List (Nat × TC ρ) → Prop
  | [] => True
  | p :: r => ValidPair S p ∧ ValidKids S r
def ValidPair (S : Sem ρ) : Nat × TC ρ → Prop
  | (_, t) => ValidT S t
def ValidT (S : Sem ρ) : TC ρ → Prop
  | .leaf cls _ out cache => ∀ vs, cache = some vs → out = S.F cls vs
  | .comp ret _ kids out cache =>
    ValidKids S kids ∧
    ∀ vs k, cache = some (vs, k) → ∀ (kids3 : List (Nat × T)) (f : Nat) (v : ρ),
      key KCfg.proposed kids3 = k → evalP S f vs kids3 ret = some v → v = out
end

theorem lookup_strip (l : Nat) : ∀ (kids : Kids ρ), lookup l (stripKids kids) = (lookupC l kids).map strip
  | [] => by simp [stripKids, lookup, lookupC]
  | (k, t) :: r => by
    by_cases h : k = l <;> simp [stripKids, stripPair, lookup, lookupC, h, lookup_strip l r]

theorem valid_lookup (S : Sem ρ) (l : Nat) : ∀ (kids : Kids ρ) (t : TC ρ),
    ValidKids S kids → lookupC l kids = some t → ValidT S t
  | [], _, _, h => by simp [lookupC] at h
  | (k, t0) :: r, t, hv, h => by
    simp only [ValidKids, ValidPair] at hv
    by_cases hk : k = l
    · simp [lookupC, hk] at h; subst h; exact hv.1
    · simp [lookupC, hk] at h; exact valid_lookup S l r t hv.2 h

theorem valid_setKid (S : Sem ρ) (l : Nat) (t' : TC ρ) (ht : ValidT S t') : ∀ (kids : Kids ρ),
    ValidKids S kids → ValidKids S (setKid l t' kids)
  | [], _ => by simp [setKid, ValidKids]
  | (k, t0) :: r, hv => by
    simp only [ValidKids, ValidPair] at hv
    by_cases hk : k = l
    · simp [setKid, hk, ValidKids, ValidPair, ht, hv.2]
    · simp [setKid, hk, ValidKids, ValidPair, hv.1, valid_setKid S l t' ht r hv.2]

theorem strip_setKid (l : Nat) (t' : TC ρ) : ∀ (kids : Kids ρ) (t : TC ρ),
    lookupC l kids = some t → strip t' = strip t → stripKids (setKid l t' kids) = stripKids kids
  | [], _, h, _ => by simp [lookupC] at h
  | (k, t0) :: r, t, h, hs => by
    by_cases hk : k = l
    · simp [lookupC, hk] at h; subst h; simp [setKid, hk, stripKids, stripPair, hs]
    · simp [lookupC, hk] at h
      simp [setKid, hk, stripKids, stripPair, strip_setKid l t' r t h hs]

theorem lookupC_setKid (l l2 : Nat) (t' : TC ρ) : ∀ (kids : Kids ρ) (t : TC ρ), lookupC l kids = some t →
    lookupC l2 (setKid l t' kids) = if l2 = l then some t' else lookupC l2 kids
  | [], _, h => by simp [lookupC] at h
  | (k, t0) :: r, t, h => by
    by_cases hk : k = l
    · subst hk
      by_cases h2 : l2 = k
      · simp [setKid, lookupC, h2]
      · have : ¬ k = l2 := fun e => h2 e.symm
        simp [setKid, lookupC, h2, this]
    · simp [lookupC, hk] at h
      have ih := lookupC_setKid l l2 t' r t h
      by_cases h2 : l2 = l
      · subst h2
        simp [setKid, hk, lookupC, ih]
      · by_cases h3 : k = l2 <;> simp [setKid, hk, lookupC, h3, ih, h2]

theorem mem_labels_of_lookupC (l : Nat) : ∀ (kids : Kids ρ) (t : TC ρ), lookupC l kids = some t → l ∈ labels kids
  | [], _, h => by simp [lookupC] at h
  | (k, t0) :: r, t, h => by
    by_cases hk : k = l
    · simp [labels, hk]
    · simp [lookupC, hk] at h
      have := mem_labels_of_lookupC l r t h
      simp [labels] at this ⊢
      exact Or.inr this

theorem labels_strip : ∀ (k1 k2 : Kids ρ), stripKids k1 = stripKids k2 → labels k1 = labels k2
  | [], [], _ => rfl
  | [], (_, _) :: _, h => by simp [stripKids] at h
  | (_, _) :: _, [], h => by simp [stripKids] at h
  | (l1, t1) :: r1, (l2, t2) :: r2, h => by
    simp [stripKids, stripPair] at h
    have := labels_strip r1 r2 h.2
    simp [labels] at this ⊢
    exact ⟨h.1.1, this⟩

/-! ## the key is sound for the partial evaluation too -/

theorem keyP_sound (S : Sem ρ) : ∀ (fuel : Nat) (vals : List ρ) (k1 k2 : List (Nat × T)) (l : Nat),
    keyKids KCfg.proposed k1 = keyKids KCfg.proposed k2 →
    evalP S fuel vals k1 l = evalP S fuel vals k2 l
  | 0, _, _, _, _, _ => rfl
  | fuel + 1, vals, k1, k2, l, h => by
    have hev : (fun sib => evalP S fuel vals k1 sib) = (fun sib => evalP S fuel vals k2 sib) :=
      funext (fun sib => keyP_sound S fuel vals k1 k2 sib h)
    have hk := lookup_key l k1 k2 h
    simp only [evalP, hev]
    generalize lookup l k1 = a at hk
    generalize lookup l k2 = b at hk
    cases a with
    | none => cases b with
      | none => rfl
      | some t => cases t <;> simp [SameKid] at hk
    | some t => cases b with
      | none => cases t <;> simp [SameKid] at hk
      | some t' =>
        cases t <;> cases t' <;> simp only [SameKid] at hk
        · rw [hk.1, hk.2]
        · obtain ⟨hr, hi, hks⟩ := hk
          subst hr hi
          dsimp only
          split
          · rfl
          · exact keyP_sound S fuel _ _ _ _ hks

/-- `o` is what the cache-free twin gets for child `l`, whenever it delivers -/
def Ag (S : Sem ρ) (vals : List ρ) (base : List (Nat × T)) (l : Nat) (o : ρ) : Prop :=
  ∀ f' v', evalP S f' vals base l = some v' → v' = o

/-- what the run of a child must guarantee (used as induction hypothesis) -/
def RkSpec [DecidableEq ρ] (S : Sem ρ) (vals : List ρ) (rk : Kids ρ → Nat → Option (Kids ρ × ρ)) : Prop :=
  ∀ kids s kids' v, ValidKids S kids → rk kids s = some (kids', v) →
    stripKids kids' = stripKids kids ∧ ValidKids S kids' ∧ Ag S vals (stripKids kids) s v ∧
    outAt S s kids' = v ∧
    ∀ l2, Ag S vals (stripKids kids) l2 (outAt S l2 kids) → Ag S vals (stripKids kids) l2 (outAt S l2 kids')

theorem fetchIns_spec [DecidableEq ρ] (S : Sem ρ) (vals : List ρ) (rk : Kids ρ → Nat → Option (Kids ρ × ρ))
    (hrk : RkSpec S vals rk) : ∀ (ins : List Src) (kids k' : Kids ρ) (vs : List ρ), ValidKids S kids →
    fetchIns S vals rk kids ins = some (k', vs) →
    stripKids k' = stripKids kids ∧ ValidKids S k' ∧
    (∀ f' vs', mapO (srcP S vals (fun s => evalP S f' vals (stripKids kids) s)) ins = some vs' → vs' = vs) ∧
    ∀ l2, Ag S vals (stripKids kids) l2 (outAt S l2 kids) → Ag S vals (stripKids kids) l2 (outAt S l2 k')
  | [], kids, k', vs, hv, h => by
    simp [fetchIns] at h
    obtain ⟨rfl, rfl⟩ := h
    exact ⟨rfl, hv, by intro f' vs' hm; simp [mapO] at hm; exact hm, fun _ h => h⟩
  | .val v :: r, kids, k', vs, hv, h => by
    simp only [fetchIns] at h
    cases hr : fetchIns S vals rk kids r with
    | none => simp [hr] at h
    | some p =>
      obtain ⟨k, vs0⟩ := p
      simp [hr] at h
      obtain ⟨rfl, rfl⟩ := h
      obtain ⟨h1, h2, h3, h4⟩ := fetchIns_spec S vals rk hrk r kids k vs0 hv hr
      refine ⟨h1, h2, ?_, h4⟩
      intro f' vs' hm
      simp only [mapO, srcP] at hm
      cases hm2 : mapO (srcP S vals fun s => evalP S f' vals (stripKids kids) s) r with
      | none => simp [hm2] at hm
      | some bs => simp [hm2] at hm; rw [← hm, h3 f' bs hm2]
  | .link i :: r, kids, k', vs, hv, h => by
    simp only [fetchIns] at h
    cases hr : fetchIns S vals rk kids r with
    | none => simp [hr] at h
    | some p =>
      obtain ⟨k, vs0⟩ := p
      simp [hr] at h
      obtain ⟨rfl, rfl⟩ := h
      obtain ⟨h1, h2, h3, h4⟩ := fetchIns_spec S vals rk hrk r kids k vs0 hv hr
      refine ⟨h1, h2, ?_, h4⟩
      intro f' vs' hm
      simp only [mapO, srcP] at hm
      cases hm2 : mapO (srcP S vals fun s => evalP S f' vals (stripKids kids) s) r with
      | none => simp [hm2] at hm
      | some bs => simp [hm2] at hm; rw [← hm, h3 f' bs hm2]
  | .conn sib :: r, kids, k', vs, hv, h => by
    simp only [fetchIns] at h
    cases hs : rk kids sib with
    | none => simp [hs] at h
    | some p1 =>
      obtain ⟨k1, o⟩ := p1
      simp only [hs] at h
      cases hr : fetchIns S vals rk k1 r with
      | none => simp [hr] at h
      | some p =>
        obtain ⟨k2, vs0⟩ := p
        simp [hr] at h
        obtain ⟨rfl, rfl⟩ := h
        obtain ⟨g1, g2, g3, _, g5⟩ := hrk kids sib k1 o hv hs
        obtain ⟨h1, h2, h3, h4⟩ := fetchIns_spec S vals rk hrk r k1 k2 vs0 g2 hr
        rw [g1] at h1 h3 h4
        refine ⟨h1, h2, ?_, fun l2 hl => h4 l2 (g5 l2 hl)⟩
        intro f' vs' hm
        simp only [mapO, srcP] at hm
        cases he : evalP S f' vals (stripKids kids) sib with
        | none => simp [he] at hm
        | some b =>
          simp only [he] at hm
          cases hm2 : mapO (srcP S vals fun s => evalP S f' vals (stripKids kids) s) r with
          | none => simp [hm2] at hm
          | some bs => simp [hm2] at hm; rw [← hm, h3 f' bs hm2, g3 f' b he]

  | .multi [] :: r, kids, k', vs, hv, h => by
    simp only [fetchIns] at h
    cases hr : fetchIns S vals rk kids r with
    | none => simp [hr] at h
    | some p =>
      obtain ⟨k, vs0⟩ := p
      simp [hr] at h
      obtain ⟨rfl, rfl⟩ := h
      obtain ⟨h1, h2, h3, h4⟩ := fetchIns_spec S vals rk hrk r kids k vs0 hv hr
      refine ⟨h1, h2, ?_, h4⟩
      intro f' vs' hm
      simp only [mapO, srcP] at hm
      cases hm2 : mapO (srcP S vals fun s => evalP S f' vals (stripKids kids) s) r with
      | none => simp [hm2] at hm
      | some bs => simp [hm2] at hm; rw [← hm, h3 f' bs hm2]
  | .multi (sib :: _) :: r, kids, k', vs, hv, h => by
    simp only [fetchIns] at h
    cases hs : rk kids sib with
    | none => simp [hs] at h
    | some p1 =>
      obtain ⟨k1, o⟩ := p1
      simp only [hs] at h
      cases hr : fetchIns S vals rk k1 r with
      | none => simp [hr] at h
      | some p =>
        obtain ⟨k2, vs0⟩ := p
        simp [hr] at h
        obtain ⟨rfl, rfl⟩ := h
        obtain ⟨g1, g2, g3, _, g5⟩ := hrk kids sib k1 o hv hs
        obtain ⟨h1, h2, h3, h4⟩ := fetchIns_spec S vals rk hrk r k1 k2 vs0 g2 hr
        rw [g1] at h1 h3 h4
        refine ⟨h1, h2, ?_, fun l2 hl => h4 l2 (g5 l2 hl)⟩
        intro f' vs' hm
        simp only [mapO, srcP] at hm
        cases he : evalP S f' vals (stripKids kids) sib with
        | none => simp [he] at hm
        | some b =>
          simp only [he] at hm
          cases hm2 : mapO (srcP S vals fun s => evalP S f' vals (stripKids kids) s) r with
          | none => simp [hm2] at hm
          | some bs => simp [hm2] at hm; rw [← hm, h3 f' bs hm2, g3 f' b he]

theorem runAllL_spec [DecidableEq ρ] (S : Sem ρ) (vals : List ρ) (rk : Kids ρ → Nat → Option (Kids ρ × ρ))
    (hrk : RkSpec S vals rk) : ∀ (ls : List Nat) (kids k' : Kids ρ), ValidKids S kids →
    runAllL rk kids ls = some k' →
    stripKids k' = stripKids kids ∧ ValidKids S k' ∧
    (∀ l ∈ ls, Ag S vals (stripKids kids) l (outAt S l k')) ∧
    ∀ l2, Ag S vals (stripKids kids) l2 (outAt S l2 kids) → Ag S vals (stripKids kids) l2 (outAt S l2 k')
  | [], kids, k', hv, h => by
    simp [runAllL] at h; subst h
    exact ⟨rfl, hv, by simp, fun _ h => h⟩
  | l :: ls, kids, k', hv, h => by
    simp only [runAllL] at h
    cases hs : rk kids l with
    | none => simp [hs] at h
    | some p1 =>
      obtain ⟨k1, o⟩ := p1
      simp only [hs] at h
      obtain ⟨g1, g2, g3, g4, g5⟩ := hrk kids l k1 o hv hs
      obtain ⟨h1, h2, h3, h4⟩ := runAllL_spec S vals rk hrk ls k1 k' g2 h
      rw [g1] at h1 h3 h4
      refine ⟨h1, h2, ?_, fun l2 hl => h4 l2 (g5 l2 hl)⟩
      intro l' hl'
      simp only [List.mem_cons] at hl'
      rcases hl' with rfl | hl'
      · exact h4 _ (by rw [g4]; exact g3)
      · exact h3 l' hl'

theorem outAt_setKid (S : Sem ρ) (l l2 : Nat) (t' : TC ρ) (kids : Kids ρ) (t : TC ρ) (h : lookupC l kids = some t) :
    outAt S l2 (setKid l t' kids) = if l2 = l then t'.out else outAt S l2 kids := by
  unfold outAt
  rw [lookupC_setKid l l2 t' kids t h]
  by_cases h2 : l2 = l <;> simp [h2]

theorem lookupC_of_strip (l : Nat) (k1 k2 : Kids ρ) (h : stripKids k1 = stripKids k2) (t : TC ρ)
    (ht : lookupC l k2 = some t) : ∃ t1, lookupC l k1 = some t1 := by
  have h1 := lookup_strip l k1
  have h2 := lookup_strip l k2
  rw [h, h2, ht] at h1
  cases hc : lookupC l k1 with
  | none => simp [hc] at h1
  | some t1 => exact ⟨t1, rfl⟩

/-- THE RUN OF A CHILD WITH ALL CACHES BELOW IT: same structure afterwards, every entry still valid, the value
it returns (and stores) is what the cache-free twin computes, and no other stored output gets worse -/
theorem runKid_spec [DecidableEq ρ] (S : Sem ρ) : ∀ (fuel : Nat) (vals : List ρ),
    RkSpec S vals (fun k s => runKid S KCfg.proposed fuel vals k s)
  | 0, _ => by intro kids s kids' v _ h; simp [runKid] at h
  | fuel + 1, vals => by
    intro kids l kids' v hv h
    have ih := runKid_spec S fuel
    simp only [runKid] at h
    cases ht : lookupC l kids with
    | none =>
      simp only [ht] at h
      simp at h
      obtain ⟨rfl, rfl⟩ := h
      refine ⟨rfl, hv, ?_, by simp [outAt, ht], fun _ h => h⟩
      intro f' v' he
      cases f' with
      | zero => simp [evalP] at he
      | succ f' => simp [evalP, lookup_strip, ht] at he; exact he.symm
    | some t =>
      have hvt := valid_lookup S l kids t hv ht
      have hls : lookup l (stripKids kids) = some (strip t) := by rw [lookup_strip, ht]; rfl
      cases t with
      | leaf cls ins out cache =>
        simp only [ht] at h
        cases hf : fetchIns S vals (fun k s => runKid S KCfg.proposed fuel vals k s) kids ins with
        | none => simp [hf] at h
        | some p =>
          obtain ⟨k1, vs⟩ := p
          simp only [hf] at h
          obtain ⟨f1, f2, f3, f4⟩ := fetchIns_spec S vals _ (ih vals) ins kids k1 vs hv hf
          obtain ⟨t1, ht1⟩ := lookupC_of_strip l k1 kids f1 _ ht
          -- what the twin computes for this node
          have hag : Ag S vals (stripKids kids) l (S.F cls vs) := by
            intro f' v' he
            cases f' with
            | zero => simp [evalP] at he
            | succ f' =>
              simp only [evalP, hls, strip] at he
              cases hm : mapO (srcP S vals fun sib => evalP S f' vals (stripKids kids) sib) ins with
              | none => simp [hm] at he
              | some vs' => simp [hm] at he; rw [← he, f3 f' vs' hm]
          by_cases hc : cache = some vs
          · simp only [hc, if_true, Option.some.injEq, Prod.mk.injEq] at h
            obtain ⟨rfl, rfl⟩ := h
            simp only [ValidT] at hvt
            have ho : out = S.F cls vs := hvt vs hc
            have hst : strip (TC.leaf cls ins out (some vs)) = strip t1 := by
              have a := lookup_strip l k1; rw [f1, hls, ht1] at a; simp at a; rw [← a, hc] <;> simp [strip]
            refine ⟨by rw [strip_setKid l _ k1 t1 ht1 hst, f1],
              valid_setKid S l _ (by simp only [ValidT]; intro vs' h'; simp at h'; rw [← h']; exact ho) k1 f2,
              by rw [ho]; exact hag, by rw [outAt_setKid S l l _ k1 t1 ht1]; simp [TC.out], ?_⟩
            intro l2 hl2
            rw [outAt_setKid S l l2 _ k1 t1 ht1]
            by_cases h2 : l2 = l
            · simp only [h2, if_true, TC.out]; rw [ho]; exact hag
            · simp only [h2, if_false]; exact f4 l2 hl2
          · simp only [hc, if_false, Option.some.injEq, Prod.mk.injEq] at h
            obtain ⟨rfl, rfl⟩ := h
            have hst : strip (TC.leaf cls ins (S.F cls vs) (some vs)) = strip t1 := by
              have a := lookup_strip l k1; rw [f1, hls, ht1] at a; simp at a; rw [← a]; simp [strip]
            refine ⟨by rw [strip_setKid l _ k1 t1 ht1 hst, f1],
              valid_setKid S l _ (by simp only [ValidT]; intro vs' h'; simp at h'; rw [← h']) k1 f2,
              hag, by rw [outAt_setKid S l l _ k1 t1 ht1]; simp [TC.out], ?_⟩
            intro l2 hl2
            rw [outAt_setKid S l l2 _ k1 t1 ht1]
            by_cases h2 : l2 = l
            · simp only [h2, if_true, TC.out]; exact hag
            · simp only [h2, if_false]; exact f4 l2 hl2
      | comp ret ins inner out cache =>
        simp only [ht] at h
        cases hf : fetchIns S vals (fun k s => runKid S KCfg.proposed fuel vals k s) kids ins with
        | none => simp [hf] at h
        | some p =>
          obtain ⟨k1, vs⟩ := p
          simp only [hf] at h
          obtain ⟨f1, f2, f3, f4⟩ := fetchIns_spec S vals _ (ih vals) ins kids k1 vs hv hf
          obtain ⟨t1, ht1⟩ := lookupC_of_strip l k1 kids f1 _ ht
          simp only [ValidT] at hvt
          -- the twin's value for this node is its value for the exposed child of the body
          have hag : ∀ o, Ag S vs (stripKids inner) ret o → Ag S vals (stripKids kids) l o := by
            intro o hin f' v' he
            cases f' with
            | zero => simp [evalP] at he
            | succ f' =>
              simp only [evalP, hls, strip] at he
              cases hm : mapO (srcP S vals fun sib => evalP S f' vals (stripKids kids) sib) ins with
              | none => simp [hm] at he
              | some vs' =>
                simp only [hm] at he
                rw [f3 f' vs' hm] at he
                exact hin f' v' he
          have finish : ∀ (tn : TC ρ), strip tn = strip (TC.comp ret ins inner out cache) → ValidT S tn →
              Ag S vals (stripKids kids) l tn.out →
              stripKids (setKid l tn k1) = stripKids kids ∧ ValidKids S (setKid l tn k1) ∧
              Ag S vals (stripKids kids) l tn.out ∧ outAt S l (setKid l tn k1) = tn.out ∧
              ∀ l2, Ag S vals (stripKids kids) l2 (outAt S l2 kids) →
                Ag S vals (stripKids kids) l2 (outAt S l2 (setKid l tn k1)) := by
            intro tn hst hvn hagn
            have hst1 : strip tn = strip t1 := by
              have a := lookup_strip l k1; rw [f1, hls, ht1] at a; simp at a; rw [hst, ← a]
            refine ⟨by rw [strip_setKid l _ k1 t1 ht1 hst1, f1], valid_setKid S l _ hvn k1 f2, hagn,
              by rw [outAt_setKid S l l _ k1 t1 ht1]; simp, ?_⟩
            intro l2 hl2
            rw [outAt_setKid S l l2 _ k1 t1 ht1]
            by_cases h2 : l2 = l
            · simp only [h2, if_true]; exact hagn
            · simp only [h2, if_false]; exact f4 l2 hl2
          by_cases hh : hitC KCfg.proposed cache vs inner = true
          · simp only [hh, if_true, Option.some.injEq, Prod.mk.injEq] at h
            obtain ⟨rfl, rfl⟩ := h
            have hin : Ag S vs (stripKids inner) ret out := by
              unfold hitC at hh
              cases cache with
              | none => simp at hh
              | some e =>
                obtain ⟨vs', k⟩ := e
                simp only [Bool.and_eq_true, decide_eq_true_eq] at hh
                have hk := K.beq_sound _ _ hh.2
                intro f' v' he
                exact hvt.2 vs' k rfl (stripKids inner) f' v' hk.symm (by rw [hh.1]; exact he)
            exact finish _ rfl (by simp only [ValidT]; exact hvt) (hag out hin)
          · simp only [hh, Bool.false_eq_true, if_false] at h
            cases hr : runAllL (fun k s => runKid S KCfg.proposed fuel vs k s) inner (labels inner) with
            | none => simp [hr] at h
            | some inner1 =>
              simp only [hr, Option.some.injEq, Prod.mk.injEq] at h
              obtain ⟨rfl, rfl⟩ := h
              obtain ⟨r1, r2, r3, _⟩ := runAllL_spec S vs _ (ih vs) (labels inner) inner inner1 hvt.1 hr
              have hin : Ag S vs (stripKids inner) ret (outAt S ret inner1) := by
                cases hl : lookupC ret inner1 with
                | none =>
                  intro f' v' he
                  have : lookup ret (stripKids inner) = none := by rw [← r1, lookup_strip, hl]; rfl
                  cases f' with
                  | zero => simp [evalP] at he
                  | succ f' => simp [evalP, this] at he; simp [outAt, hl, he]
                | some tr =>
                  have := mem_labels_of_lookupC ret inner1 tr hl
                  rw [labels_strip inner1 inner r1] at this
                  exact r3 ret this
              refine finish _ (by simp [strip, r1]) ?_ (hag _ hin)
              simp only [ValidT]
              refine ⟨r2, ?_⟩
              intro vs' k he kids3 f v hk hev
              simp only [Option.some.injEq, Prod.mk.injEq] at he
              obtain ⟨rfl, rfl⟩ := he
              have hkk : keyKids KCfg.proposed kids3 = keyKids KCfg.proposed (stripKids inner1) := by
                simp only [key, K.mk.injEq] at hk
                exact Prod.ext hk.1 hk.2
              rw [keyP_sound S f _ kids3 _ ret hkk, r1] at hev
              exact hin f v hev

/-! ## the edits of the harness fabricate no cache entry -/

theorem valid_mapKidC (S : Sem ρ) (l : Nat) (f : TC ρ → TC ρ) (hf : ∀ t, ValidT S t → ValidT S (f t)) :
    ∀ (kids : Kids ρ), ValidKids S kids → ValidKids S (mapKidC l f kids)
  | [], _ => by simp [mapKidC, ValidKids]
  | (k, t) :: r, hv => by
    simp only [ValidKids, ValidPair] at hv
    by_cases hk : k = l
    · simp [mapKidC, hk, ValidKids, ValidPair, hf t hv.1, hv.2]
    · simp [mapKidC, hk, ValidKids, ValidPair, hv.1, valid_mapKidC S l f hf r hv.2]

theorem lookupC_mapKidC (l : Nat) (f : TC ρ → TC ρ) (l2 : Nat) : ∀ (kids : Kids ρ),
    lookupC l2 (mapKidC l f kids) = if l2 = l then (lookupC l2 kids).map f else lookupC l2 kids
  | [] => by simp [mapKidC, lookupC]
  | (k, t) :: r => by
    have ih := lookupC_mapKidC l f l2 r
    by_cases hk : k = l
    · subst hk
      by_cases h2 : l2 = k
      · subst h2; simp [mapKidC, lookupC]
      · have : ¬ k = l2 := fun e => h2 e.symm
        simp [mapKidC, lookupC, h2, this]
    · by_cases h2 : l2 = l
      · subst h2
        simp [mapKidC, lookupC, hk, ih]
      · by_cases h3 : k = l2 <;> simp [mapKidC, lookupC, hk, h3, h2, ih]

theorem outAt_mapKidC (S : Sem ρ) (l : Nat) (f : TC ρ → TC ρ) (hf : ∀ t, (f t).out = t.out) (l2 : Nat)
    (kids : Kids ρ) : outAt S l2 (mapKidC l f kids) = outAt S l2 kids := by
  unfold outAt
  rw [lookupC_mapKidC]
  by_cases h2 : l2 = l
  · simp only [h2, if_true]
    cases lookupC l kids with
    | none => rfl
    | some t => simp [hf t]
  · simp [h2]

theorem valid_removeKidC (S : Sem ρ) (l : Nat) : ∀ (kids : Kids ρ), ValidKids S kids → ValidKids S (removeKidC l kids)
  | [], _ => by simp [removeKidC, ValidKids]
  | (k, t) :: r, hv => by
    simp only [ValidKids, ValidPair] at hv
    by_cases hk : k = l
    · simp [removeKidC, hk, hv.2]
    · simp [removeKidC, hk, ValidKids, ValidPair, hv.1, valid_removeKidC S l r hv.2]

theorem valid_append (S : Sem ρ) : ∀ (k1 k2 : Kids ρ), ValidKids S k1 → ValidKids S k2 → ValidKids S (k1 ++ k2)
  | [], _, _, h2 => by simpa using h2
  | p :: r, k2, h1, h2 => by
    simp only [ValidKids] at h1
    simp [ValidKids, h1.1, valid_append S r k2 h1.2 h2]

theorem valid_setIn (S : Sem ρ) (i : Nat) (s : Src) (t : TC ρ) (h : ValidT S t) : ValidT S (t.setIn i s) := by
  cases t <;> simpa [TC.setIn, ValidT] using h

theorem valid_inBody (S : Sem ρ) (clear : Bool) (g : Kids ρ → Kids ρ) (hg : ∀ kids, ValidKids S kids → ValidKids S (g kids))
    (t : TC ρ) (h : ValidT S t) : ValidT S (t.inBody clear g) := by
  cases t with
  | leaf => simpa [TC.inBody] using h
  | comp ret ins kids out cache =>
    simp only [TC.inBody, ValidT] at h ⊢
    refine ⟨hg kids h.1, ?_⟩
    intro vs k hc
    cases clear <;> simp at hc
    exact h.2 vs k hc

/-- any body edit that fabricates no entry, applied at any depth, fabricates none -/
theorem valid_atPathC (S : Sem ρ) (clear : Bool) (g : Kids ρ → Kids ρ)
    (hg : ∀ kids, ValidKids S kids → ValidKids S (g kids)) :
    ∀ (p : List Nat) (kids : Kids ρ), ValidKids S kids → ValidKids S (atPathC clear g p kids)
  | [], kids, hv => hg kids hv
  | l :: p, kids, hv =>
    valid_mapKidC S l _ (fun t ht => valid_inBody S _ _ (valid_atPathC S clear g hg p) t ht) kids hv

theorem out_inBody (clear : Bool) (g : Kids ρ → Kids ρ) (t : TC ρ) : (t.inBody clear g).out = t.out := by
  cases t <;> simp [TC.inBody, TC.out]

theorem harmless_setIn (S : Sem ρ) (l i : Nat) (s : Src) (kids : Kids ρ) (hv : ValidKids S kids) :
    ValidKids S (mapKidC l (TC.setIn i s) kids) :=
  valid_mapKidC S l _ (fun t ht => valid_setIn S i s t ht) kids hv

theorem harmless_add (S : Sem ρ) (l cls : Nat) (ins : List Src) (kids : Kids ρ) (hv : ValidKids S kids) :
    ValidKids S (kids ++ [(l, freshLeaf S cls ins)]) :=
  valid_append S kids _ hv (by simp [ValidKids, ValidPair, ValidT, freshLeaf])

theorem harmless_replace (S : Sem ρ) (l cls : Nat) (ins : List Src) (kids : Kids ρ) (hv : ValidKids S kids) :
    ValidKids S (removeKidC l kids ++ [(l, freshLeaf S cls ins)]) :=
  harmless_add S l cls ins _ (valid_removeKidC S l kids hv)

/-- a replacement INSTANCE with a run history of its own: `replace_child` gives it the old node's inputs and
outputs and drops its input cache — whatever it remembered and whatever its output was, no entry is fabricated -/
theorem harmless_replace_used (S : Sem ρ) (l cls : Nat) (ins : List Src) (o : ρ) (kids : Kids ρ) (hv : ValidKids S kids) :
    ValidKids S (removeKidC l kids ++ [(l, .leaf cls ins o none)]) :=
  valid_append S _ _ (valid_removeKidC S l kids hv) (by simp [ValidKids, ValidPair, ValidT])

/-- a child run by hand at any depth, every record on the way down dropped: no entry is left that vouches for more
than it can -/
theorem valid_handAt [DecidableEq ρ] (S : Sem ρ) (fuel l : Nat) : ∀ (path : List Nat) (kids k' : Kids ρ),
    ValidKids S kids → handAt S KCfg.proposed fuel true l path kids = some k' → ValidKids S k'
  | [], kids, k', hv, h => by
    simp only [handAt] at h
    cases hr : runKid S KCfg.proposed fuel [] kids l with
    | none => simp [hr] at h
    | some q =>
      obtain ⟨k1, v⟩ := q
      simp [hr] at h
      subst h
      exact (runKid_spec S fuel [] kids l k1 v hv hr).2.1
  | p :: ps, kids, k', hv, h => by
    simp only [handAt] at h
    cases ht : lookupC p kids with
    | none => simp [ht] at h; subst h; exact hv
    | some t =>
      cases t with
      | leaf => simp [ht] at h; subst h; exact hv
      | comp ret ins inner out cache =>
        simp only [ht] at h
        cases hi : handAt S KCfg.proposed fuel true l ps inner with
        | none => simp [hi] at h
        | some inner' =>
          simp [hi] at h
          subst h
          have hvt := valid_lookup S p kids _ hv ht
          simp only [ValidT] at hvt
          exact valid_setKid S p _ (by simp only [ValidT]; exact ⟨valid_handAt S fuel l ps inner inner' hvt.1 hi, by simp⟩) kids hv

/-! ## the outermost composite under histories -/

def ValidRoot (S : Sem ρ) (r : Root ρ) : Prop :=
  ValidKids S r.kids ∧
  ∀ k, r.cache = some k → ∀ (kids3 : List (Nat × T)) (f l : Nat) (v : ρ),
    key KCfg.proposed kids3 = k → evalP S f [] kids3 l = some v → outAt S l r.kids = v

/-- every output the root shows is what the cache-free twin computes on the same graph, whenever that delivers -/
def AgreeRoot (S : Sem ρ) (r : Root ρ) : Prop :=
  ∀ f' l v', evalP S f' [] (stripKids r.kids) l = some v' → outAt S l r.kids = v'

/-- an edit below the root: it fabricates no cache entry and leaves the outputs of the root's children alone
(set a free input, rewire, and anything inside a nested composite) -/
def Conservative (S : Sem ρ) (g : Kids ρ → Kids ρ) : Prop :=
  ∀ kids, ValidKids S kids → ValidKids S (g kids) ∧ ∀ l, outAt S l (g kids) = outAt S l kids

/-- an edit through the root's own add/remove/replace_child: it fabricates no cache entry -/
def Harmless (S : Sem ρ) (g : Kids ρ → Kids ρ) : Prop :=
  ∀ kids, ValidKids S kids → ValidKids S (g kids)

def OpOk (S : Sem ρ) : Op ρ → Prop
  | .edit g => Conservative S g
  | .structural g => Harmless S g
  | .run => True
  | .handRun _ clear => clear = true
  | .handRunAt _ _ deep => deep = true

theorem stepC_spec [DecidableEq ρ] (S : Sem ρ) (fuel : Nat) (r r' : Root ρ) (op : Op ρ)
    (res : Option (List (Nat × ρ))) (hv : ValidRoot S r) (hop : OpOk S op)
    (h : stepC S KCfg.proposed fuel r op = some (r', res)) :
    ValidRoot S r' ∧ (op = .run → res = some r'.outs ∧ AgreeRoot S r' ∧ stripKids r'.kids = stripKids r.kids) := by
  cases op with
  | edit g =>
    simp [stepC] at h
    obtain ⟨rfl, rfl⟩ := h
    obtain ⟨c1, c2⟩ := hop r.kids hv.1
    refine ⟨⟨c1, ?_⟩, by simp⟩
    intro k hk kids3 f l v hkey hev
    simp only at hk ⊢
    rw [c2 l]
    exact hv.2 k hk kids3 f l v hkey hev
  | structural g =>
    simp [stepC] at h
    obtain ⟨rfl, rfl⟩ := h
    exact ⟨⟨hop r.kids hv.1, by simp⟩, by simp⟩
  | handRunAt path l deep =>
    simp only [OpOk] at hop
    subst hop
    simp only [stepC] at h
    cases hr : handAt S KCfg.proposed fuel true l path r.kids with
    | none => simp [hr] at h
    | some k1 =>
      simp only [hr, Option.some.injEq, Prod.mk.injEq] at h
      obtain ⟨rfl, rfl⟩ := h
      exact ⟨⟨valid_handAt S fuel l path r.kids k1 hv.1 hr, by simp⟩, by simp⟩
  | handRun l clear =>
    simp only [OpOk] at hop
    subst hop
    simp only [stepC] at h
    cases hr : runKid S KCfg.proposed fuel [] r.kids l with
    | none => simp [hr] at h
    | some p =>
      obtain ⟨k1, v⟩ := p
      simp only [hr, Option.some.injEq, Prod.mk.injEq] at h
      obtain ⟨rfl, rfl⟩ := h
      obtain ⟨_, g2, _⟩ := runKid_spec S fuel [] r.kids l k1 v hv.1 hr
      exact ⟨⟨g2, by simp⟩, by simp⟩
  | run =>
    simp only [stepC] at h
    by_cases hh : r.hit KCfg.proposed = true
    · simp [hh] at h
      obtain ⟨rfl, rfl⟩ := h
      refine ⟨hv, fun _ => ⟨rfl, ?_, rfl⟩⟩
      unfold Root.hit at hh
      cases hc : r.cache with
      | none => simp [hc] at hh
      | some k =>
        simp only [hc] at hh
        have hk := K.beq_sound _ _ hh
        intro f' l v' he
        exact hv.2 k hc (stripKids r.kids) f' l v' hk.symm he
    · simp only [hh, Bool.false_eq_true, if_false] at h
      cases hr : runAllL (fun k s => runKid S KCfg.proposed fuel [] k s) r.kids (labels r.kids) with
      | none => simp [hr] at h
      | some k1 =>
        simp only [hr, Option.some.injEq, Prod.mk.injEq] at h
        obtain ⟨rfl, rfl⟩ := h
        obtain ⟨r1, r2, r3, _⟩ := runAllL_spec S [] _ (runKid_spec S fuel []) (labels r.kids) r.kids k1 hv.1 hr
        have hag : AgreeRoot S { kids := k1, cache := some (key KCfg.proposed (stripKids k1)) } := by
          intro f' l v' he
          simp only at he ⊢
          rw [r1] at he
          cases hl : lookupC l k1 with
          | none =>
            have : lookup l (stripKids r.kids) = none := by rw [← r1, lookup_strip, hl]; rfl
            cases f' with
            | zero => simp [evalP] at he
            | succ f' => simp [evalP, this] at he; simp [outAt, hl, he]
          | some tr =>
            have hm := mem_labels_of_lookupC l k1 tr hl
            rw [labels_strip k1 r.kids r1] at hm
            exact (r3 l hm f' v' he).symm
        refine ⟨⟨r2, ?_⟩, fun _ => ⟨rfl, hag, r1⟩⟩
        intro k hk kids3 f l v hkey hev
        simp only [Option.some.injEq] at hk
        subst hk
        have hkk : keyKids KCfg.proposed kids3 = keyKids KCfg.proposed (stripKids k1) := by
          simp only [key, K.mk.injEq] at hkey
          exact Prod.ext hkey.1 hkey.2
        rw [keyP_sound S f [] kids3 _ l hkk] at hev
        exact hag f l v hev

/-- apply a history; `none` = some run ran out of fuel -/
def runOpsC [DecidableEq ρ] (S : Sem ρ) (c : KCfg) (fuel : Nat) (r : Root ρ) : List (Op ρ) → Option (Root ρ × List (Root ρ))
  | [] => some (r, [])
  | o :: os =>
    match stepC S c fuel r o with
    | none => none
    | some (r1, res) =>
      match runOpsC S c fuel r1 os with
      | none => none
      | some (r2, seen) => some (r2, match o, res with | .run, some _ => r1 :: seen | _, _ => seen)

/-- TRANSPARENCY OF THE WHOLE TREE OF CACHES: along every history of conservative edits, structural edits and
runs, after every run every output of the root agrees with the cache-free evaluation of the graph as it then is -/
theorem runOpsC_spec [DecidableEq ρ] (S : Sem ρ) (fuel : Nat) : ∀ (ops : List (Op ρ)) (r r' : Root ρ)
    (seen : List (Root ρ)), ValidRoot S r → (∀ o ∈ ops, OpOk S o) →
    runOpsC S KCfg.proposed fuel r ops = some (r', seen) → ValidRoot S r' ∧ ∀ x ∈ seen, AgreeRoot S x
  | [], r, r', seen, hv, _, h => by
    simp [runOpsC] at h
    obtain ⟨rfl, rfl⟩ := h
    exact ⟨hv, by simp⟩
  | o :: os, r, r', seen, hv, hok, h => by
    simp only [runOpsC] at h
    cases hs : stepC S KCfg.proposed fuel r o with
    | none => simp [hs] at h
    | some p =>
      obtain ⟨r1, res⟩ := p
      simp only [hs] at h
      cases hr : runOpsC S KCfg.proposed fuel r1 os with
      | none => simp [hr] at h
      | some q =>
        obtain ⟨r2, seen2⟩ := q
        simp only [hr, Option.some.injEq, Prod.mk.injEq] at h
        obtain ⟨rfl, rfl⟩ := h
        obtain ⟨s1, s2⟩ := stepC_spec S fuel r r1 o res hv (hok o (by simp)) hs
        obtain ⟨i1, i2⟩ := runOpsC_spec S fuel os r1 r2 seen2 s1 (fun o' ho' => hok o' (by simp [ho'])) hr
        refine ⟨i1, ?_⟩
        intro x hx
        cases o with
        | run =>
          cases res with
          | none => exact i2 x hx
          | some _ =>
            simp only [List.mem_cons] at hx
            rcases hx with rfl | hx
            · exact (s2 rfl).2.1
            · exact i2 x hx
        | edit g => exact i2 x hx
        | structural g => exact i2 x hx
        | handRun l cl => exact i2 x hx
        | handRunAt pth l dp => exact i2 x hx

/-- … and below the root's children it leaves the outputs of the root's children alone -/
theorem conservative_atPathC (S : Sem ρ) (clear : Bool) (g : Kids ρ → Kids ρ)
    (hg : ∀ kids, ValidKids S kids → ValidKids S (g kids)) (l : Nat) (p : List Nat) :
    Conservative S (atPathC clear g (l :: p)) := by
  intro kids hv
  exact ⟨valid_atPathC S clear g hg (l :: p) kids hv,
    fun l2 => outAt_mapKidC S l _ (fun t => out_inBody _ _ t) l2 kids⟩

/-- assigning / rewiring an input of a child of the root -/
theorem conservative_setIn (S : Sem ρ) (l i : Nat) (s : Src) : Conservative S (mapKidC l (TC.setIn i s)) := by
  intro kids hv
  refine ⟨valid_mapKidC S l _ (fun t ht => valid_setIn S i s t ht) kids hv,
    fun l2 => outAt_mapKidC S l _ (fun t => by cases t <;> rfl) l2 kids⟩


end PwVerif.CacheForest
