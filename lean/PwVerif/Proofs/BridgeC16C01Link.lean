import PwVerif.Proofs.BridgeC16C01
import PwVerif.Props.C01
/-! The notions the C16→C01 bridge restates are C01's own, and its two lemmas are instances of the
C01 property theorems (this file is outside the C16 check's import closure on purpose). -/
namespace PwVerif.BridgeC16C01
open PwVerif PwVerif.Exec

example : @Reach = @C01.Reach := rfl
example : @NoFaults = @C01.NoFaults := rfl

example {cfg d s} (wf : WF d) (rank : Nat → Nat) (hrank : ∀ i j, j ∈ d.deps i → rank j < rank i)
    (hnf : NoFaults d) (h : Reach cfg d s) (hex : s.phase = .exited) (i : Nat) (hm : d.member i) :
    s.calls i = 1 ∧ s.st i = .done := C01.C01_once wf rank hrank hnf h hex i hm

example {cfg d s} (wf : WF d) (rank : Nat → Nat) (hrank : ∀ i j, j ∈ d.deps i → rank j < rank i)
    (hnf : NoFaults d) (h : Reach cfg d s) (hex : s.phase = .exited) (i : Nat) (hm : d.member i) :
    s.out i = .app i (headArgs d s.out i) := C01.C01_value wf rank hrank hnf h hex i hm

/-- the C16 bridge theorem with C01's own names in its hypotheses -/
theorem schedule_independent_C01 {κ ν : Type} [DecidableEq κ] (s : ForLoop.Spec κ ν) (v : ForLoop.Valid s)
    (hdf : s.asDf = true) (cur : ForLoop.Cur κ ν) (g : ForLoop.Good s cur) {cfg : Cfg} {d : Dag} {t : S}
    (hslots : d.slots = forSlots s (ForLoop.refMaps (ForLoop.lensOfCur cur s.iterOn) (ForLoop.lensOfCur cur s.zipOn)))
    (wf : WF d) (hnf : C01.NoFaults d) (hr : C01.Reach cfg d t) (hex : t.phase = .exited) :
    evalV (sem s cur) (t.out dfId) = .table (some (ForLoop.refTable s cur)) :=
  (schedule_independent s v hdf cur g ⟨hslots, wf, hnf, hr, hex⟩).1

end PwVerif.BridgeC16C01
