import PwVerif.Model.Data
import PwVerif.Proofs.Conn
/-! Helper lemmas for the data store: the setter writes one value along a receiver chain or
nothing at all; invariants are preserved by the primitives and hence by every composite
operation. -/
namespace PwVerif.Data
open PwVerif PwVerif.Conn

/-! ## the setter -/

/-- the checks a single channel applies to a new value -/
def pass (P : Params) (s : S) (x : Nat) (v : Val) : Prop :=
  ¬ (s.kind x = .dataIn ∧ s.running (s.owner x) = true) ∧
  ¬ (s.strict x = true ∧ v ≠ .nd ∧ s.hinted x = true ∧ P.admits x v = false)

/-- an exception anywhere along the chain: nothing is stored anywhere -/
theorem setValV_err (P : Params) (s : S) (fuel c : Nat) (v : Val) (m : Nat → Val) (e : Err)
    (h : (setValV P s fuel c v m).2 = some e) : (setValV P s fuel c v m).1 = m := by
  induction fuel generalizing c with
  | zero => simp [setValV]
  | succ fuel ih =>
    unfold setValV at h ⊢
    split
    · rfl
    · split
      · rfl
      · split
        · simp_all
        · rename_i r hr
          have := ih r
          split <;> simp_all

/-- success: exactly the channels of a list `l` (the receiver chain) now hold `v`; each of
them let `v` pass its own checks -/
theorem setValV_ok (P : Params) (s : S) (fuel c : Nat) (v : Val) (m m' : Nat → Val)
    (h : setValV P s fuel c v m = (m', none)) :
    ∃ l : List Nat, c ∈ l ∧ (∀ x, m' x = if x ∈ l then v else m x) ∧ (∀ x ∈ l, pass P s x v) ∧
      ((∀ a r, s.recv a = some r → s.kind r = s.kind a) → ∀ x ∈ l, s.kind x = s.kind c) := by
  induction fuel generalizing c m' with
  | zero => simp [setValV] at h
  | succ fuel ih =>
    unfold setValV at h
    split at h
    · simp at h
    · rename_i h1
      split at h
      · simp at h
      · rename_i h2
        split at h
        · simp only [Prod.mk.injEq, and_true] at h
          subst h
          refine ⟨[c], by simp, ?_, ?_, ?_⟩
          · intro x; by_cases hx : x = c <;> simp [updF, hx]
          · intro x hx; simp at hx; subst hx; exact ⟨h1, h2⟩
          · intro _ x hx; simp at hx; subst hx; rfl
        · rename_i r hr
          split at h
          · rename_i m1 heq
            simp only [Prod.mk.injEq, and_true] at h
            subst h
            obtain ⟨l, hrl, hval, hpass, hkind⟩ := ih r m1 heq
            refine ⟨c :: l, by simp, ?_, ?_, ?_⟩
            · intro x
              by_cases hx : x = c
              · simp [updF, hx]
              · simp [updF, hx, hval x]
            · intro x hx
              rcases List.mem_cons.mp hx with rfl | hx
              · exact ⟨h1, h2⟩
              · exact hpass x hx
            · intro hk x hx
              rcases List.mem_cons.mp hx with rfl | hx
              · rfl
              · rw [hkind hk x hx, hk c r hr]
          · simp at h

theorem setVal_err (P : Params) (fuel : Nat) (s : S) (c : Nat) (v : Val) (e : Err)
    (h : (setVal P fuel s c v).2 = some e) : (setVal P fuel s c v).1 = s := by
  unfold setVal at h ⊢
  simp only at h ⊢
  rw [setValV_err P s fuel c v s.val e h]

/-- shape of a setter call: only the value map changes -/
theorem setVal_shape (P : Params) (fuel : Nat) (s : S) (c : Nat) (v : Val) :
    (setVal P fuel s c v).1 = { s with val := (setVal P fuel s c v).1.val } := rfl

theorem setVal_ok (P : Params) (fuel : Nat) (s : S) (c : Nat) (v : Val)
    (h : (setVal P fuel s c v).2 = none) :
    ∃ l : List Nat, c ∈ l ∧ (∀ x, (setVal P fuel s c v).1.val x = if x ∈ l then v else s.val x) ∧
      (∀ x ∈ l, pass P s x v) ∧
      ((∀ a r, s.recv a = some r → s.kind r = s.kind a) → ∀ x ∈ l, s.kind x = s.kind c) := by
  unfold setVal at h ⊢
  simp only at h ⊢
  exact setValV_ok P s fuel c v s.val _ (Prod.ext rfl h)

/-- a channel without receiver, with fuel left: the setter is the three-way case split -/
theorem setVal_norecv (P : Params) (fuel : Nat) (s : S) (c : Nat) (v : Val) (hr : s.recv c = none) :
    setVal P (fuel + 1) s c v =
      if s.kind c = .dataIn ∧ s.running (s.owner c) = true then (s, some .runtime)
      else if s.strict c = true ∧ v ≠ .nd ∧ s.hinted c = true ∧ P.admits c v = false then (s, some .type)
      else ({ s with val := updF s.val c v }, none) := by
  unfold setVal setValV
  split
  · rfl
  · split
    · rfl
    · simp [hr]

/-! ## the invariants -/

/-- no strictly hinted channel holds a value its hint rejects -/
def Good (P : Params) (s : S) : Prop :=
  ∀ c, s.strict c = true → s.hinted c = true → s.val c = .nd ∨ P.admits c (s.val c) = true

/-- receivers have the class of the sender -/
def RecvKind (s : S) : Prop := ∀ a r, s.recv a = some r → s.kind r = s.kind a

/-- connection lists are ordered by the time of the effective connect, newest first -/
def Sorted (s : S) : Prop := ∀ i, (s.conns i).Pairwise (fun a b => s.since i a > s.since i b)

/-- every present connection was stamped in the past -/
def Stamped (s : S) : Prop := ∀ i, ∀ a ∈ s.conns i, s.since i a < s.clock

structure WF (P : Params) (s : S) : Prop where
  conn    : Conn.Inv (toG P s)
  sorted  : Sorted s
  stamped : Stamped s
  recv    : RecvKind s

theorem setVal_good (P : Params) (fuel : Nat) (s : S) (c : Nat) (v : Val) (h : Good P s) :
    Good P (setVal P fuel s c v).1 := by
  cases hres : (setVal P fuel s c v).2 with
  | some e => rw [setVal_err P fuel s c v e hres]; exact h
  | none =>
    obtain ⟨l, _, hval, hpass, _⟩ := setVal_ok P fuel s c v hres
    intro x hs hh
    have hs' : s.strict x = true := hs
    have hh' : s.hinted x = true := hh
    rw [hval x]
    by_cases hx : x ∈ l
    · simp only [hx, if_true]
      have := (hpass x hx).2
      by_cases hv : v = .nd
      · exact Or.inl hv
      · right
        cases hadm : P.admits x v with
        | true => rfl
        | false => exact absurd ⟨hs', hv, hh', hadm⟩ this
    · simp only [hx, if_false]
      exact h x hs' hh'

theorem inv_congr {g g' : G} (hk : g'.kind = g.kind) (hc : g'.conns = g.conns) (h : Conn.Inv g) :
    Conn.Inv g' :=
  ⟨by rw [hc]; exact h.symm, by rw [hc, hk]; exact h.typed, by rw [hc]; exact h.nodup⟩

/-- anything that leaves kinds, connections, stamps and receivers alone keeps `WF` -/
theorem WF.of_same {P : Params} {s s' : S} (h : WF P s) (hk : s'.kind = s.kind) (hc : s'.conns = s.conns)
    (hcl : s'.clock = s.clock) (hs : s'.since = s.since) (hr : s'.recv = s.recv) : WF P s' := by
  refine ⟨inv_congr (g := toG P s) hk hc h.conn, ?_, ?_, ?_⟩
  · intro i; rw [hc, hs]; exact h.sorted i
  · intro i a ha; rw [hc] at ha; rw [hs, hcl]; exact h.stamped i a ha
  · intro a r hra; rw [hr] at hra; rw [hk]; exact h.recv a r hra

theorem setVal_wf (P : Params) (fuel : Nat) (s : S) (c : Nat) (v : Val) (h : WF P s) :
    WF P (setVal P fuel s c v).1 := h.of_same rfl rfl rfl rfl rfl

theorem upd2_other (f : Nat → Nat → Nat) (a b v x y : Nat) (h : ¬ (x = a ∧ y = b)) :
    upd2 f a b v x y = f x y := by
  unfold upd2 updF
  by_cases hx : x = a
  · subst hx
    by_cases hy : y = b
    · exact absurd ⟨rfl, hy⟩ h
    · simp [hy]
  · simp [hx]

theorem upd2_same (f : Nat → Nat → Nat) (a b v : Nat) : upd2 f a b v a b = v := by
  simp [upd2, updF]

/-- what an effective connect does -/
theorem connectS_cases (P : Params) (s : S) (a b : Nat) :
    ((connectS P s a b).1 = s) ∨
    (b ∉ s.conns a ∧ (s.kind a).conj (s.kind b) = true ∧ (connectS P s a b).2 = none ∧
      (connectS P s a b).1 =
        { s with conns := updF (updF s.conns a (b :: s.conns a)) b (a :: s.conns b),
                 clock := s.clock + 1,
                 since := upd2 (upd2 s.since a b s.clock) b a s.clock }) := by
  by_cases hin : b ∈ s.conns a
  · left; simp [connectS, hin]
  · by_cases hconj : (s.kind a).conj (s.kind b) = true
    · by_cases hv : effValid P s a b = true
      · right
        refine ⟨hin, hconj, ?_, ?_⟩ <;> simp [connectS, connect1, toG, hin, hconj, hv]
      · left; simp [connectS, connect1, toG, hin, hconj, hv]
    · left; simp [connectS, connect1, toG, hin, hconj]

theorem connectS_wf (P : Params) (s : S) (a b : Nat) (h : WF P s) : WF P (connectS P s a b).1 := by
  rcases connectS_cases P s a b with heq | ⟨hnot, hconj, _, heq⟩
  · rw [heq]; exact h
  · rw [heq]
    have hab : a ≠ b := by
      intro e; subst e; simp [conj_irrefl] at hconj
    have hnot' : a ∉ s.conns b := fun hm => hnot ((h.conn.symm a b).mpr hm)
    have hci : Conn.Inv (connect1 (toG P s) a b).1 := connect1_inv (toG P s) a b h.conn
    refine ⟨?_, ?_, ?_, ?_⟩
    · -- the connection invariant: reuse C12's lemma on a graph that accepts the pair
      have hc1 := connect1_inv { toG P s with valid := fun _ _ => true } a b
        (inv_congr (g := toG P s) rfl rfl h.conn)
      have : (connect1 { toG P s with valid := fun _ _ => true } a b).1 =
          { toG P s with valid := fun _ _ => true,
                         conns := updF (updF s.conns a (b :: s.conns a)) b (a :: s.conns b) } := by
        simp [connect1, toG, hnot, hconj]
      rw [this] at hc1
      exact ⟨hc1.symm, hc1.typed, hc1.nodup⟩
    · intro i
      simp only
      by_cases hib : i = b
      · subst hib
        simp only [updF_same]
        refine List.pairwise_cons.mpr ⟨?_, ?_⟩
        · intro y hy
          have hya : y ≠ a := fun e => hnot' (e ▸ hy)
          rw [upd2_same, upd2_other _ _ _ _ _ _ (by intro ⟨_, e⟩; exact hya e),
            upd2_other _ _ _ _ _ _ (by intro ⟨e, _⟩; exact hab e.symm)]
          exact h.stamped i y hy
        · refine List.Pairwise.imp_of_mem ?_ (h.sorted i)
          intro x y hx hy hlt
          have hxa : x ≠ a := fun e => hnot' (e ▸ hx)
          have hya : y ≠ a := fun e => hnot' (e ▸ hy)
          rw [upd2_other _ _ _ _ _ _ (by intro ⟨_, e⟩; exact hxa e),
            upd2_other _ _ _ _ _ _ (by intro ⟨e, _⟩; exact hab e.symm),
            upd2_other _ _ _ _ _ _ (by intro ⟨_, e⟩; exact hya e),
            upd2_other _ _ _ _ _ _ (by intro ⟨e, _⟩; exact hab e.symm)]
          exact hlt
      · by_cases hia : i = a
        · subst hia
          simp only [updF_other _ _ _ _ hib, updF_same]
          refine List.pairwise_cons.mpr ⟨?_, ?_⟩
          · intro y hy
            have hyb : y ≠ b := fun e => hnot (e ▸ hy)
            rw [upd2_other _ _ _ _ _ _ (by intro ⟨e, _⟩; exact hib e), upd2_same,
              upd2_other _ _ _ _ _ _ (by intro ⟨e, _⟩; exact hib e),
              upd2_other _ _ _ _ _ _ (by intro ⟨_, e⟩; exact hyb e)]
            exact h.stamped i y hy
          · refine List.Pairwise.imp_of_mem ?_ (h.sorted i)
            intro x y hx hy hlt
            have hxb : x ≠ b := fun e => hnot (e ▸ hx)
            have hyb : y ≠ b := fun e => hnot (e ▸ hy)
            rw [upd2_other _ _ _ _ _ _ (by intro ⟨e, _⟩; exact hib e),
              upd2_other _ _ _ _ _ _ (by intro ⟨_, e⟩; exact hxb e),
              upd2_other _ _ _ _ _ _ (by intro ⟨e, _⟩; exact hib e),
              upd2_other _ _ _ _ _ _ (by intro ⟨_, e⟩; exact hyb e)]
            exact hlt
        · simp only [updF_other _ _ _ _ hib, updF_other _ _ _ _ hia]
          refine List.Pairwise.imp_of_mem ?_ (h.sorted i)
          intro x y _ _ hlt
          rw [upd2_other _ _ _ _ _ _ (by intro ⟨e, _⟩; exact hib e),
            upd2_other _ _ _ _ _ _ (by intro ⟨e, _⟩; exact hia e),
            upd2_other _ _ _ _ _ _ (by intro ⟨e, _⟩; exact hib e),
            upd2_other _ _ _ _ _ _ (by intro ⟨e, _⟩; exact hia e)]
          exact hlt
    · intro i y hy
      simp only at hy ⊢
      by_cases hib : i = b
      · subst hib
        simp only [updF_same] at hy
        rcases List.mem_cons.mp hy with rfl | hy
        · rw [upd2_same]; omega
        · have hya : y ≠ a := fun e => hnot' (e ▸ hy)
          rw [upd2_other _ _ _ _ _ _ (by intro ⟨_, e⟩; exact hya e),
            upd2_other _ _ _ _ _ _ (by intro ⟨e, _⟩; exact hab e.symm)]
          have := h.stamped i y hy; omega
      · by_cases hia : i = a
        · subst hia
          simp only [updF_other _ _ _ _ hib, updF_same] at hy
          rcases List.mem_cons.mp hy with rfl | hy
          · rw [upd2_other _ _ _ _ _ _ (by intro ⟨e, _⟩; exact hib e), upd2_same]; omega
          · have hyb : y ≠ b := fun e => hnot (e ▸ hy)
            rw [upd2_other _ _ _ _ _ _ (by intro ⟨e, _⟩; exact hib e),
              upd2_other _ _ _ _ _ _ (by intro ⟨_, e⟩; exact hyb e)]
            have := h.stamped i y hy; omega
        · simp only [updF_other _ _ _ _ hib, updF_other _ _ _ _ hia] at hy
          rw [upd2_other _ _ _ _ _ _ (by intro ⟨e, _⟩; exact hib e),
            upd2_other _ _ _ _ _ _ (by intro ⟨e, _⟩; exact hia e)]
          have := h.stamped i y hy; omega
    · exact h.recv

theorem updF_sublist (f g : Nat → List Nat) (a : Nat) (l : List Nat) (h1 : l.Sublist (g a))
    (h2 : ∀ i, (f i).Sublist (g i)) (i : Nat) : (updF f a l i).Sublist (g i) := by
  by_cases hi : i = a
  · subst hi; simpa [updF] using h1
  · simpa [updF, hi] using h2 i

theorem disconnectS_conns_sublist (P : Params) (s : S) (a b i : Nat) :
    ((disconnectS P s a b).conns i).Sublist (s.conns i) := by
  have h1 : ∀ i, (updF s.conns a ((s.conns a).erase b) i).Sublist (s.conns i) :=
    updF_sublist _ _ _ _ List.erase_sublist (fun _ => List.Sublist.refl _)
  unfold disconnectS disconnect1
  simp only [toG]
  by_cases hb : b ∈ s.conns a
  · simp only [hb, if_true]
    by_cases ha : a ∈ updF s.conns a ((s.conns a).erase b) b
    · simp only [ha, if_true]
      exact updF_sublist _ _ _ _ (List.Sublist.trans List.erase_sublist (h1 b)) h1 i
    · simp only [ha, if_false]
      exact h1 i
  · simp only [hb, if_false]
    exact List.Sublist.refl _

theorem disconnectS_wf (P : Params) (s : S) (a b : Nat) (h : WF P s) : WF P (disconnectS P s a b) := by
  refine ⟨?_, ?_, ?_, h.recv⟩
  · have := disconnect1_inv (toG P s) a b h.conn
    have hst := disconnect1_static (toG P s) a b
    exact inv_congr (g := disconnect1 (toG P s) a b) hst.kind.symm rfl this
  · intro i
    exact List.Pairwise.sublist (disconnectS_conns_sublist P s a b i) (h.sorted i)
  · intro i y hy
    exact h.stamped i y ((disconnectS_conns_sublist P s a b i).subset hy)

/-! ## preservation by every operation -/

/-- an invariant preserved by the primitives; `act` says whether it also survives switching
strict hints **on** -/
structure Pres (P : Params) (act : Bool) (I : S → Prop) : Prop where
  vals       : ∀ fuel s c v, I s → I (setVal P fuel s c v).1
  connect    : ∀ s a b, I s → I (connectS P s a b).1
  disconnect : ∀ s a b, I s → I (disconnectS P s a b)
  recv       : ∀ (s : S) a r, (∀ b, r = some b → s.kind b = s.kind a) → I s →
                 I { s with recv := updF s.recv a r }
  flags      : ∀ (s : S) f g, I s → I { s with running := f, failed := g }
  calls      : ∀ (s : S) l, I s → I { s with calls := l }
  strict     : ∀ (s : S) c b, (b = true → act = true) → I s → I { s with strict := updF s.strict c b }
  mutate     : ∀ (s : S) k k', act = true → I s → I (mutateS s k k')
  reset      : ∀ (s : S) n cs, I s → I (resetNode s n cs)
  clear      : ∀ (s : S) scope, I s → I (rtClear P s scope)
  cache      : ∀ (s : S) c (p : Nat → List (List Val)), I s → I { s with cached := c, pending := p }

/-- operations that are assignment paths or edits, i.e. everything except switching strict
hints on and changing a stored mutable value in place behind the channels' back (neither consults
a hint, so either can leave a value in a strict channel that its hint rejects) -/
def Op.noActivate : Op → Prop
  | .setStrict _ b => b = false
  | .mutate _ _ => False
  | _ => True

theorem wrap_fst (r : S × Option Err) : (wrap r).1 = r.1 := by
  obtain ⟨s, e⟩ := r; cases e <;> rfl

instance (op : Op) : Decidable op.noActivate := by
  cases op <;> simp only [Op.noActivate] <;> infer_instance

section pres
variable {P : Params} {act : Bool} {I : S → Prop} (hp : Pres P act I)
include hp

theorem connectMany_pres (s : S) (a : Nat) (bs : List Nat) (h : I s) : I (connectMany P s a bs).1 := by
  induction bs generalizing s with
  | nil => exact h
  | cons b bs ih =>
    unfold connectMany
    have h1 := hp.connect s a b h
    split
    · rename_i s' heq; rw [heq] at h1; exact ih s' h1
    · rename_i s' e heq; rw [heq] at h1; exact h1

theorem fetch1_pres (fuel : Nat) (s : S) (i : Nat) (h : I s) : I (fetch1 P fuel s i).1 := by
  unfold fetch1; split
  · exact hp.vals _ _ _ _ h
  · exact h

theorem fetchAll_pres (fuel : Nat) (s : S) (is : List Nat) (h : I s) : I (fetchAll P fuel s is).1 := by
  induction is generalizing s with
  | nil => exact h
  | cons i is ih =>
    unfold fetchAll
    have h1 := fetch1_pres hp fuel s i h
    split
    · rename_i s' heq; rw [heq] at h1; exact ih s' h1
    · rename_i s' e heq; rw [heq] at h1; exact h1

theorem assign_pres (fuel : Nat) (s : S) (c : Nat) (a : Arg) (h : I s) : I (assign P fuel s c a).1 := by
  cases a with
  | v x => exact hp.vals _ _ _ _ h
  | ch o => exact hp.connect _ _ _ h

theorem setInputs_pres (fuel : Nat) (s : S) (kw : List (Nat × Arg)) (h : I s) :
    I (setInputs P fuel s kw).1 := by
  induction kw generalizing s with
  | nil => exact h
  | cons p kw ih =>
    obtain ⟨c, a⟩ := p
    unfold setInputs
    have h1 := assign_pres hp fuel s c a h
    split
    · rename_i s' heq; rw [heq] at h1; exact ih s' h1
    · rename_i s' e heq; rw [heq] at h1; exact h1

theorem link_pres (fuel : Nat) (s : S) (a : Nat) (b : Option Nat) (h : I s) : I (link P fuel s a b).1 := by
  cases b with
  | none => simp only [link]; exact hp.recv s a none (by simp) h
  | some b =>
    simp only [link]
    split
    · exact h
    · rename_i hk
      split
      · exact h
      · split
        · exact h
        · have h1 := hp.vals fuel s b (s.val a) h
          split
          · rename_i s' heq
            rw [heq] at h1
            have hk' : s'.kind = s.kind := by
              have := congrArg (fun r => r.1.kind) heq; simpa [setVal] using this.symm
            refine hp.recv s' a (some b) ?_ h1
            intro x hx; cases hx
            rw [hk']; exact Decidable.not_not.mp hk
          · rename_i s' e heq; rw [heq] at h1; exact h1

theorem undo_pres (fuel : Nat) (s : S) (old : List (Nat × Val)) (h : I s) : I (undo P fuel s old).1 := by
  induction old generalizing s with
  | nil => exact h
  | cons p r ih =>
    obtain ⟨c, v⟩ := p
    unfold undo
    have h1 := hp.vals fuel s c v h
    split
    · rename_i s' heq; rw [heq] at h1; exact ih s' h1
    · rename_i s' e heq; rw [heq] at h1; exact h1

theorem failCopy_pres (fuel : Nat) (s : S) (old : List (Nat × Val)) (h : I s) :
    I (failCopy P fuel s old).1 := by
  unfold failCopy
  have h1 := undo_pres hp fuel s old h
  split
  · rename_i s' heq; rw [heq] at h1; exact h1
  · rename_i s' e heq; rw [heq] at h1; exact h1

theorem copyPanel_pres (fuel : Nat) (fh : Bool) (s : S) (ps : List (Option Nat × Nat))
    (old : List (Nat × Val)) (h : I s) : I (copyPanel P fuel fh s ps old).1.1 := by
  induction ps generalizing s old with
  | nil => exact h
  | cons p ps ih =>
    obtain ⟨my, o⟩ := p
    unfold copyPanel
    split
    · exact ih s old h
    · cases my with
      | none =>
        simp only
        split
        · exact failCopy_pres hp fuel s old h
        · exact ih s old h
      | some m =>
        simp only
        have h1 := hp.vals fuel s m (s.val o) h
        split
        · rename_i s' heq; rw [heq] at h1; exact ih s' _ h1
        · rename_i s' e heq
          rw [heq] at h1
          split
          · exact failCopy_pres hp fuel s' old h1
          · exact ih s' old h1

theorem copyValues_pres (fuel : Nat) (fh : Bool) (s : S) (pin pout : List (Option Nat × Nat)) (h : I s) :
    I (copyValues P fuel fh s pin pout).1 := by
  unfold copyValues
  have h1 := copyPanel_pres hp fuel fh s pin [] h
  split
  · rename_i s' oldIn heq
    rw [heq] at h1
    have h2 := copyPanel_pres hp fuel fh s' pout [] h1
    split
    · rename_i s'' _ heq2; rw [heq2] at h2; exact h2
    · rename_i s'' e _ heq2
      rw [heq2] at h2
      have h3 := undo_pres hp fuel s'' oldIn h2
      split
      · rename_i s3 heq3; rw [heq3] at h3; exact h3
      · rename_i s3 e' heq3; rw [heq3] at h3; exact h3
  · rename_i s' e _ heq; rw [heq] at h1; exact h1

theorem setOutputs_pres (fuel : Nat) (s : S) (os : List Nat) (vs : List Val) (h : I s) :
    I (setOutputs P fuel s os vs).1 := by
  induction os generalizing s vs with
  | nil => unfold setOutputs; exact h
  | cons o os ih =>
    cases vs with
    | nil => unfold setOutputs; exact h
    | cons v vs =>
      unfold setOutputs
      have h1 := hp.vals fuel s o v h
      split
      · rename_i s' heq; rw [heq] at h1; exact ih s' vs h1
      · rename_i s' e heq; rw [heq] at h1; exact h1

theorem runNode_pres (fuel : Nat) (s : S) (n : Nat) (kw : List (Nat × Arg)) (h : I s) :
    I (runNode P fuel s n kw).1 := by
  unfold runNode
  have h1 := setInputs_pres hp fuel s kw h
  split
  · rename_i s1 e heq; rw [heq] at h1; exact h1
  · rename_i s1 heq
    rw [heq] at h1
    have h2 := fetchAll_pres hp fuel s1 (s1.ins n) h1
    split
    · rename_i s2 e heq2; rw [heq2] at h2; exact h2
    · rename_i s2 heq2
      rw [heq2] at h2
      split
      · simp only
        have h3 := hp.calls s2 (s2.calls ++ [(n, (s2.ins n).map s2.val)]) h2
        have h4 := setOutputs_pres hp fuel _ (s2.outs n) (P.fn n ((s2.ins n).map s2.val)) h3
        split
        · rename_i s4 heq4; rw [heq4] at h4; exact h4
        · rename_i s4 e heq4
          rw [heq4] at h4
          exact hp.flags s4 _ _ h4
      · exact h2

theorem restoreConns_pres (st : S) (res l : List (Nat × Nat)) (h : I st) :
    I (restoreConns P st res l).1 := by
  induction l generalizing st with
  | nil => exact h
  | cons p l ih =>
    obtain ⟨i, o⟩ := p
    unfold restoreConns
    split
    · exact h
    · rename_i o' _
      have h1 := hp.connect st i o' h
      split
      · rename_i st' heq; rw [heq] at h1; exact ih st' h1
      · rename_i st' e heq; rw [heq] at h1; exact h1

theorem forge_pres (fuel : Nat) (push : Bool) (st : S) (a b : Nat) (h : I st) :
    I (forge P fuel push st a b).1 := by
  unfold forge
  split
  · exact link_pres hp fuel st a (some b) h
  · split
    · exact h
    · rename_i hk
      refine hp.recv st a (some b) ?_ h
      intro x hx; cases hx; exact Decidable.not_not.mp hk

theorem restoreLinks_pres (fuel : Nat) (must push : Bool) (pre : S) (res : List (Nat × Nat)) (st : S)
    (l : List Nat) (h : I st) : I (restoreLinks P fuel must push pre res st l).1 := by
  induction l generalizing st with
  | nil => exact h
  | cons a l ih =>
    unfold restoreLinks
    split
    · split
      · exact h
      · exact ih st h
    · split
      · exact h
      · rename_i b' _
        have h1 := forge_pres hp fuel push st a b' h
        split
        · rename_i st' heq; rw [heq] at h1; exact ih st' h1
        · rename_i st' e heq; rw [heq] at h1; exact h1

theorem restoreComp_pres (fuel : Nat) (pre st : S) (C : Comp) (h : I st) :
    I (restoreComp P fuel pre st C).1 := by
  unfold restoreComp
  have h1 := restoreConns_pres hp st C.resOut
    (if P.cfg.revIter then (saved P pre C).reverse else saved P pre C) h
  split
  · rename_i st1 e heq; rw [heq] at h1; exact h1
  · rename_i st1 heq
    rw [heq] at h1
    have h2 := restoreLinks_pres hp fuel P.cfg.allIn P.cfg.pushIn pre C.resIn st1 C.mins h1
    split
    · rename_i st2 e heq2; rw [heq2] at h2; exact h2
    · rename_i st2 heq2; rw [heq2] at h2
      exact restoreLinks_pres hp fuel false P.cfg.pushOut pre C.resMOut st2 C.couts h2

theorem restoreAll_pres (fuel : Nat) (pre st : S) (cs : List Comp) (h : I st) :
    I (restoreAll P fuel pre st cs).1 := by
  induction cs generalizing st with
  | nil => exact h
  | cons C cs ih =>
    unfold restoreAll
    have h1 := restoreComp_pres hp fuel pre st C h
    split
    · rename_i st' heq; rw [heq] at h1; exact ih st' h1
    · rename_i st' e heq; rw [heq] at h1; exact h1

theorem roundTrip_pres (fuel : Nat) (s : S) (scope : List Nat) (cs : List Comp) (h : I s) :
    I (roundTrip P fuel s scope cs).1 := by
  unfold roundTrip
  have h1 := restoreAll_pres hp fuel s (rtClear P s scope) cs (hp.clear s scope h)
  split
  · rename_i s' heq; rw [heq] at h1; exact h1
  · exact h

theorem pres_aux (s : S) (f g : Nat → Bool) (l : List (Nat × List Val)) (c : Nat → Option (List Val))
    (p : Nat → List (List Val))
    (h : I s) : I { s with running := f, failed := g, calls := l, cached := c, pending := p } := by
  have h1 := hp.flags s f g h
  have h2 := hp.calls _ l h1
  exact hp.cache _ c p h2

theorem admission_pres (fuel : Nat) (s : S) (n : Nat) (kw : List (Nat × Arg)) (h : I s) :
    I (admission P fuel s n kw).1 := by
  unfold admission
  have h1 := setInputs_pres hp fuel s kw h
  split
  · rename_i s1 e heq; rw [heq] at h1; exact h1
  · rename_i s1 heq
    rw [heq] at h1
    have h2 := fetchAll_pres hp fuel s1 (s1.ins n) h1
    split
    · rename_i s2 e heq2; rw [heq2] at h2; exact h2
    · rename_i s2 heq2
      rw [heq2] at h2
      simp only
      split
      · split
        · exact h2
        · exact pres_aux hp s2 _ _ _ _ _ h2
      · exact h2

theorem finishRun_pres (fuel : Nat) (s : S) (n : Nat) (args : List Val) (h : I s) :
    I (finishRun P fuel s n args).1 := by
  unfold finishRun
  simp only
  have h3 : I { s with calls := s.calls ++ [(n, args)], running := updF s.running n false } :=
    pres_aux hp s _ _ _ _ _ h
  have h4 := setOutputs_pres hp fuel _ (s.outs n) (P.fn n args) h3
  split
  · rename_i s4 heq4; rw [heq4] at h4; exact pres_aux hp s4 _ _ _ _ _ h4
  · rename_i s4 e heq4
    rw [heq4] at h4
    exact pres_aux hp s4 _ _ _ _ _ h4

theorem runKids_pres (run : S → Nat → S × Out) (hrun : ∀ t k, I t → I (run t k).1) (deps : Nat → List Nat)
    (s : S) (ks done : List Nat) (bad : Bool) (h : I s) : I (runKids run deps s ks done bad).1 := by
  induction ks generalizing s done bad with
  | nil => exact h
  | cons k ks ih =>
    unfold runKids
    split
    · have h1 := hrun s k h
      cases hr : run s k with
      | mk s' o =>
        rw [hr] at h1
        cases o with
        | invoked e => cases e <;> exact ih s' _ _ h1
        | _ => exact ih s' _ _ h1
    · exact ih s _ _ h

theorem runFirst_pres (run : S → Nat → S × Out) (hrun : ∀ t k, I t → I (run t k).1)
    (s : S) (ks : List Nat) (h : I s) : I (runFirst run s ks).1 := by
  induction ks generalizing s with
  | nil => exact h
  | cons k ks ih =>
    unfold runFirst
    have h1 := hrun s k h
    cases hr : run s k with
    | mk s' o =>
      rw [hr] at h1
      cases o with
      | err e => exact h1
      | invoked e =>
        cases e with
        | none => exact ih s' h1
        | some e => exact h1
      | ok => exact ih s' h1
      | hit => exact ih s' h1
      | submitted => exact ih s' h1

theorem runAny_pres (fuel d : Nat) (s : S) (n : Nat) (kw : List (Nat × Arg)) (h : I s) :
    I (runAny P fuel d s n kw).1 := by
  induction d generalizing s n kw with
  | zero => exact h
  | succ d ih =>
    unfold runAny
    have h1 := admission_pres hp fuel s n kw h
    split
    · rename_i s' e heq; rw [heq] at h1; exact h1
    · rename_i s' heq; rw [heq] at h1; exact h1
    · rename_i s' args heq
      rw [heq] at h1
      split
      · exact finishRun_pres hp fuel s' n args h1
      · split
        · have h2 := runFirst_pres hp (fun t k => runAny P fuel d t k []) (fun t k ht => ih t k [] ht) s'
            ((s'.kids n).filter fun k => s'.running k) h1
          split
          · rename_i s'' heq2; rw [heq2] at h2; exact pres_aux hp s'' _ _ _ _ _ h2
          · rename_i s'' e heq2; rw [heq2] at h2; exact pres_aux hp s'' _ _ _ _ _ h2
        · have h2 := runKids_pres hp (fun t k => runAny P fuel d t k []) (fun t k ht => ih t k [] ht) s'.deps s'
            (s'.kids n) [] false h1
          split
          · rename_i s'' heq2; rw [heq2] at h2; exact pres_aux hp s'' _ _ _ _ _ h2
          · rename_i s'' heq2; rw [heq2] at h2
            exact pres_aux hp s'' _ _ _ _ _ h2

theorem submitRun_pres (fuel : Nat) (s : S) (n : Nat) (kw : List (Nat × Arg)) (h : I s) :
    I (submitRun P fuel s n kw).1 := by
  unfold submitRun
  have h1 := admission_pres hp fuel s n kw h
  split
  · rename_i s' e heq; rw [heq] at h1; exact h1
  · rename_i s' heq; rw [heq] at h1; exact h1
  · rename_i s' args heq; rw [heq] at h1; exact pres_aux hp s' _ _ _ _ _ h1

theorem completeRun_pres (fuel : Nat) (s : S) (n : Nat) (h : I s) : I (completeRun P fuel s n).1 := by
  unfold completeRun
  split
  · exact finishRun_pres hp fuel _ n _ (pres_aux hp s _ _ _ _ _ h)
  · exact h

theorem softCopy_pres (fuel : Nat) (src st : S) (cs : List Nat) (h : I st) : I (softCopy P fuel src st cs) := by
  induction cs generalizing st with
  | nil => exact h
  | cons c r ih =>
    unfold softCopy
    split
    · exact ih st h
    · exact ih _ (hp.vals fuel st c _ h)

theorem pushSoft_pres (fuel : Nat) (st : S) (a b : Nat) (h : I st) : I (pushSoft P fuel st a b) := by
  unfold pushSoft
  split
  · exact h
  · rename_i hk
    refine hp.vals fuel _ b _ (hp.recv st a (some b) ?_ h)
    intro x hx; cases hx; exact Decidable.not_not.mp hk

theorem pushAll_pres (fuel : Nat) (l : List (Nat × Nat)) (st : S) (h : I st) :
    I (l.foldl (fun st p => pushSoft P fuel st p.1 p.2) st) := by
  induction l generalizing st with
  | nil => exact h
  | cons p l ih => exact ih _ (pushSoft_pres hp fuel st p.1 p.2 h)

theorem replaceNode_pres (fuel : Nat) (s : S) (n : Nat) (pins pouts : List Nat) (h : I s) :
    I (replaceNode P fuel s n pins pouts).1 := by
  unfold replaceNode
  simp only
  split
  · exact pushAll_pres hp fuel _ _ (softCopy_pres hp fuel s _ _ (hp.reset s n _ h))
  · exact h

theorem step_pres (fuel : Nat) (s : S) (op : Op) (hop : act = true ∨ op.noActivate) (h : I s) :
    I (step P fuel s op).1 := by
  cases op with
  | set c v => simp only [step, wrap_fst]; exact hp.vals _ _ _ _ h
  | assign c a => simp only [step, wrap_fst]; exact assign_pres hp fuel s c a h
  | setInputs kw => simp only [step, wrap_fst]; exact setInputs_pres hp fuel s kw h
  | fetch c => simp only [step, wrap_fst]; exact fetch1_pres hp fuel s c h
  | fetchAll n => simp only [step, wrap_fst]; exact fetchAll_pres hp fuel s _ h
  | link a b => simp only [step, wrap_fst]; exact link_pres hp fuel s a b h
  | connect a b => simp only [step, wrap_fst]; exact hp.connect _ _ _ h
  | connectMany a bs => simp only [step, wrap_fst]; exact connectMany_pres hp s a bs h
  | disconnect a b => exact hp.disconnect _ _ _ h
  | copyValues fh pin pout => simp only [step, wrap_fst]; exact copyValues_pres hp fuel fh s pin pout h
  | run n kw => exact runAny_pres hp fuel fuel s n kw h
  | submit n kw => exact submitRun_pres hp fuel s n kw h
  | complete n => exact completeRun_pres hp fuel s n h
  | replace n pins pouts => simp only [step, wrap_fst]; exact replaceNode_pres hp fuel s n pins pouts h
  | mutate k k' =>
    refine hp.mutate s k k' ?_ h
    rcases hop with ha | hn
    · exact ha
    · exact absurd hn (by simp [Op.noActivate])
  | setStrict c b =>
    refine hp.strict s c b ?_ h
    intro hb
    rcases hop with ha | hn
    · exact ha
    · simp [Op.noActivate] at hn; simp [hn] at hb
  | flag n r f => exact hp.flags s _ _ h
  | roundTrip scope cs => simp only [step, wrap_fst]; exact roundTrip_pres hp fuel s scope cs h

theorem run_pres (fuel : Nat) (s : S) (ops : List Op) (hops : act = true ∨ ∀ op ∈ ops, op.noActivate)
    (h : I s) : I (run P fuel s ops) := by
  unfold run
  induction ops generalizing s with
  | nil => exact h
  | cons o os ih =>
    refine ih _ ?_ (step_pres hp fuel s o ?_ h)
    · rcases hops with ha | hn
      · exact Or.inl ha
      · exact Or.inr fun op hm => hn op (List.mem_cons_of_mem _ hm)
    · rcases hops with ha | hn
      · exact Or.inl ha
      · exact Or.inr (hn o List.mem_cons_self)

end pres

/-- what the typed-store invariant needs from pickle's copy of a value: the marker comes back as
the marker, and a copy is admitted by a hint whenever the original is (it has the same type) -/
structure CopyOk (P : Params) : Prop where
  marker : P.copyVal .nd = .nd
  typed  : ∀ c v, P.admits c v = true → P.admits c (P.copyVal v) = true

theorem copyOk_id (P : Params) (h : P.copyVal = id) : CopyOk P := ⟨by simp [h], by simp [h]⟩

theorem good_pres (P : Params) (hcopy : CopyOk P) : Pres P false (Good P) where
  clear s scope h := by
    intro c hs hh
    have := h c hs hh
    simp only [rtClear]
    by_cases hc : c ∈ scope
    · simp only [hc, if_true]
      rcases this with h0 | h1
      · left; rw [h0]; exact hcopy.marker
      · right; exact hcopy.typed c _ h1
    · simpa [hc] using this
  vals fuel s c v h := setVal_good P fuel s c v h
  connect s a b h := by
    rcases connectS_cases P s a b with heq | ⟨_, _, _, heq⟩ <;> rw [heq] <;> exact h
  disconnect s a b h := h
  recv s a r _ h := h
  flags s f g h := h
  calls s l h := h
  cache s c p h := h
  mutate s k k' ha h := by cases ha
  reset s n cs h := by
    intro c hs hh
    simp only [resetNode, replStrict] at hs ⊢
    by_cases hc : c ∈ cs
    · simp [hc]
    · simp only [hc, if_false] at hs ⊢
      exact h c hs hh
  strict s c b hb h := by
    intro x hs hh
    by_cases hx : x = c
    · subst hx
      simp only [updF_same] at hs
      subst hs
      simp at hb
    · simp only [updF_other _ _ _ _ hx] at hs
      exact h x hs hh

theorem rtClear_mem (P : Params) (s : S) (scope : List Nat) (a b : Nat) :
    b ∈ (rtClear P s scope).conns a ↔ b ∈ s.conns a ∧ a ∉ scope ∧ b ∉ scope := by
  simp only [rtClear]
  by_cases ha : a ∈ scope
  · simp [ha]
  · simp [ha, List.mem_filter]

theorem rtClear_sublist (P : Params) (s : S) (scope : List Nat) (a : Nat) :
    ((rtClear P s scope).conns a).Sublist (s.conns a) := by
  simp only [rtClear]
  by_cases ha : a ∈ scope
  · simp [ha]
  · simp only [ha, if_false]; exact List.filter_sublist

theorem rtClear_wf (P : Params) (s : S) (scope : List Nat) (h : WF P s) : WF P (rtClear P s scope) := by
  refine ⟨⟨?_, ?_, ?_⟩, ?_, ?_, ?_⟩
  · intro a b
    show b ∈ (rtClear P s scope).conns a ↔ a ∈ (rtClear P s scope).conns b
    rw [rtClear_mem, rtClear_mem]
    have := h.conn.symm a b
    simp only [toG] at this
    constructor
    · intro ⟨h1, h2, h3⟩; exact ⟨this.mp h1, h3, h2⟩
    · intro ⟨h1, h2, h3⟩; exact ⟨this.mpr h1, h3, h2⟩
  · intro a b hb
    have hb' : b ∈ (rtClear P s scope).conns a := hb
    rw [rtClear_mem] at hb'
    exact h.conn.typed a b hb'.1
  · intro a
    exact List.Nodup.sublist (rtClear_sublist P s scope a) (h.conn.nodup a)
  · intro i
    exact List.Pairwise.sublist (rtClear_sublist P s scope i) (h.sorted i)
  · intro i a ha
    exact h.stamped i a ((rtClear_sublist P s scope i).subset ha)
  · intro a r hra
    simp only [rtClear] at hra
    by_cases ha : a ∈ scope
    · simp [ha] at hra
    · simp only [ha, if_false] at hra
      cases hr : s.recv a with
      | none => simp [hr] at hra
      | some r' =>
        simp only [hr] at hra
        by_cases hr' : r' ∈ scope
        · simp [hr'] at hra
        · simp only [hr', if_false, Option.some.injEq] at hra
          subst hra
          exact h.recv a r' hr

theorem wf_pres (P : Params) : Pres P true (WF P) where
  clear s scope h := rtClear_wf P s scope h
  vals fuel s c v h := setVal_wf P fuel s c v h
  connect s a b h := connectS_wf P s a b h
  disconnect s a b h := disconnectS_wf P s a b h
  recv s a r hr h := by
    refine ⟨inv_congr (g := toG P s) rfl rfl h.conn, h.sorted, h.stamped, ?_⟩
    intro x y hxy
    by_cases hx : x = a
    · subst hx
      simp only [updF_same] at hxy
      exact hr y hxy
    · simp only [updF_other _ _ _ _ hx] at hxy
      exact h.recv x y hxy
  flags s f g h := h.of_same rfl rfl rfl rfl rfl
  calls s l h := h.of_same rfl rfl rfl rfl rfl
  strict s c b _ h := h.of_same rfl rfl rfl rfl rfl
  cache s c p h := h.of_same rfl rfl rfl rfl rfl
  mutate s k k' _ h := h.of_same rfl rfl rfl rfl rfl
  reset s n cs h := by
    refine ⟨inv_congr (g := toG P s) rfl rfl h.conn, h.sorted, h.stamped, ?_⟩
    intro a r hra
    simp only [resetNode] at hra
    by_cases ha : a ∈ cs
    · simp [ha] at hra
    · simp only [ha, if_false] at hra
      cases hr : s.recv a with
      | none => simp [hr] at hra
      | some r' =>
        simp only [hr] at hra
        by_cases hr' : r' ∈ cs
        · simp [hr'] at hra
        · simp only [hr', if_false, Option.some.injEq] at hra
          subst hra
          exact h.recv a r' hr

theorem init_good (P : Params) (kind owner hinted strict ins outs) :
    Good P (init kind owner hinted strict ins outs) := by
  intro c _ _; exact Or.inl rfl

theorem init_wf (P : Params) (kind owner hinted strict ins outs) :
    WF P (init kind owner hinted strict ins outs) :=
  ⟨⟨by simp [toG, init], by simp [toG, init], by simp [toG, init]⟩, by simp [Sorted, init],
   by simp [Stamped, init], by simp [RecvKind, init]⟩

/-! ## fetch -/

theorem firstData_find (s : S) (l : List Nat) :
    firstData s l = ((l.map s.val).find? (fun v => v ≠ .nd)) := by
  induction l with
  | nil => rfl
  | cons o os ih =>
    unfold firstData
    by_cases h : s.val o = .nd <;> simp [h, ih]

/-- with a list ordered by `R`, the winner of the fetch loop is `R`-above every other
connection that holds data -/
theorem firstData_pairwise (s : S) (R : Nat → Nat → Prop) (l : List Nat) (h : l.Pairwise R) (v : Val)
    (hf : firstData s l = some v) :
    ∃ a ∈ l, s.val a = v ∧ v ≠ .nd ∧ ∀ b ∈ l, s.val b ≠ .nd → b = a ∨ R a b := by
  induction l with
  | nil => simp [firstData] at hf
  | cons o os ih =>
    unfold firstData at hf
    have ⟨ho, hos⟩ := List.pairwise_cons.mp h
    split at hf
    · rename_i hd
      simp only [Option.some.injEq] at hf
      refine ⟨o, by simp, hf, hf ▸ hd, ?_⟩
      intro b hb _
      rcases List.mem_cons.mp hb with rfl | hb
      · exact Or.inl rfl
      · exact Or.inr (ho b hb)
    · rename_i hd
      obtain ⟨a, ha, hva, hv, hall⟩ := ih hos hf
      refine ⟨a, List.mem_cons_of_mem _ ha, hva, hv, ?_⟩
      intro b hb hbd
      rcases List.mem_cons.mp hb with rfl | hb
      · exact absurd hbd hd
      · exact hall b hb hbd

theorem firstData_none (s : S) (l : List Nat) : firstData s l = none ↔ ∀ a ∈ l, s.val a = .nd := by
  induction l with
  | nil => simp [firstData]
  | cons o os ih =>
    unfold firstData
    by_cases h : s.val o = .nd <;> simp [h, ih]

theorem firstData_some_ne (s : S) (l : List Nat) (v : Val) (h : firstData s l = some v) : v ≠ .nd := by
  induction l with
  | nil => simp [firstData] at h
  | cons o os ih =>
    unfold firstData at h
    split at h
    · rename_i hd; simp only [Option.some.injEq] at h; exact h ▸ hd
    · exact ih h

/-- firstData only looks at the values of the listed channels -/
theorem firstData_congr (s s' : S) (l : List Nat) (h : ∀ a ∈ l, s'.val a = s.val a) :
    firstData s' l = firstData s l := by
  induction l with
  | nil => rfl
  | cons o os ih =>
    unfold firstData
    rw [h o (by simp), ih (fun a ha => h a (List.mem_cons_of_mem _ ha))]

/-- the value an input holds after its fetch: first connection with data, else its own -/
def fetchVal (s : S) (i : Nat) : Val := (firstData s (s.conns i)).getD (s.val i)

/-- the fetched value passes the input's own type check -/
def fetchOk (P : Params) (s : S) (i : Nat) : Prop :=
  ∀ v, firstData s (s.conns i) = some v → ¬ (s.strict i = true ∧ s.hinted i = true ∧ P.admits i v = false)

/-- `DataChannel.ready` as a proposition about a candidate value -/
def readyV (P : Params) (s : S) (i : Nat) (v : Val) : Prop :=
  v ≠ .nd ∧ (s.hinted i = true → s.strict i = true → P.admits i v = true)

theorem chanReady_iff (P : Params) (s : S) (c : Nat) : chanReady P s c = true ↔ readyV P s c (s.val c) := by
  unfold chanReady readyV
  cases hh : s.hinted c <;> cases hs : s.strict c <;> cases ha : P.admits c (s.val c) <;> simp

/-- shape lemmas: these operations only change the value map -/
theorem fetch1_shape (P : Params) (fuel : Nat) (s : S) (i : Nat) :
    ∃ m, (fetch1 P fuel s i).1 = { s with val := m } := by
  unfold fetch1; split
  · exact ⟨_, rfl⟩
  · exact ⟨s.val, rfl⟩

theorem fetchAll_shape (P : Params) (fuel : Nat) (s : S) (is : List Nat) :
    ∃ m, (fetchAll P fuel s is).1 = { s with val := m } := by
  induction is generalizing s with
  | nil => exact ⟨s.val, rfl⟩
  | cons i is ih =>
    unfold fetchAll
    obtain ⟨m1, h1⟩ := fetch1_shape P fuel s i
    split
    · rename_i s' heq
      rw [heq] at h1
      simp only at h1
      subst h1
      obtain ⟨m2, h2⟩ := ih { s with val := m1 }
      exact ⟨m2, h2⟩
    · rename_i s' e heq
      rw [heq] at h1; exact ⟨m1, h1⟩

/-- closed form of `Inputs.fetch` on a panel whose channels are unlocked inputs without
receivers and whose upstream channels are not in the panel -/
theorem fetchAll_closed (P : Params) (fuel : Nat) (is : List Nat) (s : S) (hnd : is.Nodup)
    (hin : ∀ i ∈ is, s.recv i = none ∧ ¬ (s.kind i = .dataIn ∧ s.running (s.owner i) = true))
    (hout : ∀ i ∈ is, ∀ o ∈ s.conns i, o ∉ is) :
    ((fetchAll P (fuel + 1) s is).2 = none ↔ ∀ i ∈ is, fetchOk P s i) ∧
    ((fetchAll P (fuel + 1) s is).2 = none ∨ (fetchAll P (fuel + 1) s is).2 = some .type) ∧
    ((fetchAll P (fuel + 1) s is).2 = none →
      (fetchAll P (fuel + 1) s is).1 = { s with val := fun x => if x ∈ is then fetchVal s x else s.val x }) := by
  induction is generalizing s with
  | nil => simp [fetchAll]
  | cons i is ih =>
    have ⟨hi_notin, hnd'⟩ := List.nodup_cons.mp hnd
    have ⟨hri, hlock⟩ := hin i (by simp)
    unfold fetchAll fetch1
    cases hfd : firstData s (s.conns i) with
    | none =>
      simp only
      have ih' := ih s hnd' (fun j hj => hin j (List.mem_cons_of_mem _ hj))
        (fun j hj o ho hoi => hout j (List.mem_cons_of_mem _ hj) o ho (List.mem_cons_of_mem _ hoi))
      refine ⟨?_, ih'.2.1, ?_⟩
      · rw [ih'.1]
        constructor
        · intro h j hj
          rcases List.mem_cons.mp hj with rfl | hj
          · intro v hv; rw [hfd] at hv; cases hv
          · exact h j hj
        · intro h j hj; exact h j (List.mem_cons_of_mem _ hj)
      · intro hok
        rw [ih'.2.2 hok]
        congr 1
        funext x
        by_cases hx : x = i
        · subst hx
          simp [hi_notin, fetchVal, hfd]
        · simp [hx]
    | some v =>
      simp only
      have hv : v ≠ .nd := firstData_some_ne s _ v hfd
      rw [setVal_norecv P fuel s i v hri]
      rw [if_neg hlock]
      by_cases hty : s.strict i = true ∧ v ≠ .nd ∧ s.hinted i = true ∧ P.admits i v = false
      · rw [if_pos hty]
        refine ⟨?_, Or.inr rfl, by simp⟩
        constructor
        · simp
        · intro h
          exact absurd ⟨hty.1, hty.2.2.1, hty.2.2.2⟩ (h i (by simp) v hfd)
      · rw [if_neg hty]
        -- the state after storing `v` in `i`
        let s1 : S := { s with val := updF s.val i v }
        have hs1v : ∀ x, x ≠ i → s1.val x = s.val x := fun x hx => by simp [s1, updF, hx]
        have hfd1 : ∀ j ∈ is, firstData s1 (s1.conns j) = firstData s (s.conns j) := by
          intro j hj
          refine firstData_congr s s1 (s.conns j) ?_
          intro a ha
          refine hs1v a ?_
          intro e
          exact hout j (List.mem_cons_of_mem _ hj) a ha (e ▸ (by simp))
        have ih' := ih s1 hnd' (fun j hj => hin j (List.mem_cons_of_mem _ hj))
          (fun j hj o ho hoi => hout j (List.mem_cons_of_mem _ hj) o ho (List.mem_cons_of_mem _ hoi))
        have hok1 : ∀ j ∈ is, (fetchOk P s1 j ↔ fetchOk P s j) := by
          intro j hj
          unfold fetchOk
          rw [hfd1 j hj]
        refine ⟨?_, ih'.2.1, ?_⟩
        · rw [ih'.1]
          constructor
          · intro h j hj
            rcases List.mem_cons.mp hj with rfl | hj
            · intro w hw
              rw [hfd] at hw
              cases hw
              intro ⟨h1, h2, h3⟩
              exact hty ⟨h1, hv, h2, h3⟩
            · exact (hok1 j hj).mp (h j hj)
          · intro h j hj
            exact (hok1 j hj).mpr (h j (List.mem_cons_of_mem _ hj))
        · intro hok
          rw [ih'.2.2 hok]
          show ({ s with val := _ } : S) = _
          congr 1
          funext x
          by_cases hx : x = i
          · subst hx
            simp [hi_notin, fetchVal, hfd, s1, updF]
          · by_cases hxs : x ∈ is
            · have hne : x ≠ i := hx
              simp only [hxs, if_true, List.mem_cons, or_true]
              unfold fetchVal
              rw [hfd1 x hxs, hs1v x hne]
            · simp [hx, hxs, hs1v x hx]

/-! ## refusals leave outputs, call log and flags alone -/

/-- everything but input-side values, connections and their stamps is untouched -/
structure InputOnly (s s' : S) : Prop where
  kind    : s'.kind = s.kind
  owner   : s'.owner = s.owner
  hinted  : s'.hinted = s.hinted
  strict  : s'.strict = s.strict
  recv    : s'.recv = s.recv
  ins     : s'.ins = s.ins
  outs    : s'.outs = s.outs
  running : s'.running = s.running
  failed  : s'.failed = s.failed
  calls   : s'.calls = s.calls
  outVals : ∀ c, s.kind c ≠ .dataIn → s'.val c = s.val c

theorem InputOnly.refl (s : S) : InputOnly s s :=
  ⟨rfl, rfl, rfl, rfl, rfl, rfl, rfl, rfl, rfl, rfl, fun _ _ => rfl⟩

theorem InputOnly.trans {a b c : S} (h1 : InputOnly a b) (h2 : InputOnly b c) : InputOnly a c :=
  ⟨h2.kind.trans h1.kind, h2.owner.trans h1.owner, h2.hinted.trans h1.hinted, h2.strict.trans h1.strict,
   h2.recv.trans h1.recv, h2.ins.trans h1.ins, h2.outs.trans h1.outs, h2.running.trans h1.running,
   h2.failed.trans h1.failed, h2.calls.trans h1.calls,
   fun x hx => (h2.outVals x (by rw [h1.kind]; exact hx)).trans (h1.outVals x hx)⟩

theorem InputOnly.recvKind {s s' : S} (h : InputOnly s s') (hr : RecvKind s) : RecvKind s' := by
  intro a r hra
  rw [h.recv] at hra
  rw [h.kind]
  exact hr a r hra

theorem setVal_inputOnly (P : Params) (fuel : Nat) (s : S) (c : Nat) (v : Val) (hr : RecvKind s)
    (hc : s.kind c = .dataIn) : InputOnly s (setVal P fuel s c v).1 := by
  cases hres : (setVal P fuel s c v).2 with
  | some e => rw [setVal_err P fuel s c v e hres]; exact .refl s
  | none =>
    obtain ⟨l, _, hval, _, hkind⟩ := setVal_ok P fuel s c v hres
    refine ⟨rfl, rfl, rfl, rfl, rfl, rfl, rfl, rfl, rfl, rfl, ?_⟩
    intro x hx
    rw [hval x]
    have : x ∉ l := fun hm => hx ((hkind hr x hm).trans hc)
    simp [this]

theorem connectS_inputOnly (P : Params) (s : S) (a b : Nat) : InputOnly s (connectS P s a b).1 := by
  rcases connectS_cases P s a b with heq | ⟨_, _, _, heq⟩ <;> rw [heq]
  · exact .refl s
  · exact ⟨rfl, rfl, rfl, rfl, rfl, rfl, rfl, rfl, rfl, rfl, fun _ _ => rfl⟩

theorem setInputs_inputOnly (P : Params) (fuel : Nat) (s : S) (kw : List (Nat × Arg)) (hr : RecvKind s)
    (hk : ∀ p ∈ kw, s.kind p.1 = .dataIn) : InputOnly s (setInputs P fuel s kw).1 := by
  induction kw generalizing s with
  | nil => exact .refl s
  | cons p kw ih =>
    obtain ⟨c, a⟩ := p
    unfold setInputs
    have h1 : InputOnly s (assign P fuel s c a).1 := by
      cases a with
      | v x => exact setVal_inputOnly P fuel s c x hr (hk (c, .v x) (by simp))
      | ch o => exact connectS_inputOnly P s c o
    split
    · rename_i s' heq
      rw [heq] at h1
      refine h1.trans (ih s' (h1.recvKind hr) ?_)
      intro p hp; rw [h1.kind]; exact hk p (List.mem_cons_of_mem _ hp)
    · rename_i s' e heq
      rw [heq] at h1; exact h1

theorem fetchAll_inputOnly (P : Params) (fuel : Nat) (s : S) (is : List Nat) (hr : RecvKind s)
    (hk : ∀ i ∈ is, s.kind i = .dataIn) : InputOnly s (fetchAll P fuel s is).1 := by
  induction is generalizing s with
  | nil => exact .refl s
  | cons i is ih =>
    unfold fetchAll
    have h1 : InputOnly s (fetch1 P fuel s i).1 := by
      unfold fetch1; split
      · exact setVal_inputOnly P fuel s i _ hr (hk i (by simp))
      · exact .refl s
    split
    · rename_i s' heq
      rw [heq] at h1
      refine h1.trans (ih s' (h1.recvKind hr) ?_)
      intro j hj; rw [h1.kind]; exact hk j (List.mem_cons_of_mem _ hj)
    · rename_i s' e heq
      rw [heq] at h1; exact h1

/-! ## frames: flags, call log, receivers and static attributes are only touched by the
operations that name them -/

structure Frame (s s' : S) : Prop where
  kind    : s'.kind = s.kind
  owner   : s'.owner = s.owner
  hinted  : s'.hinted = s.hinted
  strict  : s'.strict = s.strict
  recv    : s'.recv = s.recv
  ins     : s'.ins = s.ins
  outs    : s'.outs = s.outs
  running : s'.running = s.running
  failed  : s'.failed = s.failed
  calls   : s'.calls = s.calls

theorem Frame.refl (s : S) : Frame s s := ⟨rfl, rfl, rfl, rfl, rfl, rfl, rfl, rfl, rfl, rfl⟩

theorem Frame.trans {a b c : S} (h1 : Frame a b) (h2 : Frame b c) : Frame a c :=
  ⟨h2.kind.trans h1.kind, h2.owner.trans h1.owner, h2.hinted.trans h1.hinted, h2.strict.trans h1.strict,
   h2.recv.trans h1.recv, h2.ins.trans h1.ins, h2.outs.trans h1.outs, h2.running.trans h1.running,
   h2.failed.trans h1.failed, h2.calls.trans h1.calls⟩

theorem setVal_frame (P : Params) (fuel : Nat) (s : S) (c : Nat) (v : Val) : Frame s (setVal P fuel s c v).1 :=
  ⟨rfl, rfl, rfl, rfl, rfl, rfl, rfl, rfl, rfl, rfl⟩

theorem connectS_frame (P : Params) (s : S) (a b : Nat) : Frame s (connectS P s a b).1 := by
  rcases connectS_cases P s a b with heq | ⟨_, _, _, heq⟩ <;> rw [heq]
  · exact .refl s
  · exact ⟨rfl, rfl, rfl, rfl, rfl, rfl, rfl, rfl, rfl, rfl⟩

theorem setInputs_frame (P : Params) (fuel : Nat) (s : S) (kw : List (Nat × Arg)) :
    Frame s (setInputs P fuel s kw).1 := by
  induction kw generalizing s with
  | nil => exact .refl s
  | cons p kw ih =>
    obtain ⟨c, a⟩ := p
    unfold setInputs
    have h1 : Frame s (assign P fuel s c a).1 := by
      cases a with
      | v x => exact setVal_frame P fuel s c x
      | ch o => exact connectS_frame P s c o
    split
    · rename_i s' heq; rw [heq] at h1; exact h1.trans (ih s')
    · rename_i s' e heq; rw [heq] at h1; exact h1

theorem fetchAll_frame (P : Params) (fuel : Nat) (s : S) (is : List Nat) :
    Frame s (fetchAll P fuel s is).1 := by
  obtain ⟨m, h⟩ := fetchAll_shape P fuel s is
  rw [h]; exact ⟨rfl, rfl, rfl, rfl, rfl, rfl, rfl, rfl, rfl, rfl⟩

/-- finer case split of a connect: already there / refused / effective -/
theorem connectS_effective (P : Params) (s : S) (a b : Nat) (hn : b ∉ s.conns a)
    (hok : (connectS P s a b).2 = none) :
    (connectS P s a b).1 =
        { s with conns := updF (updF s.conns a (b :: s.conns a)) b (a :: s.conns b),
                 clock := s.clock + 1,
                 since := upd2 (upd2 s.since a b s.clock) b a s.clock } ∧
      (s.kind a).conj (s.kind b) = true := by
  by_cases hconj : (s.kind a).conj (s.kind b) = true
  · by_cases hv : effValid P s a b = true
    · refine ⟨?_, hconj⟩
      simp [connectS, connect1, toG, hn, hconj, hv]
    · simp [connectS, connect1, toG, hn, hconj, hv] at hok
  · simp [connectS, connect1, toG, hn, hconj] at hok

theorem setOutputs_shape (P : Params) (fuel : Nat) (s : S) (os : List Nat) (vs : List Val) :
    ∃ m, (setOutputs P fuel s os vs).1 = { s with val := m } := by
  induction os generalizing s vs with
  | nil => exact ⟨s.val, by unfold setOutputs; rfl⟩
  | cons o os ih =>
    cases vs with
    | nil => exact ⟨s.val, by unfold setOutputs; rfl⟩
    | cons v vs =>
      unfold setOutputs
      obtain ⟨m1, h1⟩ : ∃ m1, (setVal P fuel s o v).1 = { s with val := m1 } := ⟨_, rfl⟩
      split
      · rename_i s' heq
        rw [heq] at h1
        simp only at h1
        subst h1
        obtain ⟨m2, h2⟩ := ih { s with val := m1 } vs
        exact ⟨m2, h2⟩
      · rename_i s' e heq
        rw [heq] at h1; exact ⟨m1, h1⟩


/-! ## pickle round trips -/

/-- what no part of a round trip touches: static attributes, panels, flags, the call log -/
structure RtFrame (s s' : S) : Prop where
  kind    : s'.kind = s.kind
  owner   : s'.owner = s.owner
  hinted  : s'.hinted = s.hinted
  strict  : s'.strict = s.strict
  ins     : s'.ins = s.ins
  outs    : s'.outs = s.outs
  running : s'.running = s.running
  failed  : s'.failed = s.failed
  calls   : s'.calls = s.calls

theorem RtFrame.refl (s : S) : RtFrame s s := ⟨rfl, rfl, rfl, rfl, rfl, rfl, rfl, rfl, rfl⟩

theorem RtFrame.trans {a b c : S} (h1 : RtFrame a b) (h2 : RtFrame b c) : RtFrame a c :=
  ⟨h2.kind.trans h1.kind, h2.owner.trans h1.owner, h2.hinted.trans h1.hinted, h2.strict.trans h1.strict,
   h2.ins.trans h1.ins, h2.outs.trans h1.outs, h2.running.trans h1.running, h2.failed.trans h1.failed,
   h2.calls.trans h1.calls⟩

theorem Frame.rt {s s' : S} (h : Frame s s') : RtFrame s s' :=
  ⟨h.kind, h.owner, h.hinted, h.strict, h.ins, h.outs, h.running, h.failed, h.calls⟩

theorem link_rtframe (P : Params) (fuel : Nat) (s : S) (a : Nat) (b : Option Nat) :
    RtFrame s (link P fuel s a b).1 := by
  cases b with
  | none => exact ⟨rfl, rfl, rfl, rfl, rfl, rfl, rfl, rfl, rfl⟩
  | some b =>
    simp only [link]
    split
    · exact .refl s
    · split
      · exact .refl s
      · split
        · exact .refl s
        · split
          · rename_i s' heq
            have h1 := (setVal_frame P fuel s b (s.val a)).rt
            rw [heq] at h1
            exact ⟨h1.kind, h1.owner, h1.hinted, h1.strict, h1.ins, h1.outs, h1.running, h1.failed, h1.calls⟩
          · rename_i s' e heq
            have h1 := (setVal_frame P fuel s b (s.val a)).rt
            rw [heq] at h1
            exact h1

theorem link_conns (P : Params) (fuel : Nat) (s : S) (a : Nat) (b : Option Nat) :
    (link P fuel s a b).1.conns = s.conns := by
  cases b with
  | none => rfl
  | some b =>
    simp only [link]
    split
    · rfl
    · split
      · rfl
      · split
        · rfl
        · split
          · rename_i s' heq
            have := congrArg (fun r => r.1.conns) heq
            simpa [setVal] using this.symm
          · rename_i s' e heq
            have := congrArg (fun r => r.1.conns) heq
            simpa [setVal] using this.symm

theorem forge_rtframe (P : Params) (fuel : Nat) (push : Bool) (s : S) (a b : Nat) :
    RtFrame s (forge P fuel push s a b).1 := by
  unfold forge
  split
  · exact link_rtframe P fuel s a (some b)
  · split
    · exact .refl s
    · exact ⟨rfl, rfl, rfl, rfl, rfl, rfl, rfl, rfl, rfl⟩

theorem forge_conns (P : Params) (fuel : Nat) (push : Bool) (s : S) (a b : Nat) :
    (forge P fuel push s a b).1.conns = s.conns := by
  unfold forge
  split
  · exact link_conns P fuel s a (some b)
  · split <;> rfl

/-- re-forging by plain assignment leaves every value alone -/
theorem forge_val (P : Params) (fuel : Nat) (s : S) (a b : Nat) :
    (forge P fuel false s a b).1.val = s.val := by
  unfold forge
  simp only [Bool.false_eq_true, if_false]
  split <;> rfl

theorem restoreLinks_rtframe (P : Params) (fuel : Nat) (must push : Bool) (pre : S) (res : List (Nat × Nat))
    (st : S) (l : List Nat) : RtFrame st (restoreLinks P fuel must push pre res st l).1 := by
  induction l generalizing st with
  | nil => exact .refl st
  | cons a l ih =>
    unfold restoreLinks
    split
    · split
      · exact .refl st
      · exact ih st
    · split
      · exact .refl st
      · rename_i b' _
        have h1 := forge_rtframe P fuel push st a b'
        split
        · rename_i st' heq; rw [heq] at h1; exact h1.trans (ih st')
        · rename_i st' e heq; rw [heq] at h1; exact h1

theorem restoreLinks_conns (P : Params) (fuel : Nat) (must push : Bool) (pre : S) (res : List (Nat × Nat))
    (st : S) (l : List Nat) : (restoreLinks P fuel must push pre res st l).1.conns = st.conns := by
  induction l generalizing st with
  | nil => rfl
  | cons a l ih =>
    unfold restoreLinks
    split
    · split
      · rfl
      · exact ih st
    · split
      · rfl
      · rename_i b' _
        have h1 := forge_conns P fuel push st a b'
        split
        · rename_i st' heq; rw [heq] at h1; rw [ih st']; exact h1
        · rename_i st' e heq; rw [heq] at h1; exact h1

theorem restoreLinks_val (P : Params) (fuel : Nat) (must : Bool) (pre : S) (res : List (Nat × Nat))
    (st : S) (l : List Nat) : (restoreLinks P fuel must false pre res st l).1.val = st.val := by
  induction l generalizing st with
  | nil => rfl
  | cons a l ih =>
    unfold restoreLinks
    split
    · split
      · rfl
      · exact ih st
    · split
      · rfl
      · rename_i b' _
        have h1 := forge_val P fuel st a b'
        split
        · rename_i st' heq; rw [heq] at h1; rw [ih st']; exact h1
        · rename_i st' e heq; rw [heq] at h1; exact h1

/-- a link is only ever (re)set at a channel that had one before the round trip -/
theorem restoreLinks_recv (P : Params) (fuel : Nat) (must push : Bool) (pre : S) (res : List (Nat × Nat))
    (st : S) (l : List Nat) (x : Nat) (hx : pre.recv x = none) :
    (restoreLinks P fuel must push pre res st l).1.recv x = st.recv x := by
  induction l generalizing st with
  | nil => rfl
  | cons a l ih =>
    unfold restoreLinks
    split
    · split
      · rfl
      · exact ih st
    · rename_i b hb
      have hax : x ≠ a := by intro e; subst e; rw [hx] at hb; cases hb
      split
      · rfl
      · rename_i b' _
        have h1 : (forge P fuel push st a b').1.recv x = st.recv x := by
          unfold forge
          split
          · simp only [link]
            split
            · rfl
            · split
              · rfl
              · split
                · rfl
                · split
                  · rename_i s' heq
                    have := congrArg (fun r => r.1.recv) heq
                    simp only [setVal] at this
                    simp [updF, hax, ← this]
                  · rename_i s' e heq
                    have := congrArg (fun r => r.1.recv) heq
                    simp only [setVal] at this
                    simp [← this]
          · split
            · rfl
            · simp [updF, hax]
        split
        · rename_i st' heq; rw [heq] at h1; rw [ih st']; exact h1
        · rename_i st' e heq; rw [heq] at h1; exact h1

theorem connectS_val (P : Params) (s : S) (a b : Nat) : (connectS P s a b).1.val = s.val := by
  rcases connectS_cases P s a b with heq | ⟨_, _, _, heq⟩ <;> rw [heq]

theorem connectS_recv (P : Params) (s : S) (a b : Nat) : (connectS P s a b).1.recv = s.recv := by
  rcases connectS_cases P s a b with heq | ⟨_, _, _, heq⟩ <;> rw [heq]

theorem restoreConns_frame (P : Params) (st : S) (res l : List (Nat × Nat)) :
    RtFrame st (restoreConns P st res l).1 ∧ (restoreConns P st res l).1.val = st.val ∧
      (restoreConns P st res l).1.recv = st.recv := by
  induction l generalizing st with
  | nil => exact ⟨.refl st, rfl, rfl⟩
  | cons p l ih =>
    obtain ⟨i, o⟩ := p
    unfold restoreConns
    split
    · exact ⟨.refl st, rfl, rfl⟩
    · rename_i o' _
      have h1 := (connectS_frame P st i o').rt
      have h2 := connectS_val P st i o'
      have h3 := connectS_recv P st i o'
      split
      · rename_i st' heq
        rw [heq] at h1 h2 h3
        obtain ⟨i1, i2, i3⟩ := ih st'
        exact ⟨h1.trans i1, i2.trans h2, i3.trans h3⟩
      · rename_i st' e heq
        rw [heq] at h1 h2 h3
        exact ⟨h1, h2, h3⟩

theorem restoreComp_rtframe (P : Params) (fuel : Nat) (pre st : S) (C : Comp) :
    RtFrame st (restoreComp P fuel pre st C).1 := by
  unfold restoreComp
  have h1 := (restoreConns_frame P st C.resOut
    (if P.cfg.revIter then (saved P pre C).reverse else saved P pre C)).1
  split
  · rename_i st1 e heq; rw [heq] at h1; exact h1
  · rename_i st1 heq
    rw [heq] at h1
    have h2 := restoreLinks_rtframe P fuel P.cfg.allIn P.cfg.pushIn pre C.resIn st1 C.mins
    split
    · rename_i st2 e heq2; rw [heq2] at h2; exact h1.trans h2
    · rename_i st2 heq2
      rw [heq2] at h2
      exact (h1.trans h2).trans (restoreLinks_rtframe P fuel false P.cfg.pushOut pre C.resMOut st2 C.couts)

theorem restoreAll_rtframe (P : Params) (fuel : Nat) (pre st : S) (cs : List Comp) :
    RtFrame st (restoreAll P fuel pre st cs).1 := by
  induction cs generalizing st with
  | nil => exact .refl st
  | cons C cs ih =>
    unfold restoreAll
    have h1 := restoreComp_rtframe P fuel pre st C
    split
    · rename_i st' heq; rw [heq] at h1; exact h1.trans (ih st')
    · rename_i st' e heq; rw [heq] at h1; exact h1

theorem roundTrip_rtframe (P : Params) (fuel : Nat) (s : S) (scope : List Nat) (cs : List Comp) :
    RtFrame s (roundTrip P fuel s scope cs).1 := by
  unfold roundTrip
  have h1 := restoreAll_rtframe P fuel s (rtClear P s scope) cs
  split
  · rename_i s' heq
    rw [heq] at h1
    exact ⟨h1.kind, h1.owner, h1.hinted, h1.strict, h1.ins, h1.outs, h1.running, h1.failed, h1.calls⟩
  · exact .refl s

/-- with both kinds of link re-forged by plain assignment the restoration leaves all values alone -/
theorem restoreAll_val (P : Params) (fuel : Nat) (pre st : S) (cs : List Comp)
    (hin : P.cfg.pushIn = false) (hout : P.cfg.pushOut = false) :
    (restoreAll P fuel pre st cs).1.val = st.val := by
  induction cs generalizing st with
  | nil => rfl
  | cons C cs ih =>
    unfold restoreAll
    have h1 : (restoreComp P fuel pre st C).1.val = st.val := by
      unfold restoreComp
      have c1 := (restoreConns_frame P st C.resOut
        (if P.cfg.revIter then (saved P pre C).reverse else saved P pre C)).2.1
      split
      · rename_i st1 e heq; rw [heq] at c1; exact c1
      · rename_i st1 heq
        rw [heq] at c1
        have c2 := restoreLinks_val P fuel P.cfg.allIn pre C.resIn st1 C.mins
        rw [hin]
        split
        · rename_i st2 e heq2; rw [heq2] at c2; exact c2.trans c1
        · rename_i st2 heq2
          rw [heq2] at c2
          rw [hout, restoreLinks_val]
          exact c2.trans c1
    split
    · rename_i st' heq; rw [heq] at h1; rw [ih st']; exact h1
    · rename_i st' e heq; rw [heq] at h1; exact h1

/-- a channel without receiver before the round trip has none after it -/
theorem restoreAll_recv (P : Params) (fuel : Nat) (pre st : S) (cs : List Comp) (x : Nat)
    (hx : pre.recv x = none) : (restoreAll P fuel pre st cs).1.recv x = st.recv x := by
  induction cs generalizing st with
  | nil => rfl
  | cons C cs ih =>
    unfold restoreAll
    have h1 : (restoreComp P fuel pre st C).1.recv x = st.recv x := by
      unfold restoreComp
      have c1 := (restoreConns_frame P st C.resOut
        (if P.cfg.revIter then (saved P pre C).reverse else saved P pre C)).2.2
      split
      · rename_i st1 e heq; rw [heq] at c1; rw [c1]
      · rename_i st1 heq
        rw [heq] at c1
        have c2 := restoreLinks_recv P fuel P.cfg.allIn P.cfg.pushIn pre C.resIn st1 C.mins x hx
        split
        · rename_i st2 e heq2; rw [heq2] at c2; rw [c2, c1]
        · rename_i st2 heq2
          rw [heq2] at c2
          rw [restoreLinks_recv P fuel false P.cfg.pushOut pre C.resMOut st2 C.couts x hx, c2, c1]
    split
    · rename_i st' heq; rw [heq] at h1; rw [ih st']; exact h1
    · rename_i st' e heq; rw [heq] at h1; exact h1

/-- whatever the switches: the restoration invents no value — every channel ends with a value
some channel held when the restoration began -/
def NoNew (V : Nat → Val) (st : S) : Prop := ∀ c, ∃ c', st.val c = V c'

theorem setVal_noNew (P : Params) (fuel : Nat) (V : Nat → Val) (st : S) (c a : Nat) (h : NoNew V st) :
    NoNew V (setVal P fuel st c (st.val a)).1 := by
  cases hres : (setVal P fuel st c (st.val a)).2 with
  | some e => rw [setVal_err P fuel st c _ e hres]; exact h
  | none =>
    obtain ⟨l, _, hval, _, _⟩ := setVal_ok P fuel st c (st.val a) hres
    intro x
    rw [hval x]
    by_cases hx : x ∈ l
    · simp only [hx, if_true]; exact h a
    · simp only [hx, if_false]; exact h x

theorem forge_noNew (P : Params) (fuel : Nat) (push : Bool) (V : Nat → Val) (st : S) (a b : Nat)
    (h : NoNew V st) : NoNew V (forge P fuel push st a b).1 := by
  unfold forge
  split
  · simp only [link]
    split
    · exact h
    · split
      · exact h
      · split
        · exact h
        · have h1 := setVal_noNew P fuel V st b a h
          split
          · rename_i s' heq; rw [heq] at h1; exact h1
          · rename_i s' e heq; rw [heq] at h1; exact h1
  · split
    · exact h
    · exact h

theorem restoreLinks_noNew (P : Params) (fuel : Nat) (must push : Bool) (pre : S) (res : List (Nat × Nat))
    (V : Nat → Val) (st : S) (l : List Nat) (h : NoNew V st) :
    NoNew V (restoreLinks P fuel must push pre res st l).1 := by
  induction l generalizing st with
  | nil => exact h
  | cons a l ih =>
    unfold restoreLinks
    split
    · split
      · exact h
      · exact ih st h
    · split
      · exact h
      · rename_i b' _
        have h1 := forge_noNew P fuel push V st a b' h
        split
        · rename_i st' heq; rw [heq] at h1; exact ih st' h1
        · rename_i st' e heq; rw [heq] at h1; exact h1

theorem restoreAll_noNew (P : Params) (fuel : Nat) (pre : S) (V : Nat → Val) (st : S) (cs : List Comp)
    (h : NoNew V st) : NoNew V (restoreAll P fuel pre st cs).1 := by
  induction cs generalizing st with
  | nil => exact h
  | cons C cs ih =>
    unfold restoreAll
    have h1 : NoNew V (restoreComp P fuel pre st C).1 := by
      unfold restoreComp
      have c1 := (restoreConns_frame P st C.resOut
        (if P.cfg.revIter then (saved P pre C).reverse else saved P pre C)).2.1
      split
      · rename_i st1 e heq; rw [heq] at c1; intro c; rw [c1]; exact h c
      · rename_i st1 heq
        rw [heq] at c1
        have hs1 : NoNew V st1 := by intro c; rw [c1]; exact h c
        have c2 := restoreLinks_noNew P fuel P.cfg.allIn P.cfg.pushIn pre C.resIn V st1 C.mins hs1
        split
        · rename_i st2 e heq2; rw [heq2] at c2; exact c2
        · rename_i st2 heq2
          rw [heq2] at c2
          exact restoreLinks_noNew P fuel false P.cfg.pushOut pre C.resMOut V st2 C.couts c2
    split
    · rename_i st' heq; rw [heq] at h1; exact ih st' h1
    · rename_i st' e heq; rw [heq] at h1; exact h1


/-! ### the restored order of an input's connections -/

theorem nodup_reverse' {l : List Nat} (h : l.Nodup) : l.reverse.Nodup := by
  unfold List.Nodup at *
  rw [List.pairwise_reverse]
  exact h.imp (fun h => Ne.symm h)

theorem restoreConns_append (P : Params) (st : S) (res l1 l2 : List (Nat × Nat)) :
    restoreConns P st res (l1 ++ l2) =
      match restoreConns P st res l1 with
      | (st1, none) => restoreConns P st1 res l2
      | (st1, some e) => (st1, some e) := by
  induction l1 generalizing st with
  | nil => rfl
  | cons p l1 ih =>
    obtain ⟨i, o⟩ := p
    cases hl : res.lookup o with
    | none => simp [restoreConns, hl]
    | some o' =>
      cases hc : connectS P st i o' with
      | mk st' e =>
        cases e with
        | none => simp [restoreConns, hl, hc, ih]
        | some e => simp [restoreConns, hl, hc]

/-- a successful restoration leaves alone the list of every channel that is neither the input
of a stored pair nor the resolved output of one -/
theorem restoreConns_other (P : Params) (st st' : S) (res l : List (Nat × Nat)) (x : Nat)
    (h : restoreConns P st res l = (st', none))
    (h1 : ∀ p ∈ l, p.1 ≠ x) (h2 : ∀ p ∈ l, ∀ o', res.lookup p.2 = some o' → o' ≠ x) :
    st'.conns x = st.conns x := by
  induction l generalizing st with
  | nil => simp only [restoreConns, Prod.mk.injEq, and_true] at h; rw [← h]
  | cons p l ih =>
    obtain ⟨i, o⟩ := p
    unfold restoreConns at h
    split at h
    · simp at h
    · rename_i o' ho'
      split at h
      · rename_i st1 heq
        have hi : i ≠ x := h1 (i, o) (by simp)
        have ho : o' ≠ x := h2 (i, o) (by simp) o' ho'
        have hst1 : st1.conns x = st.conns x := by
          rcases connectS_cases P st i o' with hc | ⟨_, _, _, hc⟩
          · rw [heq] at hc; simp only at hc; rw [hc]
          · rw [heq] at hc; simp only at hc; rw [hc]
            simp [updF, Ne.symm hi, Ne.symm ho]
        rw [ih st1 h (fun p hp => h1 p (List.mem_cons_of_mem _ hp))
          (fun p hp => h2 p (List.mem_cons_of_mem _ hp)), hst1]
      · simp at h

/-- the block of one input: its stored partners, reconnected one after the other, end up in
front of the list in reverse order of reconnection -/
theorem restoreConns_block (P : Params) (st st' : S) (res : List (Nat × Nat)) (i : Nat) (os : List Nat)
    (hres : ∀ o ∈ os, res.lookup o = some o) (hnd : os.Nodup) (hfresh : ∀ o ∈ os, o ∉ st.conns i)
    (hio : ∀ o ∈ os, o ≠ i)
    (h : restoreConns P st res (os.map fun o => (i, o)) = (st', none)) :
    st'.conns i = os.reverse ++ st.conns i := by
  induction os generalizing st with
  | nil => simp only [List.map_nil, restoreConns, Prod.mk.injEq, and_true] at h; rw [← h]; simp
  | cons o os ih =>
    simp only [List.map_cons] at h
    unfold restoreConns at h
    rw [hres o (by simp)] at h
    simp only at h
    split at h
    · rename_i st1 heq
      have hok : (connectS P st i o).2 = none := by rw [heq]
      obtain ⟨hc, _⟩ := connectS_effective P st i o (hfresh o (by simp)) hok
      rw [heq] at hc
      simp only at hc
      have hoi : o ≠ i := hio o (by simp)
      have hst1 : st1.conns i = o :: st.conns i := by
        rw [hc]; simp [updF, Ne.symm hoi]
      have hnd' := List.nodup_cons.mp hnd
      rw [ih st1 (fun x hx => hres x (List.mem_cons_of_mem _ hx)) hnd'.2 ?_
        (fun x hx => hio x (List.mem_cons_of_mem _ hx)) h, hst1]
      · simp
      · intro x hx hm
        rw [hst1] at hm
        rcases List.mem_cons.mp hm with rfl | hm
        · exact hnd'.1 hx
        · exact hfresh x (List.mem_cons_of_mem _ hx) hm
    · simp at h

/-- all blocks of one composite, processed in the order `bs`: every input of `bs` whose list was
empty ends up with exactly its stored list -/
theorem restoreConns_blocks (P : Params) (res : List (Nat × Nat)) (pre : S) (bs : List Nat) (st st' : S)
    (hbs : bs.Nodup) (hempty : ∀ i ∈ bs, st.conns i = [])
    (hnd : ∀ i ∈ bs, (pre.conns i).Nodup) (hout : ∀ i ∈ bs, ∀ o ∈ pre.conns i, o ∉ bs)
    (hres : ∀ i ∈ bs, ∀ o ∈ pre.conns i, res.lookup o = some o)
    (h : restoreConns P st res (bs.flatMap fun i => (pre.conns i).reverse.map fun o => (i, o)) = (st', none)) :
    ∀ i ∈ bs, st'.conns i = pre.conns i := by
  induction bs generalizing st with
  | nil => intro i hi; cases hi
  | cons b bs ih =>
    simp only [List.flatMap_cons] at h
    rw [restoreConns_append] at h
    have hbs' := List.nodup_cons.mp hbs
    split at h
    · rename_i st1 heq
      have hb : st1.conns b = pre.conns b := by
        have := restoreConns_block P st st1 res b (pre.conns b).reverse
          (fun o ho => hres b (by simp) o (List.mem_reverse.mp ho))
          (nodup_reverse' (hnd b (by simp)))
          (fun o _ => by rw [hempty b (by simp)]; simp)
          (fun o ho e => hout b (by simp) o (List.mem_reverse.mp ho) (by rw [e]; simp)) heq
        rw [this, hempty b (by simp)]; simp
      have hrest : ∀ j ∈ bs, st1.conns j = st.conns j := by
        intro j hj
        refine restoreConns_other P st st1 res _ j heq ?_ ?_
        · intro p hp
          obtain ⟨o, _, rfl⟩ := List.mem_map.mp hp
          intro e
          have e' : b = j := e
          exact hbs'.1 (by rw [e']; exact hj)
        · intro p hp o' ho'
          obtain ⟨o, ho, rfl⟩ := List.mem_map.mp hp
          have hoo := hres b (by simp) o (List.mem_reverse.mp ho)
          simp only at ho'
          rw [hoo] at ho'
          have hEq : o = o' := Option.some.inj ho'
          subst hEq
          intro e
          exact hout b (by simp) o (List.mem_reverse.mp ho) (by rw [e]; exact List.mem_cons_of_mem _ hj)
      have ih' := ih st1 hbs'.2 (fun j hj => by rw [hrest j hj]; exact hempty j (List.mem_cons_of_mem _ hj))
        (fun j hj => hnd j (List.mem_cons_of_mem _ hj))
        (fun j hj o ho hm => hout j (List.mem_cons_of_mem _ hj) o ho (List.mem_cons_of_mem _ hm))
        (fun j hj => hres j (List.mem_cons_of_mem _ hj)) h
      intro i hi
      rcases List.mem_cons.mp hi with rfl | hi
      · rw [← hb]
        refine restoreConns_other P st1 st' res _ i h ?_ ?_
        · intro p hp
          obtain ⟨j, hj, hp⟩ := List.mem_flatMap.mp hp
          obtain ⟨o, _, rfl⟩ := List.mem_map.mp hp
          intro e
          have e' : j = i := e
          exact hbs'.1 (by rw [← e']; exact hj)
        · intro p hp o' ho'
          obtain ⟨j, hj, hp⟩ := List.mem_flatMap.mp hp
          obtain ⟨o, ho, rfl⟩ := List.mem_map.mp hp
          have hoo := hres j (List.mem_cons_of_mem _ hj) o (List.mem_reverse.mp ho)
          simp only at ho'
          rw [hoo] at ho'
          have hEq : o = o' := Option.some.inj ho'
          subst hEq
          intro e
          exact hout j (List.mem_cons_of_mem _ hj) o (List.mem_reverse.mp ho) (by rw [e]; simp)
      · exact ih' i hi
    · simp at h

theorem strings_reverse (pre : S) (dom : List Nat) :
    (strings pre dom).reverse = dom.reverse.flatMap fun i => (pre.conns i).reverse.map fun o => (i, o) := by
  unfold strings
  rw [List.reverse_flatMap]
  congr 1
  funext i
  simp [Function.comp, List.map_reverse]

def allIns (cs : List Comp) : List Nat := cs.flatMap (·.ins)

/-- nothing is filtered out when every upstream is an output of a child of the same composite -/
theorem saved_eq (P : Params) (pre : S) (C : Comp) (h : ∀ i ∈ C.ins, ∀ o ∈ pre.conns i, o ∈ C.kouts) :
    saved P pre C = strings pre C.ins := by
  unfold saved
  split
  · refine List.filter_eq_self.mpr ?_
    intro p hp
    unfold strings at hp
    obtain ⟨i, hi, hp⟩ := List.mem_flatMap.mp hp
    obtain ⟨o, ho, hpo⟩ := List.mem_map.mp hp
    subst hpo
    simpa using h i hi o ho
  · rfl

/-- the whole restoration with `revIter`: every input of every composite gets its stored list
back, in the stored order; `A` is any set of input channels closed under "is not an upstream" -/
theorem restoreAll_order (P : Params) (fuel : Nat) (pre : S) (hrev : P.cfg.revIter = true) (A : List Nat)
    (hA : ∀ i ∈ A, ∀ o ∈ pre.conns i, o ∉ A) (hnd : ∀ i ∈ A, (pre.conns i).Nodup)
    (cs : List Comp) (st st' : S)
    (hsub : ∀ i ∈ allIns cs, i ∈ A) (hnodup : (allIns cs).Nodup)
    (hres : ∀ C ∈ cs, ∀ i ∈ C.ins, ∀ o ∈ pre.conns i, C.resOut.lookup o = some o)
    (hown : ∀ C ∈ cs, ∀ i ∈ C.ins, ∀ o ∈ pre.conns i, o ∈ C.kouts)
    (hempty : ∀ i ∈ allIns cs, st.conns i = [])
    (h : restoreAll P fuel pre st cs = (st', none)) :
    (∀ i ∈ allIns cs, st'.conns i = pre.conns i) ∧
    (∀ x ∈ A, x ∉ allIns cs → st'.conns x = st.conns x) := by
  induction cs generalizing st with
  | nil =>
    simp only [restoreAll, Prod.mk.injEq, and_true] at h
    subst h
    exact ⟨fun i hi => by simp [allIns] at hi, fun _ _ _ => rfl⟩
  | cons C cs ih =>
    have hall : allIns (C :: cs) = C.ins ++ allIns cs := by simp [allIns]
    rw [hall] at hsub hnodup hempty
    have hnd2 := List.nodup_append.mp hnodup
    unfold restoreAll at h
    split at h
    · rename_i st1 heq
      -- the composite `C`
      unfold restoreComp at heq
      rw [saved_eq P pre C (hown C (by simp))] at heq
      simp only [hrev, if_true] at heq
      split at heq
      · simp at heq
      · rename_i sa heqa
        have hca : ∀ i ∈ C.ins, sa.conns i = pre.conns i := by
          rw [strings_reverse] at heqa
          intro i hi
          have := restoreConns_blocks P C.resOut pre C.ins.reverse st sa
            (nodup_reverse' hnd2.1)
            (fun j hj => hempty j (List.mem_append_left _ (List.mem_reverse.mp hj)))
            (fun j hj => hnd j (hsub j (List.mem_append_left _ (List.mem_reverse.mp hj))))
            (fun j hj o ho hm => hA j (hsub j (List.mem_append_left _ (List.mem_reverse.mp hj))) o ho
              (hsub o (List.mem_append_left _ (List.mem_reverse.mp hm))))
            (fun j hj => hres C (by simp) j (List.mem_reverse.mp hj)) heqa
          exact this i (List.mem_reverse.mpr hi)
        have hoa : ∀ x ∈ A, x ∉ C.ins → sa.conns x = st.conns x := by
          intro x hx hxc
          refine restoreConns_other P st sa C.resOut _ x heqa ?_ ?_
          · intro p hp
            rw [List.mem_reverse] at hp
            unfold strings at hp
            obtain ⟨j, hj, hp⟩ := List.mem_flatMap.mp hp
            obtain ⟨o, _, rfl⟩ := List.mem_map.mp hp
            intro e
            have e' : j = x := e
            exact hxc (by rw [← e']; exact hj)
          · intro p hp o' ho'
            rw [List.mem_reverse] at hp
            unfold strings at hp
            obtain ⟨j, hj, hp⟩ := List.mem_flatMap.mp hp
            obtain ⟨o, ho, rfl⟩ := List.mem_map.mp hp
            have hoo := hres C (by simp) j hj o ho
            simp only at ho'
            rw [hoo] at ho'
            have hEq : o = o' := Option.some.inj ho'
            subst hEq
            intro e
            exact hA j (hsub j (List.mem_append_left _ hj)) o ho (by rw [e]; exact hx)
        have hst1 : st1.conns = sa.conns := by
          split at heq
          · rename_i sb e heqb
            simp only [Prod.mk.injEq] at heq
            have := restoreLinks_conns P fuel P.cfg.allIn P.cfg.pushIn pre C.resIn sa C.mins
            rw [heqb] at this
            rw [← heq.1]; exact this
          · rename_i sb heqb
            have c1 := restoreLinks_conns P fuel P.cfg.allIn P.cfg.pushIn pre C.resIn sa C.mins
            rw [heqb] at c1
            have c2 := restoreLinks_conns P fuel false P.cfg.pushOut pre C.resMOut sb C.couts
            rw [heq] at c2
            simp only at c1 c2
            rw [c2, c1]
        have ih' := ih st1 (fun i hi => hsub i (List.mem_append_right _ hi)) hnd2.2.1
          (fun D hD => hres D (List.mem_cons_of_mem _ hD))
          (fun D hD => hown D (List.mem_cons_of_mem _ hD))
          (fun i hi => by
            rw [hst1, hoa i (hsub i (List.mem_append_right _ hi))
              (fun hc => hnd2.2.2 i hc i hi rfl)]
            exact hempty i (List.mem_append_right _ hi)) h
        refine ⟨?_, ?_⟩
        · intro i hi
          rw [hall] at hi
          rcases List.mem_append.mp hi with hi | hi
          · rw [ih'.2 i (hsub i (List.mem_append_left _ hi)) (fun hc => hnd2.2.2 i hi i hc rfl), hst1]
            exact hca i hi
          · exact ih'.1 i hi
        · intro x hx hxn
          rw [hall] at hxn
          have hx1 : x ∉ C.ins := fun hc => hxn (List.mem_append_left _ hc)
          have hx2 : x ∉ allIns cs := fun hc => hxn (List.mem_append_right _ hc)
          rw [ih'.2 x hx hx2, hst1, hoa x hx hx1]
    · simp at h


/-! ## the general run (cache, composites, executors) -/

/-- the static attributes a run reads -/
structure Stat (s s' : S) : Prop where
  hinted   : s'.hinted = s.hinted
  strict   : s'.strict = s.strict
  ins      : s'.ins = s.ins
  useCache : s'.useCache = s.useCache
  kids     : s'.kids = s.kids
  deps     : s'.deps = s.deps

theorem Stat.refl (s : S) : Stat s s := ⟨rfl, rfl, rfl, rfl, rfl, rfl⟩
theorem Stat.trans {a b c : S} (h1 : Stat a b) (h2 : Stat b c) : Stat a c :=
  ⟨h2.hinted.trans h1.hinted, h2.strict.trans h1.strict, h2.ins.trans h1.ins, h2.useCache.trans h1.useCache,
   h2.kids.trans h1.kids, h2.deps.trans h1.deps⟩

theorem connectS_stat (P : Params) (s : S) (a b : Nat) :
    Stat s (connectS P s a b).1 ∧ (connectS P s a b).1.calls = s.calls := by
  rcases connectS_cases P s a b with heq | ⟨_, _, _, heq⟩ <;> rw [heq] <;> exact ⟨⟨rfl, rfl, rfl, rfl, rfl, rfl⟩, rfl⟩

theorem setInputs_stat (P : Params) (fuel : Nat) (s : S) (kw : List (Nat × Arg)) :
    Stat s (setInputs P fuel s kw).1 ∧ (setInputs P fuel s kw).1.calls = s.calls := by
  induction kw generalizing s with
  | nil => exact ⟨.refl s, rfl⟩
  | cons p kw ih =>
    obtain ⟨c, a⟩ := p
    unfold setInputs
    have h1 : Stat s (assign P fuel s c a).1 ∧ (assign P fuel s c a).1.calls = s.calls := by
      cases a with
      | v x => exact ⟨⟨rfl, rfl, rfl, rfl, rfl, rfl⟩, rfl⟩
      | ch o => exact connectS_stat P s c o
    split
    · rename_i s' heq
      rw [heq] at h1
      exact ⟨h1.1.trans (ih s').1, (ih s').2.trans h1.2⟩
    · rename_i s' e heq; rw [heq] at h1; exact h1

theorem fetchAll_stat (P : Params) (fuel : Nat) (s : S) (is : List Nat) :
    Stat s (fetchAll P fuel s is).1 ∧ (fetchAll P fuel s is).1.calls = s.calls := by
  obtain ⟨m, h⟩ := fetchAll_shape P fuel s is
  rw [h]; exact ⟨⟨rfl, rfl, rfl, rfl, rfl, rfl⟩, rfl⟩

theorem setOutputs_stat (P : Params) (fuel : Nat) (s : S) (os : List Nat) (vs : List Val) :
    Stat s (setOutputs P fuel s os vs).1 ∧ (setOutputs P fuel s os vs).1.calls = s.calls := by
  obtain ⟨m, h⟩ := setOutputs_shape P fuel s os vs
  rw [h]; exact ⟨⟨rfl, rfl, rfl, rfl, rfl, rfl⟩, rfl⟩

/-- the function of node `k` may be called on `args`: one value per input, each of them data that
the input's hint accepts where the hint is strict -/
def GoodCall (P : Params) (s : S) (e : Nat × List Val) : Prop :=
  e.2.length = (s.ins e.1).length ∧
  ∀ p ∈ (s.ins e.1).zip e.2, p.2 ≠ .nd ∧ (s.hinted p.1 = true → s.strict p.1 = true → P.admits p.1 p.2 = true)

theorem GoodCall.of_stat {P : Params} {s s' : S} (h : Stat s s') (e : Nat × List Val) :
    GoodCall P s' e ↔ GoodCall P s e := by
  unfold GoodCall; rw [h.hinted, h.strict, h.ins]

theorem mem_zip_map {α β} (f : α → β) (l : List α) (p : α × β) (h : p ∈ l.zip (l.map f)) :
    p.1 ∈ l ∧ p.2 = f p.1 := by
  induction l with
  | nil => simp at h
  | cons a l ih =>
    simp only [List.map_cons, List.zip_cons_cons, List.mem_cons] at h
    rcases h with rfl | h
    · exact ⟨by simp, rfl⟩
    · exact ⟨List.mem_cons_of_mem _ (ih h).1, (ih h).2⟩

theorem nodeReady_goodCall (P : Params) (s : S) (n : Nat) (h : nodeReady P s n = true) :
    GoodCall P s (n, (s.ins n).map s.val) := by
  unfold nodeReady at h
  simp only [Bool.and_eq_true, List.all_eq_true] at h
  refine ⟨by simp, ?_⟩
  intro p hp
  obtain ⟨hi, hv⟩ := mem_zip_map s.val (s.ins n) p hp
  have := (chanReady_iff P s p.1).mp (h.2 p.1 hi)
  rw [hv]
  exact ⟨this.1, this.2⟩

theorem setOutputs_stat' (P : Params) (fuel : Nat) (s3 : S) (os : List Nat) (vs : List Val) (s4 : S)
    (e : Option Err) (h : setOutputs P fuel s3 os vs = (s4, e)) : Stat s3 s4 ∧ s4.calls = s3.calls := by
  have := setOutputs_stat P fuel s3 os vs
  rw [h] at this; exact this

/-- what the admission returns, spelled out -/
theorem admission_spec (P : Params) (fuel : Nat) (s : S) (n : Nat) (kw : List (Nat × Arg)) :
    (∃ s1 e, setInputs P fuel s kw = (s1, some e) ∧ admission P fuel s n kw = (s1, .refused e)) ∨
    (∃ s1 s2 e, setInputs P fuel s kw = (s1, none) ∧ fetchAll P fuel s1 (s1.ins n) = (s2, some e) ∧
        admission P fuel s n kw = (s2, .refused e)) ∨
    (∃ s1 s2, setInputs P fuel s kw = (s1, none) ∧ fetchAll P fuel s1 (s1.ins n) = (s2, none) ∧
      ((nodeReady P s2 n = false ∧ admission P fuel s n kw = (s2, .refused .readiness)) ∨
       (nodeReady P s2 n = true ∧ s2.useCache n = true ∧ cacheHit P s2 n ((s2.ins n).map s2.val) = true ∧
          admission P fuel s n kw = (s2, .hit)) ∨
       (nodeReady P s2 n = true ∧ (s2.useCache n && cacheHit P s2 n ((s2.ins n).map s2.val)) = false ∧
          admission P fuel s n kw =
            ({ s2 with cached := updF s2.cached n none, running := updF s2.running n true },
             .admitted ((s2.ins n).map s2.val))))) := by
  unfold admission
  cases h1 : setInputs P fuel s kw with
  | mk s1 e1 =>
    cases e1 with
    | some e => exact Or.inl ⟨s1, e, rfl, rfl⟩
    | none =>
      simp only
      cases h2 : fetchAll P fuel s1 (s1.ins n) with
      | mk s2 e2 =>
        cases e2 with
        | some e => exact Or.inr (Or.inl ⟨s1, s2, e, rfl, h2, rfl⟩)
        | none =>
          refine Or.inr (Or.inr ⟨s1, s2, rfl, h2, ?_⟩)
          simp only
          cases hr : nodeReady P s2 n with
          | false => exact Or.inl ⟨rfl, by simp⟩
          | true =>
            cases hc : (s2.useCache n && cacheHit P s2 n ((s2.ins n).map s2.val)) with
            | true =>
              simp only [Bool.and_eq_true] at hc
              exact Or.inr (Or.inl ⟨rfl, hc.1, hc.2, by simp [hc.1]⟩)
            | false => exact Or.inr (Or.inr ⟨rfl, rfl, by simp⟩)

/-- admission leaves the static attributes and the call log alone -/
theorem admission_stat (P : Params) (fuel : Nat) (s : S) (n : Nat) (kw : List (Nat × Arg)) :
    Stat s (admission P fuel s n kw).1 ∧ (admission P fuel s n kw).1.calls = s.calls := by
  have hs := setInputs_stat P fuel s kw
  rcases admission_spec P fuel s n kw with ⟨s1, e, h1, h⟩ | ⟨s1, s2, e, h1, h2, h⟩ | ⟨s1, s2, h1, h2, h⟩
  · rw [h]; rw [h1] at hs; exact hs
  · rw [h]
    rw [h1] at hs
    have hf := fetchAll_stat P fuel s1 (s1.ins n)
    rw [h2] at hf
    exact ⟨hs.1.trans hf.1, hf.2.trans hs.2⟩
  · rw [h1] at hs
    have hf := fetchAll_stat P fuel s1 (s1.ins n)
    rw [h2] at hf
    have h12 : Stat s s2 ∧ s2.calls = s.calls := ⟨hs.1.trans hf.1, hf.2.trans hs.2⟩
    rcases h with ⟨_, h⟩ | ⟨_, _, _, h⟩ | ⟨_, _, h⟩ <;> rw [h]
    · exact h12
    · exact h12
    · exact ⟨⟨h12.1.hinted, h12.1.strict, h12.1.ins, h12.1.useCache, h12.1.kids, h12.1.deps⟩, h12.2⟩

/-- an admitted run: the node was ready in the state the fetch left, and the arguments are the values
its inputs held there -/
theorem admission_admitted (P : Params) (fuel : Nat) (s : S) (n : Nat) (kw : List (Nat × Arg)) (s' : S)
    (args : List Val) (h : admission P fuel s n kw = (s', .admitted args)) : GoodCall P s (n, args) := by
  rcases admission_spec P fuel s n kw with ⟨s1, e, _, h'⟩ | ⟨s1, s2, e, _, _, h'⟩ | ⟨s1, s2, h1, h2, h'⟩
  · rw [h] at h'; cases h'
  · rw [h] at h'; cases h'
  · have hs := setInputs_stat P fuel s kw
    rw [h1] at hs
    have hf := fetchAll_stat P fuel s1 (s1.ins n)
    rw [h2] at hf
    rcases h' with ⟨_, h'⟩ | ⟨_, _, _, h'⟩ | ⟨hr, _, h'⟩
    · rw [h] at h'; cases h'
    · rw [h] at h'; cases h'
    · rw [h] at h'
      simp only [Prod.mk.injEq, Adm.admitted.injEq] at h'
      rw [h'.2]
      exact (GoodCall.of_stat (hs.1.trans hf.1) _).mp (nodeReady_goodCall P s2 n hr)

/-- the new entries of the call log, all of them good calls -/
def CallsGood (P : Params) (s s' : S) : Prop :=
  ∃ new, s'.calls = s.calls ++ new ∧ ∀ e ∈ new, GoodCall P s e

theorem CallsGood.refl (P : Params) (s : S) : CallsGood P s s := ⟨[], by simp, by simp⟩

theorem CallsGood.of_eq {P : Params} {s s' : S} (h : s'.calls = s.calls) : CallsGood P s s' :=
  ⟨[], by simp [h], by simp⟩

theorem CallsGood.trans {P : Params} {a b c : S} (hs : Stat a b) (h1 : CallsGood P a b) (h2 : CallsGood P b c) :
    CallsGood P a c := by
  obtain ⟨n1, e1, g1⟩ := h1
  obtain ⟨n2, e2, g2⟩ := h2
  refine ⟨n1 ++ n2, by rw [e2, e1, List.append_assoc], ?_⟩
  intro e he
  rcases List.mem_append.mp he with he | he
  · exact g1 e he
  · exact (GoodCall.of_stat hs e).mp (g2 e he)

theorem finishRun_good (P : Params) (fuel : Nat) (s : S) (n : Nat) (args : List Val)
    (hg : GoodCall P s (n, args)) :
    Stat s (finishRun P fuel s n args).1 ∧ CallsGood P s (finishRun P fuel s n args).1 := by
  unfold finishRun
  simp only
  split
  · rename_i s4 heq
    have h4 := setOutputs_stat' P fuel _ _ _ s4 none heq
    refine ⟨⟨h4.1.hinted, h4.1.strict, h4.1.ins, h4.1.useCache, h4.1.kids, h4.1.deps⟩, [(n, args)], h4.2, ?_⟩
    intro e he; simp at he; rw [he]; exact hg
  · rename_i s4 e heq
    have h4 := setOutputs_stat' P fuel _ _ _ s4 (some e) heq
    refine ⟨⟨h4.1.hinted, h4.1.strict, h4.1.ins, h4.1.useCache, h4.1.kids, h4.1.deps⟩, [(n, args)], h4.2, ?_⟩
    intro e he; simp at he; rw [he]; exact hg

theorem runKids_good (P : Params) (run : S → Nat → S × Out)
    (hrun : ∀ t k, Stat t (run t k).1 ∧ CallsGood P t (run t k).1) (deps : Nat → List Nat)
    (s : S) (ks done : List Nat) (bad : Bool) :
    Stat s (runKids run deps s ks done bad).1 ∧ CallsGood P s (runKids run deps s ks done bad).1 := by
  induction ks generalizing s done bad with
  | nil => exact ⟨.refl s, .refl P s⟩
  | cons k ks ih =>
    unfold runKids
    split
    · have h1 := hrun s k
      cases hr : run s k with
      | mk s' o =>
        rw [hr] at h1
        have step : ∀ dn bd, Stat s (runKids run deps s' ks dn bd).1 ∧
            CallsGood P s (runKids run deps s' ks dn bd).1 :=
          fun dn bd => ⟨h1.1.trans (ih s' dn bd).1, CallsGood.trans h1.1 h1.2 (ih s' dn bd).2⟩
        cases o with
        | invoked e => cases e <;> exact step _ _
        | _ => exact step _ _
    · exact ih s _ _

theorem runFirst_good (P : Params) (run : S → Nat → S × Out)
    (hrun : ∀ t k, Stat t (run t k).1 ∧ CallsGood P t (run t k).1) (s : S) (ks : List Nat) :
    Stat s (runFirst run s ks).1 ∧ CallsGood P s (runFirst run s ks).1 := by
  induction ks generalizing s with
  | nil => exact ⟨.refl s, .refl P s⟩
  | cons k ks ih =>
    unfold runFirst
    have h1 := hrun s k
    cases hr : run s k with
    | mk s' o =>
      rw [hr] at h1
      have step : Stat s (runFirst run s' ks).1 ∧ CallsGood P s (runFirst run s' ks).1 :=
        ⟨h1.1.trans (ih s').1, CallsGood.trans h1.1 h1.2 (ih s').2⟩
      cases o with
      | err e => exact h1
      | invoked e =>
        cases e with
        | none => exact step
        | some e => exact h1
      | ok => exact step
      | hit => exact step
      | submitted => exact step

/-- **every function called during a run — of a function node, of a composite of any depth, with or
without cache — is called on one value per input, each of them data its strict hint accepts** -/
theorem runAny_good (P : Params) (fuel d : Nat) (s : S) (n : Nat) (kw : List (Nat × Arg)) :
    Stat s (runAny P fuel d s n kw).1 ∧ CallsGood P s (runAny P fuel d s n kw).1 := by
  induction d generalizing s n kw with
  | zero => exact ⟨.refl s, .refl P s⟩
  | succ d ih =>
    unfold runAny
    have ha := admission_stat P fuel s n kw
    cases hadm : admission P fuel s n kw with
    | mk s' a =>
      rw [hadm] at ha
      cases a with
      | refused e => exact ⟨ha.1, .of_eq ha.2⟩
      | hit => exact ⟨ha.1, .of_eq ha.2⟩
      | admitted args =>
        simp only
        have hg : GoodCall P s' (n, args) :=
          (GoodCall.of_stat ha.1 _).mpr (admission_admitted P fuel s n kw s' args hadm)
        split
        · have hf := finishRun_good P fuel s' n args hg
          exact ⟨ha.1.trans hf.1, CallsGood.trans ha.1 (.of_eq ha.2) hf.2⟩
        · split
          · have hk := runFirst_good P (fun t k => runAny P fuel d t k []) (fun t k => ih t k []) s'
              ((s'.kids n).filter fun k => s'.running k)
            split
            · rename_i s'' heq
              rw [heq] at hk
              exact ⟨ha.1.trans ⟨hk.1.hinted, hk.1.strict, hk.1.ins, hk.1.useCache, hk.1.kids, hk.1.deps⟩,
                CallsGood.trans ha.1 (.of_eq ha.2) hk.2⟩
            · rename_i s'' e heq
              rw [heq] at hk
              exact ⟨ha.1.trans ⟨hk.1.hinted, hk.1.strict, hk.1.ins, hk.1.useCache, hk.1.kids, hk.1.deps⟩,
                CallsGood.trans ha.1 (.of_eq ha.2) hk.2⟩
          · have hk := runKids_good P (fun t k => runAny P fuel d t k []) (fun t k => ih t k []) s'.deps s'
              (s'.kids n) [] false
            split
            · rename_i s'' heq
              rw [heq] at hk
              exact ⟨ha.1.trans ⟨hk.1.hinted, hk.1.strict, hk.1.ins, hk.1.useCache, hk.1.kids, hk.1.deps⟩,
                CallsGood.trans ha.1 (.of_eq ha.2) hk.2⟩
            · rename_i s'' heq
              rw [heq] at hk
              exact ⟨ha.1.trans ⟨hk.1.hinted, hk.1.strict, hk.1.ins, hk.1.useCache, hk.1.kids, hk.1.deps⟩,
                CallsGood.trans ha.1 (.of_eq ha.2) hk.2⟩


theorem setOutputs_shape' (P : Params) (fuel : Nat) (s3 : S) (os : List Nat) (vs : List Val) (s4 : S)
    (e : Option Err) (h : setOutputs P fuel s3 os vs = (s4, e)) : ∃ m, s4 = { s3 with val := m } := by
  obtain ⟨m, hm⟩ := setOutputs_shape P fuel s3 os vs
  rw [h] at hm; exact ⟨m, hm⟩

/-- `_finish_run`: the function has been called once, on `args`; the job is no longer outstanding -/
theorem finishRun_facts (P : Params) (fuel : Nat) (s : S) (n : Nat) (args : List Val) :
    (finishRun P fuel s n args).2.isInvoked = true ∧
    (finishRun P fuel s n args).1.calls = s.calls ++ [(n, args)] ∧
    (finishRun P fuel s n args).1.pending = s.pending := by
  unfold finishRun
  simp only
  split
  · rename_i s4 heq
    obtain ⟨m, hm⟩ := setOutputs_shape' P fuel _ _ _ s4 none heq
    subst hm
    exact ⟨rfl, rfl, rfl⟩
  · rename_i s4 e heq
    obtain ⟨m, hm⟩ := setOutputs_shape' P fuel _ _ _ s4 (some e) heq
    subst hm
    exact ⟨rfl, rfl, rfl⟩


/-- re-`connect`ing pairs that are connected already changes nothing (`if other in self.connections:
continue`): the second `__setstate__` cycle of `Node.load`, which re-adopts children that kept their
connections -/
theorem restoreConns_present (P : Params) (st : S) (res l : List (Nat × Nat))
    (h : ∀ p ∈ l, res.lookup p.2 = some p.2 ∧ p.2 ∈ st.conns p.1) : restoreConns P st res l = (st, none) := by
  induction l with
  | nil => rfl
  | cons p l ih =>
    obtain ⟨i, o⟩ := p
    unfold restoreConns
    have hp := h (i, o) (by simp)
    rw [hp.1]
    simp only
    have : connectS P st i o = (st, none) := by simp [connectS, hp.2]
    rw [this]
    exact ih (fun q hq => h q (List.mem_cons_of_mem _ hq))


theorem setInputs_pending (P : Params) (fuel : Nat) (s : S) (kw : List (Nat × Arg)) :
    (setInputs P fuel s kw).1.pending = s.pending := by
  induction kw generalizing s with
  | nil => rfl
  | cons p kw ih =>
    obtain ⟨c, a⟩ := p
    unfold setInputs
    have h1 : (assign P fuel s c a).1.pending = s.pending := by
      cases a with
      | v x => rfl
      | ch o =>
        simp only [assign]
        rcases connectS_cases P s c o with heq | ⟨_, _, _, heq⟩ <;> rw [heq]
    split
    · rename_i s' heq; rw [heq] at h1; rw [ih s']; exact h1
    · rename_i s' e heq; rw [heq] at h1; exact h1

/-- admission does not touch the outstanding jobs -/
theorem admission_pending (P : Params) (fuel : Nat) (s : S) (n : Nat) (kw : List (Nat × Arg)) :
    (admission P fuel s n kw).1.pending = s.pending := by
  have hs := setInputs_pending P fuel s kw
  rcases admission_spec P fuel s n kw with ⟨s1, e, h1, h⟩ | ⟨s1, s2, e, h1, h2, h⟩ | ⟨s1, s2, h1, h2, h⟩
  · rw [h]; rw [h1] at hs; exact hs
  · rw [h]
    rw [h1] at hs
    obtain ⟨m, hm⟩ := fetchAll_shape P fuel s1 (s1.ins n)
    rw [h2] at hm
    simp only at hm
    rw [hm]; exact hs
  · rw [h1] at hs
    obtain ⟨m, hm⟩ := fetchAll_shape P fuel s1 (s1.ins n)
    rw [h2] at hm
    simp only at hm
    have h12 : s2.pending = s.pending := by rw [hm]; exact hs
    rcases h with ⟨_, h⟩ | ⟨_, _, _, h⟩ | ⟨_, _, h⟩ <;> rw [h] <;> exact h12


/-! ## replacing a node -/

theorem setVal_ghost (P : Params) (fuel : Nat) (s : S) (c : Nat) (v : Val) :
    (setVal P fuel s c v).1.conns = s.conns ∧ (setVal P fuel s c v).1.since = s.since ∧
    (setVal P fuel s c v).1.clock = s.clock ∧ (setVal P fuel s c v).1.recv = s.recv := ⟨rfl, rfl, rfl, rfl⟩

theorem softCopy_ghost (P : Params) (fuel : Nat) (src st : S) (cs : List Nat) :
    (softCopy P fuel src st cs).conns = st.conns ∧ (softCopy P fuel src st cs).since = st.since ∧
    (softCopy P fuel src st cs).clock = st.clock ∧ (softCopy P fuel src st cs).recv = st.recv := by
  induction cs generalizing st with
  | nil => exact ⟨rfl, rfl, rfl, rfl⟩
  | cons c r ih =>
    unfold softCopy
    split
    · exact ih st
    · exact ih _

theorem pushSoft_ghost (P : Params) (fuel : Nat) (st : S) (a b : Nat) :
    (pushSoft P fuel st a b).conns = st.conns ∧ (pushSoft P fuel st a b).since = st.since ∧
    (pushSoft P fuel st a b).clock = st.clock := by
  unfold pushSoft
  split <;> exact ⟨rfl, rfl, rfl⟩

theorem pushAll_ghost (P : Params) (fuel : Nat) (l : List (Nat × Nat)) (st : S) :
    (l.foldl (fun st p => pushSoft P fuel st p.1 p.2) st).conns = st.conns ∧
    (l.foldl (fun st p => pushSoft P fuel st p.1 p.2) st).since = st.since ∧
    (l.foldl (fun st p => pushSoft P fuel st p.1 p.2) st).clock = st.clock := by
  induction l generalizing st with
  | nil => exact ⟨rfl, rfl, rfl⟩
  | cons p l ih =>
    obtain ⟨a, b, c⟩ := ih (pushSoft P fuel st p.1 p.2)
    obtain ⟨a', b', c'⟩ := pushSoft_ghost P fuel st p.1 p.2
    exact ⟨a.trans a', b.trans b', c.trans c'⟩

/-- the soft copy writes only into the channels it is given, as long as none of them forwards -/
theorem softCopy_val_other (P : Params) (fuel : Nat) (src st : S) (cs : List Nat)
    (hr : ∀ c ∈ cs, st.recv c = none) (x : Nat) (hx : x ∉ cs) :
    (softCopy P (fuel + 1) src st cs).val x = st.val x := by
  induction cs generalizing st with
  | nil => rfl
  | cons c r ih =>
    unfold softCopy
    have hxc : x ≠ c := fun e => hx (e ▸ (by simp))
    have hxr : x ∉ r := fun h => hx (List.mem_cons_of_mem _ h)
    split
    · exact ih st (fun d hd => hr d (List.mem_cons_of_mem _ hd)) hxr
    · have hrec : ∀ d ∈ r, (setVal P (fuel + 1) st c (src.val c)).1.recv d = none :=
        fun d hd => hr d (List.mem_cons_of_mem _ hd)
      rw [ih (setVal P (fuel + 1) st c (src.val c)).1 hrec hxr]
      rw [setVal_norecv P fuel st c _ (hr c (by simp))]
      split
      · rfl
      · split
        · rfl
        · simp [updF, hxc]


theorem outLinks_nil (s : S) (n : Nat) : outLinks s n [] = [] := by
  unfold outLinks
  apply List.filterMap_eq_nil_iff.mpr
  intro c _
  cases s.recv c <;> simp

/-- a child of a workflow: no value links to re-forge -/
theorem replaceNode_top (P : Params) (fuel : Nat) (s : S) (n : Nat) :
    replaceNode P fuel s n [] [] =
      if replValid P s (s.ins n ++ s.outs n) then
        (softCopy P fuel s (resetNode s n (s.ins n ++ s.outs n)) (s.ins n ++ s.outs n), none)
      else (s, some .replace) := by
  unfold replaceNode
  simp only [outLinks_nil, inLinks, List.filterMap_nil, List.nil_append, List.all_nil, Bool.and_true,
    List.foldl_nil]

end PwVerif.Data
