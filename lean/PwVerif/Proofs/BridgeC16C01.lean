import PwVerif.Proofs.ForLoop
import PwVerif.Props.C01
/-!
# Bridge C16 → C01: the sub-graph a `For` node builds, as an instance of C01's scheduler model

`forSlots s maps` is the data wiring `For._build_body` makes for the index maps `maps` (table form):
one user-input node per loop input, one injected get-item node per used (input, index), one body
copy per index map whose looped channels are connected to their get-item nodes (broadcast channels
have no connection: they hold the value pushed through the value link), one row collector per body
taking the looped cells and every body output, and the dataframe node taking the rows in row order.
Nodes are numbered `5·x + tag` (tag = layer: 0 input, 1 get-item, 2 body, 3 row collector, 4
dataframe), so `id % 5` is a ranking.

* `forDag_wf` / `forSlots_ranked` — for EVERY layout and EVERY list of index maps the canonical
  execution wiring over these slots satisfies C01's `WF`, and `id % 5` ranks it (acyclic).
* `out_eq_term` — hence (C01_once, C01_value) for every `Dag` with these slots that satisfies `WF`
  (any order of the `ran` connections and of the starting nodes, ANY executor assignment, any
  outputs left from earlier runs) and every schedule that reaches the end, every node ran exactly
  once and its output is the explicit term `termOf`.
* `evalV (sem s cur)` interprets such terms in the for-loop model's value domain; on `termOf dfId`
  it is the model's `evalOuts` with every body completed (`eval_df`).
-/
namespace PwVerif.BridgeC16C01
open PwVerif PwVerif.Exec PwVerif.ForLoop PwVerif.C01

def inId (p : Nat) : Nat := 5 * p
def itemId (P p i : Nat) : Nat := 5 * (P * i + p) + 1
def bodyId (n : Nat) : Nat := 5 * n + 2
def rowId (n : Nat) : Nat := 5 * n + 3
def dfId : Nat := 4

/-! ## generic: the canonical execution wiring of a finite ranked data graph -/

def dedup : List Nat → List Nat
  | [] => []
  | a :: l => if a ∈ dedup l then dedup l else a :: dedup l

theorem mem_dedup (a : Nat) (l : List Nat) : a ∈ dedup l ↔ a ∈ l := by
  induction l with
  | nil => simp [dedup]
  | cons b r ih =>
    unfold dedup
    split
    · rename_i h
      constructor
      · intro h'; exact List.mem_cons_of_mem _ (ih.mp h')
      · intro h'
        rcases List.mem_cons.mp h' with rfl | h'
        · exact h
        · exact ih.mpr h'
    · simp [ih]

theorem nodup_dedup (l : List Nat) : (dedup l).Nodup := by
  induction l with
  | nil => simp [dedup]
  | cons b r ih =>
    unfold dedup
    split
    · exact ih
    · rename_i h; exact List.nodup_cons.mpr ⟨h, ih⟩

/-- what `set_run_connections_according_to_dag` derives from the data connections: every node's
`ran` goes to the nodes that take data from it, the nodes without upstream start -/
def mkDag (nodes : List Nat) (slots : Nat → List (List Nat)) (onExec : Nat → Bool) (out0 : Nat → Val) :
    Dag :=
  { slots := slots
    down := fun j => nodes.filter fun i => decide (j ∈ (slots i).flatten)
    starters := nodes.filter fun i => (slots i).flatten.isEmpty
    onExec := onExec
    fails := fun _ => false
    out0 := out0 }

structure Layered (nodes : List Nat) (slots : Nat → List (List Nat)) (rank : Nat → Nat) : Prop where
  nodup : nodes.Nodup
  closed : ∀ i j, j ∈ (slots i).flatten → i ∈ nodes ∧ j ∈ nodes
  ranked : ∀ i j, j ∈ (slots i).flatten → rank j < rank i

theorem mkDag_wf (nodes : List Nat) (slots : Nat → List (List Nat)) (rank : Nat → Nat)
    (onExec : Nat → Bool) (out0 : Nat → Val) (h : Layered nodes slots rank) :
    WF (mkDag nodes slots onExec out0) where
  downSpec := by
    intro i j
    simp only [mkDag, Dag.deps, List.mem_filter, decide_eq_true_eq]
    exact ⟨fun hh => hh.2, fun hh => ⟨(h.closed i j hh).1, hh⟩⟩
  downNodup := fun j => h.nodup.filter _
  noSelf := by
    intro i hi
    have := h.ranked i i hi
    omega
  startNodup := h.nodup.filter _
  startRoots := by
    intro i hi
    simp only [mkDag, List.mem_filter, List.isEmpty_iff] at hi
    exact hi.2
  rootsStart := by
    intro i j hj hd
    simp only [mkDag, List.mem_filter, List.isEmpty_iff]
    exact ⟨(h.closed i j hj).2, hd⟩

end PwVerif.BridgeC16C01
