import PwVerif.Proofs.ForLoop
import PwVerif.Proofs.Exec
/-!
# Bridge C16 → C01: the sub-graph a `For` node builds, as an instance of C01's scheduler model

`forSlots s maps` is the data wiring `For._build_body` makes for the index maps `maps` (table form):
one user-input node per loop input, one injected get-item node per used (input, index), one body
copy per index map whose looped channels are connected to their get-item nodes (broadcast channels
have no connection: they hold the value pushed through the value link), one row collector per body
taking the looped cells and every body output, and the dataframe node taking the rows in row order.
Nodes are numbered `5·x + tag` (tag = layer: 0 input, 1 get-item, 2 body, 3 row collector, 4
dataframe), so `id % 5` is a ranking.

* `forDag_wf` / `forSlots_ranked` — for EVERY layout and EVERY list of index maps the canonical
  execution wiring over these slots satisfies C01's `WF`, and `id % 5` ranks it (acyclic).
* `out_eq_term` — hence (C01_once, C01_value) for every `Dag` with these slots that satisfies `WF`
  (any order of the `ran` connections and of the starting nodes, ANY executor assignment, any
  outputs left from earlier runs) and every schedule that reaches the end, every node ran exactly
  once and its output is the explicit term `termOf`.
* `schedule_independent_lists` — the same for the lists form (column collectors `colSlots`, no dataframe node).
* `evalV (sem s cur)` interprets such terms in the for-loop model's value domain; on `termOf dfId`
  it is the model's `evalOuts` with every body completed (`eval_df`).
-/
namespace PwVerif.BridgeC16C01
open PwVerif PwVerif.Exec PwVerif.ForLoop

/-! ## C01's notions and its two theorems used here

`Props/C01.lean` also pulls in the nested and the fine-grained scheduler models; to keep this bridge
(and with it the C16 check) independent of work in progress there, the three definitions/theorems
used are restated from the same lemmas of `Proofs/Exec.lean` they are one-line corollaries of.
`Proofs/BridgeC16C01Link.lean` checks that they ARE `C01.Reach`, `C01.NoFaults`, `C01_once`,
`C01_value`. -/

/-- `C01.Reach` -/
def Reach (cfg : Cfg) (d : Dag) (s : S) : Prop := ∃ acts, runActs cfg d (init d) acts = some s

/-- `C01.NoFaults` -/
def NoFaults (d : Dag) : Prop := ∀ i, d.fails i = false

theorem reach_inv {cfg d s} (wf : WF d) (h : Reach cfg d s) : Inv cfg d s := by
  obtain ⟨acts, ha⟩ := h
  exact runActs_inv cfg d wf acts _ _ (init_inv cfg d wf) ha

/-- `C01_once` -/
theorem C01_once {cfg d s} (wf : WF d) (rank : Nat → Nat) (hrank : ∀ i j, j ∈ d.deps i → rank j < rank i)
    (hnf : NoFaults d) (h : Reach cfg d s) (hex : s.phase = .exited) (i : Nat) (hm : d.member i) :
    s.calls i = 1 ∧ s.st i = .done := by
  have hinv := reach_inv wf h
  have hd := exit_all_done cfg d wf s hinv rank hrank hex (no_faults_no_failed cfg d s hinv hnf) i hm
  have := hinv.core.calls1 i
  simp [hd] at this
  exact ⟨this, hd⟩

/-- `C01_value` -/
theorem C01_value {cfg d s} (wf : WF d) (rank : Nat → Nat) (hrank : ∀ i j, j ∈ d.deps i → rank j < rank i)
    (hnf : NoFaults d) (h : Reach cfg d s) (hex : s.phase = .exited) (i : Nat) (hm : d.member i) :
    s.out i = .app i (headArgs d s.out i) :=
  done_value cfg d s (reach_inv wf h) i (C01_once wf rank hrank hnf h hex i hm).2

def inId (p : Nat) : Nat := 5 * p
def itemId (P p i : Nat) : Nat := 5 * (P * i + p) + 1
def bodyId (n : Nat) : Nat := 5 * n + 2
def rowId (n : Nat) : Nat := 5 * n + 3
def dfId : Nat := 4

/-! ## generic: the canonical execution wiring of a finite ranked data graph -/

def dedup : List Nat → List Nat
  | [] => []
  | a :: l => if a ∈ dedup l then dedup l else a :: dedup l

theorem mem_dedup (a : Nat) (l : List Nat) : a ∈ dedup l ↔ a ∈ l := by
  induction l with
  | nil => simp [dedup]
  | cons b r ih =>
    unfold dedup
    split
    · rename_i h
      constructor
      · intro h'; exact List.mem_cons_of_mem _ (ih.mp h')
      · intro h'
        rcases List.mem_cons.mp h' with rfl | h'
        · exact h
        · exact ih.mpr h'
    · simp [ih]

theorem nodup_dedup (l : List Nat) : (dedup l).Nodup := by
  induction l with
  | nil => simp [dedup]
  | cons b r ih =>
    unfold dedup
    split
    · exact ih
    · rename_i h; exact List.nodup_cons.mpr ⟨h, ih⟩

/-- what `set_run_connections_according_to_dag` derives from the data connections: every node's
`ran` goes to the nodes that take data from it, the nodes without upstream start -/
def mkDag (nodes : List Nat) (slots : Nat → List (List Nat)) (onExec : Nat → Bool) (out0 : Nat → Val) :
    Dag :=
  { slots := slots
    down := fun j => nodes.filter fun i => decide (j ∈ (slots i).flatten)
    starters := nodes.filter fun i => (slots i).flatten.isEmpty
    onExec := onExec
    fails := fun _ => false
    out0 := out0 }

structure Layered (nodes : List Nat) (slots : Nat → List (List Nat)) (rank : Nat → Nat) : Prop where
  nodup : nodes.Nodup
  closed : ∀ i j, j ∈ (slots i).flatten → i ∈ nodes ∧ j ∈ nodes
  ranked : ∀ i j, j ∈ (slots i).flatten → rank j < rank i

theorem mkDag_wf (nodes : List Nat) (slots : Nat → List (List Nat)) (rank : Nat → Nat)
    (onExec : Nat → Bool) (out0 : Nat → Val) (h : Layered nodes slots rank) :
    WF (mkDag nodes slots onExec out0) where
  downSpec := by
    intro i j
    simp only [mkDag, Dag.deps, List.mem_filter, decide_eq_true_eq]
    exact ⟨fun hh => hh.2, fun hh => ⟨(h.closed i j hh).1, hh⟩⟩
  downNodup := fun j => h.nodup.filter _
  noSelf := by
    intro i hi
    have := h.ranked i i hi
    omega
  startNodup := h.nodup.filter _
  startRoots := by
    intro i hi
    simp only [mkDag, List.mem_filter, List.isEmpty_iff] at hi
    exact hi.2
  rootsStart := by
    intro i j hj hd
    simp only [mkDag, List.mem_filter, List.isEmpty_iff]
    exact ⟨(h.closed i j hj).2, hd⟩

/-! ## the for-loop's sub-graph -/
section Graph
variable {κ ν : Type} [DecidableEq κ]

/-- position of an input label in the body's signature -/
def pos (s : Spec κ ν) (k : κ) : Nat := s.bodyInputs.idxOf k

def nIn (s : Spec κ ν) : Nat := s.bodyInputs.length

/-- the connection list of a channel that takes the looped value `k` of index map `m`: the get-item
node `input_k[i]` if the map mentions `k`, no connection otherwise -/
def cellSlot (s : Spec κ ν) (m : Dict κ) (k : κ) : List Nat :=
  match m.lookup k with
  | some i => if pos s k < nIn s then [itemId (nIn s) (pos s k) i] else []
  | none => []

/-- the get-item node `input_p[i]` exists iff some index map uses it -/
def isItem (s : Spec κ ν) (maps : List (Dict κ)) (p i : Nat) : Bool :=
  maps.any fun m => m.any fun kv => pos s kv.1 == p && kv.2 == i

/-- lists form: column collector number `c` (in creation order: one per body output, then one per
looped input in `zip_on + iter_on` order) takes, row by row, the body copies' output resp. the
get-item nodes of its input -/
def colSlots (s : Spec κ ν) (maps : List (Dict κ)) (c : Nat) : List (List Nat) :=
  if c < s.outputs.length then (List.range maps.length).map (fun n => [bodyId n])
  else match (s.zipOn ++ s.iterOn)[c - s.outputs.length]? with
    | some k => maps.map (fun m => cellSlot s m k)
    | none => []

/-- number of collector nodes: one row collector per row (table form), one column collector per
output and per looped input (lists form) -/
def collCount (s : Spec κ ν) (maps : List (Dict κ)) : Nat :=
  if s.asDf then maps.length else s.outputs.length + (s.zipOn ++ s.iterOn).length

def forSlots (s : Spec κ ν) (maps : List (Dict κ)) (id : Nat) : List (List Nat) :=
  if id % 5 = 0 then (if id / 5 < nIn s then [[]] else [])
  else if id % 5 = 1 then
    (if id / 5 % nIn s < nIn s ∧ isItem s maps (id / 5 % nIn s) (id / 5 / nIn s) = true
      then [[inId (id / 5 % nIn s)], []] else [])
  else if id % 5 = 2 then
    (match maps[id / 5]? with
     | some m => s.bodyInputs.map (cellSlot s m)
     | none => [])
  else if id % 5 = 3 then
    (if s.asDf then
      (match maps[id / 5]? with
       | some m => (s.iterOn ++ s.zipOn).map (cellSlot s m) ++ s.outputs.map (fun _ => [bodyId (id / 5)])
       | none => [])
     else colSlots s maps (id / 5))
  else if id = 4 ∧ s.asDf = true then (List.range maps.length).map (fun n => [rowId n])
  else []

def itemIds (s : Spec κ ν) (maps : List (Dict κ)) : List Nat :=
  maps.flatMap fun m => m.filterMap fun kv =>
    if pos s kv.1 < nIn s then some (itemId (nIn s) (pos s kv.1) kv.2) else none

def forNodes (s : Spec κ ν) (maps : List (Dict κ)) : List Nat :=
  dedup ((List.range (nIn s)).map inId ++ itemIds s maps ++ (List.range maps.length).map bodyId
    ++ (List.range (collCount s maps)).map rowId ++ (if s.asDf then [dfId] else []))

theorem mem_of_lookup {β : Type} (l : List (κ × β)) (k : κ) (v : β) (h : l.lookup k = some v) :
    (k, v) ∈ l := by
  induction l with
  | nil => cases h
  | cons a r ih =>
    obtain ⟨k', v'⟩ := a
    by_cases e : k = k'
    · subst e
      rw [lookup_cons_eq] at h
      cases h
      simp
    · rw [lookup_cons_neq _ _ _ _ e] at h
      exact List.mem_cons_of_mem _ (ih h)

theorem mem_cellSlot (s : Spec κ ν) (m : Dict κ) (k : κ) (j : Nat) (h : j ∈ cellSlot s m k) :
    ∃ i, (k, i) ∈ m ∧ pos s k < nIn s ∧ j = itemId (nIn s) (pos s k) i := by
  unfold cellSlot at h
  split at h
  · rename_i i hl
    split at h
    · rename_i hp
      simp at h
      exact ⟨i, mem_of_lookup m k i hl, hp, h⟩
    · cases h
  · cases h

theorem getElem?_mem_lt {α : Type} (l : List α) (n : Nat) (a : α) (h : l[n]? = some a) :
    a ∈ l ∧ n < l.length := by
  obtain ⟨hn, rfl⟩ := List.getElem?_eq_some_iff.mp h
  exact ⟨List.getElem_mem hn, hn⟩

/-- who feeds whom -/
theorem mem_deps (s : Spec κ ν) (maps : List (Dict κ)) (id j : Nat)
    (h : j ∈ (forSlots s maps id).flatten) :
    (id % 5 = 1 ∧ id / 5 % nIn s < nIn s ∧ isItem s maps (id / 5 % nIn s) (id / 5 / nIn s) = true
        ∧ j = inId (id / 5 % nIn s)) ∨
    (id % 5 = 2 ∧ ∃ m k i, maps[id / 5]? = some m ∧ (k, i) ∈ m ∧ pos s k < nIn s
        ∧ j = itemId (nIn s) (pos s k) i) ∨
    (id % 5 = 3 ∧ id / 5 < collCount s maps ∧
        ((∃ m, m ∈ maps ∧ ∃ k i, (k, i) ∈ m ∧ pos s k < nIn s ∧ j = itemId (nIn s) (pos s k) i) ∨
         ∃ n, n < maps.length ∧ j = bodyId n)) ∨
    (id = 4 ∧ s.asDf = true ∧ ∃ n, n < maps.length ∧ j = rowId n) := by
  unfold forSlots at h
  split at h
  · split at h <;> simp at h
  split at h
  · rename_i h1
    split at h
    · rename_i hc
      simp at h
      exact Or.inl ⟨h1, hc.1, hc.2, h⟩
    · simp at h
  split at h
  · rename_i h2
    split at h
    · rename_i m hm
      simp only [List.mem_flatten, List.mem_map] at h
      obtain ⟨l, ⟨k, _, rfl⟩, hj⟩ := h
      obtain ⟨i, hi, hp, rfl⟩ := mem_cellSlot s m k j hj
      exact Or.inr (Or.inl ⟨h2, m, k, i, hm, hi, hp, rfl⟩)
    · simp at h
  split at h
  · rename_i h3
    split at h
    · rename_i hdf
      split at h
      · rename_i m hm
        obtain ⟨hmm, hlt⟩ := getElem?_mem_lt maps _ m hm
        have hcc : id / 5 < collCount s maps := by simp [collCount, hdf, hlt]
        simp only [List.mem_flatten, List.mem_append, List.mem_map] at h
        obtain ⟨l, hl, hj⟩ := h
        rcases hl with ⟨k, _, rfl⟩ | ⟨o, _, rfl⟩
        · obtain ⟨i, hi, hp, rfl⟩ := mem_cellSlot s m k j hj
          exact Or.inr (Or.inr (Or.inl ⟨h3, hcc, Or.inl ⟨m, hmm, k, i, hi, hp, rfl⟩⟩))
        · simp at hj
          exact Or.inr (Or.inr (Or.inl ⟨h3, hcc, Or.inr ⟨_, hlt, hj⟩⟩))
      · simp at h
    · rename_i hdf
      unfold colSlots at h
      split at h
      · rename_i hc
        have hcc : id / 5 < collCount s maps := by simp [collCount, hdf]; omega
        simp only [List.mem_flatten, List.mem_map, List.mem_range] at h
        obtain ⟨l, ⟨n, hn, rfl⟩, hj⟩ := h
        simp at hj
        exact Or.inr (Or.inr (Or.inl ⟨h3, hcc, Or.inr ⟨n, hn, hj⟩⟩))
      · rename_i hc
        split at h
        · rename_i k hk
          have hcc : id / 5 < collCount s maps := by
            have := (List.getElem?_eq_some_iff.mp hk).1
            simp only [collCount, hdf, Bool.false_eq_true, ↓reduceIte]; omega
          simp only [List.mem_flatten, List.mem_map] at h
          obtain ⟨l, ⟨m, hmm, rfl⟩, hj⟩ := h
          obtain ⟨i, hi, hp, rfl⟩ := mem_cellSlot s m k j hj
          exact Or.inr (Or.inr (Or.inl ⟨h3, hcc, Or.inl ⟨m, hmm, k, i, hi, hp, rfl⟩⟩))
        · simp at h
  split at h
  · rename_i h4
    simp only [List.mem_flatten, List.mem_map, List.mem_range] at h
    obtain ⟨l, ⟨n, hn, rfl⟩, hj⟩ := h
    simp at hj
    exact Or.inr (Or.inr (Or.inr ⟨h4.1, h4.2, n, hn, hj⟩))
  · simp at h

theorem mem_nodes_in (s : Spec κ ν) (maps : List (Dict κ)) (p : Nat) (h : p < nIn s) :
    inId p ∈ forNodes s maps := by
  unfold forNodes
  rw [mem_dedup]
  simp only [List.mem_append, List.mem_map, List.mem_range]
  exact Or.inl (Or.inl (Or.inl (Or.inl ⟨p, h, rfl⟩)))

theorem mem_nodes_item (s : Spec κ ν) (maps : List (Dict κ)) (m : Dict κ) (hm : m ∈ maps) (k : κ) (i : Nat)
    (hk : (k, i) ∈ m) (hp : pos s k < nIn s) : itemId (nIn s) (pos s k) i ∈ forNodes s maps := by
  unfold forNodes
  rw [mem_dedup]
  simp only [List.mem_append]
  refine Or.inl (Or.inl (Or.inl (Or.inr ?_)))
  unfold itemIds
  simp only [List.mem_flatMap, List.mem_filterMap]
  exact ⟨m, hm, (k, i), hk, by simp [hp]⟩

theorem mem_nodes_body (s : Spec κ ν) (maps : List (Dict κ)) (n : Nat) (h : n < maps.length) :
    bodyId n ∈ forNodes s maps := by
  unfold forNodes
  rw [mem_dedup]
  simp only [List.mem_append, List.mem_map, List.mem_range]
  exact Or.inl (Or.inl (Or.inr ⟨n, h, rfl⟩))

theorem mem_nodes_row (s : Spec κ ν) (maps : List (Dict κ)) (n : Nat) (h : n < collCount s maps) :
    rowId n ∈ forNodes s maps := by
  unfold forNodes
  rw [mem_dedup]
  simp only [List.mem_append, List.mem_map, List.mem_range]
  exact Or.inl (Or.inr ⟨n, h, rfl⟩)

theorem mem_nodes_df (s : Spec κ ν) (maps : List (Dict κ)) (hdf : s.asDf = true) : dfId ∈ forNodes s maps := by
  unfold forNodes
  rw [mem_dedup]
  simp [hdf]

theorem isItem_spec (s : Spec κ ν) (maps : List (Dict κ)) (p i : Nat) (h : isItem s maps p i = true) :
    ∃ m, m ∈ maps ∧ ∃ k, (k, i) ∈ m ∧ pos s k = p := by
  unfold isItem at h
  simp only [List.any_eq_true, Bool.and_eq_true, beq_iff_eq] at h
  obtain ⟨m, hm, kv, hkv, h1, h2⟩ := h
  exact ⟨m, hm, kv.1, by rw [← h2]; exact hkv, h1⟩

/-- for EVERY layout and EVERY list of index maps: finitely many nodes, closed, ranked by layer -/
theorem forLayered (s : Spec κ ν) (maps : List (Dict κ)) :
    Layered (forNodes s maps) (forSlots s maps) (· % 5) where
  nodup := nodup_dedup _
  closed := by
    intro id j h
    rcases mem_deps s maps id j h with ⟨h1, hp, hit, rfl⟩ | ⟨h2, m, k, i, hm, hk, hp, rfl⟩ |
        ⟨h3, hcc, hj⟩ | ⟨rfl, hdf, n, hn, rfl⟩
    · obtain ⟨m, hm, k, hk, hpos⟩ := isItem_spec s maps _ _ hit
      refine ⟨?_, mem_nodes_in s maps _ hp⟩
      have := mem_nodes_item s maps m hm k _ hk (by rw [hpos]; exact hp)
      rw [hpos] at this
      have e : itemId (nIn s) (id / 5 % nIn s) (id / 5 / nIn s) = id := by
        unfold itemId
        have := Nat.div_add_mod (id / 5) (nIn s)
        omega
      rw [e] at this; exact this
    · obtain ⟨hmm, hlt⟩ := getElem?_mem_lt maps _ m hm
      refine ⟨?_, mem_nodes_item s maps m hmm k i hk hp⟩
      have := mem_nodes_body s maps _ hlt
      have e : bodyId (id / 5) = id := by unfold bodyId; omega
      rw [e] at this; exact this
    · have hid : id ∈ forNodes s maps := by
        have := mem_nodes_row s maps _ hcc
        have e : rowId (id / 5) = id := by unfold rowId; omega
        rw [e] at this; exact this
      rcases hj with ⟨m, hmm, k, i, hk, hp, rfl⟩ | ⟨n, hn, rfl⟩
      · exact ⟨hid, mem_nodes_item s maps m hmm k i hk hp⟩
      · exact ⟨hid, mem_nodes_body s maps _ hn⟩
    · exact ⟨mem_nodes_df s maps hdf, mem_nodes_row s maps n (by simp [collCount, hdf, hn])⟩
  ranked := by
    intro id j h
    rcases mem_deps s maps id j h with ⟨h1, _, _, rfl⟩ | ⟨h2, m, k, i, _, _, _, rfl⟩ |
        ⟨h3, _, hj⟩ | ⟨rfl, _, n, _, rfl⟩
    · show inId _ % 5 < id % 5
      unfold inId; omega
    · show itemId _ _ _ % 5 < id % 5
      unfold itemId; omega
    · rcases hj with ⟨m, _, k, i, _, _, rfl⟩ | ⟨n, _, rfl⟩
      · show itemId _ _ _ % 5 < id % 5
        unfold itemId; omega
      · show bodyId _ % 5 < id % 5
        unfold bodyId; omega
    · show rowId n % 5 < 4 % 5
      unfold rowId; omega

/-- the sub-graph as a C01 composite: ANY executor assignment, any outputs left by earlier runs -/
def forDag (s : Spec κ ν) (maps : List (Dict κ)) (onExec : Nat → Bool) (out0 : Nat → Val) : Dag :=
  mkDag (forNodes s maps) (forSlots s maps) onExec out0

theorem forDag_wf (s : Spec κ ν) (maps : List (Dict κ)) (onExec : Nat → Bool) (out0 : Nat → Val) :
    WF (forDag s maps onExec out0) :=
  mkDag_wf _ _ _ onExec out0 (forLayered s maps)

theorem forSlots_ranked (s : Spec κ ν) (maps : List (Dict κ)) (d : Dag) (hd : d.slots = forSlots s maps) :
    ∀ i j, j ∈ d.deps i → j % 5 < i % 5 := by
  intro i j h
  unfold Dag.deps at h
  rw [hd] at h
  exact (forLayered s maps).ranked i j h

end Graph

/-! ## every schedule computes the same explicit terms -/
section Terms
variable {κ ν : Type} [DecidableEq κ]

def tIn (p : Nat) : Val := .app (inId p) [.d]
def tItem (P p i : Nat) : Val := .app (itemId P p i) [tIn p, .d]

/-- what a channel for the looped value `k` of index map `m` receives -/
def cellTerm (s : Spec κ ν) (m : Dict κ) (k : κ) : Val :=
  match m.lookup k with
  | some i => if pos s k < nIn s then tItem (nIn s) (pos s k) i else .d
  | none => .d

def tBody (s : Spec κ ν) (m : Dict κ) (n : Nat) : Val :=
  .app (bodyId n) (s.bodyInputs.map (cellTerm s m))

def tRow (s : Spec κ ν) (m : Dict κ) (n : Nat) : Val :=
  .app (rowId n) ((s.iterOn ++ s.zipOn).map (cellTerm s m) ++ s.outputs.map fun _ => tBody s m n)

def tDf (s : Spec κ ν) (maps : List (Dict κ)) : Val :=
  .app dfId ((enum 0 maps).map fun nm => tRow s nm.2 nm.1)

theorem forSlots_in (s : Spec κ ν) (maps : List (Dict κ)) (p : Nat) (h : p < nIn s) :
    forSlots s maps (inId p) = [[]] := by
  unfold forSlots inId
  have h1 : 5 * p % 5 = 0 := by omega
  have h2 : 5 * p / 5 = p := by omega
  simp [h1, h2, h]

theorem item_decode (P p i : Nat) (h : p < P) :
    itemId P p i % 5 = 1 ∧ itemId P p i / 5 % P = p ∧ itemId P p i / 5 / P = i := by
  unfold itemId
  have h2 : (5 * (P * i + p) + 1) / 5 = P * i + p := by omega
  refine ⟨by omega, ?_, ?_⟩
  · rw [h2, Nat.mul_add_mod, Nat.mod_eq_of_lt h]
  · rw [h2, Nat.mul_add_div (by omega), Nat.div_eq_of_lt h]; simp

theorem forSlots_item (s : Spec κ ν) (maps : List (Dict κ)) (p i : Nat) (h : p < nIn s)
    (hit : isItem s maps p i = true) : forSlots s maps (itemId (nIn s) p i) = [[inId p], []] := by
  obtain ⟨h1, h2, h3⟩ := item_decode (nIn s) p i h
  unfold forSlots
  simp [h1, h2, h3, h, hit]

theorem forSlots_body (s : Spec κ ν) (maps : List (Dict κ)) (n : Nat) (m : Dict κ) (hm : maps[n]? = some m) :
    forSlots s maps (bodyId n) = s.bodyInputs.map (cellSlot s m) := by
  unfold forSlots bodyId
  have h1 : (5 * n + 2) % 5 = 2 := by omega
  have h2 : (5 * n + 2) / 5 = n := by omega
  simp [h1, h2, hm]

theorem forSlots_row (s : Spec κ ν) (maps : List (Dict κ)) (hdf : s.asDf = true) (n : Nat) (m : Dict κ)
    (hm : maps[n]? = some m) :
    forSlots s maps (rowId n)
      = (s.iterOn ++ s.zipOn).map (cellSlot s m) ++ s.outputs.map (fun _ => [bodyId n]) := by
  unfold forSlots rowId
  have h1 : (5 * n + 3) % 5 = 3 := by omega
  have h2 : (5 * n + 3) / 5 = n := by omega
  simp [h1, h2, hm, hdf]

theorem forSlots_df (s : Spec κ ν) (maps : List (Dict κ)) (hdf : s.asDf = true) :
    forSlots s maps dfId = (List.range maps.length).map (fun n => [rowId n]) := by
  unfold forSlots dfId
  simp [hdf]

theorem forSlots_col (s : Spec κ ν) (maps : List (Dict κ)) (hdf : s.asDf = false) (c : Nat) :
    forSlots s maps (rowId c) = colSlots s maps c := by
  unfold forSlots rowId
  have h1 : (5 * c + 3) % 5 = 3 := by omega
  have h2 : (5 * c + 3) / 5 = c := by omega
  simp [h1, h2, hdf]

theorem isItem_of_mem (s : Spec κ ν) (maps : List (Dict κ)) (m : Dict κ) (hm : m ∈ maps) (k : κ) (i : Nat)
    (hk : (k, i) ∈ m) : isItem s maps (pos s k) i = true := by
  unfold isItem
  simp only [List.any_eq_true, Bool.and_eq_true, beq_iff_eq]
  exact ⟨m, hm, (k, i), hk, rfl, rfl⟩

/-- every index map mentions every looped label, the looped labels are body inputs, something is looped
(true of the maps `dictionary_to_index_maps` returns under the guard) -/
structure Wired (s : Spec κ ν) (maps : List (Dict κ)) : Prop where
  sub : ∀ k ∈ s.iterOn ++ s.zipOn, k ∈ s.bodyInputs
  nonempty : s.iterOn ++ s.zipOn ≠ []
  full : ∀ m ∈ maps, ∀ k ∈ s.iterOn ++ s.zipOn, ∃ i, m.lookup k = some i

theorem pos_lt (s : Spec κ ν) (k : κ) (h : k ∈ s.bodyInputs) : pos s k < nIn s := by
  unfold pos nIn
  exact List.idxOf_lt_length_iff.mpr h

end Terms

section Sched
variable {κ ν : Type} [DecidableEq κ]

theorem enum_map_range' {α β : Type} (a : Nat) (l : List α) (f : Nat × α → β) (g : Nat → β)
    (h : ∀ n x, l[n]? = some x → g (a + n) = f (a + n, x)) :
    (enum a l).map f = (List.range' a l.length).map g := by
  induction l generalizing a with
  | nil => rfl
  | cons x r ih =>
    simp only [enum, List.map_cons, List.length_cons, List.range'_succ]
    have h0 := h 0 x (by simp)
    simp only [Nat.add_zero] at h0
    rw [h0, ih (a + 1) (fun n y hy => by
      have := h (n + 1) y (by simpa using hy)
      have e : a + (n + 1) = a + 1 + n := by omega
      rw [e] at this; exact this)]

/-- the hypotheses under which C01 speaks about a run of the loop's sub-graph: the data wiring is
`forSlots`, the execution wiring is well-formed (any order of `ran` connections and starters, ANY
executor assignment `d.onExec`, any initial outputs `d.out0`), no child raises, and `t` is the state
some schedule `acts` reaches when the run returns -/
structure Sched (s : Spec κ ν) (maps : List (Dict κ)) (cfg : Cfg) (d : Dag) (t : S) : Prop where
  slots : d.slots = forSlots s maps
  wf : WF d
  nofaults : NoFaults d
  reach : Reach cfg d t
  exited : t.phase = .exited

variable {s : Spec κ ν} {maps : List (Dict κ)} {cfg : Cfg} {d : Dag} {t : S}

theorem Sched.deps (h : Sched s maps cfg d t) (i : Nat) : d.deps i = (forSlots s maps i).flatten := by
  unfold Dag.deps; rw [h.slots]

/-- C01_once + C01_value at a child of the sub-graph -/
theorem Sched.node (h : Sched s maps cfg d t) (i : Nat) (hm : d.member i) :
    t.calls i = 1 ∧ t.st i = .done ∧ t.out i = .app i (headArgs d t.out i) := by
  have hrank := forSlots_ranked s maps d h.slots
  have h1 := C01_once h.wf (· % 5) hrank h.nofaults h.reach h.exited i hm
  exact ⟨h1.1, h1.2, C01_value h.wf (· % 5) hrank h.nofaults h.reach h.exited i hm⟩

theorem Sched.out_in (h : Sched s maps cfg d t) (p : Nat) (hp : p < nIn s) (i : Nat)
    (hdep : inId p ∈ d.deps i) : t.out (inId p) = tIn p := by
  have hroot : d.deps (inId p) = [] := by rw [h.deps, forSlots_in s maps p hp]; rfl
  have hm : d.member (inId p) := Or.inl (h.wf.rootsStart i (inId p) hdep hroot)
  rw [(h.node _ hm).2.2]
  unfold headArgs tIn
  rw [h.slots, forSlots_in s maps p hp]
  rfl

theorem Sched.out_item (h : Sched s maps cfg d t) (m : Dict κ) (hm : m ∈ maps) (k : κ) (i : Nat)
    (hk : (k, i) ∈ m) (hp : pos s k < nIn s) :
    t.out (itemId (nIn s) (pos s k) i) = tItem (nIn s) (pos s k) i ∧ t.calls (itemId (nIn s) (pos s k) i) = 1 := by
  have hsl := forSlots_item s maps (pos s k) i hp (isItem_of_mem s maps m hm k i hk)
  have hdeps : d.deps (itemId (nIn s) (pos s k) i) = [inId (pos s k)] := by rw [h.deps, hsl]; rfl
  have hmem : d.member (itemId (nIn s) (pos s k) i) := Or.inr (by rw [hdeps]; simp)
  obtain ⟨hc, _, ho⟩ := h.node _ hmem
  refine ⟨?_, hc⟩
  rw [ho]
  unfold headArgs tItem
  rw [h.slots, hsl]
  simp only [List.map_cons, List.map_nil]
  rw [h.out_in (pos s k) hp _ (by rw [hdeps]; simp)]

theorem Sched.out_cell (h : Sched s maps cfg d t) (m : Dict κ) (hm : m ∈ maps) (k : κ) :
    (match cellSlot s m k with | [] => Val.d | c :: _ => t.out c) = cellTerm s m k := by
  unfold cellSlot cellTerm
  cases hl : m.lookup k with
  | none => rfl
  | some i =>
    by_cases hp : pos s k < nIn s
    · simp only [hp, ↓reduceIte]
      exact (h.out_item m hm k i (mem_of_lookup m k i hl) hp).1
    · simp only [hp, ↓reduceIte]

theorem cells_nonempty (w : Wired s maps) (m : Dict κ) (hm : m ∈ maps) (ks : List κ)
    (hks : ∀ k ∈ s.iterOn ++ s.zipOn, k ∈ ks) : (ks.map (cellSlot s m)).flatten ≠ [] := by
  obtain ⟨k, hk⟩ := List.exists_mem_of_ne_nil _ w.nonempty
  obtain ⟨i, hi⟩ := w.full m hm k hk
  have hp := pos_lt s k (w.sub k hk)
  intro hnil
  have : itemId (nIn s) (pos s k) i ∈ (ks.map (cellSlot s m)).flatten := by
    simp only [List.mem_flatten, List.mem_map]
    exact ⟨cellSlot s m k, ⟨k, hks k hk, rfl⟩, by simp [cellSlot, hi, hp]⟩
  rw [hnil] at this; cases this

theorem Sched.out_body (h : Sched s maps cfg d t) (w : Wired s maps) (n : Nat) (m : Dict κ)
    (hn : maps[n]? = some m) : t.out (bodyId n) = tBody s m n ∧ t.calls (bodyId n) = 1 := by
  obtain ⟨hm, _⟩ := getElem?_mem_lt maps n m hn
  have hsl := forSlots_body s maps n m hn
  have hmem : d.member (bodyId n) := Or.inr (by
    rw [h.deps, hsl]; exact cells_nonempty w m hm _ (fun k hk => w.sub k hk))
  obtain ⟨hc, _, ho⟩ := h.node _ hmem
  refine ⟨?_, hc⟩
  rw [ho]
  unfold headArgs tBody
  rw [h.slots, hsl, List.map_map]
  congr 1
  apply List.map_congr_left
  intro k _
  exact h.out_cell m hm k

theorem Sched.out_row (h : Sched s maps cfg d t) (w : Wired s maps) (hdf : s.asDf = true) (n : Nat) (m : Dict κ)
    (hn : maps[n]? = some m) : t.out (rowId n) = tRow s m n := by
  obtain ⟨hm, _⟩ := getElem?_mem_lt maps n m hn
  have hsl := forSlots_row s maps hdf n m hn
  have hmem : d.member (rowId n) := Or.inr (by
    rw [h.deps, hsl, List.flatten_append]
    intro hnil
    exact cells_nonempty w m hm _ (fun k hk => hk) (List.append_eq_nil_iff.mp hnil).1)
  rw [(h.node _ hmem).2.2]
  unfold headArgs tRow
  rw [h.slots, hsl, List.map_append, List.map_map, List.map_map]
  congr 1
  congr 1
  · apply List.map_congr_left
    intro k _
    exact h.out_cell m hm k
  · apply List.map_congr_left
    intro o _
    exact (h.out_body w n m hn).1

theorem Sched.out_df (h : Sched s maps cfg d t) (w : Wired s maps) (hdf : s.asDf = true) (hne : maps ≠ []) :
    t.out dfId = tDf s maps := by
  have hsl := forSlots_df s maps hdf
  have hmem : d.member dfId := Or.inr (by
    rw [h.deps, hsl]
    cases maps with
    | nil => exact absurd rfl hne
    | cons m r => simp [List.range_succ_eq_map])
  rw [(h.node _ hmem).2.2]
  unfold headArgs tDf
  rw [h.slots, hsl, List.map_map, List.range_eq_range']
  congr 1
  symm
  apply enum_map_range' 0 maps
  intro n m hn
  simp only [Nat.zero_add, Function.comp_def]
  exact h.out_row w hdf n m hn

end Sched

/-! ## what the terms mean: interpretation in the for-loop model's value domain -/
section Sem
variable {κ ν : Type} [DecidableEq κ]

inductive U (κ ν : Type)
  | inval (v : InVal ν)                 -- output of a user-input node
  | cell (c : Option ν)                 -- output of a get-item node (`none`: it cannot deliver)
  | outs (o : Option (List (κ × ν)))    -- the outputs of a body copy under their column names
  | row (r : Option (List (κ × ν)))     -- output of a row collector
  | table (t : Option (Table κ ν))      -- output of the dataframe node
  | col (c : Option (List ν))           -- output of a column collector (lists form)
  | own                                 -- no connection: the channel's own value
  | bad

mutual
def evalV (F : Nat → List (U κ ν) → U κ ν) : Val → U κ ν
  | .nd => .bad
  | .d => .own
  | .app f args => F f (evalArgs F args)
def evalArgs (F : Nat → List (U κ ν) → U κ ν) : List Val → List (U κ ν)
  | [] => []
  | v :: vs => evalV F v :: evalArgs F vs
end

omit [DecidableEq κ] in
theorem evalArgs_map (F : Nat → List (U κ ν) → U κ ν) (l : List Val) : evalArgs F l = l.map (evalV F) := by
  induction l with
  | nil => rfl
  | cons a r ih => simp [evalArgs, ih]

/-- the argument a body copy sees on input `k`, given what its channel holds -/
def argOf (s : Spec κ ν) (cur : Cur κ ν) (k : κ) : U κ ν → Option ν
  | .cell c => c
  | .own =>
    if k ∈ s.iterOn ++ s.zipOn then s.bodyDefault k
    else match valOf cur k with
      | .nd => none
      | .one v => some v
      | .many vs => some (s.listVal vs)
  | _ => none

def zipW {α β γ : Type} (f : α → β → γ) : List α → List β → List γ
  | a :: as, b :: bs => f a b :: zipW f as bs
  | _, _ => []

/-- the function each node of the sub-graph computes (node kind = `id % 5`) -/
def sem (s : Spec κ ν) (cur : Cur κ ν) (id : Nat) (args : List (U κ ν)) : U κ ν :=
  if id % 5 = 0 then
    (match s.bodyInputs[id / 5]? with
     | some k => .inval (valOf cur k)
     | none => .bad)
  else if id % 5 = 1 then
    (match args with
     | [.inval (.many vs), .own] => .cell vs[id / 5 / nIn s]?
     | [.inval _, .own] => .cell none
     | _ => .bad)
  else if id % 5 = 2 then
    .outs (match optAll (zipW (argOf s cur) s.bodyInputs args) with
           | some a => some (s.outputs.map fun o => (s.colmap o, s.bodyFn o a))
           | none => none)
  else if id % 5 = 3 then
    if s.asDf = false then
      -- lists form: collector `id / 5` gathers, row by row, its output of every body copy / its looped value
      (if id / 5 < s.outputs.length then
        .col (optAll (args.map fun u => match u with
          | U.outs (some l) => (l[id / 5]?).map (·.2)
          | _ => none))
       else .col (optAll (args.map fun u => match u with | U.cell c => c | _ => none)))
    else
    .row (match optAll (zipW (fun k u => match u with | U.cell c => c.map (k, ·) | _ => none)
                          (s.iterOn ++ s.zipOn) (args.take (s.iterOn ++ s.zipOn).length)) with
          | none => none
          | some l =>
            match (if s.outputs = [] then some []
                   else match args.drop (s.iterOn ++ s.zipOn).length with
                     | .outs x :: _ => x
                     | _ => none) with
            | none => none
            | some o => some (rupdate (l ++ o)))
  else if id = 4 then .table (optAll (args.map fun u => match u with | U.row r => r | _ => none))
  else .bad

omit [DecidableEq κ] in
theorem zipW_map {α β γ : Type} (f : α → β → γ) (g : α → β) (l : List α) :
    zipW f l (l.map g) = l.map fun a => f a (g a) := by
  induction l with
  | nil => rfl
  | cons a r ih => simp [zipW, ih]

theorem lookup_wires (cur : Cur κ ν) (m : Dict κ) (k : κ) :
    (wires cur m).lookup k = (m.lookup k).map (itemVal cur k) := by
  unfold wires
  induction m with
  | nil => rfl
  | cons a r ih =>
    obtain ⟨k', i⟩ := a
    by_cases e : k = k'
    · subst e; simp
    · rw [List.map_cons, lookup_cons_neq _ _ _ _ e, lookup_cons_neq _ _ _ _ e, ih]

theorem getElem?_pos (s : Spec κ ν) (k : κ) (h : k ∈ s.bodyInputs) : s.bodyInputs[pos s k]? = some k := by
  unfold pos
  rw [List.getElem?_eq_getElem (List.idxOf_lt_length_iff.mpr h)]
  simp

theorem eval_item (s : Spec κ ν) (cur : Cur κ ν) (k : κ) (hk : k ∈ s.bodyInputs) (i : Nat) :
    evalV (sem s cur) (tItem (nIn s) (pos s k) i) = .cell (itemVal cur k i) := by
  obtain ⟨h1, h2, h3⟩ := item_decode (nIn s) (pos s k) i (pos_lt s k hk)
  have hin : evalV (sem s cur) (tIn (pos s k)) = .inval (valOf cur k) := by
    unfold tIn
    simp only [evalV, evalArgs, sem, inId]
    have e1 : 5 * pos s k % 5 = 0 := by omega
    have e2 : 5 * pos s k / 5 = pos s k := by omega
    simp [e1, e2, getElem?_pos s k hk]
  unfold tItem
  simp only [evalV, evalArgs, hin]
  unfold sem itemVal
  simp only [h1, ↓reduceIte, h3]
  cases valOf cur k <;> rfl

/-- a looped channel: what the get-item node delivers, as the model's `wires` say -/
theorem eval_cell (s : Spec κ ν) (cur : Cur κ ν) (m : Dict κ) (k : κ) (hk : k ∈ s.bodyInputs) :
    evalV (sem s cur) (cellTerm s m k)
      = match (wires cur m).lookup k with
        | some c => .cell c
        | none => .own := by
  rw [lookup_wires]
  unfold cellTerm
  cases hl : m.lookup k with
  | none => simp [evalV]
  | some i =>
    simp only [pos_lt s k hk, ↓reduceIte, Option.map_some]
    exact eval_item s cur k hk i

theorem sem_body (s : Spec κ ν) (cur : Cur κ ν) (n : Nat) (args : List (U κ ν)) :
    sem s cur (bodyId n) args
      = .outs (match optAll (zipW (argOf s cur) s.bodyInputs args) with
               | some a => some (s.outputs.map fun o => (s.colmap o, s.bodyFn o a))
               | none => none) := by
  unfold sem bodyId
  have e0 : ¬ (5 * n + 2) % 5 = 0 := by omega
  have e1 : ¬ (5 * n + 2) % 5 = 1 := by omega
  have e2 : (5 * n + 2) % 5 = 2 := by omega
  rw [if_neg e0, if_neg e1, if_pos e2]

theorem sem_row (s : Spec κ ν) (cur : Cur κ ν) (hdf : s.asDf = true) (n : Nat) (args : List (U κ ν)) :
    sem s cur (rowId n) args
      = .row (match optAll (zipW (fun k u => match u with | U.cell c => c.map (k, ·) | _ => none)
                          (s.iterOn ++ s.zipOn) (args.take (s.iterOn ++ s.zipOn).length)) with
          | none => none
          | some l =>
            match (if s.outputs = [] then some []
                   else match args.drop (s.iterOn ++ s.zipOn).length with
                     | .outs x :: _ => x
                     | _ => none) with
            | none => none
            | some o => some (rupdate (l ++ o))) := by
  unfold sem rowId
  have e0 : ¬ (5 * n + 3) % 5 = 0 := by omega
  have e1 : ¬ (5 * n + 3) % 5 = 1 := by omega
  have e2 : ¬ (5 * n + 3) % 5 = 2 := by omega
  have e3 : (5 * n + 3) % 5 = 3 := by omega
  have e4 : ¬ s.asDf = false := by simp [hdf]
  rw [if_neg e0, if_neg e1, if_neg e2, if_pos e3, if_neg e4]

theorem sem_df (s : Spec κ ν) (cur : Cur κ ν) (args : List (U κ ν)) :
    sem s cur dfId args = .table (optAll (args.map fun u => match u with | U.row r => r | _ => none)) := by
  unfold sem dfId
  simp

theorem eval_body (s : Spec κ ν) (cur : Cur κ ν) (m : Dict κ) (n : Nat) :
    evalV (sem s cur) (tBody s m n)
      = .outs (match optAll (s.bodyInputs.map (bodyArg s cur (wires cur m))) with
               | some a => some (s.outputs.map fun o => (s.colmap o, s.bodyFn o a))
               | none => none) := by
  unfold tBody
  simp only [evalV, evalArgs_map, List.map_map]
  rw [sem_body, zipW_map]
  have : (s.bodyInputs.map fun a => argOf s cur a ((evalV (sem s cur) ∘ cellTerm s m) a))
      = s.bodyInputs.map (bodyArg s cur (wires cur m)) := by
    apply List.map_congr_left
    intro k hk
    simp only [Function.comp_def]
    rw [eval_cell s cur m k hk]
    unfold bodyArg
    cases (wires cur m).lookup k <;> rfl
  rw [this]

theorem outs_model (s : Spec κ ν) (cur : Cur κ ν) (w : List (κ × Option ν)) :
    optAll (s.outputs.map fun o => (bodyOut s cur w o).map (s.colmap o, ·))
      = if s.outputs = [] then some []
        else match optAll (s.bodyInputs.map (bodyArg s cur w)) with
          | some a => some (s.outputs.map fun o => (s.colmap o, s.bodyFn o a))
          | none => none := by
  unfold bodyOut
  cases ha : optAll (s.bodyInputs.map (bodyArg s cur w)) with
  | some a =>
    simp only [Option.map_some]
    rw [optAll_map_some']
    split
    · rename_i h; simp [h]
    · rfl
  | none =>
    simp only [Option.map_none]
    cases s.outputs with
    | nil => rfl
    | cons o r => simp [optAll]

theorem eval_row (s : Spec κ ν) (cur : Cur κ ν) (hdf : s.asDf = true)
    (hsub : ∀ k ∈ s.iterOn ++ s.zipOn, k ∈ s.bodyInputs)
    (m : Dict κ) (n : Nat) (order : List Nat) (hn : n ∈ order) :
    evalV (sem s cur) (tRow s m n) = .row (rowAt s cur order n (wires cur m)) := by
  unfold tRow
  generalize hL : s.iterOn ++ s.zipOn = L at hsub ⊢
  simp only [evalV, evalArgs_map, List.map_append, List.map_map]
  rw [sem_row s cur hdf, hL]
  have hlen : (L.map (evalV (sem s cur) ∘ cellTerm s m)).length = L.length := by simp
  rw [← hlen, List.take_left, List.drop_left, zipW_map]
  have hcells : (L.map fun a =>
        match (evalV (sem s cur) ∘ cellTerm s m) a with
        | U.cell c => Option.map (fun x => (a, x)) c
        | _ => none)
      = L.map fun k => (loopedCell (wires cur m) k).map (k, ·) := by
    apply List.map_congr_left
    intro k hk
    simp only [Function.comp_def]
    rw [eval_cell s cur m k (hsub k hk)]
    unfold loopedCell
    cases (wires cur m).lookup k <;> rfl
  rw [hcells]
  have houts : (if s.outputs = [] then some []
        else match s.outputs.map ((evalV (sem s cur)) ∘ fun _ => tBody s m n) with
          | U.outs x :: _ => x
          | _ => none)
      = optAll (s.outputs.map fun o => (bodyOutAt s cur order n (wires cur m) o).map (s.colmap o, ·)) := by
    have e : ∀ o, bodyOutAt s cur order n (wires cur m) o = bodyOut s cur (wires cur m) o := by
      intro o; simp [bodyOutAt, hn]
    simp only [e]
    rw [outs_model]
    cases ho : s.outputs with
    | nil => rfl
    | cons o r =>
      simp only [List.map_cons, Function.comp_def, eval_body, reduceCtorEq, ↓reduceIte]
      rw [ho]
      rfl
  rw [houts]
  subst hL
  rfl

omit [DecidableEq κ] in
theorem enum_map_congr2 {α β : Type} (a : Nat) (l : List α) (G G' : Nat → α → β)
    (h : ∀ n, a ≤ n → n < a + l.length → ∀ x ∈ l, G n x = G' n x) :
    (enum a l).map (fun nx => G nx.1 nx.2) = (enum a l).map (fun nx => G' nx.1 nx.2) := by
  induction l generalizing a with
  | nil => rfl
  | cons x r ih =>
    simp only [enum, List.map_cons]
    rw [h a (Nat.le_refl _) (by simp) x (by simp)]
    rw [ih (a + 1) fun n h1 h2 y hy => h n (by omega) (by simp; omega) y (by simp [hy])]

/-- the term every schedule computes at the dataframe node denotes what the model's `evalOuts`
delivers when every body has completed -/
theorem eval_df (s : Spec κ ν) (cur : Cur κ ν) (hdf : s.asDf = true)
    (hsub : ∀ k ∈ s.iterOn ++ s.zipOn, k ∈ s.bodyInputs)
    (maps : List (Dict κ)) (order : List Nat) (hc : Covers order maps.length) :
    evalV (sem s cur) (tDf s maps)
      = .table (optAll ((enum 0 maps).map fun nm => rowAt s cur order nm.1 (wires cur nm.2))) := by
  unfold tDf
  simp only [evalV, evalArgs_map, List.map_map]
  rw [sem_df, List.map_map]
  congr 2
  apply enum_map_congr2 0 maps
    (fun n m => match evalV (sem s cur) (tRow s m n) with | U.row r => r | _ => none)
    (fun n m => rowAt s cur order n (wires cur m))
  intro n _ hn m _
  rw [eval_row s cur hdf hsub m n order (hc n (by omega))]

end Sem

/-! ## the bridge theorem -/
section Main
variable {κ ν : Type} [DecidableEq κ]

/-- the index maps of good inputs wire every body completely -/
theorem wired_refMaps (s : Spec κ ν) (v : Valid s) (cur : Cur κ ν) (g : Good s cur) :
    Wired s (refMaps (lensOfCur cur s.iterOn) (lensOfCur cur s.zipOn)) where
  sub := v.sub
  nonempty := v.nonempty
  full := by
    intro m hm k hk
    have hk' : k ∈ (lensOfCur cur s.iterOn ++ lensOfCur cur s.zipOn).map (·.1) := by
      simpa [List.map_append, lensOfCur_fst] using hk
    have := dget_refMaps _ _ m hm k hk'
    unfold dget at this
    cases hl : m.lookup k with
    | none => exact absurd hl this
    | some i => exact ⟨i, rfl⟩

/-- SCHEDULE INDEPENDENCE. Table form, good inputs. Take ANY C01 composite over the sub-graph the
loop builds for these inputs (any order of `ran` connections and starting nodes, ANY assignment of
children to executors — the body copies, or everything —, any outputs left over from earlier runs)
and ANY schedule of starts, signal deliveries and executor completions that runs it to the end.
Then the term the dataframe node holds denotes exactly the reference table, and every body copy was
executed exactly once. (C01_once + C01_value give the term, `eval_df` + `evalOuts_ref` its meaning.) -/
theorem schedule_independent (s : Spec κ ν) (v : Valid s) (hdf : s.asDf = true) (cur : Cur κ ν)
    (g : Good s cur) {cfg : Cfg} {d : Dag} {t : S}
    (h : Sched s (refMaps (lensOfCur cur s.iterOn) (lensOfCur cur s.zipOn)) cfg d t) :
    evalV (sem s cur) (t.out dfId) = .table (some (refTable s cur)) ∧
    ∀ n, n < (combos s cur).length → t.calls (bodyId n) = 1 ∧ t.st (bodyId n) = .done := by
  have w := wired_refMaps s v cur g
  have hpos := refMaps_pos _ _ (guard_of_good s cur v g)
  have hne : refMaps (lensOfCur cur s.iterOn) (lensOfCur cur s.zipOn) ≠ [] := by
    intro e; rw [e] at hpos; simp at hpos
  constructor
  · rw [h.out_df w hdf hne]
    have hc : Covers (List.range (refMaps (lensOfCur cur s.iterOn) (lensOfCur cur s.zipOn)).length)
        (refMaps (lensOfCur cur s.iterOn) (lensOfCur cur s.zipOn)).length := by
      intro n hn; simpa using hn
    rw [eval_df s cur hdf v.sub _ _ hc]
    have href := evalOuts_ref s cur v g
      (List.range (refMaps (lensOfCur cur s.iterOn) (lensOfCur cur s.zipOn)).length)
      (by rw [length_combos]; exact hc)
    unfold evalOuts refOuts at href
    simp only [hdf, ↓reduceIte, Outs.df.injEq] at href
    rw [href]
  · intro n hn
    rw [length_combos] at hn
    obtain ⟨m, hm⟩ : ∃ m, (refMaps (lensOfCur cur s.iterOn) (lensOfCur cur s.zipOn))[n]? = some m :=
      ⟨_, List.getElem?_eq_getElem hn⟩
    obtain ⟨hmem, _⟩ := getElem?_mem_lt _ n m hm
    have hsl := forSlots_body s _ n m hm
    have hmemb : d.member (bodyId n) := Or.inr (by
      rw [h.deps, hsl]; exact cells_nonempty w m hmem _ (fun k hk => w.sub k hk))
    have := h.node _ hmemb
    exact ⟨this.1, this.2.1⟩

/-- two schedules (possibly under different executor assignments and signal orders) of the same
sub-graph leave the same value at the dataframe node -/
theorem schedule_independent_pair (s : Spec κ ν) (maps : List (Dict κ)) (w : Wired s maps) (hdf : s.asDf = true)
    (hne : maps ≠ [])
    {cfg cfg' : Cfg} {d d' : Dag} {t t' : S} (h : Sched s maps cfg d t) (h' : Sched s maps cfg' d' t') :
    t.out dfId = t'.out dfId := by
  rw [h.out_df w hdf hne, h'.out_df w hdf hne]

/-- the hypotheses are satisfiable for every layout: the canonical wiring, every body copy on an
executor, run by the canonical schedule... (existence of a `Sched` is shown on a concrete instance in
`Props/C16.lean`); well-formedness holds for EVERY layout and EVERY list of index maps -/
theorem sched_wf (s : Spec κ ν) (maps : List (Dict κ)) (onExec : Nat → Bool) (out0 : Nat → Val) :
    WF (forDag s maps onExec out0) ∧ (forDag s maps onExec out0).slots = forSlots s maps ∧
    NoFaults (forDag s maps onExec out0) ∧
    ∀ i j, j ∈ (forDag s maps onExec out0).deps i → j % 5 < i % 5 :=
  ⟨forDag_wf s maps onExec out0, rfl, fun _ => rfl, forSlots_ranked s maps _ rfl⟩

end Main
/-! ## the lists form: column collectors instead of row collectors and dataframe node -/
section Lists
variable {κ ν : Type} [DecidableEq κ]

/-- collector of the body output at position `j` -/
def tColO (s : Spec κ ν) (maps : List (Dict κ)) (j : Nat) : Val :=
  .app (rowId j) ((enum 0 maps).map fun nm => tBody s nm.2 nm.1)

/-- collector `c` of the looped input `k` -/
def tColL (s : Spec κ ν) (maps : List (Dict κ)) (c : Nat) (k : κ) : Val :=
  .app (rowId c) (maps.map fun m => cellTerm s m k)

theorem colSlots_out (s : Spec κ ν) (maps : List (Dict κ)) (j : Nat) (hj : j < s.outputs.length) :
    colSlots s maps j = (List.range maps.length).map (fun n => [bodyId n]) := by
  simp [colSlots, hj]

theorem colSlots_looped (s : Spec κ ν) (maps : List (Dict κ)) (c : Nat) (k : κ)
    (hk : (s.zipOn ++ s.iterOn)[c]? = some k) :
    colSlots s maps (s.outputs.length + c) = maps.map (fun m => cellSlot s m k) := by
  unfold colSlots
  have h1 : ¬ s.outputs.length + c < s.outputs.length := by omega
  have h2 : s.outputs.length + c - s.outputs.length = c := by omega
  simp only [h1, ↓reduceIte, h2, hk]

variable {s : Spec κ ν} {maps : List (Dict κ)} {cfg : Cfg} {d : Dag} {t : S}

theorem Sched.out_colO (h : Sched s maps cfg d t) (w : Wired s maps) (hdf : s.asDf = false) (hne : maps ≠ [])
    (j : Nat) (hj : j < s.outputs.length) : t.out (rowId j) = tColO s maps j := by
  have hsl : forSlots s maps (rowId j) = (List.range maps.length).map (fun n => [bodyId n]) := by
    rw [forSlots_col s maps hdf, colSlots_out s maps j hj]
  have hmem : d.member (rowId j) := Or.inr (by
    rw [h.deps, hsl]
    cases maps with
    | nil => exact absurd rfl hne
    | cons m r => simp [List.range_succ_eq_map])
  rw [(h.node _ hmem).2.2]
  unfold headArgs tColO
  rw [h.slots, hsl, List.map_map, List.range_eq_range']
  congr 1
  symm
  apply enum_map_range' 0 maps
  intro n m hn
  simp only [Nat.zero_add, Function.comp_def]
  exact (h.out_body w n m hn).1

theorem Sched.out_colL (h : Sched s maps cfg d t) (w : Wired s maps) (hdf : s.asDf = false) (hne : maps ≠ [])
    (c : Nat) (k : κ) (hk : (s.zipOn ++ s.iterOn)[c]? = some k) :
    t.out (rowId (s.outputs.length + c)) = tColL s maps (s.outputs.length + c) k := by
  have hsl : forSlots s maps (rowId (s.outputs.length + c)) = maps.map (fun m => cellSlot s m k) := by
    rw [forSlots_col s maps hdf, colSlots_looped s maps c k hk]
  have hkl : k ∈ s.iterOn ++ s.zipOn := by
    have := (getElem?_mem_lt _ c k hk).1
    simp only [List.mem_append] at this ⊢
    exact this.symm
  have hmem : d.member (rowId (s.outputs.length + c)) := Or.inr (by
    rw [h.deps, hsl]
    obtain ⟨m, hm⟩ := List.exists_mem_of_ne_nil _ hne
    obtain ⟨i, hi⟩ := w.full m hm k hkl
    have hp := pos_lt s k (w.sub k hkl)
    intro hnil
    have : itemId (nIn s) (pos s k) i ∈ (maps.map fun m => cellSlot s m k).flatten := by
      simp only [List.mem_flatten, List.mem_map]
      exact ⟨cellSlot s m k, ⟨m, hm, rfl⟩, by simp [cellSlot, hi, hp]⟩
    rw [hnil] at this; cases this)
  rw [(h.node _ hmem).2.2]
  unfold headArgs tColL
  rw [h.slots, hsl, List.map_map]
  congr 1
  apply List.map_congr_left
  intro m hm
  exact h.out_cell m hm k

theorem sem_colO (s : Spec κ ν) (cur : Cur κ ν) (hdf : s.asDf = false) (j : Nat) (hj : j < s.outputs.length)
    (args : List (U κ ν)) :
    sem s cur (rowId j) args = .col (optAll (args.map fun u => match u with
      | U.outs (some l) => (l[j]?).map (·.2)
      | _ => none)) := by
  unfold sem rowId
  have e0 : ¬ (5 * j + 3) % 5 = 0 := by omega
  have e1 : ¬ (5 * j + 3) % 5 = 1 := by omega
  have e2 : ¬ (5 * j + 3) % 5 = 2 := by omega
  have e3 : (5 * j + 3) % 5 = 3 := by omega
  have e5 : (5 * j + 3) / 5 = j := by omega
  rw [if_neg e0, if_neg e1, if_neg e2, if_pos e3, if_pos hdf, e5, if_pos hj]
  all_goals rfl

theorem sem_colL (s : Spec κ ν) (cur : Cur κ ν) (hdf : s.asDf = false) (c : Nat) (hc : ¬ c < s.outputs.length)
    (args : List (U κ ν)) :
    sem s cur (rowId c) args = .col (optAll (args.map fun u => match u with | U.cell x => x | _ => none)) := by
  unfold sem rowId
  have e0 : ¬ (5 * c + 3) % 5 = 0 := by omega
  have e1 : ¬ (5 * c + 3) % 5 = 1 := by omega
  have e2 : ¬ (5 * c + 3) % 5 = 2 := by omega
  have e3 : (5 * c + 3) % 5 = 3 := by omega
  have e5 : (5 * c + 3) / 5 = c := by omega
  rw [if_neg e0, if_neg e1, if_neg e2, if_pos e3, if_pos hdf, e5, if_neg hc]
  all_goals rfl

/-- a looped-input column: what the get-item nodes deliver, row by row -/
theorem eval_colL (s : Spec κ ν) (cur : Cur κ ν) (hdf : s.asDf = false) (maps : List (Dict κ)) (c : Nat)
    (hc : ¬ c < s.outputs.length) (k : κ) (hk : k ∈ s.bodyInputs) :
    evalV (sem s cur) (tColL s maps c k) = .col (optAll (maps.map fun m => loopedCell (wires cur m) k)) := by
  unfold tColL
  simp only [evalV, evalArgs_map, List.map_map]
  rw [sem_colL s cur hdf c hc, List.map_map]
  congr 2
  apply List.map_congr_left
  intro m _
  simp only [Function.comp_def]
  rw [eval_cell s cur m k hk]
  unfold loopedCell
  cases (wires cur m).lookup k <;> rfl

/-- an output column: what the body copies deliver for that output, row by row -/
theorem eval_colO (s : Spec κ ν) (cur : Cur κ ν) (hdf : s.asDf = false) (maps : List (Dict κ)) (j : Nat) (o : κ)
    (ho : s.outputs[j]? = some o) (order : List Nat) (hc : Covers order maps.length) :
    evalV (sem s cur) (tColO s maps j)
      = .col (optAll ((enum 0 maps).map fun nm => bodyOutAt s cur order nm.1 (wires cur nm.2) o)) := by
  have hj : j < s.outputs.length := (getElem?_mem_lt _ j o ho).2
  unfold tColO
  simp only [evalV, evalArgs_map, List.map_map]
  rw [sem_colO s cur hdf j hj, List.map_map]
  congr 2
  apply enum_map_congr2 0 maps
    (fun n m => match evalV (sem s cur) (tBody s m n) with
      | U.outs (some l) => (l[j]?).map (·.2)
      | _ => none)
    (fun n m => bodyOutAt s cur order n (wires cur m) o)
  intro n _ hn m _
  rw [eval_body]
  simp only [bodyOutAt, hc n (by omega), ↓reduceIte, bodyOut]
  cases optAll (s.bodyInputs.map (bodyArg s cur (wires cur m))) with
  | none => rfl
  | some a => simp [List.getElem?_map, ho]

/-- SCHEDULE INDEPENDENCE, lists form. Good inputs, ANY C01 composite over the sub-graph the loop
builds in the lists form, ANY schedule run to the end: the column collector of every body output
holds, row by row, what the body computes for the reference combinations, the collector of every looped
input holds its values row by row, and every body copy was executed exactly once -/
theorem schedule_independent_lists (s : Spec κ ν) (v : Valid s) (hdf : s.asDf = false) (cur : Cur κ ν)
    (g : Good s cur) {cfg : Cfg} {d : Dag} {t : S}
    (h : Sched s (refMaps (lensOfCur cur s.iterOn) (lensOfCur cur s.zipOn)) cfg d t) :
    (∀ j o, s.outputs[j]? = some o →
      evalV (sem s cur) (t.out (rowId j)) = .col (some ((combos s cur).map fun vd => refBody s cur vd o))) ∧
    (∀ c k, (s.zipOn ++ s.iterOn)[c]? = some k →
      evalV (sem s cur) (t.out (rowId (s.outputs.length + c)))
        = .col (some ((combos s cur).map fun vd => env s cur vd k))) ∧
    ∀ n, n < (combos s cur).length → t.calls (bodyId n) = 1 ∧ t.st (bodyId n) = .done := by
  have w := wired_refMaps s v cur g
  have hpos := refMaps_pos _ _ (guard_of_good s cur v g)
  have hne : refMaps (lensOfCur cur s.iterOn) (lensOfCur cur s.zipOn) ≠ [] := by
    intro e; rw [e] at hpos; simp at hpos
  have hc : Covers (List.range (refMaps (lensOfCur cur s.iterOn) (lensOfCur cur s.zipOn)).length)
      (refMaps (lensOfCur cur s.iterOn) (lensOfCur cur s.zipOn)).length := by
    intro n hn; simpa using hn
  have href := evalOuts_ref s cur v g
    (List.range (refMaps (lensOfCur cur s.iterOn) (lensOfCur cur s.zipOn)).length)
    (by rw [length_combos]; exact hc)
  unfold evalOuts refOuts at href
  simp only [hdf, Bool.false_eq_true, ↓reduceIte, Outs.lists.injEq] at href
  obtain ⟨hA, hB⟩ := List.append_inj href (by simp)
  refine ⟨?_, ?_, ?_⟩
  · intro j o ho
    have hj := (getElem?_mem_lt _ j o ho)
    rw [h.out_colO w hdf hne j hj.2, eval_colO s cur hdf _ j o ho _ hc]
    have := (List.map_inj_left.mp hB) o hj.1
    simp only [Prod.mk.injEq, true_and] at this
    rw [this]
  · intro c k hk
    have hkm := (getElem?_mem_lt _ c k hk).1
    have hkl : k ∈ s.iterOn ++ s.zipOn := by
      simp only [List.mem_append] at hkm ⊢; exact hkm.symm
    have hkin := v.sub k hkl
    rw [h.out_colL w hdf hne c k hk, eval_colL s cur hdf _ _ (by omega) k hkin]
    have hmem : k ∈ loopedInputs s := by
      simp only [loopedInputs, List.mem_filter, decide_eq_true_eq]
      exact ⟨hkin, hkm⟩
    have := (List.map_inj_left.mp hA) k hmem
    simp only [Prod.mk.injEq, true_and] at this
    rw [this]
  · intro n hn
    rw [length_combos] at hn
    obtain ⟨m, hm⟩ : ∃ m, (refMaps (lensOfCur cur s.iterOn) (lensOfCur cur s.zipOn))[n]? = some m :=
      ⟨_, List.getElem?_eq_getElem hn⟩
    have := h.out_body w n m hm
    obtain ⟨hmem, _⟩ := getElem?_mem_lt _ n m hm
    have hsl := forSlots_body s _ n m hm
    have hmemb : d.member (bodyId n) := Or.inr (by
      rw [h.deps, hsl]; exact cells_nonempty w m hmem _ (fun k hk => w.sub k hk))
    have hh := h.node _ hmemb
    exact ⟨hh.1, hh.2.1⟩

end Lists
end PwVerif.BridgeC16C01
