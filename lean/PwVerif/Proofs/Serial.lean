import PwVerif.Model.Serial
/-!
# Lemmas about the serialisation model

Part 1: what `_restore_connections_from_strings` rebuilds from the stored strings
        (stored order ⇒ every input list reversed; reverse order ⇒ every input list as saved;
        output lists are a function of the iteration order only).
Part 2: the saved firing order and `reorder`.
Part 3: `load (save g) = img g` (no lookup fails on a well-formed graph) and what `img g` shows.
-/
namespace PwVerif.Serial
open PwVerif

/-! ## Part 1 — reconnecting -/

@[simp] theorem updA_same {α} (f : Addr → α) (a : Addr) (v : α) : updA f a v a = v := by simp [updA]
@[simp] theorem updA_other {α} (f : Addr → α) (a : Addr) (v : α) (x : Addr) (h : x ≠ a) :
    updA f a v x = f x := by simp [updA, h]

theorem connectAll_append (g : CG) (l₁ l₂ : List (Addr × Addr)) :
    connectAll g (l₁ ++ l₂) = connectAll (connectAll g l₁) l₂ := by
  simp [connectAll, List.foldl_append]

/-- reconnecting one input `a` to the outputs `l` (in this order) -/
theorem connectAll_map (a : Addr) (l : List Addr) :
    ∀ (g : CG), l.Nodup → (∀ o ∈ l, o ∉ g.inl a) →
      (connectAll g (l.map fun o => (a, o))).inl a = l.reverse ++ g.inl a ∧
      (∀ b, b ≠ a → (connectAll g (l.map fun o => (a, o))).inl b = g.inl b) ∧
      (∀ o, (connectAll g (l.map fun o => (a, o))).outl o = if o ∈ l then a :: g.outl o else g.outl o) := by
  induction l with
  | nil => intro g _ _; simp [connectAll]
  | cons o l ih =>
    intro g hnd hdis
    have hnd' := List.nodup_cons.mp hnd
    have ho : o ∉ g.inl a := hdis o (by simp)
    have hstep : connectAll g ((o :: l).map fun o => (a, o)) =
        connectAll (connect1 g a o) (l.map fun o => (a, o)) := by simp [connectAll]
    rw [hstep]
    have hc : connect1 g a o = { inl := updA g.inl a (o :: g.inl a), outl := updA g.outl o (a :: g.outl o) } := by
      simp [connect1, ho]
    have hdis' : ∀ o' ∈ l, o' ∉ (connect1 g a o).inl a := by
      intro o' ho' hmem
      rw [hc] at hmem
      simp only [updA_same, List.mem_cons] at hmem
      rcases hmem with rfl | hmem
      · exact hnd'.1 ho'
      · exact hdis o' (by simp [ho']) hmem
    obtain ⟨h1, h2, h3⟩ := ih (connect1 g a o) hnd'.2 hdis'
    refine ⟨?_, ?_, ?_⟩
    · rw [h1, hc]; simp
    · intro b hb; rw [h2 b hb, hc]; simp [hb]
    · intro x
      rw [h3 x, hc]
      by_cases hxo : x = o
      · subst hxo; simp [hnd'.1]
      · by_cases hxl : x ∈ l <;> simp [hxo, hxl]

theorem strings_cons (a : Addr) (dom : List Addr) (f : Addr → List Addr) :
    strings (a :: dom) f = ((f a).map fun o => (a, o)) ++ strings dom f := by
  simp [strings]

/-- `_restore_connections_from_strings` in stored order: every input list comes back REVERSED,
every output lists the inputs that hold it in reverse iteration order -/
theorem connectAll_strings (f : Addr → List Addr) (dom : List Addr) :
    ∀ (g : CG), dom.Nodup → (∀ a ∈ dom, (f a).Nodup) → (∀ a ∈ dom, g.inl a = []) →
      (∀ a, (connectAll g (strings dom f)).inl a = if a ∈ dom then (f a).reverse else g.inl a) ∧
      (∀ o, (connectAll g (strings dom f)).outl o =
        (dom.filter fun a => decide (o ∈ f a)).reverse ++ g.outl o) := by
  induction dom with
  | nil => intro g _ _ _; simp [strings, connectAll]
  | cons a dom ih =>
    intro g hnd hf hg
    have hnd' := List.nodup_cons.mp hnd
    rw [strings_cons, connectAll_append]
    have hga : g.inl a = [] := hg a (by simp)
    obtain ⟨h1, h2, h3⟩ := connectAll_map a (f a) g (hf a (by simp)) (by simp [hga])
    have hg' : ∀ b ∈ dom, (connectAll g ((f a).map fun o => (a, o))).inl b = [] := by
      intro b hb
      have hba : b ≠ a := fun e => hnd'.1 (e ▸ hb)
      rw [h2 b hba]; exact hg b (by simp [hb])
    obtain ⟨i1, i2⟩ := ih _ hnd'.2 (fun b hb => hf b (by simp [hb])) hg'
    refine ⟨?_, ?_⟩
    · intro x
      rw [i1 x]
      by_cases hxd : x ∈ dom
      · simp [hxd]
      · by_cases hxa : x = a
        · subst hxa; simp [hxd, h1, hga]
        · simp [hxd, hxa, h2 x hxa]
    · intro o
      rw [i2 o, h3 o]
      by_cases hoa : o ∈ f a <;> simp [hoa]

theorem strings_reverse (dom : List Addr) (f : Addr → List Addr) :
    (strings dom f).reverse = strings dom.reverse (fun a => (f a).reverse) := by
  induction dom with
  | nil => simp [strings]
  | cons a dom ih =>
    rw [strings_cons, List.reverse_append, ih]
    simp [strings, List.flatMap_append, List.map_reverse]

theorem nodup_reverse' {α} (l : List α) (h : l.Nodup) : l.reverse.Nodup := by
  unfold List.Nodup at *
  rw [List.pairwise_reverse]
  exact h.imp (fun h => h.symm)

/-- pinned restore -/
theorem restore_pinned (cfg : Cfg) (hc : cfg.revIter = false) (f : Addr → List Addr) (dom : List Addr)
    (hnd : dom.Nodup) (hf : ∀ a ∈ dom, (f a).Nodup) :
    (∀ a, (restore cfg (strings dom f)).inl a = if a ∈ dom then (f a).reverse else []) ∧
    (∀ o, (restore cfg (strings dom f)).outl o = (dom.filter fun a => decide (o ∈ f a)).reverse) := by
  have h := connectAll_strings f dom CG.empty hnd hf (fun _ _ => rfl)
  simp only [restore, hc]
  refine ⟨fun a => ?_, fun o => ?_⟩
  · have := h.1 a; simpa [CG.empty] using this
  · have := h.2 o; simpa [CG.empty] using this

/-- repaired restore: the input lists come back as saved -/
theorem restore_repaired (cfg : Cfg) (hc : cfg.revIter = true) (f : Addr → List Addr) (dom : List Addr)
    (hnd : dom.Nodup) (hf : ∀ a ∈ dom, (f a).Nodup) :
    (∀ a, (restore cfg (strings dom f)).inl a = if a ∈ dom then f a else []) ∧
    (∀ o, (restore cfg (strings dom f)).outl o = dom.filter fun a => decide (o ∈ f a)) := by
  have h := connectAll_strings (fun a => (f a).reverse) dom.reverse CG.empty
    (nodup_reverse' _ hnd) (fun a ha => nodup_reverse' _ (hf a (List.mem_reverse.mp ha)))
    (fun _ _ => rfl)
  simp only [restore, hc, if_true, strings_reverse]
  refine ⟨fun a => ?_, fun o => ?_⟩
  · have := h.1 a; simpa [CG.empty] using this
  · have := h.2 o
    simp only [List.mem_reverse] at this
    rw [this, List.filter_reverse, List.reverse_reverse]
    simp [CG.empty]

/-! ## Part 2 — the saved firing order -/

theorem firingOf_append (l₁ l₂ : List (Addr × Addr)) (o : Addr) :
    firingOf (l₁ ++ l₂) o = firingOf l₁ o ++ firingOf l₂ o := by
  simp [firingOf, List.filter_append]

theorem firingOf_map (a o : Addr) (l : List Addr) :
    firingOf (l.map fun b => (a, b)) o = if a = o then l else [] := by
  unfold firingOf
  by_cases h : a = o
  · subst h
    simp [List.filter_map, List.map_map, Function.comp_def]
  · have : (l.map fun b => (a, b)).filter (fun p => decide (p.1 = o)) = [] := by
      apply List.filter_eq_nil_iff.mpr
      intro p hp
      obtain ⟨b, _, rfl⟩ := List.mem_map.mp hp
      simpa using h
    simp [this, h]

theorem firingOf_strings (f : Addr → List Addr) (dom : List Addr) (hnd : dom.Nodup) (o : Addr) :
    firingOf (strings dom f) o = if o ∈ dom then f o else [] := by
  induction dom with
  | nil => simp [strings, firingOf]
  | cons a dom ih =>
    have hnd' := List.nodup_cons.mp hnd
    rw [strings_cons, firingOf_append, firingOf_map, ih hnd'.2]
    by_cases hao : a = o
    · subst hao; simp [hnd'.1]
    · have : o ≠ a := fun e => hao e.symm
      simp [hao, this]

theorem reorder_eq (saved cur : List Addr) (h1 : ∀ x ∈ saved, x ∈ cur) (h2 : ∀ x ∈ cur, x ∈ saved) :
    reorder saved cur = saved := by
  unfold reorder
  have e1 : saved.filter (fun x => decide (x ∈ cur)) = saved :=
    List.filter_eq_self.mpr (fun x hx => by simpa using h1 x hx)
  have e2 : cur.filter (fun x => !decide (x ∈ saved)) = [] :=
    List.filter_eq_nil_iff.mpr (fun x hx => by simpa using h2 x hx)
  rw [e1, e2, List.append_nil]

theorem singleton_of_nodup_mem {α} [DecidableEq α] (l : List α) (x : α) (hnd : l.Nodup)
    (h : ∀ y, y ∈ l ↔ y = x) : l = [x] := by
  match l, hnd, h with
  | [], _, h => exact absurd ((h x).mpr rfl) (by simp)
  | [y], _, h => have := (h y).mp (by simp); simp [this]
  | y :: z :: r, hnd, h =>
    have hy := (h y).mp (by simp)
    have hz := (h z).mp (by simp)
    have := List.nodup_cons.mp hnd
    exact absurd (hy ▸ hz ▸ List.mem_cons_self) this.1

/-- a duplicate-free list with the same members as a list of length ≤ 1 is that list -/
theorem eq_of_short (l m : List Addr) (hnd : l.Nodup) (hlen : m.length ≤ 1) (h : ∀ y, y ∈ l ↔ y ∈ m) :
    l = m := by
  match m, hlen, h with
  | [], _, h =>
    cases l with
    | nil => rfl
    | cons y r => exact absurd ((h y).mp (by simp)) (by simp)
  | [x], _, h => exact singleton_of_nodup_mem l x hnd (fun y => by simpa using h y)
  | _ :: _ :: _, hlen, _ => simp at hlen

theorem reverse_short {α} (l : List α) (h : l.length ≤ 1) : l.reverse = l := by
  match l, h with
  | [], _ => rfl
  | [_], _ => rfl
  | _ :: _ :: _, h => simp at h

/-! ## Part 3 — what a round trip returns -/

def Node.withDetached (d : Option Path) : Node → Node
  | .mk c ch dg sg => .mk { c with detached := d } ch dg sg

mutual
/-- the graph a round trip returns when no lookup fails and no link pushes a new value -/
def img (cfg : Cfg) (d : Option Path) : Node → Node
  | .mk c ch dg sg =>
    .mk { c.forState none with detached := d } (imgL cfg ch)
      (restore cfg (strings (inDom ch) dg.inl))
      (restoreSig cfg (strings (sInDom ch) sg.inl) (strings (sOutDom ch) sg.outl))
def imgL (cfg : Cfg) : List Node → List Node
  | [] => []
  | n :: ns => img cfg none n :: imgL cfg ns
end

@[simp] theorem Exec.strip_strip (e : Exec) : e.strip.strip = e.strip := by cases e <;> rfl

@[simp] theorem img_core (cfg : Cfg) (d : Option Path) (n : Node) :
    (img cfg d n).core = { n.core.forState none with detached := d } := by
  cases n; simp [img, Node.core]

@[simp] theorem adopt_core (n : Node) : n.adopt.core = { n.core with detached := none } := by
  cases n; simp [Node.adopt, Node.core]

theorem adopt_img (cfg : Cfg) (d : Option Path) (n : Node) : (img cfg d n).adopt = img cfg none n := by
  cases n; simp [img, Node.adopt]

/-- the children saved under path `p` come back with that detached path … -/
def imgLd (cfg : Cfg) (d : Option Path) (ns : List Node) : List Node := ns.map (img cfg d)

/-- … and lose it again when the parent adopts them -/
theorem imgLd_adopt (cfg : Cfg) (d : Option Path) (ns : List Node) :
    (imgLd cfg d ns).map Node.adopt = imgL cfg ns := by
  induction ns with
  | nil => simp [imgLd, imgL]
  | cons n ns ih =>
    simp only [imgLd, List.map_cons, List.map_map] at ih ⊢
    simp [imgL, adopt_img, ← ih]

theorem imgL_eq_map (cfg : Cfg) (ns : List Node) : imgL cfg ns = ns.map (img cfg none) := by
  induction ns with
  | nil => simp [imgL]
  | cons n ns ih => simp [imgL, ih]

/-- a map on nodes that keeps label and channel labels keeps every label table -/
theorem doms_map (F : Node → Node)
    (h : ∀ n, (F n).core.label = n.core.label ∧ labelsOf (F n).core.ins = labelsOf n.core.ins ∧
      labelsOf (F n).core.outs = labelsOf n.core.outs ∧ (F n).core.sigIns = n.core.sigIns ∧
      (F n).core.sigOuts = n.core.sigOuts) (ns : List Node) :
    childLabels (ns.map F) = childLabels ns ∧ inDom (ns.map F) = inDom ns ∧ outDom (ns.map F) = outDom ns ∧
    sInDom (ns.map F) = sInDom ns ∧ sOutDom (ns.map F) = sOutDom ns := by
  induction ns with
  | nil => simp [childLabels, inDom, outDom, sInDom, sOutDom]
  | cons n ns ih =>
    obtain ⟨h1, h2, h3, h4, h5⟩ := h n
    obtain ⟨i1, i2, i3, i4, i5⟩ := ih
    simp only [childLabels, inDom, outDom, sInDom, sOutDom, List.map_cons, List.flatMap_cons] at *
    simp [h1, h2, h3, h4, h5, i1, i2, i3, i4, i5]

theorem doms_imgL (cfg : Cfg) (ns : List Node) :
    childLabels (imgL cfg ns) = childLabels ns ∧ inDom (imgL cfg ns) = inDom ns ∧
    outDom (imgL cfg ns) = outDom ns ∧ sInDom (imgL cfg ns) = sInDom ns ∧ sOutDom (imgL cfg ns) = sOutDom ns := by
  rw [imgL_eq_map]
  exact doms_map _ (fun n => by simp [Core.forState]) ns

theorem doms_imgLd (cfg : Cfg) (d : Option Path) (ns : List Node) :
    childLabels (imgLd cfg d ns) = childLabels ns := by
  exact (doms_map _ (fun n => by simp [Core.forState]) ns).1

/-! ### the lookups of `__setstate__` succeed on what `__getstate__` wrote -/

theorem checkStrs_strings (inD outD dom : List Addr) (f : Addr → List Addr)
    (h1 : ∀ a ∈ dom, a ∈ inD) (h2 : ∀ a ∈ dom, ∀ o ∈ f a, o ∈ outD) :
    checkStrs inD outD (strings dom f) = true := by
  unfold checkStrs strings
  rw [List.all_eq_true]
  intro p hp
  obtain ⟨a, ha, hp⟩ := List.mem_flatMap.mp hp
  obtain ⟨o, ho, rfl⟩ := List.mem_map.mp hp
  simp [h1 a ha, h2 a ha o ho]

theorem valOf_some (l : List DChan) (x : Lbl) (h : x ∈ labelsOf l) : ∃ v, valOf l x = some v := by
  unfold valOf
  obtain ⟨ch, hch, rfl⟩ := List.mem_map.mp h
  cases hf : l.find? (fun c => decide (c.label = ch.label)) with
  | none =>
    have := List.find?_eq_none.mp hf ch hch
    simp at this
  | some c => exact ⟨c.val, rfl⟩

theorem outVals_fst (cs : List Node) : (outVals cs).map (·.1) = outDom cs := by
  induction cs with
  | nil => simp [outVals, outDom]
  | cons n cs ih =>
    simp only [outVals, outDom, List.flatMap_cons, List.map_append] at ih ⊢
    rw [ih]
    simp [chanAddrs, labelsOf, List.map_map, Function.comp_def]

theorem outValOf_some (cs : List Node) (r : Addr) (h : r ∈ outDom cs) : ∃ v, outValOf cs r = some v := by
  unfold outValOf
  rw [← outVals_fst] at h
  obtain ⟨p, hp, rfl⟩ := List.mem_map.mp h
  cases hf : (outVals cs).find? (fun q => decide (q.1 = p.1)) with
  | none =>
    have := List.find?_eq_none.mp hf p hp
    simp at this
  | some q => exact ⟨q.2, rfl⟩

theorem forgeIn_nopush (cfg : Cfg) (hp : cfg.pushLinks = false) (c : Core) (cs : List Node) :
    ∀ links : List (Lbl × Addr), (∀ p ∈ links, p.1 ∈ labelsOf c.ins) → (∀ p ∈ links, p.2 ∈ inDom cs) →
      forgeIn cfg c cs links = .ok cs := by
  intro links
  induction links with
  | nil => intros; rfl
  | cons p links ih =>
    intro h1 h2
    obtain ⟨v, hv⟩ := valOf_some c.ins p.1 (h1 p (by simp))
    have hm : p.2 ∈ inDom cs := h2 p (by simp)
    obtain ⟨x, r⟩ := p
    simp only [forgeIn, hm, not_true_eq_false, if_false, hv, hp]
    exact ih (fun q hq => h1 q (by simp [hq])) (fun q hq => h2 q (by simp [hq]))

theorem forgeOut_nopush (cfg : Cfg) (hp : cfg.pushLinks = false) (cs : List Node) (c : Core) :
    ∀ links : List (Addr × Lbl), (∀ p ∈ links, p.1 ∈ outDom cs) → (∀ p ∈ links, p.2 ∈ labelsOf c.outs) →
      forgeOut cfg cs c links = .ok c := by
  intro links
  induction links with
  | nil => intros; rfl
  | cons p links ih =>
    intro h1 h2
    obtain ⟨v, hv⟩ := outValOf_some cs p.1 (h1 p (by simp))
    have hm : p.2 ∈ labelsOf c.outs := h2 p (by simp)
    obtain ⟨r, out⟩ := p
    simp only [forgeOut, hv, hm, not_true_eq_false, if_false, hp]
    exact ih (fun q hq => h1 q (by simp [hq])) (fun q hq => h2 q (by simp [hq]))

end PwVerif.Serial
