import PwVerif.Model.Serial
/-!
# Lemmas about the serialisation model

Part 1: what `_restore_connections_from_strings` rebuilds from the stored strings
        (stored order ⇒ every input list reversed; reverse order ⇒ every input list as saved;
        output lists are a function of the iteration order only).
Part 2: the saved firing order and `reorder`.
Part 3: `load (save g) = img g` (no lookup fails on a well-formed graph) and what `img g` shows.
-/
namespace PwVerif.Serial
open PwVerif

/-! ## Part 1 — reconnecting -/

@[simp] theorem updA_same {α} (f : Addr → α) (a : Addr) (v : α) : updA f a v a = v := by simp [updA]
@[simp] theorem updA_other {α} (f : Addr → α) (a : Addr) (v : α) (x : Addr) (h : x ≠ a) :
    updA f a v x = f x := by simp [updA, h]

theorem connectAll_append (g : CG) (l₁ l₂ : List (Addr × Addr)) :
    connectAll g (l₁ ++ l₂) = connectAll (connectAll g l₁) l₂ := by
  simp [connectAll, List.foldl_append]

/-- reconnecting one input `a` to the outputs `l` (in this order) -/
theorem connectAll_map (a : Addr) (l : List Addr) :
    ∀ (g : CG), l.Nodup → (∀ o ∈ l, o ∉ g.inl a) →
      (connectAll g (l.map fun o => (a, o))).inl a = l.reverse ++ g.inl a ∧
      (∀ b, b ≠ a → (connectAll g (l.map fun o => (a, o))).inl b = g.inl b) ∧
      (∀ o, (connectAll g (l.map fun o => (a, o))).outl o = if o ∈ l then a :: g.outl o else g.outl o) := by
  induction l with
  | nil => intro g _ _; simp [connectAll]
  | cons o l ih =>
    intro g hnd hdis
    have hnd' := List.nodup_cons.mp hnd
    have ho : o ∉ g.inl a := hdis o (by simp)
    have hstep : connectAll g ((o :: l).map fun o => (a, o)) =
        connectAll (connect1 g a o) (l.map fun o => (a, o)) := by simp [connectAll]
    rw [hstep]
    have hc : connect1 g a o = { inl := updA g.inl a (o :: g.inl a), outl := updA g.outl o (a :: g.outl o) } := by
      simp [connect1, ho]
    have hdis' : ∀ o' ∈ l, o' ∉ (connect1 g a o).inl a := by
      intro o' ho' hmem
      rw [hc] at hmem
      simp only [updA_same, List.mem_cons] at hmem
      rcases hmem with rfl | hmem
      · exact hnd'.1 ho'
      · exact hdis o' (by simp [ho']) hmem
    obtain ⟨h1, h2, h3⟩ := ih (connect1 g a o) hnd'.2 hdis'
    refine ⟨?_, ?_, ?_⟩
    · rw [h1, hc]; simp
    · intro b hb; rw [h2 b hb, hc]; simp [hb]
    · intro x
      rw [h3 x, hc]
      by_cases hxo : x = o
      · subst hxo; simp [hnd'.1]
      · by_cases hxl : x ∈ l <;> simp [hxo, hxl]

theorem strings_cons (a : Addr) (dom : List Addr) (f : Addr → List Addr) :
    strings (a :: dom) f = ((f a).map fun o => (a, o)) ++ strings dom f := by
  simp [strings]

/-- `_restore_connections_from_strings` in stored order: every input list comes back REVERSED,
every output lists the inputs that hold it in reverse iteration order -/
theorem connectAll_strings (f : Addr → List Addr) (dom : List Addr) :
    ∀ (g : CG), dom.Nodup → (∀ a ∈ dom, (f a).Nodup) → (∀ a ∈ dom, g.inl a = []) →
      (∀ a, (connectAll g (strings dom f)).inl a = if a ∈ dom then (f a).reverse else g.inl a) ∧
      (∀ o, (connectAll g (strings dom f)).outl o =
        (dom.filter fun a => decide (o ∈ f a)).reverse ++ g.outl o) := by
  induction dom with
  | nil => intro g _ _ _; simp [strings, connectAll]
  | cons a dom ih =>
    intro g hnd hf hg
    have hnd' := List.nodup_cons.mp hnd
    rw [strings_cons, connectAll_append]
    have hga : g.inl a = [] := hg a (by simp)
    obtain ⟨h1, h2, h3⟩ := connectAll_map a (f a) g (hf a (by simp)) (by simp [hga])
    have hg' : ∀ b ∈ dom, (connectAll g ((f a).map fun o => (a, o))).inl b = [] := by
      intro b hb
      have hba : b ≠ a := fun e => hnd'.1 (e ▸ hb)
      rw [h2 b hba]; exact hg b (by simp [hb])
    obtain ⟨i1, i2⟩ := ih _ hnd'.2 (fun b hb => hf b (by simp [hb])) hg'
    refine ⟨?_, ?_⟩
    · intro x
      rw [i1 x]
      by_cases hxd : x ∈ dom
      · simp [hxd]
      · by_cases hxa : x = a
        · subst hxa; simp [hxd, h1, hga]
        · simp [hxd, hxa, h2 x hxa]
    · intro o
      rw [i2 o, h3 o]
      by_cases hoa : o ∈ f a <;> simp [hoa]

theorem strings_reverse (dom : List Addr) (f : Addr → List Addr) :
    (strings dom f).reverse = strings dom.reverse (fun a => (f a).reverse) := by
  induction dom with
  | nil => simp [strings]
  | cons a dom ih =>
    rw [strings_cons, List.reverse_append, ih]
    simp [strings, List.flatMap_append, List.map_reverse]

theorem nodup_reverse' {α} (l : List α) (h : l.Nodup) : l.reverse.Nodup := by
  unfold List.Nodup at *
  rw [List.pairwise_reverse]
  exact h.imp (fun h => h.symm)

/-- pinned restore -/
theorem restore_pinned (cfg : Cfg) (hc : cfg.revIter = false) (f : Addr → List Addr) (dom : List Addr)
    (hnd : dom.Nodup) (hf : ∀ a ∈ dom, (f a).Nodup) :
    (∀ a, (restore cfg (strings dom f)).inl a = if a ∈ dom then (f a).reverse else []) ∧
    (∀ o, (restore cfg (strings dom f)).outl o = (dom.filter fun a => decide (o ∈ f a)).reverse) := by
  have h := connectAll_strings f dom CG.empty hnd hf (fun _ _ => rfl)
  simp only [restore, hc]
  refine ⟨fun a => ?_, fun o => ?_⟩
  · have := h.1 a; simpa [CG.empty] using this
  · have := h.2 o; simpa [CG.empty] using this

/-- repaired restore: the input lists come back as saved -/
theorem restore_repaired (cfg : Cfg) (hc : cfg.revIter = true) (f : Addr → List Addr) (dom : List Addr)
    (hnd : dom.Nodup) (hf : ∀ a ∈ dom, (f a).Nodup) :
    (∀ a, (restore cfg (strings dom f)).inl a = if a ∈ dom then f a else []) ∧
    (∀ o, (restore cfg (strings dom f)).outl o = dom.filter fun a => decide (o ∈ f a)) := by
  have h := connectAll_strings (fun a => (f a).reverse) dom.reverse CG.empty
    (nodup_reverse' _ hnd) (fun a ha => nodup_reverse' _ (hf a (List.mem_reverse.mp ha)))
    (fun _ _ => rfl)
  simp only [restore, hc, if_true, strings_reverse]
  refine ⟨fun a => ?_, fun o => ?_⟩
  · have := h.1 a; simpa [CG.empty] using this
  · have := h.2 o
    simp only [List.mem_reverse] at this
    rw [this, List.filter_reverse, List.reverse_reverse]
    simp [CG.empty]

/-! ## Part 2 — the saved firing order -/

theorem firingOf_append (l₁ l₂ : List (Addr × Addr)) (o : Addr) :
    firingOf (l₁ ++ l₂) o = firingOf l₁ o ++ firingOf l₂ o := by
  simp [firingOf, List.filter_append]

theorem firingOf_map (a o : Addr) (l : List Addr) :
    firingOf (l.map fun b => (a, b)) o = if a = o then l else [] := by
  unfold firingOf
  by_cases h : a = o
  · subst h
    simp [List.filter_map, List.map_map, Function.comp_def]
  · have : (l.map fun b => (a, b)).filter (fun p => decide (p.1 = o)) = [] := by
      apply List.filter_eq_nil_iff.mpr
      intro p hp
      obtain ⟨b, _, rfl⟩ := List.mem_map.mp hp
      simpa using h
    simp [this, h]

theorem firingOf_strings (f : Addr → List Addr) (dom : List Addr) (hnd : dom.Nodup) (o : Addr) :
    firingOf (strings dom f) o = if o ∈ dom then f o else [] := by
  induction dom with
  | nil => simp [strings, firingOf]
  | cons a dom ih =>
    have hnd' := List.nodup_cons.mp hnd
    rw [strings_cons, firingOf_append, firingOf_map, ih hnd'.2]
    by_cases hao : a = o
    · subst hao; simp [hnd'.1]
    · have : o ≠ a := fun e => hao e.symm
      simp [hao, this]

theorem reorder_eq (saved cur : List Addr) (h1 : ∀ x ∈ saved, x ∈ cur) (h2 : ∀ x ∈ cur, x ∈ saved) :
    reorder saved cur = saved := by
  unfold reorder
  have e1 : saved.filter (fun x => decide (x ∈ cur)) = saved :=
    List.filter_eq_self.mpr (fun x hx => by simpa using h1 x hx)
  have e2 : cur.filter (fun x => !decide (x ∈ saved)) = [] :=
    List.filter_eq_nil_iff.mpr (fun x hx => by simpa using h2 x hx)
  rw [e1, e2, List.append_nil]

theorem singleton_of_nodup_mem {α} [DecidableEq α] (l : List α) (x : α) (hnd : l.Nodup)
    (h : ∀ y, y ∈ l ↔ y = x) : l = [x] := by
  match l, hnd, h with
  | [], _, h => exact absurd ((h x).mpr rfl) (by simp)
  | [y], _, h => have := (h y).mp (by simp); simp [this]
  | y :: z :: r, hnd, h =>
    have hy := (h y).mp (by simp)
    have hz := (h z).mp (by simp)
    have := List.nodup_cons.mp hnd
    exact absurd (hy ▸ hz ▸ List.mem_cons_self) this.1

/-- a duplicate-free list with the same members as a list of length ≤ 1 is that list -/
theorem eq_of_short (l m : List Addr) (hnd : l.Nodup) (hlen : m.length ≤ 1) (h : ∀ y, y ∈ l ↔ y ∈ m) :
    l = m := by
  match m, hlen, h with
  | [], _, h =>
    cases l with
    | nil => rfl
    | cons y r => exact absurd ((h y).mp (by simp)) (by simp)
  | [x], _, h => exact singleton_of_nodup_mem l x hnd (fun y => by simpa using h y)
  | _ :: _ :: _, hlen, _ => simp at hlen

theorem reverse_short {α} (l : List α) (h : l.length ≤ 1) : l.reverse = l := by
  match l, h with
  | [], _ => rfl
  | [_], _ => rfl
  | _ :: _ :: _, h => simp at h

/-! ## Part 3 — what a round trip returns -/

def Node.withDetached (d : Option Path) : Node → Node
  | .mk c ch dg sg => .mk { c with detached := d } ch dg sg

/-- the record a round trip returns: live executors stripped, detached path `d`, and the cache of a
composite forgotten (every adopted child calls `add_child`) -/
@[simp] def imgCore (cfg : Cfg) (c : Core) (d : Option Path) (ch : List Node) : Core :=
  let c' := c.forState none
  { c' with detached := d, cached := if cfg.keepCache || ch.isEmpty then c'.cached else none }

theorem afterAdopt_fields (c : Core) (cs : List Node) :
    (c.afterAdopt cs).kind = c.kind ∧ (c.afterAdopt cs).ins = c.ins ∧ (c.afterAdopt cs).outs = c.outs ∧
    (c.afterAdopt cs).inLinks = c.inLinks ∧ (c.afterAdopt cs).outLinks = c.outLinks ∧
    (c.afterAdopt cs).refused = c.refused := by
  unfold Core.afterAdopt; split <;> simp

mutual
/-- the graph a round trip returns when no lookup fails and no link pushes a new value -/
def img (cfg : Cfg) (d : Option Path) : Node → Node
  | .mk c ch dg sg =>
    .mk (imgCore cfg c d ch) (imgL cfg ch)
      (restore cfg (strings (inDom ch) dg.inl))
      (restoreSig cfg (strings (sInDom ch) sg.inl) (strings (sOutDom ch) sg.outl))
def imgL (cfg : Cfg) : List Node → List Node
  | [] => []
  | n :: ns => img cfg none n :: imgL cfg ns
end

@[simp] theorem Exec.strip_strip (e : Exec) : e.strip.strip = e.strip := by cases e <;> rfl

@[simp] theorem img_core (cfg : Cfg) (d : Option Path) (n : Node) :
    (img cfg d n).core = imgCore cfg n.core d n.children := by
  cases n; simp [img, Node.core, Node.children]

@[simp] theorem adopt_core (n : Node) : n.adopt.core = { n.core with detached := none } := by
  cases n; simp [Node.adopt, Node.core]

theorem adopt_img (cfg : Cfg) (d : Option Path) (n : Node) : (img cfg d n).adopt = img cfg none n := by
  cases n; simp [img, Node.adopt, imgCore]

/-- the children saved under path `p` come back with that detached path … -/
def imgLd (cfg : Cfg) (d : Option Path) (ns : List Node) : List Node := ns.map (img cfg d)

/-- … and lose it again when the parent adopts them -/
theorem imgLd_adopt (cfg : Cfg) (d : Option Path) (ns : List Node) :
    (imgLd cfg d ns).map Node.adopt = imgL cfg ns := by
  induction ns with
  | nil => simp [imgLd, imgL]
  | cons n ns ih =>
    simp only [imgLd, List.map_cons, List.map_map] at ih ⊢
    simp [imgL, adopt_img, ← ih]

theorem imgL_eq_map (cfg : Cfg) (ns : List Node) : imgL cfg ns = ns.map (img cfg none) := by
  induction ns with
  | nil => simp [imgL]
  | cons n ns ih => simp [imgL, ih]

/-- a map on nodes that keeps label and channel labels keeps every label table -/
theorem doms_map (F : Node → Node)
    (h : ∀ n, (F n).core.label = n.core.label ∧ labelsOf (F n).core.ins = labelsOf n.core.ins ∧
      labelsOf (F n).core.outs = labelsOf n.core.outs ∧ (F n).core.sigIns = n.core.sigIns ∧
      (F n).core.sigOuts = n.core.sigOuts) (ns : List Node) :
    childLabels (ns.map F) = childLabels ns ∧ inDom (ns.map F) = inDom ns ∧ outDom (ns.map F) = outDom ns ∧
    sInDom (ns.map F) = sInDom ns ∧ sOutDom (ns.map F) = sOutDom ns := by
  induction ns with
  | nil => simp [childLabels, inDom, outDom, sInDom, sOutDom]
  | cons n ns ih =>
    obtain ⟨h1, h2, h3, h4, h5⟩ := h n
    obtain ⟨i1, i2, i3, i4, i5⟩ := ih
    simp only [childLabels, inDom, outDom, sInDom, sOutDom, List.map_cons, List.flatMap_cons] at *
    simp [h1, h2, h3, h4, h5, i1, i2, i3, i4, i5]

theorem doms_imgL (cfg : Cfg) (ns : List Node) :
    childLabels (imgL cfg ns) = childLabels ns ∧ inDom (imgL cfg ns) = inDom ns ∧
    outDom (imgL cfg ns) = outDom ns ∧ sInDom (imgL cfg ns) = sInDom ns ∧ sOutDom (imgL cfg ns) = sOutDom ns := by
  rw [imgL_eq_map]
  exact doms_map _ (fun n => by simp [Core.forState]) ns

theorem doms_imgLd (cfg : Cfg) (d : Option Path) (ns : List Node) :
    childLabels (imgLd cfg d ns) = childLabels ns := by
  exact (doms_map _ (fun n => by simp [Core.forState]) ns).1

/-! ### the lookups of `__setstate__` succeed on what `__getstate__` wrote -/

theorem checkStrs_strings (inD outD dom : List Addr) (f : Addr → List Addr)
    (h1 : ∀ a ∈ dom, a ∈ inD) (h2 : ∀ a ∈ dom, ∀ o ∈ f a, o ∈ outD) :
    checkStrs inD outD (strings dom f) = true := by
  unfold checkStrs strings
  rw [List.all_eq_true]
  intro p hp
  obtain ⟨a, ha, hp⟩ := List.mem_flatMap.mp hp
  obtain ⟨o, ho, rfl⟩ := List.mem_map.mp hp
  simp [h1 a ha, h2 a ha o ho]

theorem dom_label (cs : List Node) (sel : Core → List Lbl) (a : Addr)
    (h : a ∈ cs.flatMap fun c => chanAddrs c.core.label (sel c.core)) : a.1 ∈ childLabels cs := by
  obtain ⟨c, hc, ha⟩ := List.mem_flatMap.mp h
  obtain ⟨x, _, rfl⟩ := List.mem_map.mp ha
  exact List.mem_map.mpr ⟨c, hc, rfl⟩

theorem firstBad_none (labels : List Lbl) (inD outD : List Addr) (l : List (Addr × Addr))
    (hI : ∀ a ∈ inD, a.1 ∈ labels) (hO : ∀ a ∈ outD, a.1 ∈ labels)
    (h : checkStrs inD outD l = true) : firstBad labels inD outD l = none := by
  unfold checkStrs at h
  rw [List.all_eq_true] at h
  induction l with
  | nil => rfl
  | cons p l ih =>
    have hp := h p (by simp)
    simp only [Bool.and_eq_true, decide_eq_true_eq] at hp
    simp only [firstBad, hI p.1 hp.1, hO p.2 hp.2, hp.1, hp.2, not_true_eq_false, if_false]
    exact ih (fun q hq => h q (by simp [hq]))

theorem valOf_some (l : List DChan) (x : Lbl) (h : x ∈ labelsOf l) : ∃ v, valOf l x = some v := by
  unfold valOf
  obtain ⟨ch, hch, rfl⟩ := List.mem_map.mp h
  cases hf : l.find? (fun c => decide (c.label = ch.label)) with
  | none =>
    have := List.find?_eq_none.mp hf ch hch
    simp at this
  | some c => exact ⟨c.val, rfl⟩

theorem outVals_fst (cs : List Node) : (outVals cs).map (·.1) = outDom cs := by
  induction cs with
  | nil => simp [outVals, outDom]
  | cons n cs ih =>
    simp only [outVals, outDom, List.flatMap_cons, List.map_append] at ih ⊢
    rw [ih]
    simp [chanAddrs, labelsOf, List.map_map, Function.comp_def]

theorem outValOf_some (cs : List Node) (r : Addr) (h : r ∈ outDom cs) : ∃ v, outValOf cs r = some v := by
  unfold outValOf
  rw [← outVals_fst] at h
  obtain ⟨p, hp, rfl⟩ := List.mem_map.mp h
  cases hf : (outVals cs).find? (fun q => decide (q.1 = p.1)) with
  | none =>
    have := List.find?_eq_none.mp hf p hp
    simp at this
  | some q => exact ⟨q.2, rfl⟩

/-! ### value links: when re-forging through the setter changes nothing -/

mutual
/-- pushing `v` into input `x` of the node is accepted and changes nothing: the owner is not
running, the input already holds `v`, and so on down the node's own link -/
def Quiet : Node → Lbl → Val → Prop
  | .mk c ch _ _, x, v =>
    c.running = false ∧ setVal c.ins x v = c.ins ∧
    (match lookupLink c.inLinks x with
     | none => True
     | some r => QuietL ch r.1 r.2 v)
def QuietL : List Node → Lbl → Lbl → Val → Prop
  | [], _, _, _ => True
  | n :: ns, cl, x, v => if n.core.label = cl then Quiet n x v else QuietL ns cl x v
end

mutual
theorem pushIn_quiet : ∀ (n : Node) (x : Lbl) (v : Val), Quiet n x v → pushIn n x v = .ok n
  | .mk c ch dg sg, x, v, h => by
    simp only [Quiet] at h
    obtain ⟨hr, hs, hl⟩ := h
    cases hlk : lookupLink c.inLinks x with
    | none =>
      simp only [pushIn, hr, hlk, hs]
      cases c; simp_all
    | some r =>
      rw [hlk] at hl
      have := pushInL_quiet ch r.1 r.2 v hl
      simp only [pushIn, hr, hlk, this, hs]
      cases c; simp_all
theorem pushInL_quiet : ∀ (ns : List Node) (cl x : Lbl) (v : Val), QuietL ns cl x v → pushInL ns cl x v = .ok ns
  | [], _, _, _, _ => by simp [pushInL]
  | n :: ns, cl, x, v, h => by
    simp only [QuietL] at h
    by_cases hc : n.core.label = cl
    · simp only [hc, if_true] at h
      simp [pushInL, hc, pushIn_quiet n x v h]
    · simp only [hc, if_false] at h
      simp [pushInL, hc, pushInL_quiet ns cl x v h]
end

mutual
/-- the links of the whole tree are settled: re-forging any of them pushes nothing new -/
def Settled : Node → Prop
  | .mk c ch _ _ =>
    (c.kind.hasLinks = true →
      (∀ p ∈ c.inLinks, ∀ v, valOf c.ins p.1 = some v → QuietL ch p.2.1 p.2.2 v) ∧
      (∀ p ∈ c.outLinks, ∀ v, outValOf ch p.1 = some v → setVal c.outs p.2 v = c.outs)) ∧
    SettledL ch
def SettledL : List Node → Prop
  | [] => True
  | n :: ns => Settled n ∧ SettledL ns
end

mutual
theorem quiet_img (cfg : Cfg) : ∀ (n : Node) (d : Option Path) (x : Lbl) (v : Val),
    Quiet n x v → Quiet (img cfg d n) x v
  | .mk c ch dg sg, d, x, v, h => by
    simp only [Quiet] at h
    obtain ⟨hr, hs, hl⟩ := h
    simp only [img, Quiet, imgCore, Core.forState]
    refine ⟨hr, hs, ?_⟩
    cases hlk : lookupLink c.inLinks x with
    | none => simp
    | some r =>
      rw [hlk] at hl
      exact quietL_img cfg ch r.1 r.2 v hl
theorem quietL_img (cfg : Cfg) : ∀ (ns : List Node) (cl x : Lbl) (v : Val),
    QuietL ns cl x v → QuietL (imgL cfg ns) cl x v
  | [], _, _, _, _ => by simp [imgL, QuietL]
  | n :: ns, cl, x, v, h => by
    simp only [QuietL] at h
    simp only [imgL, QuietL, img_core, imgCore, Core.forState]
    by_cases hc : n.core.label = cl
    · simp only [hc, if_true] at h ⊢
      exact quiet_img cfg n none x v h
    · simp only [hc, if_false] at h ⊢
      exact quietL_img cfg ns cl x v h
end

theorem outVals_imgL (cfg : Cfg) (ns : List Node) : outVals (imgL cfg ns) = outVals ns := by
  induction ns with
  | nil => simp [imgL]
  | cons n ns ih =>
    simp only [outVals, imgL, List.flatMap_cons] at ih ⊢
    rw [ih]; simp [Core.forState]

theorem forgeIn_ok (push : Bool) (c : Core) (cs : List Node) :
    ∀ links : List (Lbl × Addr), (∀ p ∈ links, p.1 ∈ labelsOf c.ins) → (∀ p ∈ links, p.2 ∈ inDom cs) →
      (push = true → ∀ p ∈ links, ∀ v, valOf c.ins p.1 = some v → QuietL cs p.2.1 p.2.2 v) →
      forgeIn push c cs links = .ok cs := by
  intro links
  induction links with
  | nil => intros; rfl
  | cons p links ih =>
    intro h1 h2 h3
    obtain ⟨v, hv⟩ := valOf_some c.ins p.1 (h1 p (by simp))
    have hm : p.2 ∈ inDom cs := h2 p (by simp)
    have ih' := ih (fun q hq => h1 q (by simp [hq])) (fun q hq => h2 q (by simp [hq]))
      (fun hp q hq => h3 hp q (by simp [hq]))
    cases push with
    | false =>
      obtain ⟨x, r⟩ := p
      simp only [forgeIn, hm, not_true_eq_false, if_false, hv]
      exact ih'
    | true =>
      have hq := pushInL_quiet cs p.2.1 p.2.2 v (h3 rfl p (by simp) v hv)
      obtain ⟨x, r⟩ := p
      simp only [forgeIn, hm, not_true_eq_false, if_false, hv, if_true, hq]
      exact ih'

theorem forgeOut_ok (push : Bool) (cs : List Node) (c : Core) :
    ∀ links : List (Addr × Lbl), (∀ p ∈ links, p.1 ∈ outDom cs) → (∀ p ∈ links, p.2 ∈ labelsOf c.outs) →
      (push = true → ∀ p ∈ links, ∀ v, outValOf cs p.1 = some v → setVal c.outs p.2 v = c.outs) →
      forgeOut push cs c links = .ok c := by
  intro links
  induction links with
  | nil => intros; rfl
  | cons p links ih =>
    intro h1 h2 h3
    obtain ⟨v, hv⟩ := outValOf_some cs p.1 (h1 p (by simp))
    have hm : p.2 ∈ labelsOf c.outs := h2 p (by simp)
    have ih' := ih (fun q hq => h1 q (by simp [hq])) (fun q hq => h2 q (by simp [hq]))
      (fun hp q hq => h3 hp q (by simp [hq]))
    cases push with
    | false =>
      obtain ⟨r, out⟩ := p
      simp only [forgeOut, hv, hm, not_true_eq_false, if_false, Bool.false_eq_true]
      exact ih'
    | true =>
      have hq := h3 rfl p (by simp) v hv
      obtain ⟨r, out⟩ := p
      simp only [forgeOut, hv, hm, not_true_eq_false, if_false, if_true]
      have : ({ c with outs := setVal c.outs out v } : Core) = c := by rw [hq]
      rw [this]
      exact ih'

theorem afterAdopt_imgLd (cfg : Cfg) (c : Core) (pp d : Option Path) (ch : List Node) :
    (if cfg.keepCache then c.forState pp else (c.forState pp).afterAdopt (imgLd cfg d ch)) =
      imgCore cfg c (c.forState pp).detached ch := by
  cases ch <;> cases h : cfg.keepCache <;> cases hr : c.running <;>
    simp [Core.afterAdopt, imgLd, Core.forState, h, hr]

theorem afterAdopt_imgL (cfg : Cfg) (c : Core) (d : Option Path) (ch : List Node) :
    (if cfg.keepCache then (imgCore cfg c d ch).forState none
      else ((imgCore cfg c d ch).forState none).afterAdopt (imgL cfg ch)) = imgCore cfg c d ch := by
  cases ch <;> cases h : cfg.keepCache <;> cases hr : c.running <;>
    simp [Core.afterAdopt, imgL, Core.forState, h, hr]

theorem setstate_ok (cfg : Cfg) (c : Core) (cs : List Node)
    (ds ss fo : List (Addr × Addr))
    (hstart : ∀ l ∈ c.starting, l ∈ childLabels cs)
    (hds : checkStrs (inDom (cs.map Node.adopt)) (outDom (cs.map Node.adopt)) ds = true)
    (hss : checkStrs (sInDom (cs.map Node.adopt)) (sOutDom (cs.map Node.adopt)) ss = true)
    (hfo : checkStrs (sOutDom (cs.map Node.adopt)) (sInDom (cs.map Node.adopt)) fo = true)
    (hrf : cfg.revalidate = true → c.refused = [])
    (hl : c.kind.hasLinks = true → LinksOk c (cs.map Node.adopt))
    (hq : c.kind.hasLinks = true → cfg.anyPush = true →
      (∀ p ∈ c.inLinks, ∀ v, valOf c.ins p.1 = some v → QuietL (cs.map Node.adopt) p.2.1 p.2.2 v) ∧
      (∀ p ∈ c.outLinks, ∀ v, outValOf (cs.map Node.adopt) p.1 = some v → setVal c.outs p.2 v = c.outs)) :
    setstate cfg c cs ds ss fo =
      .ok (.mk (if cfg.keepCache then c else c.afterAdopt cs) (cs.map Node.adopt) (restore cfg ds)
        (restoreSig cfg ss fo)) := by
  have hs : (c.starting.all fun l => decide (l ∈ childLabels cs)) = true := by
    rw [List.all_eq_true]; intro l hl'; simpa using hstart l hl'
  have hf : (if cfg.keepCache then c else c.afterAdopt cs).kind = c.kind ∧
      (if cfg.keepCache then c else c.afterAdopt cs).ins = c.ins ∧
      (if cfg.keepCache then c else c.afterAdopt cs).outs = c.outs ∧
      (if cfg.keepCache then c else c.afterAdopt cs).inLinks = c.inLinks ∧
      (if cfg.keepCache then c else c.afterAdopt cs).outLinks = c.outLinks ∧
      (if cfg.keepCache then c else c.afterAdopt cs).refused = c.refused := by
    cases cfg.keepCache
    · simpa using afterAdopt_fields c cs
    · simp
  obtain ⟨f1, f2, f3, f4, f5, f6⟩ := hf
  have b0 : (cfg.revalidate && ds.any fun p => decide (p ∈ c.refused)) = false := by
    cases hv : cfg.revalidate
    · simp
    · simp [hrf hv]
  have l1 : ∀ a ∈ inDom (cs.map Node.adopt), a.1 ∈ childLabels (cs.map Node.adopt) :=
    fun a ha => dom_label _ (fun c => labelsOf c.ins) a ha
  have l2 : ∀ a ∈ outDom (cs.map Node.adopt), a.1 ∈ childLabels (cs.map Node.adopt) :=
    fun a ha => dom_label _ (fun c => labelsOf c.outs) a ha
  have l3 : ∀ a ∈ sInDom (cs.map Node.adopt), a.1 ∈ childLabels (cs.map Node.adopt) :=
    fun a ha => dom_label _ (fun c => c.sigIns) a ha
  have l4 : ∀ a ∈ sOutDom (cs.map Node.adopt), a.1 ∈ childLabels (cs.map Node.adopt) :=
    fun a ha => dom_label _ (fun c => c.sigOuts) a ha
  have b1 := firstBad_none (childLabels (cs.map Node.adopt)) (inDom (cs.map Node.adopt))
    (outDom (cs.map Node.adopt)) ds l1 l2 hds
  have b2 := firstBad_none (childLabels (cs.map Node.adopt)) (sInDom (cs.map Node.adopt))
    (sOutDom (cs.map Node.adopt)) ss l3 l4 hss
  have b3 : (if cfg.firing then firstBad (childLabels (cs.map Node.adopt)) (sOutDom (cs.map Node.adopt))
      (sInDom (cs.map Node.adopt)) fo else none) = none := by
    split
    · exact firstBad_none _ _ _ fo l4 l3 hfo
    · rfl
  unfold setstate
  simp only [hs, b1, b2, b3, f6, b0, Bool.not_true, Bool.false_eq_true, if_false]
  generalize hc' : (if cfg.keepCache then c else c.afterAdopt cs) = c' at f1 f2 f3 f4 f5 ⊢
  by_cases hk : c.kind.hasLinks = true
  · have L := hl hk
    simp only [f1, hk, if_true]
    have any1 : cfg.pushesIn c.kind = true → cfg.anyPush = true := by
      unfold Cfg.pushesIn Cfg.anyPush; split <;> intro h <;> simp [h]
    have any2 : cfg.pushesOut c.kind = true → cfg.anyPush = true := by
      unfold Cfg.pushesOut Cfg.anyPush; split <;> intro h <;> simp [h]
    rw [f4, forgeIn_ok _ c' _ c.inLinks (by rw [f2]; exact L.inSrc) L.inDst
      (fun hp => by rw [f2]; exact (hq hk (any1 hp)).1)]
    simp only []
    rw [f5, forgeOut_ok _ _ c' c.outLinks L.outSrc (by rw [f3]; exact L.outDst)
      (fun hp => by rw [f3]; exact (hq hk (any2 hp)).2)]
  · simp [f1, hk]

mutual
/-- the hypothesis under which the PINNED restore is faithful: where the reconnection order is not
repaired, no data input holds more than one connection and no signal output fires more than one;
where the cache is not kept, no composite (with children) holds one; where connections are validated
again, none would be refused today -/
def AtMostOne (cfg : Cfg) : Node → Prop
  | .mk c ch dg sg =>
    (cfg.revIter = false → ∀ a, (dg.inl a).length ≤ 1) ∧
    (cfg.firing = false → ∀ o, (sg.outl o).length ≤ 1) ∧
    (cfg.keepCache = false → ch ≠ [] → c.cached = none) ∧
    (cfg.revalidate = true → c.refused = []) ∧ AtMostOneL cfg ch
def AtMostOneL (cfg : Cfg) : List Node → Prop
  | [] => True
  | n :: ns => AtMostOne cfg n ∧ AtMostOneL cfg ns
end

mutual
theorem atMostOne_of_repaired (cfg : Cfg) (h1 : cfg.revIter = true) (h2 : cfg.firing = true)
    (h3 : cfg.keepCache = true) (h4 : cfg.revalidate = false) : ∀ n : Node, AtMostOne cfg n
  | .mk _ ch _ _ => by
    simp only [AtMostOne]
    exact ⟨fun h => by simp [h1] at h, fun h => by simp [h2] at h, fun h => by simp [h3] at h,
      fun h => by simp [h4] at h, atMostOneL_of_repaired cfg h1 h2 h3 h4 ch⟩
theorem atMostOneL_of_repaired (cfg : Cfg) (h1 : cfg.revIter = true) (h2 : cfg.firing = true)
    (h3 : cfg.keepCache = true) (h4 : cfg.revalidate = false) : ∀ ns : List Node, AtMostOneL cfg ns
  | [] => by simp [AtMostOneL]
  | n :: ns => by
    simp only [AtMostOneL]
    exact ⟨atMostOne_of_repaired cfg h1 h2 h3 h4 n, atMostOneL_of_repaired cfg h1 h2 h3 h4 ns⟩
end

mutual
/-- no lookup fails when a well-formed graph is unpickled, and re-forging settled links through
the setter is accepted and changes nothing -/
theorem load_save_node (cfg : Cfg) :
    ∀ (n : Node), WF n → (cfg.anyPush = true → Settled n) → AtMostOne cfg n →
      ∀ pp, load cfg (save pp n) = .ok (img cfg (n.core.forState pp).detached n)
  | .mk c ch dg sg, h, hset, hone, pp => by
    simp only [WF] at h
    obtain ⟨_, _, _, _, _, hd, hs, hst, hlk, hch⟩ := h
    simp only [AtMostOne] at hone
    obtain ⟨_, _, _, o4, och⟩ := hone
    have hsetL : cfg.anyPush = true → SettledL ch := fun hp => by
      have := hset hp; simp only [Settled] at this; exact this.2
    have ih := load_save_list cfg ch hch hsetL och (lexPath (c.forState pp).detached c.label)
    obtain ⟨e1, e2, e3, e4, e5⟩ := doms_imgL cfg ch
    simp only [save, load, ih]
    rw [setstate_ok cfg]
    · simp only [img, imgLd_adopt, Node.core, afterAdopt_imgLd]
    · intro l hl; rw [doms_imgLd]; exact hst l (by simpa [Core.forState] using hl)
    · rw [imgLd_adopt, e2, e3]
      exact checkStrs_strings _ _ _ _ (fun a ha => ha) (fun a _ o ho => hd.closed a o ho)
    · rw [imgLd_adopt, e4, e5]
      exact checkStrs_strings _ _ _ _ (fun a ha => ha) (fun a _ o ho => hs.closed a o ho)
    · rw [imgLd_adopt, e4, e5]
      refine checkStrs_strings _ _ _ _ (fun a ha => ha) (fun o _ a ha => ?_)
      have hoa : o ∈ sg.inl a := (hs.mutual_ a o).mpr ha
      apply Classical.byContradiction
      intro hn
      rw [hs.support a hn] at hoa
      cases hoa
    · intro hv; simpa [Core.forState] using o4 hv
    · intro hk
      have hk' : c.kind.hasLinks = true := by simpa [Core.forState] using hk
      simp only [hk', if_true] at hlk
      rw [imgLd_adopt]
      exact ⟨by simpa [Core.forState] using hlk.inSrc, by simpa [Core.forState, e2] using hlk.inDst,
        by simpa [Core.forState, e3] using hlk.outSrc, by simpa [Core.forState] using hlk.outDst⟩
    · intro hk hp
      have hk' : c.kind.hasLinks = true := by simpa [Core.forState] using hk
      have hS := hset hp
      simp only [Settled] at hS
      obtain ⟨hS1, hS2⟩ := hS.1 hk'
      rw [imgLd_adopt]
      refine ⟨?_, ?_⟩
      · intro p hp' v hv
        exact quietL_img cfg ch _ _ v (hS1 p (by simpa [Core.forState] using hp') v (by simpa [Core.forState] using hv))
      · intro p hp' v hv
        have hv' : outValOf ch p.1 = some v := by simpa [outValOf, outVals_imgL] using hv
        simpa [Core.forState] using hS2 p (by simpa [Core.forState] using hp') v hv'
theorem load_save_list (cfg : Cfg) :
    ∀ (ns : List Node), WFL ns → (cfg.anyPush = true → SettledL ns) → AtMostOneL cfg ns →
      ∀ p, loadL cfg (saveL p ns) = .ok (imgLd cfg (some p) ns)
  | [], _, _, _, _ => by simp [saveL, loadL, imgLd]
  | n :: ns, h, hset, hone, p => by
    simp only [WFL] at h
    obtain ⟨_, hn, hns⟩ := h
    simp only [AtMostOneL] at hone
    have i1 := load_save_node cfg n hn (fun hp => by have := hset hp; simp only [SettledL] at this; exact this.1) hone.1 (some p)
    have i2 := load_save_list cfg ns hns (fun hp => by have := hset hp; simp only [SettledL] at this; exact this.2) hone.2 p
    simp only [saveL, loadL, i1, i2]
    simp [imgLd, Core.forState]
end

/-! ### what the returned graph shows -/

theorem table_congr (dom : List Addr) (f g : Addr → List Addr) (h : ∀ a ∈ dom, f a = g a) :
    table dom f = table dom g := by
  unfold table
  apply List.map_congr_left
  intro a ha; rw [h a ha]

/-- data side: every input's list comes back in the saved order -/
theorem restore_data_faithful (cfg : Cfg) (inD outD : List Addr) (g : CG) (hnd : inD.Nodup)
    (hok : CGok inD outD g) (h1 : cfg.revIter = false → ∀ a, (g.inl a).length ≤ 1) :
    ∀ a ∈ inD, (restore cfg (strings inD g.inl)).inl a = g.inl a := by
  intro a ha
  cases hr : cfg.revIter with
  | true => rw [(restore_repaired cfg hr g.inl inD hnd (fun a _ => hok.nodupIn a)).1 a]; simp [ha]
  | false =>
    rw [(restore_pinned cfg hr g.inl inD hnd (fun a _ => hok.nodupIn a)).1 a]
    simp [ha, reverse_short _ (h1 hr a)]

theorem mem_canon (inD outD : List Addr) (g : CG) (hok : CGok inD outD g) (f : Addr → List Addr)
    (hf : ∀ a o, o ∈ f a ↔ o ∈ g.inl a) (o x : Addr) :
    x ∈ inD.filter (fun a => decide (o ∈ f a)) ↔ x ∈ g.outl o := by
  rw [List.mem_filter]
  constructor
  · intro ⟨_, h⟩; exact (hok.mutual_ x o).mp ((hf x o).mp (by simpa using h))
  · intro h
    have hox : o ∈ g.inl x := (hok.mutual_ x o).mpr h
    refine ⟨?_, by simpa using (hf x o).mpr hox⟩
    apply Classical.byContradiction
    intro hn
    rw [hok.support x hn] at hox
    cases hox

/-- signal side: every output's list comes back in the saved (firing) order; `f` is the input
side the strings were taken from (any lists with the right members), `hO` the saved output side -/
theorem restore_sig_faithful' (cfg : Cfg) (inD outD : List Addr) (g : CG) (f hO : Addr → List Addr)
    (hndI : inD.Nodup) (hndO : outD.Nodup) (hok : CGok inD outD g)
    (hf : ∀ a o, o ∈ f a ↔ o ∈ g.inl a) (hfn : ∀ a, (f a).Nodup) (hh : ∀ o ∈ outD, hO o = g.outl o)
    (h2 : cfg.firing = false → ∀ o, (g.outl o).length ≤ 1) :
    ∀ o ∈ outD, (restoreSig cfg (strings inD f) (strings outD hO)).outl o = g.outl o := by
  intro o ho
  -- the list `connect` builds: the inputs holding `o`, in (reverse) iteration order
  have hcanon : ∃ l : List Addr, (restore cfg (strings inD f)).outl o = l ∧ l.Nodup ∧ ∀ x, x ∈ l ↔ x ∈ g.outl o := by
    have hfl : (inD.filter fun a => decide (o ∈ f a)).Nodup := List.Nodup.sublist List.filter_sublist hndI
    cases hr : cfg.revIter with
    | true =>
      refine ⟨_, (restore_repaired cfg hr f inD hndI (fun a _ => hfn a)).2 o, hfl, ?_⟩
      exact fun x => mem_canon inD outD g hok f hf o x
    | false =>
      refine ⟨_, (restore_pinned cfg hr f inD hndI (fun a _ => hfn a)).2 o, nodup_reverse' _ hfl, ?_⟩
      intro x; rw [List.mem_reverse]; exact mem_canon inD outD g hok f hf o x
  obtain ⟨l, hl, hlnd, hlm⟩ := hcanon
  cases hfi : cfg.firing with
  | true =>
    simp only [restoreSig, hfi, if_true, hl]
    rw [firingOf_strings hO outD hndO o]
    simp only [ho, if_true, hh o ho]
    exact reorder_eq _ _ (fun x hx => (hlm x).mpr hx) (fun x hx => (hlm x).mp hx)
  | false =>
    simp only [restoreSig, hfi, Bool.false_eq_true, if_false, hl]
    exact eq_of_short l (g.outl o) hlnd (h2 hfi o) hlm

theorem restore_sig_faithful (cfg : Cfg) (inD outD : List Addr) (g : CG) (hndI : inD.Nodup) (hndO : outD.Nodup)
    (hok : CGok inD outD g) (h2 : cfg.firing = false → ∀ o, (g.outl o).length ≤ 1) :
    ∀ o ∈ outD, (restoreSig cfg (strings inD g.inl) (strings outD g.outl)).outl o = g.outl o :=
  restore_sig_faithful' cfg inD outD g g.inl g.outl hndI hndO hok (fun _ _ => Iff.rfl) hok.nodupIn
    (fun _ _ => rfl) h2

/-- whatever the order, reconnecting only ever yields the saved members on the saved channels -/
theorem restore_inl_mem (cfg : Cfg) (f : Addr → List Addr) (dom : List Addr) (hnd : dom.Nodup)
    (hf : ∀ a ∈ dom, (f a).Nodup) (a o : Addr) :
    o ∈ (restore cfg (strings dom f)).inl a ↔ a ∈ dom ∧ o ∈ f a := by
  cases hr : cfg.revIter with
  | true =>
    rw [(restore_repaired cfg hr f dom hnd hf).1 a]
    by_cases ha : a ∈ dom <;> simp [ha]
  | false =>
    rw [(restore_pinned cfg hr f dom hnd hf).1 a]
    by_cases ha : a ∈ dom <;> simp [ha]

theorem restore_inl_nodup (cfg : Cfg) (f : Addr → List Addr) (dom : List Addr) (hnd : dom.Nodup)
    (hf : ∀ a ∈ dom, (f a).Nodup) (a : Addr) : ((restore cfg (strings dom f)).inl a).Nodup := by
  cases hr : cfg.revIter with
  | true =>
    rw [(restore_repaired cfg hr f dom hnd hf).1 a]
    by_cases ha : a ∈ dom <;> simp [ha, hf]
  | false =>
    rw [(restore_pinned cfg hr f dom hnd hf).1 a]
    by_cases ha : a ∈ dom
    · simp [ha, nodup_reverse' _ (hf a ha)]
    · simp [ha]

theorem restoreSig_inl (cfg : Cfg) (l fo : List (Addr × Addr)) : (restoreSig cfg l fo).inl = (restore cfg l).inl := by
  unfold restoreSig
  cases cfg.firing <;> simp

theorem strings_congr (dom : List Addr) (f g : Addr → List Addr) (h : ∀ a ∈ dom, f a = g a) :
    strings dom f = strings dom g := by
  induction dom with
  | nil => rfl
  | cons a dom ih =>
    rw [strings_cons, strings_cons, h a (by simp), ih (fun b hb => h b (by simp [hb]))]

mutual
/-- a round trip shows what the original showed -/
theorem obs_img (cfg : Cfg) :
    ∀ (n : Node), WF n → AtMostOne cfg n → ∀ d p, obs p (img cfg d n) = obs p (n.withDetached d)
  | .mk c ch dg sg, h, hone, d, p => by
    simp only [WF] at h
    obtain ⟨_, hi, _, hsi, hso, hd, hs, _, _, hch⟩ := h
    simp only [AtMostOne] at hone
    obtain ⟨o1, o2, o3, o4, och⟩ := hone
    obtain ⟨_, e2, _, _, e5⟩ := doms_imgL cfg ch
    have ih := obsL_img cfg ch hch och
    have t1 := table_congr _ _ _ (restore_data_faithful cfg _ _ dg hi hd o1)
    have t2 := table_congr _ _ _ (restore_sig_faithful cfg _ _ sg hsi hso hs o2)
    simp only [img, Node.withDetached, obs, e2, e5, ih, t1, t2]
    simp [Core.seen, Core.forState]
    cases hr : c.running
    · cases hk : cfg.keepCache
      · cases ch with
        | nil => simp
        | cons x xs => simp [o3 hk (by simp)]
      · simp
    · simp
theorem obsL_img (cfg : Cfg) :
    ∀ (ns : List Node), WFL ns → AtMostOneL cfg ns → ∀ p, obsL p (imgL cfg ns) = obsL p ns
  | [], _, _, _ => by simp [imgL]
  | n :: ns, h, hone, p => by
    simp only [WFL] at h
    obtain ⟨hdet, hn, hns⟩ := h
    simp only [AtMostOneL] at hone
    have i1 := obs_img cfg n hn hone.1 none p
    have i2 := obsL_img cfg ns hns hone.2 p
    have hw : n.withDetached none = n := by
      cases n with
      | mk c _ _ _ =>
        simp only [Node.core] at hdet
        simp only [Node.withDetached]
        congr
        cases c; simp_all
    simp only [imgL, obsL, i1, i2, hw]
end

/-! ### the file back end: `Node.load` = unpickle + a second, shallow state cycle -/

theorem imgL_adopt (cfg : Cfg) (ns : List Node) : (imgL cfg ns).map Node.adopt = imgL cfg ns := by
  induction ns with
  | nil => simp [imgL]
  | cons n ns ih => simp [imgL, adopt_img, ih]

theorem fileLoad_save (cfg : Cfg) (n : Node) (hwf : WF n) (hset : cfg.anyPush = true → Settled n)
    (hone : AtMostOne cfg n) (pp : Option Path) :
    ∃ n', fileLoad cfg n.core.cls (save pp n) = .ok n' ∧
      ∀ p, obs p n' = obs p (n.withDetached (n.core.forState pp).detached) := by
  cases n with
  | mk c ch dg sg =>
  have hl := load_save_node cfg (.mk c ch dg sg) hwf hset hone pp
  simp only [WF] at hwf
  obtain ⟨_, hi, ho, hsi, hso, hd, hs, hst, hlk, hch⟩ := hwf
  simp only [AtMostOne] at hone
  obtain ⟨o1, o2, o3, o4, och⟩ := hone
  obtain ⟨e1, e2, e3, e4, e5⟩ := doms_imgL cfg ch
  -- what the first cycle left on the top composite
  have hD := restore_data_faithful cfg _ _ dg hi hd o1
  have hS := restore_sig_faithful cfg _ _ sg hsi hso hs o2
  have hS1 : strings (inDom ch) (restore cfg (strings (inDom ch) dg.inl)).inl = strings (inDom ch) dg.inl :=
    strings_congr _ _ _ hD
  have hS3 : strings (sOutDom ch) (restoreSig cfg (strings (sInDom ch) sg.inl) (strings (sOutDom ch) sg.outl)).outl
      = strings (sOutDom ch) sg.outl := strings_congr _ _ _ hS
  have hmem : ∀ a o, o ∈ (restore cfg (strings (sInDom ch) sg.inl)).inl a ↔ o ∈ sg.inl a := by
    intro a o
    rw [restore_inl_mem cfg sg.inl _ hsi (fun a _ => hs.nodupIn a)]
    constructor
    · exact fun h => h.2
    · intro h
      refine ⟨?_, h⟩
      apply Classical.byContradiction
      intro hn
      rw [hs.support a hn] at h
      cases h
  have hnd2 := restore_inl_nodup cfg sg.inl _ hsi (fun a _ => hs.nodupIn a)
  simp only [Node.core] at hl ⊢
  simp only [fileLoad, hl, img, e2, e4, e5, hS1, hS3, restoreSig_inl]
  have hcls : (imgCore cfg c (c.forState pp).detached ch).cls = c.cls := by simp [Core.forState]
  simp only [hcls, ne_eq, not_true_eq_false, if_false]
  rw [setstate_ok cfg]
  · refine ⟨_, rfl, fun p => ?_⟩
    rw [imgL_adopt]
    have t1 := table_congr _ _ _ hD
    have t2 := table_congr _ _ _
      (restore_sig_faithful' cfg _ _ sg _ sg.outl hsi hso hs hmem hnd2 (fun _ _ => rfl) o2)
    have ih := obsL_img cfg ch hch och
    simp only [Node.withDetached, obs, e2, e5, ih, t1, t2, afterAdopt_imgL]
    simp [Core.seen, Core.forState]
    cases hr : c.running
    · cases hk : cfg.keepCache
      · cases ch with
        | nil => simp
        | cons x xs => simp [o3 hk (by simp)]
      · simp
    · simp
  · intro l hl'; rw [e1]; exact hst l (by simpa [Core.forState] using hl')
  · rw [imgL_adopt, e2, e3]
    exact checkStrs_strings _ _ _ _ (fun a ha => ha) (fun a _ o ho' => hd.closed a o ho')
  · rw [imgL_adopt, e4, e5]
    exact checkStrs_strings _ _ _ _ (fun a ha => ha) (fun a _ o ho' => hs.closed a o ((hmem a o).mp ho'))
  · rw [imgL_adopt, e4, e5]
    refine checkStrs_strings _ _ _ _ (fun a ha => ha) (fun o _ a ha => ?_)
    have hoa : o ∈ sg.inl a := (hs.mutual_ a o).mpr ha
    apply Classical.byContradiction
    intro hn
    rw [hs.support a hn] at hoa
    cases hoa
  · intro hv; simpa [Core.forState] using o4 hv
  · intro hk
    have hk' : c.kind.hasLinks = true := by simpa [Core.forState] using hk
    simp only [hk', if_true] at hlk
    rw [imgL_adopt]
    exact ⟨by simpa [Core.forState] using hlk.inSrc, by simpa [Core.forState, e2] using hlk.inDst,
      by simpa [Core.forState, e3] using hlk.outSrc, by simpa [Core.forState] using hlk.outDst⟩
  · intro hk hp
    have hk' : c.kind.hasLinks = true := by simpa [Core.forState] using hk
    have hSt := hset hp
    simp only [Settled] at hSt
    obtain ⟨hS1', hS2'⟩ := hSt.1 hk'
    rw [imgL_adopt]
    refine ⟨?_, ?_⟩
    · intro q hq v hv
      exact quietL_img cfg ch _ _ v (hS1' q (by simpa [Core.forState] using hq) v (by simpa [Core.forState] using hv))
    · intro q hq v hv
      have hv' : outValOf ch q.1 = some v := by simpa [outValOf, outVals_imgL] using hv
      simpa [Core.forState] using hS2' q (by simpa [Core.forState] using hq) v hv'

/-! ### the sides whose order is not observed, and what a later run reads -/

/-- data outputs / signal inputs: the same members come back (only their order is rebuilt) -/
theorem restore_outl_mem (cfg : Cfg) (inD outD : List Addr) (g : CG) (hnd : inD.Nodup) (hok : CGok inD outD g)
    (o x : Addr) : x ∈ (restore cfg (strings inD g.inl)).outl o ↔ x ∈ g.outl o := by
  cases hr : cfg.revIter with
  | true =>
    rw [(restore_repaired cfg hr g.inl inD hnd (fun a _ => hok.nodupIn a)).2 o]
    exact mem_canon inD outD g hok g.inl (fun _ _ => Iff.rfl) o x
  | false =>
    rw [(restore_pinned cfg hr g.inl inD hnd (fun a _ => hok.nodupIn a)).2 o, List.mem_reverse]
    exact mem_canon inD outD g hok g.inl (fun _ _ => Iff.rfl) o x

theorem outl_nil_of_not_mem (inD outD : List Addr) (g : CG) (hok : CGok inD outD g) (o : Addr) (ho : o ∉ outD) :
    g.outl o = [] := by
  apply List.eq_nil_iff_forall_not_mem.mpr
  intro x hx
  exact ho (hok.closed x o ((hok.mutual_ x o).mpr hx))

/-- repaired restore: the signal graph comes back exactly, on both sides, everywhere -/
theorem restoreSig_exact (cfg : Cfg) (h1 : cfg.revIter = true) (h2 : cfg.firing = true) (inD outD : List Addr)
    (g : CG) (hndI : inD.Nodup) (hndO : outD.Nodup) (hok : CGok inD outD g) :
    (restoreSig cfg (strings inD g.inl) (strings outD g.outl)).inl = g.inl ∧
    (restoreSig cfg (strings inD g.inl) (strings outD g.outl)).outl = g.outl := by
  refine ⟨?_, ?_⟩
  · funext a
    rw [restoreSig_inl, (restore_repaired cfg h1 g.inl inD hndI (fun a _ => hok.nodupIn a)).1 a]
    by_cases ha : a ∈ inD
    · simp [ha]
    · simp [ha, hok.support a ha]
  · funext o
    by_cases ho : o ∈ outD
    · exact restore_sig_faithful cfg inD outD g hndI hndO hok (fun h => by simp [h2] at h) o ho
    · rw [outl_nil_of_not_mem inD outD g hok o ho]
      simp only [restoreSig, h2, if_true]
      rw [firingOf_strings g.outl outD hndO o]
      have hnil : (restore cfg (strings inD g.inl)).outl o = [] := by
        apply List.eq_nil_iff_forall_not_mem.mpr
        intro x hx
        have := (restore_outl_mem cfg inD outD g hndI hok o x).mp hx
        rw [outl_nil_of_not_mem inD outD g hok o ho] at this
        cases this
      simp [ho, hnil, reorder]

/-- the scheduler graph a later run reads is the same after a (repaired) round trip -/
theorem toGraph_img (cfg : Cfg) (h1 : cfg.revIter = true) (h2 : cfg.firing = true) (n : Node) (hwf : WF n)
    (d : Option Path) : toGraph (img cfg d n) = toGraph n := by
  cases n with
  | mk c ch dg sg =>
  simp only [WF] at hwf
  obtain ⟨_, _, _, hsi, hso, _, hs, _, _, _⟩ := hwf
  obtain ⟨e1, e2⟩ := restoreSig_exact cfg h1 h2 _ _ sg hsi hso hs
  simp [toGraph, img, Node.sig, Node.core, Node.children, e1, e2, (doms_imgL cfg ch).2.2.2.2, Core.forState]

/-- every child input fetches the same value after a round trip -/
theorem fetchVal_img (cfg : Cfg) (n : Node) (hwf : WF n) (hone : AtMostOne cfg n) (d : Option Path) :
    ∀ a ∈ inDom n.children, fetchVal (img cfg d n) a = fetchVal n a := by
  cases n with
  | mk c ch dg sg =>
  simp only [WF] at hwf
  obtain ⟨_, hi, _, _, _, hd, _, _, _, _⟩ := hwf
  simp only [AtMostOne] at hone
  intro a ha
  simp only [Node.children] at ha
  simp only [fetchVal, img, Node.children, Node.data, outVals_imgL,
    restore_data_faithful cfg _ _ dg hi hd hone.1 a ha]

/-! ### loading in place -/

/-- clearing the detached path of the first record -/
def headNoDet : List Rec → List Rec
  | [] => []
  | r :: rest => { r with core := { r.core with detached := none } } :: rest

theorem obs_adopt (p : Path) (n : Node) : obs p n.adopt = headNoDet (obs p n) := by
  cases n; simp [Node.adopt, obs, headNoDet, Core.seen]

theorem obs_withDetached_none (p : Path) (d : Option Path) (n : Node) :
    obs p (n.withDetached none) = headNoDet (obs p (n.withDetached d)) := by
  cases n; simp [Node.withDetached, obs, headNoDet, Core.seen]

theorem withDetached_none_self (n : Node) (h : n.core.detached = none) : n.withDetached none = n := by
  cases n with
  | mk c _ _ _ =>
    simp only [Node.core] at h
    simp only [Node.withDetached]
    congr
    cases c; simp_all

/-- equal observations ⇒ equal label tables -/
theorem iface_of_obs (p : Path) (n m : Node) (h : obs p n = obs p m) :
    n.core.label = m.core.label ∧ labelsOf n.core.ins = labelsOf m.core.ins ∧
    labelsOf n.core.outs = labelsOf m.core.outs ∧ n.core.sigIns = m.core.sigIns ∧ n.core.sigOuts = m.core.sigOuts := by
  cases n with
  | mk c _ _ _ =>
  cases m with
  | mk c' _ _ _ =>
  simp only [obs, List.cons.injEq, Rec.mk.injEq] at h
  have hs := h.1.2.1
  simp only [Node.core]
  have e1 : c.label = c'.label := by simpa [Core.seen] using congrArg Core.label hs
  have e2 : c.ins = c'.ins := by simpa [Core.seen] using congrArg Core.ins hs
  have e3 : c.outs = c'.outs := by simpa [Core.seen] using congrArg Core.outs hs
  have e4 : c.sigIns = c'.sigIns := by simpa [Core.seen] using congrArg Core.sigIns hs
  have e5 : c.sigOuts = c'.sigOuts := by simpa [Core.seen] using congrArg Core.sigOuts hs
  simp [e1, e2, e3, e4, e5]

/-- replacing children by nodes that show the same leaves every table and the observation as it was -/
theorem replace_same (l : Lbl) (n' : Node) :
    ∀ (ch : List Node), (∀ c ∈ ch, c.core.label = l → ∀ p, obs p n' = obs p c) →
      childLabels (replaceChild ch l n') = childLabels ch ∧ inDom (replaceChild ch l n') = inDom ch ∧
      outDom (replaceChild ch l n') = outDom ch ∧ sInDom (replaceChild ch l n') = sInDom ch ∧
      sOutDom (replaceChild ch l n') = sOutDom ch ∧ ∀ p, obsL p (replaceChild ch l n') = obsL p ch := by
  intro ch
  induction ch with
  | nil => intro _; simp [replaceChild, childLabels, inDom, outDom, sInDom, sOutDom, obsL]
  | cons c ch ih =>
    intro h
    obtain ⟨i1, i2, i3, i4, i5, i6⟩ := ih (fun x hx => h x (by simp [hx]))
    simp only [replaceChild, childLabels, inDom, outDom, sInDom, sOutDom, List.map_cons, List.flatMap_cons] at *
    by_cases hc : c.core.label = l
    · have ho := h c (by simp) hc
      obtain ⟨e1, e2, e3, e4, e5⟩ := iface_of_obs [] n' c (ho [])
      simp only [hc, if_true]
      refine ⟨by simp [e1, hc, i1], by simp [e1, e2, hc, i2], by simp [e1, e3, hc, i3],
        by simp [e1, e4, hc, i4], by simp [e1, e5, hc, i5], fun p => ?_⟩
      simp [obsL, ho p, i6 p]
    · simp only [hc, if_false]
      exact ⟨by simp [i1], by simp [i2], by simp [i3], by simp [i4], by simp [i5], fun p => by simp [obsL, i6 p]⟩

theorem unique_label (ch : List Node) (hnd : (childLabels ch).Nodup) (l : Lbl) (child : Node)
    (hf : ch.find? (fun x => decide (x.core.label = l)) = some child) :
    ∀ c ∈ ch, c.core.label = l → c = child := by
  induction ch with
  | nil => simp at hf
  | cons x ch ih =>
    simp only [childLabels, List.map_cons, List.nodup_cons] at hnd
    intro c hc hl
    by_cases hx : x.core.label = l
    · simp only [List.find?, hx, decide_true] at hf
      have hxc : x = child := Option.some.inj hf
      rcases List.mem_cons.mp hc with rfl | hc'
      · exact hxc
      · exfalso
        apply hnd.1
        rw [hx, ← hl]
        exact List.mem_map.mpr ⟨c, hc', rfl⟩
    · have hf' : ch.find? (fun x => decide (x.core.label = l)) = some child := by
        simpa [List.find?, hx] using hf
      rcases List.mem_cons.mp hc with rfl | hc'
      · exact absurd hl hx
      · exact ih hnd.2 hf' c hc' hl

/-- a child that loads, in place, the state it has just saved: its parent shows what it showed -/
theorem loadInPlace_keeps (cfg : Cfg) (c : Core) (ch : List Node) (dg sg : CG) (l : Lbl) (child : Node)
    (hnd : (childLabels ch).Nodup) (hf : ch.find? (fun x => decide (x.core.label = l)) = some child)
    (hwf : WF child) (hdet : child.core.detached = none) (hone : AtMostOne cfg child)
    (hset : cfg.anyPush = true → Settled child) (pp : Option Path) :
    ∃ g', loadInPlace cfg 2 pp (.mk c ch dg sg) l = .ok g' ∧ ∀ p, obs p g' = obs p (.mk c ch dg sg) := by
  obtain ⟨n', h1, h2⟩ := fileLoad_save cfg child hwf hset hone (some (lexPath (c.forState pp).detached c.label))
  have hobs : ∀ p, obs p n'.adopt = obs p child := by
    intro p
    rw [obs_adopt, h2 p, ← obs_withDetached_none, withDetached_none_self child hdet]
  have hu := unique_label ch hnd l child hf
  obtain ⟨_, e2, _, _, e5, e6⟩ := replace_same l n'.adopt ch (fun x hx hl p => by rw [hu x hx hl]; exact hobs p)
  refine ⟨.mk c (replaceChild ch l n'.adopt) dg sg, by simp [loadInPlace, hf, h1], fun p => ?_⟩
  simp only [obs, e2, e5, e6]

/-- a fresh, parentless node loading a root's file: owning nothing and owned by nobody, it shows what
the saved root showed (whichever way `Node.load` treats the stored detached path) -/
theorem fileLoadAt_save (cfg : Cfg) (n : Node) (hwf : WF n) (hset : cfg.anyPush = true → Settled n)
    (hone : AtMostOne cfg n) (hdet : n.core.detached = none) :
    ∃ n', fileLoadAt cfg n.core.cls (some none) (save none n) = .ok n' ∧ ∀ p, obs p n' = obs p n := by
  obtain ⟨m, h1, h2⟩ := fileLoad_save cfg n hwf hset hone none
  cases m with
  | mk c ch dg sg =>
  refine ⟨.mk { c with detached := none } ch dg sg, by simp [fileLoadAt, h1], fun p => ?_⟩
  have e : (Node.mk { c with detached := none } ch dg sg) = (Node.mk c ch dg sg).adopt := rfl
  rw [e, obs_adopt, h2 p, ← obs_withDetached_none, withDetached_none_self n hdet]

/-! ### table-given graphs -/

theorem lookupD_mem (t : List (Addr × List Addr)) (a x : Addr) (h : x ∈ lookupD t a) :
    ∃ p ∈ t, p.1 = a ∧ x ∈ p.2 ∧ lookupD t a = p.2 := by
  unfold lookupD at h ⊢
  cases hf : t.find? (fun p => decide (p.1 = a)) with
  | none => rw [hf] at h; cases h
  | some p =>
    rw [hf] at h
    have hp := List.find?_some hf
    exact ⟨p, List.mem_of_find?_eq_some hf, by simpa using hp, h, rfl⟩

theorem cgCheck_sound (inD outD : List Addr) (inT outT : List (Addr × List Addr))
    (h : cgCheck inD outD inT outT = true) : CGok inD outD (CG.ofTables inT outT) := by
  unfold cgCheck at h
  rw [Bool.and_eq_true, List.all_eq_true, List.all_eq_true] at h
  obtain ⟨hin, hout⟩ := h
  have hin' : ∀ p ∈ inT, p.1 ∈ inD ∧ (∀ o ∈ p.2, o ∈ outD) ∧ p.2.Nodup ∧ ∀ o ∈ p.2, p.1 ∈ lookupD outT o := by
    intro p hp
    have := hin p hp
    simp only [Bool.and_eq_true, decide_eq_true_eq, List.all_eq_true] at this
    exact ⟨this.1.1.1, this.1.1.2, this.1.2, this.2⟩
  have hout' : ∀ q ∈ outT, ∀ a ∈ q.2, q.1 ∈ lookupD inT a := by
    intro q hq a ha
    have := hout q hq
    simp only [List.all_eq_true, decide_eq_true_eq] at this
    exact this a ha
  refine ⟨?_, ?_, ?_, ?_⟩
  · intro a ha
    apply List.eq_nil_iff_forall_not_mem.mpr
    intro x hx
    obtain ⟨p, hp, hpa, _, _⟩ := lookupD_mem inT a x hx
    exact ha (hpa ▸ (hin' p hp).1)
  · intro a o ho
    obtain ⟨p, hp, _, hop, _⟩ := lookupD_mem inT a o ho
    exact (hin' p hp).2.1 o hop
  · intro a
    show (lookupD inT a).Nodup
    by_cases hne : ∃ x, x ∈ lookupD inT a
    · obtain ⟨x, hx⟩ := hne
      obtain ⟨p, hp, _, _, he⟩ := lookupD_mem inT a x hx
      rw [he]; exact (hin' p hp).2.2.1
    · have : lookupD inT a = [] := List.eq_nil_iff_forall_not_mem.mpr (fun x hx => hne ⟨x, hx⟩)
      rw [this]; exact List.nodup_nil
  · intro a o
    constructor
    · intro ho
      obtain ⟨p, hp, hpa, hop, _⟩ := lookupD_mem inT a o ho
      exact hpa ▸ (hin' p hp).2.2.2 o hop
    · intro ha
      obtain ⟨q, hq, hqo, haq, _⟩ := lookupD_mem outT o a ha
      exact hqo ▸ hout' q hq a haq

end PwVerif.Serial
