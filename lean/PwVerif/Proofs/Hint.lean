import PwVerif.Model.Hint
/-! Lemmas for property C04 (hint comparison and value admission). -/
namespace PwVerif.Hint

/-! ## the class lattice -/

theorem Cls.sub_refl (x : Cls) : x.sub x = true := by cases x <;> rfl

theorem Cls.sub_trans (x y z : Cls) (h1 : x.sub y = true) (h2 : y.sub z = true) :
    x.sub z = true := by
  cases x <;> cases y <;> first | (exact absurd h1 (by decide)) | (cases z <;> first | rfl | exact h2 | exact absurd h2 (by decide))

/-! ## lazy folds -/

theorem anyL_true {α} (g : α → Option Bool) (xs : List α) (h : anyL g xs = some true) :
    ∃ x ∈ xs, g x = some true := by
  induction xs with
  | nil => simp [anyL] at h
  | cons x xs ih =>
    simp only [anyL] at h
    split at h
    · simp at h
    · rename_i hx; exact ⟨x, by simp, hx⟩
    · obtain ⟨y, hy, hg⟩ := ih h
      exact ⟨y, by simp [hy], hg⟩

theorem allL_true {α} (g : α → Option Bool) (xs : List α) (h : allL g xs = some true) :
    ∀ x ∈ xs, g x = some true := by
  induction xs with
  | nil => simp
  | cons x xs ih =>
    simp only [allL] at h
    split at h
    · simp at h
    · simp at h
    · rename_i hx
      intro y hy
      rcases List.mem_cons.mp hy with rfl | hy'
      · exact hx
      · exact ih h y hy'

theorem anyL_isSome {α} (g : α → Option Bool) (xs : List α) (h : ∀ x ∈ xs, (g x).isSome) :
    (anyL g xs).isSome := by
  induction xs with
  | nil => simp [anyL]
  | cons x xs ih =>
    simp only [anyL]
    have hx := h x (by simp)
    split
    · rename_i e; simp [e] at hx
    · simp
    · exact ih (fun y hy => h y (by simp [hy]))

theorem allL_isSome {α} (g : α → Option Bool) (xs : List α) (h : ∀ x ∈ xs, (g x).isSome) :
    (allL g xs).isSome := by
  induction xs with
  | nil => simp [allL]
  | cons x xs ih =>
    simp only [allL]
    have hx := h x (by simp)
    split
    · rename_i e; simp [e] at hx
    · simp
    · exact ih (fun y hy => h y (by simp [hy]))

theorem allZip_isSome {α} (f : α → α → Option Bool) (hs os : List α)
    (h : ∀ x ∈ hs, ∀ y ∈ os, (f x y).isSome) : (allZip f hs os).isSome := by
  induction hs generalizing os with
  | nil => simp [allZip]
  | cons x xs ih =>
    cases os with
    | nil => simp [allZip]
    | cons y ys =>
      simp only [allZip]
      have hx := h x (by simp) y (by simp)
      split
      · rename_i e; simp [e] at hx
      · simp
      · exact ih ys (fun a ha b hb => h a (by simp [ha]) b (by simp [hb]))

/-- with every call answering, a member that answers `True` makes the lazy `any` true -/
theorem anyL_of_mem {α} (g : α → Option Bool) (xs : List α) (h : ∀ x ∈ xs, (g x).isSome)
    (x : α) (hx : x ∈ xs) (hg : g x = some true) : anyL g xs = some true := by
  induction xs with
  | nil => cases hx
  | cons y ys ih =>
    simp only [anyL]
    have hy := h y (by simp)
    split
    · rename_i e; simp [e] at hy
    · rfl
    · rename_i e
      rcases List.mem_cons.mp hx with rfl | hx'
      · rw [hg] at e; cases e
      · exact ih (fun z hz => h z (by simp [hz])) hx'

theorem allL_of_all {α} (g : α → Option Bool) (xs : List α) (h : ∀ x ∈ xs, g x = some true) :
    allL g xs = some true := by
  induction xs with
  | nil => rfl
  | cons y ys ih =>
    simp only [allL]
    rw [h y (by simp)]
    exact ih (fun z hz => h z (by simp [hz]))

/-! ## typeguard admission -/

theorem tgAny_iff (hs : List Hint) (v : V) :
    tgAny hs v = true ↔ ∃ h ∈ hs, tg h v = true := by
  induction hs with
  | nil => simp [tgAny]
  | cons h hs ih => simp [tgAny, ih]

theorem tgTypeAny_iff (hs : List Hint) (k : Cls) :
    tgTypeAny hs k = true ↔ ∃ h ∈ hs, tgType h k = true := by
  induction hs with
  | nil => simp [tgTypeAny]
  | cons h hs ih => simp [tgTypeAny, ih]

theorem tg_strip : ∀ (h : Hint) (v : V), tg (strip h) v = tg h v
  | .annotated h, v => by rw [strip, tg_strip h v]; simp [tg]
  | .cls _, _ | .noneVal, _ | .unionNew _, _ | .unionOld _, _ | .literal _, _ | .listOf _, _
  | .setOf _, _ | .dictOf _ _, _ | .tupleFix _, _ | .tupleVar _, _ | .typeOf _, _
  | .callableOf _ _, _ | .any, _ | .bare _, _ | .seqOf _, _ | .mapOf _ _, _ => by simp [strip]

theorem tgType_strip : ∀ (h : Hint) (k : Cls), tgType (strip h) k = tgType h k
  | .annotated h, k => by rw [strip, tgType_strip h k]; simp [tgType]
  | .cls _, _ | .noneVal, _ | .unionNew _, _ | .unionOld _, _ | .literal _, _ | .listOf _, _
  | .setOf _, _ | .dictOf _ _, _ | .tupleFix _, _ | .tupleVar _, _ | .typeOf _, _
  | .callableOf _ _, _ | .any, _ | .bare _, _ | .seqOf _, _ | .mapOf _ _, _ => by simp [strip]

/-- admission of what the comparison recursion is called with -/
def tgA : Arg → V → Bool
  | .h a, v => tg a v
  | _, _ => false

def tgTypeA : Arg → Cls → Bool
  | .h a, k => tgType a k
  | _, _ => false

theorem tgA_strip (x : Arg) (v : V) : tgA x.strip v = tgA x v := by
  cases x <;> simp [Arg.strip, tgA, tg_strip]

theorem tgTypeA_strip (x : Arg) (k : Cls) : tgTypeA x.strip k = tgTypeA x k := by
  cases x <;> simp [Arg.strip, tgTypeA, tgType_strip]

/-- what a `True` answer of the comparison means -/
def SoundAt (x y : Arg) : Prop :=
  (∀ v, tgA x v = true → tgA y v = true) ∧ (∀ k, tgTypeA x k = true → tgTypeA y k = true)
    ∧ (x = .ell → y = .ell) ∧ (∀ p, x = .prm p → y = .prm p)


theorem soundAt_strip (x y : Arg) (h : SoundAt x.strip y.strip) : SoundAt x y := by
  obtain ⟨h1, h2, h3, h4⟩ := h
  refine ⟨?_, ?_, ?_, ?_⟩
  · intro v hv; rw [← tgA_strip] at hv ⊢; exact h1 v hv
  · intro k hk; rw [← tgTypeA_strip] at hk ⊢; exact h2 k hk
  · intro e; subst e; have := h3 rfl; cases y <;> simp_all [Arg.strip]
  · intro p e; subst e; have := h4 p rfl; cases y <;> simp_all [Arg.strip]

/-! ## predicates over sub-hints -/

def Arg.every (p : Hint → Bool) : Arg → Bool
  | .h x => PwVerif.Hint.every p x
  | _ => true

theorem everyL_mem (p : Hint → Bool) (hs : List Hint) (h : everyL p hs = true) :
    ∀ x ∈ hs, every p x = true := by
  induction hs with
  | nil => simp
  | cons y ys ih =>
    simp only [everyL, Bool.and_eq_true] at h
    intro x hx
    rcases List.mem_cons.mp hx with rfl | hx'
    · exact h.1
    · exact ih h.2 x hx'

theorem every_strip (p : Hint → Bool) : ∀ h : Hint, every p h = true → every p (strip h) = true
  | .annotated h, hh => by
    rw [strip]; simp only [every, Bool.and_eq_true] at hh; exact every_strip p h hh.2
  | .cls _, hh | .noneVal, hh | .unionNew _, hh | .unionOld _, hh | .literal _, hh
  | .listOf _, hh | .setOf _, hh | .dictOf _ _, hh | .tupleFix _, hh | .tupleVar _, hh
  | .typeOf _, hh | .callableOf _ _, hh | .any, hh | .bare _, hh | .seqOf _, hh | .mapOf _ _, hh => by
    simpa [strip] using hh

theorem Arg.every_strip (p : Hint → Bool) (x : Arg) (h : x.every p = true) :
    x.strip.every p = true := by
  cases x <;> simp_all [Arg.strip, Arg.every, PwVerif.Hint.every_strip]

/-- the node predicate holds at the root -/
theorem every_root (p : Hint → Bool) (h : Hint) (hh : every p h = true) : p h = true := by
  cases h <;> simp_all [every]

/-! ## `type_hint_to_tuple` -/

theorem toTuple_every (cfg : Cfg) (p : Hint → Bool) (x : Arg) (h : x.every p = true) :
    ∀ m ∈ toTuple cfg x, m.every p = true := by
  intro m hm
  cases x with
  | ell => simp [toTuple] at hm; subst hm; rfl
  | prm _ => simp [toTuple] at hm; subst hm; rfl
  | h a =>
    cases a with
    | unionNew hs =>
      simp only [toTuple, List.mem_map] at hm
      obtain ⟨z, hz, rfl⟩ := hm
      simp only [Arg.every, every, Bool.and_eq_true] at h ⊢
      exact everyL_mem p hs h.2 z hz
    | unionOld hs =>
      simp only [toTuple] at hm
      split at hm
      · simp only [List.mem_map] at hm
        obtain ⟨z, hz, rfl⟩ := hm
        simp only [Arg.every, every, Bool.and_eq_true] at h ⊢
        exact everyL_mem p hs h.2 z hz
      · simp at hm; subst hm; exact h
    | _ => simp [toTuple] at hm; subst hm; exact h

/-- a value admitted by a hint is admitted by a member of its tuple -/
theorem toTuple_down (cfg : Cfg) (x : Arg) (v : V) (h : tgA x v = true) :
    ∃ m ∈ toTuple cfg x, tgA m v = true := by
  cases x with
  | ell => simp [tgA] at h
  | prm _ => simp [tgA] at h
  | h a =>
    cases a with
    | unionNew hs =>
      simp only [tgA, tg, tgAny_iff] at h
      obtain ⟨z, hz, hv⟩ := h
      exact ⟨.h z, by simp [toTuple, hz], by simpa [tgA] using hv⟩
    | unionOld hs =>
      simp only [toTuple]
      split
      · simp only [tgA, tg, tgAny_iff] at h
        obtain ⟨z, hz, hv⟩ := h
        exact ⟨.h z, by simp [hz], by simpa [tgA] using hv⟩
      · exact ⟨_, by simp, h⟩
    | _ => exact ⟨_, by simp [toTuple], h⟩

theorem toTuple_up (cfg : Cfg) (x m : Arg) (v : V) (hm : m ∈ toTuple cfg x)
    (h : tgA m v = true) : tgA x v = true := by
  cases x with
  | ell => simp [toTuple] at hm; subst hm; exact h
  | prm _ => simp [toTuple] at hm; subst hm; exact h
  | h a =>
    cases a with
    | unionNew hs =>
      simp only [toTuple, List.mem_map] at hm
      obtain ⟨z, hz, rfl⟩ := hm
      simp only [tgA, tg, tgAny_iff]
      exact ⟨z, hz, by simpa [tgA] using h⟩
    | unionOld hs =>
      simp only [toTuple] at hm
      split at hm
      · simp only [List.mem_map] at hm
        obtain ⟨z, hz, rfl⟩ := hm
        simp only [tgA, tg, tgAny_iff]
        exact ⟨z, hz, by simpa [tgA] using h⟩
      · simp at hm; subst hm; exact h
    | _ => simp [toTuple] at hm; subst hm; exact h

theorem toTuple_downT (cfg : Cfg) (x : Arg) (k : Cls) (h : tgTypeA x k = true) :
    ∃ m ∈ toTuple cfg x, tgTypeA m k = true := by
  cases x with
  | ell => simp [tgTypeA] at h
  | prm _ => simp [tgTypeA] at h
  | h a =>
    cases a with
    | unionNew hs =>
      simp only [tgTypeA, tgType, tgTypeAny_iff] at h
      obtain ⟨z, hz, hv⟩ := h
      exact ⟨.h z, by simp [toTuple, hz], by simpa [tgTypeA] using hv⟩
    | unionOld hs =>
      simp only [toTuple]
      split
      · simp only [tgTypeA, tgType, tgTypeAny_iff] at h
        obtain ⟨z, hz, hv⟩ := h
        exact ⟨.h z, by simp [hz], by simpa [tgTypeA] using hv⟩
      · exact ⟨_, by simp, h⟩
    | _ => exact ⟨_, by simp [toTuple], h⟩

theorem toTuple_upT (cfg : Cfg) (x m : Arg) (k : Cls) (hm : m ∈ toTuple cfg x)
    (h : tgTypeA m k = true) : tgTypeA x k = true := by
  cases x with
  | ell => simp [toTuple] at hm; subst hm; exact h
  | prm _ => simp [toTuple] at hm; subst hm; exact h
  | h a =>
    cases a with
    | unionNew hs =>
      simp only [toTuple, List.mem_map] at hm
      obtain ⟨z, hz, rfl⟩ := hm
      simp only [tgTypeA, tgType, tgTypeAny_iff]
      exact ⟨z, hz, by simpa [tgTypeA] using h⟩
    | unionOld hs =>
      simp only [toTuple] at hm
      split at hm
      · simp only [List.mem_map] at hm
        obtain ⟨z, hz, rfl⟩ := hm
        simp only [tgTypeA, tgType, tgTypeAny_iff]
        exact ⟨z, hz, by simpa [tgTypeA] using h⟩
      · simp at hm; subst hm; exact h
    | _ => simp [toTuple] at hm; subst hm; exact h

/-- the tuple of a union consists of hints -/
theorem toTuple_union_isH (cfg : Cfg) (x : Arg) (hu : isUnion x = true) :
    ∀ m ∈ toTuple cfg x, ∃ a, m = .h a := by
  intro m hm
  cases x with
  | ell => simp [isUnion] at hu
  | prm _ => simp [isUnion] at hu
  | h a =>
    cases a <;> simp [isUnion] at hu
    · simp only [toTuple, List.mem_map] at hm
      obtain ⟨z, _, rfl⟩ := hm; exact ⟨z, rfl⟩
    · simp only [toTuple] at hm
      split at hm
      · simp only [List.mem_map] at hm
        obtain ⟨z, _, rfl⟩ := hm; exact ⟨z, rfl⟩
      · simp at hm; exact ⟨_, hm⟩

theorem toTuple_nonunion (cfg : Cfg) (x : Arg) (hu : isUnion x = false) : toTuple cfg x = [x] := by
  cases x with
  | ell => rfl
  | prm _ => rfl
  | h a => cases a <;> simp_all [isUnion, toTuple]

/-! ## soundness of one comparison step -/

theorem Cls.mem_all (x : Cls) : x ∈ Cls.all := by cases x <;> simp [Cls.all]

def tgClsT (c t : Cls) : Bool :=
  t.sub c || (c == .float && (t == .int || t == .bool)) || (c == .set && t == .frozenset)

theorem tgCls_eq (c : Cls) (v : V) : tgCls c v = tgClsT c v.type := rfl

theorem tgClsT_mono_all :
    (Cls.all.all fun a => Cls.all.all fun b => Cls.all.all fun t =>
      !(a.sub b) || !(tgClsT a t) || tgClsT b t) = true := by decide +kernel

theorem tgCls_mono (a b : Cls) (v : V) (hs : a.sub b = true) (h : tgCls a v = true) :
    tgCls b v = true := by
  have := tgClsT_mono_all
  simp only [List.all_eq_true] at this
  have := this a (Cls.mem_all a) b (Cls.mem_all b) v.type (Cls.mem_all _)
  rw [tgCls_eq] at h ⊢
  simp_all

theorem soundAt_h (a b : Hint) (h1 : ∀ v, tg a v = true → tg b v = true)
    (h2 : ∀ k, tgType a k = true → tgType b k = true) : SoundAt (.h a) (.h b) := by
  unfold SoundAt
  exact ⟨h1, h2, fun e => (by cases e), fun _ e => (by cases e)⟩


/-- whatever a generic admits, its origin class admits (typeguard) -/
theorem tg_origin_cls (h : Hint) (g : Org) (c : Cls) (v : V) (hg : origin h = some g)
    (hc : g.cls = some c) (hv : tg h v = true) : tgCls c v = true := by
  cases h with
  | bare g' =>
    simp only [origin, Option.some.injEq] at hg; subst hg
    cases g' <;> simp only [Alias.org, Org.cls, Option.some.injEq] at hc <;> subst hc <;>
      simpa [tg, Alias.cls] using hv
  | callableOf ps r =>
    simp only [origin, Option.some.injEq] at hg; subst hg
    simp only [Org.cls, Option.some.injEq] at hc; subst hc
    simp only [tg, Bool.and_eq_true] at hv
    simp only [tgCls, isinstCls, Bool.or_eq_true]
    exact Or.inl (Or.inl hv.1)
  | literal ls => simp only [origin, Option.some.injEq] at hg; subst hg; simp [Org.cls] at hc
  | listOf _ | setOf _ | dictOf _ _ | tupleFix _ | tupleVar _ | typeOf _ | seqOf _ | mapOf _ _ =>
    simp only [origin, Option.some.injEq] at hg; subst hg
    simp only [Org.cls, Option.some.injEq] at hc; subst hc
    cases v <;> simp_all [tg, tgCls, isinstCls, V.type, Cls.sub, seqFirst]
  | cls _ | noneVal | unionNew _ | unionOld _ | annotated _ | any => simp [origin] at hg

structure SoundHyp (cfg : Cfg) (pH pO : Hint → Bool) : Prop where
  lit : ∀ ls ms', pH (.literal ls) = true → pO (.literal ms') = true →
      (ls.all fun l => ms'.any fun m => litLeq cfg l m) = true →
      ∀ v, litAdmits ls v = true → litAdmits ms' v = true
  empty : cfg.argsFix = false → pO (.tupleFix []) = false
  unordered : cfg.argsFix = false → ∀ k v, pO (.mapOf k v) = false

theorem body_sound_union (cfg : Cfg) (pH pO : Hint → Bool) (rec : Arg → Arg → Option Bool)
    (hrec : ∀ x y, x.every pH = true → y.every pO = true → rec x y = some true → SoundAt x y)
    (h o : Arg) (hh : h.every pH = true) (ho : o.every pO = true)
    (hu : (isUnion h || isUnion o) = true)
    (hm : allL (fun x => anyL (fun y => rec x y) (toTuple cfg o)) (toTuple cfg h) = some true) :
    SoundAt h o := by
  have key : ∀ m ∈ toTuple cfg h, ∃ z ∈ toTuple cfg o, SoundAt m z := by
    intro m hm'
    obtain ⟨z, hz, hr⟩ := anyL_true _ _ (allL_true _ _ hm m hm')
    exact ⟨z, hz, hrec m z (toTuple_every cfg pH h hh m hm') (toTuple_every cfg pO o ho z hz) hr⟩
  refine ⟨?_, ?_, ?_, ?_⟩
  · intro v hv
    obtain ⟨m, hm', hmv⟩ := toTuple_down cfg h v hv
    obtain ⟨z, hz, hs⟩ := key m hm'
    exact toTuple_up cfg o z v hz (hs.1 v hmv)
  · intro k hv
    obtain ⟨m, hm', hmv⟩ := toTuple_downT cfg h k hv
    obtain ⟨z, hz, hs⟩ := key m hm'
    exact toTuple_upT cfg o z k hz (hs.2.1 k hmv)
  · intro e; subst e
    have huo : isUnion o = true := by simpa [isUnion] using hu
    obtain ⟨z, hz, hs⟩ := key .ell (by simp [toTuple])
    have := hs.2.2.1 rfl; subst this
    obtain ⟨a, ha⟩ := toTuple_union_isH cfg o huo _ hz
    cases ha
  · intro p e; subst e
    have huo : isUnion o = true := by simpa [isUnion] using hu
    obtain ⟨z, hz, hs⟩ := key (.prm p) (by simp [toTuple])
    have := hs.2.2.2 p rfl; subst this
    obtain ⟨a, ha⟩ := toTuple_union_isH cfg o huo _ hz
    cases ha


theorem single_sub (rec : Arg → Arg → Option Bool) (a b : Arg)
    (h : allL (fun x => anyL (fun y => rec x y) [b]) [a] = some true) : rec a b = some true := by
  have h1 := allL_true _ _ h a (by simp)
  obtain ⟨z, hz, hr⟩ := anyL_true _ _ h1
  simp at hz; subst hz; exact hr

theorem allZip_cons {α} (f : α → α → Option Bool) (a b : α) (as bs : List α)
    (h : allZip f (a :: as) (b :: bs) = some true) : f a b = some true ∧ allZip f as bs = some true := by
  simp only [allZip] at h
  split at h
  · simp at h
  · simp at h
  · rename_i e; exact ⟨e, h⟩

theorem zip_sound (pH pO : Hint → Bool) (rec : Arg → Arg → Option Bool)
    (hrec : ∀ x y, x.every pH = true → y.every pO = true → rec x y = some true → SoundAt x y) :
    ∀ (as bs : List Hint), allZip rec (as.map .h) (bs.map .h) = some true → bs.length = as.length →
      everyL pH as = true → everyL pO bs = true → ∀ xs, tgZip as xs = true → tgZip bs xs = true := by
  intro as
  induction as with
  | nil =>
    intro bs _ hl _ _ xs hx
    cases bs with
    | nil => exact hx
    | cons _ _ => simp at hl
  | cons a as ih =>
    intro bs hz hl ha hb xs hx
    cases bs with
    | nil => simp at hl
    | cons b bs =>
      cases xs with
      | nil => simp [tgZip] at hx
      | cons x xs =>
        simp only [List.map_cons] at hz
        obtain ⟨h1, h2⟩ := allZip_cons _ _ _ _ _ hz
        simp only [everyL, Bool.and_eq_true] at ha hb
        simp only [tgZip, Bool.and_eq_true] at hx ⊢
        have hs := hrec (.h a) (.h b) ha.1 hb.1 h1
        exact ⟨hs.1 x hx.1, ih bs h2 (by simpa using hl) ha.2 hb.2 xs hx.2⟩

theorem first_sound (a b : Hint) (hs : SoundAt (.h a) (.h b)) (xs : List V)
    (h : (match first? xs with | some x => tg a x | Option.none => true) = true) :
    (match first? xs with | some x => tg b x | Option.none => true) = true := by
  cases xs with
  | nil => simp [first?]
  | cons x _ => simp only [first?] at h ⊢; exact hs.1 x h

theorem body_sound (cfg : Cfg) (pH pO : Hint → Bool) (H : SoundHyp cfg pH pO)
    (rec : Arg → Arg → Option Bool)
    (hrec : ∀ x y, x.every pH = true → y.every pO = true → rec x y = some true → SoundAt x y)
    (h o : Arg) (hh : h.every pH = true) (ho : o.every pO = true)
    (hm : msBody cfg rec h o = some true) : SoundAt h o := by
  unfold msBody at hm
  split at hm
  · rename_i hu
    exact body_sound_union cfg pH pO rec hrec h o hh ho hu hm
  · rename_i hu
    simp only [Bool.or_eq_true, not_or, Bool.not_eq_true] at hu
    cases h with
    | ell =>
      cases o with
      | ell => exact ⟨by simp [tgA], by simp [tgTypeA], fun _ => rfl, fun _ e => (by cases e)⟩
      | prm _ => simp [argOrigin, leafLe] at hm
      | h b => cases b <;> simp [argOrigin, origin, leafLe] at hm
    | prm p =>
      cases o with
      | ell => simp [argOrigin, leafLe] at hm
      | prm q =>
        simp [argOrigin, leafLe] at hm
        subst hm
        exact ⟨by simp [tgA], by simp [tgTypeA], fun e => (by cases e), fun _ e => e⟩
      | h b => cases b <;> simp [argOrigin, origin, leafLe] at hm
    | h a =>
      cases o with
      | ell => cases a <;> simp [argOrigin, origin, leafLe] at hm
      | prm _ => cases a <;> simp [argOrigin, origin, leafLe] at hm
      | h b =>
        cases a with
        | unionNew _ => simp [isUnion] at hu
        | unionOld _ => simp [isUnion] at hu
        | annotated _ => cases b <;> simp [argOrigin, origin, leafLe] at hm
        | cls ca =>
          cases b with
          | cls cb =>
            simp [argOrigin, origin, leafLe] at hm
            exact soundAt_h _ _ (fun v hv => tgCls_mono ca cb v hm (by simpa [tg] using hv))
              (fun k hk => by simp only [tgType] at hk ⊢; exact Cls.sub_trans _ _ _ hk hm)
          | _ => simp [argOrigin, origin, leafLe] at hm
        | noneVal =>
          cases b with
          | noneVal => exact soundAt_h _ _ (fun _ hv => hv) (fun _ hk => hk)
          | _ => simp [argOrigin, origin, leafLe] at hm
        | any =>
          cases b with
          | any => exact soundAt_h _ _ (fun _ hv => hv) (fun _ hk => hk)
          | cls cb =>
            cases cb <;> simp [argOrigin, origin, leafLe] at hm
            exact soundAt_h _ _ (fun v _ => by simp [tg, tgCls, isinstCls, Cls.sub])
              (fun k _ => by simp [tgType, Cls.sub])
          | _ => simp [argOrigin, origin, leafLe] at hm
        | literal ls =>
          cases b with
          | literal ms' =>
            simp [argOrigin, origin] at hm
            have h1 := every_root pH _ hh
            have h2 := every_root pO _ ho
            refine soundAt_h _ _ (fun v hv => ?_) (fun k hk => by simp [tgType] at hk)
            simp only [tg] at hv ⊢
            split at hm
            · simp at hm
            · exact H.lit ls ms' h1 h2 (by simpa using hm) v hv
          | bare g => cases g <;> simp [argOrigin, origin, Alias.org] at hm
          | _ => simp [argOrigin, origin, Org.cls] at hm
        | bare g =>
          cases b with
          | cls cb =>
            refine soundAt_h _ _ (fun v hv => ?_) (fun k hk => by simp [tgType] at hk)
            cases g <;> simp [argOrigin, origin, Alias.org, Org.cls] at hm <;> subst hm <;>
              simpa [tg, Alias.cls] using hv
          | bare g' =>
            by_cases hg : g = g'
            · subst hg; exact soundAt_h _ _ (fun _ hv => hv) (fun _ hk => hk)
            · exfalso; cases g <;> cases g' <;> simp_all [argOrigin, origin, Alias.org]
          | tupleFix bs =>
            exfalso
            have hroot := every_root pO _ ho
            cases bs with
            | nil =>
              cases hfix : cfg.argsFix with
              | false => have := H.empty hfix; rw [this] at hroot; cases hroot
              | true =>
                cases g <;> simp [argOrigin, origin, Alias.org, argArgs, pyArgs, subscripted, hfix] at hm
            | cons _ _ => cases g <;> simp [argOrigin, origin, Alias.org, argArgs, pyArgs] at hm
          | literal _ => cases g <;> simp [argOrigin, origin, Alias.org] at hm
          | listOf _ => cases g <;> simp [argOrigin, origin, Alias.org, argArgs, pyArgs] at hm
          | setOf _ => cases g <;> simp [argOrigin, origin, Alias.org, argArgs, pyArgs] at hm
          | dictOf _ _ => cases g <;> simp [argOrigin, origin, Alias.org, argArgs, pyArgs] at hm
          | tupleVar _ => cases g <;> simp [argOrigin, origin, Alias.org, argArgs, pyArgs] at hm
          | typeOf _ => cases g <;> simp [argOrigin, origin, Alias.org, argArgs, pyArgs] at hm
          | callableOf ps _ =>
            cases g <;> cases ps <;> simp [argOrigin, origin, Alias.org, argArgs, pyArgs] at hm
          | seqOf _ => cases g <;> simp [argOrigin, origin, Alias.org, argArgs, pyArgs] at hm
          | mapOf _ _ => cases g <;> simp [argOrigin, origin, Alias.org, argArgs, pyArgs] at hm
          | _ => simp [argOrigin, origin] at hm
        | listOf a =>
          cases b with
          | cls cb =>
            simp [argOrigin, origin, Org.cls] at hm
            subst hm
            exact soundAt_h _ _ (fun v hv => tg_origin_cls _ _ _ v rfl rfl hv) (fun k hk => by simp [tgType] at hk)
          | bare g =>
            refine soundAt_h _ _ (fun v hv => ?_) (fun k hk => by simp [tgType] at hk)
            cases g <;> cases hfix : cfg.argsFix <;>
              simp [argOrigin, origin, Alias.org, argArgs, pyArgs, Org.ordered, subscripted, hfix, allL, anyL] at hm
            simpa [tg, Org.cls, Alias.cls] using tg_origin_cls _ _ _ v rfl rfl hv
          | listOf b =>
            have hr : rec (.h a) (.h b) = some true := by
              cases hfix : cfg.argsFix <;>
                simp [argOrigin, origin, argArgs, pyArgs, Org.ordered, hfix] at hm
              · exact single_sub rec _ _ hm
              · exact (allZip_cons _ _ _ _ _ hm).1
            simp only [Arg.every, every, Bool.and_eq_true] at hh ho
            have hs := hrec (.h a) (.h b) hh.2 ho.2 hr
            refine soundAt_h _ _ (fun v hv => ?_) (fun k hk => by simp [tgType] at hk)
            cases v <;> simp only [tg] at hv ⊢ <;> first | exact first_sound _ _ hs _ hv | cases hv
          | _ => simp [argOrigin, origin] at hm
        | setOf a =>
          cases b with
          | cls cb =>
            simp [argOrigin, origin, Org.cls] at hm
            subst hm
            exact soundAt_h _ _ (fun v hv => tg_origin_cls _ _ _ v rfl rfl hv) (fun k hk => by simp [tgType] at hk)
          | bare g =>
            refine soundAt_h _ _ (fun v hv => ?_) (fun k hk => by simp [tgType] at hk)
            cases g <;> cases hfix : cfg.argsFix <;>
              simp [argOrigin, origin, Alias.org, argArgs, pyArgs, Org.ordered, subscripted, hfix, allL, anyL] at hm
            simpa [tg, Org.cls, Alias.cls] using tg_origin_cls _ _ _ v rfl rfl hv
          | setOf b =>
            have hr : rec (.h a) (.h b) = some true := by
              cases hfix : cfg.argsFix <;>
                simp [argOrigin, origin, argArgs, pyArgs, Org.ordered, hfix] at hm
              · exact single_sub rec _ _ hm
              · exact (allZip_cons _ _ _ _ _ hm).1
            simp only [Arg.every, every, Bool.and_eq_true] at hh ho
            have hs := hrec (.h a) (.h b) hh.2 ho.2 hr
            refine soundAt_h _ _ (fun v hv => ?_) (fun k hk => by simp [tgType] at hk)
            cases v <;> simp only [tg] at hv ⊢ <;> first | exact first_sound _ _ hs _ hv | cases hv
          | _ => simp [argOrigin, origin] at hm
        | typeOf a =>
          cases b with
          | cls cb =>
            simp [argOrigin, origin, Org.cls] at hm
            subst hm
            exact soundAt_h _ _ (fun v hv => tg_origin_cls _ _ _ v rfl rfl hv) (fun k hk => by simp [tgType] at hk)
          | bare g =>
            refine soundAt_h _ _ (fun v hv => ?_) (fun k hk => by simp [tgType] at hk)
            cases g <;> cases hfix : cfg.argsFix <;>
              simp [argOrigin, origin, Alias.org, argArgs, pyArgs, Org.ordered, subscripted, hfix, allL, anyL] at hm
            simpa [tg, Org.cls, Alias.cls] using tg_origin_cls _ _ _ v rfl rfl hv
          | typeOf b =>
            have hr : rec (.h a) (.h b) = some true := by
              cases hfix : cfg.argsFix <;>
                simp [argOrigin, origin, argArgs, pyArgs, Org.ordered, hfix] at hm
              · exact single_sub rec _ _ hm
              · exact (allZip_cons _ _ _ _ _ hm).1
            simp only [Arg.every, every, Bool.and_eq_true] at hh ho
            have hs := hrec (.h a) (.h b) hh.2 ho.2 hr
            refine soundAt_h _ _ (fun v hv => ?_) (fun k hk => by simp [tgType] at hk)
            cases v <;> simp only [tg] at hv ⊢ <;> first | exact hs.2.1 _ hv | cases hv
          | _ => simp [argOrigin, origin] at hm
        | seqOf a =>
          cases b with
          | cls cb =>
            simp [argOrigin, origin, Org.cls] at hm
            subst hm
            exact soundAt_h _ _ (fun v hv => tg_origin_cls _ _ _ v rfl rfl hv) (fun k hk => by simp [tgType] at hk)
          | bare g =>
            refine soundAt_h _ _ (fun v hv => ?_) (fun k hk => by simp [tgType] at hk)
            cases g <;> cases hfix : cfg.argsFix <;>
              simp [argOrigin, origin, Alias.org, argArgs, pyArgs, Org.ordered, subscripted, hfix, allL, anyL] at hm
            simpa [tg, Org.cls, Alias.cls] using tg_origin_cls _ _ _ v rfl rfl hv
          | seqOf b =>
            have hr : rec (.h a) (.h b) = some true := by
              cases hfix : cfg.argsFix <;>
                simp [argOrigin, origin, argArgs, pyArgs, Org.ordered, hfix] at hm
              · exact single_sub rec _ _ hm
              · exact (allZip_cons _ _ _ _ _ hm).1
            simp only [Arg.every, every, Bool.and_eq_true] at hh ho
            have hs := hrec (.h a) (.h b) hh.2 ho.2 hr
            refine soundAt_h _ _ (fun v hv => ?_) (fun k hk => by simp [tgType] at hk)
            simp only [tg] at hv ⊢
            cases hsf : seqFirst v with
            | none => simp [hsf] at hv
            | some fx =>
              cases fx with
              | none => simp
              | some x => simp only [hsf] at hv ⊢; exact hs.1 x hv
          | _ => simp [argOrigin, origin] at hm
        | mapOf ka va =>
          cases b with
          | cls cb =>
            simp [argOrigin, origin, Org.cls] at hm
            subst hm
            exact soundAt_h _ _ (fun v hv => tg_origin_cls _ _ _ v rfl rfl hv) (fun k hk => by simp [tgType] at hk)
          | bare g =>
            refine soundAt_h _ _ (fun v hv => ?_) (fun k hk => by simp [tgType] at hk)
            cases g <;> cases hfix : cfg.argsFix <;>
              simp [argOrigin, origin, Alias.org, argArgs, pyArgs, Org.ordered, subscripted, hfix, allL, anyL] at hm
            simpa [tg, Org.cls, Alias.cls] using tg_origin_cls _ _ _ v rfl rfl hv
          | mapOf kb vb =>
            have hroot := every_root pO _ ho
            cases hfix : cfg.argsFix with
            | false => have := H.unordered hfix kb vb; rw [this] at hroot; cases hroot
            | true =>
              simp [argOrigin, origin, argArgs, pyArgs, Org.ordered, hfix] at hm
              simp only [Arg.every, every, Bool.and_eq_true] at hh ho
              obtain ⟨h1, h2⟩ := allZip_cons _ _ _ _ _ hm
              obtain ⟨h2, _⟩ := allZip_cons _ _ _ _ _ h2
              have hs1 := hrec (.h ka) (.h kb) hh.1.2 ho.1.2 h1
              have hs2 := hrec (.h va) (.h vb) hh.2 ho.2 h2
              refine soundAt_h _ _ (fun v hv => ?_) (fun k hk => by simp [tgType] at hk)
              cases v <;> simp only [tg, Bool.and_eq_true] at hv ⊢ <;>
                first | exact ⟨first_sound _ _ hs1 _ hv.1, first_sound _ _ hs2 _ hv.2⟩ | cases hv
          | _ => simp [argOrigin, origin] at hm
        | dictOf ka va =>
          cases b with
          | cls cb =>
            simp [argOrigin, origin, Org.cls] at hm
            subst hm
            exact soundAt_h _ _ (fun v hv => tg_origin_cls _ _ _ v rfl rfl hv) (fun k hk => by simp [tgType] at hk)
          | bare g =>
            refine soundAt_h _ _ (fun v hv => ?_) (fun k hk => by simp [tgType] at hk)
            cases g <;> cases hfix : cfg.argsFix <;>
              simp [argOrigin, origin, Alias.org, argArgs, pyArgs, Org.ordered, subscripted, hfix, allL, anyL] at hm
            all_goals simpa [tg, Org.cls, Alias.cls] using tg_origin_cls _ _ _ v rfl rfl hv
          | dictOf kb vb =>
            have hz : allZip rec [.h ka, .h va] [.h kb, .h vb] = some true := by
              cases hfix : cfg.argsFix <;>
                simpa [argOrigin, origin, argArgs, pyArgs, Org.ordered, hfix] using hm
            simp only [Arg.every, every, Bool.and_eq_true] at hh ho
            obtain ⟨h1, h2⟩ := allZip_cons _ _ _ _ _ hz
            obtain ⟨h2, _⟩ := allZip_cons _ _ _ _ _ h2
            have hs1 := hrec (.h ka) (.h kb) hh.1.2 ho.1.2 h1
            have hs2 := hrec (.h va) (.h vb) hh.2 ho.2 h2
            refine soundAt_h _ _ (fun v hv => ?_) (fun k hk => by simp [tgType] at hk)
            cases v <;> simp only [tg, Bool.and_eq_true] at hv ⊢ <;>
              first | exact ⟨first_sound _ _ hs1 _ hv.1, first_sound _ _ hs2 _ hv.2⟩ | cases hv
          | _ => simp [argOrigin, origin] at hm
        | tupleFix as =>
          cases b with
          | cls cb =>
            simp [argOrigin, origin, Org.cls] at hm
            subst hm
            exact soundAt_h _ _ (fun v hv => tg_origin_cls _ _ _ v rfl rfl hv) (fun k hk => by simp [tgType] at hk)
          | bare g =>
            refine soundAt_h _ _ (fun v hv => ?_) (fun k hk => by simp [tgType] at hk)
            cases g <;> cases as <;> cases hfix : cfg.argsFix <;>
              simp [argOrigin, origin, Alias.org, argArgs, pyArgs, Org.ordered, subscripted, hfix, allL, anyL] at hm
            all_goals simpa [tg, Org.cls, Alias.cls] using tg_origin_cls _ _ _ v rfl rfl hv
          | tupleFix bs =>
            simp only [Arg.every, every, Bool.and_eq_true] at hh
            have hroot := every_root pO _ ho
            simp only [Arg.every, every, Bool.and_eq_true] at ho
            refine soundAt_h _ _ (fun v hv => ?_) (fun k hk => by simp [tgType] at hk)
            cases bs with
            | nil =>
              cases hfix : cfg.argsFix with
              | false => rw [H.empty hfix] at hroot; cases hroot
              | true =>
                cases as with
                | nil => exact hv
                | cons _ _ =>
                  simp [argOrigin, origin, argArgs, pyArgs, Org.ordered, subscripted, hfix] at hm
            | cons b0 bs' =>
              have hz : (b0 :: bs').length = as.length ∧
                  allZip rec (as.map .h) ((b0 :: bs').map .h) = some true := by
                cases hfix : cfg.argsFix <;>
                  simp [argOrigin, origin, argArgs, pyArgs, Org.ordered, hfix] at hm <;>
                  (split at hm
                   · simp at hm
                   · split at hm
                     · rename_i hl; exact ⟨by simpa using hl, hm⟩
                     · simp at hm)
              cases v <;> simp only [tg] at hv ⊢ <;> first | cases hv | skip
              exact zip_sound pH pO rec hrec as (b0 :: bs') hz.2 hz.1 hh.2 ho.2 _ hv
          | tupleVar b =>
            simp only [Arg.every, every, Bool.and_eq_true] at hh ho
            refine soundAt_h _ _ (fun v hv => ?_) (fun k hk => by simp [tgType] at hk)
            have hz : as.length = 2 ∧ allZip rec (as.map .h) [.h b, .ell] = some true := by
              cases hfix : cfg.argsFix <;>
                simp [argOrigin, origin, argArgs, pyArgs, Org.ordered, hfix] at hm <;>
                (split at hm
                 · simp at hm
                 · split at hm
                   · rename_i hl; exact ⟨by simpa using hl.symm, hm⟩
                   · simp at hm)
            match as, hz.1, hz.2, hh with
            | [a0, a1], _, hz, hh =>
              simp only [List.map_cons, List.map_nil] at hz
              obtain ⟨_, h2⟩ := allZip_cons _ _ _ _ _ hz
              obtain ⟨h2, _⟩ := allZip_cons _ _ _ _ _ h2
              simp only [everyL, Bool.and_eq_true] at hh
              have hs := hrec (.h a1) .ell hh.2.2.1 rfl h2
              cases v <;> simp only [tg] at hv <;> first | cases hv | skip
              rename_i xs
              match xs, hv with
              | [x0, x1], hv =>
                simp only [tgZip, Bool.and_eq_true] at hv
                have := hs.1 x1 hv.2.1
                simp [tgA] at this
              | [], hv => simp [tgZip] at hv
              | [_], hv => simp [tgZip] at hv
              | _ :: _ :: _ :: _, hv => simp [tgZip] at hv
          | _ => simp [argOrigin, origin] at hm
        | tupleVar a =>
          cases b with
          | cls cb =>
            simp [argOrigin, origin, Org.cls] at hm
            subst hm
            exact soundAt_h _ _ (fun v hv => tg_origin_cls _ _ _ v rfl rfl hv) (fun k hk => by simp [tgType] at hk)
          | bare g =>
            refine soundAt_h _ _ (fun v hv => ?_) (fun k hk => by simp [tgType] at hk)
            cases g <;> cases hfix : cfg.argsFix <;>
              simp [argOrigin, origin, Alias.org, argArgs, pyArgs, Org.ordered, subscripted, hfix, allL, anyL] at hm
            all_goals simpa [tg, Org.cls, Alias.cls] using tg_origin_cls _ _ _ v rfl rfl hv
          | tupleFix bs =>
            have hroot := every_root pO _ ho
            exfalso
            cases bs with
            | nil =>
              cases hfix : cfg.argsFix with
              | false => rw [H.empty hfix] at hroot; cases hroot
              | true => simp [argOrigin, origin, argArgs, pyArgs, Org.ordered, subscripted, hfix] at hm
            | cons b0 bs' =>
              have hz : (b0 :: bs').length = 2 ∧
                  allZip rec [.h a, .ell] ((b0 :: bs').map .h) = some true := by
                cases hfix : cfg.argsFix <;>
                  simp [argOrigin, origin, argArgs, pyArgs, Org.ordered, hfix] at hm <;>
                  (split at hm
                   · rename_i hl; exact ⟨by simpa using hl, hm⟩
                   · simp at hm)
              match bs', hz.1, hz.2, ho with
              | [b1], _, hz, ho =>
                simp only [List.map_cons, List.map_nil] at hz
                obtain ⟨_, h2⟩ := allZip_cons _ _ _ _ _ hz
                obtain ⟨h2, _⟩ := allZip_cons _ _ _ _ _ h2
                simp only [Arg.every, every, everyL, Bool.and_eq_true] at ho
                have hs := hrec .ell (.h b1) rfl ho.2.2.1 h2
                have := hs.2.2.1 rfl
                cases this
          | tupleVar b =>
            have hz : allZip rec [.h a, .ell] [.h b, .ell] = some true := by
              cases hfix : cfg.argsFix <;>
                simpa [argOrigin, origin, argArgs, pyArgs, Org.ordered, hfix] using hm
            obtain ⟨h1, _⟩ := allZip_cons _ _ _ _ _ hz
            simp only [Arg.every, every, Bool.and_eq_true] at hh ho
            have hs := hrec (.h a) (.h b) hh.2 ho.2 h1
            refine soundAt_h _ _ (fun v hv => ?_) (fun k hk => by simp [tgType] at hk)
            cases v <;> simp only [tg] at hv ⊢ <;> first | exact first_sound _ _ hs _ hv | cases hv
          | _ => simp [argOrigin, origin] at hm
        | callableOf ps r =>
          cases b with
          | cls cb =>
            simp [argOrigin, origin, Org.cls] at hm
            subst hm
            exact soundAt_h _ _ (fun v hv => tg_origin_cls _ _ _ v rfl rfl hv) (fun k hk => by simp [tgType] at hk)
          | bare g =>
            refine soundAt_h _ _ (fun v hv => ?_) (fun k hk => by simp [tgType] at hk)
            cases g <;> cases ps <;> cases hfix : cfg.argsFix <;>
              simp [argOrigin, origin, Alias.org, argArgs, pyArgs, Org.ordered, subscripted, hfix, allL, anyL] at hm
            all_goals simpa [tg, Org.cls, Alias.cls] using tg_origin_cls _ _ _ v rfl rfl hv
          | callableOf qs r' =>
            refine soundAt_h _ _ (fun v hv => ?_) (fun k hk => by simp [tgType] at hk)
            cases ps <;> cases qs <;> cases hfix : cfg.argsFix <;>
              simp [argOrigin, origin, argArgs, pyArgs, Org.ordered, hfix] at hm
            all_goals obtain ⟨h1, _⟩ := allZip_cons _ _ _ _ _ hm
            all_goals first
              | (simp only [tg] at hv ⊢; simpa using hv)
              | (have hs := hrec .ell (.prm _) rfl rfl h1
                 have := hs.2.2.1 rfl
                 cases this)
              | (have hs := hrec (.prm _) .ell rfl rfl h1
                 have := hs.2.2.2 _ rfl
                 cases this)
              | (have hs := hrec (.prm _) (.prm _) rfl rfl h1
                 have := hs.2.2.2 _ rfl
                 cases this
                 exact hv)
          | _ => simp [argOrigin, origin] at hm

/-! ## soundness for every fuel -/

/-- soundness w.r.t. typeguard admission, for every fuel -/
theorem ms_sound_tg (cfg : Cfg) (pH pO : Hint → Bool) (H : SoundHyp cfg pH pO) :
    ∀ fuel x y, Arg.every pH x = true → Arg.every pO y = true →
      ms cfg fuel x y = some true → SoundAt x y := by
  intro fuel
  induction fuel with
  | zero => intro x y _ _ hm; simp [ms] at hm
  | succ n ih =>
    intro x y hx hy hm
    simp only [ms] at hm
    exact soundAt_strip x y
      (body_sound cfg pH pO H (ms cfg n) ih x.strip y.strip (Arg.every_strip pH x hx)
        (Arg.every_strip pO y hy) hm)

/-! literal leaves -/

theorem litAdmits_mem (ls : List Lit) (v : V) (h : litAdmits ls v = true) :
    ∃ x, v.toLit = some x ∧ x ∈ ls := by
  unfold litAdmits at h
  split at h
  · cases h
  · rename_i x hx
    split at h
    · rename_i l hl
      have : l = x := by simpa using h
      subst this
      exact ⟨l, hx, List.mem_of_find?_eq_some hl⟩
    · cases h

theorem litAdmits_of_mem (ls : List Lit) (v : V) (x : Lit) (hx : v.toLit = some x) (hm : x ∈ ls)
    (hc : ∀ a ∈ ls, ∀ b ∈ ls, a.pyEq b = true → a = b) (hr : ∀ a : Lit, a.pyEq a = true) :
    litAdmits ls v = true := by
  unfold litAdmits
  rw [hx]
  simp only
  split
  · rename_i l hl
    have hl1 := List.mem_of_find?_eq_some hl
    have hl2 := List.find?_some hl
    have := hc l hl1 x hm hl2
    simp [this]
  · rename_i hn
    have := List.find?_eq_none.mp hn x hm
    simp [hr x] at this

theorem Lit.pyEq_refl (a : Lit) : a.pyEq a = true := by
  cases a <;> simp [Lit.pyEq]

theorem Lit.eq_imp_pyEq (a b : Lit) (h : a = b) : a.pyEq b = true := by subst h; exact Lit.pyEq_refl a

theorem litLeq_imp_pyEq (cfg : Cfg) (a b : Lit) (h : litLeq cfg a b = true) : a.pyEq b = true := by
  unfold litLeq at h
  split at h
  · exact Lit.eq_imp_pyEq a b (by simpa using h)
  · exact h

theorem litLeq_refl (cfg : Cfg) (a : Lit) : litLeq cfg a a = true := by
  unfold litLeq; split <;> simp [Lit.pyEq_refl]

/-- the hypotheses under which one comparison step is sound -/
theorem soundHyp (cfg : Cfg) (S : Lit → Bool)
    (hS : ∀ a b, S a = true → S b = true → litLeq cfg a b = true → a = b) :
    SoundHyp cfg (litsIn S) (okOther cfg S) where
  lit := by
    intro ls ms' h1 h2 hall v hv
    simp only [okOther, litsIn, litClean, notEmptyTuple, Bool.and_eq_true, List.all_eq_true] at h1 h2
    obtain ⟨x, hx, hxl⟩ := litAdmits_mem ls v hv
    simp only [List.all_eq_true, List.any_eq_true] at hall
    obtain ⟨m, hm, hle⟩ := hall x hxl
    have : x = m := hS x m (h1 x hxl) (h2.1.1 m hm) hle
    subst this
    refine litAdmits_of_mem ms' v x hx hm ?_ Lit.pyEq_refl
    intro a ha b hb hab
    have := h2.1.2 a ha b hb
    simp [hab] at this
    exact this
  empty := by
    intro he
    simp [okOther, notEmptyTuple, he]
  unordered := by
    intro he k v
    simp [okOther, notMapOf, he]

theorem sound_tg (cfg : Cfg) (S : Lit → Bool)
    (hS : ∀ a b, S a = true → S b = true → litLeq cfg a b = true → a = b)
    (fuel : Nat) (h o : Hint) (hh : every (litsIn S) h = true) (ho : every (okOther cfg S) o = true)
    (hm : ms cfg fuel (.h h) (.h o) = some true) (v : V) (hv : tg h v = true) : tg o v = true :=
  (ms_sound_tg cfg _ _ (soundHyp cfg S hS) fuel (.h h) (.h o) hh ho hm).1 v hv

/-! ## `isinstance` first -/

mutual
theorem isinst_true_tg : ∀ (old : Bool) (h : Hint) (v : V), isinst old h v = some true → tg h v = true
  | _, .cls c, v, e => by
    simp only [isinst, Option.some.injEq] at e
    simp [tg, tgCls, e]
  | _, .bare g, v, e => by
    simp only [isinst, Option.some.injEq] at e
    simp [tg, tgCls, e]
  | _, .any, _, _ => by simp [tg]
  | _, .unionNew hs, v, e => by simp only [isinst] at e; simp only [tg]; exact isinstAny_true_tg _ hs v e
  | _, .unionOld hs, v, e => by simp only [isinst] at e; simp only [tg]; exact isinstAny_true_tg _ hs v e
  | _, .noneVal, _, e | _, .literal _, _, e | _, .annotated _, _, e | _, .listOf _, _, e | _, .setOf _, _, e
  | _, .dictOf _ _, _, e | _, .tupleFix _, _, e | _, .tupleVar _, _, e | _, .typeOf _, _, e
  | _, .callableOf _ _, _, e | _, .seqOf _, _, e | _, .mapOf _ _, _, e => by simp [isinst] at e
theorem isinstAny_true_tg : ∀ (old : Bool) (hs : List Hint) (v : V),
    isinstAny old hs v = some true → tgAny hs v = true
  | _, [], _, e => by simp [isinstAny] at e
  | old, h :: hs, v, e => by
    simp only [isinstAny] at e
    simp only [tgAny, Bool.or_eq_true]
    split at e
    · cases e
    · rename_i e1; exact Or.inl (isinst_true_tg old h v e1)
    · exact Or.inr (isinstAny_true_tg old hs v e)
end

theorem admits_imp_tg (cfg : Cfg) (h : Hint) (v : V) (e : admits cfg h v = true) : tg h v = true := by
  unfold admits at e
  split at e
  · exact e
  · split at e
    · subst e; rename_i e1; exact isinst_true_tg false h v e1
    · exact e

theorem tgCls_plain (c : Cls) (v : V) (hp : (plainValue v || (c != .float && c != .set)) = true) :
    tgCls c v = isinstCls c v := by
  simp only [tgCls]
  cases hc : isinstCls c v
  · simp only [plainValue, Bool.or_eq_true, Bool.and_eq_true, bne_iff_ne, ne_eq] at hp
    rcases hp with hp | hp
    · simp [hp.1.1, hp.1.2, hp.2]
    · simp [hp.1, hp.2]
  · simp

mutual
theorem isinst_agrees : ∀ (old : Bool) (h : Hint) (v : V) (b : Bool), agreesAt old v h = true →
    isinst old h v = some b → tg h v = b
  | _, .cls c, v, b, hp, e => by
    simp only [isinst, Option.some.injEq] at e
    simp only [tg]
    rw [tgCls_plain c v (by simpa [agreesAt] using hp)]; exact e
  | _, .bare g, v, b, hp, e => by
    simp only [isinst, Option.some.injEq] at e
    simp only [tg]
    rw [tgCls_plain g.cls v (by
      simp only [agreesAt, Bool.or_eq_true] at hp ⊢
      rcases hp with hp | hp
      · exact Or.inl hp
      · right; cases g <;> simp_all [Alias.cls])]; exact e
  | old, .any, v, b, hp, e => by
    cases old <;> simp [isinst, agreesAt] at e hp
  | _, .unionNew hs, v, b, hp, e => by
    simp only [isinst] at e; simp only [tg]
    exact isinstAny_agrees false hs v b (by simpa [agreesAt] using hp) e
  | _, .unionOld hs, v, b, hp, e => by
    simp only [isinst] at e; simp only [tg]
    exact isinstAny_agrees true hs v b (by simpa [agreesAt] using hp) e
  | _, .noneVal, _, _, _, e | _, .literal _, _, _, _, e | _, .annotated _, _, _, _, e | _, .listOf _, _, _, _, e
  | _, .setOf _, _, _, _, e | _, .dictOf _ _, _, _, _, e | _, .tupleFix _, _, _, _, e | _, .tupleVar _, _, _, _, e
  | _, .typeOf _, _, _, _, e | _, .callableOf _ _, _, _, _, e | _, .seqOf _, _, _, _, e
  | _, .mapOf _ _, _, _, _, e => by simp [isinst] at e
theorem isinstAny_agrees : ∀ (old : Bool) (hs : List Hint) (v : V) (b : Bool),
    agreesAtL old v hs = true → isinstAny old hs v = some b → tgAny hs v = b
  | _, [], _, b, _, e => by simp only [isinstAny, Option.some.injEq] at e; simp [tgAny, ← e]
  | old, h :: hs, v, b, hp, e => by
    simp only [isinstAny] at e
    simp only [agreesAtL, Bool.and_eq_true] at hp
    simp only [tgAny]
    split at e
    · cases e
    · rename_i e1
      simp only [Option.some.injEq] at e
      rw [isinst_agrees old h v true hp.1 e1, ← e]; rfl
    · rename_i e1
      rw [isinst_agrees old h v false hp.1 e1, isinstAny_agrees old hs v b hp.2 e]; rfl
end

/-- where `valid_value` coincides with typeguard -/
theorem admits_eq_tg (cfg : Cfg) (h : Hint) (v : V)
    (hp : (cfg.tgOnly || agreesAt false v h) = true) : admits cfg h v = tg h v := by
  unfold admits
  split
  · rfl
  · rename_i hc
    split
    · rename_i b e
      have : agreesAt false v h = true := by
        simp only [Bool.or_eq_true] at hp
        rcases hp with hp | hp
        · exact absurd hp hc
        · exact hp
      exact (isinst_agrees false h v b this e).symm
    · rfl

/-! ## termination -/

theorem size_pos : ∀ h : Hint, 0 < size h := by
  intro h; cases h <;> simp [size] <;> omega

theorem Arg.size_pos (x : Arg) : 0 < x.size := by
  cases x <;> simp [Arg.size, PwVerif.Hint.size_pos]

theorem sizeL_mem (hs : List Hint) : ∀ m ∈ hs, size m ≤ size.sizeL hs := by
  induction hs with
  | nil => simp
  | cons y ys ih =>
    intro m hm
    simp only [size.sizeL]
    rcases List.mem_cons.mp hm with rfl | hm'
    · omega
    · have := ih m hm'; omega

theorem strip_size : ∀ h : Hint, size (strip h) ≤ size h
  | .annotated h => by rw [strip]; have := strip_size h; simp [size]; omega
  | .cls _ | .noneVal | .unionNew _ | .unionOld _ | .literal _ | .listOf _
  | .setOf _ | .dictOf _ _ | .tupleFix _ | .tupleVar _ | .typeOf _
  | .callableOf _ _ | .any | .bare _ | .seqOf _ | .mapOf _ _ => by simp [strip]

theorem Arg.strip_size (x : Arg) : x.strip.size ≤ x.size := by
  cases x <;> simp [Arg.strip, Arg.size, PwVerif.Hint.strip_size]

theorem strip_not_annotated : ∀ (h a : Hint), strip h ≠ .annotated a
  | .annotated h, a => by rw [strip]; exact strip_not_annotated h a
  | .cls _, _ | .noneVal, _ | .unionNew _, _ | .unionOld _, _ | .literal _, _ | .listOf _, _
  | .setOf _, _ | .dictOf _ _, _ | .tupleFix _, _ | .tupleVar _, _ | .typeOf _, _
  | .callableOf _ _, _ | .any, _ | .bare _, _ | .seqOf _, _ | .mapOf _ _, _ => by simp [strip]

/-- the comparison always comes back: either old unions are expanded or there are none -/
def Term (cfg : Cfg) (x : Arg) : Prop := cfg.unionOldExpanded = true ∨ x.every notOldUnion = true

theorem Term.strip {cfg : Cfg} {x : Arg} (h : Term cfg x) : Term cfg x.strip := by
  rcases h with h | h
  · exact Or.inl h
  · exact Or.inr (Arg.every_strip _ x h)

theorem toTuple_term (cfg : Cfg) (x : Arg) (h : Term cfg x) : ∀ m ∈ toTuple cfg x, Term cfg m := by
  intro m hm
  rcases h with h | h
  · exact Or.inl h
  · exact Or.inr (toTuple_every cfg _ x h m hm)

theorem toTuple_size (cfg : Cfg) (x : Arg) (h : Term cfg x) (hu : isUnion x = true) :
    ∀ m ∈ toTuple cfg x, m.size < x.size := by
  intro m hm
  cases x with
  | ell => simp [isUnion] at hu
  | prm _ => simp [isUnion] at hu
  | h a =>
    cases a <;> simp [isUnion] at hu
    · simp only [toTuple, List.mem_map] at hm
      obtain ⟨z, hz, rfl⟩ := hm
      have := sizeL_mem _ z hz
      simp [Arg.size, size]; omega
    · rename_i hs
      rcases h with h | h
      · simp only [toTuple, h, if_true, List.mem_map] at hm
        obtain ⟨z, hz, rfl⟩ := hm
        have := sizeL_mem _ z hz
        simp [Arg.size, size]; omega
      · simp [Arg.every, every, notOldUnion] at h

theorem argArgs_size (x : Arg) : ∀ m ∈ argArgs x, m.size < x.size := by
  intro m hm
  cases x with
  | ell => simp [argArgs] at hm
  | prm _ => simp [argArgs] at hm
  | h a =>
    cases a with
    | listOf a => simp [argArgs, pyArgs] at hm; subst hm; simp [Arg.size, size]
    | setOf a => simp [argArgs, pyArgs] at hm; subst hm; simp [Arg.size, size]
    | typeOf a => simp [argArgs, pyArgs] at hm; subst hm; simp [Arg.size, size]
    | dictOf k v =>
      simp [argArgs, pyArgs] at hm
      rcases hm with rfl | rfl <;> simp [Arg.size, size] <;> omega
    | tupleFix as =>
      simp [argArgs, pyArgs] at hm
      obtain ⟨z, hz, rfl⟩ := hm
      have := sizeL_mem _ z hz
      simp [Arg.size, size]; omega
    | tupleVar a =>
      simp [argArgs, pyArgs] at hm
      rcases hm with rfl | rfl <;> simp [Arg.size, size] <;> (have := size_pos a; omega)
    | callableOf ps r =>
      cases ps <;> simp [argArgs, pyArgs] at hm <;>
        rcases hm with rfl | rfl <;> simp [Arg.size, size] <;> (have := size_pos r; omega)
    | seqOf a =>
      simp [argArgs, pyArgs] at hm; subst hm; simp [Arg.size, size]
    | mapOf k v =>
      simp [argArgs, pyArgs] at hm
      rcases hm with rfl | rfl <;> simp [Arg.size, size] <;> omega
    | _ => simp [argArgs, pyArgs] at hm

theorem argArgs_term (cfg : Cfg) (x : Arg) (h : Term cfg x) : ∀ m ∈ argArgs x, Term cfg m := by
  intro m hm
  rcases h with h | h
  · exact Or.inl h
  · refine Or.inr ?_
    cases x with
    | ell => simp [argArgs] at hm
    | prm _ => simp [argArgs] at hm
    | h a =>
      cases a with
      | listOf a =>
        simp [argArgs, pyArgs] at hm; subst hm
        simp only [Arg.every, every, Bool.and_eq_true] at h ⊢; exact h.2
      | setOf a =>
        simp [argArgs, pyArgs] at hm; subst hm
        simp only [Arg.every, every, Bool.and_eq_true] at h ⊢; exact h.2
      | typeOf a =>
        simp [argArgs, pyArgs] at hm; subst hm
        simp only [Arg.every, every, Bool.and_eq_true] at h ⊢; exact h.2
      | dictOf k v =>
        simp [argArgs, pyArgs] at hm
        simp only [Arg.every, every, Bool.and_eq_true] at h
        rcases hm with rfl | rfl
        · exact h.1.2
        · exact h.2
      | tupleFix as =>
        simp [argArgs, pyArgs] at hm
        obtain ⟨z, hz, rfl⟩ := hm
        simp only [Arg.every, every, Bool.and_eq_true] at h ⊢
        exact everyL_mem _ _ h.2 z hz
      | tupleVar a =>
        simp [argArgs, pyArgs] at hm
        simp only [Arg.every, every, Bool.and_eq_true] at h
        rcases hm with rfl | rfl
        · exact h.2
        · rfl
      | callableOf ps r =>
        simp only [Arg.every, every, Bool.and_eq_true] at h
        cases ps <;> simp [argArgs, pyArgs] at hm <;>
          rcases hm with rfl | rfl <;> first | rfl | exact h.2
      | seqOf a =>
        simp [argArgs, pyArgs] at hm; subst hm
        simp only [Arg.every, every, Bool.and_eq_true] at h ⊢; exact h.2
      | mapOf k v =>
        simp [argArgs, pyArgs] at hm
        simp only [Arg.every, every, Bool.and_eq_true] at h
        rcases hm with rfl | rfl
        · exact h.1.2
        · exact h.2
      | _ => simp [argArgs, pyArgs] at hm

theorem body_total (cfg : Cfg) (rec : Arg → Arg → Option Bool) (h o : Arg)
    (th : Term cfg h) (to : Term cfg o)
    (hrec : ∀ x y, Term cfg x → Term cfg y → x.size + y.size < h.size + o.size → (rec x y).isSome) :
    (msBody cfg rec h o).isSome := by
  unfold msBody
  split
  · rename_i hu
    apply allL_isSome
    intro x hx
    apply anyL_isSome
    intro y hy
    refine hrec x y (toTuple_term cfg h th x hx) (toTuple_term cfg o to y hy) ?_
    cases huh : isUnion h <;> cases huo : isUnion o
    · simp [huh, huo] at hu
    · rw [toTuple_nonunion cfg h huh] at hx
      simp at hx; subst hx
      have := toTuple_size cfg o to huo y hy; omega
    · rw [toTuple_nonunion cfg o huo] at hy
      simp at hy; subst hy
      have := toTuple_size cfg h th huh x hx; omega
    · have := toTuple_size cfg o to huo y hy
      have := toTuple_size cfg h th huh x hx; omega
  · have key : ∀ x ∈ argArgs h, ∀ y ∈ argArgs o, (rec x y).isSome := by
      intro x hx y hy
      refine hrec x y (argArgs_term cfg h th x hx) (argArgs_term cfg o to y hy) ?_
      have := argArgs_size h x hx
      have := argArgs_size o y hy
      omega
    split
    · simp
    · split <;> simp
    · simp
    · split
      · simp
      · split
        · split <;> simp
        · simp only []
          split
          · simp
          · split
            · split
              · simp
              · split
                · exact allZip_isSome _ _ _ key
                · simp
            · split
              · split
                · simp
                · split
                  · exact allZip_isSome _ _ _ key
                  · simp
              · apply allL_isSome
                intro x hx
                apply anyL_isSome
                intro y hy
                exact key x hx y hy

theorem ms_total (cfg : Cfg) : ∀ n x y, Term cfg x → Term cfg y → x.size + y.size ≤ n →
    (ms cfg n x y).isSome := by
  intro n
  induction n with
  | zero => intro x y _ _ h; have := x.size_pos; omega
  | succ n ih =>
    intro x y tx ty hs
    simp only [ms]
    apply body_total cfg (ms cfg n) x.strip y.strip tx.strip ty.strip
    intro x' y' tx' ty' hlt
    apply ih x' y' tx' ty'
    have := x.strip_size; have := y.strip_size
    omega

/-! ## reflexivity -/

theorem allZip_refl {α} (f : α → α → Option Bool) (xs : List α) (h : ∀ x ∈ xs, f x x = some true) :
    allZip f xs xs = some true := by
  induction xs with
  | nil => rfl
  | cons x xs ih =>
    simp only [allZip]
    rw [h x (by simp)]
    exact ih (fun y hy => h y (by simp [hy]))

theorem allany_refl (rec : Arg → Arg → Option Bool) (xs : List Arg)
    (ht : ∀ x ∈ xs, ∀ y ∈ xs, (rec x y).isSome) (hr : ∀ x ∈ xs, rec x x = some true) :
    allL (fun x => anyL (fun y => rec x y) xs) xs = some true := by
  apply allL_of_all
  intro x hx
  exact anyL_of_mem _ xs (fun y hy => ht x hx y hy) x hx (hr x hx)

theorem body_refl (cfg : Cfg) (rec : Arg → Arg → Option Bool) (h : Arg) (th : Term cfg h)
    (hna : ∀ a, h ≠ .h (.annotated a))
    (htot : ∀ x y, Term cfg x → Term cfg y → x.size + y.size < h.size + h.size → (rec x y).isSome)
    (hrefl : ∀ x, Term cfg x → x.size < h.size → rec x x = some true) :
    msBody cfg rec h h = some true := by
  unfold msBody
  split
  · rename_i hu
    have hu : isUnion h = true := by simpa using hu
    apply allany_refl
    · intro x hx y hy
      have := toTuple_size cfg h th hu x hx
      have := toTuple_size cfg h th hu y hy
      exact htot x y (toTuple_term cfg h th x hx) (toTuple_term cfg h th y hy) (by omega)
    · intro x hx
      exact hrefl x (toTuple_term cfg h th x hx) (toTuple_size cfg h th hu x hx)
  · have ktot : ∀ x ∈ argArgs h, ∀ y ∈ argArgs h, (rec x y).isSome := by
      intro x hx y hy
      have := argArgs_size h x hx
      have := argArgs_size h y hy
      exact htot x y (argArgs_term cfg h th x hx) (argArgs_term cfg h th y hy) (by omega)
    have krefl : ∀ x ∈ argArgs h, rec x x = some true := by
      intro x hx
      exact hrefl x (argArgs_term cfg h th x hx) (argArgs_size h x hx)
    rename_i hu
    cases h with
    | ell => simp [argOrigin, leafLe]
    | prm p => simp [argOrigin, leafLe]
    | h a =>
      cases a with
      | cls c => simp [argOrigin, origin, leafLe, Cls.sub_refl]
      | noneVal => simp [argOrigin, origin, leafLe]
      | unionNew _ => simp [isUnion] at hu
      | unionOld _ => simp [isUnion] at hu
      | annotated a => exact absurd rfl (hna a)
      | literal ls =>
        simp only [argOrigin, origin, bne_self_eq_false, Bool.false_eq_true, if_false]
        split
        · rename_i hc; simp at hc
        · simp only [Option.some.injEq, List.all_eq_true, List.any_eq_true]
          intro l hl
          exact ⟨l, hl, litLeq_refl cfg l⟩
      | listOf a =>
        simp only [argOrigin, origin, bne_self_eq_false, Bool.false_eq_true, if_false, argArgs,
          pyArgs, Org.ordered]
        simp only [argArgs, pyArgs] at ktot krefl
        cases hfix : cfg.argsFix <;> simp
        · exact allany_refl rec _ ktot krefl
        · exact allZip_refl rec _ krefl
      | setOf a =>
        simp only [argOrigin, origin, bne_self_eq_false, Bool.false_eq_true, if_false, argArgs,
          pyArgs, Org.ordered]
        simp only [argArgs, pyArgs] at ktot krefl
        cases hfix : cfg.argsFix <;> simp
        · exact allany_refl rec _ ktot krefl
        · exact allZip_refl rec _ krefl
      | typeOf a =>
        simp only [argOrigin, origin, bne_self_eq_false, Bool.false_eq_true, if_false, argArgs,
          pyArgs, Org.ordered]
        simp only [argArgs, pyArgs] at ktot krefl
        cases hfix : cfg.argsFix <;> simp
        · exact allany_refl rec _ ktot krefl
        · exact allZip_refl rec _ krefl
      | seqOf a =>
        simp only [argOrigin, origin, bne_self_eq_false, Bool.false_eq_true, if_false, argArgs,
          pyArgs, Org.ordered]
        simp only [argArgs, pyArgs] at ktot krefl
        cases hfix : cfg.argsFix <;> simp
        · exact allany_refl rec _ ktot krefl
        · exact allZip_refl rec _ krefl
      | mapOf k v =>
        simp only [argOrigin, origin, bne_self_eq_false, Bool.false_eq_true, if_false, argArgs,
          pyArgs, Org.ordered]
        simp only [argArgs, pyArgs] at ktot krefl
        cases hfix : cfg.argsFix <;> simp
        · exact allany_refl rec _ ktot krefl
        · exact allZip_refl rec _ krefl
      | any => simp [argOrigin, origin, leafLe]
      | bare g =>
        cases g <;> cases hfix : cfg.argsFix <;>
          simp [argOrigin, origin, Alias.org, argArgs, pyArgs, Org.ordered, subscripted, allL]
      | dictOf k v =>
        simp only [argOrigin, origin, bne_self_eq_false, Bool.false_eq_true, if_false, argArgs,
          pyArgs, Org.ordered]
        simp only [argArgs, pyArgs] at krefl
        cases hfix : cfg.argsFix <;> simp <;> exact allZip_refl rec _ krefl
      | tupleVar a =>
        simp only [argOrigin, origin, bne_self_eq_false, Bool.false_eq_true, if_false, argArgs,
          pyArgs, Org.ordered]
        simp only [argArgs, pyArgs] at krefl
        cases hfix : cfg.argsFix <;> simp <;> exact allZip_refl rec _ krefl
      | tupleFix as =>
        simp only [argOrigin, origin, bne_self_eq_false, Bool.false_eq_true, if_false, argArgs,
          pyArgs, Org.ordered]
        simp only [argArgs, pyArgs] at krefl
        cases as with
        | nil => cases hfix : cfg.argsFix <;> simp [subscripted]
        | cons a0 as' =>
          cases hfix : cfg.argsFix <;> simp <;> exact allZip_refl rec _ (by simpa using krefl)
      | callableOf ps r =>
        simp only [argOrigin, origin, bne_self_eq_false, Bool.false_eq_true, if_false, argArgs,
          Org.ordered]
        simp only [argArgs] at krefl
        cases ps <;> cases hfix : cfg.argsFix <;> simp only [pyArgs] at krefl ⊢ <;> simp <;>
          exact allZip_refl rec _ krefl

theorem ms_refl (cfg : Cfg) : ∀ n x, Term cfg x → x.size + x.size ≤ n → ms cfg n x x = some true := by
  intro n
  induction n with
  | zero => intro x _ h; have := x.size_pos; omega
  | succ n ih =>
    intro x tx hs
    simp only [ms]
    have hss := x.strip_size
    apply body_refl cfg (ms cfg n) x.strip tx.strip
    · intro a
      cases x with
      | h b => simp only [Arg.strip, ne_eq, Arg.h.injEq]; exact strip_not_annotated b a
      | ell => simp [Arg.strip]
      | prm _ => simp [Arg.strip]
    · intro x' y' tx' ty' hlt
      exact ms_total cfg n x' y' tx' ty' (by omega)
    · intro x' tx' hlt
      exact ih x' tx' (by omega)

/-! ## the pinned code never answers for an old-style union -/

theorem old_union_self_diverges (cfg : Cfg) (he : cfg.unionOldExpanded = false) (hs : List Hint) :
    ∀ fuel, ms cfg fuel (.h (.unionOld hs)) (.h (.unionOld hs)) = none := by
  intro fuel
  induction fuel with
  | zero => rfl
  | succ n ih => simp [ms, msBody, Arg.strip, strip, isUnion, toTuple, he, allL, anyL, ih]

theorem old_union_left_diverges (cfg : Cfg) (he : cfg.unionOldExpanded = false) (hs : List Hint)
    (o : Arg) (ho : isUnion o.strip = false) :
    ∀ fuel, ms cfg fuel (.h (.unionOld hs)) o = none := by
  intro fuel
  induction fuel generalizing o with
  | zero => rfl
  | succ n ih =>
    have hso : isUnion o.strip.strip = false := by
      cases o with
      | h b =>
        have : strip (strip b) = strip b := by
          cases hb : strip b <;> simp [strip]
          exact absurd hb (strip_not_annotated b _)
        simpa [Arg.strip, this] using ho
      | ell => rfl
      | prm _ => rfl
    have e1 : (Arg.h (Hint.unionOld hs)).strip = Arg.h (Hint.unionOld hs) := rfl
    have e2 : toTuple cfg (Arg.h (Hint.unionOld hs)) = [Arg.h (Hint.unionOld hs)] := by
      simp [toTuple, he]
    simp only [ms, e1]
    unfold msBody
    rw [if_pos (by simp [isUnion]), e2, toTuple_nonunion cfg o.strip ho]
    simp only [allL, anyL, ih o.strip hso]

theorem old_union_right_diverges (cfg : Cfg) (he : cfg.unionOldExpanded = false) (hs : List Hint)
    (x : Arg) (hx : isUnion x.strip = false) :
    ∀ fuel, ms cfg fuel x (.h (.unionOld hs)) = none := by
  intro fuel
  induction fuel generalizing x with
  | zero => rfl
  | succ n ih =>
    have hsx : isUnion x.strip.strip = false := by
      cases x with
      | h b =>
        have : strip (strip b) = strip b := by
          cases hb : strip b <;> simp [strip]
          exact absurd hb (strip_not_annotated b _)
        simpa [Arg.strip, this] using hx
      | ell => rfl
      | prm _ => rfl
    have e1 : (Arg.h (Hint.unionOld hs)).strip = Arg.h (Hint.unionOld hs) := rfl
    have e2 : toTuple cfg (Arg.h (Hint.unionOld hs)) = [Arg.h (Hint.unionOld hs)] := by
      simp [toTuple, he]
    simp only [ms, e1]
    unfold msBody
    rw [if_pos (by simp [isUnion]), e2, toTuple_nonunion cfg x.strip hx]
    simp only [allL, anyL, ih x.strip hsx]

/-! ## more fuel never changes an answer -/

theorem anyL_mono {α} (g g' : α → Option Bool) (hg : ∀ x b, g x = some b → g' x = some b)
    (xs : List α) (b : Bool) (h : anyL g xs = some b) : anyL g' xs = some b := by
  induction xs with
  | nil => exact h
  | cons x xs ih =>
    simp only [anyL] at h ⊢
    split at h
    · cases h
    · rename_i e; rw [hg x true e]; exact h
    · rename_i e; rw [hg x false e]; exact ih h

theorem allL_mono {α} (g g' : α → Option Bool) (hg : ∀ x b, g x = some b → g' x = some b)
    (xs : List α) (b : Bool) (h : allL g xs = some b) : allL g' xs = some b := by
  induction xs with
  | nil => exact h
  | cons x xs ih =>
    simp only [allL] at h ⊢
    split at h
    · cases h
    · rename_i e; rw [hg x false e]; exact h
    · rename_i e; rw [hg x true e]; exact ih h

theorem allZip_mono {α} (f f' : α → α → Option Bool) (hf : ∀ x y b, f x y = some b → f' x y = some b)
    (xs ys : List α) (b : Bool) (h : allZip f xs ys = some b) : allZip f' xs ys = some b := by
  induction xs generalizing ys with
  | nil => simpa [allZip] using h
  | cons x xs ih =>
    cases ys with
    | nil => simpa [allZip] using h
    | cons y ys =>
      simp only [allZip] at h ⊢
      split at h
      · cases h
      · rename_i e; rw [hf x y false e]; exact h
      · rename_i e; rw [hf x y true e]; exact ih ys h

theorem body_mono (cfg : Cfg) (rec rec' : Arg → Arg → Option Bool)
    (hr : ∀ x y b, rec x y = some b → rec' x y = some b) (h o : Arg) (b : Bool)
    (hm : msBody cfg rec h o = some b) : msBody cfg rec' h o = some b := by
  unfold msBody at hm ⊢
  by_cases hu : (isUnion h || isUnion o) = true
  · rw [if_pos hu] at hm ⊢
    exact allL_mono _ _ (fun x b' hx => anyL_mono _ _ (fun y => hr x y) _ b' hx) _ b hm
  · rw [if_neg hu] at hm ⊢
    revert hm
    cases argOrigin h <;> cases argOrigin o <;> dsimp only <;> intro hm
    · exact hm
    · exact hm
    · exact hm
    · rename_i g g'
      by_cases hg : (g != g') = true
      · rw [if_pos hg] at hm ⊢; exact hm
      · rw [if_neg hg] at hm ⊢
        split at hm
        · exact hm
        · rename_i hnl
          split
          · rw [if_pos (by assumption)] at hm; exact hm
          · rw [if_neg (by assumption)] at hm
            by_cases c3 : cfg.argsFix = true
            · simp only [c3, if_true] at hm ⊢
              by_cases c5 : (argArgs o).isEmpty = true
              · simp only [c5, if_true] at hm ⊢; exact hm
              · simp only [c5] at hm ⊢
                by_cases c6 : ((argArgs o).length == (argArgs h).length) = true
                · simp only [c6, if_true] at hm ⊢
                  exact allZip_mono _ _ hr _ _ b hm
                · simp only [c6] at hm ⊢; exact hm
            · simp only [c3] at hm ⊢
              by_cases c4 : g.ordered = true
              · simp only [c4, if_true] at hm ⊢
                by_cases c5 : (argArgs o).isEmpty = true
                · simp only [c5, if_true] at hm ⊢; exact hm
                · simp only [c5] at hm ⊢
                  by_cases c6 : ((argArgs o).length == (argArgs h).length) = true
                  · simp only [c6, if_true] at hm ⊢
                    exact allZip_mono _ _ hr _ _ b hm
                  · simp only [c6] at hm ⊢; exact hm
              · simp only [c4] at hm ⊢
                exact allL_mono _ _ (fun x b' hx => anyL_mono _ _ (fun y => hr x y) _ b' hx) _ b hm

theorem ms_mono (cfg : Cfg) : ∀ n x y b, ms cfg n x y = some b → ms cfg (n + 1) x y = some b := by
  intro n
  induction n with
  | zero => intro x y b h; simp [ms] at h
  | succ n ih =>
    intro x y b h
    simp only [ms] at h ⊢
    exact body_mono cfg _ _ (fun x y b hb => by simpa [ms] using ih x y b hb) _ _ b h

theorem ms_mono_le (cfg : Cfg) (n m : Nat) (hle : n ≤ m) (x y : Arg) (b : Bool)
    (h : ms cfg n x y = some b) : ms cfg m x y = some b := by
  induction hle with
  | refl => exact h
  | step _ ih => exact ms_mono cfg _ x y b ih

/-! ## combining sub-hint predicates -/

mutual
theorem every_imp (p q : Hint → Bool) (hpq : ∀ x, p x = true → q x = true) :
    ∀ h : Hint, every p h = true → every q h = true
  | .cls _, e | .noneVal, e | .literal _, e | .any, e | .bare _, e => by simp only [every] at e ⊢; exact hpq _ e
  | .unionNew hs, e | .unionOld hs, e | .tupleFix hs, e => by
    simp only [every, Bool.and_eq_true] at e ⊢
    exact ⟨hpq _ e.1, everyL_imp p q hpq hs e.2⟩
  | .annotated a, e | .listOf a, e | .setOf a, e | .tupleVar a, e | .typeOf a, e
  | .callableOf _ a, e | .seqOf a, e => by
    simp only [every, Bool.and_eq_true] at e ⊢
    exact ⟨hpq _ e.1, every_imp p q hpq a e.2⟩
  | .dictOf k v, e | .mapOf k v, e => by
    simp only [every, Bool.and_eq_true] at e ⊢
    exact ⟨⟨hpq _ e.1.1, every_imp p q hpq k e.1.2⟩, every_imp p q hpq v e.2⟩
theorem everyL_imp (p q : Hint → Bool) (hpq : ∀ x, p x = true → q x = true) :
    ∀ hs : List Hint, everyL p hs = true → everyL q hs = true
  | [], _ => rfl
  | h :: hs, e => by
    simp only [everyL, Bool.and_eq_true] at e ⊢
    exact ⟨every_imp p q hpq h e.1, everyL_imp p q hpq hs e.2⟩
end

mutual
theorem every_and (p q : Hint → Bool) :
    ∀ h : Hint, every p h = true → every q h = true → every (fun x => p x && q x) h = true
  | .cls _, e, f | .noneVal, e, f | .literal _, e, f | .any, e, f | .bare _, e, f => by
    simp only [every] at e f ⊢; simp [e, f]
  | .unionNew hs, e, f | .unionOld hs, e, f | .tupleFix hs, e, f => by
    simp only [every, Bool.and_eq_true] at e f ⊢
    exact ⟨⟨e.1, f.1⟩, everyL_and p q hs e.2 f.2⟩
  | .annotated a, e, f | .listOf a, e, f | .setOf a, e, f | .tupleVar a, e, f | .typeOf a, e, f
  | .callableOf _ a, e, f | .seqOf a, e, f => by
    simp only [every, Bool.and_eq_true] at e f ⊢
    exact ⟨⟨e.1, f.1⟩, every_and p q a e.2 f.2⟩
  | .dictOf k v, e, f | .mapOf k v, e, f => by
    simp only [every, Bool.and_eq_true] at e f ⊢
    exact ⟨⟨⟨e.1.1, f.1.1⟩, every_and p q k e.1.2 f.1.2⟩, every_and p q v e.2 f.2⟩
theorem everyL_and (p q : Hint → Bool) :
    ∀ hs : List Hint, everyL p hs = true → everyL q hs = true →
      everyL (fun x => p x && q x) hs = true
  | [], _, _ => rfl
  | h :: hs, e, f => by
    simp only [everyL, Bool.and_eq_true] at e f ⊢
    exact ⟨every_and p q h e.1 f.1, everyL_and p q hs e.2 f.2⟩
end

theorem every_and3 (p q r : Hint → Bool) (h : Hint) (hp : every p h = true) (hq : every q h = true)
    (hr : every r h = true) : every (fun x => p x && q x && r x) h = true :=
  every_and (fun x => p x && q x) r h (every_and p q h hp hq) hr

mutual
theorem every_true : ∀ h : Hint, every (fun _ => true) h = true
  | .cls _ | .noneVal | .literal _ | .any | .bare _ => by simp [every]
  | .unionNew hs | .unionOld hs | .tupleFix hs => by simp [every, everyL_true hs]
  | .annotated a | .listOf a | .setOf a | .tupleVar a | .typeOf a | .callableOf _ a | .seqOf a => by
    simp [every, every_true a]
  | .dictOf k v | .mapOf k v => by simp [every, every_true k, every_true v]
theorem everyL_true : ∀ hs : List Hint, everyL (fun _ => true) hs = true
  | [] => rfl
  | h :: hs => by simp [everyL, every_true h, everyL_true hs]
end

theorem litClean_of_litsIn (S : Lit → Bool)
    (hS : ∀ a b, S a = true → S b = true → a.pyEq b = true → a = b) (x : Hint)
    (hx : litsIn S x = true) : litClean x = true := by
  cases x <;> simp only [litClean]
  rename_i ls
  simp only [litsIn, List.all_eq_true] at hx
  simp only [List.all_eq_true, Bool.or_eq_true, Bool.not_eq_true', beq_iff_eq]
  intro a ha b hb
  cases hab : a.pyEq b
  · exact Or.inl rfl
  · exact Or.inr (hS a b (hx a ha) (hx b hb) hab)

theorem every_litsIn_true (h : Hint) : every (litsIn fun _ => true) h = true :=
  every_imp (fun _ => true) _ (fun x _ => by cases x <;> simp [litsIn]) h (every_true h)

end PwVerif.Hint
