import PwVerif.Model.DcMro
/-! Lemmas for the dataclass field table along the MRO and the per-class preview memo (C17). -/
namespace PwVerif.DcMro
open PwVerif PwVerif.FuncWrap

theorem put_names_mem (tbl : List DField) (f : DField) (h : tbl.any (fun g => g.name == f.name) = true) :
    (put tbl f).map (·.name) = tbl.map (·.name) := by
  simp only [put, h, if_true, List.map_map]
  apply List.map_congr_left
  intro g _
  by_cases e : g.name = f.name <;> simp [e]

theorem put_names_new (tbl : List DField) (f : DField) (h : tbl.any (fun g => g.name == f.name) = false) :
    (put tbl f).map (·.name) = tbl.map (·.name) ++ [f.name] := by
  simp [put, h]

/-- after `fields[f.name] = f` the entry called like `f` is `f` -/
theorem put_find (tbl : List DField) (f : DField) : (put tbl f).find? (fun g => g.name == f.name) = some f := by
  unfold put
  split
  · rename_i h
    induction tbl with
    | nil => simp at h
    | cons g r ih =>
      by_cases e : g.name = f.name
      · simp [e]
      · have : r.any (fun g => g.name == f.name) = true := by simpa [e] using h
        simp [e, ih this]
  · rename_i h
    have h' : tbl.any (fun g => g.name == f.name) = false := by simpa using h
    rw [List.find?_append]
    have : tbl.find? (fun g => g.name == f.name) = none := by
      rw [List.find?_eq_none]
      intro g hg
      simp only [List.any_eq_false] at h'
      exact h' g hg
    simp [this]

theorem map_replace_find (tbl : List DField) (f : DField) (n : String) (hn : n ≠ f.name) :
    (tbl.map (fun g => if g.name = f.name then f else g)).find? (fun g => g.name == n)
      = tbl.find? (fun g => g.name == n) := by
  induction tbl with
  | nil => rfl
  | cons g r ih =>
    simp only [List.map_cons, List.find?_cons]
    by_cases e : g.name = f.name
    · have hne : ¬ f.name = n := fun h => hn h.symm
      have h1 : (f.name == n) = false := by simpa using hne
      have h2 : (g.name == n) = false := by rw [e]; exact h1
      simp only [e, if_true, h1, h2]
      exact ih
    · simp only [e, if_false]
      cases (g.name == n) with
      | true => rfl
      | false => exact ih

/-- an entry of another name is not touched -/
theorem put_find_other (tbl : List DField) (f : DField) (n : String) (hn : n ≠ f.name) :
    (put tbl f).find? (fun g => g.name == n) = tbl.find? (fun g => g.name == n) := by
  unfold put
  split
  · exact map_replace_find tbl f n hn
  · rw [List.find?_append]
    have : ¬ f.name = n := fun h => hn h.symm
    cases tbl.find? (fun g => g.name == n) <;> simp [this]

theorem putAll_find_other (tbl fs : List DField) (n : String) (hn : ∀ f ∈ fs, f.name ≠ n) :
    (putAll tbl fs).find? (fun g => g.name == n) = tbl.find? (fun g => g.name == n) := by
  induction fs generalizing tbl with
  | nil => rfl
  | cons f r ih =>
    simp only [putAll, List.foldl_cons]
    have := ih (put tbl f) (fun g hg => hn g (List.mem_cons_of_mem _ hg))
    simp only [putAll] at this
    rw [this, put_find_other tbl f n (fun e => hn f (by simp) e.symm)]

/-- **own members win**: every member of the class body is found in the table under its name (members of one
class body have distinct names) -/
theorem putAll_find_own (tbl fs : List DField) (hnd : (fs.map (·.name)).Nodup) (f : DField) (hf : f ∈ fs) :
    (putAll tbl fs).find? (fun g => g.name == f.name) = some f := by
  induction fs generalizing tbl with
  | nil => cases hf
  | cons x r ih =>
    simp only [putAll, List.foldl_cons]
    have hx := List.nodup_cons.mp (by simpa only [List.map_cons] using hnd)
    simp only [List.mem_cons] at hf
    rcases hf with rfl | hf
    · have := putAll_find_other (put tbl f) r f.name (by
        intro g hg e
        exact hx.1 (by rw [← e]; exact List.mem_map_of_mem hg))
      simp only [putAll] at this
      rw [this, put_find]
    · have := ih (put tbl x) hx.2 hf
      simpa [putAll] using this


/-! ### the memo -/

theorem memoRun_perClass {α : Type} (parent : Nat → Option Nat) (fuel : Nat) (build : Nat → α)
    (memo : Nat → Option α) (h : ∀ c v, memo c = some v → v = build c) (reqs : List Nat) :
    memoRun false parent fuel build memo reqs = reqs.map build := by
  induction reqs generalizing memo with
  | nil => rfl
  | cons c cs ih =>
    simp only [memoRun, List.map_cons, memoGet, Bool.false_eq_true, if_false]
    cases hm : memo c with
    | some v =>
      simp only
      rw [ih memo h, h c v hm]
    | none =>
      simp only
      rw [ih _ (by
        intro x v hx
        by_cases e : x = c
        · subst e; simp at hx; exact hx.symm
        · simp [e] at hx; exact h x v hx)]

/-! ### default factories and instances -/

/-- a new instance gets the identities `next, next+1, …`, each holding its factory's product; older objects are untouched -/
theorem newInst_spec (h : Heap) (facs : List (List Val)) :
    (newInst h facs).1 = List.range' h.next facs.length ∧
    (newInst h facs).2.next = h.next + facs.length ∧
    (∀ k (hk : k < facs.length), (newInst h facs).2.cell (h.next + k) = some facs[k]) ∧
    (∀ i, i < h.next → (newInst h facs).2.cell i = h.cell i) := by
  induction facs generalizing h with
  | nil => simp [newInst]
  | cons c cs ih =>
    obtain ⟨i1, i2, i3, i4⟩ := ih (h.alloc c).2
    have hn : (h.alloc c).2.next = h.next + 1 := rfl
    simp only [newInst, List.length_cons]
    refine ⟨?_, ?_, ?_, ?_⟩
    · rw [i1, hn]; simp [Heap.alloc, List.range'_succ]
    · rw [i2, hn]; omega
    · intro k hk
      cases k with
      | zero =>
        have := i4 h.next (by rw [hn]; omega)
        simp only [Nat.add_zero, List.getElem_cons_zero]
        rw [this]; simp [Heap.alloc]
      | succ j =>
        have := i3 j (by simpa using hk)
        rw [hn] at this
        simp only [List.getElem_cons_succ]
        rw [← this]; congr 1; omega
    · intro i hi
      rw [i4 i (by rw [hn]; omega)]
      have : i ≠ h.next := by omega
      simp [Heap.alloc, this]

end PwVerif.DcMro
