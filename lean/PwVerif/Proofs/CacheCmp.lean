import PwVerif.Model.CacheCmp
namespace PwVerif.CacheCmp
variable {V O : Type}

structure Sim (F : V → O) (a b : St V O) : Prop where
  inp : a.inp = b.inp
  out : a.out = b.out
  valid : ∀ c, a.cached = some c → a.out = some (F c)

theorem step_sim (same : V → V → Bool) (F : V → O) (hs : ∀ v c, same v c = true → F v = F c) (a b : St V O) (op : Op V)
    (h : Sim F a b) :
    Sim F (step same F true a op).1 (step same F false b op).1 ∧ (step same F true a op).2 = (step same F false b op).2 := by
  obtain ⟨hi, ho, hv⟩ := h
  obtain ⟨ai, ao, ac⟩ := a
  obtain ⟨bi, bo, bc⟩ := b
  simp only at hi ho hv
  subst hi ho
  cases op with
  | set v => exact ⟨⟨rfl, rfl, hv⟩, rfl⟩
  | run =>
    cases ai with
    | none => exact ⟨⟨rfl, rfl, hv⟩, rfl⟩
    | some v =>
      cases ac with
      | none => simp only [step, Bool.true_and, Bool.false_and]; exact ⟨⟨rfl, rfl, by simp⟩, rfl⟩
      | some c =>
        by_cases hh : same v c = true
        · have := hv c rfl
          simp only [step, hh, Bool.true_and, Bool.false_and, if_true, Bool.false_eq_true, if_false, this, hs v c hh]
          exact ⟨⟨rfl, rfl, by simpa using hv⟩, by first | rfl | trivial⟩
        · simp only [step, hh, Bool.true_and, Bool.false_and, Bool.false_eq_true, if_false, if_true]
          exact ⟨⟨rfl, rfl, by simp⟩, by first | rfl | trivial⟩

theorem runOps_sim (same : V → V → Bool) (F : V → O) (hs : ∀ v c, same v c = true → F v = F c) (ops : List (Op V))
    (a b : St V O) (h : Sim F a b) :
    (runOps same F true a ops).2 = (runOps same F false b ops).2 ∧ Sim F (runOps same F true a ops).1 (runOps same F false b ops).1 := by
  induction ops generalizing a b with
  | nil => exact ⟨rfl, h⟩
  | cons o os ih =>
    obtain ⟨h1, h2⟩ := step_sim same F hs a b o h
    obtain ⟨i1, i2⟩ := ih _ _ h1
    simp only [runOps]
    exact ⟨by rw [h2, i1], i2⟩

end PwVerif.CacheCmp
