import PwVerif.Model.RemoteRoutes
import PwVerif.Proofs.Remote
/-! The lock holds on every route: no setter call, entering anywhere, changes the inputs of a node that is out. -/
namespace PwVerif.Remote

mutual
theorem assignC_frozen : ∀ (n : Node) (k : Nat) (v : Val) (n' : Node),
    assignC true true k v n = some n' → frozenT n' = frozenT n
  | .fn o fid, k, v, n', h => by
    simp only [assignC, Bool.true_and] at h
    split at h
    · simp at h
    · rename_i hl
      simp only [Option.some.injEq] at h
      subst h
      simp only [frozenT]
      simp [hl]
  | .comp o c links kids, k, v, n', h => by
    simp only [assignC, Bool.true_and] at h
    split at h
    · simp at h
    · rename_i hl
      split at h
      · rename_i r hr
        split at h
        · simp at h
        · rename_i kids' hk
          simp only [Option.some.injEq] at h
          subst h
          simp only [frozenT, assignKidC_frozen kids r v 0 kids' hk]
          simp [hl]
      · simp only [Option.some.injEq] at h
        subst h
        simp only [frozenT]
        simp [hl]
theorem assignKidC_frozen : ∀ (ks : List Node) (r : Ref) (v : Val) (p : Nat) (ks' : List Node),
    assignKidC true r v p ks = some ks' → frozenTKids ks' = frozenTKids ks
  | [], _, _, _, ks', h => by
    simp only [assignKidC, Option.some.injEq] at h
    subst h; rfl
  | n :: ns, r, v, p, ks', h => by
    simp only [assignKidC] at h
    split at h
    · split at h
      · simp at h
      · rename_i n' hn
        simp only [Option.some.injEq] at h
        subst h
        simp only [frozenTKids, assignC_frozen n r.slot v n' hn]
    · split at h
      · simp at h
      · rename_i ns' hns
        simp only [Option.some.injEq] at h
        subst h
        simp only [frozenTKids, assignKidC_frozen ns r v (p + 1) ns' hns]
end

mutual
theorem assignAt_frozen : ∀ (n : Node) (k : Nat) (v : Val) (path : List Nat) (n' : Node),
    assignAt true k v path n = some n' → frozenT n' = frozenT n
  | n, k, v, [], n', h => by
    simp only [assignAt] at h
    exact assignC_frozen n k v n' h
  | .fn o fid, k, v, j :: path, n', h => by simp [assignAt] at h
  | .comp o c links kids, k, v, j :: path, n', h => by
    simp only [assignAt] at h
    split at h
    · simp at h
    · rename_i kids' hk
      simp only [Option.some.injEq] at h
      subst h
      simp only [frozenT, assignAtKids_frozen kids k v j path kids' hk]
theorem assignAtKids_frozen : ∀ (ks : List Node) (k : Nat) (v : Val) (j : Nat) (path : List Nat)
    (ks' : List Node), assignAtKids true k v j path ks = some ks' → frozenTKids ks' = frozenTKids ks
  | [], _, _, _, _, _, h => by simp [assignAtKids] at h
  | n :: ns, k, v, 0, path, ks', h => by
    simp only [assignAtKids] at h
    split at h
    · simp at h
    · rename_i n' hn
      simp only [Option.some.injEq] at h
      subst h
      simp only [frozenTKids, assignAt_frozen n k v path n' hn]
  | n :: ns, k, v, j + 1, path, ks', h => by
    simp only [assignAtKids] at h
    split at h
    · simp at h
    · rename_i ns' hns
      simp only [Option.some.injEq] at h
      subst h
      simp only [frozenTKids, assignAtKids_frozen ns k v j path ns' hns]
end

theorem applySetters_frozen : ∀ (ss : List Setter) (n : Node),
    frozenT (applySetters true n ss) = frozenT n
  | [], _ => rfl
  | s :: ss, n => by
    simp only [applySetters]
    split
    · exact applySetters_frozen ss n
    · rename_i n' h
      rw [applySetters_frozen ss n', assignAt_frozen n s.k s.v s.path n' h]

/-- a refused or accepted setter call at the locked node itself: refused -/
theorem assignAt_locked_entry (atRecv : Bool) (n : Node) (k : Nat) (v : Val) (h : n.locked = true) :
    assignAt atRecv k v [] n = none := by
  cases n with
  | fn o fid => simp_all [assignAt, assignC, Node.locked]
  | comp o c l ks => simp_all [assignAt, assignC, Node.locked]

end PwVerif.Remote
